import CotengraVerif.Lemmas.DPFinal

/-!
# C09 — the 'optimal' pathfinder really is optimal

**Modelled** (Model/DP.lean, transcribed from cotengra/pathfinders/path_basic.py):
`compute_con_cost_flops/max/size/write/combo/limit` (:116-265) as `DP.conCost*`; the objective
table of `parse_minimize_for_optimal` (:268-309) as `DP.Objective`/`DP.conCost`; the sorted
`(ix, 1)` legs built by `ContractionProcessor.__init__` (:345-363) as `DP.initLegs`; the whole of
`optimize_optimal_connected` (:632-747) for `where = all nodes`: tables per subset size keyed by
bitmask, sweep `m = 2..n`, `k = 1..m/2`, `product` / `combinations`, overlap test,
`skip_because_outer`, merged legs, step cost, sieve `new_score > cost_cap`, keep-if-strictly-
better, outer `while` doubling the cap (`DP.tryPair/processK/processM/sweep/loop/dp`).

**Independent definition** (Lemmas/DPSpec.lean): `treeCost g obj t` prices a binary tree from the
network alone through the leaf-set survivors of L1 (`Net.Surv`): step flops = product of the
dimensions of the indices surviving either operand, step size = product over the indices surviving
the union; `OPF g t` = every step's operands share a surviving index.

**Not modelled here**: `ContractionProcessor.simplify` (a no-op under the property's guard — checked
dynamically by the harness), `subgraphs()` (one component under the guard), the final replay of
the bit-path through `contract_nodes` and `ssa_to_linear` (covered by the end-to-end comparison of
costs in harness/c09.py), float rounding of `combo`/`limit`: a factor `num/den` is modelled exactly by scores scaled with `den`
(`Objective.combo num den`, see Model/DP.lean; `den = 1` is the literal integer-factor code).

All theorems are for every network, every objective (any natural `factor`), both `search_outer`
values and every initial `cost_cap ≥ 1`; no bound on sizes.
-/
namespace Cotengra.C09
open Cotengra Cotengra.Net Cotengra.Legs Cotengra.DP

/-! ## the six step-cost functions -/

/-- **cost_fn_eq_spec** (×6, one statement over `obj`). Run on the merged legs of two
    sub-results whose legs meet the leaf-set characterisation, `compute_con_cost_<obj>`
    (i) leaves legs meeting the characterisation for the joined node — it removes exactly the indices
    all of whose appearances are now inside — and (ii) returns `combine obj` of the operands' scores
    with the step's flops and size *as defined from the network alone*:
    flops `a+b+F`, max `max(a,b,F)`, size `max(a,b,S)`, write `a+b+S`, combo `a+b+(den·F+num·S)`,
    limit `a+b+max(den·F,num·S)` (factor `num/den`, scores scaled by `den`). -/
theorem cost_fn_eq_spec (g : Net) (obj : Objective) {l r : BT} {La Lb : Legs} (a b : Nat)
    (hv : Valid g (.node l r)) (hl : LegsSpec g l La) (hr : LegsSpec g r Lb) :
    LegsSpec g (.node l r) (conCost g obj (mergeLegs La Lb).1 a b).1 ∧
    (conCost g obj (mergeLegs La Lb).1 a b).2 =
      combine obj a b (stepFlops g l r) (stepSize g l r) :=
  conCost_spec g obj a b hv hl hr

/-- the sorted simultaneous iteration: sorted output, counts added, and the `skip_because_outer`
    flag is reset exactly when the operands share a surviving index -/
theorem mergeLegs_spec (g : Net) {l r : BT} {La Lb : Legs} (hl : LegsSpec g l La)
    (hr : LegsSpec g r Lb) :
    Sorted (mergeLegs La Lb).1 ∧
    (∀ ix, Legs.get (mergeLegs La Lb).1 ix = Legs.get La ix + Legs.get Lb ix) ∧
    ((mergeLegs La Lb).2 = true ↔ ∃ ix, g.Surv [] l ix ∧ g.Surv [] r ix) :=
  ⟨sorted_merge La Lb hl.sorted hr.sorted, get_merge La Lb hl.sorted hr.sorted,
   shared_spec g hl hr⟩

/-- the pricing the driver applies to the *real* path (the `ContractionTree` model of
    Model/Net.lean: `nodeFlops`, `nodeSize`) equals the independent definition, for every network -/
theorem modelTreeCost_eq_spec (g : Net) (obj : Objective) (t : BT) (hv : Valid g t) :
    modelTreeCost g obj t = treeCost g obj t ∧ (modelHasOuter g t = false ↔ OPF g t) :=
  ⟨modelTreeCost_eq g obj t hv, modelHasOuter_iff g t hv⟩

/-! ## soundness of every table entry -/

/-- the table states the code can be in when the `while` condition is evaluated: the initial
    tables, then any number of sweeps with *any* caps (tables persist between rounds) -/
inductive Reachable (g : Net) (obj : Objective) (outer : Bool) : List Table → Prop
  | init : Reachable g obj outer (initTabs g g.inputs.length)
  | sweep (cap : Nat) (tabs : List Table) : Reachable g obj outer tabs →
      Reachable g obj outer (sweep g obj outer cap g.inputs.length tabs)

theorem reachable_inv (g : Net) (obj : Objective) (outer : Bool) (hg : LeafGuard g)
    (hn1 : 1 ≤ g.inputs.length) (tabs : List Table) (hr : Reachable g obj outer tabs) :
    TabsOK g obj outer g.inputs.length tabs ∧ Base g.inputs.length tabs := by
  induction hr with
  | init => exact ⟨init_tabsOK g obj outer hg _ rfl hn1, init_base g _⟩
  | sweep cap tabs _ ih =>
    have := sweep_inv g obj outer _ cap tabs rfl hn1 ih.1 ih.2
    exact ⟨this.ok, this.base⟩

/-- **dp_sound**. Every entry `(S ↦ legs, score, path)` of every table, in every reachable state:
    `path` is a tree over distinct inputs whose leaf set is `S` and has `m` elements, `legs` are the
    surviving indices of `S` with their counts, `score` is the objective value of that tree as
    defined from the network alone, and the tree is in the searched class. -/
theorem dp_sound (g : Net) (obj : Objective) (outer : Bool) (hg : LeafGuard g)
    (hn1 : 1 ≤ g.inputs.length) (tabs : List Table) (hr : Reachable g obj outer tabs)
    (m k : Nat) (e : Entry) (hmem : (k, e) ∈ tab tabs m) :
    Valid g e.tree ∧ e.tree.leaves.length = m ∧ k = maskOf e.tree.leaves ∧
      LegsSpec g e.tree e.legs ∧ e.score = treeCost g obj e.tree ∧ Adm g outer e.tree := by
  have h := ((reachable_inv g obj outer hg hn1 tabs hr).1.2 m).2 (k, e) hmem
  exact ⟨h.1.valid, h.2, h.1.key, h.1.legs, h.1.score, h.1.adm⟩

/-! ## completeness under the cap -/

theorem valid_length_le {g : Net} {t : BT} (hv : Valid g t) :
    t.leaves.length ≤ g.inputs.length := by
  have := (List.subperm_of_subset hv.nodup
    (fun i hi => List.mem_range.2 (hv.bound i hi))).length_le
  rwa [List.length_range] at this

/-- **dp_complete_under_cap**. After a full sweep with cap `C` from any reachable state, for every
    admissible tree `t` (any tree if `search_outer`, outer-product-free otherwise) with
    `treeCost t ≤ C` the table of size `|t|` holds an entry under the key of `t`'s leaf set whose
    score is at most `treeCost t`. (Imperative sweep order, in-place table updates included.) -/
theorem dp_complete_under_cap (g : Net) (obj : Objective) (outer : Bool) (hg : LeafGuard g)
    (tabs : List Table) (hr : Reachable g obj outer tabs) (C : Nat) (t : BT)
    (hv : Valid g t) (ha : Adm g outer t) (hC : treeCost g obj t ≤ C) :
    ∃ e, (maskOf t.leaves, e) ∈ tab (sweep g obj outer C g.inputs.length tabs) t.leaves.length ∧
      e.score ≤ treeCost g obj t := by
  have hlen := valid_length_le hv
  have hpos := leaves_length_pos t
  have hn1 : 1 ≤ g.inputs.length := by omega
  have hi := reachable_inv g obj outer hg hn1 tabs hr
  have hs := sweep_inv g obj outer _ C tabs rfl hn1 hi.1 hi.2
  exact hs.covers t.leaves.length hpos (by omega) t hv ha rfl hC

/-! ## optimality -/

/-- **dp_optimal**. Whenever the searched class is non-empty (`t0`), for every initial
    `cost_cap ≥ 1` the loop terminates (any fuel above `treeCost t0` suffices, i.e. after at most
    that many doublings), the full table holds exactly one entry, and that entry is a complete
    admissible tree whose recorded score is its objective value and is minimal among *all* complete
    admissible trees. -/
theorem dp_optimal (g : Net) (obj : Objective) (outer : Bool) (cap : Nat) (hg : LeafGuard g)
    (h1 : 1 ≤ cap) (t0 : BT) (hf0 : Full g t0) (ha0 : Adm g outer t0) (fuel : Nat)
    (hfuel : treeCost g obj t0 + 1 ≤ fuel) :
    ∃ e, dp g obj outer cap fuel = some e ∧ Full g e.tree ∧ Adm g outer e.tree ∧
      e.score = treeCost g obj e.tree ∧
      ∀ t', Full g t' → Adm g outer t' → treeCost g obj e.tree ≤ treeCost g obj t' := by
  have hn1 : 1 ≤ g.inputs.length := hf0.2 ▸ leaves_length_pos t0
  obtain ⟨tabs', cap', hl, hinv, hne⟩ :=
    loop_spec g obj outer _ rfl hn1 t0 hf0 ha0 fuel cap (initTabs g g.inputs.length) h1
      (init_loopInv g obj outer hg _ rfl hn1) (Or.inr ⟨by omega, by omega⟩)
  obtain ⟨e, hs, hfull, hadm, hscore, _, hopt⟩ := result_optimal g obj outer _ rfl tabs' hinv hne
  refine ⟨e, ?_, hfull, hadm, hscore, hopt⟩
  unfold dp
  simp only [hl]
  exact hs

/-- the property's guard, clause by clause -/
structure NothingToSimplify (g : Net) : Prop where
  /-- no repeated index within a tensor -/
  no_repeat : ∀ i < g.inputs.length, (g.term i).Nodup
  /-- no index confined to one tensor and absent from the output -/
  no_reduce : ∀ i < g.inputs.length, ∀ ix ∈ g.term i, 1 < g.app ix
  /-- no two tensors with the same index set -/
  no_hadamard : ∀ i < g.inputs.length, ∀ j < g.inputs.length, i ≠ j →
    ¬ (∀ ix, ix ∈ g.term i ↔ ix ∈ g.term j)
  /-- no scalars -/
  no_scalar : ∀ i < g.inputs.length, g.term i ≠ []
  /-- no index shared by all tensors -/
  no_batch : ∀ ix, ∃ i < g.inputs.length, ix ∉ g.term i

theorem NothingToSimplify.leafGuard {g : Net} (h : NothingToSimplify g) : LeafGuard g :=
  fun i hi => ⟨h.no_repeat i hi, h.no_reduce i hi⟩

/-- a connected network has a complete outer-product-free contraction tree (a caterpillar grown
    along non-empty cuts) -/
theorem connected_has_opf_tree (g : Net) (hc : Connected g) (hn1 : 1 ≤ g.inputs.length) :
    ∃ t, Full g t ∧ OPF g t := by
  obtain ⟨t, hv, hl, ho⟩ := connected_caterpillar g hc hn1 g.inputs.length hn1 (Nat.le_refl _)
  exact ⟨t, ⟨hv, hl⟩, ho⟩

/-- **dp_optimal_connected** — the property as stated: connected network with nothing to
    pre-simplify, any objective, either `search_outer`, any initial `cost_cap ≥ 1`: the loop
    terminates and returns a tree of minimum objective value over all binary contraction trees
    (`outer = true`) / all outer-product-free trees (`outer = false`). -/
theorem dp_optimal_connected (g : Net) (obj : Objective) (outer : Bool) (cap : Nat)
    (hs : NothingToSimplify g) (hc : Connected g) (hn1 : 1 ≤ g.inputs.length) (h1 : 1 ≤ cap) :
    ∃ R, ∀ fuel, R ≤ fuel → ∃ e, dp g obj outer cap fuel = some e ∧ Full g e.tree ∧
      Adm g outer e.tree ∧ e.score = treeCost g obj e.tree ∧
      ∀ t', Full g t' → Adm g outer t' → treeCost g obj e.tree ≤ treeCost g obj t' := by
  obtain ⟨t0, hf0, ho0⟩ := connected_has_opf_tree g hc hn1
  exact ⟨treeCost g obj t0 + 1, fun fuel hf =>
    dp_optimal g obj outer cap hs.leafGuard h1 t0 hf0 (Or.inr ho0) fuel hf⟩

/-! ## a decidable sufficient condition for `Connected`, for the examples -/

/-- every tensor but the first shares an index with an earlier one -/
def ChainConnected (g : Net) : Prop :=
  ∀ j < g.inputs.length, 1 ≤ j → ∃ i < j, ∃ ix ∈ g.term i, ix ∈ g.term j

instance (g : Net) : Decidable (ChainConnected g) := by unfold ChainConnected; infer_instance

theorem chain_connected (g : Net) (h : ChainConnected g) : Connected g := by
  intro S hnd hb hne hlt
  -- some tensor is outside S
  have hout : ∃ b, b < g.inputs.length ∧ b ∉ S := by
    by_contra hcon
    have hall : ∀ b, b < g.inputs.length → b ∈ S := by
      intro b hb'
      by_contra hnb
      exact hcon ⟨b, hb', hnb⟩
    have := (List.subperm_of_subset List.nodup_range
      (fun i hi => hall i (List.mem_range.1 hi))).length_le
    rw [List.length_range] at this
    omega
  -- along the parent chain of any tensor, membership in S either equals that of tensor 0 or flips
  have key : ∀ j, j < g.inputs.length → ((j ∈ S ↔ 0 ∈ S) ∨
      ∃ ix i j', i ∈ S ∧ j' < g.inputs.length ∧ j' ∉ S ∧ ix ∈ g.term i ∧ ix ∈ g.term j') := by
    intro j
    induction j using Nat.strong_induction_on with
    | _ j ih =>
      intro hj
      by_cases hj0 : j = 0
      · subst hj0; exact Or.inl Iff.rfl
      · obtain ⟨i, hij, ix, hixi, hixj⟩ := h j hj (by omega)
        by_cases hiS : i ∈ S <;> by_cases hjS : j ∈ S
        · rcases ih i hij (by omega) with e | e
          · exact Or.inl ⟨fun _ => e.1 hiS, fun _ => hjS⟩
          · exact Or.inr e
        · exact Or.inr ⟨ix, i, j, hiS, hj, hjS, hixi, hixj⟩
        · exact Or.inr ⟨ix, j, i, hjS, by omega, hiS, hixj, hixi⟩
        · rcases ih i hij (by omega) with e | e
          · exact Or.inl ⟨fun hh => absurd hh hjS, fun hh => absurd (e.2 hh) hiS⟩
          · exact Or.inr e
  obtain ⟨a, ha⟩ := List.exists_mem_of_ne_nil S hne
  obtain ⟨b, hb1, hb2⟩ := hout
  rcases key a (hb a ha) with ea | ea
  · rcases key b hb1 with eb | eb
    · exact absurd (eb.2 (ea.1 ha)) hb2
    · exact eb
  · exact ea

instance (g : Net) : Decidable (LeafGuard g) := by unfold LeafGuard; infer_instance

/-- decidable form of "no two tensors with the same index set" -/
theorem no_hadamard_of_dec (g : Net)
    (h : ∀ i < g.inputs.length, ∀ j < g.inputs.length, i = j ∨
      (∃ ix ∈ g.term i, ix ∉ g.term j) ∨ (∃ ix ∈ g.term j, ix ∉ g.term i)) :
    ∀ i < g.inputs.length, ∀ j < g.inputs.length, i ≠ j →
      ¬ (∀ ix, ix ∈ g.term i ↔ ix ∈ g.term j) := by
  intro i hi j hj hij hall
  rcases h i hi j hj with e | ⟨ix, h1, h2⟩ | ⟨ix, h1, h2⟩
  · exact hij e
  · exact h2 ((hall ix).1 h1)
  · exact h2 ((hall ix).2 h1)

/-- decidable form of "no index shared by all tensors" -/
theorem no_batch_of_dec (g : Net) (hn1 : 1 ≤ g.inputs.length)
    (h : ∀ ix ∈ g.term 0, ∃ i < g.inputs.length, ix ∉ g.term i) :
    ∀ ix, ∃ i < g.inputs.length, ix ∉ g.term i := by
  intro ix
  by_cases h0 : ix ∈ g.term 0
  · exact h ix h0
  · exact ⟨0, hn1, h0⟩

/-! ## non-vacuity -/

/-- a 5-tensor network with a hyper index (2 on three tensors), an output index on two tensors
    (4), a size-1 dimension; connected, nothing to pre-simplify -/
def exNet : Net :=
  { inputs := [[0, 1], [1, 2, 4], [2, 3], [3, 0, 4], [2, 5], [5, 0]], output := [4],
    sizes := [(0, 2), (1, 3), (2, 4), (3, 1), (4, 2), (5, 5)] }

def exTree : BT :=
  .node (.node (.node (.leaf 0) (.leaf 1)) (.node (.leaf 2) (.leaf 3))) (.node (.leaf 4) (.leaf 5))

example : LeafGuard exNet := by decide
example : ChainConnected exNet := by decide
example : Full exNet exTree := ⟨⟨by decide, by decide⟩, by decide⟩
example : OPF exNet exTree :=
  ⟨⟨⟨trivial, trivial, 1, by decide, by decide⟩, ⟨trivial, trivial, 3, by decide, by decide⟩,
    2, by decide, by decide⟩, ⟨trivial, trivial, 5, by decide, by decide⟩, 0, by decide, by decide⟩

theorem exNet_guard : NothingToSimplify exNet :=
  ⟨by decide, by decide, no_hadamard_of_dec exNet (by decide), by decide,
   no_batch_of_dec exNet (by decide) (by decide)⟩

-- the model DP on the example: several rounds of the sieve (cap 1 → 256), optimum 112 flops
set_option maxRecDepth 100000 in
example : (dp exNet .flops false 1 12).map (·.score) = some 112 := by decide
set_option maxRecDepth 100000 in
example : (dp exNet .size true 2 12).map (·.score) = some 12 := by decide
set_option maxRecDepth 100000 in
example : (dp exNet (.combo 64 1) false 1000 12).map (·.score) = some 2288 := by decide
/-- and the theorem applies to it -/
example : ∃ R, ∀ fuel, R ≤ fuel → ∃ e, dp exNet (.limit 5 2) false 17 fuel = some e ∧
    Full exNet e.tree ∧ Adm exNet false e.tree ∧ e.score = treeCost exNet (.limit 5 2) e.tree ∧
    ∀ t', Full exNet t' → Adm exNet false t' →
      treeCost exNet (.limit 5 2) e.tree ≤ treeCost exNet (.limit 5 2) t' :=
  dp_optimal_connected exNet (.limit 5 2) false 17 exNet_guard
    (chain_connected exNet (by decide)) (by decide) (by decide)

end Cotengra.C09
