import CotengraVerif.Model.ReuseShared
import CotengraVerif.Props.C16

/-!
# C16 — the sub-optimizer is a new object for every call

Model: `Model/ReuseShared.lean` — a heap of optimizer objects, `_suboptimizers[t]` holds a
reference, `search` returns the tree the referenced object has *when it is read*; sub-searches of
different threads interleave at trial granularity; `_get_suboptimizer` follows a policy.

* `fresh_suboptimizer_isolation` — policy `fresh` (a new object per `_get_suboptimizer()` call,
  the code): for every schedule, any number of threads and queues, every trial behaviour, every
  hash, all `overwrite`/`cache_only` settings, every returned tree is a tree of the query's
  contraction.  Invariant: the references held by running searches are pairwise distinct, and a
  registered reference that is still to be read is held by no running search — nobody mutates the
  object between "registered" and "tree fetched".
* `shared_suboptimizer_counterexample` (`decide`) — policy `shared` (one instance recycled for
  every call, a lock around `_run_optimizer`; seeded change C16-r3-2): thread 1's whole search
  between thread 0's "search finished" (lock released) and "tree fetched" hands thread 0 the tree
  of thread 1's contraction — the lock does not cover the read of `last_opt.tree`.
-/
namespace Cotengra.C16
open Cotengra Cotengra.Hyper Cotengra.Reuse Cotengra.ReuseShared

/-- the reference a thread's running search holds -/
def pcRef : SPC → Option Nat
  | .searching _ _ r _ => some r
  | .ran _ _ r => some r
  | _ => none

def StampedFor (q : Query) (l : Log) : Prop := ∀ e ∈ l, ∀ m, e.2.tree = some m → m = q.net

theorem stampedFor_stamp (q : Query) (log : Log) : StampedFor q (stamp q log) := by
  intro e he m hm
  obtain ⟨e', _, rfl⟩ := List.mem_map.1 he
  cases ht : e'.2.tree with
  | none => simp [ht] at hm
  | some x => simp [ht] at hm; exact hm.symm

/-- a running search owns an object searched on its own query only -/
def PcOwn (o : SObj) : SPC → Prop
  | .searching q _ r todo => r < o.next ∧ TreeOf q.net (o.heap r) ∧ StampedFor q todo
  | .ran q _ r => r < o.next ∧ TreeOf q.net (o.heap r)
  | _ => True

/-- between "registered" and "tree fetched": slot `t` references an object all of whose trees are
    trees of `t`'s query, and no running search holds that reference -/
def Registered (s : SSys) (t : Nat) (q : Query) : Prop :=
  ∃ r, s.obj.subopts t = some r ∧ r < s.obj.next ∧ TreeOf q.net (s.obj.heap r) ∧
    ∀ t', pcRef (s.threads t').pc ≠ some r

def PcReg (s : SSys) (t : Nat) : SPC → Prop
  | .stored q _ _ => Registered s t q
  | .compare q _ _ => Registered s t q
  | .have q true _ => Registered s t q
  | _ => True

structure SInv (s : SSys) : Prop where
  results : ∀ t q n, (q, some n) ∈ (s.threads t).results → n = q.net
  own : ∀ t, PcOwn s.obj (s.threads t).pc
  distinct : ∀ t t' r, pcRef (s.threads t).pc = some r → pcRef (s.threads t').pc = some r → t = t'
  reg : ∀ t, PcReg s t (s.threads t).pc

theorem sinv_start (queues : Nat → List Query) : SInv (SSys.start queues) :=
  ⟨by intro t q n h; simp [SSys.start] at h, by intro t; simp [SSys.start, PcOwn],
   by intro t t' r h; simp [SSys.start, pcRef] at h, by intro t; simp [SSys.start, PcReg]⟩

@[simp] theorem unlock_heap (o : SObj) (t : Nat) : (unlock o t).heap = o.heap := by
  unfold unlock; split <;> rfl
@[simp] theorem unlock_next (o : SObj) (t : Nat) : (unlock o t).next = o.next := by
  unfold unlock; split <;> rfl
@[simp] theorem unlock_subopts (o : SObj) (t : Nat) : (unlock o t).subopts = o.subopts := by
  unfold unlock; split <;> rfl

theorem results_sfinish {th : SThread} {q : Query} {res : Option Nat} (q' : Query) (n : Nat)
    (h : (q', some n) ∈ (th.finish q res).results) :
    (q', some n) ∈ th.results ∨ (q' = q ∧ res = some n) := by
  simp only [SThread.finish, List.mem_append, List.mem_singleton, Prod.mk.injEq] at h
  rcases h with h | ⟨h1, h2⟩
  · exact Or.inl h
  · exact Or.inr ⟨h1, h2.symm⟩

/-- a step that leaves the heap, the reference counter and the slots alone, and after which
    thread `t` holds no reference and needs no registration -/
theorem sinv_put_quiet (s : SSys) (h : SInv s) (t : Nat) (o' : SObj) (th' : SThread)
    (hheap : o'.heap = s.obj.heap) (hnext : o'.next = s.obj.next) (hsub : o'.subopts = s.obj.subopts)
    (hres : ∀ q n, (q, some n) ∈ th'.results → n = q.net)
    (hown : PcOwn o' th'.pc) (href : ∀ r, pcRef th'.pc = some r → pcRef (s.threads t).pc = some r)
    (hreg : PcReg (put s o' t th') t th'.pc) : SInv (put s o' t th') := by
  have hreg_other : ∀ t', t' ≠ t → PcReg (put s o' t th') t' (s.threads t').pc := by
    intro t' hne
    have := h.reg t'
    cases hpc : (s.threads t').pc <;> simp only [PcReg, hpc] at this ⊢ <;> try trivial
    all_goals
      first
      | (obtain ⟨r, h1, h2, h3, h4⟩ := this
         refine ⟨r, by simp only [put, hsub]; exact h1, by simp only [put, hnext]; exact h2,
           by simp only [put, hheap]; exact h3, ?_⟩
         intro t'' hc
         by_cases e : t'' = t
         · subst e
           simp only [put, updFn_same] at hc
           exact h4 _ (href r hc)
         · simp only [put, updFn_other _ _ _ _ e] at hc
           exact h4 t'' hc)
      | (rename_i b _; cases b <;> simp only [PcReg] at this ⊢ <;> try trivial
         obtain ⟨r, h1, h2, h3, h4⟩ := this
         refine ⟨r, by simp only [put, hsub]; exact h1, by simp only [put, hnext]; exact h2,
           by simp only [put, hheap]; exact h3, ?_⟩
         intro t'' hc
         by_cases e : t'' = t
         · subst e
           simp only [put, updFn_same] at hc
           exact h4 _ (href r hc)
         · simp only [put, updFn_other _ _ _ _ e] at hc
           exact h4 t'' hc)
  refine ⟨?_, ?_, ?_, ?_⟩
  · intro t' q n hm
    by_cases e : t' = t
    · subst e; simp only [put, updFn_same] at hm; exact hres q n hm
    · simp only [put, updFn_other _ _ _ _ e] at hm; exact h.results t' q n hm
  · intro t'
    by_cases e : t' = t
    · subst e; simp only [put, updFn_same]; exact hown
    · simp only [put, updFn_other _ _ _ _ e]
      have := h.own t'
      cases hpc : (s.threads t').pc <;> simp only [PcOwn, hpc, hheap, hnext] at this ⊢ <;> exact this
  · intro t1 t2 r h1 h2
    by_cases e1 : t1 = t <;> by_cases e2 : t2 = t
    · rw [e1, e2]
    · subst e1
      simp only [put, updFn_same, updFn_other _ _ _ _ e2] at h1 h2
      exact h.distinct _ t2 r (href r h1) h2
    · subst e2
      simp only [put, updFn_same, updFn_other _ _ _ _ e1] at h1 h2
      exact h.distinct t1 _ r h1 (href r h2)
    · simp only [put, updFn_other _ _ _ _ e1, updFn_other _ _ _ _ e2] at h1 h2
      exact h.distinct t1 t2 r h1 h2
  · intro t'
    by_cases e : t' = t
    · subst e; simp only [put, updFn_same]; exact hreg
    · simp only [put, updFn_other _ _ _ _ e]; exact hreg_other t' e

theorem registered_put_quiet (s : SSys) (t : Nat) (q : Query) (o' : SObj) (th' : SThread)
    (hheap : o'.heap = s.obj.heap) (hnext : o'.next = s.obj.next) (hsub : o'.subopts = s.obj.subopts)
    (href : pcRef th'.pc = none) (h : Registered s t q) : Registered (put s o' t th') t q := by
  obtain ⟨r, h1, h2, h3, h4⟩ := h
  refine ⟨r, by simp only [put, hsub]; exact h1, by simp only [put, hnext]; exact h2,
    by simp only [put, hheap]; exact h3, ?_⟩
  intro t'' hc
  by_cases e : t'' = t
  · subst e; simp only [put, updFn_same, href] at hc; cases hc
  · simp only [put, updFn_other _ _ _ _ e] at hc; exact h4 t'' hc

theorem finish_results {s : SSys} (h : SInv s) (t : Nat) (q : Query) (res : Option Nat)
    (hr : ∀ n, res = some n → n = q.net) :
    ∀ q' n, (q', some n) ∈ ((s.threads t).finish q res).results → n = q'.net := by
  intro q' n hm
  rcases results_sfinish q' n hm with hm | ⟨rfl, hres⟩
  · exact h.results t q' n hm
  · exact hr n hres

theorem registered_transfer (s s' : SSys) (t' : Nat) (q' : Query)
    (hsub : s'.obj.subopts t' = s.obj.subopts t') (hnext : s.obj.next ≤ s'.obj.next)
    (hheap : ∀ r, r < s.obj.next → (∀ t'', pcRef (s.threads t'').pc ≠ some r) →
      s'.obj.heap r = s.obj.heap r)
    (hrefs : ∀ t'' r, r < s.obj.next → pcRef (s'.threads t'').pc = some r →
      pcRef (s.threads t'').pc = some r)
    (h : Registered s t' q') : Registered s' t' q' := by
  obtain ⟨r, h1, h2, h3, h4⟩ := h
  refine ⟨r, by rw [hsub]; exact h1, by omega, by rw [hheap r h2 h4]; exact h3, ?_⟩
  intro t'' hc
  exact h4 t'' (hrefs t'' r h2 hc)

theorem pcReg_transfer (s s' : SSys) (t' : Nat) (pc : SPC)
    (hsub : s'.obj.subopts t' = s.obj.subopts t') (hnext : s.obj.next ≤ s'.obj.next)
    (hheap : ∀ r, r < s.obj.next → (∀ t'', pcRef (s.threads t'').pc ≠ some r) →
      s'.obj.heap r = s.obj.heap r)
    (hrefs : ∀ t'' r, r < s.obj.next → pcRef (s'.threads t'').pc = some r →
      pcRef (s.threads t'').pc = some r)
    (h : PcReg s t' pc) : PcReg s' t' pc := by
  cases pc with
  | idle => trivial
  | hashed q m => trivial
  | searching q m r todo => trivial
  | ran q m r => trivial
  | stored q m c => exact registered_transfer s s' t' q hsub hnext hheap hrefs h
  | compare q c o => exact registered_transfer s s' t' q hsub hnext hheap hrefs h
  | «have» q b c =>
    cases b with
    | true => exact registered_transfer s s' t' q hsub hnext hheap hrefs h
    | false => trivial

theorem sstep_inv (cfg : SCfg) (hp : cfg.policy = .fresh) (s : SSys) (t : Nat) (h : SInv s) :
    SInv (sstep cfg s t) := by
  unfold sstep
  simp only []
  split
  · -- idle
    split
    · exact h
    · exact sinv_put_quiet s h t _ _ rfl rfl rfl (fun q n hm => h.results t q n hm) trivial
        (by intro r hr; simp [pcRef] at hr) trivial
  · -- hashed
    rename_i q missing hpc
    split
    · split
      · exact sinv_put_quiet s h t _ _ rfl rfl rfl (finish_results h t q none (by intro n hn; cases hn))
          trivial (by intro r hr; simp [pcRef, SThread.finish] at hr) trivial
      · -- a new sub-optimizer object
        simp only [hp]
        refine ⟨?_, ?_, ?_, ?_⟩
        · intro t' q' n hm
          by_cases e : t' = t
          · subst e; simp only [put, updFn_same] at hm; exact h.results _ q' n hm
          · simp only [put, updFn_other _ _ _ _ e] at hm; exact h.results t' q' n hm
        · intro t'
          by_cases e : t' = t
          · subst e
            simp only [put, updFn_same, PcOwn]
            exact ⟨Nat.lt_succ_self _, treeOf_init _, stampedFor_stamp q _⟩
          · simp only [put, updFn_other _ _ _ _ e]
            have := h.own t'
            cases hpc' : (s.threads t').pc <;> simp only [PcOwn, hpc'] at this ⊢ <;> try trivial
            · rename_i q' m' r' todo'
              refine ⟨by omega, ?_, this.2.2⟩
              rw [updFn_other _ _ _ _ (by omega)]; exact this.2.1
            · rename_i q' m' r'
              refine ⟨by omega, ?_⟩
              rw [updFn_other _ _ _ _ (by omega)]; exact this.2
        · intro t1 t2 r h1 h2
          by_cases e1 : t1 = t <;> by_cases e2 : t2 = t
          · rw [e1, e2]
          · subst e1
            simp only [put, updFn_same, updFn_other _ _ _ _ e2, pcRef, Option.some.injEq] at h1 h2
            subst h1
            have := h.own t2
            cases hpc' : (s.threads t2).pc <;> simp only [hpc', pcRef] at h2 <;> try cases h2
            all_goals (simp only [PcOwn, hpc'] at this; omega)
          · subst e2
            simp only [put, updFn_same, updFn_other _ _ _ _ e1, pcRef, Option.some.injEq] at h1 h2
            subst h2
            have := h.own t1
            cases hpc' : (s.threads t1).pc <;> simp only [hpc', pcRef] at h1 <;> try cases h1
            all_goals (simp only [PcOwn, hpc'] at this; omega)
          · simp only [put, updFn_other _ _ _ _ e1, updFn_other _ _ _ _ e2] at h1 h2
            exact h.distinct t1 t2 r h1 h2
        · intro t'
          by_cases e : t' = t
          · subst e; simp only [put, updFn_same, PcReg]
          · simp only [put, updFn_other _ _ _ _ e]
            refine pcReg_transfer s _ t' _ rfl (by simp only [put]; omega) ?_ ?_ (h.reg t')
            · intro r hr _
              simp only [put]; rw [updFn_other _ _ _ _ (by omega)]
            · intro t'' r hr hc
              by_cases e' : t'' = t
              · subst e'
                simp only [put, updFn_same, pcRef, Option.some.injEq] at hc
                omega
              · simp only [put, updFn_other _ _ _ _ e'] at hc; exact hc
    · split
      · exact sinv_put_quiet s h t _ _ rfl rfl rfl (finish_results h t q none (by intro n hn; cases hn))
          trivial (by intro r hr; simp [pcRef, SThread.finish] at hr) trivial
      · exact sinv_put_quiet s h t _ _ rfl rfl rfl (fun q n hm => h.results t q n hm) trivial
          (by intro r hr; simp [pcRef] at hr) trivial
  · -- searching
    rename_i q missing ref todo hpc
    have hown := h.own t
    simp only [hpc, PcOwn] at hown
    split
    · -- one trial completes: the object `ref` is mutated
      rename_i e rest
      refine ⟨?_, ?_, ?_, ?_⟩
      · intro t' q' n hm
        by_cases e' : t' = t
        · subst e'; simp only [put, updFn_same] at hm; exact h.results _ q' n hm
        · simp only [put, updFn_other _ _ _ _ e'] at hm; exact h.results t' q' n hm
      · intro t'
        by_cases e' : t' = t
        · subst e'
          simp only [put, updFn_same, PcOwn]
          refine ⟨hown.1, treeOf_complete hown.2.1 _ _ (hown.2.2 e List.mem_cons_self),
            fun x hx => hown.2.2 x (List.mem_cons_of_mem _ hx)⟩
        · simp only [put, updFn_other _ _ _ _ e']
          have := h.own t'
          have hne : ∀ r', pcRef (s.threads t').pc = some r' → r' ≠ ref := by
            intro r' hr' heq
            subst heq
            exact e' (h.distinct t' t r' hr' (by simp [hpc, pcRef]))
          cases hpc' : (s.threads t').pc <;> simp only [PcOwn, hpc'] at this ⊢ <;> try trivial
          · rename_i q' m' r' todo'
            refine ⟨this.1, ?_, this.2.2⟩
            rw [updFn_other _ _ _ _ (hne r' (by simp [hpc', pcRef]))]; exact this.2.1
          · rename_i q' m' r'
            refine ⟨this.1, ?_⟩
            rw [updFn_other _ _ _ _ (hne r' (by simp [hpc', pcRef]))]; exact this.2
      · intro t1 t2 r h1 h2
        by_cases e1 : t1 = t <;> by_cases e2 : t2 = t
        · rw [e1, e2]
        · subst e1
          simp only [put, updFn_same, updFn_other _ _ _ _ e2, pcRef] at h1 h2
          exact h.distinct _ t2 r (by simp only [hpc, pcRef]; exact h1) h2
        · subst e2
          simp only [put, updFn_same, updFn_other _ _ _ _ e1, pcRef] at h1 h2
          exact h.distinct t1 _ r h1 (by simp only [hpc, pcRef]; exact h2)
        · simp only [put, updFn_other _ _ _ _ e1, updFn_other _ _ _ _ e2] at h1 h2
          exact h.distinct t1 t2 r h1 h2
      · intro t'
        by_cases e' : t' = t
        · subst e'; simp only [put, updFn_same, PcReg]
        · simp only [put, updFn_other _ _ _ _ e']
          refine pcReg_transfer s _ t' _ rfl (Nat.le_refl _) ?_ ?_ (h.reg t')
          · intro r hr hfree
            have hrne : r ≠ ref := by
              intro heq; subst heq
              exact hfree t (by simp [hpc, pcRef])
            simp only [put]; rw [updFn_other _ _ _ _ hrne]
          · intro t'' r hr hc
            by_cases e'' : t'' = t
            · subst e''
              simp only [put, updFn_same, pcRef] at hc
              simp only [hpc, pcRef]; exact hc
            · simp only [put, updFn_other _ _ _ _ e''] at hc; exact hc
    · split
      · exact sinv_put_quiet s h t _ _ (by simp) (by simp) (by simp)
          (finish_results h t q none (by intro n hn; cases hn)) trivial
          (by intro r hr; simp [pcRef, SThread.finish] at hr) trivial
      · exact sinv_put_quiet s h t _ _ rfl rfl rfl (fun q n hm => h.results t q n hm)
          (by simp only [PcOwn]; exact ⟨hown.1, hown.2.1⟩)
          (by intro r hr; simpa [pcRef, hpc] using hr) trivial
  · -- ran: register the object
    rename_i q missing ref hpc
    have hown := h.own t
    simp only [hpc, PcOwn] at hown
    refine ⟨?_, ?_, ?_, ?_⟩
    · intro t' q' n hm
      by_cases e' : t' = t
      · subst e'; simp only [put, updFn_same] at hm; exact h.results _ q' n hm
      · simp only [put, updFn_other _ _ _ _ e'] at hm; exact h.results t' q' n hm
    · intro t'
      by_cases e' : t' = t
      · subst e'; simp only [put, updFn_same, PcOwn]
      · simp only [put, updFn_other _ _ _ _ e']
        have := h.own t'
        cases hpc' : (s.threads t').pc <;> simp only [PcOwn, hpc', unlock_heap, unlock_next] at this ⊢ <;>
          exact this
    · intro t1 t2 r h1 h2
      by_cases e1 : t1 = t
      · subst e1; simp [put, pcRef] at h1
      · by_cases e2 : t2 = t
        · subst e2; simp [put, pcRef] at h2
        · simp only [put, updFn_other _ _ _ _ e1, updFn_other _ _ _ _ e2] at h1 h2
          exact h.distinct t1 t2 r h1 h2
    · intro t'
      by_cases e' : t' = t
      · subst e'
        simp only [put, updFn_same, PcReg]
        refine ⟨ref, by simp [put], by simpa [put] using hown.1, by simpa [put] using hown.2, ?_⟩
        intro t'' hc
        by_cases e'' : t'' = t'
        · subst e''; simp [put, pcRef] at hc
        · simp only [put, updFn_other _ _ _ _ e''] at hc
          exact e'' (h.distinct t'' t' ref hc (by simp [hpc, pcRef]))
      · simp only [put, updFn_other _ _ _ _ e']
        refine pcReg_transfer s _ t' _ (by simp only [put, unlock_subopts, updFn_other _ _ _ _ e'])
          (by simp [put]) ?_ ?_ (h.reg t')
        · intro r hr _; simp [put]
        · intro t'' r hr hc
          by_cases e'' : t'' = t
          · subst e''; simp [put, pcRef] at hc
          · simp only [put, updFn_other _ _ _ _ e''] at hc; exact hc
  · -- stored
    rename_i q missing con hpc
    have hreg := h.reg t
    simp only [hpc, PcReg] at hreg
    split
    · split
      · exact sinv_put_quiet s h t _ _ rfl rfl rfl (finish_results h t q none (by intro n hn; cases hn))
          trivial (by intro r hr; simp [pcRef, SThread.finish] at hr) trivial
      · exact sinv_put_quiet s h t _ _ rfl rfl rfl (fun q n hm => h.results t q n hm) trivial
          (by intro r hr; simp [pcRef] at hr)
          (registered_put_quiet s t q _ _ rfl rfl rfl rfl hreg)
    · exact sinv_put_quiet s h t _ _ rfl rfl rfl (fun q n hm => h.results t q n hm) trivial
        (by intro r hr; simp [pcRef] at hr)
        (registered_put_quiet s t q _ _ rfl rfl rfl rfl hreg)
  · -- compare
    rename_i q con old hpc
    have hreg := h.reg t
    simp only [hpc, PcReg] at hreg
    split
    · exact sinv_put_quiet s h t _ _ rfl rfl rfl (fun q n hm => h.results t q n hm) trivial
        (by intro r hr; simp [pcRef] at hr)
        (registered_put_quiet s t q _ _ rfl rfl rfl rfl hreg)
    · exact sinv_put_quiet s h t _ _ rfl rfl rfl
        (finish_results h t q _ (by intro n hn; simpa using hn.symm))
        trivial (by intro r hr; simp [pcRef, SThread.finish] at hr) trivial
  · -- have
    rename_i q searched con hpc
    have hreg := h.reg t
    split
    · rename_i hs
      subst hs
      simp only [hpc, PcReg] at hreg
      obtain ⟨r, h1, _, h3, _⟩ := hreg
      rw [h1]
      exact sinv_put_quiet s h t _ _ rfl rfl rfl (finish_results h t q _ (fun n hn => h3 n hn))
        trivial (by intro r hr; simp [pcRef, SThread.finish] at hr) trivial
    · exact sinv_put_quiet s h t _ _ rfl rfl rfl
        (finish_results h t q _ (by intro n hn; simpa using hn.symm))
        trivial (by intro r hr; simp [pcRef, SThread.finish] at hr) trivial

/-- **fresh_suboptimizer_isolation** — `_get_suboptimizer()` returns a new object for every call:
    for every schedule (searches of different threads interleaved trial by trial), any number of
    threads and queues, every trial behaviour, every hash function and `overwrite`/`cache_only`
    setting, the tree `search` returns — read from the registered object at the moment of the
    read — is a tree of the contraction the call asked about. -/
theorem fresh_suboptimizer_isolation (cfg : SCfg) (hp : cfg.policy = .fresh)
    (queues : Nat → List Query) (sched : List Nat) (t : Nat) (q : Query) (n : Nat)
    (h : (q, some n) ∈ ((srun cfg (SSys.start queues) sched).threads t).results) : n = q.net := by
  have key : ∀ (sched : List Nat) (s : SSys), SInv s → SInv (srun cfg s sched) := by
    intro sched
    induction sched with
    | nil => intro s hs; exact hs
    | cons t0 rest ih => intro s hs; exact ih _ (sstep_inv cfg hp s t0 hs)
  exact (key sched _ (sinv_start queues)).results t q n h

/-! ## one recycled instance behind a lock (seeded change C16-r3-2) -/

def str (score : Nat) : Trial :=
  { score := some score, flops := some 1, write := some 1, size := some 1, tree := some 0 }

def sqa : Query := { net := 10, key := 7, hard := true }
def sqb : Query := { net := 11, key := 8, hard := true }

def sharedCfg (p : Policy) : SCfg :=
  { policy := p, trials := fun t _ => [(⟨0, 0⟩, str (3 + t)), (⟨0, 1⟩, str (5 + t))] }

def sStart : SSys := SSys.start fun t => if t = 0 then [sqa] else if t = 1 then [sqb] else []

/-- thread 0 up to and including its cache write (its `_run_optimizer` has returned, the lock is
    free), then the whole query of thread 1, then thread 0 fetches its tree -/
def windowSched : List Nat := [0, 0, 0, 0, 0, 0, 0, 1, 1, 1, 1, 1, 1, 1, 1, 0]

/-- **shared_suboptimizer_counterexample** — one recycled instance: thread 0 is answered with the
    tree of thread 1's contraction, although the two searches never overlapped (the lock). -/
theorem shared_suboptimizer_counterexample :
    let s := srun (sharedCfg .shared) sStart windowSched
    (s.threads 0).results = [(sqa, some 11)] ∧ (s.threads 1).results = [(sqb, some 11)] ∧
      s.obj.lock = none := by decide

/-- the same schedule with a new object per call -/
example :
    let s := srun (sharedCfg .fresh) sStart windowSched
    (s.threads 0).results = [(sqa, some 10)] ∧ (s.threads 1).results = [(sqb, some 11)] ∧
      s.obj.next = 3 := by decide

/-- under the `shared` policy a thread that finds the lock taken does not move -/
example :
    let s := srun (sharedCfg .shared) sStart [0, 0, 0, 1, 1, 1, 1]
    (s.threads 1).nsearch = 0 ∧ s.obj.lock = some 0 := by decide

end Cotengra.C16
