import CotengraVerif.Model.ReuseIface
import CotengraVerif.Props.C16

/-!
# C16 — the path cache of the functional interface (string presets, `cache=True`)

Model: `Model/ReuseIface.lean` (`array_contract_path`, interface.py:227, 284-300).

* `iface_path_isolation` — for every schedule, any number of threads and queues: if the layer
  behind `find_path` is isolated (its path is one of the query's contraction — proved for the
  Reusable/Auto objects in `nested_path_isolation`, for the stateless presets by
  `presets_stateless`) and the cache key separates contractions, every path handed out — freshly
  found or taken from `_PATH_CACHE`, possibly stored by another thread — is a path of the
  contraction the call asked about.
* `iface_key_collision_counterexample` — with a key that identifies two contractions the second
  caller is handed the first one's path.
-/
namespace Cotengra.C16
open Cotengra Cotengra.Reuse Cotengra.ReuseIface

/-- the key determines the contraction -/
def KeySeparates (cfg : ICfg) : Prop := ∀ q q', cfg.keyOf q = cfg.keyOf q' → q.net = q'.net

/-- the layer behind `find_path` answers with a path of the query's contraction -/
def InnerIsolated (cfg : ICfg) : Prop := ∀ t i q, cfg.inner t i q = q.net

structure IInv (cfg : ICfg) (s : ISys) : Prop where
  cache : ∀ q p, s.cache (cfg.keyOf q) = some p → p = q.net
  results : ∀ t q p, (q, p) ∈ (s.threads t).results → p = q.net
  pc : ∀ t q p, (s.threads t).pc = .found q p → p = q.net

theorem iinv_start (cfg : ICfg) (queues : Nat → List IQuery) : IInv cfg (ISys.start queues) :=
  ⟨by intro q p h; simp [ISys.start] at h, by intro t q p h; simp [ISys.start] at h,
   by intro t q p h; simp [ISys.start] at h⟩

theorem results_finish {th : IThread} {q : IQuery} {p : Nat} (q' : IQuery) (p' : Nat)
    (h : (q', p') ∈ (th.finish q p).results) : (q', p') ∈ th.results ∨ (q' = q ∧ p' = p) := by
  simp only [IThread.finish, List.mem_append, List.mem_singleton, Prod.mk.injEq] at h
  exact h

theorem istep_inv (cfg : ICfg) (hk : KeySeparates cfg) (hi : InnerIsolated cfg) (s : ISys) (t : Nat)
    (h : IInv cfg s) : IInv cfg (istep cfg s t) := by
  unfold istep
  simp only []
  split
  · -- idle
    split
    · exact h
    · rename_i q rest hq
      split
      · rename_i p hc
        refine ⟨h.cache, ?_, ?_⟩
        · intro t' q' p' hm
          by_cases e : t' = t
          · subst e
            simp only [updFn_same] at hm
            rcases results_finish q' p' hm with hm | ⟨rfl, rfl⟩
            · exact h.results _ q' p' hm
            · exact h.cache _ _ hc
          · simp only [updFn_other _ _ _ _ e] at hm; exact h.results t' q' p' hm
        · intro t' q' p' hm
          by_cases e : t' = t
          · subst e; simp [updFn_same, IThread.finish] at hm
          · simp only [updFn_other _ _ _ _ e] at hm; exact h.pc t' q' p' hm
      · refine ⟨h.cache, ?_, ?_⟩
        · intro t' q' p' hm
          by_cases e : t' = t
          · subst e; simp only [updFn_same] at hm; exact h.results _ q' p' hm
          · simp only [updFn_other _ _ _ _ e] at hm; exact h.results t' q' p' hm
        · intro t' q' p' hm
          by_cases e : t' = t
          · subst e; simp [updFn_same] at hm
          · simp only [updFn_other _ _ _ _ e] at hm; exact h.pc t' q' p' hm
  · -- missed
    rename_i q hpc
    refine ⟨h.cache, ?_, ?_⟩
    · intro t' q' p' hm
      by_cases e : t' = t
      · subst e; simp only [updFn_same] at hm; exact h.results _ q' p' hm
      · simp only [updFn_other _ _ _ _ e] at hm; exact h.results t' q' p' hm
    · intro t' q' p' hm
      by_cases e : t' = t
      · subst e
        simp only [updFn_same, IPC.found.injEq] at hm
        obtain ⟨rfl, rfl⟩ := hm
        exact hi _ _ _
      · simp only [updFn_other _ _ _ _ e] at hm; exact h.pc t' q' p' hm
  · -- found
    rename_i q p hpc
    have hp : p = q.net := h.pc t q p hpc
    refine ⟨?_, ?_, ?_⟩
    · intro q' p' hm
      simp only [updFn] at hm
      split at hm
      · rename_i hkk
        cases hm
        rw [hp]
        exact (hk q' q hkk).symm
      · exact h.cache q' p' hm
    · intro t' q' p' hm
      by_cases e : t' = t
      · subst e
        simp only [updFn_same] at hm
        rcases results_finish q' p' hm with hm | ⟨rfl, rfl⟩
        · exact h.results _ q' p' hm
        · exact hp
      · simp only [updFn_other _ _ _ _ e] at hm; exact h.results t' q' p' hm
    · intro t' q' p' hm
      by_cases e : t' = t
      · subst e; simp [updFn_same, IThread.finish] at hm
      · simp only [updFn_other _ _ _ _ e] at hm; exact h.pc t' q' p' hm

/-- **iface_path_isolation** — `array_contract_path(..., cache=True)` with string presets, for
    every schedule, any number of threads, any queues: given an isolated layer behind `find_path`
    and a key that separates contractions, each returned path (found by the call itself or taken
    from `_PATH_CACHE`, whoever stored it) is a path of the contraction the call asked about. -/
theorem iface_path_isolation (cfg : ICfg) (hk : KeySeparates cfg) (hi : InnerIsolated cfg)
    (queues : Nat → List IQuery) (sched : List Nat) (t : Nat) (q : IQuery) (p : Nat)
    (h : (q, p) ∈ ((irun cfg (ISys.start queues) sched).threads t).results) : p = q.net := by
  have key : ∀ (sched : List Nat) (s : ISys), IInv cfg s → IInv cfg (irun cfg s sched) := by
    intro sched
    induction sched with
    | nil => intro s hs; exact hs
    | cons t0 rest ih => intro s hs; exact ih _ (istep_inv cfg hk hi s t0 hs)
  exact (key sched _ (iinv_start cfg queues)).results t q p h

/-- the code's key: the tuple itself (contraction and preset) -/
def fullKey (q : IQuery) : Nat := q.net * 16 + q.preset % 16

def goodCfg : ICfg := { keyOf := fullKey, inner := fun _ _ q => q.net }
/-- a lossy key (think `hash(key)`): contractions 3 and 5 collide -/
def lossyCfg : ICfg := { keyOf := fun q => (if q.net = 5 then 3 else q.net) * 16 + q.preset % 16,
                         inner := fun _ _ q => q.net }

def ia : IQuery := { net := 3, preset := 1 }
def ib : IQuery := { net := 5, preset := 1 }

/-- **iface_key_collision_counterexample** — thread 1 asks about contraction 5 after thread 0
    stored the path of contraction 3 under the colliding key: it is handed the path of 3. -/
theorem iface_key_collision_counterexample :
    ((irun lossyCfg (ISys.start fun t => if t = 0 then [ia] else if t = 1 then [ib] else [])
      [0, 0, 0, 1]).threads 1).results = [(ib, 3)] := by decide

/-- the same history with the code's key; two threads missing on the same key both search and
    both store (the second store overwrites an equal entry) -/
example :
    let s := irun goodCfg (ISys.start fun t => if t = 0 then [ia, ib] else if t = 1 then [ib, ia] else [])
      [0, 1, 0, 1, 0, 1, 0, 1, 0, 1, 0, 1]
    (s.threads 0).results = [(ia, 3), (ib, 5)] ∧ (s.threads 1).results = [(ib, 5), (ia, 3)] ∧
    (s.threads 0).ncalls = 1 ∧ (s.threads 1).ncalls = 1 := by decide

/-- `KeySeparates` holds for the code's key as long as fewer than 16 presets are in play -/
example : InnerIsolated goodCfg := fun _ _ _ => rfl

end Cotengra.C16
