import CotengraVerif.Lemmas.Chunks
import CotengraVerif.Lemmas.Gather
import CotengraVerif.Lemmas.SliceSum
import CotengraVerif.Lemmas.Cost
import Mathlib.Data.List.Perm.Subperm
import Mathlib.Data.Set.Function

/-!
# C06 — slices partition the contraction exactly and are reassembled correctly

Model (`Model/Slicing.lean`, transcribed from cotengra/core.py): `SliceInfo` + its dataclass
ordering (:109-121), `get_slice_strides` (:124), the slicing-state part of `remove_ind` /
`restore_ind` (:1606-1644, :1686-1718), `nslices`/`nchunks` (:384-398), `slice_key` (:3245),
the selectors of `slice_arrays` (:3272), `gather_slices` with `recursively_stack_chunks`
(:3295-3350, without exponent stripping) and `gen_output_chunks` (:3352-3409).

Arrays are functional (`IArr`: shape + element function); `IArr.add`, `IArr.stack`, `IArr.select`
model `+`, `numpy.stack` and basic indexing and are *trusted* (validated against numpy by the
harness).  The per-slice contraction itself (`contract_core`) is not part of C06: theorems take
the per-slice results as an arbitrary family `S : slice number → array` (Part I, II) or as
the einsum of the sliced network (Part III).

Not modelled: exponent stripping inside `gather_slices`, progress bars, `contract_mpi`.
-/
namespace Cotengra.C06
open Cotengra Cotengra.Slicing

/-! ## Part I — numbering -/

/-- `get_slice_strides`: `strides[k] = Π_{j>k} size_j` (sizes of projected entries are 1). -/
theorem strides_spec (sl : List SliceInfo) (k : Nat) (h : k < sl.length) :
    (getSliceStrides sl)[k]? = some (prodSizes (sl.drop (k + 1))) := by
  have hl : k < (getSliceStrides sl).length := by rw [getSliceStrides_length]; exact h
  rw [List.getElem?_eq_getElem hl, getSliceStrides_getElem sl k h]

/-- **enumeration**: `slice_key(0), slice_key(1), …, slice_key(nslices-1)` is the list of all
    combinations of values of the sliced indices (projected: the single chosen value) in
    lexicographic order, first index of `sliced_inds` slowest. -/
theorem sliceKey_enumerates (sl : List SliceInfo) (hwf : WF sl) :
    (List.range (prodSizes sl)).map (sliceKey sl) = allKeys sl :=
  map_sliceKey_range sl hwf

/-- **bijection**: `i ↦ slice_key(i)` maps `[0, nslices)` one-to-one onto the valid keys
    (`range_k = [0, d_k)` or `{project_k}`), with inverse `sliceNum` (mixed radix). -/
theorem sliceKey_bijective (sl : List SliceInfo) (hwf : WF sl) :
    Set.BijOn (sliceKey sl) {i | i < prodSizes sl} {k | ValidKey sl k} := by
  refine ⟨?_, ?_, ?_⟩
  · intro i hi; exact sliceKey_valid sl hwf i hi
  · intro i hi j hj h; exact sliceKey_injective sl hwf i j hi hj h
  · intro k hk
    exact ⟨sliceNum sl k, sliceNum_lt sl hwf k hk, sliceKey_sliceNum sl hwf k hk⟩

theorem sliceNum_inverse (sl : List SliceInfo) (hwf : WF sl) :
    (∀ i, i < prodSizes sl → sliceNum sl (sliceKey sl i) = i) ∧
    (∀ k, ValidKey sl k → sliceNum sl k < prodSizes sl ∧ sliceKey sl (sliceNum sl k) = k) :=
  ⟨fun i hi => sliceNum_sliceKey sl hwf i hi,
   fun k hk => ⟨sliceNum_lt sl hwf k hk, sliceKey_sliceNum sl hwf k hk⟩⟩

/-- the guard is needed: an entry that is projected but has `size ≠ 1` breaks the numbering
    (two slice numbers get the same key) -/
theorem sliceKey_bijective_needs_wf :
    ∃ sl : List SliceInfo, ¬ WF sl ∧ sliceKey sl 0 = sliceKey sl 1 ∧ 1 < prodSizes sl :=
  ⟨[⟨true, 0, 2, some 1⟩], by simp [WF], by decide, by decide⟩

/-! ## Part I' — the slicing state after any history -/

/-- after **every** sequence of `remove_ind` / `restore_ind` calls (failing calls raise and
    leave the state alone): `sliced_inds` is sorted outputs-first, its indices are distinct,
    flags/sizes are consistent with the network (projected ⇒ size 1), `multiplicity` is the
    product of the sizes, and `sliced_inputs` are exactly the inputs carrying a sliced index. -/
theorem reachable_inv (n : Net) (hpos : ∀ ix, 0 < n.size ix) (ops : List SliceOp) :
    Inv n (runOps n ops) := runOps_inv n hpos ops

theorem reachable_wf (n : Net) (hpos : ∀ ix, 0 < n.size ix) (ops : List SliceOp) :
    WF (runOps n ops).slicedInds := (reachable_inv n hpos ops).flags.wf

/-- `nslices` (= `multiplicity`) is the number of keys -/
theorem nslices_eq (n : Net) (hpos : ∀ ix, 0 < n.size ix) (ops : List SliceOp) :
    (runOps n ops).multiplicity = (allKeys (runOps n ops).slicedInds).length := by
  rw [(reachable_inv n hpos ops).mult, ← sliceKey_enumerates _ (reachable_wf n hpos ops)]
  simp

/-! ## Part II — chunks -/

/-- `nslices = nchunks * stepsize` when outputs are sorted first -/
theorem nslices_eq_nchunks_mul (sl : List SliceInfo) (hs : Sorted sl) :
    prodSizes sl = nchunks sl * stepsize sl := prodSizes_eq_nchunks_mul sl hs

/-- **tiling**: the slice numbers summed into chunk 0, chunk 1, … concatenate to
    `0, 1, …, nslices-1` — each slice goes into exactly one chunk. -/
theorem chunks_tile (output : List Ix) (sl : List SliceInfo) (hs : Sorted sl)
    (hpos : 0 < stepsize sl) :
    ((chunkPlan output sl (prodSizes sl)).map (·.1)).flatten = List.range (prodSizes sl) :=
  chunkPlan_tiles output sl hs hpos

/-- all slices summed into one chunk have the chunk's output key -/
theorem chunk_slices_same_key (n : Net) (sl : List SliceInfo) (hs : Sorted sl) (hf : Flags n sl)
    (o j : Nat) (ho : o < nchunks sl) (hj : j < stepsize sl) :
    (sliceKey sl (o * stepsize sl + j)).filter (fun kv => n.output.contains kv.1) =
      (sliceKey sl (o * stepsize sl)).filter (fun kv => n.output.contains kv.1) := by
  have hpos : 0 < stepsize sl := by omega
  rw [outputPart_sliceKey n sl hs hf o j ho hj]
  have := outputPart_sliceKey n sl hs hf o 0 ho hpos
  simpa using this.symm

/-- the keys yielded with the chunks are all combinations of the sliced *output* indices, each
    exactly once (pairwise distinct), in lexicographic order -/
theorem chunk_keys_cover (n : Net) (sl : List SliceInfo) (hs : Sorted sl) (hf : Flags n sl)
    (hpos : 0 < stepsize sl) :
    (chunkPlan n.output sl (prodSizes sl)).map (·.2) = allKeys (outs sl) ∧
      ((chunkPlan n.output sl (prodSizes sl)).map (·.2)).Nodup := by
  have h := chunkPlan_keys n sl hs hf hpos
  exact ⟨h, h ▸ allKeys_nodup _⟩

/-- what `gen_output_chunks` yields: chunk `o` is the sum of the slices
    `o*stepsize, …, o*stepsize + stepsize - 1`, with key `slice_key` of the output indices -/
theorem genOutputChunks_spec (n : Net) (sl : List SliceInfo) (hs : Sorted sl) (hf : Flags n sl)
    (hpos : 0 < stepsize sl) (C : Nat → IArr) (o : Nat) (ho : o < nchunks sl) :
    ∃ a, (genOutputChunks n.output sl (prodSizes sl) C)[o]? = some (a, sliceKey (outs sl) o) ∧
      ∀ idx, a.get idx = ((List.range (stepsize sl)).map fun j => (C (o * stepsize sl + j)).get idx).sum := by
  have hdiv : prodSizes sl / stepsize sl = nchunks sl := by
    rw [prodSizes_eq_nchunks_mul sl hs, Nat.mul_div_cancel _ hpos]
  have hkey : (sliceKey sl (o * stepsize sl)).filter (fun kv => n.output.contains kv.1) =
      sliceKey (outs sl) o := by
    have := outputPart_sliceKey n sl hs hf o 0 ho hpos
    simpa using this
  unfold genOutputChunks chunkPlan
  simp only [hdiv, List.map_map, List.getElem?_map, List.getElem?_range ho, Option.map_some,
    Function.comp, hkey]
  refine ⟨_, rfl, ?_⟩
  intro idx
  obtain ⟨s, hs'⟩ : ∃ s, stepsize sl = s + 1 := ⟨stepsize sl - 1, by omega⟩
  simp only [hs', Nat.add_sub_cancel]
  rw [List.foldl_map]
  have hfold : ∀ (l : List Nat) (a : IArr),
      (l.foldl (fun acc j => acc.add (C (o * (s + 1) + (j + 1)))) a).get idx =
        a.get idx + (l.map fun j => (C (o * (s + 1) + (j + 1))).get idx).sum := by
    intro l
    induction l with
    | nil => intro a; simp
    | cons b t ih =>
      intro a
      rw [List.foldl_cons, ih, List.map_cons, List.sum_cons]
      simp only [IArr.add]; omega
  rw [hfold, range_succ_eq, List.map_cons, List.sum_cons, List.map_map]
  rfl

/-! ## Part II' — gathering: sum, then recursive stack -/

/-- **stacking axis**: the entry of `output_pos` that follows the already stacked prefix `D`
    sits at `output_pos[ix] - len(loc)` in the array whose axes are `output` minus the
    indices of `D`; the subtraction never underflows. -/
theorem stack_axes (sl : List SliceInfo) (out : List Ix) (hn : out.Nodup)
    (D R : List (Ix × Nat)) (ix : Ix) (pos : Nat)
    (h : outputPos sl out = D ++ (ix, pos) :: R) :
    D.length ≤ pos ∧ pos - D.length = (axesOf out (D.map (·.1))).idxOf ix ∧
      (axesOf out ((D ++ [(ix, pos)]).map (·.1))).insertIdx (pos - D.length) ix =
        axesOf out (D.map (·.1)) := by
  have hp := outputPos_split sl out hn 0 D R ix pos h
  have hk : pos - D.length = (axesOf out (D.map (·.1))).idxOf ix := by rw [← hp.2.1]; omega
  refine ⟨by omega, hk, ?_⟩
  have hnax : (axesOf out (D.map (·.1))).Nodup := List.Nodup.sublist List.filter_sublist hn
  have hixD : ix ∈ axesOf out (D.map (·.1)) := by
    unfold axesOf
    refine List.mem_filter.2 ⟨hp.2.2, ?_⟩
    have hnd : ((outputPos sl out).map (·.1)).Nodup := by
      unfold outputPos; rw [fst_outputPosFrom]
      exact List.Nodup.sublist List.filter_sublist hn
    rw [h, List.map_append, List.map_cons] at hnd
    have := (List.nodup_append.1 hnd).2.2 ix
    simp only [List.contains_eq_mem, Bool.not_eq_true', decide_eq_false_iff_not]
    intro hm
    exact this hm ix List.mem_cons_self rfl
  rw [List.map_append, List.map_cons, List.map_nil, axesOf_snoc, hk]
  exact (insertIdx_idxOf_filter _ hnax ix hixD).1

/-- **gather, stacking case**: with at least one sliced output index, `gather_slices` succeeds
    (no `KeyError`) and the element of the result at `σ` — read with axes `output`, projected
    output indices being axes of length 1 — is the sum of the elements at `σ` of exactly those
    slices whose output key agrees with `σ` (projected: with the projected value). -/
theorem gather_denote (out : List Ix) (hn : out.Nodup) (sl : List SliceInfo) (hwf : WF sl)
    (hnd : (sl.map (·.ind)).Nodup) (hpos : ∀ s ∈ sl, 0 < s.size) (S : Nat → IArr) (σ : Ix → Nat)
    (hσ : ∀ p ∈ outputPos sl out, InRange sl σ p.1) (hne : outputPos sl out ≠ []) :
    ∃ R, gatherSlices out sl ((List.range (prodSizes sl)).map S) = some R ∧
      denote out R σ =
        ((List.range (prodSizes sl)).map fun i =>
          if chunkKey sl (outputPos sl out) i = (outputPos sl out).map (fun p => val sl σ p.1)
          then denote (axesOf out ((outputPos sl out).map (·.1))) (S i) σ else 0).sum := by
  unfold gatherSlices
  have hemp : (outputPos sl out).isEmpty = false := by
    cases h : outputPos sl out with
    | nil => exact absurd h hne
    | cons _ _ => rfl
  simp only [hemp, Bool.false_eq_true, if_false]
  have hspec := fun key idx => buildChunksFrom_spec sl (outputPos sl out) S key idx (prodSizes sl) 0 []
  simp only [← List.range_eq_range'] at hspec
  have hch : ∀ vals, ValidVals sl (outputPos sl out) vals →
      (chunkGet (buildChunks sl (outputPos sl out) ((List.range (prodSizes sl)).map S))
        ([] ++ vals)).isSome = true := by
    intro vals hv
    obtain ⟨j, hj, hk⟩ := exists_slice_of_vals sl hwf hnd hpos out hn vals hv
    unfold buildChunks
    rw [List.nil_append, (hspec vals []).2]
    exact Or.inr ⟨j, Nat.zero_le _, by omega, hk⟩
  obtain ⟨R, hR, hden⟩ := stackRec_spec sl out hn _ σ (outputPos sl out) [] [] (by simp) rfl hσ hch
  refine ⟨R, hR, ?_⟩
  simp only [List.map_nil, axesOf_nil, List.nil_append] at hden
  rw [hden]
  unfold buildChunks
  rw [(hspec _ _).1]
  simp [chunkGet, optGet, denote]

/-- **gather, no sliced output index**: the result is the plain sum of all slices -/
theorem gather_sum (out : List Ix) (sl : List SliceInfo) (S : Nat → IArr)
    (hne : outputPos sl out = []) (hpos : 0 < prodSizes sl) :
    ∃ R, gatherSlices out sl ((List.range (prodSizes sl)).map S) = some R ∧
      ∀ idx, R.get idx = ((List.range (prodSizes sl)).map fun i => (S i).get idx).sum := by
  unfold gatherSlices
  simp only [hne, List.isEmpty_nil, if_true]
  obtain ⟨m, hm⟩ : ∃ m, prodSizes sl = m + 1 := ⟨prodSizes sl - 1, by omega⟩
  rw [hm, range_succ_eq]
  refine ⟨_, rfl, ?_⟩
  intro idx
  rw [get_foldl_add, List.map_cons, List.sum_cons, List.map_map, List.map_map, List.map_map]
  rfl

/-! ## Part I'' — the certificate checker run on the real key table -/

theorem validKeyB_iff (sl : List SliceInfo) (k : List (Ix × Nat)) :
    validKeyB sl k = true ↔ ValidKey sl k := by
  induction sl generalizing k with
  | nil => cases k <;> simp [validKeyB, ValidKey]
  | cons s rest ih =>
    cases k with
    | nil => simp [validKeyB, ValidKey]
    | cons kv k => simp [validKeyB, ValidKey, ih, and_assoc]

theorem nodupB_iff (ks : List (List (Ix × Nat))) : nodupB ks = true ↔ ks.Nodup := by
  induction ks with
  | nil => simp [nodupB]
  | cons a t ih => simp [nodupB, ih]

/-- **soundness of `keysCert`**: a table `i ↦ key` accepted by the checker is a bijection from
    `[0, nslices)` onto the valid keys — whatever numbering the implementation uses. -/
theorem keysCert_sound (sl : List SliceInfo) (hwf : WF sl) (ks : List (List (Ix × Nat)))
    (h : keysCert sl ks = true) :
    Set.BijOn (fun i => ks.getD i []) {i | i < prodSizes sl} {k | ValidKey sl k} := by
  simp only [keysCert, Bool.and_eq_true, beq_iff_eq, List.all_eq_true, validKeyB_iff, nodupB_iff] at h
  obtain ⟨⟨hlen, hvalid⟩, hnd⟩ := h
  have hget : ∀ i (hi : i < ks.length), ks.getD i [] = ks[i] := by
    intro i hi
    rw [List.getD_eq_getElem?_getD, List.getElem?_eq_getElem hi]; rfl
  refine ⟨?_, ?_, ?_⟩
  · intro i hi
    have hi' : i < ks.length := by rw [hlen]; exact hi
    show ValidKey sl (ks.getD i [])
    rw [hget i hi']
    exact hvalid _ (List.getElem_mem _)
  · intro i hi j hj hij
    have hi' : i < ks.length := by rw [hlen]; exact hi
    have hj' : j < ks.length := by rw [hlen]; exact hj
    have hij' : ks[i] = ks[j] := by
      have := hij
      simp only [hget i hi', hget j hj'] at this
      exact this
    have hpw := List.pairwise_iff_getElem.1 hnd
    rcases Nat.lt_trichotomy i j with h | h | h
    · exact absurd hij' (hpw i j hi' hj' h)
    · exact h
    · exact absurd hij'.symm (hpw j i hj' hi' h)
  · intro k hk
    -- pigeonhole: ks is a duplicate-free list of valid keys as long as the list of all keys
    have hsub : ks ⊆ allKeys sl := fun x hx => (mem_allKeys sl x).2 (hvalid x hx)
    have hlenall : (allKeys sl).length = prodSizes sl := by
      rw [← sliceKey_enumerates sl hwf]; simp
    have hperm : ks.Perm (allKeys sl) :=
      (List.subperm_of_subset hnd hsub).perm_of_length_le (by omega)
    have hkm : k ∈ ks := hperm.mem_iff.2 ((mem_allKeys sl k).2 hk)
    obtain ⟨i, hi, he⟩ := List.getElem_of_mem hkm
    refine ⟨i, by show i < prodSizes sl; omega, ?_⟩
    show ks.getD i [] = k
    rw [hget i hi]
    exact he

/-! ## Part III — semantics: the slices sum / stack to the unsliced contraction -/

/-- the summed indices of a network: everything that is not an output index -/
def innerIxs (n : Net) : List Ix := n.allIx.filter fun ix => !n.output.contains ix

theorem innerIxs_nodup (n : Net) : (innerIxs n).Nodup := (Net.allIx_nodup n).filter _

/-- which list of summed indices is used (and in which order) is immaterial -/
theorem sumOver_order_irrelevant {R₁ R₂ : List (Ix × List Nat)} (hp : R₁.Perm R₂)
    (hn : (R₁.map (·.1)).Nodup) (f : (Ix → Nat) → Int) (σ : Ix → Nat) :
    sumOver R₁ f σ = sumOver R₂ f σ := sumOver_perm hp f hn σ

/-- **a slice is a section**: the einsum of the sliced network of slice `i` (sliced indices
    removed from all terms, arrays indexed by `slice_arrays(arrays, i)`) equals the sum of the
    *unsliced* operand product over the remaining inner indices with the sliced indices held at
    `slice_key(i)` — for every kind of sliced index (inner, output, hyper, repeated inside a
    tensor, carried by a single tensor, projected). -/
theorem slice_is_section (n : Net) (st : SliceState) (hinv : Inv n st) (inner : List Ix)
    (A : List IArr) (hA : A.length = n.inputs.length) (i : Nat) (σ : Ix → Nat) :
    sliceEinsum n st inner A i σ =
      sumOver (restRanges n st.slicedInds inner) (prodTerms n A) (ov σ (sliceKey st.slicedInds i)) :=
  sliceEinsum_eq n st hinv inner A hA i σ

/-- **slices sum to the whole**: at every output assignment `σ`, summing the einsums of exactly
    those slices whose output key agrees with `σ` (this is what `gather_slices` does) gives the
    einsum of the unsliced network, projected indices contributing exactly their chosen value. -/
theorem slice_sum (n : Net) (st : SliceState) (hinv : Inv n st) (inner : List Ix)
    (hin : inner.Nodup) (hdisj : ∀ ix ∈ inner, ix ∉ n.output)
    (hcover : ∀ s ∈ st.slicedInds, s.ind ∉ n.output → s.ind ∈ inner)
    (A : List IArr) (hA : A.length = n.inputs.length) (σ : Ix → Nat)
    (hσ : ∀ s ∈ outs st.slicedInds, InRange st.slicedInds σ s.ind) :
    ((List.range (prodSizes st.slicedInds)).map fun i =>
        if chunkKey st.slicedInds (outputPos st.slicedInds n.output) i =
            (outputPos st.slicedInds n.output).map (fun p => val st.slicedInds σ p.1)
        then sliceEinsum n st inner A i σ else 0).sum =
      einsumRef n st.slicedInds inner A σ := by
  set sl := st.slicedInds with hsl
  have hwf : WF sl := hinv.flags.wf
  have hnd := hinv.nodup
  -- as a sum over keys
  let G : List (Ix × Nat) → Int := fun k =>
    if (outputPos sl n.output).map (fun p => keyVal k p.1) =
        (outputPos sl n.output).map (fun p => val sl σ p.1)
    then sumOver (restRanges n sl inner) (prodTerms n A) (ov σ k) else 0
  have h1 : ((List.range (prodSizes sl)).map fun i =>
      if chunkKey sl (outputPos sl n.output) i = (outputPos sl n.output).map (fun p => val sl σ p.1)
      then sliceEinsum n st inner A i σ else 0) = ((List.range (prodSizes sl)).map (sliceKey sl)).map G := by
    rw [List.map_map]
    apply List.map_congr_left
    intro i _
    simp only [Function.comp, G, chunkKey]
    rw [sliceEinsum_eq n st hinv inner A hA i σ]
    rfl
  rw [h1, map_sliceKey_range sl hwf]
  -- outputs first
  have hsplit := sorted_eq sl hinv.sorted
  rw [hsplit, allKeys_append, sum_flatMap]
  rw [← hsplit]
  have hinner : ∀ kO ∈ allKeys (outs sl),
      (((allKeys (inners sl)).map fun kI => kO ++ kI).map G).sum =
        if kO = outKeyOf sl σ then
          ((allKeys (inners sl)).map fun kI =>
            sumOver (restRanges n sl inner) (prodTerms n A) (ov σ (kO ++ kI))).sum
        else 0 := by
    intro kO hkO
    rw [List.map_map]
    by_cases he : kO = outKeyOf sl σ
    · simp only [he, if_true]
      congr 1
      apply List.map_congr_left
      intro kI _
      simp only [Function.comp, G]
      rw [if_pos ((outkey_match_iff n sl hinv.flags hnd σ _ kI (he ▸ hkO)).2 rfl)]
    · simp only [he, if_false]
      have : ((allKeys (inners sl)).map (G ∘ fun kI => kO ++ kI)) =
          (allKeys (inners sl)).map fun _ => (0 : Int) := by
        apply List.map_congr_left
        intro kI _
        simp only [Function.comp, G]
        rw [if_neg (fun h => he ((outkey_match_iff n sl hinv.flags hnd σ kO kI hkO).1 h))]
      rw [this, sum_map_zero]
  rw [List.map_congr_left hinner]
  rw [sum_ite_eq (allKeys (outs sl)) (outKeyOf sl σ) _ (allKeys_nodup _) (outKeyOf_mem sl hnd σ hσ)]
  rw [einsumRef_eq n sl hinv.flags hnd inner hin hdisj hcover A σ]
  congr 1
  apply List.map_congr_left
  intro kI hkI
  rw [ov_outKey_append sl hnd σ kI hkI]

theorem axesOf_outputPos (sl : List SliceInfo) (out : List Ix) :
    axesOf out ((outputPos sl out).map (·.1)) = out.filter fun ix => !isSliced sl ix := by
  unfold axesOf outputPos
  rw [fst_outputPosFrom]
  apply List.filter_congr
  intro ix hix
  simp only [List.contains_eq_mem, List.mem_filter, hix, true_and, decide_eq_true_eq]
  cases isSliced sl ix <;> simp

/-- **gather_correct**: if every slice result `S i` is the einsum of its sliced network, with
    axes `output` minus the sliced indices (this is property C01 for the sliced tree), then
    `gather_slices` succeeds and returns an array that, read with axes `output` (a projected
    output index being an axis of length 1), is the einsum of the unsliced network.  For every
    state reachable by `remove_ind` / `restore_ind` (`Inv`). -/
theorem gather_correct (n : Net) (st : SliceState) (hinv : Inv n st) (hout : n.output.Nodup)
    (hpos : ∀ ix, 0 < n.size ix) (inner : List Ix) (hin : inner.Nodup)
    (hdisj : ∀ ix ∈ inner, ix ∉ n.output)
    (hcover : ∀ s ∈ st.slicedInds, s.ind ∉ n.output → s.ind ∈ inner)
    (A : List IArr) (hA : A.length = n.inputs.length) (S : Nat → IArr)
    (hS : ∀ i σ, denote ((slicedNet n st.slicedInds).output) (S i) σ = sliceEinsum n st inner A i σ) :
    ∃ R, gatherSlices n.output st.slicedInds ((List.range (prodSizes st.slicedInds)).map S) = some R ∧
      ∀ σ, (∀ s ∈ outs st.slicedInds, InRange st.slicedInds σ s.ind) →
        denote n.output R σ = einsumRef n st.slicedInds inner A σ := by
  set sl := st.slicedInds with hsl
  have hwf : WF sl := hinv.flags.wf
  have hnd := hinv.nodup
  have hsz : ∀ s ∈ sl, 0 < s.size := by
    intro s hs
    have := hinv.flags s hs
    cases hp : s.project with
    | none => rw [this.2.1 hp]; exact hpos _
    | some p => rw [this.2.2 (by simp [hp])]; exact Nat.one_pos
  have hax : axesOf n.output ((outputPos sl n.output).map (·.1)) = (slicedNet n sl).output :=
    axesOf_outputPos sl n.output
  -- every entry of output_pos belongs to a sliced *output* index
  have hopos_out : ∀ p ∈ outputPos sl n.output, ∃ s ∈ outs sl, s.ind = p.1 := by
    intro p hp
    have hmem : p.1 ∈ n.output.filter (isSliced sl) := by
      have := fst_outputPosFrom sl 0 n.output
      rw [← this]; exact List.mem_map.2 ⟨p, hp, rfl⟩
    obtain ⟨hpo, hps⟩ := List.mem_filter.1 hmem
    obtain ⟨s, hs, hse⟩ := exists_of_isSliced sl p.1 hps
    refine ⟨s, List.mem_filter.2 ⟨hs, ?_⟩, hse⟩
    have := (hinv.flags s hs).1
    rw [hse] at this
    have hc : n.output.contains p.1 = true := by simpa using hpo
    rw [hc] at this
    simp [this]
  by_cases hne : outputPos sl n.output = []
  · -- nothing to stack: plain sum
    obtain ⟨R, hR, hget⟩ := gather_sum n.output sl S hne (prodSizes_pos n hpos sl hinv.flags)
    refine ⟨R, hR, fun σ hσ => ?_⟩
    rw [← slice_sum n st hinv inner hin hdisj hcover A hA σ hσ]
    unfold denote
    rw [hget]
    congr 1
    apply List.map_congr_left
    intro i _
    rw [hne]
    simp only [chunkKey, List.map_nil, if_true]
    rw [← hS i σ, ← hax, hne]
    simp [axesOf_nil, denote]
  · have key : ∀ σ, (∀ s ∈ outs sl, InRange sl σ s.ind) →
        ∃ R, gatherSlices n.output sl ((List.range (prodSizes sl)).map S) = some R ∧
          denote n.output R σ = einsumRef n sl inner A σ := by
      intro σ hσ
      obtain ⟨R, hR, hden⟩ := gather_denote n.output hout sl hwf hnd hsz S σ
        (by
          intro p hp
          obtain ⟨s, hs, hse⟩ := hopos_out p hp
          rw [← hse]; exact hσ s hs) hne
      refine ⟨R, hR, ?_⟩
      rw [hden, ← slice_sum n st hinv inner hin hdisj hcover A hA σ hσ]
      congr 1
      apply List.map_congr_left
      intro i _
      rw [hax, hS i σ]
    -- the result array does not depend on σ
    have hex : ∃ σ0 : Ix → Nat, ∀ s ∈ outs sl, InRange sl σ0 s.ind := by
      refine ⟨fun _ => 0, ?_⟩
      intro s hs
      have hsl' : s ∈ sl := (List.mem_filter.1 hs).1
      unfold InRange
      have : rangeOf sl s.ind = s.slicedRange := by simp [rangeOf, infoOf_of_mem sl hnd s hsl']
      rw [this]
      unfold SliceInfo.slicedRange
      cases hp : s.project with
      | none => simp only [List.length_range]; exact hsz s hsl'
      | some p => simp
    obtain ⟨σ0, hσ0⟩ := hex
    obtain ⟨R, hR, _⟩ := key σ0 hσ0
    refine ⟨R, hR, fun σ hσ => ?_⟩
    obtain ⟨R', hR', hd⟩ := key σ hσ
    rw [hR] at hR'
    cases hR'
    exact hd

/-- `gather_correct` for the canonical list of summed indices of the network -/
theorem gather_correct_canonical (n : Net) (st : SliceState) (hinv : Inv n st) (hout : n.output.Nodup)
    (hpos : ∀ ix, 0 < n.size ix) (hmem : ∀ s ∈ st.slicedInds, s.ind ∈ n.allIx)
    (A : List IArr) (hA : A.length = n.inputs.length) (S : Nat → IArr)
    (hS : ∀ i σ, denote ((slicedNet n st.slicedInds).output) (S i) σ =
      sliceEinsum n st (innerIxs n) A i σ) :
    ∃ R, gatherSlices n.output st.slicedInds ((List.range (prodSizes st.slicedInds)).map S) = some R ∧
      ∀ σ, (∀ s ∈ outs st.slicedInds, InRange st.slicedInds σ s.ind) →
        denote n.output R σ = einsumRef n st.slicedInds (innerIxs n) A σ := by
  apply gather_correct n st hinv hout hpos (innerIxs n) (innerIxs_nodup n) _ _ A hA S hS
  · intro ix hix
    unfold innerIxs at hix
    have := (List.mem_filter.1 hix).2
    simpa using this
  · intro s hs hno
    unfold innerIxs
    exact List.mem_filter.2 ⟨hmem s hs, by simpa using hno⟩

/-- **closed form**: no hypothesis about the slice results is left — the per-slice arrays are
    *defined* as the einsums of the sliced networks (`sliceResult`), and gathering them gives
    the einsum of the unsliced network. -/
theorem gather_einsum_slices (n : Net) (st : SliceState) (hinv : Inv n st) (hout : n.output.Nodup)
    (hpos : ∀ ix, 0 < n.size ix) (inner : List Ix) (hin : inner.Nodup)
    (hdisj : ∀ ix ∈ inner, ix ∉ n.output)
    (hall : ∀ c, ∀ ix ∈ n.term c, ix ∈ n.output ∨ ix ∈ inner)
    (hcover : ∀ s ∈ st.slicedInds, s.ind ∉ n.output → s.ind ∈ inner)
    (A : List IArr) (hA : A.length = n.inputs.length) :
    ∃ R, gatherSlices n.output st.slicedInds
        ((List.range (prodSizes st.slicedInds)).map (sliceResult n st inner A)) = some R ∧
      ∀ σ, (∀ s ∈ outs st.slicedInds, InRange st.slicedInds σ s.ind) →
        denote n.output R σ = einsumRef n st.slicedInds inner A σ :=
  gather_correct n st hinv hout hpos inner hin hdisj hcover A hA (sliceResult n st inner A)
    (fun i σ => denote_sliceResult n st inner A i hall σ)

/-- **chunks are correct**: chunk `o` yielded by `gen_output_chunks` — the sum of the slice
    einsums `o*stepsize … o*stepsize+stepsize-1` — read with axes `output` minus sliced indices,
    is the reference einsum with the sliced output indices held at the chunk's key
    `slice_key` of the output indices (and summed over all sliced inner indices). -/
theorem chunk_correct (n : Net) (st : SliceState) (hinv : Inv n st) (hpos : ∀ ix, 0 < n.size ix)
    (inner : List Ix) (hin : inner.Nodup) (hdisj : ∀ ix ∈ inner, ix ∉ n.output)
    (hall : ∀ c, ∀ ix ∈ n.term c, ix ∈ n.output ∨ ix ∈ inner)
    (hcover : ∀ s ∈ st.slicedInds, s.ind ∉ n.output → s.ind ∈ inner)
    (A : List IArr) (hA : A.length = n.inputs.length) (o : Nat) (ho : o < nchunks st.slicedInds) :
    ∃ a, (genOutputChunks n.output st.slicedInds (prodSizes st.slicedInds)
        (sliceResult n st inner A))[o]? = some (a, sliceKey (outs st.slicedInds) o) ∧
      ∀ σ, denote (slicedNet n st.slicedInds).output a σ =
        einsumRef n st.slicedInds inner A (ov σ (sliceKey (outs st.slicedInds) o)) := by
  have hstep : 0 < stepsize st.slicedInds :=
    prodSizes_pos n hpos _ (fun s hs => hinv.flags s (List.mem_filter.1 hs).1)
  obtain ⟨a, ha, hget⟩ := genOutputChunks_spec n st.slicedInds hinv.sorted hinv.flags hstep
    (sliceResult n st inner A) o ho
  refine ⟨a, ha, fun σ => ?_⟩
  rw [← chunk_section n st hinv inner hin hdisj hcover A hA σ o ho]
  unfold denote
  rw [hget]
  congr 1
  apply List.map_congr_left
  intro j _
  exact denote_sliceResult n st inner A _ hall σ

/-! ## non-vacuity -/

/-- matrix product `ab,bc->ac` with the inner index `b = 1` and the output index `a = 0` sliced:
    4 slices; gathering the slice einsums gives the product `[[7,10],[15,22]]` of
    `[[1,2],[3,4]]` with itself -/
def mmNet : Net := { inputs := [[0, 1], [1, 2]], output := [0, 2], sizes := [(0, 2), (1, 2), (2, 2)] }
def mmState : SliceState := runOps mmNet [.remove 1 none, .remove 0 none]
def mmArr : IArr := { shape := [2, 2], get := fun idx => 1 + 2 * (idx.getD 0 0 : Nat) + (idx.getD 1 0 : Nat) }

example : mmState = ⟨[⟨false, 0, 2, none⟩, ⟨true, 1, 2, none⟩], 4, [0, 1]⟩ := by decide
example : ((gatherSlices mmNet.output mmState.slicedInds
      ((List.range 4).map (sliceResult mmNet mmState [1] [mmArr, mmArr]))).map
    fun R => [R.get [0, 0], R.get [0, 1], R.get [1, 0], R.get [1, 1]]) = some [7, 10, 15, 22] := by
  decide
example : einsumRef mmNet mmState.slicedInds [1] [mmArr, mmArr] (fun ix => if ix = 0 then 1 else 0) = 15 := by
  decide


/-- three sliced indices as `remove_ind` leaves them: output `1` sliced (size 2), output `3`
    projected onto value 2, inner `0` sliced (size 3) -/
def exSl : List SliceInfo := [⟨false, 1, 2, none⟩, ⟨false, 3, 1, some 2⟩, ⟨true, 0, 3, none⟩]

example : WF exSl := by decide
example : Sorted exSl := by unfold Sorted; decide
example : prodSizes exSl = 6 ∧ nchunks exSl = 2 ∧ stepsize exSl = 3 := by decide
example : getSliceStrides exSl = [3, 3, 1] := by decide
example : sliceKey exSl 4 = [(1, 1), (3, 2), (0, 1)] := by decide
example : ValidKey exSl (sliceKey exSl 4) ∧ sliceNum exSl (sliceKey exSl 4) = 4 := by decide
example : (chunkPlan [3, 2, 1] exSl 6).map (·.1) = [[0, 1, 2], [3, 4, 5]] := by decide
example : outputPos exSl [3, 2, 1] = [(3, 0), (1, 2)] := by decide

/-- a history (with a failing duplicate `remove_ind` and a restore) reaching `exSl` -/
def exNet : Net := { inputs := [[0, 1, 2], [0, 3, 4], [4, 2]], output := [3, 2, 1],
                     sizes := [(0, 3), (1, 2), (2, 2), (3, 4), (4, 2)] }
example : (runOps exNet [.remove 0 none, .remove 2 none, .remove 3 (some 2), .remove 0 none,
    .remove 1 none, .restore 2]) = ⟨exSl, 6, [0, 1]⟩ := by decide

end Cotengra.C06
