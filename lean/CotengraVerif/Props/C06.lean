import CotengraVerif.Lemmas.Chunks
import CotengraVerif.Lemmas.Gather
import Mathlib.Data.Set.Function

/-!
# C06 — slices partition the contraction exactly and are reassembled correctly

Model (`Model/Slicing.lean`, transcribed from cotengra/core.py): `SliceInfo` + its dataclass
ordering (:109-121), `get_slice_strides` (:124), the slicing-state part of `remove_ind` /
`restore_ind` (:1606-1644, :1686-1718), `nslices`/`nchunks` (:384-398), `slice_key` (:3245),
the selectors of `slice_arrays` (:3272), `gather_slices` with `recursively_stack_chunks`
(:3295-3350, without exponent stripping) and `gen_output_chunks` (:3352-3409).

Arrays are functional (`Arr`: shape + element function); `Arr.add`, `Arr.stack`, `Arr.select`
model `+`, `numpy.stack` and basic indexing and are *trusted* (validated against numpy by the
harness).  The per-slice contraction itself (`contract_core`) is not part of C06: theorems take
the per-slice results as an arbitrary family `S : slice number → array` (Part I, II) or as
the einsum of the sliced network (Part III, `Props/C06Sum.lean`).

Not modelled: exponent stripping inside `gather_slices`, progress bars, `contract_mpi`.
-/
namespace Cotengra.C06
open Cotengra Cotengra.Slicing

/-! ## Part I — numbering -/

/-- `get_slice_strides`: `strides[k] = Π_{j>k} size_j` (sizes of projected entries are 1). -/
theorem strides_spec (sl : List SliceInfo) (k : Nat) (h : k < sl.length) :
    (getSliceStrides sl)[k]? = some (prodSizes (sl.drop (k + 1))) := by
  have hl : k < (getSliceStrides sl).length := by rw [getSliceStrides_length]; exact h
  rw [List.getElem?_eq_getElem hl, getSliceStrides_getElem sl k h]

/-- **enumeration**: `slice_key(0), slice_key(1), …, slice_key(nslices-1)` is the list of all
    combinations of values of the sliced indices (projected: the single chosen value) in
    lexicographic order, first index of `sliced_inds` slowest. -/
theorem sliceKey_enumerates (sl : List SliceInfo) (hwf : WF sl) :
    (List.range (prodSizes sl)).map (sliceKey sl) = allKeys sl :=
  map_sliceKey_range sl hwf

/-- **bijection**: `i ↦ slice_key(i)` maps `[0, nslices)` one-to-one onto the valid keys
    (`range_k = [0, d_k)` or `{project_k}`), with inverse `sliceNum` (mixed radix). -/
theorem sliceKey_bijective (sl : List SliceInfo) (hwf : WF sl) :
    Set.BijOn (sliceKey sl) {i | i < prodSizes sl} {k | ValidKey sl k} := by
  refine ⟨?_, ?_, ?_⟩
  · intro i hi; exact sliceKey_valid sl hwf i hi
  · intro i hi j hj h; exact sliceKey_injective sl hwf i j hi hj h
  · intro k hk
    exact ⟨sliceNum sl k, sliceNum_lt sl hwf k hk, sliceKey_sliceNum sl hwf k hk⟩

theorem sliceNum_inverse (sl : List SliceInfo) (hwf : WF sl) :
    (∀ i, i < prodSizes sl → sliceNum sl (sliceKey sl i) = i) ∧
    (∀ k, ValidKey sl k → sliceNum sl k < prodSizes sl ∧ sliceKey sl (sliceNum sl k) = k) :=
  ⟨fun i hi => sliceNum_sliceKey sl hwf i hi,
   fun k hk => ⟨sliceNum_lt sl hwf k hk, sliceKey_sliceNum sl hwf k hk⟩⟩

/-- the guard is needed: an entry that is projected but has `size ≠ 1` breaks the numbering
    (two slice numbers get the same key) -/
theorem sliceKey_bijective_needs_wf :
    ∃ sl : List SliceInfo, ¬ WF sl ∧ sliceKey sl 0 = sliceKey sl 1 ∧ 1 < prodSizes sl :=
  ⟨[⟨true, 0, 2, some 1⟩], by simp [WF], by decide, by decide⟩

/-! ## Part I' — the slicing state after any history -/

/-- after **every** sequence of `remove_ind` / `restore_ind` calls (failing calls raise and
    leave the state alone): `sliced_inds` is sorted outputs-first, its indices are distinct,
    flags/sizes are consistent with the network (projected ⇒ size 1), `multiplicity` is the
    product of the sizes, and `sliced_inputs` are exactly the inputs carrying a sliced index. -/
theorem reachable_inv (n : Net) (hpos : ∀ ix, 0 < n.size ix) (ops : List SliceOp) :
    Inv n (runOps n ops) := runOps_inv n hpos ops

theorem reachable_wf (n : Net) (hpos : ∀ ix, 0 < n.size ix) (ops : List SliceOp) :
    WF (runOps n ops).slicedInds := (reachable_inv n hpos ops).flags.wf

/-- `nslices` (= `multiplicity`) is the number of keys -/
theorem nslices_eq (n : Net) (hpos : ∀ ix, 0 < n.size ix) (ops : List SliceOp) :
    (runOps n ops).multiplicity = (allKeys (runOps n ops).slicedInds).length := by
  rw [(reachable_inv n hpos ops).mult, ← sliceKey_enumerates _ (reachable_wf n hpos ops)]
  simp

/-! ## Part II — chunks -/

/-- `nslices = nchunks * stepsize` when outputs are sorted first -/
theorem nslices_eq_nchunks_mul (sl : List SliceInfo) (hs : Sorted sl) :
    prodSizes sl = nchunks sl * stepsize sl := prodSizes_eq_nchunks_mul sl hs

/-- **tiling**: the slice numbers summed into chunk 0, chunk 1, … concatenate to
    `0, 1, …, nslices-1` — each slice goes into exactly one chunk. -/
theorem chunks_tile (output : List Ix) (sl : List SliceInfo) (hs : Sorted sl)
    (hpos : 0 < stepsize sl) :
    ((chunkPlan output sl (prodSizes sl)).map (·.1)).flatten = List.range (prodSizes sl) :=
  chunkPlan_tiles output sl hs hpos

/-- all slices summed into one chunk have the chunk's output key -/
theorem chunk_slices_same_key (n : Net) (sl : List SliceInfo) (hs : Sorted sl) (hf : Flags n sl)
    (o j : Nat) (ho : o < nchunks sl) (hj : j < stepsize sl) :
    (sliceKey sl (o * stepsize sl + j)).filter (fun kv => n.output.contains kv.1) =
      (sliceKey sl (o * stepsize sl)).filter (fun kv => n.output.contains kv.1) := by
  have hpos : 0 < stepsize sl := by omega
  rw [outputPart_sliceKey n sl hs hf o j ho hj]
  have := outputPart_sliceKey n sl hs hf o 0 ho hpos
  simpa using this.symm

/-- the keys yielded with the chunks are all combinations of the sliced *output* indices, each
    exactly once (pairwise distinct), in lexicographic order -/
theorem chunk_keys_cover (n : Net) (sl : List SliceInfo) (hs : Sorted sl) (hf : Flags n sl)
    (hpos : 0 < stepsize sl) :
    (chunkPlan n.output sl (prodSizes sl)).map (·.2) = allKeys (outs sl) ∧
      ((chunkPlan n.output sl (prodSizes sl)).map (·.2)).Nodup := by
  have h := chunkPlan_keys n sl hs hf hpos
  exact ⟨h, h ▸ allKeys_nodup _⟩

/-- what `gen_output_chunks` yields: chunk `o` is the sum of the slices
    `o*stepsize, …, o*stepsize + stepsize - 1`, with key `slice_key` of the output indices -/
theorem genOutputChunks_spec (n : Net) (sl : List SliceInfo) (hs : Sorted sl) (hf : Flags n sl)
    (hpos : 0 < stepsize sl) (C : Nat → Arr) (o : Nat) (ho : o < nchunks sl) :
    ∃ a, (genOutputChunks n.output sl (prodSizes sl) C)[o]? = some (a, sliceKey (outs sl) o) ∧
      ∀ idx, a.get idx = ((List.range (stepsize sl)).map fun j => (C (o * stepsize sl + j)).get idx).sum := by
  have hdiv : prodSizes sl / stepsize sl = nchunks sl := by
    rw [prodSizes_eq_nchunks_mul sl hs, Nat.mul_div_cancel _ hpos]
  have hkey : (sliceKey sl (o * stepsize sl)).filter (fun kv => n.output.contains kv.1) =
      sliceKey (outs sl) o := by
    have := outputPart_sliceKey n sl hs hf o 0 ho hpos
    simpa using this
  unfold genOutputChunks chunkPlan
  simp only [hdiv, List.map_map, List.getElem?_map, List.getElem?_range ho, Option.map_some,
    Function.comp, hkey]
  refine ⟨_, rfl, ?_⟩
  intro idx
  obtain ⟨s, hs'⟩ : ∃ s, stepsize sl = s + 1 := ⟨stepsize sl - 1, by omega⟩
  simp only [hs', Nat.add_sub_cancel]
  rw [List.foldl_map]
  have hfold : ∀ (l : List Nat) (a : Arr),
      (l.foldl (fun acc j => acc.add (C (o * (s + 1) + (j + 1)))) a).get idx =
        a.get idx + (l.map fun j => (C (o * (s + 1) + (j + 1))).get idx).sum := by
    intro l
    induction l with
    | nil => intro a; simp
    | cons b t ih =>
      intro a
      rw [List.foldl_cons, ih, List.map_cons, List.sum_cons]
      simp only [Arr.add]; omega
  rw [hfold, range_succ_eq, List.map_cons, List.sum_cons, List.map_map]
  rfl

/-! ## Part II' — gathering: sum, then recursive stack -/

/-- **stacking axis**: the entry of `output_pos` that follows the already stacked prefix `D`
    sits at `output_pos[ix] - len(loc)` in the array whose axes are `output` minus the
    indices of `D`; the subtraction never underflows. -/
theorem stack_axes (sl : List SliceInfo) (out : List Ix) (hn : out.Nodup)
    (D R : List (Ix × Nat)) (ix : Ix) (pos : Nat)
    (h : outputPos sl out = D ++ (ix, pos) :: R) :
    D.length ≤ pos ∧ pos - D.length = (axesOf out (D.map (·.1))).idxOf ix ∧
      (axesOf out ((D ++ [(ix, pos)]).map (·.1))).insertIdx (pos - D.length) ix =
        axesOf out (D.map (·.1)) := by
  have hp := outputPos_split sl out hn 0 D R ix pos h
  have hk : pos - D.length = (axesOf out (D.map (·.1))).idxOf ix := by rw [← hp.2.1]; omega
  refine ⟨by omega, hk, ?_⟩
  have hnax : (axesOf out (D.map (·.1))).Nodup := List.Nodup.sublist List.filter_sublist hn
  have hixD : ix ∈ axesOf out (D.map (·.1)) := by
    unfold axesOf
    refine List.mem_filter.2 ⟨hp.2.2, ?_⟩
    have hnd : ((outputPos sl out).map (·.1)).Nodup := by
      unfold outputPos; rw [fst_outputPosFrom]
      exact List.Nodup.sublist List.filter_sublist hn
    rw [h, List.map_append, List.map_cons] at hnd
    have := (List.nodup_append.1 hnd).2.2 ix
    simp only [List.contains_eq_mem, Bool.not_eq_true', decide_eq_false_iff_not]
    intro hm
    exact this hm ix List.mem_cons_self rfl
  rw [List.map_append, List.map_cons, List.map_nil, axesOf_snoc, hk]
  exact (insertIdx_idxOf_filter _ hnax ix hixD).1

/-- **gather, stacking case**: with at least one sliced output index, `gather_slices` succeeds
    (no `KeyError`) and the element of the result at `σ` — read with axes `output`, projected
    output indices being axes of length 1 — is the sum of the elements at `σ` of exactly those
    slices whose output key agrees with `σ` (projected: with the projected value). -/
theorem gather_denote (out : List Ix) (hn : out.Nodup) (sl : List SliceInfo) (hwf : WF sl)
    (hnd : (sl.map (·.ind)).Nodup) (hpos : ∀ s ∈ sl, 0 < s.size) (S : Nat → Arr) (σ : Ix → Nat)
    (hσ : ∀ p ∈ outputPos sl out, InRange sl σ p.1) (hne : outputPos sl out ≠ []) :
    ∃ R, gatherSlices out sl ((List.range (prodSizes sl)).map S) = some R ∧
      denote out R σ =
        ((List.range (prodSizes sl)).map fun i =>
          if chunkKey sl (outputPos sl out) i = (outputPos sl out).map (fun p => val sl σ p.1)
          then denote (axesOf out ((outputPos sl out).map (·.1))) (S i) σ else 0).sum := by
  unfold gatherSlices
  have hemp : (outputPos sl out).isEmpty = false := by
    cases h : outputPos sl out with
    | nil => exact absurd h hne
    | cons _ _ => rfl
  simp only [hemp, Bool.false_eq_true, if_false]
  have hspec := fun key idx => buildChunksFrom_spec sl (outputPos sl out) S key idx (prodSizes sl) 0 []
  simp only [← List.range_eq_range'] at hspec
  have hch : ∀ vals, ValidVals sl (outputPos sl out) vals →
      (chunkGet (buildChunks sl (outputPos sl out) ((List.range (prodSizes sl)).map S))
        ([] ++ vals)).isSome = true := by
    intro vals hv
    obtain ⟨j, hj, hk⟩ := exists_slice_of_vals sl hwf hnd hpos out hn vals hv
    unfold buildChunks
    rw [List.nil_append, (hspec vals []).2]
    exact Or.inr ⟨j, Nat.zero_le _, by omega, hk⟩
  obtain ⟨R, hR, hden⟩ := stackRec_spec sl out hn _ σ (outputPos sl out) [] [] (by simp) rfl hσ hch
  refine ⟨R, hR, ?_⟩
  simp only [List.map_nil, axesOf_nil, List.nil_append] at hden
  rw [hden]
  unfold buildChunks
  rw [(hspec _ _).1]
  simp [chunkGet, optGet, denote]

/-- **gather, no sliced output index**: the result is the plain sum of all slices -/
theorem gather_sum (out : List Ix) (sl : List SliceInfo) (S : Nat → Arr)
    (hne : outputPos sl out = []) (hpos : 0 < prodSizes sl) :
    ∃ R, gatherSlices out sl ((List.range (prodSizes sl)).map S) = some R ∧
      ∀ idx, R.get idx = ((List.range (prodSizes sl)).map fun i => (S i).get idx).sum := by
  unfold gatherSlices
  simp only [hne, List.isEmpty_nil, if_true]
  obtain ⟨m, hm⟩ : ∃ m, prodSizes sl = m + 1 := ⟨prodSizes sl - 1, by omega⟩
  rw [hm, range_succ_eq]
  refine ⟨_, rfl, ?_⟩
  intro idx
  rw [get_foldl_add, List.map_cons, List.sum_cons, List.map_map, List.map_map, List.map_map]
  rfl

/-! ## non-vacuity -/

/-- three sliced indices as `remove_ind` leaves them: output `1` sliced (size 2), output `3`
    projected onto value 2, inner `0` sliced (size 3) -/
def exSl : List SliceInfo := [⟨false, 1, 2, none⟩, ⟨false, 3, 1, some 2⟩, ⟨true, 0, 3, none⟩]

example : WF exSl := by decide
example : Sorted exSl := by unfold Sorted; decide
example : prodSizes exSl = 6 ∧ nchunks exSl = 2 ∧ stepsize exSl = 3 := by decide
example : getSliceStrides exSl = [3, 3, 1] := by decide
example : sliceKey exSl 4 = [(1, 1), (3, 2), (0, 1)] := by decide
example : ValidKey exSl (sliceKey exSl 4) ∧ sliceNum exSl (sliceKey exSl 4) = 4 := by decide
example : (chunkPlan [3, 2, 1] exSl 6).map (·.1) = [[0, 1, 2], [3, 4, 5]] := by decide
example : outputPos exSl [3, 2, 1] = [(3, 0), (1, 2)] := by decide

/-- a history (with a failing duplicate `remove_ind` and a restore) reaching `exSl` -/
def exNet : Net := { inputs := [[0, 1, 2], [0, 3, 4], [4, 2]], output := [3, 2, 1],
                     sizes := [(0, 3), (1, 2), (2, 2), (3, 4), (4, 2)] }
example : (runOps exNet [.remove 0 none, .remove 2 none, .remove 3 (some 2), .remove 0 none,
    .remove 1 none, .restore 2]) = ⟨exSl, 6, [0, 1]⟩ := by decide

end Cotengra.C06
