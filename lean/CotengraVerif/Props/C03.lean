import CotengraVerif.Lemmas.Cost
import CotengraVerif.Lemmas.Peak

/-!
# C03 — reported flops / write / size match the definition

Model: `Net.legs / involved / nodeSize / nodeFlops / stats` (Model/Net.lean, Model/Stats.lean),
transcribed from cotengra/core.py:743-848, 930-1056.

Independent definition ("from the network alone"): an index *survives* a set of leaves `S` iff
it occurs under `S` and not all of its appearances (inputs + output) are under `S` (`Net.Surv`);
size = product of the dimensions of the survivors; flops of a step = product of the dimensions
of all indices surviving the left or the right operand (`Net.specProd`).

All theorems are for every network, every tree with distinct in-range leaves, every set of
removed (sliced or projected) indices.
-/
namespace Cotengra.C03
open Cotengra Cotengra.Net Cotengra.Legs

/-- legs of a node = the survivors of its leaf set -/
theorem mem_legs_iff_surv (n : Net) (rm : List Ix) (t : BT) (hd : t.leaves.Nodup)
    (hb : ∀ i ∈ t.leaves, i < n.inputs.length) (ix : Ix) :
    ix ∈ keys (n.legs rm t) ↔ n.Surv rm t ix :=
  Net.mem_legs_iff_surv n rm t hd hb ix

/-- reported size of a (non-root) node = product of the dimensions of the surviving indices -/
theorem size_eq_spec (n : Net) (rm : List Ix) (t : BT) (hd : t.leaves.Nodup)
    (hb : ∀ i ∈ t.leaves, i < n.inputs.length) :
    n.nodeSize rm t = n.specProd (fun ix => decide (n.Surv rm t ix)) := by
  unfold nodeSize
  apply sizeOfLegs_eq_specProd n _ (keys_nodup_legs n rm t)
  intro ix
  rw [Net.mem_legs_iff_surv n rm t hd hb ix]
  constructor
  · intro h; exact ⟨surv_mem_allIx n rm t ix h, by simpa using h⟩
  · intro h; simpa using h.2

/-- the indices involved in a step are those surviving either operand -/
theorem involved_iff (n : Net) (rm : List Ix) (l r : BT) (hd : (BT.node l r).leaves.Nodup)
    (hb : ∀ i ∈ (BT.node l r).leaves, i < n.inputs.length) (ix : Ix) :
    ix ∈ keys (n.involved rm (.node l r)) ↔ (n.Surv rm l ix ∨ n.Surv rm r ix) := by
  have hdl : l.leaves.Nodup := (List.nodup_append.1 hd).1
  have hdr : r.leaves.Nodup := (List.nodup_append.1 hd).2.1
  have hbl : ∀ i ∈ l.leaves, i < n.inputs.length := fun i hi => hb i (by simp [BT.leaves, hi])
  have hbr : ∀ i ∈ r.leaves, i < n.inputs.length := fun i hi => hb i (by simp [BT.leaves, hi])
  rw [mem_involved_iff, Net.mem_legs_iff_surv n rm l hdl hbl, Net.mem_legs_iff_surv n rm r hdr hbr]

/-- reported flops of a step = product of the dimensions of all indices involved -/
theorem flops_eq_spec (n : Net) (rm : List Ix) (l r : BT) (hd : (BT.node l r).leaves.Nodup)
    (hb : ∀ i ∈ (BT.node l r).leaves, i < n.inputs.length) :
    n.nodeFlops rm (.node l r) =
      n.specProd (fun ix => decide (n.Surv rm l ix ∨ n.Surv rm r ix)) := by
  unfold nodeFlops
  apply sizeOfLegs_eq_specProd n _ (keys_nodup_involved n rm _)
  intro ix
  rw [involved_iff n rm l r hd hb ix]
  constructor
  · intro h
    refine ⟨?_, by simpa using h⟩
    rcases h with h | h
    · exact surv_mem_allIx n rm l ix h
    · exact surv_mem_allIx n rm r ix h
  · intro h; simpa using h.2

/-! ## slicing divides exactly the figures of the nodes that carry / involve the index -/

theorem occ_termRm_cons (n : Net) (rm : List Ix) (ix0 : Ix) (i : Nat) (ix : Ix) :
    occ (n.termRm (ix0 :: rm) i) ix = if ix = ix0 then 0 else occ (n.termRm rm i) ix := by
  unfold termRm occ
  have hf : (n.term i).filter (fun ix => !(ix0 :: rm).contains ix) =
      ((n.term i).filter (fun ix => !rm.contains ix)).filter (fun ix => ix != ix0) := by
    rw [List.filter_filter]
    congr 1
    funext x
    simp only [List.contains_cons, Bool.not_or, bne, Bool.and_comm]
  rw [hf]
  by_cases h : ix = ix0
  · subst h
    simp only [if_true]
    apply List.count_eq_zero_of_not_mem
    intro hm
    simpa using (List.mem_filter.1 hm).2
  · simp only [h, if_false]
    apply List.count_filter
    simpa using h

theorem cnt_cons (n : Net) (rm : List Ix) (ix0 : Ix) (t : BT) (ix : Ix) :
    n.cnt (ix0 :: rm) t ix = if ix = ix0 then 0 else n.cnt rm t ix := by
  unfold cnt
  by_cases h : ix = ix0
  · simp only [h, if_true]
    apply List.sum_eq_zero
    intro x hx
    obtain ⟨i, _, rfl⟩ := List.mem_map.1 hx
    rw [occ_termRm_cons]; simp
  · simp only [h, if_false]
    congr 1
    apply List.map_congr_left
    intro i _
    rw [occ_termRm_cons]; simp [h]

theorem surv_cons (n : Net) (rm : List Ix) (ix0 : Ix) (t : BT) (ix : Ix) :
    n.Surv (ix0 :: rm) t ix ↔ (ix ≠ ix0 ∧ n.Surv rm t ix) := by
  unfold Surv
  rw [cnt_cons]
  by_cases h : ix = ix0 <;> simp [h]

theorem specProd_split (n : Net) (p : Ix → Bool) (ix0 : Ix) :
    n.specProd (fun ix => p ix && (ix != ix0)) *
      (if p ix0 = true ∧ ix0 ∈ n.allIx then n.size ix0 else 1) = n.specProd p := by
  unfold specProd
  have hnd := allIx_nodup n
  generalize n.allIx = L at *
  induction L with
  | nil => simp
  | cons a t ih =>
    have hnd' := (List.nodup_cons.1 hnd)
    have iht := ih hnd'.2
    by_cases ha : a = ix0
    · subst ha
      have hnot : ¬ a ∈ t := hnd'.1
      have e1 : t.filter (fun ix => p ix && (ix != a)) = t.filter p := by
        apply List.filter_congr
        intro x hx
        have : x ≠ a := fun e => hnot (e ▸ hx)
        simp [this]
      by_cases hp : p a = true
      · simp [List.filter_cons, hp, e1, Nat.mul_comm]
      · simp [List.filter_cons, hp, e1]
    · have hmem : (ix0 ∈ a :: t) ↔ ix0 ∈ t := by
        rw [List.mem_cons]
        constructor
        · rintro (e | e)
          · exact absurd e.symm ha
          · exact e
        · exact Or.inr
      simp only [hmem]
      by_cases hp : p a = true
      · have e1 : List.filter (fun ix => p ix && ix != ix0) (a :: t) =
            a :: List.filter (fun ix => p ix && ix != ix0) t := by
          simp [List.filter_cons, hp, ha]
        have e2 : List.filter p (a :: t) = a :: List.filter p t := by
          simp [List.filter_cons, hp]
        rw [e1, e2]
        simp only [List.map_cons, List.prod_cons]
        rw [Nat.mul_assoc, iht]
      · have e1 : List.filter (fun ix => p ix && ix != ix0) (a :: t) =
            List.filter (fun ix => p ix && ix != ix0) t := by
          simp [List.filter_cons, hp]
        have e2 : List.filter p (a :: t) = List.filter p t := by
          simp [List.filter_cons, hp]
        rw [e1, e2]
        exact iht

/-- slicing `ix0` divides the size of exactly the nodes that carry it -/
theorem slice_size (n : Net) (rm : List Ix) (ix0 : Ix) (t : BT) (hd : t.leaves.Nodup)
    (hb : ∀ i ∈ t.leaves, i < n.inputs.length) :
    n.nodeSize (ix0 :: rm) t * (if n.Surv rm t ix0 then n.size ix0 else 1) = n.nodeSize rm t := by
  rw [size_eq_spec n _ t hd hb, size_eq_spec n rm t hd hb,
    ← specProd_split n (fun ix => decide (n.Surv rm t ix)) ix0]
  congr 1
  · congr 1
    funext ix
    simp only [surv_cons, bne_iff_ne, ne_eq]
    by_cases h1 : ix = ix0 <;> by_cases h2 : n.Surv rm t ix <;> simp [h1, h2]
  · by_cases h : n.Surv rm t ix0
    · simp [h, surv_mem_allIx n rm t ix0 h]
    · simp [h]

/-- slicing `ix0` divides the flops of exactly the steps that involve it -/
theorem slice_flops (n : Net) (rm : List Ix) (ix0 : Ix) (l r : BT)
    (hd : (BT.node l r).leaves.Nodup) (hb : ∀ i ∈ (BT.node l r).leaves, i < n.inputs.length) :
    n.nodeFlops (ix0 :: rm) (.node l r) *
        (if n.Surv rm l ix0 ∨ n.Surv rm r ix0 then n.size ix0 else 1) =
      n.nodeFlops rm (.node l r) := by
  rw [flops_eq_spec n _ l r hd hb, flops_eq_spec n rm l r hd hb,
    ← specProd_split n (fun ix => decide (n.Surv rm l ix ∨ n.Surv rm r ix)) ix0]
  congr 1
  · congr 1
    funext ix
    simp only [surv_cons, bne_iff_ne, ne_eq]
    by_cases h1 : ix = ix0 <;> by_cases h2 : n.Surv rm l ix <;> by_cases h3 : n.Surv rm r ix <;>
      simp [h1, h2, h3]
  · by_cases h : n.Surv rm l ix0 ∨ n.Surv rm r ix0
    · have : ix0 ∈ n.allIx := by
        rcases h with h | h
        · exact surv_mem_allIx n rm l ix0 h
        · exact surv_mem_allIx n rm r ix0 h
      simp [h, this]
    · simp [h]

/-! ## totals -/

/-- the independent definition of a step's flops / a node's size -/
def specFlops (n : Net) (rm : List Ix) : BT → Nat
  | .leaf _ => 0
  | .node l r => n.specProd (fun ix => decide (n.Surv rm l ix ∨ n.Surv rm r ix))

def specSizeIn (n : Net) (rm : List Ix) (root s : BT) : Nat :=
  if s == root then n.prodSizes (n.output.filter (fun ix => !rm.contains ix))
  else n.specProd (fun ix => decide (n.Surv rm s ix))

def specStats (n : Net) (rm sliced : List Ix) (t : BT) : Stats :=
  { flops := n.mult sliced * (t.internal.map (specFlops n rm)).sum,
    write := n.mult sliced * (t.internal.map (specSizeIn n rm t)).sum,
    size := listMax (t.internal.map (specSizeIn n rm t)) }

theorem internal_leaves_sublist (t s : BT) (h : s ∈ t.internal) : s.leaves.Sublist t.leaves := by
  induction t with
  | leaf i => cases h
  | node l r ihl ihr =>
    simp only [BT.internal, List.mem_append, List.mem_singleton] at h
    rcases h with (h | h) | h
    · exact (ihl h).trans (List.sublist_append_left _ _)
    · exact (ihr h).trans (List.sublist_append_right _ _)
    · subst h; exact List.Sublist.refl _

theorem internal_is_node (t s : BT) (h : s ∈ t.internal) : ∃ l r, s = .node l r := by
  induction t with
  | leaf i => cases h
  | node l r ihl ihr =>
    simp only [BT.internal, List.mem_append, List.mem_singleton] at h
    rcases h with (h | h) | h
    · exact ihl h
    · exact ihr h
    · exact ⟨l, r, h⟩

theorem rootSize_eq (n : Net) (rm : List Ix) :
    n.sizeOfLegs (n.rootLegs rm) = n.prodSizes (n.output.filter (fun ix => !rm.contains ix)) := by
  unfold sizeOfLegs rootLegs prodSizes
  rw [List.map_map]
  rfl

/-- `contract_stats()` = the totals of the independent definition, multiplied by the number of
    slices for flops and write (not for size). -/
theorem stats_eq_spec (n : Net) (rm sliced : List Ix) (t : BT) (hd : t.leaves.Nodup)
    (hb : ∀ i ∈ t.leaves, i < n.inputs.length) :
    n.stats rm sliced t = specStats n rm sliced t := by
  have hf : t.internal.map (n.nodeFlops rm) = t.internal.map (specFlops n rm) := by
    apply List.map_congr_left
    intro s hs
    obtain ⟨l, r, rfl⟩ := internal_is_node t s hs
    have hsub := internal_leaves_sublist t _ hs
    exact flops_eq_spec n rm l r (hd.sublist hsub) (fun i hi => hb i (hsub.subset hi))
  have hs : t.internal.map (n.sizeIn rm t) = t.internal.map (specSizeIn n rm t) := by
    apply List.map_congr_left
    intro s hs
    have hsub := internal_leaves_sublist t _ hs
    unfold sizeIn specSizeIn
    split
    · exact rootSize_eq n rm
    · exact size_eq_spec n rm s (hd.sublist hsub) (fun i hi => hb i (hsub.subset hi))
  unfold stats specStats
  simp only [hf, hs]

/-! ## peak concurrent memory (`peak_size(order)`, core.py:1008-1024)

The definition (`Lemmas/Peak.lean`): the inputs are live at the start; a step needs everything
that is live — its two operands among it — plus its output at the same time; afterwards the
operands are gone and the output is live (`liveStep`).  `stepsPeak` is the largest requirement
over the steps, with the sizes of the independent definition. -/

theorem peak_eq_fold (n : Net) (rm : List Ix) (t : BT) (order : List BT) :
    n.peak rm t order =
      (order.foldl (peakStep (n.sizeIn rm t))
        (sumSz (n.sizeIn rm t) (t.leaves.map BT.leaf), sumSz (n.sizeIn rm t) (t.leaves.map BT.leaf))).2 := by
  unfold peak sumSz
  simp only [List.map_map]
  rfl

/-- sizes agree on every tensor the schedule touches ⇒ same peak requirement -/
theorem stepsPeak_congr (sz sz' : BT → Nat) (order : List BT) :
    ∀ (av : List BT), (∀ x ∈ av, sz x = sz' x) → (∀ p ∈ order, sz p = sz' p) →
      stepsPeak sz av order = stepsPeak sz' av order := by
  induction order with
  | nil => intro _ _ _; rfl
  | cons p rest ih =>
    intro av hav hord
    unfold stepsPeak
    have hp := hord p List.mem_cons_self
    have hsum : sumSz sz av = sumSz sz' av := by
      unfold sumSz
      congr 1
      exact List.map_congr_left hav
    have hlive : ∀ x ∈ liveStep av p, sz x = sz' x := by
      intro x hx
      cases p with
      | leaf i => exact hav x hx
      | node l r =>
        unfold liveStep at hx
        rcases List.mem_cons.1 hx with rfl | hx
        · exact hp
        · exact hav x (List.mem_of_mem_erase (List.mem_of_mem_erase hx))
    rw [hsum, hp, ih _ hlive (fun q hq => hord q (List.mem_cons_of_mem _ hq))]

/-- reported size of every tensor of the tree (input, intermediate, root) = the definition's -/
theorem sizeIn_eq_spec (n : Net) (rm : List Ix) (t : BT) (hd : t.leaves.Nodup)
    (hb : ∀ i ∈ t.leaves, i < n.inputs.length) (s : BT) (hsub : s.leaves.Sublist t.leaves) :
    n.sizeIn rm t s = specSizeIn n rm t s := by
  unfold sizeIn specSizeIn
  split
  · exact rootSize_eq n rm
  · exact size_eq_spec n rm s (hd.sublist hsub) (fun i hi => hb i (hsub.subset hi))

/-- **peak_eq_spec.** For every network, removed set, tree and *every* children-first order of
    its contractions (`ChildrenFirst`: each step finds both operands live — a leaf, or an earlier
    result not yet consumed): `peak_size(order)` is the larger of the total size of the inputs
    and the largest step requirement `stepsPeak` — "all live tensors + the output" — computed with
    the sizes of the independent definition (`specSizeIn`: product of the dimensions of the
    indices surviving the tensor's leaf set, the output indices for the root). -/
theorem peak_eq_spec (n : Net) (rm : List Ix) (t : BT) (hd : t.leaves.Nodup)
    (hb : ∀ i ∈ t.leaves, i < n.inputs.length) (order : List BT) (hcf : Cotengra.ChildrenFirst t order) :
    n.peak rm t order =
      max (sumSz (specSizeIn n rm t) (t.leaves.map BT.leaf))
          (stepsPeak (specSizeIn n rm t) (t.leaves.map BT.leaf) order) := by
  rw [peak_eq_fold, peakFold_eq (n.sizeIn rm t) hcf.2]
  have hleaf : ∀ x ∈ t.leaves.map BT.leaf, n.sizeIn rm t x = specSizeIn n rm t x := by
    intro x hx
    obtain ⟨i, hi, rfl⟩ := List.mem_map.1 hx
    exact sizeIn_eq_spec n rm t hd hb _ (List.singleton_sublist.2 hi)
  have hord : ∀ p ∈ order, n.sizeIn rm t p = specSizeIn n rm t p := by
    intro p hp
    exact sizeIn_eq_spec n rm t hd hb p (internal_leaves_sublist t p (hcf.1.subset hp))
  have hsum : sumSz (n.sizeIn rm t) (t.leaves.map BT.leaf) = sumSz (specSizeIn n rm t) (t.leaves.map BT.leaf) := by
    unfold sumSz
    congr 1
    exact List.map_congr_left hleaf
  show max _ _ = _
  rw [stepsPeak_congr _ _ order _ hleaf hord, hsum]

/-- **running total = live memory.** Along every children-first order the number the loop
    carries (`tot_size`) ends as the size of the root alone: every other tensor has been consumed
    exactly once (so the subtraction in the loop, exact in python and truncating in the model,
    never goes below zero — `Net.peakStep_no_underflow` is the per-step statement). -/
theorem peak_running_total_final (n : Net) (rm : List Ix) (t : BT) (order : List BT)
    (hcf : Cotengra.ChildrenFirst t order) :
    (order.foldl (peakStep (n.sizeIn rm t))
      (sumSz (n.sizeIn rm t) (t.leaves.map BT.leaf), sumSz (n.sizeIn rm t) (t.leaves.map BT.leaf))).1 =
      n.sizeIn rm t t := by
  rw [peakFold_eq (n.sizeIn rm t) hcf.2]
  simp [sumSz]

theorem listMax_le (M : List Nat) (b : Nat) (h : ∀ x ∈ M, x ≤ b) : listMax M ≤ b := by
  unfold listMax
  have : ∀ (l : List Nat) (a : Nat), a ≤ b → (∀ x ∈ l, x ≤ b) → l.foldl max a ≤ b := by
    intro l
    induction l with
    | nil => intro a ha _; exact ha
    | cons y l ih =>
      intro a ha hl
      simp only [List.foldl_cons]
      exact ih _ (Nat.max_le.2 ⟨ha, hl y List.mem_cons_self⟩) (fun x hx => hl x (List.mem_cons_of_mem _ hx))
  exact this M 0 (Nat.zero_le _) h

/-- **max_size_le_peak.** Whatever the order, the largest intermediate never exceeds the peak:
    `contract_stats()['size'] ≤ peak_size(order)`. -/
theorem max_size_le_peak (n : Net) (rm sliced : List Ix) (t : BT) (order : List BT)
    (hcf : Cotengra.ChildrenFirst t order) :
    (n.stats rm sliced t).size ≤ n.peak rm t order := by
  rw [peak_eq_fold, peakFold_eq (n.sizeIn rm t) hcf.2]
  show listMax (t.internal.map (n.sizeIn rm t)) ≤ _
  apply listMax_le
  intro x hx
  obtain ⟨p, hp, rfl⟩ := List.mem_map.1 hx
  have hmem : p ∈ order := hcf.1.symm.subset hp
  exact Nat.le_trans (le_stepsPeak (n.sizeIn rm t) order _ p hmem) (Nat.le_max_right _ _)

/-- the depth-first order of the model is children-first, so the theorems above are not vacuous -/
example (t : BT) : Cotengra.ChildrenFirst t t.internal := Cotengra.childrenFirst_internal t

/-! ## non-vacuity: a concrete network with a hyper index, a repeated index, a size-1 dimension -/

def exNet : Net :=
  { inputs := [[0, 1], [1, 2, 4], [2, 2, 3, 4], [4, 5]], output := [0, 4],
    sizes := [(0, 2), (1, 3), (2, 4), (3, 1), (4, 2), (5, 3)] }
def exTree : BT := .node (.node (.leaf 0) (.leaf 1)) (.node (.leaf 2) (.leaf 3))

example : exTree.leaves.Nodup ∧ (∀ i ∈ exTree.leaves, i < exNet.inputs.length) := by decide
example : exNet.stats [] [] exTree = { flops := 72, write := 28, size := 16 } := by decide
example : exNet.stats [4] [4] exTree = { flops := 72, write := 28, size := 8 } := by decide
/-- peak along the depth-first order: the inputs 6+24+8+2 = 40 are live at the start; the step
    (0,1) needs 40 + 16 = 56 (afterwards 26 are live), (2,3) needs 26 + 8 = 34, the root
    24 + 4 = 28; the loop and the definition agree on 56 -/
example : exNet.peak [] exTree exTree.internal = 56 ∧
    max (sumSz (exNet.sizeIn [] exTree) (exTree.leaves.map BT.leaf))
      (stepsPeak (exNet.sizeIn [] exTree) (exTree.leaves.map BT.leaf) exTree.internal) = 56 := by
  decide
example : exNet.Surv [] (.node (.leaf 0) (.leaf 1)) 4 ∧ ¬ exNet.Surv [] (.node (.leaf 0) (.leaf 1)) 1 := by
  decide

end Cotengra.C03
