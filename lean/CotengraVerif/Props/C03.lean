import CotengraVerif.Lemmas.Cost

/-!
# C03 — reported flops / write / size match the definition

Model: `Net.legs / involved / nodeSize / nodeFlops / stats` (Model/Net.lean, Model/Stats.lean),
transcribed from cotengra/core.py:743-848, 930-1056.

Independent definition ("from the network alone"): an index *survives* a set of leaves `S` iff
it occurs under `S` and not all of its appearances (inputs + output) are under `S` (`Net.Surv`);
size = product of the dimensions of the survivors; flops of a step = product of the dimensions
of all indices surviving the left or the right operand (`Net.specProd`).

All theorems are for every network, every tree with distinct in-range leaves, every set of
removed (sliced or projected) indices.
-/
namespace Cotengra.C03
open Cotengra Cotengra.Net Cotengra.Legs

/-- legs of a node = the survivors of its leaf set -/
theorem mem_legs_iff_surv (n : Net) (rm : List Ix) (t : BT) (hd : t.leaves.Nodup)
    (hb : ∀ i ∈ t.leaves, i < n.inputs.length) (ix : Ix) :
    ix ∈ keys (n.legs rm t) ↔ n.Surv rm t ix :=
  Net.mem_legs_iff_surv n rm t hd hb ix

/-- reported size of a (non-root) node = product of the dimensions of the surviving indices -/
theorem size_eq_spec (n : Net) (rm : List Ix) (t : BT) (hd : t.leaves.Nodup)
    (hb : ∀ i ∈ t.leaves, i < n.inputs.length) :
    n.nodeSize rm t = n.specProd (fun ix => decide (n.Surv rm t ix)) := by
  unfold nodeSize
  apply sizeOfLegs_eq_specProd n _ (keys_nodup_legs n rm t)
  intro ix
  rw [Net.mem_legs_iff_surv n rm t hd hb ix]
  constructor
  · intro h; exact ⟨surv_mem_allIx n rm t ix h, by simpa using h⟩
  · intro h; simpa using h.2

/-- the indices involved in a step are those surviving either operand -/
theorem involved_iff (n : Net) (rm : List Ix) (l r : BT) (hd : (BT.node l r).leaves.Nodup)
    (hb : ∀ i ∈ (BT.node l r).leaves, i < n.inputs.length) (ix : Ix) :
    ix ∈ keys (n.involved rm (.node l r)) ↔ (n.Surv rm l ix ∨ n.Surv rm r ix) := by
  have hdl : l.leaves.Nodup := (List.nodup_append.1 hd).1
  have hdr : r.leaves.Nodup := (List.nodup_append.1 hd).2.1
  have hbl : ∀ i ∈ l.leaves, i < n.inputs.length := fun i hi => hb i (by simp [BT.leaves, hi])
  have hbr : ∀ i ∈ r.leaves, i < n.inputs.length := fun i hi => hb i (by simp [BT.leaves, hi])
  rw [mem_involved_iff, Net.mem_legs_iff_surv n rm l hdl hbl, Net.mem_legs_iff_surv n rm r hdr hbr]

/-- reported flops of a step = product of the dimensions of all indices involved -/
theorem flops_eq_spec (n : Net) (rm : List Ix) (l r : BT) (hd : (BT.node l r).leaves.Nodup)
    (hb : ∀ i ∈ (BT.node l r).leaves, i < n.inputs.length) :
    n.nodeFlops rm (.node l r) =
      n.specProd (fun ix => decide (n.Surv rm l ix ∨ n.Surv rm r ix)) := by
  unfold nodeFlops
  apply sizeOfLegs_eq_specProd n _ (keys_nodup_involved n rm _)
  intro ix
  rw [involved_iff n rm l r hd hb ix]
  constructor
  · intro h
    refine ⟨?_, by simpa using h⟩
    rcases h with h | h
    · exact surv_mem_allIx n rm l ix h
    · exact surv_mem_allIx n rm r ix h
  · intro h; simpa using h.2

/-! ## slicing divides exactly the figures of the nodes that carry / involve the index -/

theorem occ_termRm_cons (n : Net) (rm : List Ix) (ix0 : Ix) (i : Nat) (ix : Ix) :
    occ (n.termRm (ix0 :: rm) i) ix = if ix = ix0 then 0 else occ (n.termRm rm i) ix := by
  unfold termRm occ
  have hf : (n.term i).filter (fun ix => !(ix0 :: rm).contains ix) =
      ((n.term i).filter (fun ix => !rm.contains ix)).filter (fun ix => ix != ix0) := by
    rw [List.filter_filter]
    congr 1
    funext x
    simp only [List.contains_cons, Bool.not_or, bne, Bool.and_comm]
  rw [hf]
  by_cases h : ix = ix0
  · subst h
    simp only [if_true]
    apply List.count_eq_zero_of_not_mem
    intro hm
    simpa using (List.mem_filter.1 hm).2
  · simp only [h, if_false]
    apply List.count_filter
    simpa using h

theorem cnt_cons (n : Net) (rm : List Ix) (ix0 : Ix) (t : BT) (ix : Ix) :
    n.cnt (ix0 :: rm) t ix = if ix = ix0 then 0 else n.cnt rm t ix := by
  unfold cnt
  by_cases h : ix = ix0
  · simp only [h, if_true]
    apply List.sum_eq_zero
    intro x hx
    obtain ⟨i, _, rfl⟩ := List.mem_map.1 hx
    rw [occ_termRm_cons]; simp
  · simp only [h, if_false]
    congr 1
    apply List.map_congr_left
    intro i _
    rw [occ_termRm_cons]; simp [h]

theorem surv_cons (n : Net) (rm : List Ix) (ix0 : Ix) (t : BT) (ix : Ix) :
    n.Surv (ix0 :: rm) t ix ↔ (ix ≠ ix0 ∧ n.Surv rm t ix) := by
  unfold Surv
  rw [cnt_cons]
  by_cases h : ix = ix0 <;> simp [h]

theorem specProd_split (n : Net) (p : Ix → Bool) (ix0 : Ix) :
    n.specProd (fun ix => p ix && (ix != ix0)) *
      (if p ix0 = true ∧ ix0 ∈ n.allIx then n.size ix0 else 1) = n.specProd p := by
  unfold specProd
  have hnd := allIx_nodup n
  generalize n.allIx = L at *
  induction L with
  | nil => simp
  | cons a t ih =>
    have hnd' := (List.nodup_cons.1 hnd)
    have iht := ih hnd'.2
    by_cases ha : a = ix0
    · subst ha
      have hnot : ¬ a ∈ t := hnd'.1
      have e1 : t.filter (fun ix => p ix && (ix != a)) = t.filter p := by
        apply List.filter_congr
        intro x hx
        have : x ≠ a := fun e => hnot (e ▸ hx)
        simp [this]
      by_cases hp : p a = true
      · simp [List.filter_cons, hp, e1, Nat.mul_comm]
      · simp [List.filter_cons, hp, e1]
    · have hmem : (ix0 ∈ a :: t) ↔ ix0 ∈ t := by
        rw [List.mem_cons]
        constructor
        · rintro (e | e)
          · exact absurd e.symm ha
          · exact e
        · exact Or.inr
      simp only [hmem]
      by_cases hp : p a = true
      · have e1 : List.filter (fun ix => p ix && ix != ix0) (a :: t) =
            a :: List.filter (fun ix => p ix && ix != ix0) t := by
          simp [List.filter_cons, hp, ha]
        have e2 : List.filter p (a :: t) = a :: List.filter p t := by
          simp [List.filter_cons, hp]
        rw [e1, e2]
        simp only [List.map_cons, List.prod_cons]
        rw [Nat.mul_assoc, iht]
      · have e1 : List.filter (fun ix => p ix && ix != ix0) (a :: t) =
            List.filter (fun ix => p ix && ix != ix0) t := by
          simp [List.filter_cons, hp]
        have e2 : List.filter p (a :: t) = List.filter p t := by
          simp [List.filter_cons, hp]
        rw [e1, e2]
        exact iht

/-- slicing `ix0` divides the size of exactly the nodes that carry it -/
theorem slice_size (n : Net) (rm : List Ix) (ix0 : Ix) (t : BT) (hd : t.leaves.Nodup)
    (hb : ∀ i ∈ t.leaves, i < n.inputs.length) :
    n.nodeSize (ix0 :: rm) t * (if n.Surv rm t ix0 then n.size ix0 else 1) = n.nodeSize rm t := by
  rw [size_eq_spec n _ t hd hb, size_eq_spec n rm t hd hb,
    ← specProd_split n (fun ix => decide (n.Surv rm t ix)) ix0]
  congr 1
  · congr 1
    funext ix
    simp only [surv_cons, bne_iff_ne, ne_eq]
    by_cases h1 : ix = ix0 <;> by_cases h2 : n.Surv rm t ix <;> simp [h1, h2]
  · by_cases h : n.Surv rm t ix0
    · simp [h, surv_mem_allIx n rm t ix0 h]
    · simp [h]

/-- slicing `ix0` divides the flops of exactly the steps that involve it -/
theorem slice_flops (n : Net) (rm : List Ix) (ix0 : Ix) (l r : BT)
    (hd : (BT.node l r).leaves.Nodup) (hb : ∀ i ∈ (BT.node l r).leaves, i < n.inputs.length) :
    n.nodeFlops (ix0 :: rm) (.node l r) *
        (if n.Surv rm l ix0 ∨ n.Surv rm r ix0 then n.size ix0 else 1) =
      n.nodeFlops rm (.node l r) := by
  rw [flops_eq_spec n _ l r hd hb, flops_eq_spec n rm l r hd hb,
    ← specProd_split n (fun ix => decide (n.Surv rm l ix ∨ n.Surv rm r ix)) ix0]
  congr 1
  · congr 1
    funext ix
    simp only [surv_cons, bne_iff_ne, ne_eq]
    by_cases h1 : ix = ix0 <;> by_cases h2 : n.Surv rm l ix <;> by_cases h3 : n.Surv rm r ix <;>
      simp [h1, h2, h3]
  · by_cases h : n.Surv rm l ix0 ∨ n.Surv rm r ix0
    · have : ix0 ∈ n.allIx := by
        rcases h with h | h
        · exact surv_mem_allIx n rm l ix0 h
        · exact surv_mem_allIx n rm r ix0 h
      simp [h, this]
    · simp [h]

/-! ## totals -/

/-- the independent definition of a step's flops / a node's size -/
def specFlops (n : Net) (rm : List Ix) : BT → Nat
  | .leaf _ => 0
  | .node l r => n.specProd (fun ix => decide (n.Surv rm l ix ∨ n.Surv rm r ix))

def specSizeIn (n : Net) (rm : List Ix) (root s : BT) : Nat :=
  if s == root then n.prodSizes (n.output.filter (fun ix => !rm.contains ix))
  else n.specProd (fun ix => decide (n.Surv rm s ix))

def specStats (n : Net) (rm sliced : List Ix) (t : BT) : Stats :=
  { flops := n.mult sliced * (t.internal.map (specFlops n rm)).sum,
    write := n.mult sliced * (t.internal.map (specSizeIn n rm t)).sum,
    size := listMax (t.internal.map (specSizeIn n rm t)) }

theorem internal_leaves_sublist (t s : BT) (h : s ∈ t.internal) : s.leaves.Sublist t.leaves := by
  induction t with
  | leaf i => cases h
  | node l r ihl ihr =>
    simp only [BT.internal, List.mem_append, List.mem_singleton] at h
    rcases h with (h | h) | h
    · exact (ihl h).trans (List.sublist_append_left _ _)
    · exact (ihr h).trans (List.sublist_append_right _ _)
    · subst h; exact List.Sublist.refl _

theorem internal_is_node (t s : BT) (h : s ∈ t.internal) : ∃ l r, s = .node l r := by
  induction t with
  | leaf i => cases h
  | node l r ihl ihr =>
    simp only [BT.internal, List.mem_append, List.mem_singleton] at h
    rcases h with (h | h) | h
    · exact ihl h
    · exact ihr h
    · exact ⟨l, r, h⟩

theorem rootSize_eq (n : Net) (rm : List Ix) :
    n.sizeOfLegs (n.rootLegs rm) = n.prodSizes (n.output.filter (fun ix => !rm.contains ix)) := by
  unfold sizeOfLegs rootLegs prodSizes
  rw [List.map_map]
  rfl

/-- `contract_stats()` = the totals of the independent definition, multiplied by the number of
    slices for flops and write (not for size). -/
theorem stats_eq_spec (n : Net) (rm sliced : List Ix) (t : BT) (hd : t.leaves.Nodup)
    (hb : ∀ i ∈ t.leaves, i < n.inputs.length) :
    n.stats rm sliced t = specStats n rm sliced t := by
  have hf : t.internal.map (n.nodeFlops rm) = t.internal.map (specFlops n rm) := by
    apply List.map_congr_left
    intro s hs
    obtain ⟨l, r, rfl⟩ := internal_is_node t s hs
    have hsub := internal_leaves_sublist t _ hs
    exact flops_eq_spec n rm l r (hd.sublist hsub) (fun i hi => hb i (hsub.subset hi))
  have hs : t.internal.map (n.sizeIn rm t) = t.internal.map (specSizeIn n rm t) := by
    apply List.map_congr_left
    intro s hs
    have hsub := internal_leaves_sublist t _ hs
    unfold sizeIn specSizeIn
    split
    · exact rootSize_eq n rm
    · exact size_eq_spec n rm s (hd.sublist hsub) (fun i hi => hb i (hsub.subset hi))
  unfold stats specStats
  simp only [hf, hs]

/-! ## non-vacuity: a concrete network with a hyper index, a repeated index, a size-1 dimension -/

def exNet : Net :=
  { inputs := [[0, 1], [1, 2, 4], [2, 2, 3, 4], [4, 5]], output := [0, 4],
    sizes := [(0, 2), (1, 3), (2, 4), (3, 1), (4, 2), (5, 3)] }
def exTree : BT := .node (.node (.leaf 0) (.leaf 1)) (.node (.leaf 2) (.leaf 3))

example : exTree.leaves.Nodup ∧ (∀ i ∈ exTree.leaves, i < exNet.inputs.length) := by decide
example : exNet.stats [] [] exTree = { flops := 72, write := 28, size := 16 } := by decide
example : exNet.stats [4] [4] exTree = { flops := 72, write := 28, size := 8 } := by decide
example : exNet.Surv [] (.node (.leaf 0) (.leaf 1)) 4 ∧ ¬ exNet.Surv [] (.node (.leaf 0) (.leaf 1)) 1 := by
  decide

end Cotengra.C03
