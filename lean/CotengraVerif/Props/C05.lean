import CotengraVerif.Lemmas.PathLemmas
import CotengraVerif.Lemmas.ProcessorLemmas
import CotengraVerif.Lemmas.PartitionLemmas
import CotengraVerif.Lemmas.BestSoFarLemmas
import CotengraVerif.Lemmas.CountLemmas
import CotengraVerif.Lemmas.SsaToLinearLemmas

/-!
# C05 — every pathfinder returns a complete, well-formed contraction of its network

**Modelled**
* `Model/Path.lean` — the list discipline of *linear* paths (`stepLinear/runLinear`, core.py:556-561)
  and the dict discipline of *SSA* paths (`stepSSA/runSSA`, core.py:546-554), generic in the item
  type; at `Unit` they are the checkers `checkLinear / checkSSA` that the harness runs on the real
  outputs of every finder; `ContractionTree.from_path` incl. autocomplete (core.py:474-574) and
  `contract_nodes` / `contract_nodes_pair` (core.py:1264-1399) as `fromLinear / fromSSA / mergeBT /
  pairBT` with the sub-optimizer as an oracle; the `children` dict as `TreeMap` with `toBT?`.
* `Model/Processor.lean` — `ContractionProcessor`'s `pop_node/add_node/contract_nodes`, the loops of
  `simplify_single_terms/_scalars/_hadamard`, the queue loop of `optimize_greedy`,
  `optimize_remaining_by_size` (path_basic.py:410-461, 475-527, 604-628, 761-786); choices = oracle.
* `Model/Partition.lean` — `separate`, the loops of `build_divide` and `build_agglom`
  (core.py:3968-4077, 4100-4109) on the set of childless nodes, partitioner = oracle; the three
  short-circuits of `kahypar_subgraph_find_membership` (path_kahypar.py:69-98).

* `Model/ContractNodes.lean` — `contract_nodes` for three or more nodes with the inner path finder
  as the oracle (`contractNodes`, core.py:1343-1399: `find_path` on the legs of the nodes, replay of
  the returned linear path with `contract_nodes` as the merge, `(parent,) = temp_nodes`),
  `from_path` with steps of any arity built on it (`fromLinearK`), `ssa_to_linear`
  (path_basic.py:821-843: `bisect_left`, `con.sort()`, pops from the back, `IndexError` kept),
  `RandomOptimizer.__call__` (path_random.py:25-35) with the PRNG draws as the oracle.
* `Model/BestSoFar.lean` — what `RandomGreedyOptimizer` keeps between calls
  (`best_ssa_path / best_flops`, path_basic.py:1457-1458, 1519-1523) and what a preset name is bound to
  (a function building its optimizer per call / one shared instance); `Props/C05Facts.lean` holds the
  closed obligations over the table regenerated from the live preset registry.

**Not modelled**: the scores and numeric choices of every optimizer, native kahypar, the
`children`-dict mechanics inside `contract_nodes_pair` that keep `tree.childless` in step (the
childless set after every iteration of `build_divide` is compared with `divideStep`, the real trees
are checked by `checkTree`), the nested case of `get_incomplete_nodes` (childless nodes inside
childless nodes; the flat case after a partial `from_path` is `fromLinearK … false`),
`edge_path_to_ssa`, k-ary steps of SSA paths (`fromLinearK` is the linear discipline).
-/
namespace Cotengra.C05
open Cotengra Cotengra.Path

/-! ## the checkers decide the replay semantics -/

/-- **validLinear_iff_spec.** The checker accepts a linear path exactly when replaying it on the
    `N` inputs — each step popping distinct existing positions and appending their merge — goes
    through and leaves one tensor; and then that tensor has consumed every input exactly once. -/
theorem validLinear_iff_spec (N : Nat) (path : Path) :
    checkLinear N path = true ↔
      ∃ final, runLinear List.flatten (leafItems N) path = some [final] ∧
        final.Perm (List.range N) := by
  have hmap := runLinear_map (fun _ : List Nat => ()) List.flatten (fun _ => ()) (fun _ => rfl)
    (leafItems N) path
  rw [leafItems_unit] at hmap
  unfold checkLinear
  rw [hmap]
  constructor
  · intro h
    cases hr : runLinear List.flatten (leafItems N) path with
    | none => rw [hr] at h; simp at h
    | some items =>
      rw [hr] at h
      match items, hr with
      | [final], hr =>
        refine ⟨final, rfl, ?_⟩
        have := runLinear_flatten hr
        rw [leafItems_flatten] at this
        simpa using this
      | [], _ => simp at h
      | _ :: _ :: _, _ => simp [List.replicate_succ] at h
  · rintro ⟨final, hr, _⟩
    rw [hr]; rfl

/-- a step goes through iff it names at least one position, none twice, all existing -/
theorem linear_step_replays_iff {α} (merge : List α → α) (items : List α) (p : Step) :
    (stepLinear merge items p).isSome ↔ (p ≠ [] ∧ p.Nodup ∧ ∀ i ∈ p, i < items.length) :=
  stepLinear_some_iff merge items p

/-- **validSSA_iff_spec.** Same for SSA paths: every id named exists at that step (so no id is
    consumed twice), fresh ids are `N, N+1, …`, one tensor is left and it holds every input once. -/
theorem validSSA_iff_spec (N : Nat) (path : Path) :
    checkSSA N path = true ↔
      ∃ k final ssa, runSSA List.flatten (initSSA N fun i => [i]) path = some ⟨[(k, final)], ssa⟩ ∧
        final.Perm (List.range N) := by
  have hmap := runSSA_map (fun _ : List Nat => ()) List.flatten (fun _ => ()) (fun _ => rfl)
    (initSSA N fun i => [i]) path
  rw [initSSA_unit] at hmap
  unfold checkSSA
  rw [hmap]
  constructor
  · intro h
    cases hr : runSSA List.flatten (initSSA N fun i => [i]) path with
    | none => rw [hr] at h; simp at h
    | some s =>
      rw [hr] at h
      obtain ⟨nodes, ssa⟩ := s
      match nodes, hr with
      | [(k, final)], hr =>
        refine ⟨k, final, ssa, rfl, ?_⟩
        have := runSSA_flatten hr
        rw [initSSA_vals_flatten] at this
        simpa [vals] using this
      | [], _ => simp [mapS, mapD] at h
      | _ :: _ :: _, _ => simp [mapS, mapD] at h
  · rintro ⟨k, final, ssa, hr, _⟩
    rw [hr]; rfl

/-- **checkTree_sound.** If the checker accepts a `children` dict, it denotes a binary tree whose
    leaves are exactly the inputs `0..N-1`, each once, and every internal node of that tree is an
    entry of the dict (with children holding exactly the inputs of its two subtrees). -/
theorem checkTree_sound (N : Nat) (m : TreeMap) (h : checkTree N m = true) :
    ∃ t : BT, t.leaves.Perm (List.range N) ∧ Licensed m t := by
  unfold checkTree at h
  cases ht : toBT? m (N + 1) (List.range N) with
  | none => rw [ht] at h; cases h
  | some t => exact ⟨t, toBT?_sound m _ _ t ht⟩

/-! ## `from_path` -/

/-- the sub-optimizer arranges three or more subtrees into a tree over exactly their inputs -/
def ValidShape (shape : List BT → BT) : Prop :=
  ∀ xs, 3 ≤ xs.length → (shape xs).leaves.Perm (xs.map BT.leaves).flatten

theorem pairBT_leaves (x y : BT) : (pairBT x y).leaves.Perm (x.leaves ++ y.leaves) := by
  unfold pairBT
  simp only
  split
  · split
    · exact List.Perm.refl _
    · exact List.perm_append_comm
  · split
    · exact List.Perm.refl _
    · exact List.perm_append_comm

theorem mergeBT_leaves (shape : List BT → BT) (hs : ValidShape shape) (xs : List BT) (hne : xs ≠ []) :
    (mergeBT shape xs).leaves.Perm (xs.map BT.leaves).flatten := by
  match xs, hne with
  | [x], _ => simp [mergeBT]
  | [x, y], _ => simpa [mergeBT] using pairBT_leaves x y
  | x :: y :: z :: rest, _ =>
    have : mergeBT shape (x :: y :: z :: rest) = shape (x :: y :: z :: rest) := rfl
    rw [this]
    exact hs _ (by simp)

theorem caterpillar_leaves_aux (rest : List BT) (x : BT) :
    (rest.foldl (fun acc y => BT.node acc y) x).leaves = x.leaves ++ (rest.map BT.leaves).flatten := by
  induction rest generalizing x with
  | nil => simp
  | cons y t ih => rw [List.foldl_cons, ih]; simp [BT.leaves, List.append_assoc]

/-- `ValidShape` is inhabited: the left caterpillar is a valid sub-optimizer -/
theorem validShape_caterpillar : ValidShape caterpillar := by
  intro xs _
  match xs with
  | [] => simp at *
  | x :: rest =>
    simp only [caterpillar, caterpillar_leaves_aux, List.map_cons, List.flatten_cons]
    exact List.Perm.refl _

def leavesOf (items : List BT) : List Nat := (items.map BT.leaves).flatten

theorem splitAt_picked_ne_nil {α} (p : List Nat) (xs : List α) (off i : Nat) (hi : i ∈ p)
    (h1 : off ≤ i) (h2 : i < off + xs.length) : (splitAt p xs off).1 ≠ [] := by
  induction xs generalizing off with
  | nil => simp at h2; omega
  | cons x t ih =>
    simp only [splitAt]
    by_cases hc : p.contains off = true
    · rw [if_pos hc]; simp
    · rw [if_neg hc]
      have hne : off ≠ i := by
        intro e; subst e
        exact hc (by simpa using hi)
      exact ih (off + 1) (by omega) (by simp at h2; omega)

theorem stepLinear_leaves (shape : List BT → BT) (hs : ValidShape shape) {items items' : List BT}
    {p : Step} (h : stepLinear (mergeBT shape) items p = some items') :
    (leavesOf items').Perm (leavesOf items) ∧ items' ≠ [] := by
  have hsome := (stepLinear_some_iff (mergeBT shape) items p).1 (by rw [h]; rfl)
  unfold stepLinear at h
  split at h
  · cases h
    refine ⟨?_, by simp⟩
    obtain ⟨hne, _, hb⟩ := hsome
    obtain ⟨i, hi⟩ := List.exists_mem_of_ne_nil p hne
    have hpick := splitAt_picked_ne_nil p items 0 i hi (Nat.zero_le _) (by simpa using hb i hi)
    unfold leavesOf
    rw [List.map_append, List.flatten_append]
    simp only [List.map_cons, List.map_nil, List.flatten_cons, List.flatten_nil, List.append_nil]
    have h1 := mergeBT_leaves shape hs _ hpick
    have h2 := ((splitAt_perm p items 0).map BT.leaves).flatten
    rw [List.map_append, List.flatten_append] at h2
    exact (List.perm_append_comm.trans (List.Perm.append_right _ h1)).trans h2
  · cases h

theorem runLinear_leaves (shape : List BT → BT) (hs : ValidShape shape) (path : Path) :
    ∀ {items items' : List BT}, items ≠ [] → runLinear (mergeBT shape) items path = some items' →
      (leavesOf items').Perm (leavesOf items) ∧ items' ≠ [] := by
  induction path with
  | nil => intro items items' hne h; simp [runLinear] at h; subst h; exact ⟨List.Perm.refl _, hne⟩
  | cons p rest ih =>
    intro items items' _ h
    simp only [runLinear] at h
    cases hs1 : stepLinear (mergeBT shape) items p with
    | none => rw [hs1] at h; cases h
    | some its =>
      rw [hs1] at h
      have h1 := stepLinear_leaves shape hs hs1
      have h2 := ih h1.2 h
      exact ⟨h2.1.trans h1.1, h2.2⟩

theorem leafBTs_leaves (N : Nat) : leavesOf (leafBTs N) = List.range N := by
  unfold leavesOf leafBTs
  rw [List.map_map]
  have : (BT.leaves ∘ BT.leaf) = fun i => [i] := rfl
  rw [this]
  exact leafItems_flatten N

theorem leafBTs_unit (N : Nat) : (leafBTs N).map (fun _ => ()) = List.replicate N () := by
  unfold leafBTs
  rw [List.map_map]
  apply List.ext_getElem
  · simp
  · intro i h1 h2; simp

/-- **fromPath_complete.** For every sub-optimizer that returns valid arrangements, every linear
    path that replays on `N ≥ 1` inputs — complete or not, steps of any arity ≥ 1 — is turned by
    `from_path(..., autocomplete=True)` into a single tree over exactly the inputs; and a path the
    checker accepts as complete needs no autocompletion. -/
theorem fromPath_complete (shape : List BT → BT) (hs : ValidShape shape) (N : Nat) (hN : 1 ≤ N)
    (path : Path) (hp : checkLinearPartial N path = true) :
    (∃ t, fromLinear shape N path true = some [t] ∧ t.leaves.Perm (List.range N)) ∧
    (checkLinear N path = true →
      ∃ t, fromLinear shape N path false = some [t] ∧ t.leaves.Perm (List.range N)) := by
  have hmap := runLinear_map (fun _ : BT => ()) (mergeBT shape) (fun _ => ()) (fun _ => rfl)
    (leafBTs N) path
  rw [leafBTs_unit] at hmap
  unfold checkLinearPartial at hp
  rw [hmap] at hp
  cases hr : runLinear (mergeBT shape) (leafBTs N) path with
  | none => rw [hr] at hp; simp at hp
  | some items =>
    have hne0 : leafBTs N ≠ [] := by
      unfold leafBTs
      intro e
      have := congrArg List.length e
      simp at this; omega
    obtain ⟨hperm, hne⟩ := runLinear_leaves shape hs path hne0 hr
    rw [leafBTs_leaves] at hperm
    constructor
    · unfold fromLinear
      rw [hr]
      simp only
      by_cases hl : items.length > 1
      · simp only [hl, decide_true, Bool.and_self, if_true]
        exact ⟨_, rfl, (mergeBT_leaves shape hs items hne).trans hperm⟩
      · simp only [hl, decide_false, Bool.false_and, Bool.false_eq_true, if_false]
        match items, hne, hl with
        | [t], _, _ => exact ⟨t, rfl, by simpa [leavesOf] using hperm⟩
        | _ :: _ :: _, _, hl => simp at hl
    · intro hc
      unfold checkLinear at hc
      rw [hmap, hr] at hc
      unfold fromLinear
      rw [hr]
      match items, hc with
      | [t], _ => exact ⟨t, by simp, by simpa [leavesOf] using hperm⟩

theorem popIds_length {α} {d d' : List (Nat × α)} {p : List Nat} {xs : List α}
    (h : popIds d p = some (xs, d')) : xs.length = p.length := by
  induction p generalizing d d' xs with
  | nil => simp [popIds] at h; rw [h.1]; rfl
  | cons i rest ih =>
    unfold popIds at h
    cases h1 : popId d i with
    | none => rw [h1] at h; cases h
    | some r =>
      obtain ⟨x, d1⟩ := r
      rw [h1] at h
      simp only at h
      cases h2 : popIds d1 rest with
      | none => rw [h2] at h; cases h
      | some r2 =>
        obtain ⟨ys, d2⟩ := r2
        rw [h2] at h
        cases h
        simp [ih h2]

def leavesOfD (d : List (Nat × BT)) : List Nat := leavesOf (vals d)

theorem stepSSA_leaves (shape : List BT → BT) (hs : ValidShape shape) {s s' : SSAState BT}
    {p : Step} (h : stepSSA (mergeBT shape) s p = some s') :
    (leavesOfD s'.nodes).Perm (leavesOfD s.nodes) ∧ s'.nodes ≠ [] := by
  unfold stepSSA at h
  split at h
  · cases h
  · rename_i hpe
    cases hp : popIds s.nodes p with
    | none => rw [hp] at h; cases h
    | some r =>
      obtain ⟨xs, d⟩ := r
      rw [hp] at h
      cases h
      refine ⟨?_, by simp⟩
      have hxs : xs ≠ [] := by
        intro e
        have := popIds_length hp
        rw [e] at this
        have : p = [] := List.length_eq_zero_iff.1 this.symm
        rw [this] at hpe; exact hpe rfl
      unfold leavesOfD leavesOf vals
      simp only [List.map_append, List.map_cons, List.map_nil, List.flatten_append, List.flatten_cons,
        List.flatten_nil, List.append_nil]
      have h1 := mergeBT_leaves shape hs xs hxs
      have h2 := ((popIds_perm hp).map BT.leaves).flatten
      rw [List.map_append, List.flatten_append] at h2
      exact (List.perm_append_comm.trans (List.Perm.append_right _ h1)).trans h2

theorem runSSA_leaves (shape : List BT → BT) (hs : ValidShape shape) (path : Path) :
    ∀ {s s' : SSAState BT}, s.nodes ≠ [] → runSSA (mergeBT shape) s path = some s' →
      (leavesOfD s'.nodes).Perm (leavesOfD s.nodes) ∧ s'.nodes ≠ [] := by
  induction path with
  | nil => intro s s' hne h; simp [runSSA] at h; subst h; exact ⟨List.Perm.refl _, hne⟩
  | cons p rest ih =>
    intro s s' _ h
    simp only [runSSA] at h
    cases hs1 : stepSSA (mergeBT shape) s p with
    | none => rw [hs1] at h; cases h
    | some s1 =>
      rw [hs1] at h
      have h1 := stepSSA_leaves shape hs hs1
      have h2 := ih h1.2 h
      exact ⟨h2.1.trans h1.1, h2.2⟩

theorem initSSA_BT_leaves (N : Nat) : leavesOfD (initSSA N BT.leaf).nodes = List.range N := by
  unfold leavesOfD leavesOf vals initSSA
  simp only [List.map_map]
  have : (BT.leaves ∘ (fun x : Nat × BT => x.2) ∘ fun i => (i, BT.leaf i)) = fun i => [i] := rfl
  rw [this]
  exact leafItems_flatten N

theorem initSSA_BT_unit (N : Nat) :
    mapS (fun _ => ()) (initSSA N BT.leaf) = initSSA N fun _ => () := by
  unfold mapS initSSA mapD
  simp [List.map_map, Function.comp_def]

/-- **fromSSA_complete.** The same for SSA paths. -/
theorem fromSSA_complete (shape : List BT → BT) (hs : ValidShape shape) (N : Nat) (hN : 1 ≤ N)
    (path : Path) (hp : checkSSAPartial N path = true) :
    ∃ t, fromSSA shape N path true = some [t] ∧ t.leaves.Perm (List.range N) := by
  have hmap := runSSA_map (fun _ : BT => ()) (mergeBT shape) (fun _ => ()) (fun _ => rfl)
    (initSSA N BT.leaf) path
  rw [initSSA_BT_unit] at hmap
  unfold checkSSAPartial at hp
  rw [hmap] at hp
  cases hr : runSSA (mergeBT shape) (initSSA N BT.leaf) path with
  | none => rw [hr] at hp; simp at hp
  | some s =>
    have hne0 : (initSSA N BT.leaf).nodes ≠ [] := by
      unfold initSSA
      intro e
      have := congrArg List.length e
      simp at this; omega
    obtain ⟨hperm, hne⟩ := runSSA_leaves shape hs path hne0 hr
    rw [initSSA_BT_leaves] at hperm
    unfold fromSSA
    rw [hr]
    simp only
    have hne' : s.nodes.map (·.2) ≠ [] := by
      intro e; exact hne (List.map_eq_nil_iff.1 e)
    unfold leavesOfD vals at hperm
    generalize s.nodes.map (·.2) = its at hne' hperm
    by_cases hl : its.length > 1
    · simp only [hl, decide_true, Bool.and_self, if_true]
      exact ⟨_, rfl, (mergeBT_leaves shape hs _ hne').trans hperm⟩
    · simp only [hl, decide_false, Bool.false_and, Bool.false_eq_true, if_false]
      match its, hne', hl, hperm with
      | [t], _, _, hperm => exact ⟨t, rfl, by simpa [leavesOf] using hperm⟩
      | _ :: _ :: _, _, hl, _ => simp at hl

/-! ## `contract_nodes` with three or more nodes: the sub-optimizer is an inner path finder

`ValidShape` above is an assumption on an oracle. For the code as it stands the oracle is
`find_path(legs of the nodes, optimize=…)` followed by a replay of the returned linear path with
`contract_nodes` itself as the merge (core.py:1364-1399). So the assumption reduces to the property
itself, one level down: the inner finder returns a valid complete pairwise path of the `k` nodes. -/

theorem leavesOf_reverse (l : List BT) : (leavesOf l.reverse).Perm (leavesOf l) := by
  unfold leavesOf
  exact ((List.reverse_perm l).map BT.leaves).flatten

/-- one or two nodes never reach the inner finder -/
theorem contractNodes_small (inner : Nat → List BT → Path) (fuel depth : Nat) (l : List BT)
    (hne : l ≠ []) (h2 : l.length ≤ 2) :
    ∃ m, contractNodes inner fuel depth l = some m ∧ m.leaves.Perm (leavesOf l) := by
  match l, hne, h2 with
  | [x], _, _ =>
    refine ⟨x, by unfold contractNodes; rfl, by simp [leavesOf]⟩
  | [x, y], _, _ =>
    refine ⟨pairBT x y, by unfold contractNodes; rfl, ?_⟩
    simpa [leavesOf] using pairBT_leaves x y
  | _ :: _ :: _ :: _, _, h => simp at h

theorem stepLinearM_spec (merge : List BT → Option BT) (B : Nat)
    (hm : ∀ l, l ≠ [] → l.length ≤ B → ∃ m, merge l = some m ∧ m.leaves.Perm (leavesOf l))
    (items : List BT) (p : Step) (hp : p.length ≤ B) (hok : stepOK items.length p = true) :
    ∃ items', stepLinearM merge items p = some items' ∧
      items'.length = items.length - p.length + 1 ∧ (leavesOf items').Perm (leavesOf items) := by
  obtain ⟨hne, hnd, hb⟩ := (stepOK_iff _ _).1 hok
  have hlen := splitAt_picked_length items p 0 hnd
    (fun i hi => ⟨Nat.zero_le _, by simpa using hb i hi⟩)
  have hrest := splitAt_rest_length items p hnd hb
  have hpick : (splitAt p items 0).1.reverse ≠ [] := by
    intro e
    have := congrArg List.length e
    simp only [List.length_reverse, List.length_nil] at this
    rw [hlen] at this
    exact hne (List.length_eq_zero_iff.1 this)
  obtain ⟨m, hm1, hm2⟩ := hm (splitAt p items 0).1.reverse hpick
    (by rw [List.length_reverse, hlen]; exact hp)
  refine ⟨(splitAt p items 0).2 ++ [m], ?_, ?_, ?_⟩
  · unfold stepLinearM
    rw [if_pos hok]
    simp only [hm1]
  · rw [List.length_append, hrest]; rfl
  · have h2 := ((splitAt_perm p items 0).map BT.leaves).flatten
    rw [List.map_append, List.flatten_append] at h2
    have h3 := hm2.trans (leavesOf_reverse _)
    unfold leavesOf at h3 ⊢
    rw [List.map_append, List.flatten_append]
    simp only [List.map_cons, List.map_nil, List.flatten_cons, List.flatten_nil, List.append_nil]
    exact (List.perm_append_comm.trans (List.Perm.append_right _ h3)).trans h2

theorem runLinearM_spec (merge : List BT → Option BT) (B : Nat)
    (hm : ∀ l, l ≠ [] → l.length ≤ B → ∃ m, merge l = some m ∧ m.leaves.Perm (leavesOf l))
    (path : Path) : (∀ st ∈ path, st.length ≤ B) → ∀ (items : List BT) (k : Nat),
      countRun items.length path = some k →
      ∃ items', runLinearM merge items path = some items' ∧ items'.length = k ∧
        (leavesOf items').Perm (leavesOf items) := by
  induction path with
  | nil =>
    intro _ items k h
    simp only [countRun, Option.some.injEq] at h
    exact ⟨items, rfl, h, List.Perm.refl _⟩
  | cons p rest ih =>
    intro hpw items k h
    simp only [countRun] at h
    by_cases hok : stepOK items.length p = true
    · rw [if_pos hok] at h
      obtain ⟨its, h1, h2, h3⟩ := stepLinearM_spec merge B hm items p (hpw p List.mem_cons_self) hok
      rw [← h2] at h
      obtain ⟨its', h4, h5, h6⟩ := ih (fun st hst => hpw st (List.mem_cons_of_mem _ hst)) its k h
      refine ⟨its', ?_, h5, h6.trans h3⟩
      simp only [runLinearM, h1, h4]
    · rw [if_neg hok] at h; cases h

/-- **contractNodes_complete.** `contract_nodes` on `k ≥ 3` nodes: whenever the inner finder
    (whatever `optimize` is: a preset, an optimizer object, an explicit path) returns a valid
    complete pairwise linear path of the `k` nodes, the result is one node holding exactly the
    inputs of the `k` nodes (so the unpacking `(parent,) = temp_nodes` succeeds and
    `parent == grandparent`). -/
theorem contractNodes_complete (inner : Nat → List BT → Path) (fuel depth : Nat) (xs : List BT)
    (h3 : 3 ≤ xs.length) (hv : checkLinear xs.length (inner depth xs) = true)
    (hpw : ∀ st ∈ inner depth xs, st.length ≤ 2) :
    ∃ t, contractNodes inner (fuel + 1) depth xs = some t ∧ t.leaves.Perm (leavesOf xs) := by
  have hc := (checkLinear_iff_count _ _).1 hv
  obtain ⟨its, h1, h2, h3'⟩ := runLinearM_spec (contractNodes inner fuel (depth + 1)) 2
    (contractNodes_small inner fuel (depth + 1)) (inner depth xs) hpw xs 1 hc
  match its, h2 with
  | [t], _ =>
    refine ⟨t, ?_, by simpa [leavesOf] using h3'⟩
    match xs, h3 with
    | a :: b :: c :: rest, _ =>
      unfold contractNodes
      simp only [h1]

/-- **validShape_of_inner.** The sub-optimizer assumption of `fromPath_complete` /
    `fromSSA_complete`, discharged for the code as it stands: if the inner finder returns valid
    complete pairwise paths, the arrangement `contract_nodes` builds from them is a `ValidShape`. -/
theorem validShape_of_inner (inner : Nat → List BT → Path)
    (hv : ∀ xs, 3 ≤ xs.length →
      checkLinear xs.length (inner 0 xs) = true ∧ ∀ st ∈ inner 0 xs, st.length ≤ 2) :
    ValidShape (shapeOfInner inner) := by
  intro xs h3
  obtain ⟨t, h1, h2⟩ := contractNodes_complete inner 0 0 xs h3 (hv xs h3).1 (hv xs h3).2
  unfold shapeOfInner
  rw [h1]
  exact h2

/-- every top-level `contract_nodes` call succeeds and keeps the inputs -/
theorem contractNodes_total (inner : Nat → List BT → Path)
    (hv : ∀ xs, 3 ≤ xs.length →
      checkLinear xs.length (inner 0 xs) = true ∧ ∀ st ∈ inner 0 xs, st.length ≤ 2)
    (l : List BT) (hne : l ≠ []) :
    ∃ m, contractNodes inner 1 0 l = some m ∧ m.leaves.Perm (leavesOf l) := by
  by_cases h : l.length ≤ 2
  · exact contractNodes_small inner 1 0 l hne h
  · exact contractNodes_complete inner 0 0 l (by omega) (hv l (by omega)).1 (hv l (by omega)).2

def maxLen (path : Path) : Nat := path.foldr (fun st m => max st.length m) 0

theorem le_maxLen (path : Path) : ∀ st ∈ path, st.length ≤ maxLen path := by
  induction path with
  | nil => intro st h; cases h
  | cons p rest ih =>
    intro st h
    simp only [maxLen, List.foldr_cons]
    rcases List.mem_cons.1 h with e | e
    · subst e; exact Nat.le_max_left _ _
    · exact Nat.le_trans (ih st e) (Nat.le_max_right _ _)

/-- **fromPath_kary_complete.** `from_path` on a linear path with steps of any arity ≥ 1, complete
    or not, with the finder `optimize` used for every step of three or more nodes and for the
    final completion: one tree over exactly the inputs, as soon as that finder returns valid
    complete pairwise paths — the property for `N` inputs follows from the property for the at
    most `N` nodes of each k-ary step. -/
theorem fromPath_kary_complete (inner : Nat → List BT → Path)
    (hv : ∀ xs, 3 ≤ xs.length →
      checkLinear xs.length (inner 0 xs) = true ∧ ∀ st ∈ inner 0 xs, st.length ≤ 2)
    (N : Nat) (hN : 1 ≤ N) (path : Path) (hp : checkLinearPartial N path = true) :
    ∃ t, fromLinearK inner N path true = some [t] ∧ t.leaves.Perm (List.range N) := by
  have hc := (checkLinearPartial_iff_count N path).1 hp
  cases hk : countRun N path with
  | none => rw [hk] at hc; cases hc
  | some k =>
    have hlen : (leafBTs N).length = N := by simp [leafBTs]
    obtain ⟨its, h1, h2, h3⟩ := runLinearM_spec (contractNodes inner 1 0) (maxLen path)
      (fun l hne _ => contractNodes_total inner hv l hne) path (le_maxLen path) (leafBTs N) k
      (by rw [hlen]; exact hk)
    rw [leafBTs_leaves] at h3
    have hne : its ≠ [] := by
      intro e
      rw [e] at h3
      have := h3.length_eq
      simp [leavesOf] at this
      omega
    unfold fromLinearK
    rw [h1]
    simp only
    by_cases hl : its.length > 1
    · simp only [hl, decide_true, Bool.and_self, if_true]
      obtain ⟨m, hm1, hm2⟩ := contractNodes_total inner hv its hne
      exact ⟨m, by rw [hm1]; rfl, hm2.trans h3⟩
    · simp only [hl, decide_false, Bool.false_and, Bool.false_eq_true, if_false]
      match its, hne, hl with
      | [t], _, _ => exact ⟨t, rfl, by simpa [leavesOf] using h3⟩
      | _ :: _ :: _, _, hl => simp at hl

/-- an inner finder that drops a node is what the hypothesis excludes: `(parent,) = temp_nodes`
    fails (python: ValueError) -/
example : contractNodes (fun _ _ => [[0, 1]]) 1 0 [.leaf 0, .leaf 1, .leaf 2] = none := by decide
example : contractNodes (fun _ _ => [[0, 2], [0, 1]]) 1 0 [.leaf 0, .leaf 1, .leaf 2] =
    some (.node (.node (.leaf 0) (.leaf 2)) (.leaf 1)) := rfl

/-! ## `RandomOptimizer` -/

/-- **randomOptimizer_path_valid.** `RandomOptimizer.__call__` (path_random.py:25-35): whatever
    the PRNG draws — for `Nrem = N-1 … 1` a position `i` in `0..Nrem` and, redrawn until it
    differs, a position `j` in `0..Nrem` — the path is a valid complete linear path of the `N`
    inputs. -/
theorem randomOptimizer_path_valid (N : Nat) (draws : List (Nat × Nat))
    (h : drawsOK N draws = true) : checkLinear N (randomPath draws) = true :=
  (checkLinear_iff_count N _).2 (randomPath_count draws N h)

example : drawsOK 4 [(3, 0), (2, 1), (0, 1)] = true := by decide
example : drawsOK 4 [(3, 0), (2, 3), (0, 1)] = false := by decide   -- `randint(0, Nrem + 1)`

/-! ## the processor -/

open Processor in
/-- **processor_path_valid.** For *every* word of processor operations that the code can execute
    (pairwise contractions chosen by greedy scores, the DP result, a PRNG…, single-term
    simplifications, scalar chains, hadamard groups, greedy queues with stale candidates) on
    `N ≥ 1` inputs and every size oracle, `optimize_remaining_by_size` succeeds, leaves one node,
    and the emitted `ssa_path` is a valid complete SSA path. -/
theorem processor_path_valid (N : Nat) (hN : 1 ≤ N) (ops : List Processor.Op) (sz : Nat → Nat)
    (s : Processor.State) (h : Processor.run (Processor.init N) ops = some s) :
    ∃ s', Processor.remaining sz s = some s' ∧ s'.nodes.length = 1 ∧ checkSSA N s'.path = true := by
  have hinv : Inv N s := run_inv ops (init_inv N hN) h
  have fin : ∀ s' : State, Inv N s' → s'.nodes.length = 1 → checkSSA N s'.path = true := by
    intro s' hi hl
    unfold checkSSA
    rw [hi.1]
    match hn : s'.nodes, hl with
    | [a], _ => simp [unitD]
  unfold remaining
  match hn : s.nodes with
  | [a] => exact ⟨s, rfl, by rw [hn]; rfl, fin s hinv (by rw [hn]; rfl)⟩
  | [a, b] =>
    have hc : ∃ s1 k, contract s a b = some (s1, k) := by
      unfold contract pop
      rw [hn]
      simp only [List.contains_cons, beq_self_eq_true, Bool.true_or, if_true]
      by_cases hab : a = b
      · subst hab; simp
      · have : (a == b) = false := by simpa using hab
        have h2 : (b == a) = false := by simpa using fun e : b = a => hab e.symm
        simp [List.erase_cons, this, h2]
    obtain ⟨s1, k, hc⟩ := hc
    have hci := contract_inv hinv hc
    refine ⟨s1, by simp [hc], ?_, ?_⟩
    · have := hci.2.1; rw [hn] at this; simp at this; omega
    · exact fin s1 hci.1 (by have := hci.2.1; rw [hn] at this; simp at this; omega)
  | [] =>
    have := hinv.2; rw [hn] at this; simp at this
  | a :: b :: c :: rest =>
    have hspec := remainingLoop_spec (N := N) sz s.nodes.length s
      (s.nodes.map fun i => (sz i, i)) hinv (by simp [List.map_map, Function.comp_def])
      (by simp)
    obtain ⟨s', h1, h2, h3⟩ := hspec
    rw [hn] at h1
    exact ⟨s', h1, h3, fin s' h2 h3⟩

/-! ## the partition builders -/

open Partition in
/-- **divide_terminates_partial.** (full statement: `build_divide` terminates on every network —
    false for one input with the code as it stands, see `divide_single_input_counterexample`.)
    `build_divide`'s `while tree.childless` loop on `N ≥ 2` inputs: for every partitioner returning
    one label per node — one community, as many communities as nodes, absent or huge labels,
    anything — every cutoff, and every order in which childless nodes are taken, the loop ends
    after at most Σ(|node| − 1) = N − 1 iterations with no childless node left. -/
theorem divide_terminates_partial (cutoff : Nat) (o : Partition.DivideOracle)
    (hfull : ∀ sub, sub.length ≤ (o.part sub).length) (N : Nat) (hN : 2 ≤ N) :
    ∃ k, Partition.divideLoop cutoff o (N - 1) (Partition.initChildless N) = some k ∧ k ≤ N - 1 := by
  have hmu : mu [List.range N] = N - 1 := by simp [mu]
  have hb : Big [List.range N] := by
    intro P hP
    simp only [List.mem_singleton] at hP
    subst hP
    simpa using hN
  obtain ⟨k, hk, hle⟩ := divideLoop_terminates cutoff o hfull (N - 1) _ hb (by omega)
  exact ⟨k, hk, by omega⟩

open Partition in
/-- **divide_single_input_counterexample.** With one input the root is a leaf but sits in
    `childless`; `contract_nodes` of a single node changes nothing, so the loop never ends. -/
theorem divide_single_input_counterexample (cutoff : Nat) (o : Partition.DivideOracle) :
    ∀ fuel, Partition.divideLoop cutoff o fuel (Partition.initChildless 1) = none :=
  divideLoop_single_diverges cutoff o 0

open Partition in
/-- **divide_terminates_repaired.** With the proposed repair of the initial `childless` set the
    loop terminates for every `N ≥ 1`. -/
theorem divide_terminates_repaired (cutoff : Nat) (o : Partition.DivideOracle)
    (hfull : ∀ sub, sub.length ≤ (o.part sub).length) (N : Nat) (hN : 1 ≤ N) :
    ∃ k, Partition.divideLoop cutoff o (N - 1) (Partition.initChildlessFixed N) = some k := by
  unfold initChildlessFixed
  by_cases h : N > 1
  · rw [if_pos h]
    obtain ⟨k, hk, _⟩ := divide_terminates_partial cutoff o hfull N (by omega)
    exact ⟨k, hk⟩
  · rw [if_neg h]
    have : N - 1 = 0 := by omega
    rw [this]
    exact ⟨0, rfl⟩

open Partition in
/-- **divide_terminates.** The full statement for the code as it stands (core.py:270 now starts
    `childless` empty for a single input): for *every* number of inputs, every partitioner that
    honours its contract (one label per node of the subgraph it is given — one community, as many
    communities as nodes, absent or huge labels, anything), every cutoff and every order in which
    childless nodes are taken, the `while tree.childless` loop ends after at most `N − 1`
    iterations with no childless node left. (Without the contract the loop need not end: a
    membership shorter than the subgraph makes `contract_nodes` build a node that is not the
    childless one, which then stays childless.) -/
theorem divide_terminates (cutoff : Nat) (o : Partition.DivideOracle)
    (hfull : ∀ sub, sub.length ≤ (o.part sub).length) (N : Nat) :
    ∃ k, Partition.divideLoop cutoff o (N - 1) (Partition.initChildlessFixed N) = some k ∧
      k ≤ N - 1 := by
  unfold initChildlessFixed
  by_cases h : N > 1
  · rw [if_pos h]
    exact divide_terminates_partial cutoff o hfull N (by omega)
  · rw [if_neg h]
    have : N - 1 = 0 := by omega
    rw [this]
    exact ⟨0, rfl, Nat.le_refl _⟩

open Partition in
/-- **agglom_complete_partial.** (full statement: `build_agglom` terminates for every
    partitioner — false for the code as it stands, see `agglom_counterexample`.)
    Whenever the loop ends, at most `groupsize` leaves remain for the final `contract_nodes`; and it
    does end, within `n` rounds, provided every round merges something. -/
theorem agglom_complete_partial (groupsize : Nat) (labels : Nat → List Nat) :
    (∀ fuel n r, Partition.agglomLoop groupsize labels fuel n = some r → r ≤ groupsize) ∧
    ((∀ m, groupsize < m → (Partition.separate (List.range m) (labels m)).length < m) →
      ∀ n, ∃ r, Partition.agglomLoop groupsize labels n n = some r) :=
  ⟨agglomLoop_result_le groupsize labels,
   fun hprog n => agglomLoop_terminates_of_progress groupsize labels hprog n n (Nat.le_refl _)⟩

open Partition in
/-- **agglom_counterexample.** With the partitioner that returns every node as its own community
    (what `labels_partition` does on mutually disconnected tensors) and more than `groupsize`
    leaves, the loop of the code as it stands never ends. -/
theorem agglom_counterexample :
    ∀ fuel, Partition.agglomLoop 4 (fun m => List.range m) fuel 6 = none :=
  fun fuel => agglomLoop_identity_diverges 4 fuel 6 (by decide)

open Partition in
/-- **agglom_fixed_complete.** With the proposed repair (leave the loop when a round merges
    nothing) the loop ends for every partitioner whatsoever. -/
theorem agglom_fixed_complete (groupsize : Nat) (labels : Nat → List Nat) (n : Nat) :
    ∃ r, Partition.agglomLoopFixed groupsize labels n n = some r ∧ r ≤ n :=
  agglomLoopFixed_terminates groupsize labels n n (Nat.le_refl _)

open Partition in
/-- **agglom_terminates.** The full statement for the code as it stands (core.py:4066-4070 now
    leaves the loop when a round merges nothing): for every partitioner whatsoever, every
    `groupsize` and every number of leaves the `while len(leaves) > groupsize` loop ends within
    `n` rounds; what is left (at most `n` leaves; at most `groupsize` unless a round merged
    nothing) goes to the final `contract_nodes`. -/
theorem agglom_terminates (groupsize : Nat) (labels : Nat → List Nat) (n : Nat) :
    ∃ r, Partition.agglomLoopFixed groupsize labels n n = some r ∧ r ≤ n :=
  agglom_fixed_complete groupsize labels n

open Partition in
/-- **kahypar_edge_cases.** The three short-circuits return one label per node. -/
theorem kahypar_edge_cases (nv parts : Nat) (onodes : List Nat) :
    (Partition.kahyparTooManyParts nv).length = nv ∧
    (Partition.kahyparFixOutputs nv onodes).length = nv ∧
    (1 ≤ parts → (Partition.kahyparRoundRobin nv parts).length = nv) :=
  ⟨by simp [kahyparTooManyParts], kahyparFixOutputs_length nv onodes,
   kahyparRoundRobin_length nv parts⟩

/-! ## presets and the state an optimizer keeps between calls

`RandomGreedyOptimizer.ssa_path` (path_basic.py:1483-1523) keeps the best path seen so far and
returns *it*; the docstring says the object "should not be re-used on different contractions".
The presets 'random-greedy' / 'random-greedy-128' are therefore bound to the *function*
`random_greedy_optimize` (cotengra/__init__.py:263-274), which builds a new optimizer per call.
`Props/C05Facts.lean` checks, over the table regenerated from the live registry on every run, that
every preset name is bound either to such a function or to an instance of a class that carries
nothing from one call to the next. -/

open BestSoFar in
/-- **preset_fresh_per_call_valid.** A preset bound to a function that constructs its optimizer
    inside the call answers *every* sequence of queries — any networks in any order, cheaper
    first, dearer first, more tensors, fewer tensors — with the path the inner finder found for
    the network it was asked about; so whenever the inner finder returns a valid complete SSA
    path of the `N_k` inputs of query `k`, answer `k` is one. -/
theorem preset_fresh_per_call_valid (qs : List (Nat × BestSoFar.Found))
    (hv : ∀ q ∈ qs, checkSSA q.1 q.2.path = true) (k : Nat) (hk : k < qs.length) :
    ∃ p, (BestSoFar.answers .freshPerCall (qs.map (·.2)))[k]? = some (some p) ∧
      p = qs[k].2.path ∧ checkSSA qs[k].1 p = true := by
  refine ⟨qs[k].2.path, ?_, rfl, hv _ (List.getElem_mem hk)⟩
  rw [answers_fresh]
  simp [List.getElem?_map, List.getElem?_eq_getElem hk]

open BestSoFar in
/-- **preset_shared_instance_counterexample.** One shared `RandomGreedyOptimizer` behind a preset
    fails the property: after a cheaper 3-tensor network the dearer 4-tensor network is answered
    with the 3-tensor path (a tensor is left over); after a cheaper 4-tensor network the dearer
    3-tensor network is answered with a path naming ids that do not exist (`KeyError` in
    `from_path`, a missing position in the linear path). Both inner answers were valid. -/
theorem preset_shared_instance_counterexample :
    let more : List (Nat × BestSoFar.Found) :=
      [(3, ⟨[[0, 1], [2, 3]], 5⟩), (4, ⟨[[0, 1], [2, 3], [4, 5]], 9⟩)]
    let fewer : List (Nat × BestSoFar.Found) :=
      [(4, ⟨[[0, 1], [2, 3], [4, 5]], 5⟩), (3, ⟨[[0, 1], [2, 3]], 9⟩)]
    (∀ q ∈ more ++ fewer, checkSSA q.1 q.2.path = true) ∧
    (BestSoFar.answers .sharedInstance (more.map (·.2)))[1]? = some (some [[0, 1], [2, 3]]) ∧
    checkSSA 4 [[0, 1], [2, 3]] = false ∧ checkSSAPartial 4 [[0, 1], [2, 3]] = true ∧
    (BestSoFar.answers .sharedInstance (fewer.map (·.2)))[1]? = some (some [[0, 1], [2, 3], [4, 5]]) ∧
    checkSSAPartial 3 [[0, 1], [2, 3], [4, 5]] = false := by
  decide

open BestSoFar in
/-- **shared_instance_same_network_valid.** What a shared instance *is* good for (the documented
    use): as long as every query is about networks of the same `N` tensors and the inner finder
    returns valid complete paths, every answer is a valid complete path of `N` tensors. -/
theorem shared_instance_same_network_valid (N : Nat) (qs : List BestSoFar.Found)
    (hv : ∀ q ∈ qs, checkSSA N q.path = true) :
    ∀ a ∈ BestSoFar.answers .sharedInstance qs, ∃ p, a = some p ∧ checkSSA N p = true :=
  sharedAnswers_same_network N qs init (good_init N) hv

open BestSoFar in
/-- **shared_instance_decreasing_valid.** … and for sequences of strictly decreasing cost, where
    each answer is the path found for the query itself (why a single call, or cheaper and cheaper
    networks, never show the defect). -/
theorem shared_instance_decreasing_valid (qs : List BestSoFar.Found)
    (hd : qs.Pairwise (fun a b => b.flops < a.flops)) :
    BestSoFar.answers .sharedInstance qs = qs.map fun q => some q.path :=
  sharedAnswers_decreasing qs init (fun _ _ => rfl) hd

/-! ## `ssa_to_linear` and the finders that go through it -/

/-- **ssaToLinear_valid.** `ssa_to_linear(ssa_path, N)` (path_basic.py:821-843) on an SSA path
    that replays on `N` inputs never raises and returns a linear path that replays on `N`
    inputs; a complete SSA path gives a complete linear path ("returned linear paths only
    reference positions that exist at that step", for every finder that converts). -/
theorem ssaToLinear_valid (N : Nat) (p : Path) (h : checkSSAPartial N p = true) :
    ∃ q, ssaToLinear N p = some q ∧ checkLinearPartial N q = true ∧
      (checkSSA N p = true → checkLinear N q = true) := by
  unfold checkSSAPartial at h
  cases hr : runSSA (fun _ => ()) (initSSA N fun _ => ()) p with
  | none => rw [hr] at h; cases h
  | some s' =>
    obtain ⟨st', h1, hrel⟩ := s2lRun_rel p (rel_init N) hr
    refine ⟨st'.out, by unfold ssaToLinear; rw [h1]; rfl, ?_, ?_⟩
    · rw [checkLinearPartial_iff_count, hrel.count]; rfl
    · intro hc
      unfold checkSSA at hc
      rw [hr] at hc
      rw [checkLinear_iff_count, hrel.count]
      obtain ⟨nodes, ssa⟩ := s'
      match nodes, hc with
      | [_], _ => rfl

example : ssaToLinear 4 [[0, 3], [2, 4], [1, 5]] = some [[0, 3], [1, 2], [0, 1]] := by decide
example : ssaToLinear 4 [[3, 0], [4, 2], [5, 1]] = some [[0, 3], [1, 2], [0, 1]] := by decide
example : ssaToLinear 3 [[0, 1], [2, 3], [4, 5]] = none := by decide     -- a path of 4 inputs: IndexError

/-- `from_path(ssa_path=…)` on a complete SSA path needs no autocompletion -/
theorem fromSSA_complete_noauto (shape : List BT → BT) (hs : ValidShape shape) (N : Nat)
    (hN : 1 ≤ N) (path : Path) (hp : checkSSA N path = true) :
    ∃ t, fromSSA shape N path false = some [t] ∧ t.leaves.Perm (List.range N) := by
  have hmap := runSSA_map (fun _ : BT => ()) (mergeBT shape) (fun _ => ()) (fun _ => rfl)
    (initSSA N BT.leaf) path
  rw [initSSA_BT_unit] at hmap
  unfold checkSSA at hp
  rw [hmap] at hp
  cases hr : runSSA (mergeBT shape) (initSSA N BT.leaf) path with
  | none => rw [hr] at hp; simp at hp
  | some s =>
    rw [hr] at hp
    have hne0 : (initSSA N BT.leaf).nodes ≠ [] := by
      unfold initSSA
      intro e
      have := congrArg List.length e
      simp at this; omega
    obtain ⟨hperm, _⟩ := runSSA_leaves shape hs path hne0 hr
    rw [initSSA_BT_leaves] at hperm
    unfold fromSSA
    rw [hr]
    obtain ⟨nodes, ssa⟩ := s
    match nodes, hp, hperm with
    | [(k, t)], _, hperm =>
      refine ⟨t, by simp, ?_⟩
      simpa [leavesOfD, leavesOf, vals] using hperm
    | [], hp, _ => simp [mapS, mapD] at hp
    | _ :: _ :: _, hp, _ => simp [mapS, mapD] at hp

/-- **greedy_finder_valid.** `optimize_greedy` / `optimize_optimal` / one trial of
    `optimize_random_greedy_track_flops` and the objects and hyper-functions built on them
    (path_basic.py:973-1037, 1040-1175, 1178-1290; path_greedy.py:11-34): a
    `ContractionProcessor` on `N ≥ 1` inputs, any word of operations (with or without
    `simplify`, any scores, any PRNG), then `optimize_remaining_by_size`. Whatever was chosen:
    * `use_ssa=True`: the returned `ssa_path` is a valid complete SSA path;
    * `use_ssa=False`: `ssa_to_linear(ssa_path, N)` does not raise and is a valid complete linear path;
    * `search` / `trial_greedy`: `from_path(ssa_path=…)` gives one tree over exactly the inputs,
      nothing left to autocomplete. -/
theorem greedy_finder_valid (N : Nat) (hN : 1 ≤ N) (ops : List Processor.Op) (sz : Nat → Nat)
    (s : Processor.State) (h : Processor.run (Processor.init N) ops = some s)
    (shape : List BT → BT) (hs : ValidShape shape) :
    ∃ s', Processor.remaining sz s = some s' ∧ checkSSA N s'.path = true ∧
      (∃ q, ssaToLinear N s'.path = some q ∧ checkLinear N q = true) ∧
      (∃ t, fromSSA shape N s'.path false = some [t] ∧ t.leaves.Perm (List.range N)) := by
  obtain ⟨s', h1, _, h3⟩ := processor_path_valid N hN ops sz s h
  have hpart : checkSSAPartial N s'.path = true := by
    unfold checkSSA at h3
    unfold checkSSAPartial
    cases hr : runSSA (fun _ => ()) (initSSA N fun _ => ()) s'.path with
    | none => rw [hr] at h3; cases h3
    | some _ => rfl
  obtain ⟨q, hq1, _, hq3⟩ := ssaToLinear_valid N s'.path hpart
  exact ⟨s', h1, h3, ⟨q, hq1, hq3 h3⟩, fromSSA_complete_noauto shape hs N hN s'.path h3⟩

open BestSoFar in
/-- **random_greedy_preset_valid.** The 'random-greedy' presets end to end: bound to a function
    that builds a fresh `RandomGreedyOptimizer` per call (`presets_bound_safely` /
    `random_greedy_presets_fresh` over the regenerated table), every query `k` of every sequence
    is answered with `ssa_to_linear` of the path the inner finder found for *that* network — a
    valid complete linear path of its `N_k` inputs whenever the inner path is a valid SSA path
    (which `greedy_finder_valid` gives for every trial). -/
theorem random_greedy_preset_valid (qs : List (Nat × BestSoFar.Found))
    (hv : ∀ q ∈ qs, checkSSA q.1 q.2.path = true) (k : Nat) (hk : k < qs.length) :
    ∃ p q, (BestSoFar.answers .freshPerCall (qs.map (·.2)))[k]? = some (some p) ∧
      ssaToLinear qs[k].1 p = some q ∧ checkLinear qs[k].1 q = true := by
  obtain ⟨p, h1, h2, h3⟩ := preset_fresh_per_call_valid qs hv k hk
  have hpart : checkSSAPartial qs[k].1 p = true := by
    unfold checkSSA at h3
    unfold checkSSAPartial
    cases hr : runSSA (fun _ => ()) (initSSA qs[k].1 fun _ => ()) p with
    | none => rw [hr] at h3; cases h3
    | some _ => rfl
  obtain ⟨q, hq1, _, hq3⟩ := ssaToLinear_valid qs[k].1 p hpart
  exact ⟨p, q, h1, hq1, hq3 h3⟩

/-! ## non-vacuity -/

example : checkLinear 4 [[0, 3], [1], [0, 1], [0, 1]] = true := by decide
example : checkLinear 4 [[0, 4], [0, 1], [0, 1]] = false := by decide      -- position 4 does not exist
example : checkLinear 4 [[1, 1], [0, 1], [0, 1]] = false := by decide      -- a position twice
example : checkLinear 4 [[0, 1], [0, 1]] = false := by decide              -- two tensors left
example : checkLinearPartial 4 [[0, 1], [0, 1]] = true := by decide
example : checkLinear 1 [] = true := by decide
example : checkSSA 4 [[0, 3], [2, 4], [1, 5]] = true := by decide
example : checkSSA 4 [[0, 3], [0, 4], [1, 5]] = false := by decide         -- id 0 consumed twice
example : checkTree 3 [([0, 1, 2], [0, 2], [1]), ([0, 2], [2], [0])] = true := by decide
example : checkTree 3 [([0, 1, 2], [0, 2], [1])] = false := by decide      -- {0,2} has no children
example : checkTree 3 [([0, 1, 2], [0, 2], [1, 2]), ([0, 2], [2], [0]), ([1, 2], [1], [2])] = false := by
  decide                                                                     -- overlapping children
example : (fromLinear (fun xs => xs.headD (.leaf 0)) 4 [[0, 1]] true).map (·.map BT.leaves) =
    some [[2]] := by decide   -- an invalid sub-optimizer (drops inputs) is what `ValidShape` excludes
example : (fromLinear (fun xs => xs.headD (.leaf 0)) 4 [[0, 1], [0, 1]] true).map (·.map BT.leaves) =
    some [[0, 1, 2, 3]] := by decide
example : (Processor.run (Processor.init 4) [.single 2, .contract 0 4, .greedy [(1, 3), (1, 5), (3, 5)]]).map
    (fun s => (s.nodes, s.path)) = some ([5, 6], [[2], [0, 4], [1, 3]]) := by decide
example : Partition.separate [10, 11, 12, 13] [5, 0, 5] = [[11], [10, 12]] := by decide
example : Partition.kahyparRoundRobin 7 3 = [0, 0, 0, 1, 1, 2, 2] := by decide
example : Partition.kahyparFixOutputs 5 [1, 3] = [1, 0, 2, 0, 3] := by decide

end Cotengra.C05
