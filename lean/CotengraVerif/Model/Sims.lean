import CotengraVerif.Model.Stats

/-!
  Two of the library's separate contraction simulators (C18), transcribed:

  * the annealing move evaluator `compute_contracted_info`
    (cotengra/pathfinders/path_simulated_annealing.py:19-68);
  * the lightweight `ContractionProcessor` behind greedy / optimal / random-greedy
    (cotengra/pathfinders/path_basic.py): `compute_contracted` (:56-96), `compute_size` (:99-104),
    `compute_flops` (:107-118), `is_simplifiable` / `compute_simplified` (:17-53), the initial legs
    of `__init__` (:391-420), `remove_ix` (:458-465), `simplify_batch` (:504-513),
    `simplify_single_terms` (:515-523), `contract_nodes` (:489-502) with `track_flops`.

  The processor renumbers index labels by first appearance and keeps legs sorted by that number;
  here labels *are* naturals and legs are sorted by label (the harness relabels networks by first
  appearance, and maps the real processor's numbers back through its `indmap`).

  Core Lean only.
-/
namespace Cotengra

namespace Anneal

/-- first loop of `compute_contracted_info` (:47-58): all left indices -/
def left (n : Net) (b : Legs) : Legs → Legs × Nat × Nat
  | [] => ([], 1, 1)
  | (ix, c) :: t =>
    let (rest, cost, size) := left n b t
    let d := n.size ix
    let c' := if b.has ix then c + b.get ix else c
    if c' < n.app ix then ((ix, c') :: rest, d * cost, d * size) else (rest, d * cost, size)

/-- second loop (:61-66): right indices not seen yet -/
def right (n : Net) (a : Legs) : Legs → Legs × Nat × Nat
  | [] => ([], 1, 1)
  | (ix, c) :: t =>
    let (rest, cost, size) := right n a t
    if a.has ix then (rest, cost, size) else
    let d := n.size ix
    if c < n.app ix then ((ix, c) :: rest, d * cost, d * size) else (rest, d * cost, size)

/-- `compute_contracted_info(legsa, legsb, appearances, size_dict)` → `(legsab, cost, size)` -/
def info (n : Net) (a b : Legs) : Legs × Nat × Nat :=
  let (la, ca, sa) := left n b a
  let (lb, cb, sb) := right n a b
  (la ++ lb, ca * cb, sa * sb)

end Anneal

/-- processor legs: `(ix, count)` tuples sorted by `ix` -/
abbrev PLegs := List (Nat × Nat)

namespace Proc

/-- `compute_contracted(ilegs, jlegs, appearances)` (path_basic.py:56-96): sorted merge; a shared
    index is dropped when the summed count reaches its number of appearances. `fuel` bounds the
    `while True` loop (`ni + nj` iterations suffice). -/
def contractedAux (app : Nat → Nat) : Nat → PLegs → PLegs → PLegs
  | 0, _, _ => []
  | _ + 1, [], js => js
  | _ + 1, is, [] => is
  | f + 1, (iix, ic) :: is, (jix, jc) :: js =>
    if iix < jix then (iix, ic) :: contractedAux app f is ((jix, jc) :: js)
    else if jix < iix then (jix, jc) :: contractedAux app f ((iix, ic) :: is) js
    else
      if ic + jc ≠ app iix then (iix, ic + jc) :: contractedAux app f is js
      else contractedAux app f is js

def contracted (app : Nat → Nat) (a b : PLegs) : PLegs :=
  contractedAux app (a.length + b.length + 1) a b

/-- `compute_size(legs, sizes)` -/
def size (sz : Nat → Nat) (l : PLegs) : Nat := l.foldl (fun acc kv => acc * sz kv.1) 1

/-- `compute_flops(ilegs, jlegs, sizes)`: product over the union of the two index sets -/
def flops (sz : Nat → Nat) (a b : PLegs) : Nat :=
  let fa := a.foldl (fun acc kv => acc * sz kv.1) 1
  b.foldl (fun acc kv => if a.any (fun kv' => kv'.1 == kv.1) then acc else acc * sz kv.1) fa

/-- insertion into a list sorted by (ix, count) — python's `legs.sort()` on tuples -/
def insertLeg (x : Nat × Nat) : PLegs → PLegs
  | [] => [x]
  | y :: t => if x.1 < y.1 ∨ (x.1 = y.1 ∧ x.2 ≤ y.2) then x :: y :: t else y :: insertLeg x t

/-- the initial legs of a term (`__init__`, :398-413): one `(ix, 1)` per occurrence, sorted -/
def initLegs (term : List Ix) : PLegs := term.foldl (fun acc ix => insertLeg (ix, 1) acc) []

/-- `is_simplifiable(legs, appearances)` (:17-28) -/
def isSimplifiable (app : Nat → Nat) : Option Nat → PLegs → Bool
  | _, [] => false
  | prev, (ix, c) :: t => (prev == some ix) || (c == app ix) || isSimplifiable app (some ix) t

/-- the loop of `compute_simplified` (:39-51) with the running `(cur_ix, cur_cnt)` -/
def simplifiedAux (app : Nat → Nat) (cur : Nat) (cnt : Nat) : PLegs → PLegs
  | [] => if cnt ≠ app cur then [(cur, cnt)] else []
  | (ix, c) :: t =>
    if ix = cur then simplifiedAux app cur (cnt + c) t
    else if cnt ≠ app cur then (cur, cnt) :: simplifiedAux app ix c t
    else simplifiedAux app ix c t

/-- `compute_simplified(legs, appearances)` (:31-53) -/
def simplified (app : Nat → Nat) : PLegs → PLegs
  | [] => []
  | (ix, c) :: t => simplifiedAux app ix c t

/-- the processor state that matters for costs: `nodes`, `edges` (as `ix -> node list`),
    `ssa`, `flops` -/
structure State where
  nodes : List (Nat × PLegs)
  edges : List (Nat × List Nat)
  ssa : Nat
  flops : Nat
  path : List (List Nat)
deriving Repr, BEq

def lookup {α : Type} (d : List (Nat × α)) (k : Nat) : Option α :=
  match d with
  | [] => none
  | (k', v) :: t => if k' = k then some v else lookup t k

def setKey {α : Type} : List (Nat × α) → Nat → α → List (Nat × α)
  | [], k, v => [(k, v)]
  | (k', w) :: t, k, v => if k' = k then (k', v) :: t else (k', w) :: setKey t k v

/-- `__init__` (:391-427): nodes with their sorted legs, the edge map in first-appearance order -/
def init (inputs : List (List Ix)) : State :=
  let nodes := inputs.zipIdx.map (fun (term, i) => (i, initLegs term))
  let edges := inputs.zipIdx.foldl (fun ed (term, i) =>
      term.foldl (fun ed ix =>
        let cur := (lookup ed ix).getD []
        setKey ed ix (if cur.contains i then cur else cur ++ [i])) ed) []
  { nodes := nodes, edges := edges, ssa := inputs.length, flops := 0, path := [] }

/-- `remove_ix` (:458-465) -/
def removeIx (s : State) (ix : Nat) : State :=
  match lookup s.edges ix with
  | none => s      -- KeyError in the real code; `simplify_batch` only passes existing keys
  | some ns =>
    { s with edges := s.edges.filter (fun kv => kv.1 != ix),
             nodes := s.nodes.map (fun (k, legs) =>
               if ns.contains k then (k, legs.filter (fun kv => kv.1 != ix)) else (k, legs)) }

/-- the indices `simplify_batch` removes (:509-511): on at least as many nodes as there are -/
def batchIxs (s : State) : List Nat :=
  (s.edges.filter (fun kv => decide (s.nodes.length ≤ kv.2.length))).map (·.1)

/-- `simplify_batch` (:504-513) -/
def simplifyBatch (s : State) : State := (batchIxs s).foldl removeIx s

/-- `pop_node` (:467-480) -/
def popNode (s : State) (i : Nat) : Option (PLegs × State) :=
  match lookup s.nodes i with
  | none => none
  | some legs =>
    let edges := legs.foldl (fun ed (kv : Nat × Nat) =>
      match lookup ed kv.1 with
      | none => ed
      | some ns =>
        let ns' := ns.filter (· != i)
        if ns'.isEmpty then ed.filter (fun e => e.1 != kv.1) else setKey ed kv.1 ns') s.edges
    some (legs, { s with nodes := s.nodes.filter (fun kv => kv.1 != i), edges := edges })

/-- `add_node` (:482-491) -/
def addNode (s : State) (legs : PLegs) : Nat × State :=
  let i := s.ssa
  let edges := legs.foldl (fun ed (kv : Nat × Nat) =>
    let cur := (lookup ed kv.1).getD []
    setKey ed kv.1 (if cur.contains i then cur else cur ++ [i])) s.edges
  (i, { s with ssa := s.ssa + 1, nodes := s.nodes ++ [(i, legs)], edges := edges })

/-- `simplify_single_terms` (:515-523) -/
def simplifySingleTerms (app : Nat → Nat) (s : State) : State :=
  s.nodes.foldl (fun st (kv : Nat × PLegs) =>
    if isSimplifiable app none kv.2 then
      match popNode st kv.1 with
      | none => st
      | some (legs, st') =>
        let (_, st'') := addNode st' (simplified app legs)
        { st'' with path := st''.path ++ [[kv.1]] }
    else st) s

/-- `contract_nodes(i, j)` (:493-507) with `track_flops=True`; `none` = `KeyError` -/
def contractNodes (app sz : Nat → Nat) (s : State) (i j : Nat) : Option (Nat × PLegs × PLegs × State) :=
  match popNode s i with
  | none => none
  | some (il, s1) =>
    match popNode s1 j with
    | none => none
    | some (jl, s2) =>
      let s3 := { s2 with flops := s2.flops + flops sz il jl }
      let (k, s4) := addNode s3 (contracted app il jl)
      some (k, il, jl, { s4 with path := s4.path ++ [[i, j]] })

end Proc
end Cotengra
