import CotengraVerif.Model.Net

/-!
  Contraction paths and tree maps (property C05).

  * `stepLinear / runLinear`  — one step / a whole *linear* path ("recycled ids"), exactly the
    list discipline of `ContractionTree.from_path` (core.py:556-561) and of numpy/opt_einsum:
    the named positions are popped, the merged item is appended.
  * `stepSSA / runSSA`        — the same for *SSA* paths (core.py:546-554): a dict `id -> item`,
    the named ids are popped, the merged item is stored under the next fresh id.
    Both are generic in the item type: at `Unit` they are the *checkers* (`checkLinear`,
    `checkSSA`), at `List Nat` (the set of inputs consumed into an item) they are the semantics
    the property talks about, at tree nodes they are `from_path`.
  * `TreeMap`, `toBT?`        — the `children` dict of a `ContractionTree` and the binary tree it
    denotes from a given node downwards.

  Core Lean only.
-/
namespace Cotengra
namespace Path

abbrev Step := List Nat
abbrev Path := List Step

/-- `xs` with the elements at the positions in `p` taken out: (picked, rest), both in list order;
    `off` is the position of the head -/
def splitAt {α} (p : List Nat) : List α → Nat → List α × List α
  | [], _ => ([], [])
  | x :: t, off =>
    let r := splitAt p t (off + 1)
    if p.contains off then (x :: r.1, r.2) else (r.1, x :: r.2)

/-- a step of a linear path is well formed for a list of `len` items: at least one position, no
    position twice, every position exists -/
def stepOK (len : Nat) (p : Step) : Bool :=
  !p.isEmpty && p.Nodup && p.all (· < len)

/-- one step of a linear path: pop the named positions, append the merge.
    `none` = the step names a position that does not exist (python: `IndexError`), names one
    twice, or names nothing. -/
def stepLinear {α} (merge : List α → α) (items : List α) (p : Step) : Option (List α) :=
  if stepOK items.length p then
    let r := splitAt p items 0
    some (r.2 ++ [merge r.1])
  else none

def runLinear {α} (merge : List α → α) : List α → Path → Option (List α)
  | items, [] => some items
  | items, p :: rest =>
    match stepLinear merge items p with
    | none => none
    | some items' => runLinear merge items' rest

/-- the checker for linear paths: the same function on unit items; complete = one item left -/
def checkLinear (N : Nat) (path : Path) : Bool :=
  match runLinear (fun _ => ()) (List.replicate N ()) path with
  | some [_] => true
  | _ => false

/-- every step references existing positions (the path may stop early: "partial path") -/
def checkLinearPartial (N : Nat) (path : Path) : Bool :=
  (runLinear (fun _ => ()) (List.replicate N ()) path).isSome

/-! ## SSA paths -/

/-- `nodes.pop(i)` on the dict `id -> item` -/
def popId {α} : List (Nat × α) → Nat → Option (α × List (Nat × α))
  | [], _ => none
  | (k, v) :: t, i =>
    if k = i then some (v, t)
    else match popId t i with
      | none => none
      | some (x, t') => some (x, (k, v) :: t')

/-- `[nodes.pop(i) for i in p]` -/
def popIds {α} : List (Nat × α) → List Nat → Option (List α × List (Nat × α))
  | d, [] => some ([], d)
  | d, i :: rest =>
    match popId d i with
    | none => none
    | some (x, d') =>
      match popIds d' rest with
      | none => none
      | some (xs, d'') => some (x :: xs, d'')

/-- state of the SSA replay: the live dict and the next fresh id -/
structure SSAState (α : Type) where
  nodes : List (Nat × α)
  ssa : Nat

def stepSSA {α} (merge : List α → α) (s : SSAState α) (p : Step) : Option (SSAState α) :=
  if p.isEmpty then none
  else match popIds s.nodes p with
    | none => none
    | some (xs, d) => some ⟨d ++ [(s.ssa, merge xs)], s.ssa + 1⟩

def runSSA {α} (merge : List α → α) : SSAState α → Path → Option (SSAState α)
  | s, [] => some s
  | s, p :: rest =>
    match stepSSA merge s p with
    | none => none
    | some s' => runSSA merge s' rest

def initSSA {α} (N : Nat) (leaf : Nat → α) : SSAState α :=
  ⟨(List.range N).map fun i => (i, leaf i), N⟩

def checkSSA (N : Nat) (path : Path) : Bool :=
  match runSSA (fun _ => ()) (initSSA N fun _ => ()) path with
  | some ⟨[_], _⟩ => true
  | _ => false

def checkSSAPartial (N : Nat) (path : Path) : Bool :=
  (runSSA (fun _ => ()) (initSSA N fun _ => ()) path).isSome

/-! ## the `children` dict and the tree it denotes -/

/-- a node is the sorted list of the input positions beneath it (`frozenset[int]`) -/
abbrev Node := List Nat

/-- `tree.children`: parent ↦ (left, right) -/
abbrev TreeMap := List (Node × Node × Node)

def TreeMap.get? : TreeMap → Node → Option (Node × Node)
  | [], _ => none
  | (p, l, r) :: t, x => if p = x then some (l, r) else get? t x

/-- the binary tree below `x`, if every node on the way down has children that are two
    non-empty nodes which together hold exactly the inputs of the node (for a node without
    repetitions: two disjoint sets whose union is the node). `fuel` bounds the depth. -/
def toBT? (m : TreeMap) : Nat → Node → Option BT
  | 0, _ => none
  | fuel + 1, x =>
    match x with
    | [i] => some (.leaf i)
    | _ =>
      match m.get? x with
      | none => none
      | some (l, r) =>
        if l.isEmpty || r.isEmpty || !(l ++ r).isPerm x then none
        else
          match toBT? m fuel l, toBT? m fuel r with
          | some tl, some tr => some (.node tl tr)
          | _, _ => none

/-- the checker for trees: from the root `{0..N-1}` every branch ends in single inputs -/
def checkTree (N : Nat) (m : TreeMap) : Bool := (toBT? m (N + 1) (List.range N)).isSome

end Path
end Cotengra

namespace Cotengra
namespace Path

/-! ## `ContractionTree.from_path` (core.py:474-574) at the level of the trees it builds

  Each live item is the subtree built so far (in the code: a frozenset key plus the entries of
  `children` beneath it). `contract_nodes` (core.py:1343-1399): one node is returned as is, two
  are paired by `contract_nodes_pair` (heavier subtree on the left, ties broken by the smaller
  minimum, :1305-1318), three or more are arranged by the sub-optimizer (`find_path` + pairwise
  recursion) — an oracle `shape`. -/

def minLeaf : BT → Nat
  | .leaf i => i
  | .node l r => Nat.min (minLeaf l) (minLeaf r)

/-- `contract_nodes_pair(x, y)` -/
def pairBT (x y : BT) : BT :=
  let nx := x.leaves.length
  let ny := y.leaves.length
  if nx = ny then (if minLeaf x < minLeaf y then .node x y else .node y x)
  else if nx > ny then .node x y else .node y x

/-- `contract_nodes(nodes, optimize)` -/
def mergeBT (shape : List BT → BT) : List BT → BT
  | [x] => x
  | [x, y] => pairBT x y
  | xs => shape xs

def leafBTs (N : Nat) : List BT := (List.range N).map BT.leaf

/-- one admissible sub-optimizer: a left caterpillar over the items in the order given -/
def caterpillar : List BT → BT
  | [] => .leaf 0
  | x :: rest => rest.foldl (fun acc y => .node acc y) x

/-- `from_path(path=…, autocomplete=…)`: the live subtrees at the end -/
def fromLinear (shape : List BT → BT) (N : Nat) (path : Path) (autocomplete : Bool) :
    Option (List BT) :=
  match runLinear (mergeBT shape) (leafBTs N) path with
  | none => none
  | some items =>
    if items.length > 1 && autocomplete then some [mergeBT shape items] else some items

/-- `from_path(ssa_path=…, autocomplete=…)` -/
def fromSSA (shape : List BT → BT) (N : Nat) (path : Path) (autocomplete : Bool) :
    Option (List BT) :=
  match runSSA (mergeBT shape) (initSSA N BT.leaf) path with
  | none => none
  | some s =>
    let items := s.nodes.map (·.2)
    if items.length > 1 && autocomplete then some [mergeBT shape items] else some items

end Path
end Cotengra
