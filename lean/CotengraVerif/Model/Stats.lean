import CotengraVerif.Model.Net

/-!
  Cost totals of a complete tree (cotengra/core.py:930-1056): `contract_stats`, `peak_size`.
  The complete tree is a `BT`; its internal nodes are `t.internal` (children first, root last);
  the root's size comes from `rootLegs` (core.py:811-814).
-/
namespace Cotengra
namespace Net

def prodSizes (n : Net) (ixs : List Ix) : Nat := (ixs.map n.size).foldl (· * ·) 1

/-- `multiplicity`: product of the sizes of the sliced (not projected) indices -/
def mult (n : Net) (sliced : List Ix) : Nat := n.prodSizes sliced

/-- size of the subtree `s` when it sits in a complete tree whose root is `root` -/
def sizeIn (n : Net) (rm : List Ix) (root s : BT) : Nat :=
  if s == root then n.sizeOfLegs (n.rootLegs rm) else n.nodeSize rm s

structure Stats where
  flops : Nat
  write : Nat
  size : Nat
deriving Repr, BEq, DecidableEq

def listMax (l : List Nat) : Nat := l.foldl max 0

/-- `contract_stats()` of the complete tree `t` with removed indices `rm`, `sliced ⊆ rm` -/
def stats (n : Net) (rm sliced : List Ix) (t : BT) : Stats :=
  let m := n.mult sliced
  { flops := m * (t.internal.map (n.nodeFlops rm)).sum,
    write := m * (t.internal.map (n.sizeIn rm t)).sum,
    size := listMax (t.internal.map (n.sizeIn rm t)) }

def children : BT → List BT
  | .leaf _ => []
  | .node l r => [l, r]

/-- `peak_size(order)` (core.py:1008): `order` lists internal nodes children-first -/
def peak (n : Net) (rm : List Ix) (t : BT) (order : List BT) : Nat :=
  let tot0 := (t.leaves.map (fun i => n.sizeIn rm t (.leaf i))).sum
  let step := fun (acc : Nat × Nat) (p : BT) =>
    let tot := acc.1 + n.sizeIn rm t p
    let pk := max acc.2 tot
    (tot - ((children p).map (n.sizeIn rm t)).sum, pk)
  (order.foldl step (tot0, tot0)).2

/-! ### independent definition of peak memory along a schedule (used by `C03.peak_eq_spec`) -/

def sumSz (sz : BT → Nat) (l : List BT) : Nat := (l.map sz).sum

/-- the live tensors after the step `p`: both operands are consumed, the output is live -/
def liveStep (av : List BT) : BT → List BT
  | .node l r => .node l r :: (av.erase l).erase r
  | .leaf _ => av

/-- the largest memory requirement over the steps of `order`, started with `av` live: a step
    needs all live tensors (its operands are among them) and its output at the same time -/
def stepsPeak (sz : BT → Nat) : List BT → List BT → Nat
  | _, [] => 0
  | av, p :: rest => max (sumSz sz av + sz p) (stepsPeak sz (liveStep av p) rest)

/-- the live tensors after a whole schedule -/
def liveAfter : List BT → List BT → List BT
  | av, [] => av
  | av, p :: rest => liveAfter (liveStep av p) rest

/-- one iteration of the loop of `peak_size` on `(tot_size, peak)` -/
def peakStep (sz : BT → Nat) (acc : Nat × Nat) (p : BT) : Nat × Nat :=
  let tot := acc.1 + sz p
  (tot - ((children p).map sz).sum, max acc.2 tot)

end Net
end Cotengra
