import CotengraVerif.Model.Path

/-!
  Control logic of `PartitionTreeBuilder` (cotengra/core.py:3918-4082) with the partitioner and
  the inner optimizers as oracles, at the level of the set of *childless* nodes
  (`tree.childless`, maintained by `contract_nodes_pair`, core.py:1322-1327):

  * `separate`        = `separate(xs, blocks)` (core.py:4100-4109), `zip` truncation included
  * `divideStep`      = one iteration of the `while tree.childless` loop of `build_divide`
                        (:3968-4034): a childless node is replaced by those of its parts that have
                        more than one element (none when it is contracted outright)
  * `agglomLoop`      = the `while len(leaves) > groupsize` loop of `build_agglom` (:4060-4074)
  * the three short-circuits of `kahypar_subgraph_find_membership`
                        (pathfinders/path_kahypar.py:69-98)

  What is abstracted: the `children` dict itself (that `contract_nodes` gives the node children and
  leaves exactly the multi-element parts childless); the tie checks the real trees for completeness.
  Core Lean only.
-/
namespace Cotengra
namespace Partition

/-- insert a label into a strictly increasing list -/
def insertLabel (b : Nat) : List Nat → List Nat
  | [] => [b]
  | x :: t => if b < x then b :: x :: t else if b = x then x :: t else x :: insertLabel b t

/-- the distinct labels, increasing (`x_b.sort()` on the `(label, group)` items) -/
def labelsOf : List Nat → List Nat
  | [] => []
  | b :: t => insertLabel b (labelsOf t)

/-- `separate(xs, blocks)`: groups of `xs` by label, ordered by label; `zip` stops at the shorter -/
def separate {α} (xs : List α) (blocks : List Nat) : List (List α) :=
  let z := xs.zip blocks
  (labelsOf (z.map (·.2))).map fun b => (z.filter fun xb => xb.2 == b).map (·.1)

/-- oracles of `build_divide` -/
structure DivideOracle where
  /-- `partition_fn(inputs, output, …, parts=parts_s, …)` on the subgraph -/
  part : List Nat → List Nat
  /-- which childless node `next(iter(tree.childless))` yields (index into the current list) -/
  pick : List (List Nat) → Nat

/-- one iteration of `while tree.childless` on the list of childless nodes.
    `none` = the loop has ended. -/
def divideStep (cutoff : Nat) (o : DivideOracle) (childless : List (List Nat)) :
    Option (List (List Nat)) :=
  match childless with
  | [] => none
  | _ =>
    let k := o.pick childless % childless.length
    let sub := childless.getD k []
    let others := childless.eraseIdx k
    if sub.length ≤ 1 then some childless      -- `contract_nodes` of one node returns it untouched
    else if sub.length ≤ cutoff then some others                  -- contracted outright
    else
      let groups := separate sub (o.part sub)
      if groups.length = 1 then some others                       -- one community: contract all
      else some (others ++ groups.filter fun g => 1 < g.length)   -- the parts become childless

/-- `tree.childless` right after `ContractionTree(..., track_childless=True)` (core.py:270):
    the root, whatever `N` -/
def initChildless (N : Nat) : List (List Nat) := [List.range N]

/-- the same with the proposed repair (fixes/C05-childless-single-input.patch): a single input is
    a leaf and waits for no children -/
def initChildlessFixed (N : Nat) : List (List Nat) := if N > 1 then [List.range N] else []

/-- the `while` loop with fuel; returns the number of iterations done -/
def divideLoop (cutoff : Nat) (o : DivideOracle) : Nat → List (List Nat) → Option Nat
  | 0, c => if c.isEmpty then some 0 else none
  | fuel + 1, c =>
    match divideStep cutoff o c with
    | none => some 0
    | some c' => (divideLoop cutoff o fuel c').map (· + 1)

/-- `build_agglom`'s loop on the number of current leaves: `labels n` is the membership the
    partitioner returns for `n` leaves; each group is contracted into one new leaf.
    Returns the number of leaves left for the final `contract_nodes`. `none` = still looping. -/
def agglomLoop (groupsize : Nat) (labels : Nat → List Nat) : Nat → Nat → Option Nat
  | 0, n => if n > groupsize then none else some n
  | fuel + 1, n =>
    if n > groupsize then
      agglomLoop groupsize labels fuel (separate (List.range n) (labels n)).length
    else some n

/-- the loop with the proposed repair (fixes/C05-agglom-no-progress.patch): stop partitioning as
    soon as a round merges nothing -/
def agglomLoopFixed (groupsize : Nat) (labels : Nat → List Nat) : Nat → Nat → Option Nat
  | 0, n => if n > groupsize then none else some n
  | fuel + 1, n =>
    if n > groupsize then
      let n' := (separate (List.range n) (labels n)).length
      if n' ≥ n then some n else agglomLoopFixed groupsize labels fuel n'
    else some n

/-! ## kahypar short-circuits -/

/-- `list(range(nv))` when `parts >= nv` (:69-70) -/
def kahyparTooManyParts (nv : Nat) : List Nat := List.range nv

/-- `[0 if i in onodes else next(groups) for i in range(nv)]` (:80-83) -/
def kahyparFixOutputs (nv : Nat) (onodes : List Nat) : List Nat :=
  ((List.range nv).foldl (fun (acc : List Nat × Nat) i =>
    if onodes.contains i then (acc.1 ++ [0], acc.2) else (acc.1 ++ [acc.2], acc.2 + 1)) ([], 1)).1

/-- round robin for a graph without edges (:92-98) -/
def kahyparRoundRobin (nv parts : Nat) : List Nat :=
  (List.range parts).flatMap fun k =>
    List.replicate (nv / parts + (if k < nv % parts then 1 else 0)) k

end Partition
end Cotengra
