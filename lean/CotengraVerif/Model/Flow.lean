/-
  C17 — a tiny imperative semantics with four sources of values that are *not* functions of a
  call's arguments:

    * `seeded` : the generator obtained from the caller's seed  (`get_rng(seed)`, utils.py:710-729,
                 third branch: `random.Random(seed)`),
    * `global` : the process-global generator                   (`get_rng(None)` returns the
                 `random` module; `random.*`, `np.random.*`),
    * `hash`   : the per-process string-hash order               (iteration order of a `set` of `str`),
    * `sched`  : the order in which the workers of an executor pool passed as `parallel=` finish
                 (`concurrent.futures.as_completed`, `wait(.., FIRST_COMPLETED)`, `imap_unordered`);
                 see `Model/Gather.lean` for what reads it and what does not.

  A program is a table of function bodies `FnId → Cmd σ`; bodies are built from arbitrary
  deterministic store transformers, draws from one of the three sources, sequencing, branching,
  loops and calls.  The *footprint* of a body (`Cmd.reads`, `Cmd.calls`) is what the source-derived
  fact table of `harness/c17_facts.py` over-approximates; `cleanFrom` is the decision procedure
  that the `decide` obligation of `Props/C17.lean` runs on that table and that the driver op
  `c17.clean` runs for the harness.

  Core Lean only (no Mathlib) so that the compiled driver can link it.
-/
namespace Cotengra.Flow

abbrev FnId := Nat

inductive Src where
  | seeded | global | hash | sched
deriving DecidableEq, Repr, Inhabited

/-- A generator: an infinite tape of values and a read position.  A seeded generator is a
    function of its seed only (`Gen.ofSeed`); nothing is assumed about the tapes themselves. -/
structure Gen where
  tape : Nat → Nat
  pos : Nat

def Gen.next (g : Gen) : Nat × Gen := (g.tape g.pos, { g with pos := g.pos + 1 })

/-- `random.Random(seed)`: the tape is a function `mk` of the seed (CPython's Mersenne twister --
    trusted, never inspected), the position starts at 0. -/
def Gen.ofSeed (mk : Nat → Nat → Nat) (seed : Nat) : Gen := { tape := mk seed, pos := 0 }

/-- Execution environment: the store (arguments, locals, heap -- everything the program computes
    with), the two generators and the hash-order parameter of the interpreter. -/
structure Env (σ : Type) where
  store : σ
  seeded : Gen
  global : Gen
  hash : Nat
  /-- completion orders of the pool's workers, one per gather (a tape like the global generator:
      nothing is assumed about it) -/
  sched : Gen

/-- read one value from a source (the hash order is a constant of the process) -/
def Env.read {σ : Type} (e : Env σ) : Src → Nat × Env σ
  | .seeded => let (v, g) := e.seeded.next; (v, { e with seeded := g })
  | .global => let (v, g) := e.global.next; (v, { e with global := g })
  | .hash => (e.hash, e)
  | .sched => let (v, g) := e.sched.next; (v, { e with sched := g })

inductive Cmd (σ : Type) where
  /-- any deterministic computation on the store -/
  | pure (f : σ → σ)
  /-- read a value from a source and bind it into the store -/
  | draw (s : Src) (k : Nat → σ → σ)
  | seq (a b : Cmd σ)
  | ite (c : σ → Bool) (a b : Cmd σ)
  /-- `while c: body` -/
  | loop (c : σ → Bool) (body : Cmd σ)
  /-- call of a function of the program -/
  | call (f : FnId)

abbrev Prog (σ : Type) := FnId → Cmd σ

/-- fuel-bounded big-step execution; `none` = out of fuel (divergence is not a result) -/
def exec {σ : Type} (P : Prog σ) : Nat → Cmd σ → Env σ → Option (Env σ)
  | 0, _, _ => none
  | _ + 1, .pure f, e => some { e with store := f e.store }
  | _ + 1, .draw s k, e =>
      let (v, e') := e.read s
      some { e' with store := k v e'.store }
  | n + 1, .seq a b, e => (exec P n a e).bind fun e' => exec P n b e'
  | n + 1, .ite c a b, e => if c e.store then exec P n a e else exec P n b e
  | n + 1, .loop c body, e =>
      if c e.store then (exec P n body e).bind fun e' => exec P n (.loop c body) e'
      else some e
  | n + 1, .call f, e => exec P n (P f) e

/-! ## footprint of a body -/

def Cmd.reads {σ : Type} : Cmd σ → Src → Bool
  | .pure _, _ => false
  | .draw s _, t => s == t
  | .seq a b, t => a.reads t || b.reads t
  | .ite _ a b, t => a.reads t || b.reads t
  | .loop _ b, t => b.reads t
  | .call _, _ => false

def Cmd.calls {σ : Type} : Cmd σ → List FnId
  | .pure _ => []
  | .draw _ _ => []
  | .seq a b => a.calls ++ b.calls
  | .ite _ a b => a.calls ++ b.calls
  | .loop _ b => b.calls
  | .call f => [f]

/-! ## fact tables and the decision procedure -/

/-- one row of the source-derived table: callees, "draws from the global generator",
    "depends on the string-hash order", "consumes pool results in completion order" -/
structure Facts where
  calls : List FnId
  rdGlobal : Bool
  rdHash : Bool
  rdSched : Bool
deriving Repr, BEq, DecidableEq, Inhabited

/-- rows are addressed by position; an id outside the table is *tainted* (conservative) -/
def getFacts (T : List Facts) (f : FnId) : Facts :=
  match T[f]? with
  | some x => x
  | none => { calls := [], rdGlobal := true, rdHash := true, rdSched := true }

/-- sets of rows are bit masks (`Nat`): membership and insertion are single bit operations, which
    the kernel evaluates with GMP arithmetic -- the closed `decide` obligation over the extracted
    table then costs a few hundred thousand reductions instead of millions -/
abbrev FSet := Nat

/-- `f ∈ R`, for a row of the table -/
def inSet (T : List Facts) (R : FSet) (f : FnId) : Bool := decide (f < T.length) && R.testBit f

/-- `R` contains only untainted rows and is closed under the call relation -/
def closedClean (T : List Facts) (R : FSet) : Bool :=
  (List.range T.length).all fun f =>
    !R.testBit f ||
      (let x := getFacts T f
       !x.rdGlobal && !x.rdHash && !x.rdSched && x.calls.all fun g => inSet T R g)

/-- worklist search for the set of rows reachable from the frontier (only its *output* is
    trusted through `closedClean`, so no correctness proof of the search itself is needed) -/
def reachSet (T : List Facts) : Nat → List FnId → FSet → FSet
  | 0, _, acc => acc
  | _, [], acc => acc
  | n + 1, f :: rest, acc =>
      if acc.testBit f then reachSet T n rest acc
      else reachSet T n ((getFacts T f).calls ++ rest) (acc ||| (1 <<< f))

def fuelFor (T : List Facts) : Nat := (T.map fun x => x.calls.length + 1).foldl (· + ·) 1 + 1

/-- the set explored from `f` -/
def reachFrom (T : List Facts) (f : FnId) : FSet := reachSet T (fuelFor T) [f] 0

/-- decision procedure: no tainted row is reachable from `f` -/
def cleanFrom (T : List Facts) (f : FnId) : Bool :=
  let R := reachFrom T f
  inSet T R f && closedClean T R

/-- the same for a list of entry points at once (one search, one closure check) -/
def cleanAll (T : List Facts) (es : List FnId) : Bool :=
  let R := reachSet T (fuelFor T + es.length) es 0
  es.all (fun e => inSet T R e) && closedClean T R

/-- members of a set, as a list (driver / diagnostics) -/
def members (T : List Facts) (R : FSet) : List FnId := (List.range T.length).filter fun f => R.testBit f

/-- tainted rows reachable from `f` (diagnostics for the driver / harness only) -/
def taintedFrom (T : List Facts) (f : FnId) : List FnId :=
  (members T (reachFrom T f)).filter fun g => let x := getFacts T g; x.rdGlobal || x.rdHash || x.rdSched

end Cotengra.Flow

/-!
## `get_rng` (cotengra/utils.py:731-750), branch by branch

    if seed is None:                                       return random          # the global module
    elif isinstance(seed, random.Random) or seed is random: return seed            # the caller's generator
    else:                                                   return random.Random(seed)

`random.Random(x)` accepts `None`, `int`, `float`, `str`, `bytes`, `bytearray` and raises
`TypeError` for anything else (a numpy `Generator`, a tuple ...).  A generator *instance* passed as
the seed is shared, not copied: draws made through the returned object advance the caller's
generator.
-/
namespace Cotengra.GetRng
open Cotengra.Flow

/-- what is passed as `seed` -/
inductive SeedArg where
  | none
  /-- an integer (or a str / bytes / float: hashed by CPython independently of PYTHONHASHSEED) -/
  | int (n : Nat)
  /-- an instance of `random.Random` in state `g` -/
  | inst (g : Gen)
  /-- the module `random` itself -/
  | globalMod
  /-- an object `random.Random` cannot be seeded with (numpy Generator, tuple, ...) -/
  | unsupported

/-- which generator the returned object draws from -/
inductive RngOut where
  | global
  | fresh (g : Gen)
  | shared (g : Gen)
  | typeError

def getRng (mk : Nat → Nat → Nat) : SeedArg → RngOut
  | .none => .global
  | .globalMod => .global
  | .inst g => .shared g
  | .int n => .fresh (Gen.ofSeed mk n)
  | .unsupported => .typeError

/-- draw `n` values from a generator -/
def drawN : Nat → Gen → List Nat × Gen
  | 0, g => ([], g)
  | n + 1, g => let (v, g') := g.next; let (vs, g'') := drawN n g'; (v :: vs, g'')

/-- the `n` values drawn through `get_rng(arg)` when the process-global generator is `glob`,
    the global generator afterwards and -- for a shared instance -- the caller's generator
    afterwards; `none` = `TypeError` -/
def drawsVia (mk : Nat → Nat → Nat) (arg : SeedArg) (glob : Gen) (n : Nat) :
    Option (List Nat × Gen × Option Gen) :=
  match getRng mk arg with
  | .global => let (vs, g') := drawN n glob; some (vs, g', none)
  | .fresh g => some ((drawN n g).1, glob, none)
  | .shared g => let (vs, g') := drawN n g; some (vs, glob, some g')
  | .typeError => none

/-- the argument is an integer seed or a generator instance: what the property calls "a seed" -/
def SeedArg.seeded : SeedArg → Bool
  | .int _ => true
  | .inst _ => true
  | _ => false

end Cotengra.GetRng

/-!
## hidden mutable state shared between an object and its copies

Every non-inplace method of `ContractionTree` works on `self.copy()`, and `copy` is
`set_state_from` (cotengra/core.py:305-349), which copies each attribute to some depth: 0 = by
reference, 1 = `.copy()` (a new container holding the *same* values), 2 = `{k: v.copy() …}`.  An
object is abstracted to the identities of its nested containers: `o p` is the identity of the
container reached from the attribute by the key path `p` (so `p.length` is its depth).  Original
identities are even; a copy to depth `d` gives the containers at depth `< d` fresh (odd)
identities and shares the deeper ones.  An in-place mutation "at depth `m`" through an object
writes into the container at the end of a path of length `m - 1`.
-/
namespace Cotengra.Share

abbrev Obj := List Nat → Nat

def copyD (d : Nat) (o : Obj) : Obj := fun p => if p.length < d then 2 * o p + 1 else o p

def AllEven (o : Obj) : Prop := ∀ p, o p % 2 = 0

/-- fact-table check: every attribute is copied at least as deep as it is mutated in place;
    rows are `(copy depth, deepest in-place mutation)` -/
def safe (rows : List (Nat × Nat)) : Bool := rows.all fun r => decide (r.2 ≤ r.1)

end Cotengra.Share

