import CotengraVerif.Model.Net

/-
  C14 model: `ReusableOptimizer` (cotengra/reusable.py) over `DiskDict` (cotengra/utils.py).

    * fingerprints `hash_contraction_a/b` as the *pre-hash tuples* (reusable.py:25-55); the
      composition with pickle + SHA-1 (+ `directory_split`) is assumed injective
    * `DiskDict` = (`mem`, `disk`) with the lookup order of `__contains__/__getitem__/__setitem__`
      (utils.py:650-730); a *process* (a new optimizer object) = empty `mem`, same `disk`
    * the policy `_maybe_run_optimizer` (reusable.py:231-262) over `overwrite ∈ {False, True,
      'improved'}` × `cache_only`
    * `search` (reusable.py:299-307): the just-searched tree, or `_reconstruct_tree(query, con)`
      (hyper.py:923-935, path_basic.py:1561-1570)

  The sub-optimizer is an oracle: every query comes with "what a search would find now".
  Core Lean only: the compiled driver links this file.
-/
namespace Cotengra.Reusable
open Cotengra

/-! ## fingerprints -/

def lexLeNat : List Nat → List Nat → Bool
  | [], _ => true
  | _ :: _, [] => false
  | a :: as, b :: bs => a < b || (a == b && lexLeNat as bs)

def lexLeInt : List Int → List Int → Bool
  | [], _ => true
  | _ :: _, [] => false
  | a :: as, b :: bs => a < b || (a == b && lexLeInt as bs)

def pairLe (a b : Nat × Nat) : Bool := a.1 < b.1 || (a.1 == b.1 && a.2 ≤ b.2)

/-- insertion sort (structural recursion, so that the kernel can evaluate fingerprints of
    concrete networks); any sort will do for `sortedtuple`: only *equality* of sorted tuples is
    ever used -/
def insertBy {α} (le : α → α → Bool) (a : α) : List α → List α
  | [] => [a]
  | b :: t => if le a b then a :: b :: t else b :: insertBy le a t

def isort {α} (le : α → α → Bool) : List α → List α
  | [] => []
  | a :: t => insertBy le a (isort le t)

/-- `sortedtuple` on a term / the output -/
def sortIx (l : List Ix) : List Ix := isort (fun a b => decide (a ≤ b)) l
/-- `sortedtuple(size_dict.items())` -/
def sortItems (l : List (Ix × Nat)) : List (Ix × Nat) := isort pairLe l

/-- the tuple pickled and hashed by `hash_contraction_a` (reusable.py:30-38) -/
structure FpA where
  inputs : List (List Ix)
  output : List Ix
  sizes : List (Ix × Nat)
deriving DecidableEq, Repr

def fpA (n : Net) : FpA :=
  { inputs := n.inputs.map sortIx, output := sortIx n.output, sizes := sortItems n.sizes }

/-- `edges[ix].append(node)` on an insertion-ordered `defaultdict(list)` -/
def edgeAdd : List (Ix × List Int) → Ix → Int → List (Ix × List Int)
  | [], ix, v => [(ix, [v])]
  | (k, l) :: t, ix, v => if k = ix then (k, l ++ [v]) :: t else (k, l) :: edgeAdd t ix v

/-- the `edges` dict of `hash_contraction_b` (reusable.py:43-49): output first (node −1), then
    every occurrence in input `i` (node `i`) -/
def edgesOf (n : Net) : List (Ix × List Int) :=
  let e0 := n.output.foldl (fun acc ix => edgeAdd acc ix (-1)) []
  (n.inputs.zipIdx).foldl (fun acc ti => ti.1.foldl (fun a ix => edgeAdd a ix (Int.ofNat ti.2)) acc) e0

/-- the tuple pickled and hashed by `hash_contraction_b` (reusable.py:51-55): the index
    *labels* of the edges are gone, the size items keep theirs -/
structure FpB where
  edges : List (List Int)
  sizes : List (Ix × Nat)
deriving DecidableEq, Repr

def fpB (n : Net) : FpB :=
  { edges := isort lexLeInt ((edgesOf n).map fun kv => isort (fun a b => decide (a ≤ b)) kv.2),
    sizes := sortItems n.sizes }

/-- cache keys: one type for both methods -/
inductive Fp where
  | a (f : FpA)
  | b (f : FpB)
deriving DecidableEq, Repr

def fingerprint (methodB : Bool) (n : Net) : Fp := if methodB then .b (fpB n) else .a (fpA n)

/-! ## stored entries and linear paths -/

/-- `con = {"path": …, "score": …, "sliced_inds": …}`; scores are compared with `<` only, so any
    order-isomorphic image of the float will do (the harness sends ranks) -/
structure Con where
  path : List (List Nat)
  score : Int
  sliced : List Ix
deriving DecidableEq, Repr, Inhabited

/-- a linear path is valid and complete for `n` tensors: every step names distinct positions of
    the current list (they are popped, the result is appended) and exactly one tensor is left -/
def validPath : Nat → List (List Nat) → Bool
  | n, [] => n == 1
  | n, s :: rest =>
    s.length ≥ 1 && s.all (· < n) && s.eraseDups.length == s.length && validPath (n - s.length + 1) rest

/-- indices of a network (anything that can be sliced) -/
def hasIx (n : Net) (ix : Ix) : Bool := n.inputs.any (·.contains ix) || n.output.contains ix

/-- the stored answer makes sense for contraction `n`: the path is a complete path for its
    number of tensors and every sliced index is one of its indices -/
def fits (n : Net) (c : Con) : Bool :=
  validPath n.inputs.length c.path && c.sliced.all (hasIx n)

/-- what `search` hands back: a tree is identified by the contraction it is built over, its
    path and its sliced indices -/
structure Tree where
  net : Net
  path : List (List Nat)
  sliced : List Ix
deriving Repr

/-! ## DiskDict -/

def assocSet {K V} [DecidableEq K] : List (K × V) → K → V → List (K × V)
  | [], k, v => [(k, v)]
  | (k', v') :: t, k, v => if k' = k then (k, v) :: t else (k', v') :: assocSet t k v

def assocGet {K V} [DecidableEq K] : List (K × V) → K → Option V
  | [], _ => none
  | (k', v') :: t, k => if k' = k then some v' else assocGet t k

/-- `_mem_cache` and the files below `directory` (`none` = `directory=None`) -/
structure DD (K : Type) where
  mem : List (K × Con)
  disk : Option (List (K × Con))
deriving Repr

namespace DD
variable {K : Type} [DecidableEq K]

/-- the entry stored in the directory, if there is a directory and a (readable) file -/
def diskGet (d : DD K) (k : K) : Option Con :=
  match d.disk with
  | some f => assocGet f k
  | none => none

/-- what a lookup finds: memory first, then disk (`__getitem__`, utils.py) -/
def view (d : DD K) (k : K) : Option Con :=
  match assocGet d.mem k with
  | some c => some c
  | none => d.diskGet k

/-- loading memoises: `self._mem_cache[k] = pickle.load(f)` -/
def load (d : DD K) (k : K) : DD K :=
  match assocGet d.mem k, d.diskGet k with
  | none, some c => { d with mem := assocSet d.mem k c }
  | _, _ => d

/-- `__setitem__`: memory and (if there is a directory) disk -/
def set (d : DD K) (k : K) (c : Con) : DD K :=
  { mem := assocSet d.mem k c, disk := d.disk.map (assocSet · k c) }

/-- a fresh process / a new optimizer object on the same directory -/
def reload (d : DD K) : DD K := { mem := [], disk := d.disk }

end DD

/-! ## the policy -/

inductive Overwrite where
  | no | yes | improved
deriving DecidableEq, Repr

structure Cfg where
  overwrite : Overwrite
  cacheOnly : Bool
  /-- how `'improved'` treats a *tie*: the code has `con["score"] < old_con["score"]` (`false`);
      `<=` (`true`) would be an equally good policy.  Every theorem holds for both values, and the
      harness tells the model which one the implementation exhibits, so that a change of the
      tie-break is not reported. -/
  tieReplace : Bool := false
deriving DecidableEq, Repr

/-- "the new path is better" -/
def better (cfg : Cfg) (ans old : Con) : Bool :=
  ans.score < old.score || (cfg.tieReplace && ans.score == old.score)

structure St (K : Type) where
  dd : DD K
  /-- number of times the sub-optimizer has run -/
  searches : Nat
deriving Repr

inductive Res where
  /-- `(should_run, con)` -/
  | ok (searched : Bool) (con : Con)
  /-- `raise KeyError("Contraction missing from cache.")` -/
  | keyError
deriving DecidableEq, Repr

variable {K : Type} [DecidableEq K]

/-- `_maybe_run_optimizer` (reusable.py:231-262) for key `k`; `ans` = what `_run_optimizer`
    would return now. -/
def maybeRun (cfg : Cfg) (k : K) (ans : Con) (s : St K) : St K × Res :=
  -- h, missing = self.hash_query(...)      (`h in self._cache` loads the entry if on disk)
  let dd := s.dd.load k
  match dd.view k with
  | none =>
    -- missing: should_run = True
    if cfg.cacheOnly then ({ s with dd := dd }, .keyError)
    else ({ dd := dd.set k ans, searches := s.searches + 1 }, .ok true ans)
  | some old =>
    match cfg.overwrite with
    | .no => ({ s with dd := dd }, .ok false old)
    | .yes =>
      if cfg.cacheOnly then ({ s with dd := dd }, .keyError)
      else ({ dd := dd.set k ans, searches := s.searches + 1 }, .ok true ans)
    | .improved =>
      if cfg.cacheOnly then ({ s with dd := dd }, .keyError)
      else if better cfg ans old then
        ({ dd := dd.set k ans, searches := s.searches + 1 }, .ok true ans)
      else
        -- use the old path; "need flag that we can't use the last run"
        ({ dd := dd, searches := s.searches + 1 }, .ok false old)

/-- `update_from_tree(tree, overwrite)` (reusable.py:182-218): explicitly store the entry `new`
    of a tree; never runs the sub-optimizer.  `ow` is the *call's* `overwrite` argument
    (default `'improved'`), not the optimizer's policy. -/
def updateFromTree (tie : Bool) (ow : Overwrite) (k : K) (new : Con) (s : St K) : St K :=
  let dd := s.dd.load k
  match dd.view k with
  | none => { s with dd := dd.set k new }
  | some old =>
    match ow with
    | .no => { s with dd := dd }
    | .yes => { s with dd := dd.set k new }
    | .improved =>
      if better { overwrite := .improved, cacheOnly := false, tieReplace := tie } new old then
        { s with dd := dd.set k new }
      else { s with dd := dd }

/-- `search` (reusable.py:299-307): returns the tree.  `q` is the queried contraction,
    `ansTree` the tree the sub-optimizer builds if it runs (`self.last_opt.tree`). -/
def searchTree (q : Net) (ansTree : Tree) : Res → Option Tree
  | .ok true _ => some ansTree
  | .ok false con => some { net := q, path := con.path, sliced := con.sliced }
  | .keyError => none

/-- `_deconstruct_tree` -/
def deconstruct (t : Tree) (score : Int) : Con := { path := t.path, score := score, sliced := t.sliced }

/-! ## histories: queries and process restarts -/

inductive Ev (K : Type) where
  | query (k : K) (ans : Con)
  /-- a new process / optimizer object on the same directory, possibly with another policy -/
  | restart (cfg : Cfg)
  /-- `update_from_tree(tree, overwrite=ow)` with the entry `new` of that tree -/
  | update (ow : Overwrite) (k : K) (new : Con)

structure Sys (K : Type) where
  cfg : Cfg
  st : St K

def Sys.step (y : Sys K) : Ev K → Sys K × Option Res
  | .query k ans => let r := maybeRun y.cfg k ans y.st; ({ y with st := r.1 }, some r.2)
  | .restart cfg => ({ cfg := cfg, st := { y.st with dd := y.st.dd.reload } }, none)
  | .update ow k new => ({ y with st := updateFromTree y.cfg.tieReplace ow k new y.st }, none)

def Sys.run (y : Sys K) : List (Ev K) → Sys K × List (Option Res)
  | [] => (y, [])
  | e :: rest =>
    let r := y.step e
    let r2 := Sys.run r.1 rest
    (r2.1, r.2 :: r2.2)

end Cotengra.Reusable
