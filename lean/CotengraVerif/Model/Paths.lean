import CotengraVerif.Model.Net

/-!
  Model of the path formats and their converters:

  * `linear_to_ssa`, `ssa_to_linear`, `edge_path_to_ssa`   cotengra/pathfinders/path_basic.py:789-892
  * `_traverse_dfs`, `_traverse_ordered`                   cotengra/core.py:1422-1470
  * `get_path`, `get_ssa_path`                             cotengra/core.py:2698-2765
  * `from_path` (path / ssa_path branches, steps of 1 or 2 ids)  cotengra/core.py:474-574

  A tree is a `BT` whose (left, right) orientation is the one of `tree.children`; a node is
  identified with its subtree.  `frozenset`s of leaves are lists, compared up to permutation.
  Scores returned by an `order` callable are naturals (the harness rank-transforms them).

  Core Lean only.
-/
namespace Cotengra
namespace Paths

abbrev Path := List (List Nat)

/-! ### sorting small lists of ids -/

def insertAsc (a : Nat) : List Nat → List Nat
  | [] => [a]
  | b :: t => if a ≤ b then a :: b :: t else b :: insertAsc a t

/-- `sorted(xs)` on ints -/
def sortAsc (l : List Nat) : List Nat := l.foldr insertAsc []

/-- `sorted(xs, reverse=True)` on ints (equal ints are indistinguishable, so this is the
    reversal of the ascending sort) -/
def sortDesc (l : List Nat) : List Nat := (sortAsc l).reverse

/-! ### bisect (exactly the loops of CPython's `bisect` module; they are also run on
    unsorted lists by `_traverse_ordered`) -/

def bisectLeftAux (a : List Nat) (x : Nat) : Nat → Nat → Nat → Nat
  | 0, lo, _ => lo
  | f + 1, lo, hi =>
    if lo < hi then
      let mid := (lo + hi) / 2
      if a.getD mid 0 < x then bisectLeftAux a x f (mid + 1) hi else bisectLeftAux a x f lo mid
    else lo

/-- `bisect.bisect_left(a, x)` -/
def bisectLeft (a : List Nat) (x : Nat) : Nat := bisectLeftAux a x (a.length + 1) 0 a.length

def bisectRightAux (a : List Nat) (x : Nat) : Nat → Nat → Nat → Nat
  | 0, lo, _ => lo
  | f + 1, lo, hi =>
    if lo < hi then
      let mid := (lo + hi) / 2
      if x < a.getD mid 0 then bisectRightAux a x f lo mid else bisectRightAux a x f (mid + 1) hi
    else lo

/-- `bisect.bisect(a, x)` (= `bisect_right`) -/
def bisectRight (a : List Nat) (x : Nat) : Nat := bisectRightAux a x (a.length + 1) 0 a.length

/-! ### `linear_to_ssa` / `ssa_to_linear` -/

/-- pop the positions `cs` one after the other (`ids.pop(c)`); `none` = `IndexError` -/
def popMany {α : Type} : List α → List Nat → Option (List α × List α)
  | ids, [] => some ([], ids)
  | ids, c :: cs =>
    match ids[c]? with
    | none => none
    | some x =>
      match popMany (ids.eraseIdx c) cs with
      | none => none
      | some (xs, ids') => some (x :: xs, ids')

/-- default `N` (path_basic.py:798) -/
def defaultN (path : Path) : Nat := (path.map (·.length)).sum - path.length + 1

/-- the loop of `linear_to_ssa` (path_basic.py:803-807) -/
def linearToSsaLoop : List Nat → Nat → Path → Option Path
  | _, _, [] => some []
  | ids, ssa, con :: rest =>
    match popMany ids (sortDesc con) with
    | none => none
    | some (scon, ids') =>
      match linearToSsaLoop (ids' ++ [ssa]) (ssa + 1) rest with
      | none => none
      | some out => some (scon :: out)

def linearToSsa (n : Nat) (path : Path) : Option Path := linearToSsaLoop (List.range n) n path

/-- the loop of `ssa_to_linear` (path_basic.py:825-832) -/
def ssaToLinearLoop : List Nat → Nat → Path → Option Path
  | _, _, [] => some []
  | ids, ssa, scon :: rest =>
    let con := sortAsc (scon.map (bisectLeft ids))
    match popMany ids con.reverse with
    | none => none
    | some (_, ids') =>
      match ssaToLinearLoop (ids' ++ [ssa]) (ssa + 1) rest with
      | none => none
      | some out => some (con :: out)

def ssaToLinear (n : Nat) (path : Path) : Option Path := ssaToLinearLoop (List.range n) n path

/-! ### traversals -/

def ichildren : BT → List BT
  | .leaf _ => []
  | .node l r => (match l with | .leaf _ => [] | _ => [l]) ++ (match r with | .leaf _ => [] | _ => [r])

def isLeaf : BT → Bool
  | .leaf _ => true
  | _ => false

structure DfsState where
  ready : List BT          -- internal nodes added to `ready` (all leaves are ready from the start)
  queue : List BT          -- the stack, top = last element
  out : List BT

def isReady (s : DfsState) (x : BT) : Bool := isLeaf x || s.ready.contains x

/-- one iteration of the `while queue` loop of `_traverse_dfs` (core.py:1427-1441) -/
def dfsStep (s : DfsState) : DfsState :=
  match s.queue.getLast? with
  | none => s
  | some (.leaf _) => s      -- never happens: only internal nodes are pushed
  | some (.node l r) =>
    if isReady s l && isReady s r then
      { ready := .node l r :: s.ready, queue := s.queue.dropLast, out := s.out ++ [.node l r] }
    else
      let q1 := if isReady s r then s.queue else s.queue ++ [r]
      let q2 := if isReady s l then q1 else q1 ++ [l]
      { s with queue := q2 }

def dfsLoop : Nat → DfsState → DfsState
  | 0, s => s
  | f + 1, s => if s.queue.isEmpty then s else dfsLoop f (dfsStep s)

/-- `_traverse_dfs()` of a tree with at least two leaves: the parents, in yield order.
    Every internal node is pushed once and popped once and each iteration pushes or pops,
    so `3 * #internal` iterations are more than enough. -/
def traverseDfs (t : BT) : List BT :=
  (dfsLoop (3 * t.internal.length + 1) { ready := [], queue := [t], out := [] }).out

/-- insert an internal child into the scanned prefix (core.py:1458-1463): position
    `bisect(scores[:i], score)`, both lists in parallel -/
def insertChild (order : BT → Nat) (pre : List (BT × Nat)) (c : BT) : List (BT × Nat) :=
  let s := order c
  pre.insertIdx (bisectRight (pre.map (·.2)) s) (c, s)

/-- one sweep `i = 0 .. len(queue)` of `_traverse_ordered` (core.py:1451-1466).  Insertions
    happen at positions `≤ i` only, so the not yet scanned suffix `rest` is never touched and
    the index loop is a left-to-right scan with the scanned part `pre` as accumulator. -/
def sweep (order : BT → Nat) : List (BT × Nat) → List (BT × Nat) → List BT →
    List (BT × Nat) × List BT
  | pre, [], seen => (pre, seen)
  | pre, (x, sx) :: rest, seen =>
    if seen.contains x then sweep order (pre ++ [(x, sx)]) rest seen
    else sweep order ((ichildren x).foldl (insertChild order) pre ++ [(x, sx)]) rest (x :: seen)

/-- `while len(seen) != len(self.children)` (core.py:1450) -/
def orderedLoop (order : BT → Nat) (nchildren : Nat) : Nat → List (BT × Nat) → List BT →
    List (BT × Nat)
  | 0, q, _ => q
  | f + 1, q, seen =>
    if seen.length = nchildren then q
    else
      let r := sweep order [] q seen
      orderedLoop order nchildren f r.1 r.2

/-- `_traverse_ordered(order)`: the parents in yield order -/
def traverseOrdered (t : BT) (order : BT → Nat) : List BT :=
  ((orderedLoop order t.internal.length (t.internal.length + 1) [(t, order t)] []).map (·.1))

/-! ### tree → path -/

/-- `node_to_ssa[x]` / `pos[x]`: a leaf `{i}` has id `i`, an intermediate its recorded id -/
def nodeId (tab : List (BT × Nat)) : BT → Option Nat
  | .leaf i => some i
  | x => tab.lookup x

/-- loop of `get_ssa_path` (core.py:2758-2762) over the traversal `seq` -/
def getSsaPathLoop : List (BT × Nat) → Nat → List BT → Option Path
  | _, _, [] => some []
  | _, _, .leaf _ :: _ => none
  | tab, ssa, .node l r :: rest =>
    match nodeId tab l, nodeId tab r with
    | some a, some b =>
      match getSsaPathLoop ((.node l r, ssa) :: tab) (ssa + 1) rest with
      | some out => some (sortAsc [a, b] :: out)
      | none => none
    | _, _ => none

def getSsaPath (n : Nat) (seq : List BT) : Option Path := getSsaPathLoop [] n seq

/-- loop of `get_path` (core.py:2719-2732) -/
def getPathLoop : List (BT × Nat) → List Nat → Nat → List BT → Option Path
  | _, _, _, [] => some []
  | _, _, _, .leaf _ :: _ => none
  | tab, ssas, ssa, .node l r :: rest =>
    match nodeId tab l, nodeId tab r with
    | some a, some b =>
      let ij := sortAsc [bisectLeft ssas a, bisectLeft ssas b]
      match popMany ssas ij.reverse with
      | none => none
      | some (_, ssas') =>
        match getPathLoop ((.node l r, ssa) :: tab) (ssas' ++ [ssa]) (ssa + 1) rest with
        | some out => some (ij :: out)
        | none => none
    | _, _ => none

def getPath (n : Nat) (seq : List BT) : Option Path := getPathLoop [] (List.range n) n seq

/-! ### path → tree -/

/-- `contract_nodes(merge)` for one or two nodes: the node itself / the union (a new parent).
    A `frozenset` of leaves is kept as its sorted list.  Steps of three or more ids are
    completed by an optimizer and are outside this model. -/
def mergeNodes : List (List Nat) → Option (List Nat × Bool)
  | [x] => some (x, false)
  | [x, y] => some (sortAsc (x ++ y), true)
  | _ => none

/-- `nodes.pop(i)` on the dict `id ↦ node` of the ssa branch -/
def dictPop (d : List (Nat × List Nat)) (i : Nat) : Option (List Nat × List (Nat × List Nat)) :=
  match d.lookup i with
  | none => none
  | some x => some (x, d.filter (fun kv => kv.1 != i))

def dictPopMany : List (Nat × List Nat) → List Nat → Option (List (List Nat) × List (Nat × List Nat))
  | d, [] => some ([], d)
  | d, i :: is =>
    match dictPop d i with
    | none => none
    | some (x, d') =>
      match dictPopMany d' is with
      | none => none
      | some (xs, d'') => some (x :: xs, d'')

/-- ssa branch of `from_path` (core.py:543-550): the parents created, in order, and the
    nodes left at the end -/
def fromSsaLoop : List (Nat × List Nat) → Nat → Path → Option (List (List Nat) × List (List Nat))
  | d, _, [] => some ([], d.map (·.2))
  | d, ssa, p :: rest =>
    match dictPopMany d p with
    | none => none
    | some (merge, d') =>
      match mergeNodes merge with
      | none => none
      | some (x, isNew) =>
        match fromSsaLoop (d' ++ [(ssa, x)]) (ssa + 1) rest with
        | none => none
        | some (ps, left) => some (if isNew then x :: ps else ps, left)

def fromSsaPath (n : Nat) (path : Path) : Option (List (List Nat) × List (List Nat)) :=
  fromSsaLoop ((List.range n).map fun i => (i, [i])) n path

/-- linear branch of `from_path` (core.py:552-556) -/
def fromLinearLoop : List (List Nat) → Path → Option (List (List Nat) × List (List Nat))
  | nodes, [] => some ([], nodes)
  | nodes, p :: rest =>
    match popMany nodes (sortDesc p) with
    | none => none
    | some (merge, nodes') =>
      match mergeNodes merge with
      | none => none
      | some (x, isNew) =>
        match fromLinearLoop (nodes' ++ [x]) rest with
        | none => none
        | some (ps, left) => some (if isNew then x :: ps else ps, left)

def fromLinearPath (n : Nat) (path : Path) : Option (List (List Nat) × List (List Nat)) :=
  fromLinearLoop ((List.range n).map fun i => [i]) path

/-! ### certificate checker for a real traversal -/

def cfPrefix : List BT → List BT → Bool
  | _, [] => true
  | done, x :: rest =>
    (ichildren x).all done.contains && !done.contains x && cfPrefix (x :: done) rest

/-- accepts a sequence of nodes iff it lists every internal node of `t` exactly once and every
    internal child before its parent (sound: `C10.cfCheck_sound`) -/
def cfCheck (t : BT) (seq : List BT) : Bool :=
  seq.length == t.internal.length && t.internal.all seq.contains && cfPrefix [] seq

/-! ### `edge_path_to_ssa` (path_basic.py:835-892); python sets are duplicate-free lists -/

def setAdd (a : Nat) (l : List Nat) : List Nat := if l.contains a then l else l ++ [a]

structure EdgeState where
  indToSsas : List (Ix × List Nat)
  ssaToInds : List (Nat × List Ix)
  ssa : Nat
  path : Path          -- steps so far, in order

/-- `ind_to_ssas.setdefault(ix, set()).add(i)` (path_basic.py:860) -/
def initAddIx (i : Nat) (m : List (Ix × List Nat)) (ix : Ix) : List (Ix × List Nat) :=
  match m.lookup ix with
  | none => m ++ [(ix, [i])]
  | some _ => m.map fun kv => if kv.1 == ix then (kv.1, setAdd i kv.2) else kv

/-- body of the population loop for input `i` with indices `term` (path_basic.py:858-861) -/
def initStep (st : List (Ix × List Nat) × List (Nat × List Ix)) (it : List Ix × Nat) :
    List (Ix × List Nat) × List (Nat × List Ix) :=
  (it.1.foldl (initAddIx it.2) st.1, st.2 ++ [(it.2, it.1.eraseDups)])

/-- the population loop (path_basic.py:858-861) -/
def edgeInit (inputs : List (List Ix)) : EdgeState :=
  let r := (inputs.zip (List.range inputs.length)).foldl initStep ([], [])
  { indToSsas := r.1, ssaToInds := r.2, ssa := inputs.length, path := [] }

/-- body of the inner loop (path_basic.py:875-884) for one index `jx` of the contracted tensor
    `s`: if `jx` is still to be processed, `s` is replaced by the new id `ssa` in its set of
    carriers and `jx` joins the new term; `none` = `KeyError` of `jx_ssas.remove(s)` -/
def absorbIx (ssa s : Nat) (acc : List (Ix × List Nat) × List Ix) (jx : Ix) :
    Option (List (Ix × List Nat) × List Ix) :=
  match acc.1.lookup jx with
  | none => some acc
  | some set =>
    if set.contains s then
      some (acc.1.map (fun kv => if kv.1 == jx then (kv.1, setAdd ssa (kv.2.filter (· != s))) else kv),
            if acc.2.contains jx then acc.2 else acc.2 ++ [jx])
    else none

/-- the loops at path_basic.py:873-884 for one contracted id `s` (`ssa_to_inds.pop(s)`, then the
    indices of `s`); `none` = `KeyError` -/
def edgeAbsorb (ssa : Nat) (s : Nat) (acc : List (Ix × List Nat) × List (Nat × List Ix) × List Ix) :
    Option (List (Ix × List Nat) × List (Nat × List Ix) × List Ix) :=
  match acc.2.1.lookup s with
  | none => none
  | some inds =>
    (inds.foldl (fun o jx => o.bind (fun a => absorbIx ssa s a jx)) (some (acc.1, acc.2.2))).map
      fun r => (r.1, acc.2.1.filter (fun kv => kv.1 != s), r.2)

/-- one iteration of the main loop (path_basic.py:865-889) -/
def edgeStep (st : EdgeState) (ix : Ix) : Option EdgeState :=
  match st.indToSsas.lookup ix with
  | none => none                                   -- `ind_to_ssas.pop(ix)` raises KeyError
  | some scon =>
    let i2s := st.indToSsas.filter (fun kv => kv.1 != ix)
    if scon.length < 2 then some { st with indToSsas := i2s }
    else
      match (sortAsc scon).foldl (fun o s => o.bind (edgeAbsorb st.ssa s)) (some (i2s, st.ssaToInds, [])) with
      | none => none
      | some (i2s', s2i', term) =>
        some { indToSsas := i2s', ssaToInds := s2i' ++ [(st.ssa, term)], ssa := st.ssa + 1,
               path := st.path ++ [sortAsc scon] }

def edgePathToSsa (edgePath : List Ix) (inputs : List (List Ix)) : Option Path :=
  (edgePath.foldl (fun o ix => o.bind (fun st => edgeStep st ix)) (some (edgeInit inputs))).map (·.path)

/-- `ContractionTree.from_path(inputs, output, size_dict, edge_path=…)` (core.py:541-550): the edge
    path is converted by `edge_path_to_ssa(edge_path, inputs)` and handed, as it is, to the ssa
    branch.  Neither the output nor the sizes enter. -/
def fromEdgePath (edgePath : List Ix) (inputs : List (List Ix)) :
    Option (List (List Nat) × List (List Nat)) :=
  (edgePathToSsa edgePath inputs).bind (fromSsaPath inputs.length)

end Paths
end Cotengra
