/-
  C17 — gathering the results of tasks submitted to an executor pool (`parallel=<executor>`).

  `ContractionTree.subtree_reconfigure_forest` (cotengra/core.py:1975-2148), for an ordinary
  (non-scatter) pool:

      forest_futures = [submit(pool, _reconfigure_tree, **s) for s in saplings]
      forest = [f.result() for f in forest_futures]            # gather, SUBMISSION order
      res = [{"tree": t, **_get_tree_info(t)} for t in forest]
      res.sort(key=score)                                      # stable
      forest = [r["tree"] for r in res]                        # next round: forest[:num_keep]

  `parallel_temper_tree` (path_simulated_annealing.py:562-586: `trees = [f.result() for f in trees]`)
  and `RandomGreedyOptimizer.ssa_path` (path_basic.py:1497-1516:
  `min((f.result() for f in fs), key=lambda x: x[1])`) have the same shape.

  The pool is an argument; the order in which its workers *finish* is not.  Here:
    * `complete xs π` — what the pool holds once everything has finished: the result of task `i`
      (`xs[i]`) tagged with `i`, in completion order `π`;
    * `gatherSub n done` — `[f.result() for f in futures]`: look the futures up in submission order;
    * `gatherCompl done` — `[f.result() for f in as_completed(futures)]`;
    * `stableSort` — `list.sort(key=..)` (stable: among equal keys the earlier element stays first);
    * `forestRound` / `forestRun` — the restart rounds of the forest (saplings from the best
      `keep` trees, cyclically; results gathered, sorted, passed on).

  Core Lean only (driver op `c17.forest`).  Theorems: `Lemmas/GatherLemmas.lean`.
-/
namespace Cotengra.Gather

variable {α : Type}

/-- the finished futures of a pool, in completion order `π` (indices of the submitted tasks) -/
def complete (xs : List α) (π : List Nat) : List (Nat × α) := π.filterMap fun i => xs[i]?.map fun x => (i, x)

/-- `[f.result() for f in futures]` -/
def gatherSub (n : Nat) (done : List (Nat × α)) : List α := (List.range n).filterMap fun i => done.lookup i

/-- `[f.result() for f in as_completed(futures)]` -/
def gatherCompl (done : List (Nat × α)) : List α := done.map (·.2)

/-- insert `x` before the first element whose key is not smaller -/
def insertByKey (key : α → Nat) (x : α) : List α → List α
  | [] => [x]
  | y :: ys => if key x ≤ key y then x :: y :: ys else y :: insertByKey key x ys

/-- `list.sort(key=key)`: stable insertion sort (elements are inserted right to left, each before
    the first element with a key that is not smaller, so equal keys keep their order) -/
def stableSort (key : α → Nat) : List α → List α
  | [] => []
  | x :: xs => insertByKey key x (stableSort key xs)

/-- `itertools.cycle(l)` cut to `n` elements (`[]` for an empty `l`) -/
def cycleTake (l : List α) (n : Nat) : List α := (List.range n).filterMap fun j => l[j % l.length]?

/-- which gather the code uses -/
inductive Mode where
  | submission | completion
deriving DecidableEq, Repr

def gather (m : Mode) (xs : List α) (π : List Nat) : List α :=
  match m with
  | .submission => gatherSub xs.length (complete xs π)
  | .completion => gatherCompl (complete xs π)

/-- one restart round: `numTrees` saplings from the best `keep` trees (cyclically), sapling `j`
    reconfigured with its own sub-seed `seeds[j]` (drawn from the seeded generator: a function of
    the arguments), results gathered from the pool that finished in order `π`, sorted by score -/
def forestRound (m : Mode) (reconf : α → Nat → α) (score : α → Nat) (keep numTrees : Nat)
    (forest : List α) (seeds : List Nat) (π : List Nat) : List α :=
  let saplings := (cycleTake (forest.take keep) numTrees).zip seeds
  let results := saplings.map fun (t, sd) => reconf t sd
  stableSort score (gather m results π)

/-- all restart rounds; `rounds` = per round (sub-seeds, completion order of the pool) -/
def forestRun (m : Mode) (reconf : α → Nat → α) (score : α → Nat) (keep numTrees : Nat) :
    List α → List (List Nat × List Nat) → List α
  | forest, [] => forest
  | forest, (seeds, π) :: rest =>
      forestRun m reconf score keep numTrees (forestRound m reconf score keep numTrees forest seeds π) rest

/-- a completion order of `n` tasks: every task finishes -/
def ValidOrder (n : Nat) (π : List Nat) : Prop := ∀ i, i < n → i ∈ π

/-- the same, decidable (driver / examples) -/
def validOrder (n : Nat) (π : List Nat) : Bool := (List.range n).all fun i => π.contains i

end Cotengra.Gather
