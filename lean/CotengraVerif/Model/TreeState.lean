import CotengraVerif.Model.Stats

/-!
  The mutable `ContractionTree` as an abstract state machine (cotengra/core.py):
  structure (`children`), removed indices (`sliced_inds`), `multiplicity` and the incrementally
  tracked totals `_flops`, `_write`, `_sizes`, with the *primitive* mutators transcribed:

    * `contract_nodes_pair`            core.py:1264  (+ `_update_tracked` :1256)
    * `_remove_node`                   core.py:714
    * `remove_ind` (slice / project)   core.py:1607  (the delta edits at :1653-1668)
    * `restore_ind`                    core.py:1687

  Abstraction: per-node cached figures (`info[node]["legs"|"involved"|"size"|"flops"]`) are not
  stored; a getter is the from-scratch value of the node's leaf set (`sizeOf`, `flopsOf`), which is
  what a *coherent* cache returns. Whether the real caches are coherent is checked on every dump of
  the real tree by `Driver/C04.lean` (`c04.coherent`): that is the part of the truth that lives in
  the laziness of the Python getters.
-/
namespace Cotengra

/-- a tree node: its sorted list of leaves (the python `frozenset[int]`) -/
abbrev Node := List Nat

/-- some binary tree over the leaves `S` (any shape gives the same legs: L1) -/
def combOf : List Nat → BT
  | [] => .leaf 0
  | [i] => .leaf i
  | i :: j :: rest => .node (.leaf i) (combOf (j :: rest))

def insertSorted (a : Nat) : List Nat → List Nat
  | [] => [a]
  | b :: t => if a ≤ b then a :: b :: t else b :: insertSorted a t

/-- `x.union(y)` as a sorted list -/
def mergeNodes (x y : Node) : Node := x.foldr insertSorted y

/-- from-scratch figures of a node / a step, as functions of the network and the removed set -/
def figLegs (n : Net) (rm : List Ix) (p : Node) : Legs :=
  if p.length == n.inputs.length then n.rootLegs rm else n.legs rm (combOf p)

def figSize (n : Net) (rm : List Ix) (p : Node) : Nat := n.sizeOfLegs (figLegs n rm p)

def figInvolved (n : Net) (rm : List Ix) (l r : Node) : Legs :=
  Legs.union (n.legs rm (combOf l)) (n.legs rm (combOf r))

def figFlops (n : Net) (rm : List Ix) (l r : Node) : Nat := n.sizeOfLegs (figInvolved n rm l r)

structure TS where
  net : Net
  children : List (Node × Node × Node)
  rm : List Ix
  sliced : List Ix
  mult : Nat
  flops : Int
  write : Int
  sizes : List Nat
deriving Repr

namespace TS

def N (s : TS) : Nat := s.net.inputs.length

def legsOf (s : TS) (p : Node) : Legs := figLegs s.net s.rm p

def sizeOf (s : TS) (p : Node) : Nat := figSize s.net s.rm p

def involvedOf (s : TS) (l r : Node) : Legs := figInvolved s.net s.rm l r

def flopsOf (s : TS) (l r : Node) : Nat := figFlops s.net s.rm l r

def init (n : Net) : TS :=
  { net := n, children := [], rm := [], sliced := [], mult := 1, flops := 0, write := 0, sizes := [] }

def listMin (l : List Nat) : Nat := l.foldl min (l.headD 0)

/-- the 'heaviest subtree on the left' rule of `contract_nodes_pair` (core.py:1305-1318) -/
def orderPair (x y : Node) : Node × Node :=
  if x.length == y.length then
    -- sortx = -min(x) > sorty = -min(y)  ⇔  min x < min y
    if listMin x < listMin y then (x, y) else (y, x)
  else if x.length > y.length then (x, y) else (y, x)

def setChild (cs : List (Node × Node × Node)) (p l r : Node) : List (Node × Node × Node) :=
  if cs.any (fun e => e.1 == p) then cs.map (fun e => if e.1 == p then (p, l, r) else e)
  else cs ++ [(p, l, r)]

/-- `contract_nodes_pair(x, y)` with all three totals tracked -/
def contractPair (s : TS) (x y : Node) : TS :=
  let p := mergeNodes x y
  let lr := orderPair x y
  { s with children := setChild s.children p lr.1 lr.2,
           flops := s.flops + (s.flopsOf lr.1 lr.2 : Nat),
           write := s.write + (s.sizeOf p : Nat),
           sizes := s.sizeOf p :: s.sizes }

/-- `_remove_node(p)` for an internal node (a missing node is a `KeyError` in the real code) -/
def removeNode (s : TS) (p : Node) : Option TS :=
  match s.children.find? (fun e => e.1 == p) with
  | none => none
  | some (_, l, r) =>
    some { s with children := s.children.filter (fun e => !(e.1 == p)),
                  flops := s.flops - (s.flopsOf l r : Nat),
                  write := s.write - (s.sizeOf p : Nat),
                  sizes := s.sizes.erase (s.sizeOf p) }

/-- one iteration of the loop body of `remove_ind` for an internal node (core.py:1645-1668) -/
def removeIndNode (s : TS) (ix : Ix) (d : Nat) (acc : Int × Int × List Nat)
    (e : Node × Node × Node) : Int × Int × List Nat :=
  let (p, l, r) := e
  let (fl, wr, szs) := acc
  if !(s.involvedOf l r).has ix then acc
  else
    let oldF := s.flopsOf l r
    let newF := oldF / d
    let fl := fl + ((newF : Int) - oldF)
    if (s.legsOf p).has ix then
      let oldS := s.sizeOf p
      let newS := oldS / d
      (fl, wr + ((newS : Int) - oldS), newS :: szs.erase oldS)
    else (fl, wr, szs)

/-- `remove_ind(ix, project)`; `none` when already removed (`ValueError`) -/
def removeInd (s : TS) (ix : Ix) (project : Bool) : Option TS :=
  if s.rm.contains ix then none
  else
    let d := s.net.size ix
    let (fl, wr, szs) := s.children.foldl (s.removeIndNode ix d) (s.flops, s.write, s.sizes)
    some { s with rm := ix :: s.rm,
                  sliced := if project then s.sliced else ix :: s.sliced,
                  mult := if project then s.mult else s.mult * d,
                  flops := fl, write := wr, sizes := szs }

/-- `restore_ind(ix)`: every step that has `ix` on one of its operands (under the *new* removed
    set) is removed with its old figures and re-added with the new ones (core.py:1721-1724). -/
def restoreInd (s : TS) (ix : Ix) : Option TS :=
  if !s.rm.contains ix then none
  else
    let s' : TS := { s with rm := s.rm.filter (· != ix), sliced := s.sliced.filter (· != ix),
                            mult := if s.sliced.contains ix then s.mult / s.net.size ix else s.mult }
    let step := fun (acc : Int × Int × List Nat) (e : Node × Node × Node) =>
      let (p, l, r) := e
      let (fl, wr, szs) := acc
      if (s'.net.legs s'.rm (combOf l)).has ix || (s'.net.legs s'.rm (combOf r)).has ix then
        (fl - (s.flopsOf l r : Nat) + (s'.flopsOf l r : Nat),
         wr - (s.sizeOf p : Nat) + (s'.sizeOf p : Nat),
         s'.sizeOf p :: szs.erase (s.sizeOf p))
      else acc
    let (fl, wr, szs) := s.children.foldl step (s.flops, s.write, s.sizes)
    some { s' with flops := fl, write := wr, sizes := szs }

/-- `contract_stats()` of a tracked state -/
def stats (s : TS) : Int × Int × Nat :=
  ((s.mult : Int) * s.flops, (s.mult : Int) * s.write, Net.listMax s.sizes)

/-- the from-scratch totals the tracked fields are supposed to equal -/
def scratchFlops (s : TS) : Int := ((s.children.map fun e => s.flopsOf e.2.1 e.2.2).sum : Nat)
def scratchWrite (s : TS) : Int := ((s.children.map fun e => s.sizeOf e.1).sum : Nat)
def scratchSizes (s : TS) : List Nat := s.children.map fun e => s.sizeOf e.1

/-- primitive operations as data, for histories -/
inductive Op where
  | contract (x y : Node)
  | remove (p : Node)
  | removeInd (ix : Ix) (project : Bool)
  | restoreInd (ix : Ix)
deriving Repr

/-- one step; an operation the real code rejects leaves the state unchanged and is flagged -/
def step (s : TS) : Op → TS × Bool
  | .contract x y => (s.contractPair x y, true)
  | .remove p => match s.removeNode p with | some s' => (s', true) | none => (s, false)
  | .removeInd ix pr => match s.removeInd ix pr with | some s' => (s', true) | none => (s, false)
  | .restoreInd ix => match s.restoreInd ix with | some s' => (s', true) | none => (s, false)

def run (s : TS) (ops : List Op) : TS := ops.foldl (fun s o => (s.step o).1) s

/-- build the state of a complete tree by contracting children-first -/
def ofBT (n : Net) (t : BT) : TS :=
  let rec go (s : TS) : BT → TS × Node
    | .leaf i => (s, [i])
    | .node l r =>
      let (s1, x) := go s l
      let (s2, y) := go s1 r
      (s2.contractPair x y, mergeNodes x y)
  (go (init n) t).1

end TS
end Cotengra
