import CotengraVerif.Model.TreeState

/-!
  The per-node *cost caches* of `ContractionTree` (`info[node]["legs"|"involved"|"size"|"flops"]`)
  with the laziness of the real getters (cotengra/core.py:63 `cached_node_property`, :801-848), and
  `remove_ind` (core.py:1607) operating on them — the part that `Model/TreeState.lean` abstracts.

  A complete tree is given by its shape `T : BT`; its nodes are the subtrees of `T`, and the caches
  are keyed by subtree (for a fixed shape, subtrees and the python `frozenset` keys correspond one to
  one), in dict (insertion) order. Persistence of cost caches across *shape* changes is not modelled
  here (figures depend on the leaf set only — L1 — so it is harmless; recipes are in C02's model).
-/
namespace Cotengra

deriving instance DecidableEq for BT

structure NInfo where
  legs : Option Legs := none
  involved : Option Legs := none
  size : Option Nat := none
  flops : Option Nat := none
deriving Repr, Inhabited

abbrev Info := List (BT × NInfo)

namespace Info

def get (I : Info) (p : BT) : NInfo :=
  match I.find? (fun e => decide (e.1 = p)) with
  | some e => e.2
  | none => {}

/-- `info[p] = v`: in place if the key exists, else appended -/
def set (I : Info) (p : BT) (v : NInfo) : Info :=
  if I.any (fun e => decide (e.1 = p)) then I.map (fun e => if e.1 = p then (p, v) else e)
  else I ++ [(p, v)]

end Info

namespace Net

/-- `get_legs(node)` (core.py:801) with caching; the non-root internal case goes through
    `get_involved` (:816-818), which is cached too. Returns the new cache and the legs. -/
def getLegs (n : Net) (rm : List Ix) : Info → BT → Info × Legs
  | I, .leaf i =>
    match (I.get (.leaf i)).legs with
    | some L => (I, L)
    | none =>
      let L := n.leafLegs rm i
      (I.set (.leaf i) { I.get (.leaf i) with legs := some L }, L)
  | I, .node l r =>
    let p := BT.node l r
    match (I.get p).legs with
    | some L => (I, L)
    | none =>
      if p.leaves.length == n.inputs.length then
        let L := n.rootLegs rm
        (I.set p { I.get p with legs := some L }, L)
      else
        -- involved = self.get_involved(node)
        match (I.get p).involved with
        | some inv =>
          let L := n.keepOpen inv
          (I.set p { I.get p with legs := some L }, L)
        | none =>
          let (I1, Ll) := n.getLegs rm I l
          let (I2, Lr) := n.getLegs rm I1 r
          let inv := Legs.union Ll Lr
          let I3 := I2.set p { I2.get p with involved := some inv }
          let L := n.keepOpen inv
          (I3.set p { I3.get p with legs := some L }, L)

/-- `get_involved(node)` (core.py:827) for an internal node -/
def getInvolved (n : Net) (rm : List Ix) (I : Info) (l r : BT) : Info × Legs :=
  let p := BT.node l r
  match (I.get p).involved with
  | some inv => (I, inv)
  | none =>
    let (I1, Ll) := n.getLegs rm I l
    let (I2, Lr) := n.getLegs rm I1 r
    let inv := Legs.union Ll Lr
    (I2.set p { I2.get p with involved := some inv }, inv)

/-- `get_size(node)` (core.py:835) -/
def getSize (n : Net) (rm : List Ix) (I : Info) (t : BT) : Info × Nat :=
  match (I.get t).size with
  | some s => (I, s)
  | none =>
    let (I1, L) := n.getLegs rm I t
    let s := n.sizeOfLegs L
    (I1.set t { I1.get t with size := some s }, s)

/-- `get_flops(node)` (core.py:840) for an internal node -/
def getFlops (n : Net) (rm : List Ix) (I : Info) (l r : BT) : Info × Nat :=
  let p := BT.node l r
  match (I.get p).flops with
  | some f => (I, f)
  | none =>
    let (I1, inv) := n.getInvolved rm I l r
    let f := n.sizeOfLegs inv
    (I1.set p { I1.get p with flops := some f }, f)

end Net
end Cotengra

namespace Cotengra

/-- all four cost fields of an internal node -/
structure Full where
  legs : Legs
  involved : Legs
  size : Nat
  flops : Nat
deriving Repr

namespace Net

/-- the population at the top of the repaired `remove_ind` (core.py: `contract_stats()` then
    `get_involved` / `get_legs` for every node of `tree.children`), for one internal node -/
def fillNode (n : Net) (rm : List Ix) (I : Info) (l r : BT) : Info × Full :=
  let (I1, f) := n.getFlops rm I l r
  let (I2, z) := n.getSize rm I1 (.node l r)
  let (I3, inv) := n.getInvolved rm I2 l r
  let (I4, L) := n.getLegs rm I3 (.node l r)
  (I4, { legs := L, involved := inv, size := z, flops := f })

end Net

/-- the body of the `remove_ind` loop for an internal node whose four fields are cached
    (core.py:1651-1668): `ix` is the removed index, `d` its size -/
def removeIndFull (ix : Ix) (d : Nat) (x : Full) : Full :=
  if !x.involved.has ix then x
  else
    let x1 := { x with involved := x.involved.without ix, flops := x.flops / d }
    if x.legs.has ix then { x1 with legs := x.legs.without ix, size := x.size / d } else x1

end Cotengra
