import CotengraVerif.Model.Bmm

/-!
  Model of the einsum front end (transcribed from the code at HEAD):

  * `getSymbol`         — `utils.get_symbol`                       (utils.py:784-813)
  * `symbolMap`         — `utils.get_symbol_map`                   (utils.py:816-830)
  * `findOutputStr`     — `utils.find_output_str`                  (utils.py:1184-1207)
  * `findOutputFromInputs` — `utils.find_output_from_inputs`       (utils.py:1405-1434)
  * `canonicalize`      — `utils.canonicalize_inputs` (labels, output) (utils.py:1444-1515)
  * `convertInterleaved`— `utils.convert_from_interleaved`         (utils.py:1518-1533)
  * `checkEllipsis`, `parseEllipses` — `check_ellipsis`, `parse_equation_ellipses` (utils.py:1536-1617)
  * `singlePath`        — the single-operand fast paths of `_build_expression` (interface.py:584-621)
  * `nconOutput`        — `interface.ncon` (interface.py:1126-1137)

  `Cfg` selects, per repaired defect, between the code at HEAD (`false`) and the repaired code
  (`true`, see fixes/C12-*.patch); the harness determines the three flags from the behaviour of the
  code under /repo on three witnesses.

  Equations are lists of code points; arbitrary hashable labels are naturals (the harness numbers
  them injectively); an interleaved label is `none` for `Ellipsis`.
-/
namespace Cotengra.Front
open Cotengra Cotengra.FA Cotengra.Bmm

structure Cfg where
  /-- `parse_equation_ellipses` removes spaces first (fixes/C12-equation-spaces.patch) -/
  stripSpaces : Bool
  /-- an ellipsis that occurs in the output only stands for zero dimensions
      (fixes/C12-output-only-ellipsis.patch) -/
  outOnlyEllipsis : Bool
  /-- the interleaved form orders an implicit output by the labels themselves
      (fixes/C12-interleaved-implicit-output.patch) -/
  sortedImplicit : Bool
deriving Repr, BEq, DecidableEq

def Cfg.head : Cfg := ⟨false, false, false⟩
def Cfg.fixed : Cfg := ⟨true, true, true⟩

/-- `get_symbol(i)` as a code point -/
def getSymbol (i : Nat) : Nat :=
  if i < 26 then 97 + i
  else if i < 52 then 65 + (i - 26)
  else if i + 140 ≥ 55296 then i + 140 + 2048
  else i + 140

/-- `find_output_str(lhs)`: the symbols that occur exactly once, sorted -/
def findOutputStr (lhs : List Nat) : List Nat :=
  let tmp := lhs.filter (· != cComma)
  (sortIx (uniq tmp)).filter fun s => tmp.count s == 1

/-- one round of the loop of `find_output_from_inputs`: `(appeared, once)`; `once` is the
    insertion-ordered dict (`once.pop(ind, None)` / `once[ind] = None`) -/
def foStep (st : List Nat × List Nat) (ind : Nat) : List Nat × List Nat :=
  if st.1.contains ind then (st.1, st.2.filter (· != ind)) else (ind :: st.1, st.2 ++ [ind])

/-- `find_output_from_inputs(inputs)` -/
def findOutputFromInputs (inputs : List (List Nat)) : List Nat :=
  (inputs.flatten.foldl foStep ([], [])).2

/-- the `defaultdict` of `canonicalize_inputs`: label ↦ `get_symbol(rank of first appearance)`,
    over the labels of `seq` in order -/
def rankOf (seq : List Nat) (l : Nat) : Nat := (uniq seq).idxOf l

/-- `canonicalize_inputs(inputs, output)`: `(new_inputs, new_output)`.  With an explicit output the
    labels of the output that do not occur in any input are numbered after the inputs' labels. -/
def canonicalize (inputs : List (List Nat)) (output : Option (List Nat)) :
    List (List Nat) × List Nat :=
  match output with
  | some out =>
    let seq := inputs.flatten ++ out
    (inputs.map (·.map fun l => getSymbol (rankOf seq l)), out.map fun l => getSymbol (rankOf seq l))
  | none =>
    let seq := inputs.flatten
    let ni := inputs.map (·.map fun l => getSymbol (rankOf seq l))
    (ni, findOutputFromInputs ni)

/-! ### interleaved form -/

/-- `get_symbol_map(inputs)`: distinct non-`Ellipsis` labels in order of first appearance get
    `get_symbol(0), get_symbol(1), …`; `Ellipsis` maps to `"..."` -/
def realLabels (inputs : List (List (Option Nat))) : List Nat :=
  uniq (inputs.flatten.filterMap id)

def symOf (labels : List Nat) (l : Option Nat) : Option (List Nat) :=
  match l with
  | none => some [cDot, cDot, cDot]
  | some v => if labels.contains v then some [getSymbol (labels.idxOf v)] else none

inductive Err | value | key
deriving Repr, BEq, DecidableEq

def joinComma : List (List Nat) → List Nat
  | [] => []
  | [t] => t
  | t :: r => t ++ cComma :: joinComma r

/-- `convert_from_interleaved`: the equation string.  `KeyError` when the output uses a label that
    no input has.  With `sorted` (the repaired code) a missing output is made explicit: `...` if
    some input has an ellipsis, then the labels that occur once, sorted by the labels themselves. -/
def convertInterleaved (sorted : Bool) (inputs : List (List (Option Nat)))
    (output : Option (List (Option Nat))) : Except Err (List Nat) :=
  let labels := realLabels inputs
  let hasEll := inputs.flatten.contains none
  let term (t : List (Option Nat)) : Option (List Nat) :=
    (t.mapM (symOf labels)).map List.flatten
  match inputs.mapM term with
  | none => .error .key    -- cannot happen: every input label is in the map
  | some ts =>
    let lhs := joinComma ts
    match output with
    | none =>
      if sorted then
        let flat := inputs.flatten.filterMap id
        let once := sortIx ((uniq flat).filter fun l => flat.count l == 1)
        .ok (lhs ++ [cMinus, cGt] ++ (if hasEll then [cDot, cDot, cDot] else []) ++
          once.map fun l => getSymbol (labels.idxOf l))
      else .ok lhs
    | some o =>
      if o.contains none && !hasEll then .error .key
      else match term o with
        | none => .error .key
        | some ot => .ok (lhs ++ [cMinus, cGt] ++ ot)

/-! ### ellipses -/

/-- `check_ellipsis(term)` -/
def checkEllipsis (term : List Nat) : Except Err Bool :=
  let n := term.count cDot
  if n = 0 then .ok false
  else if n = 3 then
    if isInfix [cDot, cDot, cDot] term then .ok true else .error .value
  else .error .value

/-- `term.replace("...", repl)` for a term with exactly one ellipsis -/
def replaceEllipsis (repl : List Nat) : List Nat → List Nat
  | a :: b :: c :: r =>
    if a = cDot ∧ b = cDot ∧ c = cDot then repl ++ r else a :: replaceEllipsis repl (b :: c :: r)
  | l => l

/-- the `while len(ellipses_inds) < req` loop: the first `req` symbols `get_symbol(c)`, `c = c0,
    c0+1, …`, that are not in `used` (`fuel` bounds the number of candidates inspected) -/
def freshSyms (used : List Nat) : Nat → Nat → Nat → List Nat
  | 0, _, _ => []
  | _, _, 0 => []
  | req + 1, c, fuel + 1 =>
    if used.contains (getSymbol c) then freshSyms used (req + 1) (c + 1) fuel
    else getSymbol c :: freshSyms used req (c + 1) fuel

def maxList : List Nat → Nat
  | [] => 0
  | x :: r => max x (maxList r)

/-- number of indices each term's ellipsis stands for: `len(shape) - (len(term) - 3)` -/
def ellCounts (inputs : List (List Nat)) (ranks : List Nat) (flags : List Bool) : List (Option Nat) :=
  (inputs.zip (ranks.zip flags)).map fun (t, rk, f) => if f then some (rk - (t.length - 3)) else none

/-- the symbols chosen for the ellipsis dimensions -/
def ellSyms (inputs : List (List Nat)) (ks : List (Option Nat)) : List Nat :=
  let req := maxList (ks.filterMap id)
  freshSyms inputs.flatten req 0 (req + inputs.flatten.length)

/-- `inputs[i].replace("...", "".join(ellipses_inds[req - ne:]))` -/
def expandTerm (ell : List Nat) (req : Nat) (t : List Nat) (k : Option Nat) : List Nat :=
  match k with
  | some ne => replaceEllipsis (ell.drop (req - ne)) t
  | none => t

/-- the branch `if "." in lhs` of `parse_equation_ellipses`, after the terms have been checked -/
def expand (inputs : List (List Nat)) (ks : List (Option Nat)) (lhs : List Nat) (rhs : List (List Nat)) :
    Except Err (List (List Nat) × List Nat) :=
  let req := maxList (ks.filterMap id)
  let ell := ellSyms inputs ks
  let newInputs := (inputs.zip ks).map fun p => expandTerm ell req p.1 p.2
  match rhs with
  | o :: _ =>
    match checkEllipsis o with
    | .error e => .error e
    | .ok true => .ok (newInputs, replaceEllipsis ell o)
    | .ok false => .ok (newInputs, o)
  | [] => .ok (newInputs, ell ++ findOutputStr lhs)

/-- `parse_equation_ellipses(eq, shapes, tuples=True)` -/
def parseEllipses (cfg : Cfg) (eq0 : List Nat) (ranks : List Nat) :
    Except Err (List (List Nat) × List Nat) :=
  let eq := if cfg.stripSpaces then eq0.filter (· != cSpace) else eq0
  match splitArrow eq with
  | [] => .error .value
  | lhs :: rhs =>
    let inputs := splitComma lhs
    if inputs.length != ranks.length then .error .value
    else if lhs.contains cDot then
      -- which terms have an ellipsis (`ValueError` for malformed dots)
      match inputs.mapM checkEllipsis with
      | .error e => .error e
      | .ok flags => expand inputs (ellCounts inputs ranks flags) lhs rhs
    else
      match rhs with
      | o :: _ =>
        if cfg.outOnlyEllipsis then
          match checkEllipsis o with
          | .error e => .error e
          | .ok true => .ok (inputs, replaceEllipsis [] o)
          | .ok false => .ok (inputs, o)
        else .ok (inputs, o)
      | [] => .ok (inputs, findOutputStr lhs)

/-! ### single-operand fast paths of `_build_expression` -/

inductive SinglePath where
  | identity
  | transpose (perm : List Nat)
  | einsum
deriving Repr, BEq, DecidableEq

def singlePath (term output : List Nat) : SinglePath :=
  if term = output then .identity
  else if term.length = output.length then .transpose (output.map term.idxOf)
  else .einsum

/-- what a path computes, in the array model -/
def evalPath (term output : List Nat) (p : SinglePath) (x : FArr) : Option FArr :=
  match p with
  | .identity => some x
  | .transpose q => transpose q x
  | .einsum => some (einsum1 term output x)

/-- what the chosen path computes -/
def evalSinglePath (term output : List Nat) (x : FArr) : Option FArr :=
  evalPath term output (singlePath term output) x

/-- admissibility of a path for `term -> output` (the real code is free to take the general
    einsum path more often than HEAD does): returning the array needs `term = output`, a transpose
    needs equally many labels and the permutation `tuple(map(term.index, output))` -/
def pathOK (term output : List Nat) : SinglePath → Bool
  | .identity => term == output
  | .transpose q => term.length == output.length && q == output.map term.idxOf
  | .einsum => true

/-! ### ncon -/

/-- `sorted(set of negative labels, reverse=True)`: labels are integers -/
def insertDesc (x : Int) : List Int → List Int
  | [] => [x]
  | y :: ys => if y ≤ x then x :: y :: ys else y :: insertDesc x ys

def dedupInt : List Int → List Int
  | [] => []
  | x :: xs => x :: (dedupInt xs).filter (· != x)

def nconOutput (indices : List (List Int)) : List Int :=
  (dedupInt (indices.flatten.filter (· < 0))).foldr insertDesc []

end Cotengra.Front
