import CotengraVerif.Model.Net

/-!
  `MaxCounter` (cotengra/utils.py:210): a `collections.Counter` plus a cached maximum.
  `mx = none` is the python `-inf` of an empty counter.
-/
namespace Cotengra

structure MC where
  c : Legs            -- Counter: element ↦ count (> 0); `Legs` is the ordered dict of Model/Net
  mx : Option Nat
deriving Repr, DecidableEq

namespace MC

def empty : MC := { c := [], mx := none }

/-- python `max(self._c)`; `ValueError` on an empty counter becomes `none` (the code maps it to -inf) -/
def keyMax : List Nat → Option Nat
  | [] => none
  | a :: t => match keyMax t with
    | none => some a
    | some b => some (max a b)

/-- `add(x)`: `self._c[x] += 1; self._max_element = max(self._max_element, x)` -/
def add (m : MC) (x : Nat) : MC :=
  { c := m.c.add x 1,
    mx := match m.mx with | none => some x | some a => some (max a x) }

/-- set the count stored under an existing key -/
def setCount : Legs → Nat → Nat → Legs
  | [], _, _ => []
  | (k, v) :: t, x, c => if k = x then (k, c) :: t else (k, v) :: setCount t x c

/-- `discard(x)`; for an absent element `del self._c[x]` is a no-op (`Counter.__delitem__` does not
    raise) and the cached maximum is recomputed only if `x` was the maximum -/
def discard (m : MC) (x : Nat) : MC :=
  let cnt := m.c.get x
  if cnt ≤ 1 then
    let c' := m.c.without x
    { c := c', mx := if m.mx == some x then keyMax (Legs.keys c') else m.mx }
  else { c := setCount m.c x (cnt - 1), mx := m.mx }

def max (m : MC) : Option Nat := m.mx

/-- the multiset a counter stands for -/
def toList (m : MC) : List Nat := m.c.flatMap fun kv => List.replicate kv.2 kv.1

end MC
end Cotengra
