import CotengraVerif.Model.Path

/-!
  The state a `RandomGreedyOptimizer` keeps between calls (property C05), and what a *preset name*
  is bound to.

  * `State / init`   = `best_ssa_path`, `best_flops` after `__init__`
                       (cotengra/pathfinders/path_basic.py:1457-1458: `None`, `float("inf")`)
  * `ssaPath`        = the tail of `RandomGreedyOptimizer.ssa_path` (:1519-1523):
                       `if flops < self.best_flops: self.best_ssa_path, self.best_flops = ssa_path, flops`
                       then `return self.best_ssa_path` — the inner finder
                       (`optimize_random_greedy_track_flops`) is an oracle handing back `Found`
  * `Binding`        = what `register_preset(name, …)` stores for a name
                       (cotengra/__init__.py:277-383, presets.py:164-196, path_random.py:45):
                       a function that builds its optimizer inside the call, or one module-level
                       optimizer instance that serves every call
  * `answers`        = the answers a preset gives to a sequence of queries in one process

  The score is `log10(flops)` (a float) in the code; only its order is used, so `Nat` here.
  Core Lean only.
-/
namespace Cotengra
namespace BestSoFar
open Path

/-- what the inner finder hands back for the network it was asked about -/
structure Found where
  path : Path
  flops : Nat
deriving Repr, DecidableEq

/-- `best_ssa_path` (`none` = `None`) and `best_flops` (`none` = `float("inf")`) -/
structure State where
  bestPath : Option Path
  bestFlops : Option Nat
deriving Repr, DecidableEq

def init : State := ⟨none, none⟩

/-- `flops < self.best_flops` -/
def better (f : Nat) : Option Nat → Bool
  | none => true
  | some b => decide (f < b)

/-- `ssa_path()` after the inner search returned `q`: new state and the returned
    `self.best_ssa_path` -/
def ssaPath (s : State) (q : Found) : State × Option Path :=
  let s' : State := if better q.flops s.bestFlops then ⟨some q.path, some q.flops⟩ else s
  (s', s'.bestPath)

/-- what a preset name is bound to -/
inductive Binding where
  /-- a function (or `functools.partial` of one) that constructs the optimizer inside the call:
      `random_greedy_optimize`, `hyper_optimize`, … -/
  | freshPerCall
  /-- one module-level instance (or a bound method of one) serving every call -/
  | sharedInstance
deriving Repr, DecidableEq

/-- the shared instance run over a sequence of queries, starting in state `s` -/
def sharedAnswers : State → List Found → List (Option Path)
  | _, [] => []
  | s, q :: qs => let r := ssaPath s q; r.2 :: sharedAnswers r.1 qs

/-- the answers a preset gives to a sequence of queries made in one process -/
def answers : Binding → List Found → List (Option Path)
  | .freshPerCall, qs => qs.map fun q => (ssaPath init q).2
  | .sharedInstance, qs => sharedAnswers init qs

/-- states reached by the shared instance (for the comparison with the real object's
    `best_ssa_path / best_flops` after every call) -/
def sharedStates : State → List Found → List State
  | _, [] => []
  | s, q :: qs => let r := ssaPath s q; r.1 :: sharedStates r.1 qs

end BestSoFar
end Cotengra
