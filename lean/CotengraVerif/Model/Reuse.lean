import CotengraVerif.Model.Hyper

/-
  Small-step interleaving model of optimizer objects shared between queries and threads:

    * `ReusableOptimizer.search / _maybe_run_optimizer / _run_optimizer / hash_query / last_opt`
      (cotengra/reusable.py:141-143, 166-178, 231-289)
    * `AutoOptimizer.search / _get_optimizer_hyper_threadsafe` with and without caching
      (cotengra/presets.py:41-123)
    * the sub-optimizer is a `HyperOptimizer` whose driver-side state is `Hyper.HState`
      (Model/Hyper.lean); one sub-search folds a completion log into it with `Hyper.runLog`.

  One `step` of thread `t` = the code of `t` up to and including its next access to shared
  state (one dict read or write) — the granularity at which the GIL interleaves threads, under
  the assumption that single dict operations are atomic.  A schedule is a list of thread ids.
  Threads are a total function `Nat → Thread` (absent threads have an empty queue), so "any
  number of threads" needs no list bookkeeping.

  Built into the model (it is C05's business, not C16's): a trial function builds its tree over
  the inputs it is given (`stamp`), and `_reconstruct_tree(inputs, output, size_dict, con)` builds
  over the query's inputs.  The hash of a query is an arbitrary field `key` (collisions allowed).

  Core Lean only.
-/
namespace Cotengra
namespace Reuse
open Hyper

/-- a query `(inputs, output, size_dict)` -/
structure Query where
  /-- identity of the contraction -/
  net : Nat
  /-- `hash_query(inputs, output, size_dict)[0]` -/
  key : Nat
  /-- `estimate_optimal_hardness(inputs) >= optimal_cutoff` (AutoOptimizer only) -/
  hard : Bool
deriving DecidableEq, Repr, Inhabited

/-- a cache entry `{"path", "score", "sliced_inds"}`; `origin` is a ghost: the contraction whose
    search produced the path -/
structure Con where
  score : Score
  origin : Nat
deriving DecidableEq, Repr, Inhabited

inductive Overwrite where
  | no | yes | improved
deriving DecidableEq, Repr

/-- one `ReusableOptimizer` object -/
structure RState where
  /-- `_suboptimizers[thread id]` -/
  subopts : Nat → Option HState
  /-- `_cache[h]` -/
  cache : Nat → Option Con

def RState.empty : RState := { subopts := fun _ => none, cache := fun _ => none }

inductive Mode where
  /-- one `Reusable*Optimizer` shared by all threads -/
  | reusable
  /-- `AutoOptimizer(cache=True)`: a `ReusableHyperOptimizer` per thread id -/
  | autoCached
  /-- `AutoOptimizer(cache=False)`: a `HyperOptimizer` per thread id -/
  | autoPlain
deriving DecidableEq, Repr

/-- where a thread stands inside `search(q)` -/
inductive PC where
  | idle
  /-- `_get_optimizer_hyper_threadsafe()` returned (AutoOptimizer, hard query) -/
  | gotOpt (q : Query)
  /-- `hash_query` returned -/
  | hashed (q : Query) (missing : Bool)
  /-- `opt.search(...)` returned a tree inside `_run_optimizer`; `opt` not stored yet -/
  | ran (q : Query) (missing : Bool) (opt : HState)
  /-- `_suboptimizers[tid] = opt` done, tree deconstructed into `con` -/
  | stored (q : Query) (missing : Bool) (con : Con)
  /-- `overwrite='improved'`: `old_con = self._cache[h]` read -/
  | compare (q : Query) (con old : Con)
  /-- `_maybe_run_optimizer` is about to return `(searched, con)` -/
  | have (q : Query) (searched : Bool) (con : Con)

structure Thread where
  /-- queries still to be asked, in order -/
  queue : List Query := []
  pc : PC := .idle
  /-- (query, contraction of the returned tree | none = the call raised), oldest first -/
  results : List (Query × Option Nat) := []
  /-- number of sub-optimizer searches started by this thread (index into the oracle) -/
  nsearch : Nat := 0

structure Cfg where
  mode : Mode
  overwrite : Overwrite := .no
  cacheOnly : Bool := false
  /-- `AutoOptimizer(cache=False)`: is a fresh `HyperOptimizer` used for every call (`true`, the
      repaired code) or the per-thread one re-used with its records (`false`, the code as found)? -/
  freshPlain : Bool := true
  /-- oracle: completion log of the `i`-th sub-search of thread `t` (scores, failures, order) -/
  trials : Nat → Nat → Log
  /-- which Reusable object thread `t` talks to: constantly 0 for one shared `Reusable*Optimizer`,
      the identity for `AutoOptimizer(cache=True)` (one `ReusableHyperOptimizer` per thread id);
      the theorems hold for every assignment -/
  objOf : Nat → Nat := fun _ => 0

structure Sys where
  /-- the Reusable objects, indexed by `Cfg.objOf` -/
  objs : Nat → RState
  /-- `AutoOptimizer(cache=False)._hyperoptimizers_by_thread[tid]` (fresh if absent) -/
  plain : Nat → HState
  threads : Nat → Thread

/-- a trial function builds its tree over the inputs it was given -/
def stamp (q : Query) (log : Log) : Log :=
  log.map fun e => (e.1, { e.2 with tree := e.2.tree.map fun _ => q.net })

def updFn {α : Type} (f : Nat → α) (k : Nat) (v : α) : Nat → α :=
  fun i => if i = k then v else f i

/-- finish the current query of `th` with `res` -/
def Thread.finish (th : Thread) (q : Query) (res : Option Nat) : Thread :=
  { th with pc := .idle, results := th.results ++ [(q, res)] }

/-- what one step of a thread can touch: its own record, the Reusable object it talks to, its
    private non-caching sub-optimizer -/
structure Local where
  th : Thread
  r : RState
  pl : HState

/-- thread `t` runs up to and including its next shared access -/
def stepLocal (cfg : Cfg) (t : Nat) (th : Thread) (r : RState) (pl : HState) : Local :=
  match th.pc with
  | .idle =>
    match th.queue with
    | [] => ⟨th, r, pl⟩
    | q :: rest =>
      match cfg.mode with
      | .reusable =>
        -- search -> _maybe_run_optimizer -> hash_query: `h not in self._cache`
        ⟨{ th with queue := rest, pc := .hashed q (r.cache q.key).isNone }, r, pl⟩
      | _ =>
        if q.hard then
          -- `_get_optimizer_hyper_threadsafe()`: get or create `_hyperoptimizers_by_thread[tid]`
          ⟨{ th with queue := rest, pc := .gotOpt q }, r, pl⟩
        else
          -- optimal path, `ContractionTree.from_path(inputs, ...)`: no shared state
          ⟨({ th with queue := rest }).finish q (some q.net), r, pl⟩
  | .gotOpt q =>
    match cfg.mode with
    | .autoPlain =>
      -- `HyperOptimizer.search`: the object is private to this thread id
      let st1 := runLog (if cfg.freshPlain then HState.init else pl)
        (stamp q (cfg.trials t th.nsearch))
      ⟨({ th with nsearch := th.nsearch + 1 }).finish q st1.tree, r, st1⟩
    | _ => ⟨{ th with pc := .hashed q (r.cache q.key).isNone }, r, pl⟩
  | .hashed q missing =>
    if missing || cfg.overwrite != .no then
      if cfg.cacheOnly then
        ⟨th.finish q none, r, pl⟩                      -- KeyError("Contraction missing from cache.")
      else
        -- `_run_optimizer`: opt = fresh sub-optimizer; tree = opt.search(...)   (thread local)
        let opt := runLog HState.init (stamp q (cfg.trials t th.nsearch))
        match opt.tree with
        | none => ⟨({ th with nsearch := th.nsearch + 1 }).finish q none, r, pl⟩  -- KeyError('tree')
        | some _ => ⟨{ th with nsearch := th.nsearch + 1, pc := .ran q missing opt }, r, pl⟩
    else
      -- `con = self._cache[h]`
      match r.cache q.key with
      | none => ⟨th.finish q none, r, pl⟩
      | some con => ⟨{ th with pc := .have q false con }, r, pl⟩
  | .ran q missing opt =>
    -- `self._suboptimizers[thrid] = opt`; then deconstruct the tree
    ⟨{ th with pc := .stored q missing { score := opt.curBest, origin := (opt.tree).getD q.net } },
     { r with subopts := updFn r.subopts t (some opt) }, pl⟩
  | .stored q missing con =>
    if cfg.overwrite = .improved && !missing then
      -- `old_con = self._cache[h]`
      match r.cache q.key with
      | none => ⟨th.finish q none, r, pl⟩
      | some old => ⟨{ th with pc := .compare q con old }, r, pl⟩
    else
      -- `self._cache[h] = con`
      ⟨{ th with pc := .have q true con }, { r with cache := updFn r.cache q.key (some con) }, pl⟩
  | .compare q con old =>
    if slt con.score old.score then
      -- `self._cache[h] = con`
      ⟨{ th with pc := .have q true con }, { r with cache := updFn r.cache q.key (some con) }, pl⟩
    else
      -- use the old path: `_reconstruct_tree(inputs, output, size_dict, old_con)`
      ⟨th.finish q (some q.net), r, pl⟩
  | .have q searched _ =>
    if searched then
      -- `self.last_opt.tree`  =  `_suboptimizers.get(threading.get_ident()).tree`
      match r.subopts t with
      | none => ⟨th.finish q none, r, pl⟩              -- AttributeError on None
      | some opt => ⟨th.finish q opt.tree, r, pl⟩
    else
      -- `_reconstruct_tree(inputs, output, size_dict, con)`: built over the query's inputs
      ⟨th.finish q (some q.net), r, pl⟩

def step (cfg : Cfg) (s : Sys) (t : Nat) : Sys :=
  let l := stepLocal cfg t (s.threads t) (s.objs (cfg.objOf t)) (s.plain t)
  { objs := updFn s.objs (cfg.objOf t) l.r, plain := updFn s.plain t l.pl,
    threads := updFn s.threads t l.th }

def runSched (cfg : Cfg) (s : Sys) (sched : List Nat) : Sys := sched.foldl (step cfg) s

/-- all threads idle with the given queues, no object created yet -/
def Sys.start (queues : Nat → List Query) : Sys :=
  { objs := fun _ => RState.empty, plain := fun _ => HState.init,
    threads := fun t => { queue := queues t } }

end Reuse
end Cotengra
