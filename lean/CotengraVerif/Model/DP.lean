import CotengraVerif.Model.Net

/-!
  Executable model of the 'optimal' pathfinder
  (cotengra/pathfinders/path_basic.py):

  * `conCostFlops/Max/Size/Write/Combo/Limit`  = `compute_con_cost_*`            (:116-265)
  * `Objective.ofString`-style table            = `parse_minimize_for_optimal`    (:268-309)
  * `initLegs`                                  = `ContractionProcessor.__init__` (:345-363),
                                                   the sorted `(ix, 1)` legs of a term
  * `mergeLegs`                                 = the sorted simultaneous iteration (:681-711)
  * `tryPair / processK / processM / sweep / loop / dp`
                                                = `optimize_optimal_connected`    (:632-747)

  Tables are python dicts `subgraph bitmask -> (legs, score, path)`: association lists in
  insertion order, `upsert` = `d[k] = v` (in place when the key exists, else appended).
  The `path` component `(*ipath, *jpath, (subgraph_i, subgraph_j))` is kept as the binary tree it
  denotes (`Entry.tree`); `bitpath` prints it back in the code's format (post-order).

  Scores are naturals: `flops/max/size/write` are python ints. For `combo`/`limit` the code uses a
  float `factor` (64 or the parsed decimal, e.g. "combo-0.5", "limit-64.25"). A factor `num/den` is
  modelled with every score **scaled by `den`**: step cost `den·flops + num·size` resp.
  `max(den·flops, num·size)`, and the caller scales the initial `cost_cap` by `den` as well. Since
  the loop only adds scores, compares them with the cap, and doubles the cap, the scaled run takes
  exactly the branches of the unscaled one (`x > c ⇔ den·x > den·c`); `den = 1` is the literal
  code for an integer factor. Float arithmetic is assumed exact (dyadic factors, values < 2^53).

  Core Lean only (the compiled driver links this file).
-/
namespace Cotengra
namespace DP

/-- the objectives accepted by `parse_minimize_for_optimal` (:268-309). -/
inductive Objective where
  | flops | max | size | write
  | combo (num den : Nat)     -- flops + (num/den)·write, scaled by den
  | limit (num den : Nat)     -- max(flops, (num/den)·write) per step, scaled by den
deriving Repr, DecidableEq, Inhabited

/-! ## `compute_con_cost_*`: each loops over `temp_legs` backwards (`foldr` visits the last
    element first), deleting the contracted indices in place. Result = (legs left, score). -/

/-- `compute_con_cost_flops` (:116-135) -/
def conCostFlops (g : Net) (temp : Legs) (iscore jscore : Nat) : Legs × Nat :=
  let r := temp.foldr (fun kv (acc : Legs × Nat) =>
    let cost := acc.2 * g.size kv.1
    if kv.2 = g.app kv.1 then (acc.1, cost) else (kv :: acc.1, cost)) ([], 1)
  (r.1, iscore + jscore + r.2)

/-- `compute_con_cost_max` (:138-157) -/
def conCostMax (g : Net) (temp : Legs) (iscore jscore : Nat) : Legs × Nat :=
  let r := temp.foldr (fun kv (acc : Legs × Nat) =>
    let cost := acc.2 * g.size kv.1
    if kv.2 = g.app kv.1 then (acc.1, cost) else (kv :: acc.1, cost)) ([], 1)
  (r.1, Nat.max (Nat.max iscore jscore) r.2)

/-- `compute_con_cost_size` (:160-179) -/
def conCostSize (g : Net) (temp : Legs) (iscore jscore : Nat) : Legs × Nat :=
  let r := temp.foldr (fun kv (acc : Legs × Nat) =>
    if kv.2 = g.app kv.1 then (acc.1, acc.2) else (kv :: acc.1, acc.2 * g.size kv.1)) ([], 1)
  (r.1, Nat.max (Nat.max iscore jscore) r.2)

/-- `compute_con_cost_write` (:182-202) -/
def conCostWrite (g : Net) (temp : Legs) (iscore jscore : Nat) : Legs × Nat :=
  let r := temp.foldr (fun kv (acc : Legs × Nat) =>
    if kv.2 = g.app kv.1 then (acc.1, acc.2) else (kv :: acc.1, acc.2 * g.size kv.1)) ([], 1)
  (r.1, iscore + jscore + r.2)

/-- the loop shared by `compute_con_cost_combo` / `_limit` (:219-230, :251-262):
    state (legs, cost, size) -/
def scanBoth (g : Net) (temp : Legs) : Legs × Nat × Nat :=
  temp.foldr (fun kv (acc : Legs × Nat × Nat) =>
    let d := g.size kv.1
    let cost := acc.2.1 * d
    if kv.2 = g.app kv.1 then (acc.1, cost, acc.2.2) else (kv :: acc.1, cost, acc.2.2 * d))
    ([], 1, 1)

/-- `compute_con_cost_combo` (:205-232) -/
def conCostCombo (g : Net) (num den : Nat) (temp : Legs) (iscore jscore : Nat) : Legs × Nat :=
  let r := scanBoth g temp
  (r.1, iscore + jscore + (den * r.2.1 + num * r.2.2))

/-- `compute_con_cost_limit` (:235-265) -/
def conCostLimit (g : Net) (num den : Nat) (temp : Legs) (iscore jscore : Nat) : Legs × Nat :=
  let r := scanBoth g temp
  (r.1, iscore + jscore + Nat.max (den * r.2.1) (num * r.2.2))

/-- `compute_con_cost = parse_minimize_for_optimal(minimize)` -/
def conCost (g : Net) : Objective → Legs → Nat → Nat → Legs × Nat
  | .flops => conCostFlops g
  | .max => conCostMax g
  | .size => conCostSize g
  | .write => conCostWrite g
  | .combo p q => conCostCombo g p q
  | .limit p q => conCostLimit g p q

/-! ## legs of the processor's nodes -/

/-- python tuple order on `(ix, count)` -/
def legLt (a b : Ix × Nat) : Bool := a.1 < b.1 || (a.1 == b.1 && a.2 < b.2)

def insertLeg (x : Ix × Nat) : Legs → Legs
  | [] => [x]
  | y :: t => if legLt y x then y :: insertLeg x t else x :: y :: t

/-- `legs.sort()` -/
def sortLegs : Legs → Legs
  | [] => []
  | x :: t => insertLeg x (sortLegs t)

/-- `self.nodes[i]` after `ContractionProcessor.__init__` (:345-363): one `(ix, 1)` per
    occurrence, sorted. (The processor renames indices by first appearance; the harness sends
    networks already numbered that way.) -/
def initLegs (g : Net) (i : Nat) : Legs := sortLegs ((g.term i).map fun ix => (ix, 1))

/-- inner loop of the sorted simultaneous iteration for a fixed head `x` of `ilegs` -/
def mergeStep (x : Ix × Nat) (a : Legs) (ma : Legs → Legs × Bool) : Legs → Legs × Bool
  | [] => (x :: a, false)
  | y :: b =>
    if x.1 < y.1 then
      let r := ma (y :: b); (x :: r.1, r.2)
    else if y.1 < x.1 then
      let r := mergeStep x a ma b; (y :: r.1, r.2)
    else
      let r := ma b; ((x.1, x.2 + y.2) :: r.1, true)

/-- (:681-711) merged `new_legs` (counts of shared indices added, nothing removed yet) and whether
    a shared index was met (`skip_because_outer` was reset). -/
def mergeLegs : Legs → Legs → Legs × Bool
  | [], b => (b, false)
  | x :: a, b => mergeStep x a (mergeLegs a) b

/-! ## tables -/

structure Entry where
  legs : Legs
  score : Nat
  tree : BT
deriving Repr, Inhabited

/-- `dict[subgraph] = (legs, score, path)` in insertion order -/
abbrev Table := List (Nat × Entry)

namespace Table

def get? : Table → Nat → Option Entry
  | [], _ => none
  | (k', e) :: t, k => if k' = k then some e else get? t k

/-- `d[k] = e` -/
def upsert : Table → Nat → Entry → Table
  | [], k, e => [(k, e)]
  | (k', e') :: t, k, e => if k' = k then (k, e) :: t else (k', e') :: upsert t k e

end Table

/-- bitmask of a set of term positions: `1 << i` or-ed together -/
def maskOf (ls : List Nat) : Nat := ls.foldr (fun i m => (1 <<< i) ||| m) 0

/-- the code's `path` component: post-order list of `(subgraph_i, subgraph_j)` -/
def bitpath : BT → List (Nat × Nat)
  | .leaf _ => []
  | .node l r => bitpath l ++ bitpath r ++ [(maskOf l.leaves, maskOf r.leaves)]

/-- body of the pair loop (:673-737) -/
def tryPair (g : Net) (obj : Objective) (outer : Bool) (cap : Nat) (tm : Table)
    (a b : Nat × Entry) : Table :=
  if a.1 &&& b.1 ≠ 0 then tm            -- subgraphs overlap
  else
    let mg := mergeLegs a.2.legs b.2.legs
    if !outer && !mg.2 then tm          -- skip_because_outer
    else
      let cs := conCost g obj mg.1 a.2.score b.2.score
      if cs.2 > cap then tm             -- sieve
      else
        let s := a.1 ||| b.1
        let e : Entry := ⟨cs.1, cs.2, .node a.2.tree b.2.tree⟩
        match tm.get? s with
        | none => tm.upsert s e
        | some cur => if cs.2 < cur.score then tm.upsert s e else tm

/-- `itertools.product(xs, ys)` -/
def product {α β} (xs : List α) (ys : List β) : List (α × β) :=
  xs.flatMap fun x => ys.map fun y => (x, y)

/-- `itertools.combinations(xs, 2)` -/
def pairs2 {α} : List α → List (α × α)
  | [] => []
  | x :: t => t.map (fun y => (x, y)) ++ pairs2 t

def tab (tabs : List Table) (k : Nat) : Table := tabs.getD k []

/-- one value of `k` (:659-737) -/
def processK (g : Net) (obj : Objective) (outer : Bool) (cap : Nat) (tabs : List Table)
    (m : Nat) (tm : Table) (k : Nat) : Table :=
  let ps := if k ≠ m - k then product (tab tabs k) (tab tabs (m - k)) else pairs2 (tab tabs k)
  ps.foldl (fun tm p => tryPair g obj outer cap tm p.1 p.2) tm

/-- one value of `m` (:656-737); `contractions_m` is updated in place -/
def processM (g : Net) (obj : Objective) (outer : Bool) (cap : Nat) (tabs : List Table)
    (m : Nat) : List Table :=
  tabs.set m ((List.range' 1 (m / 2)).foldl (processK g obj outer cap tabs m) (tab tabs m))

/-- one pass of the `for m in range(2, nterms + 1)` loop with the current `cost_cap` -/
def sweep (g : Net) (obj : Objective) (outer : Bool) (cap : Nat) (n : Nat)
    (tabs : List Table) : List Table :=
  (List.range' 2 (n - 1)).foldl (processM g obj outer cap) tabs

/-- `while not contractions[nterms]: sweep; cost_cap *= 2`, with fuel for totality.
    Returns the final tables and the final cap. -/
def loop (g : Net) (obj : Objective) (outer : Bool) (n : Nat) :
    Nat → Nat → List Table → Option (List Table × Nat)
  | 0, cap, tabs => if (tab tabs n).isEmpty then none else some (tabs, cap)
  | fuel + 1, cap, tabs =>
    if (tab tabs n).isEmpty then loop g obj outer n fuel (cap * 2) (sweep g obj outer cap n tabs)
    else some (tabs, cap)

/-- `contractions` before the loop (:642-653), for `where = [0, …, n-1]` -/
def initTabs (g : Net) (n : Nat) : List Table :=
  ([] : Table) :: ((List.range n).map fun i => (1 <<< i, (⟨initLegs g i, 0, .leaf i⟩ : Entry)))
    :: List.replicate (n - 1) []

/-- `((_, _, bitpath),) = contractions[nterms].values()` -/
def single : Table → Option Entry
  | [(_, e)] => some e
  | _ => none

/-- `optimize_optimal_connected(where = all nodes, minimize, cost_cap, search_outer)` up to the
    final replay of the bit-path: the single entry of the full table. `none` = the fuel ran out
    (the real loop would still be running) or the unpacking would raise. -/
def dp (g : Net) (obj : Objective) (outer : Bool) (cap : Nat) (fuel : Nat) : Option Entry :=
  let n := g.inputs.length
  match loop g obj outer n fuel cap (initTabs g n) with
  | none => none
  | some (tabs, _) => single (tab tabs n)

/-- the replay (:743-747): bit-path -> ssa path through `termmap`; ids of new nodes are
    `ssa, ssa+1, …` (`contract_nodes`). Returns (id of the tree's root, next ssa, steps). -/
def ssaOfTree (ssa : Nat) : BT → Nat × Nat × List (Nat × Nat)
  | .leaf i => (i, ssa, [])
  | .node l r =>
    let (il, s1, pl) := ssaOfTree ssa l
    let (ir, s2, pr) := ssaOfTree s1 r
    (s2, s2 + 1, pl ++ pr ++ [(il, ir)])

/-! ## cost of a tree as `ContractionTree` reports it (core.py model of Model/Net.lean), used by
    the driver to price the *real* path. `Props/C09.lean` proves it equal to the leaf-set
    definition `treeCost`. -/

def combine : Objective → Nat → Nat → Nat → Nat → Nat
  | .flops, a, b, F, _ => a + b + F
  | .max, a, b, F, _ => Nat.max (Nat.max a b) F
  | .size, a, b, _, S => Nat.max (Nat.max a b) S
  | .write, a, b, _, S => a + b + S
  | .combo p q, a, b, F, S => a + b + (q * F + p * S)
  | .limit p q, a, b, F, S => a + b + Nat.max (q * F) (p * S)

def modelTreeCost (g : Net) (obj : Objective) : BT → Nat
  | .leaf _ => 0
  | .node l r => combine obj (modelTreeCost g obj l) (modelTreeCost g obj r)
      (g.nodeFlops [] (.node l r)) (g.nodeSize [] (.node l r))

/-- does some step of the tree contract two operands without a common index? -/
def modelHasOuter (g : Net) : BT → Bool
  | .leaf _ => false
  | .node l r => modelHasOuter g l || modelHasOuter g r ||
      !((g.legs [] l).any fun kv => (g.legs [] r).has kv.1)

end DP
end Cotengra
