import CotengraVerif.Model.Bmm

/-!
  `planOK`: a decision procedure that accepts a plan `(eq_a, eq_b, new_shape_a, new_shape_b,
  new_shape_ab, perm_ab, pure_multiplication)` for an equation and shapes only if running it with
  `_do_contraction_via_bmm` computes the einsum — for *all* arrays of those shapes
  (`planOK_sound`, Lemmas/PlanOKSound.lean).  It executes the plan symbolically on *axis
  descriptors*: every axis of an intermediate array carries the row-major list of labels fused
  into it.  The harness runs it on the plans the *real* planner returns, so a planner that picks
  another, equally valid plan (another axis order, more reshapes, einsum instead of a transpose …)
  is still covered by the theorem, and a wrong plan is rejected.

  Core Lean only (runs in the compiled driver).
-/
namespace Cotengra.Bmm
open Cotengra Cotengra.FA

/-- element count of an axis that fuses the labels `g` -/
def gsz (sz : Ix → Nat) (g : List Ix) : Nat := prod (g.map sz)

/-- the labels of size ≠ 1 -/
def ntFilter (sz : Ix → Nat) (l : List Ix) : List Ix := l.filter fun i => sz i != 1

/-- labels after the preparation step (`None` / transpose tuple / `_einsum_single`) -/
def prepCheck (t : List Ix) (p : Prep) : Option (List Ix) :=
  match p with
  | .none => some t
  | .perm q => if isPermOf q t.length then some (q.map fun k => t.getD k 0) else none
  | .eins t' d => if t' = t && decide d.Nodup && d.all (has t) then some d else none

/-- shortest prefix of `labels` whose sizes multiply (from `acc`) to `n` -/
def takeProd (sz : Ix → Nat) : List Ix → Nat → Nat → List Ix × List Ix
  | [], _, _ => ([], [])
  | i :: r, n, acc =>
    if acc = n then ([], i :: r)
    else
      let p := takeProd sz r n (acc * sz i)
      (i :: p.1, p.2)

/-- a grouping of `labels` whose groups have the element counts `shape` (greedy; its result is
    *checked*, so the soundness of `planOK` does not depend on it) -/
def regroup (sz : Ix → Nat) : List Ix → List Nat → List (List Ix)
  | _, [] => []
  | labels, n :: rest =>
    let p := takeProd sz labels n 1
    p.1 :: regroup sz p.2 rest

/-- a reshape is fine if the new axes regroup the same non-trivial labels in the same order -/
def reshapeCheck (sz : Ix → Nat) (D : List (List Ix)) (s : Option (List Nat)) :
    Option (List (List Ix)) :=
  match s with
  | none => some D
  | some shape =>
    let D' := regroup sz D.flatten shape
    if D'.map (gsz sz) = shape && ntFilter sz D.flatten = ntFilter sz D'.flatten then some D'
    else none

def disjointB (a b : List Ix) : Bool := a.all fun i => !b.contains i

/-- `(…, K, C) @ (…, C, N)`: the contracted axes must fuse the same duplicate-free labels, which
    occur in no other axis; the result and the contracted labels -/
def matmulCheck (Da Db : List (List Ix)) : Option (List (List Ix) × List Ix) :=
  match Da, Db with
  | [K, C], [C', N] =>
    if C = C' && decide C.Nodup && disjointB K C && disjointB N C then some ([K, N], C) else none
  | [B, K, C], [B', C', N] =>
    if B = B' && C = C' && decide C.Nodup && disjointB B C && disjointB K C && disjointB N C then
      some ([B, K, N], C)
    else none
  | _, _ => none

def transposeCheck (D : List (List Ix)) (p : Option (List Nat)) : Option (List (List Ix)) :=
  match p with
  | none => some D
  | some q => if isPermOf q D.length then some (q.map fun k => D.getD k []) else none

/-- the final axes are the output labels, one per axis (labels of size 1 may come and go) -/
def finalCheck (sz : Ix → Nat) (D : List (List Ix)) (out : List Ix) : Bool :=
  D.length == out.length &&
    (D.zip out).all fun p => ntFilter sz p.1 == ntFilter sz [p.2]

/-- one axis per output label, present (`[o]`) or of length 1 (`[]`) -/
def padDescB (p : Ix → Bool) (out : List Ix) : List (List Ix) :=
  out.map fun o => if p o then [o] else []

/-- the pure-multiplication path: each operand is reshaped to one axis per output label (of
    length 1 where the operand does not carry the label non-trivially), then multiplied with
    broadcasting -/
def pureCheck (sz : Ix → Nat) (dA dB out : List Ix) (sA sB : Option (List Nat)) : Bool :=
  match sA, sB with
  | some shA', some shB' =>
    let pa := fun o => (ntFilter sz dA).contains o
    let pb := fun o => (ntFilter sz dB).contains o
    let Da := padDescB pa out
    let Db := padDescB pb out
    Da.map (gsz sz) == shA' && ntFilter sz dA == ntFilter sz Da.flatten &&
    Db.map (gsz sz) == shB' && ntFilter sz dB == ntFilter sz Db.flatten &&
    out.all fun o => pa o || pb o || sz o == 1
  | _, _ => false

/-- which non-trivial labels are summed where: contracted ones (`C`) are exactly those on both
    operands and not in the output; a label dropped by an operand's preparation is on that operand
    only and not in the output -/
def algebraCheck (sz : Ix → Nat) (aT bT out dA dB C : List Ix) : Bool :=
  ((aT ++ bT ++ C).all fun i =>
      sz i == 1 || (C.contains i == (aT.contains i && bT.contains i && !out.contains i))) &&
  (aT.all fun i => sz i == 1 || ((!dA.contains i) == (!bT.contains i && !out.contains i))) &&
  (bT.all fun i => sz i == 1 || ((!dB.contains i) == (!aT.contains i && !out.contains i)))

def planOK (aT bT out : List Ix) (shA shB : List Nat) (pl : Plan) : Bool :=
  let sz := szOf2 aT shA bT shB
  -- one positive size per label; the output is duplicate-free and drawn from the operands
  aT.length == shA.length && bT.length == shB.length &&
  (aT.zip shA).all (fun p => sz p.1 == p.2) && (bT.zip shB).all (fun p => sz p.1 == p.2) &&
  shA.all (fun d => decide (0 < d)) && shB.all (fun d => decide (0 < d)) &&
  decide out.Nodup && out.all (fun o => aT.contains o || bT.contains o) &&
  match prepCheck aT pl.eqA, prepCheck bT pl.eqB with
  | some dA, some dB =>
    if pl.pure then
      pureCheck sz dA dB out pl.shA pl.shB && algebraCheck sz aT bT out dA dB []
    else
      match reshapeCheck sz (dA.map fun i => [i]) pl.shA,
          reshapeCheck sz (dB.map fun i => [i]) pl.shB with
      | some Da, some Db =>
        match matmulCheck Da Db with
        | some (Dab, C) =>
          match reshapeCheck sz Dab pl.shAB with
          | some D1 =>
            match transposeCheck D1 pl.permAB with
            | some D2 => finalCheck sz D2 out && algebraCheck sz aT bT out dA dB C
            | none => false
          | none => false
        | none => false
      | _, _ => false
  | _, _ => false

end Cotengra.Bmm
