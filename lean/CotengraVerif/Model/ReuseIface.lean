import CotengraVerif.Model.Reuse

/-
  The path cache of the functional interface: `array_contract_path(..., optimize=<preset>,
  cache=True)` (cotengra/interface.py:227, 284-300).

      key = hash_contraction(inputs, output, size_dict, optimize)
      try:    path = _PATH_CACHE[key]
      except KeyError:
              path = _PATH_CACHE[key] = find_path(inputs, output, size_dict, optimize)

  `_PATH_CACHE` is one module-level dict shared by every caller and thread; `optimize` is a string
  preset (or an explicit path), i.e. the shared preset objects of presets.py sit behind
  `find_path`.  What `find_path` returns is an oracle here (`ICfg.inner`: the contraction the
  returned path was found for) — the isolation of that layer is `nested_path_isolation` /
  `presets_stateless`; this model adds the outer cache and its interleavings.

  The key: `interface.hash_contraction` returns the tuple `(inputs, output, size_dict items,
  optimize, kwargs)` itself and a dict compares full keys, so the key determines the contraction.
  The model keeps the key function explicit (`keyOf`) so that this premise is visible: the theorem
  assumes it separates contractions, the source fact `iface_key_is_full_tuple` discharges that
  for the code, `iface_key_collision_counterexample` shows what a lossy key (e.g. `hash(...)` of
  the tuple) would do.

  Core Lean only.
-/
namespace Cotengra
namespace ReuseIface
open Reuse

structure IQuery where
  /-- the contraction `(inputs, output, size_dict)` -/
  net : Nat
  /-- `optimize` (a string preset / tuple: hashable) -/
  preset : Nat
deriving DecidableEq, Repr, Inhabited

inductive IPC where
  | idle
  /-- `_PATH_CACHE[key]` raised `KeyError` -/
  | missed (q : IQuery)
  /-- `find_path(...)` returned a path found for contraction `path` -/
  | found (q : IQuery) (path : Nat)

structure IThread where
  queue : List IQuery := []
  pc : IPC := .idle
  /-- (query, contraction the returned path was found for), oldest first -/
  results : List (IQuery × Nat) := []
  /-- number of `find_path` calls this thread made -/
  ncalls : Nat := 0

structure ICfg where
  /-- `hash_contraction(inputs, output, size_dict, optimize)` -/
  keyOf : IQuery → Nat
  /-- the `i`-th `find_path` call of thread `t`: which contraction the returned path is for -/
  inner : Nat → Nat → IQuery → Nat

structure ISys where
  cache : Nat → Option Nat
  threads : Nat → IThread

def IThread.finish (th : IThread) (q : IQuery) (p : Nat) : IThread :=
  { th with pc := .idle, results := th.results ++ [(q, p)] }

/-- thread `t` runs up to and including its next access to `_PATH_CACHE` (or the `find_path`
    call, which does not touch it) -/
def istep (cfg : ICfg) (s : ISys) (t : Nat) : ISys :=
  let th := s.threads t
  match th.pc with
  | .idle =>
    match th.queue with
    | [] => s
    | q :: rest =>
      match s.cache (cfg.keyOf q) with
      | some p => { s with threads := updFn s.threads t (({ th with queue := rest }).finish q p) }
      | none => { s with threads := updFn s.threads t ({ th with queue := rest, pc := .missed q }) }
  | .missed q =>
    let th' : IThread := { th with pc := .found q (cfg.inner t th.ncalls q), ncalls := th.ncalls + 1 }
    { s with threads := updFn s.threads t th' }
  | .found q p =>
    -- `path = _PATH_CACHE[key] = find_path(...)`: the caller keeps its own result
    { cache := updFn s.cache (cfg.keyOf q) (some p),
      threads := updFn s.threads t (th.finish q p) }

def irun (cfg : ICfg) (s : ISys) (sched : List Nat) : ISys := sched.foldl (istep cfg) s

def ISys.start (queues : Nat → List IQuery) : ISys :=
  { cache := fun _ => none, threads := fun t => { queue := queues t } }

end ReuseIface
end Cotengra
