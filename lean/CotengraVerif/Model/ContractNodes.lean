import CotengraVerif.Model.Path

/-!
  `ContractionTree.contract_nodes` for three or more nodes (cotengra/core.py:1343-1399), with the
  inner path finder as an oracle, and the other pieces of path plumbing the finders share
  (property C05):

  * `stepLinearM / runLinearM`  — the list discipline of `Model/Path.lean` with a merge that may
    fail, the picked items handed over in the order the code builds them
    (`[temp_nodes.pop(i) for i in sorted(p, reverse=True)]`: descending positions)
  * `contractNodes`             — one node is returned as is, two are paired
    (`contract_nodes_pair`), three or more: `find_path(…, optimize=optimize)` on the legs of the
    nodes gives a linear path over them (`inner depth nodes`; depth 0 is the `optimize` argument,
    deeper levels the default the recursive call falls back to), the path is replayed with
    `contract_nodes` itself as the merge, and `(parent,) = temp_nodes` demands one node at the end
  * `shapeOfInner`              — the sub-optimizer `Model/Path.mergeBT` leaves open, as
    determined by an inner path finder
  * `ssaToLinear`               — `ssa_to_linear` (pathfinders/path_basic.py:821-843): `bisect_left`
    on the sorted list of live ids, positions sorted, popped from the back
  * `randomPath`                — `RandomOptimizer.__call__` (pathfinders/path_random.py:25-35) with
    the PRNG draws as an oracle

  Core Lean only.
-/
namespace Cotengra
namespace Path

def stepLinearM {α} (merge : List α → Option α) (items : List α) (p : Step) : Option (List α) :=
  if stepOK items.length p then
    let r := splitAt p items 0
    match merge r.1.reverse with
    | some m => some (r.2 ++ [m])
    | none => none
  else none

def runLinearM {α} (merge : List α → Option α) : List α → Path → Option (List α)
  | items, [] => some items
  | items, p :: rest =>
    match stepLinearM merge items p with
    | none => none
    | some items' => runLinearM merge items' rest

/-- `contract_nodes(nodes, optimize)`; `fuel` bounds the nesting of k-ary steps inside inner paths -/
def contractNodes (inner : Nat → List BT → Path) : Nat → Nat → List BT → Option BT
  | fuel, depth, xs =>
    match xs with
    | [] => none
    | [x] => some x
    | [x, y] => some (pairBT x y)
    | _ =>
      match fuel with
      | 0 => none
      | fuel + 1 =>
        match runLinearM (contractNodes inner fuel (depth + 1)) xs (inner depth xs) with
        | some [parent] => some parent
        | _ => none

/-- the arrangement of three or more subtrees that an inner path finder determines -/
def shapeOfInner (inner : Nat → List BT → Path) (xs : List BT) : BT :=
  (contractNodes inner 1 0 xs).getD (.leaf 0)

/-- `from_path(path=…, optimize=inner, autocomplete=…)` with steps of any arity (core.py:556-572):
    every step and the final completion are fresh top-level `contract_nodes` calls; the step hands
    the popped nodes over in descending position order, the completion the live list as it is -/
def fromLinearK (inner : Nat → List BT → Path) (N : Nat) (path : Path) (autocomplete : Bool) :
    Option (List BT) :=
  match runLinearM (contractNodes inner 1 0) (leafBTs N) path with
  | none => none
  | some items =>
    if items.length > 1 && autocomplete then (contractNodes inner 1 0 items).map fun t => [t]
    else some items

/-! ## `ssa_to_linear` -/

/-- `bisect.bisect_left(ids, s)` on an increasing list: the number of elements smaller than `s` -/
def bisectLeft (ids : List Nat) (s : Nat) : Nat := (ids.takeWhile (· < s)).length

/-- insertion into an increasing list (`con.sort()`) -/
def insertSorted (a : Nat) : List Nat → List Nat
  | [] => [a]
  | x :: t => if a ≤ x then a :: x :: t else x :: insertSorted a t

def sortNat : List Nat → List Nat
  | [] => []
  | a :: t => insertSorted a (sortNat t)

/-- `for j in reversed(con): ids.pop(j)` — `none` = `IndexError` -/
def popPositionsDesc (ids : List Nat) : List Nat → Option (List Nat)
  | [] => some ids
  | j :: rest => if j < ids.length then popPositionsDesc (ids.eraseIdx j) rest else none

structure S2L where
  ids : List Nat
  ssa : Nat
  out : Path

/-- one iteration of the loop of `ssa_to_linear` -/
def s2lStep (s : S2L) (scon : Step) : Option S2L :=
  let con := sortNat (scon.map (bisectLeft s.ids))
  match popPositionsDesc s.ids con.reverse with
  | none => none
  | some ids' => some ⟨ids' ++ [s.ssa], s.ssa + 1, s.out ++ [con]⟩

def s2lRun : S2L → Path → Option S2L
  | s, [] => some s
  | s, scon :: rest =>
    match s2lStep s scon with
    | none => none
    | some s' => s2lRun s' rest

/-- `ssa_to_linear(ssa_path, N)` -/
def ssaToLinear (N : Nat) (ssaPath : Path) : Option Path :=
  (s2lRun ⟨List.range N, N, []⟩ ssaPath).map (·.out)

/-! ## `RandomOptimizer` -/

/-- `RandomOptimizer.__call__`: for `Nrem = N-1, …, 1` a pair of distinct positions drawn from
    `0..Nrem` (the `while j == i` loop redraws; `draws` are the accepted pairs) -/
def randomPath (draws : List (Nat × Nat)) : Path := draws.map fun ij => [ij.1, ij.2]

/-- what the draws satisfy by construction of the loop, `n` being the number of tensors still in
    the list: `i = randint(0, n - 1)`, `j` redrawn until it differs from `i`; one pair per
    `Nrem = n - 1 ≥ 1`, none when one tensor is left -/
def drawsOK : Nat → List (Nat × Nat) → Bool
  | n, [] => n == 1
  | n, (i, j) :: rest =>
    decide (2 ≤ n) && i != j && decide (i < n) && decide (j < n) && drawsOK (n - 1) rest

end Path
end Cotengra
