import CotengraVerif.Model.Hyper

/-
  Worker-side model of a hyper-optimizer trial (cotengra/hyperoptimizers/hyper.py):

    * `applyWrapper`  = the common body of `SimulatedAnnealingTrialFn.__call__` (195-209),
                        `SlicedTrialFn.__call__` (175-192), `SlicedReconfTrialFn.__call__`
                        (241-267), `ReconfTrialFn.__call__` (212-238)
    * `setupStack`    = the nesting order built by `HyperOptimizer.setup` (538-557)
    * `ensureBasic`   = `ensure_basic_quantities_are_computed` (scoring.py:38-47)
    * `computeScore`  = `ComputeScore.__call__` (308-340)
    * `toTrial`       = the key reads of `_maybe_report_result` (`trial["flops"]`, … 599-603);
                        `none` models the `KeyError`

  The tree type `τ`, its `contract_stats` and the in-place post-processing steps are oracles.
  Core Lean only.
-/
namespace Cotengra
namespace Hyper

/-- `tree.contract_stats()` -/
structure CStats where
  flops : Nat
  write : Nat
  size : Nat
deriving DecidableEq, Repr, Inhabited

/-- the trial dict on the worker: `"tree"` plus optional keys -/
structure TDict (τ : Type) where
  tree : τ
  flops : Option Nat := none
  write : Option Nat := none
  size : Option Nat := none
  origFlops : Option Nat := none
  origWrite : Option Nat := none
  origSize : Option Nat := none
deriving Repr

inductive Wrapper where
  | anneal | slice | sliceReconf | reconf
deriving DecidableEq, Repr

/-- the oracles about trees: their statistics and what each post-processing step does to them
    (`none` = the step raises) -/
structure TreeOps (τ : Type) where
  stats : τ → CStats
  mutate : Wrapper → τ → Option τ

/-- `dict.setdefault(key, v)` on one optional key -/
def setdefault (o : Option Nat) (v : Nat) : Option Nat :=
  match o with
  | some x => some x
  | none => some v

/-- `base_trial_fn` through `TrialSetObjective`: `{"tree": tree}` -/
def baseDict {τ : Type} (t : τ) : TDict τ := { tree := t }

/-- one post-processing wrapper: record the original figures once, mutate the tree in place,
    overwrite `flops/write/size` with `tree.contract_stats()` -/
def applyWrapper {τ : Type} (ops : TreeOps τ) (w : Wrapper) (d : TDict τ) : Option (TDict τ) :=
  let st := ops.stats d.tree
  match ops.mutate w d.tree with
  | none => none
  | some tree' =>
    let st' := ops.stats tree'
    some { tree := tree',
           origFlops := setdefault d.origFlops st.flops,
           origWrite := setdefault d.origWrite st.write,
           origSize := setdefault d.origSize st.size,
           flops := some st'.flops, write := some st'.write, size := some st'.size }

/-- the wrappers in the order `setup` nests them (innermost first) -/
def setupStack (anneal slice sliceReconf reconf : Bool) : List Wrapper :=
  (if anneal then [Wrapper.anneal] else []) ++ (if slice then [Wrapper.slice] else []) ++
  (if sliceReconf then [Wrapper.sliceReconf] else []) ++ (if reconf then [Wrapper.reconf] else [])

/-- run a stack of wrappers, innermost first -/
def runStack {τ : Type} (ops : TreeOps τ) : List Wrapper → TDict τ → Option (TDict τ)
  | [], d => some d
  | w :: ws, d =>
    match applyWrapper ops w d with
    | none => none
    | some d' => runStack ops ws d'

/-- `ensure_basic_quantities_are_computed(trial)` -/
def ensureBasic {τ : Type} (ops : TreeOps τ) (d : TDict τ) : TDict τ :=
  if d.flops.isSome && d.write.isSome && d.size.isSome then d
  else
    let st := ops.stats d.tree
    { d with flops := setdefault d.flops st.flops, write := setdefault d.write st.write,
             size := setdefault d.size st.size }

/-- an objective: whether its `__call__` starts with `ensure_basic_quantities_are_computed`
    (source-derived, see Generated/FactsC08.lean) and the number it returns (`none` = raises;
    the value already includes `** score_compression` and the smudge) -/
structure Objective (τ : Type) where
  ensures : Bool
  value : TDict τ → Option Score

def Objective.call {τ : Type} (ops : TreeOps τ) (o : Objective τ) (d : TDict τ) :
    Option (TDict τ × Score) :=
  let d' := if o.ensures then ensureBasic ops d else d
  match o.value d' with
  | none => none
  | some sc => some (d', sc)

/-- what `ComputeScore.__call__` returns: `score` always present; the three figures are keys
    that may be missing (`none`), and hold `inf` (`some none`) in the failure record -/
structure RDict (τ : Type) where
  score : Score
  flops : Option Score
  write : Option Score
  size : Option Score
  tree : Option τ
deriving Repr

def failRec {τ : Type} : RDict τ :=
  { score := none, flops := some none, write := some none, size := some none, tree := none }

/-- outcome of the registered path function -/
inductive Raw (τ : Type) where
  | ok (t : τ)
  | badTrial
  | error
deriving Repr

inductive OnErr where
  | raise | warn | ignore
deriving DecidableEq, Repr

/-- `ComputeScore.__call__`; `none` = the exception propagates (`on_trial_error='raise'`).
    `postEnsure` = whether `ComputeScore.__call__` itself calls
    `ensure_basic_quantities_are_computed(trial)` after scoring (source-derived fact; `false` on
    the tree as found, `true` after the proposed repair of DESIGN 7f). -/
def computeScore {τ : Type} (ops : TreeOps τ) (ws : List Wrapper) (obj : Objective τ)
    (postEnsure : Bool) (onErr : OnErr) (raw : Raw τ) : Option (RDict τ) :=
  let onException : Option (RDict τ) := if onErr = .raise then none else some failRec
  match raw with
  | .badTrial => some failRec
  | .error => onException
  | .ok t =>
    match runStack ops ws (baseDict t) with
    | none => onException
    | some d =>
      match obj.call ops d with
      | none => onException
      | some (d', sc) =>
        let d'' := if postEnsure then ensureBasic ops d' else d'
        some { score := sc, flops := d''.flops.map some, write := d''.write.map some,
               size := d''.size.map some, tree := some d''.tree }

/-- the reads `trial["flops"]`, `trial["write"]`, `trial["size"]` of `_maybe_report_result`:
    `none` = `KeyError` -/
def toTrial {τ : Type} (idOf : τ → Nat) (r : RDict τ) : Option Trial :=
  match r.flops, r.write, r.size with
  | some f, some w, some s =>
    some { score := r.score, flops := f, write := w, size := s, tree := r.tree.map idOf }
  | _, _, _ => none

end Hyper
end Cotengra
