import CotengraVerif.Model.Stats
import CotengraVerif.Model.AssocList

/-!
  Model of `HyperGraph` (cotengra/hypergraph.py:26-338), `CompressedStatsTracker`
  (cotengra/scoring.py:339-429) and `ContractionTree.compressed_contract_stats`
  (cotengra/core.py:1079-1123).

  `nodes : dict[int, tuple[ix]]` and `edges : dict[ix, tuple[int]]` are association lists in
  insertion order; `frozenset(nodes)` keys are sorted duplicate-free lists; `unique(...)`
  (order-preserving de-duplication) is `dedup`. Lookups that raise `KeyError` in the real code make
  the operation return `none`.

  Core Lean only.
-/
namespace Cotengra

namespace HGu
/-- `unique(it)`: order preserving de-duplication -/
def dedup : List Nat → List Nat
  | [] => []
  | x :: t => x :: (dedup t).filter (· != x)

def insertSorted (x : Nat) : List Nat → List Nat
  | [] => [x]
  | y :: t => if x < y then x :: y :: t else if x = y then y :: t else y :: insertSorted x t

/-- `frozenset(l)` as a canonical list -/
def toSet (l : List Nat) : List Nat := l.foldl (fun acc x => insertSorted x acc) []
end HGu

open HGu AL

structure HG where
  nodes : List (Nat × List Ix)
  edges : List (Ix × List Nat)
  output : List Ix
  sizeDict : List (Ix × Nat)
  /-- `node_counter + 1` -/
  nextCand : Nat
deriving Repr, BEq

namespace HG

/-- `__init__` (hypergraph.py:60-77) for a list of inputs -/
def ofInputs (inputs : List (List Ix)) (output : List Ix) (sizes : List (Ix × Nat)) : HG :=
  let nodes := inputs.zipIdx.map (fun (term, i) => (i, term))
  let edges := nodes.foldl (fun ed (it : Nat × List Ix) =>
      it.2.foldl (fun ed e => set ed e (((get? ed e).getD []) ++ [it.1])) ed) []
  { nodes := nodes, edges := edges, output := output, sizeDict := sizes, nextCand := inputs.length }

def size (h : HG) (e : Ix) : Nat := (get? h.sizeDict e).getD 1

/-- `edges_size(es)` -/
def edgesSize (h : HG) (es : List Ix) : Nat := (es.map h.size).foldl (· * ·) 1

def getNode (h : HG) (i : Nat) : List Ix := (get? h.nodes i).getD []
def getEdge (h : HG) (e : Ix) : List Nat := (get? h.edges e).getD []

/-- `node_size(i)` -/
def nodeSize (h : HG) (i : Nat) : Nat := h.edgesSize (h.getNode i)

/-- `contract_pair_cost(i, j)` (:147-151): product over the *set* of edges of both nodes -/
def contractPairCost (h : HG) (i j : Nat) : Nat := h.edgesSize (dedup (h.getNode i ++ h.getNode j))

/-- `neighborhood_size(nodes)` (:137-145) -/
def neighborhoodSize (h : HG) (ns : List Nat) : Nat :=
  let nb := dedup (ns.flatMap fun n => (h.getNode n).flatMap fun e => h.getEdge e)
  (nb.map h.nodeSize).sum

/-- one iteration of the loop of `remove_node` over the node's edges; `none` = `KeyError`
    (`self.edges[e]` of a repeated, already deleted edge) -/
def removeNodeStep (i : Nat) (acc : Option (List (Ix × List Nat))) (e : Ix) :
    Option (List (Ix × List Nat)) :=
  match acc with
  | none => none
  | some ed =>
    match get? ed e with
    | none => none
    | some ns =>
      let ns' := ns.filter (· != i)
      some (if ns'.isEmpty then del ed e else set ed e ns')

/-- `remove_node(i)` (:257-264); `none` = `KeyError` -/
def removeNode (h : HG) (i : Nat) : Option (List Ix × HG) :=
  match get? h.nodes i with
  | none => none
  | some inds =>
    match inds.foldl (removeNodeStep i) (some h.edges) with
    | none => none
    | some ed => some (inds, { h with nodes := del h.nodes i, edges := ed })

/-- the `while self.node_counter in self.nodes` loop of `next_node` -/
def nextFree (nodes : List (Nat × List Ix)) : Nat → Nat → Nat
  | 0, c => c
  | f + 1, c => if has nodes c then nextFree nodes f (c + 1) else c

/-- `next_node()` (:235-241) -/
def nextNode (h : HG) : Nat × HG :=
  let c := nextFree h.nodes (h.nodes.length + 1) h.nextCand
  (c, { h with nextCand := c + 1 })

/-- `add_node(inds)` (:243-255) with `node=None` -/
def addNode (h : HG) (inds : List Ix) : Nat × HG :=
  let node := h.nextNode.1
  let h1 := h.nextNode.2
  let ed := inds.foldl (fun ed e => set ed e (((get? ed e).getD []) ++ [node])) h1.edges
  (node, { h1 with nodes := h1.nodes ++ [(node, inds)], edges := ed })

/-- `contract(i, j)` (:269-279) -/
def contract (h : HG) (i j : Nat) : Option (Nat × HG) :=
  match h.removeNode i with
  | none => none
  | some (ii, h1) =>
    match h1.removeNode j with
    | none => none
    | some (ij, h2) =>
      let keep := dedup ((ii ++ ij).filter fun e => has h2.edges e || h2.output.contains e)
      some (h2.addNode keep)

/-- `remove_edge(e)` (:266-270); the caller guarantees presence -/
def removeEdge (h : HG) (e : Ix) : HG :=
  let ns := h.getEdge e
  { h with nodes := h.nodes.map (fun (k, inds) => if ns.contains k then (k, inds.filter (· != e)) else (k, inds)),
           edges := del h.edges e }

/-- grouping of `compress` / `neighborhood_compress_cost`: edges (not in the output) by the set
    of nodes they are incident to, groups and members in first-seen order -/
def groupByIncidence (h : HG) (es : List Ix) : List (List Nat × List Ix) :=
  es.foldl (fun (acc : List (List Nat × List Ix)) e =>
    if h.output.contains e then acc else
    let key := toSet (h.getEdge e)
    if acc.any (fun g => g.1 == key) then
      acc.map (fun g => if g.1 == key then (g.1, g.2 ++ [e]) else g)
    else acc ++ [(key, [e])]) []

/-- `compress(chi, edges)` (:281-302) -/
def compress (h : HG) (chi : Nat) (es : List Ix) : HG :=
  (h.groupByIncidence (dedup es)).foldl (fun h g =>
    match g.2 with
    | keep :: d :: ds =>
      let newSize := h.edgesSize g.2
      let h' := (d :: ds).foldl removeEdge h
      { h' with sizeDict := set h'.sizeDict keep (min newSize chi) }
    | _ => h) h

/-- `neighborhood_compress_cost(chi, nodes)` (:153-186). The python loop rebinds `da` while it
    walks a `frozenset` of nodes, so for a bond above `chi` the figure depends on set iteration
    order; here nodes are walked in ascending order. (It is 0 whenever no bond exceeds `chi`, the
    only regime in which C20 speaks about flops.) -/
def neighborhoodCompressCost (h : HG) (chi : Nat) (ns : List Nat) : Nat :=
  let region := dedup (ns.flatMap h.getNode)
  let groups := (h.groupByIncidence region).filter (fun g => g.1 != toSet ns)
  groups.foldl (fun C g =>
    let da := h.edgesSize g.2
    if da > chi then
      (g.1.foldl (fun (st : Nat × Nat) node =>
        let outer := (h.getNode node).filter (fun e => !g.2.contains e)
        let db := h.edgesSize outer
        let lo := min st.2 db
        let hi := max st.2 db
        (st.1 + lo * lo * hi, lo)) (C, da)).1
    else C) 0

/-- `compute_contracted_inds(nodes)` (:304-313) -/
def computeContractedInds (h : HG) (ns : List Nat) : List Ix :=
  dedup ((ns.flatMap h.getNode).filter fun e =>
    ((h.getEdge e).any fun k => !ns.contains k) || h.output.contains e)

/-- `candidate_contraction_size(i, j, chi)` (:315-338) -/
def candidateContractionSize (h : HG) (i j : Nat) (chi : Option Nat) : Nat :=
  let newEs := h.computeContractedInds [i, j]
  match chi with
  | none => h.edgesSize newEs
  | some chi =>
    let groups := newEs.foldl (fun (acc : List (List Nat × List Ix)) e =>
      let key := toSet ((h.getEdge e).map fun k => if k = j then i else k)
      if acc.any (fun g => g.1 == key) then
        acc.map (fun g => if g.1 == key then (g.1, g.2 ++ [e]) else g)
      else acc ++ [(key, [e])]) []
    (groups.map fun g => min chi (h.edgesSize g.2)).foldl (· * ·) 1

end HG

/-- `CompressedStatsTracker` (scoring.py:339-429) -/
structure Tracker where
  chi : Nat
  flops : Nat
  maxSize : Nat
  peakSize : Int
  write : Nat
  totalSize : Int
  totalSizePostContract : Int
  contractedSize : Nat
  sizeChange : Int
  flopsChange : Nat
  /-- ghost field (not in the real tracker): the QR terms accumulated so far, so that the
      correspondence can compare `flops - qr` (see `neighborhoodCompressCost`) -/
  qr : Nat
deriving Repr, BEq, DecidableEq

namespace Tracker

/-- `__init__` (:353-375): the initial tensors contribute to size -/
def init (h : HG) (chi : Nat) : Tracker :=
  let szs := h.nodes.map (fun kv => h.nodeSize kv.1)
  let tot := szs.sum
  { chi := chi, flops := 0, maxSize := szs.foldl max 0, peakSize := tot, write := tot, totalSize := tot,
    totalSizePostContract := 0, contractedSize := 0, sizeChange := 0, flopsChange := 0, qr := 0 }

def preStep (t : Tracker) : Tracker := { t with sizeChange := 0, flopsChange := 0 }
def preCompress (t : Tracker) (h : HG) (ns : List Nat) : Tracker :=
  { t with sizeChange := t.sizeChange - h.neighborhoodSize ns,
           flopsChange := t.flopsChange + h.neighborhoodCompressCost t.chi ns,
           qr := t.qr + h.neighborhoodCompressCost t.chi ns }
def postCompress (t : Tracker) (h : HG) (ns : List Nat) : Tracker :=
  { t with sizeChange := t.sizeChange + h.neighborhoodSize ns }
def preContract (t : Tracker) (h : HG) (i j : Nat) : Tracker :=
  { t with sizeChange := t.sizeChange - ((h.nodeSize i + h.nodeSize j : Nat) : Int),
           flopsChange := t.flopsChange + h.contractPairCost i j }
def postContract (t : Tracker) (h : HG) (ij : Nat) : Tracker :=
  let cs := h.nodeSize ij
  { t with contractedSize := cs, sizeChange := t.sizeChange + cs,
           totalSizePostContract := t.totalSize + (t.sizeChange + cs) }
def postStep (t : Tracker) : Tracker :=
  { t with maxSize := max t.maxSize t.contractedSize,
           peakSize := max t.peakSize t.totalSizePostContract,
           totalSize := t.totalSize + t.sizeChange,
           flops := t.flops + t.flopsChange,
           write := t.write + t.contractedSize }

end Tracker

namespace HG

/-- the hypergraph after the `compress_late` branch (core.py:1104-1109) -/
def preHG (chi : Nat) (late : Bool) (h : HG) (li ri : Nat) : HG :=
  if late then
    let h1 := h.compress chi (h.getNode li)
    h1.compress chi (h1.getNode ri)
  else h

/-- the tracker after `update_pre_step` and the `compress_late` branch -/
def preTr (late : Bool) (tr : Tracker) (h hc : HG) (li ri : Nat) : Tracker :=
  if late then (tr.preStep.preCompress h [li, ri]).postCompress hc [li, ri] else tr.preStep

/-- the hypergraph after the early-compression branch (core.py:1115-1119) -/
def postHG (chi : Nat) (late : Bool) (h2 : HG) (pi : Nat) : HG :=
  if late then h2 else h2.compress chi (h2.getNode pi)

def postTr (late : Bool) (tr3 : Tracker) (h2 h3 : HG) (pi : Nat) : Tracker :=
  if late then tr3 else (tr3.preCompress h2 [pi]).postCompress h3 [pi]

/-- one iteration of the loop of `compressed_contract_stats` (core.py:1098-1121) -/
def statsStep (chi : Nat) (late : Bool) (st : Option (HG × Tracker)) (lr : Nat × Nat) :
    Option (HG × Tracker) :=
  match st with
  | none => none
  | some (h, tr) =>
    let h1 := preHG chi late h lr.1 lr.2
    let tr2 := (preTr late tr h h1 lr.1 lr.2).preContract h1 lr.1 lr.2
    match h1.contract lr.1 lr.2 with
    | none => none
    | some (pi, h2) =>
      let tr3 := tr2.postContract h2 pi
      let h3 := postHG chi late h2 pi
      some (h3, (postTr late tr3 h2 h3 pi).postStep)

/-- `compressed_contract_stats(chi, order, compress_late)`: `path` lists the contractions in
    traversal order as pairs of hypergraph node ids (leaves `0..N-1`, the k-th contraction creates
    node `N+k`) -/
def compressedStats (inputs : List (List Ix)) (output : List Ix) (sizes : List (Ix × Nat))
    (chi : Nat) (late : Bool) (path : List (Nat × Nat)) : Option (HG × Tracker) :=
  let h := ofInputs inputs output sizes
  path.foldl (statsStep chi late) (some (h, Tracker.init h chi))

end HG
end Cotengra
