import CotengraVerif.Model.Path

/-!
  The node / ssa-id bookkeeping of `ContractionProcessor` (cotengra/pathfinders/path_basic.py),
  with every *choice* (which nodes to contract, which term to simplify, sizes) left to the caller:

  * `pop`             = `pop_node`            (:410-424)  — `KeyError` ↦ `none`
  * `add`             = `add_node`            (:426-435)
  * `contract`        = `contract_nodes`      (:446-461)
  * `single`          = the body of `simplify_single_terms` (:477-483)
  * `chain`           = the loop of `simplify_scalars`      (:506-509)
  * `hadamardGroup`   = the loop of `simplify_hadamard`     (:522-527)
  * `greedyLoop`      = the queue loop of `optimize_greedy` (:604-628): candidates come from an
                        arbitrary stream, stale ones are skipped
  * `remaining`       = `optimize_remaining_by_size`        (:761-786) with an arbitrary size oracle

  The legs of the nodes only influence the choices, so the state keeps the live ids (dict order),
  the next ssa id and the emitted `ssa_path`.  Core Lean only.
-/
namespace Cotengra
namespace Processor
open Path

structure State where
  nodes : List Nat      -- keys of `self.nodes`, insertion order
  ssa : Nat
  path : Path           -- `self.ssa_path`
deriving Repr, DecidableEq

def init (N : Nat) : State := ⟨List.range N, N, []⟩

/-- `self.nodes.pop(i)` -/
def pop (s : State) (i : Nat) : Option State :=
  if s.nodes.contains i then some { s with nodes := s.nodes.erase i } else none

/-- `add_node`: the new node gets id `ssa` -/
def add (s : State) : State × Nat := ({ s with nodes := s.nodes ++ [s.ssa], ssa := s.ssa + 1 }, s.ssa)

/-- `contract_nodes(i, j)` -/
def contract (s : State) (i j : Nat) : Option (State × Nat) :=
  match pop s i with
  | none => none
  | some s1 =>
    match pop s1 j with
    | none => none
    | some s2 =>
      let (s3, k) := add s2
      some ({ s3 with path := s3.path ++ [[i, j]] }, k)

/-- one hit of `simplify_single_terms`: `pop_node(i)`, `add_node`, `ssa_path.append((i,))` -/
def single (s : State) (i : Nat) : Option State :=
  match pop s i with
  | none => none
  | some s1 =>
    let (s2, _) := add s1
    some { s2 with path := s2.path ++ [[i]] }

/-- contract `cur` with the next id, continue with the result -/
def chainFrom (s : State) (cur : Nat) : List Nat → Option State
  | [] => some s
  | b :: rest =>
    match contract s cur b with
    | none => none
    | some (s', k) => chainFrom s' k rest

/-- `for p in range(len(scalars) - 1): k = contract(scalars[p], scalars[p+1]); scalars[p+1] = k` -/
def chain (s : State) : List Nat → Option State
  | [] => some s
  | a :: rest => chainFrom s a rest

/-- `while len(group) > 1: i = group.pop(); j = group.pop(); group.append(contract(i, j))`:
    python pops from the end, so this is the same chain over the reversed group -/
def hadamardGroup (s : State) (group : List Nat) : Option State := chain s group.reverse

/-- the queue loop of `optimize_greedy` for an arbitrary candidate stream: a candidate whose
    nodes are not both live is skipped (:607-609) -/
def greedyLoop (s : State) : List (Nat × Nat) → State
  | [] => s
  | (i, j) :: rest =>
    if s.nodes.contains i && s.nodes.contains j then
      match contract s i j with
      | some (s', _) => greedyLoop s' rest
      | none => greedyLoop s rest        -- i = j: the real code would raise; never generated
    else greedyLoop s rest

/-- smallest `(size, id)` entry of the heap and the rest -/
def popMin : List (Nat × Nat) → Option ((Nat × Nat) × List (Nat × Nat))
  | [] => none
  | x :: t =>
    match popMin t with
    | none => some (x, [])
    | some (y, t') =>
      if x.1 < y.1 || (x.1 == y.1 && x.2 ≤ y.2) then some (x, t) else some (y, x :: t')

/-- the `while len(nodes_sizes) > 1` loop (:780-786); `sz` gives the size of a node id -/
def remainingLoop (sz : Nat → Nat) : Nat → State → List (Nat × Nat) → Option State
  | 0, s, heap => if heap.length ≤ 1 then some s else none
  | fuel + 1, s, heap =>
    if heap.length ≤ 1 then some s
    else
      match popMin heap with
      | none => none
      | some ((_, i), h1) =>
        match popMin h1 with
        | none => none
        | some ((_, j), h2) =>
          match contract s i j with
          | none => none
          | some (s', k) => remainingLoop sz fuel s' ((sz k, k) :: h2)

/-- `optimize_remaining_by_size` -/
def remaining (sz : Nat → Nat) (s : State) : Option State :=
  match s.nodes with
  | [_] => some s
  | [a, b] => (contract s a b).map (·.1)
  | _ => remainingLoop sz s.nodes.length s (s.nodes.map fun i => (sz i, i))

/-- the operations an optimizer may perform between construction and
    `optimize_remaining_by_size` -/
inductive Op where
  | contract (i j : Nat)
  | single (i : Nat)
  | chain (ids : List Nat)
  | hadamard (ids : List Nat)
  | greedy (cands : List (Nat × Nat))
deriving Repr

def step (s : State) : Op → Option State
  | .contract i j => (contract s i j).map (·.1)
  | .single i => single s i
  | .chain ids => chain s ids
  | .hadamard ids => hadamardGroup s ids
  | .greedy cands => some (greedyLoop s cands)

def run (s : State) : List Op → Option State
  | [] => some s
  | o :: rest =>
    match step s o with
    | none => none
    | some s' => run s' rest

end Processor
end Cotengra
