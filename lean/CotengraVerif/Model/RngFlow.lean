/-
  C17 — intra-procedural data flow of the *generator-carrying variables* of a seeded function.

  The call-graph table of `Model/Flow.lean` is name-level: a call `f(.., seed=rng)` enters `f` "with
  a seed" when the name `rng` is derived from the caller's `seed` parameter *somewhere* in the body.
  That is wrong for

      if random_strength:            # cotengra/core.py  PartitionTreeBuilder.build_agglom
          rng = get_rng(seed)        #   (seeded change C17-r2-2)
      else:
          rng = None
      ...
      self.partition_fn(.., seed=rng)        # None  ->  get_rng(None)  ->  the global `random` module

  so the extractor (harness/c17_facts.py) also emits, for every function on a seeded path, a
  *skeleton*: the assignments to the variables that carry the seed / a generator, the branches,
  loops and jumps around them, and the *sinks* (`get_rng(x)`, `f(.., seed=x)`, `{"seed": x}`,
  `x.randint(..)`, `g(.., x, ..)`).  This file is the analysis that runs on a skeleton:

    * values     `goodT` (a generator made from the seed / a non-zero integer derived from it),
                 `goodF` (a *falsy* value derived from the seed: the integer 0 -- `seed or random`
                 then takes the global module), `bad` (the global `random` module, a value drawn
                 from it, anything computed from `None`), `none`;
    * concrete semantics `Exec` (non-deterministic: unknown conditions, any number of loop
      iterations, a drawn integer may be 0);  a *bad use* = a sink receiving `bad`, or `none`
      where a seed is expected (`get_rng(None)` is the global module);
    * abstract semantics `analyse` over sets of values (4 bits per variable), loops by a checked
      post-fixpoint;  `RFlow.analyse_sound` (Lemmas/RngFlowSound.lean): if `analyse` reports no
      sink, no execution of the skeleton has a bad use.

  Core Lean only (the compiled driver runs `analyse` for the harness: op `c17.rngflow`).
-/
namespace Cotengra.RFlow

abbrev Var := Nat

inductive RVal where
  | goodT | goodF | bad | none
  /-- the variable is not bound yet (reading it raises `NameError`: no value) -/
  | unbound
deriving DecidableEq, Repr, Inhabited

inductive RExpr where
  | var (x : Var)
  | none
  /-- the `random` module, `np.random` -/
  | globalMod
  /-- a literal / caller-independent value (`seed=42`) -/
  | const
  /-- `get_rng(e)`, `random.Random(e)`, `np.random.default_rng(e)` -/
  | getRng (e : RExpr)
  /-- `e.randrange(..)`, `e.randint(..)`, ... : a value drawn from generator `e` -/
  | draw (e : RExpr)
  /-- `a or b` -/
  | orElse (a b : RExpr)
  /-- `a if <unknown> else b` -/
  | choice (a b : RExpr)
  /-- any other expression computed from `a` and `b` (`seed + i`, `(seed, k)`, `hash((a, b))`) -/
  | both (a b : RExpr)
deriving Repr, Inhabited

inductive RStmt where
  | skip
  | assign (x : Var) (e : RExpr)
  /-- sink number `k`; `strict`: a seed is expected (`None` means "use the global generator");
      otherwise a method call on the value (`None` raises: not a determinism issue) -/
  | use (k : Nat) (strict : Bool) (e : RExpr)
  | seq (a b : RStmt)
  /-- `if <unknown>: a else: b` -/
  | ite (a b : RStmt)
  /-- `if x is None: a else: b` -/
  | iteNone (x : Var) (a b : RStmt)
  /-- `if x: a else: b` -/
  | iteTruthy (x : Var) (a b : RStmt)
  /-- `for`/`while`: zero or more iterations of `body` -/
  | loop (body : RStmt)
  /-- `break` / `continue` / an exception leaving a `try` body: ends the current iteration -/
  | brk
  /-- `return` / `raise` -/
  | ret
deriving Repr, Inhabited

/-! ## concrete semantics -/

def getRngV : RVal → RVal
  | .goodT => .goodT
  | .goodF => .goodT      -- `random.Random(0)` is a (truthy) generator object
  | .bad => .bad
  | .none => .bad         -- `get_rng(None)` is the global module
  | .unbound => .unbound  -- (never evaluated: `evalC` yields no value for an unbound variable)

/-- possible results of drawing from `v` (an integer drawn may be 0; `None.randint` raises: no
    value) -/
def drawV : RVal → List RVal
  | .goodT => [.goodT, .goodF]
  | .goodF => [.goodT, .goodF]
  | .bad => [.bad]
  | .none => []
  | .unbound => []

def bothV : RVal → RVal → List RVal
  | .goodT, .goodT => [.goodT, .goodF]
  | .goodT, .goodF => [.goodT, .goodF]
  | .goodF, .goodT => [.goodT, .goodF]
  | .goodF, .goodF => [.goodT, .goodF]
  | _, _ => [.bad]

/-- the values expression `e` may take in environment `c` -/
def evalC (c : Var → RVal) : RExpr → List RVal
  | .var x => if c x = .unbound then [] else [c x]
  | .none => [.none]
  | .globalMod => [.bad]
  | .const => [.goodT, .goodF]
  | .getRng e => (evalC c e).map getRngV
  | .draw e => (evalC c e).flatMap drawV
  | .orElse a b =>
      (evalC c a).flatMap fun va =>
        match va with
        | .goodT => [.goodT]
        | .goodF => evalC c b
        | .none => evalC c b
        | .bad => .bad :: evalC c b
        | .unbound => []
  | .choice a b => evalC c a ++ evalC c b
  | .both a b => (evalC c a).flatMap fun va => (evalC c b).flatMap fun vb => bothV va vb

inductive Mode where
  | run | brk | ret
deriving DecidableEq, Repr

structure CState where
  env : Var → RVal
  mode : Mode
  /-- some sink has received a value that is not derived from the seed -/
  badUse : Bool

def isBadFor (strict : Bool) : RVal → Bool
  | .bad => true
  | .none => strict
  | _ => false

def upd (c : Var → RVal) (x : Var) (v : RVal) : Var → RVal := fun y => if y = x then v else c y

/-- big-step execution from a running state -/
inductive Exec : RStmt → CState → CState → Prop
  | skip (s) : Exec .skip s s
  | assign (s x e v) : v ∈ evalC s.env e → Exec (.assign x e) s { s with env := upd s.env x v }
  | use (s k strict e v) : v ∈ evalC s.env e →
      Exec (.use k strict e) s { s with badUse := s.badUse || isBadFor strict v }
  | seqRun (a b s s1 s2) : Exec a s s1 → s1.mode = .run → Exec b s1 s2 → Exec (.seq a b) s s2
  | seqStop (a b s s1) : Exec a s s1 → s1.mode ≠ .run → Exec (.seq a b) s s1
  | iteL (a b s s1) : Exec a s s1 → Exec (.ite a b) s s1
  | iteR (a b s s1) : Exec b s s1 → Exec (.ite a b) s s1
  | noneT (x a b s s1) : s.env x = .none → Exec a s s1 → Exec (.iteNone x a b) s s1
  | noneF (x a b s s1) : (s.env x = .goodT ∨ s.env x = .goodF ∨ s.env x = .bad) → Exec b s s1 →
      Exec (.iteNone x a b) s s1
  /-- truthy: a generator object, a non-zero integer; `bad` values may be either -/
  | truthyT (x a b s s1) : (s.env x = .goodT ∨ s.env x = .bad) → Exec a s s1 →
      Exec (.iteTruthy x a b) s s1
  | truthyF (x a b s s1) : (s.env x = .goodF ∨ s.env x = .none ∨ s.env x = .bad) → Exec b s s1 →
      Exec (.iteTruthy x a b) s s1
  | loopExit (b s) : Exec (.loop b) s s
  | loopIter (b s s1 s2) : Exec b s s1 → s1.mode ≠ .ret →
      Exec (.loop b) { s1 with mode := .run } s2 → Exec (.loop b) s s2
  | loopRet (b s s1) : Exec b s s1 → s1.mode = .ret → Exec (.loop b) s s1
  | brk (s) : Exec .brk s { s with mode := .brk }
  | ret (s) : Exec .ret s { s with mode := .ret }

/-! ## abstract semantics: sets of values -/

structure AVal where
  gT : Bool
  gF : Bool
  bd : Bool
  nn : Bool
deriving DecidableEq, Repr, Inhabited

namespace AVal
def top : AVal := ⟨true, true, true, true⟩
def bot : AVal := ⟨false, false, false, false⟩
def mem (v : RVal) (a : AVal) : Bool :=
  match v with
  | .goodT => a.gT
  | .goodF => a.gF
  | .bad => a.bd
  | .none => a.nn
  | .unbound => true      -- every abstract value allows "not bound yet"
def join (a b : AVal) : AVal := ⟨a.gT || b.gT, a.gF || b.gF, a.bd || b.bd, a.nn || b.nn⟩
def le (a b : AVal) : Bool := (!a.gT || b.gT) && (!a.gF || b.gF) && (!a.bd || b.bd) && (!a.nn || b.nn)
def isBot (a : AVal) : Bool := !a.gT && !a.gF && !a.bd && !a.nn
def anyGood (a : AVal) : Bool := a.gT || a.gF
end AVal

/-- abstract state: `live = false` = unreachable; a variable outside `vals` is unknown (`top`) -/
structure AState where
  live : Bool
  vals : List AVal
deriving DecidableEq, Repr, Inhabited

namespace AState
def dead : AState := ⟨false, []⟩
def get (a : AState) (x : Var) : AVal := a.vals.getD x AVal.top
def set (a : AState) (x : Var) (v : AVal) : AState := { a with vals := a.vals.set x v }
def join (a b : AState) : AState :=
  if !a.live then b else if !b.live then a else ⟨true, List.zipWith AVal.join a.vals b.vals⟩
def le (a b : AState) : Bool :=
  !a.live || (b.live && a.vals.length == b.vals.length &&
    (List.range a.vals.length).all fun x => AVal.le (a.get x) (b.get x))
end AState

def getRngA (a : AVal) : AVal := ⟨a.gT || a.gF, false, a.bd || a.nn, false⟩
def drawA (a : AVal) : AVal := ⟨a.gT || a.gF, a.gT || a.gF, a.bd, false⟩
def bothA (a b : AVal) : AVal :=
  let g := a.anyGood && b.anyGood
  ⟨g, g, (a.bd || a.nn) && !b.isBot || (b.bd || b.nn) && !a.isBot, false⟩
def orElseA (a b : AVal) : AVal :=
  let fall := a.gF || a.nn || a.bd
  ⟨a.gT || (fall && b.gT), fall && b.gF, a.bd || (fall && b.bd), fall && b.nn⟩

def evalA (s : AState) : RExpr → AVal
  | .var x => s.get x
  | .none => ⟨false, false, false, true⟩
  | .globalMod => ⟨false, false, true, false⟩
  | .const => ⟨true, true, false, false⟩
  | .getRng e => getRngA (evalA s e)
  | .draw e => drawA (evalA s e)
  | .orElse a b => orElseA (evalA s a) (evalA s b)
  | .choice a b => (evalA s a).join (evalA s b)
  | .both a b => bothA (evalA s a) (evalA s b)

/-- result of analysing a statement: the sinks that may receive a bad value, the state after
    normal completion, the (joined) state at the `brk`s -/
structure ARes where
  bad : List Nat
  norm : AState
  brk : AState
deriving Repr, Inhabited

def ARes.ok (r : ARes) : Bool := r.bad.isEmpty

/-- keep only the values of `x` allowed by `keep`; nothing left = unreachable -/
def refine (s : AState) (x : Var) (keep : AVal) : AState :=
  let v := s.get x
  let w : AVal := ⟨v.gT && keep.gT, v.gF && keep.gF, v.bd && keep.bd, v.nn && keep.nn⟩
  if w.isBot then AState.dead else s.set x w

/-- sink number reported when a loop invariant could not be established -/
def loopSentinel : Nat := 1000000

/-- least post-fixpoint search: `I ← I ⊔ f I` until `f I ⊑ I` (at most `n` rounds) -/
def iter (f : AState → AState) : Nat → AState → AState
  | 0, I => I
  | n + 1, I => let J := f I; if J.le I then I else iter f n (I.join J)

def analyse : RStmt → AState → ARes
  | .skip, s => ⟨[], s, .dead⟩
  | .assign x e, s => ⟨[], if s.live then s.set x (evalA s e) else s, .dead⟩
  | .use k strict e, s =>
      let v := evalA s e
      ⟨if !s.live || (!v.bd && (!strict || !v.nn)) then [] else [k], s, .dead⟩
  | .seq a b, s =>
      let r1 := analyse a s
      let r2 := analyse b r1.norm
      ⟨r1.bad ++ r2.bad, r2.norm, r1.brk.join r2.brk⟩
  | .ite a b, s =>
      let r1 := analyse a s
      let r2 := analyse b s
      ⟨r1.bad ++ r2.bad, r1.norm.join r2.norm, r1.brk.join r2.brk⟩
  | .iteNone x a b, s =>
      let r1 := analyse a (if s.live then refine s x ⟨false, false, false, true⟩ else s)
      let r2 := analyse b (if s.live then refine s x ⟨true, true, true, false⟩ else s)
      ⟨r1.bad ++ r2.bad, r1.norm.join r2.norm, r1.brk.join r2.brk⟩
  | .iteTruthy x a b, s =>
      let r1 := analyse a (if s.live then refine s x ⟨true, false, true, false⟩ else s)
      let r2 := analyse b (if s.live then refine s x ⟨false, true, true, true⟩ else s)
      ⟨r1.bad ++ r2.bad, r1.norm.join r2.norm, r1.brk.join r2.brk⟩
  | .loop body, s =>
      let f := fun I => let r := analyse body I; r.norm.join r.brk
      let I := iter f (4 * s.vals.length + 2) s
      let r := analyse body I
      ⟨r.bad ++ (if (r.norm.join r.brk).le I then [] else [loopSentinel]), I, .dead⟩
  | .brk, s => ⟨[], .dead, s⟩
  | .ret, _ => ⟨[], .dead, .dead⟩

/-- initial abstract state of a function entered *with an integer seed*: variable 0 is the seed
    parameter (an integer, possibly 0), variables listed in `attrs` are attributes holding the
    generator made from the seed at construction, every other variable is unbound (a use before
    any assignment would be a `NameError`; `bot` makes such paths unreachable) -/
def initState (nvars : Nat) (attrs : List Var) : AState :=
  ⟨true, (List.range nvars).map fun x =>
    if x = 0 then ⟨true, true, false, false⟩
    else if attrs.contains x then ⟨true, false, false, false⟩ else AVal.bot⟩

/-- a skeleton: number of variables, variables that are seeded attributes on entry, body -/
structure Skeleton where
  nvars : Nat
  attrs : List Var
  body : RStmt
deriving Repr, Inhabited

def Skeleton.badSinks (k : Skeleton) : List Nat := (analyse k.body (initState k.nvars k.attrs)).bad

/-- the check that `decide` runs over the regenerated skeleton table -/
def Skeleton.ok (k : Skeleton) : Bool := k.badSinks.isEmpty

end Cotengra.RFlow
