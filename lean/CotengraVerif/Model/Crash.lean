/-
  C15 model: the on-disk half of `DiskDict` (cotengra/utils.py:602-720) as a sequence of
  file-system operations on a directory, process death at any operation boundary / byte
  offset, and the reader (`__contains__` + `__getitem__`, `ReusableOptimizer.hash_query` /
  `_maybe_run_optimizer`, cotengra/reusable.py:161-262) run by a later, fresh process.

  Two write protocols and two readers are modelled:
    * `writeInplace`  -- the code as it was:   mkdir(parent); open(fname,'wb+'); write; close
    * `writeAtomic`   -- the repaired code:    mkdir(parent); open(tmp,'wb'); write; close;
                                               os.replace(tmp, fname)
    * `lookupOld`     -- presence = `fname.exists()`, then `pickle.load`; an unreadable file
                         ends in `raise e` with `e` unbound (UnboundLocalError) or in the
                         unpickling error itself
    * `lookupNew`     -- presence = "a complete entry could be loaded"; unreadable == missing

  Core Lean only (no Mathlib): the compiled driver links this file.
-/
namespace Cotengra.Crash

abbrev Bytes := List Nat
/-- a file name -/
abbrev Name := List Char
/-- path below the cache directory (`[]` is the cache directory itself) -/
abbrev Path := List Name

/-- The directory tree below the cache directory: regular files with their content and the set
    of sub-directories.  Functions, so that updates are one `if`. -/
structure FS where
  files : Path → Option Bytes
  dirs : Path → Bool

/-- system calls the writer performs (names as in the Python source) -/
inductive Op where
  /-- `Path.mkdir(parents=True, exist_ok=True)` -/
  | mkdir (p : Path)
  /-- `open(p, 'wb')` / `open(p, 'wb+')`: create, or truncate to length 0 (O_CREAT|O_TRUNC) -/
  | create (p : Path)
  /-- `write(2)` of `b` at the end of the open file `p` -/
  | append (p : Path) (b : Bytes)
  /-- `os.replace(src, dst)`: atomic rename over `dst` -/
  | rename (src dst : Path)
  /-- `os.unlink(p)` -/
  | unlink (p : Path)
deriving Repr, DecidableEq

namespace FS

def setFile (fs : FS) (p : Path) (b : Option Bytes) : FS :=
  { fs with files := fun q => if q = p then b else fs.files q }

/-- parent directory of a path -/
def parent (p : Path) : Path := p.dropLast

/-- does the operation succeed (no exception) in this state? -/
def canStep (fs : FS) : Op → Bool
  | .mkdir _ => true
  | .create p => fs.dirs (parent p)
  | .append p _ => (fs.files p).isSome
  | .rename s d => (fs.files s).isSome && fs.dirs (parent d)
  | .unlink p => (fs.files p).isSome

/-- effect of one system call.  A call whose precondition fails raises in Python and changes
    nothing; `writeAtomic_canStep` (Props/C15) shows the modelled protocols never hit that case. -/
def step (fs : FS) (op : Op) : FS :=
  if fs.canStep op then
    match op with
    | .mkdir p => { fs with dirs := fun q => if q = p then true else fs.dirs q }
    | .create p => fs.setFile p (some [])
    | .append p b => fs.setFile p ((fs.files p).map (· ++ b))
    | .rename s d => (fs.setFile d (fs.files s)).setFile s none
    | .unlink p => fs.setFile p none
  else fs

def run (fs : FS) (ops : List Op) : FS := ops.foldl step fs

end FS

/-- the states in which a process executing `op` can die *inside* the call: a `write` may have
    transferred any strict prefix of its buffer -/
def partials (fs : FS) : Op → List FS
  | .append p b => (List.range b.length).map fun j => fs.step (.append p (b.take j))
  | _ => []

/-- every file-system state a process running `ops` can leave behind when it is killed at an
    arbitrary instant (before the first call, inside a write at any byte offset, between two
    calls, after the last call). -/
def crashStates (fs : FS) : List Op → List FS
  | [] => [fs]
  | op :: rest => fs :: (partials fs op ++ crashStates (fs.step op) rest)

/-! ## keys and file names -/

/-- cache keys are hex digests (`hashlib.sha1(...).hexdigest()`) -/
abbrev Key := List Char

def isHexChar (c : Char) : Bool := ('0' ≤ c && c ≤ '9') || ('a' ≤ c && c ≤ 'f')
def hexName (n : Name) : Bool := n.all isHexChar

/-- `hash_query` (reusable.py:165-171): with `directory_split` the key is `(h[:2], h[2:])`;
    `DiskDict` joins the components below the cache directory. -/
def keyPath (split : Bool) (k : Key) : Path :=
  if split then [k.take 2, k.drop 2] else [k]

/-- paths that can be the file of *some* key, in either layout -/
def isKeyPath : Path → Bool
  | [n] => hexName n
  | [a, b] => hexName a && hexName b
  | _ => false

/-- the temporary file of the repaired writer:
    `fname.with_name(f"{fname.name}.{pid}-{thread}.tmp")` -/
def tmpPath (split : Bool) (k : Key) (tag : Name) : Path :=
  let f := keyPath split k
  f.dropLast ++ [f.getLastD [] ++ '.' :: (tag ++ ['.', 't', 'm', 'p'])]

/-- `__setitem__` as it was (utils.py:663-675) -/
def writeInplace (split : Bool) (k : Key) (data : Bytes) : List Op :=
  let f := keyPath split k
  (if split then [Op.mkdir (FS.parent f)] else []) ++ [.create f, .append f data]

/-- `__setitem__` after the repair: temp file in the same directory + `os.replace` -/
def writeAtomic (split : Bool) (k : Key) (tag : Name) (data : Bytes) : List Op :=
  let f := keyPath split k
  let t := tmpPath split k tag
  (if split then [Op.mkdir (FS.parent f)] else []) ++ [.create t, .append t data, .rename t f]

/-! ## (de)serialisation, abstractly -/

/-- `pickle.dump` / `pickle.load`; `parse b = none` stands for *any* exception of `pickle.load`
    (EOFError, UnpicklingError, ...) -/
structure Codec (E : Type) where
  ser : E → Bytes
  parse : Bytes → Option E

/-! ## readers (a later, fresh process: empty `_mem_cache`) -/

/-- what `pickle.load(open(fname,'rb'))` yields, if anything -/
def readEntry {E} (C : Codec E) (fs : FS) (p : Path) : Option E :=
  (fs.files p).bind C.parse

/-- the repaired lookup (`__contains__` → `_load`): a complete entry or nothing -/
def lookupNew {E} (C : Codec E) (fs : FS) (split : Bool) (k : Key) : Option E :=
  readEntry C fs (keyPath split k)

inductive OldLook (E : Type) where
  | absent
  | found (e : E)
  /-- `exists()` was true but `pickle.load` failed `max_retries` times: `raise e` with `e`
      unbound → UnboundLocalError (or the unpickling error itself for other exception types) -/
  | raises
deriving Repr, DecidableEq

/-- the lookup as it was: `__contains__` = `fname.exists()`, then `__getitem__` -/
def lookupOld {E} (C : Codec E) (fs : FS) (split : Bool) (k : Key) : OldLook E :=
  match fs.files (keyPath split k) with
  | none => .absent
  | some b =>
    match C.parse b with
    | some e => .found e
    | none => .raises

inductive Outcome (E : Type) where
  /-- the stored entry was used, no search -/
  | hit (e : E)
  /-- treated as absent: the optimizer ran and its result `w` was stored -/
  | searched (w : E)
  | raised
deriving Repr, DecidableEq

/-- a fresh process with the default policy (`overwrite=False`, `cache_only=False`) asks for
    key `k`; `w` is what its sub-optimizer would find.  Repaired reader + repaired writer. -/
def queryNew {E} (C : Codec E) (split : Bool) (tag : Name) (fs : FS) (k : Key) (w : E) :
    FS × Outcome E :=
  match lookupNew C fs split k with
  | some e => (fs, .hit e)
  | none => (fs.run (writeAtomic split k tag (C.ser w)), .searched w)

/-- the same with the code as it was -/
def queryOld {E} (C : Codec E) (split : Bool) (fs : FS) (k : Key) (w : E) : FS × Outcome E :=
  match lookupOld C fs split k with
  | .absent => (fs.run (writeInplace split k (C.ser w)), .searched w)
  | .found e => (fs, .hit e)
  | .raises => (fs, .raised)

/-! ## certificate form: admissible write traces -/

/-- Decidable check of an (observed) sequence of system calls against the discipline that makes
    a writer crash-safe: files that can belong to a key are never created, truncated, appended
    to or unlinked; the only call that touches one is a rename onto the entry being stored,
    `f`, from a non-key file that at that moment holds exactly the complete new content `B`. -/
def admissible (f : Path) (B : Bytes) : FS → List Op → Bool
  | _, [] => true
  | fs, op :: rest =>
    (match op with
     | .mkdir _ => true
     | .create p => !isKeyPath p
     | .append p _ => !isKeyPath p
     | .unlink p => !isKeyPath p
     | .rename s d => !isKeyPath s && ((d == f && fs.files s == some B) || !isKeyPath d))
    && admissible f B (fs.step op) rest

/-- The weaker, *prefix* discipline (an in-place writer): besides what `admissible` allows, the
    entry's own file `f` may be truncated and appended to, as long as its content stays a prefix
    of the complete new content `B`.  Safe only together with a reader that treats an unreadable
    entry as missing (`prefix_discipline_new_reader`, Props/C15). -/
def admissibleP (f : Path) (B : Bytes) : FS → List Op → Bool
  | _, [] => true
  | fs, op :: rest =>
    (match op with
     | .mkdir _ => true
     | .create p => p == f || !isKeyPath p
     | .append p b =>
        if p == f then
          (match fs.files f with
           | some c => (c ++ b).isPrefixOf B
           | none => true)
        else !isKeyPath p
     | .unlink p => !isKeyPath p
     | .rename s d => !isKeyPath s && ((d == f && fs.files s == some B) || !isKeyPath d))
    && admissibleP f B (fs.step op) rest

/-! ## layout detection (`directory_split="auto"`, reusable.py:128-141)

A later process opened with the default arguments looks at *one* entry directly below the cache
directory (`next(path.glob("*"))`, listing order unspecified): a sub-directory means the split
layout, a regular file the flat one, nothing means split. -/

/-- what `"auto"` may conclude about the directory -/
def autoMayBe (fs : FS) (split : Bool) : Prop :=
  if split then (∃ n, fs.dirs [n] = true) ∨ ((∀ n, fs.dirs [n] = false) ∧ ∀ n, fs.files [n] = none)
  else ∃ n, (fs.files [n]).isSome = true

/-- a writer in the split layout never puts a regular file directly below the cache directory,
    one in the flat layout never makes a sub-directory (per-call check) -/
def rootClean (split : Bool) : Op → Bool
  | .create p => !split || p.length != 1
  | .rename _ d => !split || d.length != 1
  | .mkdir p => split || p == []
  | _ => true

def layoutOK (split : Bool) (ops : List Op) : Bool := ops.all (rootClean split)

/-! ## a finite file system for the driver / concrete examples -/

def FS.ofList (files : List (Path × Bytes)) (dirs : List Path) : FS :=
  { files := fun p => files.lookup p, dirs := fun p => p == [] || dirs.contains p }

/-- codec given by a finite table of complete contents (driver: the harness supplies the
    byte strings that `pickle.load` accepts, with an id each) -/
def tableCodec (tbl : List (Bytes × Nat)) : Codec Nat :=
  { ser := fun e => match tbl.find? (fun r => r.2 == e) with
                    | some r => r.1
                    | none => []
    parse := fun b => tbl.lookup b }

end Cotengra.Crash
