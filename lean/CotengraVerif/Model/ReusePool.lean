import CotengraVerif.Model.Reuse

/-
  Pool-parallel sub-searches that overlap in time.

  `HyperOptimizer._search` with a pool (`parallel=` an executor) keeps its in-flight trials in
  `self._futures`, a list of `(setting, future)` pairs:

    * `_gen_results_parallel`  (hyper.py:637-659): `self._futures = []`, then per repeat
      `submit(...)`, `self._futures.append((setting, future))`, and a harvest once
      `pre_dispatch` futures are pending; then `while self._futures: yield <harvest>`
    * `_get_and_report_next_future` (625-635): the first entry of `self._futures` found `done()`
      is deleted from the list, reported and returned to the assessing loop of `_search`
    * `_maybe_cancel_futures` (571-575): pops and cancels whatever is left

  `Model/Hyper.lean` (C08) models one such search (`PState`, `submit`, `completeP`, `cancel`).
  Here several searches run at once — two threads using one `ReusableHyperOptimizer(parallel=pool)`
  each get a fresh `HyperOptimizer`, and the two `_search` calls interleave arbitrarily; all
  searches share the pool.  What keeps them apart is that `self._futures` is bound, at the start
  of every search, to a *fresh list object*.  The model makes the identity of the list explicit:
  a heap of lists, `Search.list` = the list object `self._futures` of that search resolves to.
  `freshList = true` is the code (`self._futures = []` on the instance); `false` is the variant
  where the name resolves to one class-level list for every instance (seeded change C16-r2-1).

  A future carries (ghost) the search that dispatched it: the worker evaluates the trial function
  on the *dispatching* search's `(inputs, output, size_dict)`, so its tree is a tree of that
  search's contraction.

  Events are arbitrary (no control flow of `_gen_results_parallel` is imposed): the theorems hold
  for every event sequence, hence for every interleaving of real searches, every completion order
  and every stop behaviour.

  Core Lean only.
-/
namespace Cotengra
namespace ReusePool
open Hyper Reuse

/-- an in-flight trial: `(setting, future)` plus ghosts -/
structure Fut where
  setting : Setting
  /-- the search whose `submit` created it -/
  origin : Nat
  /-- submission number within that search -/
  k : Nat
deriving DecidableEq, Repr

/-- one `_search` call on its own `HyperOptimizer` -/
structure Search where
  /-- `_gen_results_parallel` has started (its first statement ran) -/
  started : Bool := false
  /-- which list object `self._futures` resolves to; 0 = the class-level attribute -/
  list : Nat := 0
  /-- driver-side state of the optimizer (`h.submitted` counts the submissions, as in C08) -/
  h : HState := HState.init
  /-- ghost: what `_get_and_report_next_future` returned, oldest first -/
  reported : List Fut := []
  /-- ghost: what `_maybe_cancel_futures` popped -/
  cancelled : List Fut := []

structure PSys where
  searches : Nat → Search
  /-- heap of list objects -/
  lists : Nat → List Fut
  nextList : Nat

inductive Ev where
  /-- first statement of `_gen_results_parallel` -/
  | begin (σ : Nat)
  /-- `submit(...)`; `self._futures.append((setting, future))` -/
  | submit (σ : Nat)
  /-- `_get_and_report_next_future`: the pending future at position `c % length` is the first
      one found `done()`; reported and assessed -/
  | harvest (σ : Nat) (c : Nat)
  /-- `_maybe_cancel_futures` -/
  | cancel (σ : Nat)
deriving Repr

structure PCfg where
  /-- `self._futures = []` at the start of every search (the code) -/
  freshList : Bool := true
  /-- the contraction each search is about -/
  queryOf : Nat → Query
  /-- sampler and worker-side trial function of each search -/
  envs : Nat → Env

/-- a trial function builds its tree over the inputs it is given -/
def stampT (q : Query) (tr : Trial) : Trial := { tr with tree := tr.tree.map fun _ => q.net }

/-- what the worker computed for future `f`: the trial function ran on the arguments of the
    search that dispatched it -/
def trialOf (cfg : PCfg) (f : Fut) : Trial :=
  stampT (cfg.queryOf f.origin) ((cfg.envs f.origin).trialFn f.k f.setting)

def pstep (cfg : PCfg) (s : PSys) : Ev → PSys
  | .begin σ =>
    let sr := s.searches σ
    if cfg.freshList then
      { searches := updFn s.searches σ { sr with started := true, list := s.nextList },
        lists := updFn s.lists s.nextList [],
        nextList := s.nextList + 1 }
    else
      -- no assignment on the instance: the name keeps resolving to the class-level list
      { s with searches := updFn s.searches σ { sr with started := true } }
  | .submit σ =>
    let sr := s.searches σ
    if sr.started then
      let f : Fut := ⟨(cfg.envs σ).getSetting sr.h, σ, sr.h.submitted⟩
      { s with
        searches := updFn s.searches σ { sr with h := setSub sr.h (sr.h.submitted + 1) },
        lists := updFn s.lists sr.list (s.lists sr.list ++ [f]) }
    else s
  | .harvest σ c =>
    let sr := s.searches σ
    if sr.started then
      match pickAt (s.lists sr.list) c with
      | none => s
      | some (f, rest) =>
        { s with
          searches := updFn s.searches σ
            { sr with h := complete sr.h f.setting (trialOf cfg f), reported := sr.reported ++ [f] },
          lists := updFn s.lists sr.list rest }
    else s
  | .cancel σ =>
    let sr := s.searches σ
    if sr.started then
      { s with
        searches := updFn s.searches σ
          { sr with cancelled := sr.cancelled ++ (s.lists sr.list).reverse },
        lists := updFn s.lists sr.list [] }
    else s

def prun (cfg : PCfg) (s : PSys) (evs : List Ev) : PSys := evs.foldl (pstep cfg) s

/-- no search started; list 0 is the (empty) class-level list -/
def PSys.start : PSys := { searches := fun _ => {}, lists := fun _ => [], nextList := 1 }

/-- search `σ` seen as the single-search driver state of `Model/Hyper.lean` -/
def view (s : PSys) (σ : Nat) : PState :=
  { h := (s.searches σ).h,
    futures := (s.lists (s.searches σ).list).map fun f => (f.setting, f.k),
    cancelled := (s.searches σ).cancelled.map (·.k) }

/-- the oracles of search `σ` as an `Env` of `Model/Hyper.lean` -/
def envOf (cfg : PCfg) (σ : Nat) : Env :=
  { getSetting := (cfg.envs σ).getSetting,
    trialFn := fun k st => stampT (cfg.queryOf σ) ((cfg.envs σ).trialFn k st) }

end ReusePool
end Cotengra
