import CotengraVerif.Model.TreeState

/-!
  The per-node *recipe caches* of `ContractionTree` as a state machine (cotengra/core.py):

  * `info[node]["inds"]`                              — `get_inds`, core.py:860 (cached_node_property)
  * `info[node]["einsum_eq" | "tensordot_axes" | "tensordot_perm"]` — :879-921, each a function of
    the `inds` of the node and of its two children, computed through `get_inds` (which caches).

  Mutators of the real tree re-create nodes or re-order / drop cached `inds`; after the repair
  (commit "fix: drop cached contraction recipes …") every one of them ends by calling
  `_reset_contraction_recipes`, which deletes all derived recipes tree-wide and keeps the `inds`.

  The model is generic in the recipe type `ρ` and in the function `R pI lI rI` that computes a recipe
  from three ordered index lists; the values that `get_inds` derives for uncached nodes are supplied
  by the environment (they depend on legs and children, which this model does not need to know).
-/
namespace Cotengra

structure RC (ρ : Type) where
  ch : List (Node × Node × Node)
  inds : List (Node × List Ix)
  recs : List (Node × ρ)

namespace RC
variable {ρ : Type}

def lookupInds (s : RC ρ) (p : Node) : Option (List Ix) := s.inds.lookup p
def lookupRec (s : RC ρ) (p : Node) : Option ρ := s.recs.lookup p
def childrenOf (s : RC ρ) (p : Node) : Option (Node × Node) := s.ch.lookup p

/-- `get_inds(p)` as a cached property: a cached value wins, otherwise the derived value `v` is
    stored (`cached_node_property`, core.py:63) -/
def getInds (s : RC ρ) (p : Node) (v : List Ix) : RC ρ × List Ix :=
  match s.lookupInds p with
  | some w => (s, w)
  | none => ({ s with inds := (p, v) :: s.inds }, v)

/-- `get_einsum_eq / get_tensordot_axes / get_tensordot_perm (p)`: a cached recipe wins, otherwise
    the three `inds` are fetched through `get_inds` (derived values `vp vl vr` if uncached) and the
    recipe computed from them is stored. -/
def getRecipe (R : List Ix → List Ix → List Ix → ρ) (s : RC ρ) (p : Node) (vp vl vr : List Ix) :
    RC ρ × Option ρ :=
  match s.lookupRec p with
  | some x => (s, some x)
  | none =>
    match s.childrenOf p with
    | none => (s, none)                       -- not an internal node: `KeyError` in the real code
    | some (l, r) =>
      let (s1, lI) := s.getInds l vl
      let (s2, rI) := s1.getInds r vr
      let (s3, pI) := s2.getInds p vp
      let x := R pI lI rI
      ({ s3 with recs := (p, x) :: s3.recs }, some x)

/-- `_reset_contraction_recipes` (repaired code): derived recipes dropped, `inds` kept -/
def resetRecipes (s : RC ρ) : RC ρ := { s with recs := [] }

/-- an arbitrary structural / index-order change (node re-creation, `remove_ind`, `restore_ind`,
    `sort_contraction_indices`, annealing moves…): the new structure and the new `inds` table are
    anything; the recipes of nodes that still exist are *kept* by the primitives -/
def mutate (s : RC ρ) (ch' : List (Node × Node × Node)) (inds' : List (Node × List Ix))
    (keepRec : Node → Bool) : RC ρ :=
  { ch := ch', inds := inds', recs := s.recs.filter (fun e => keepRec e.1) }

/-- the operations of a history -/
inductive Op (ρ : Type) where
  | getInds (p : Node) (v : List Ix)
  | getRecipe (p : Node) (vp vl vr : List Ix)
  /-- a mutator of the repaired code: arbitrary change, then `_reset_contraction_recipes` -/
  | mutator (ch' : List (Node × Node × Node)) (inds' : List (Node × List Ix)) (keepRec : Node → Bool)
  /-- a mutator of the code before the repair: the same change *without* the reset -/
  | mutatorNoReset (ch' : List (Node × Node × Node)) (inds' : List (Node × List Ix))
      (keepRec : Node → Bool)

def step (R : List Ix → List Ix → List Ix → ρ) (s : RC ρ) : Op ρ → RC ρ
  | .getInds p v => (s.getInds p v).1
  | .getRecipe p vp vl vr => (getRecipe R s p vp vl vr).1
  | .mutator ch' inds' k => (s.mutate ch' inds' k).resetRecipes
  | .mutatorNoReset ch' inds' k => s.mutate ch' inds' k

def run (R : List Ix → List Ix → List Ix → ρ) (s : RC ρ) (ops : List (Op ρ)) : RC ρ :=
  ops.foldl (step R) s

def empty (ch : List (Node × Node × Node)) : RC ρ := { ch := ch, inds := [], recs := [] }

end RC
end Cotengra
