import CotengraVerif.Model.Stats
import CotengraVerif.Model.AssocList

/-!
  Model of cotengra/slicer.py: `ContractionCosts` (:17-192) and `SliceFinder` (:204-429),
  plus `MaxCounter` (cotengra/utils.py:209-276).

  Python `dict`s are association lists (first match wins, insertion order kept), python `set`s are
  lists (the harness sorts them), `defaultdict(lambda: 0)` is an association list read with
  default 0 but with *key presence* kept, because `del d[ix]` raises `KeyError` on a missing key.
  Every lookup that can raise in the real code (`KeyError`, `IndexError`, `ValueError` of `max`/`min`
  on an empty sequence, the `RuntimeError` of `trial`) is a guard here: the operation returns
  `none` / an error tag exactly when one of them fails.

  Core Lean only.
-/
namespace Cotengra

/-- `defaultdict(lambda: 0)` over python ints -/
abbrev IDict := List (Nat × Int)

namespace IDict
/-- `d[x]` read with the default (the *read* of a defaultdict also inserts the key: see `touch`) -/
def get (d : IDict) (x : Nat) : Int := (AL.get? d x).getD 0
/-- `d[x] += v` -/
def addTo (d : IDict) (x : Nat) (v : Int) : IDict := AL.set d x (get d x + v)
/-- the insertion side effect of reading `d[x]` -/
def touch (d : IDict) (x : Nat) : IDict := if AL.has d x then d else d ++ [(x, 0)]
end IDict

/-- `MaxCounter` (utils.py:209): a `collections.Counter` plus the cached maximum
    (`none` is `-inf`). -/
structure MaxCounter where
  c : Legs
  mx : Option Nat
deriving Repr, BEq

namespace MaxCounter

def empty : MaxCounter := ⟨[], none⟩

/-- `max(self._c)` with the `ValueError` branch -/
def keysMax : List Nat → Option Nat
  | [] => none
  | k :: t => some (t.foldl max k)

def optMax (a : Option Nat) (x : Nat) : Nat :=
  match a with
  | none => x
  | some m => max m x

/-- `add` (utils.py:270) -/
def add (m : MaxCounter) (x : Nat) : MaxCounter :=
  ⟨Legs.add m.c x 1, some (optMax m.mx x)⟩

/-- `discard` (utils.py:253). `Counter.__getitem__` gives 0 and `Counter.__delitem__` is silent
    for a missing key. -/
def discard (m : MaxCounter) (x : Nat) : MaxCounter :=
  let cnt := Legs.get m.c x
  if cnt ≤ 1 then
    let c' := Legs.without m.c x
    if m.mx = some x then ⟨c', keysMax (Legs.keys c')⟩ else ⟨c', m.mx⟩
  else
    ⟨m.c.map (fun kv => if kv.1 = x then (kv.1, cnt - 1) else kv), m.mx⟩

end MaxCounter

namespace Slicer

/-- one entry of `ContractionCosts.contractions`: `(involved, legs, size, flops)` -/
structure Con where
  involved : List Ix
  legs : List Ix
  size : Nat
  flops : Nat
deriving Repr, BEq, DecidableEq, Inhabited

/-- `ContractionCosts` (slicer.py:17). `mxsizes` is `_sizes`, `fred/wred` are
    `_flop_reductions/_write_reductions`, `wher` is `_where`. -/
structure Costs where
  sizeDict : List (Ix × Nat)
  cons : List Con
  nslices : Nat
  originalFlops : Int
  flops : Int
  mxsizes : MaxCounter
  fred : IDict
  wred : IDict
  wher : List (Ix × List Nat)
deriving Repr, BEq

/-- `d - d // s` on python ints for naturals -/
def red (x d : Nat) : Int := (x : Int) - ((x / d : Nat) : Int)

/-- the body of the `for ix in c[IDX_INVOLVED]` loop of `__init__` (slicer.py:63-70), lookups
    defaulted (guarded by `initOK`). `_where[ix].add(i)` is a set insertion. -/
def initIx (i : Nat) (c : Con) (s : Costs) (ix : Ix) : Costs :=
  let d := (AL.get? s.sizeDict ix).getD 1
  let w := (AL.get? s.wher ix).getD []
  { s with
    fred := IDict.addTo s.fred ix (red c.flops d),
    wher := AL.set s.wher ix (if w.contains i then w else w ++ [i]),
    wred := if c.legs.contains ix then IDict.addTo s.wred ix (red c.size d) else s.wred }

/-- one iteration of `for i, c in enumerate(self.contractions)` (slicer.py:59-70) -/
def initCon (i : Nat) (c : Con) (s : Costs) : Costs :=
  c.involved.foldl (initIx i c)
    { s with flops := s.flops + c.flops, mxsizes := s.mxsizes.add c.size }

def initLoop : Nat → List Con → Costs → Costs
  | _, [], s => s
  | i, c :: rest, s => initLoop (i + 1) rest (initCon i c s)

/-- `size_dict[ix]` succeeds for every involved index (else `KeyError`) -/
def initOK (cons : List Con) (sizeDict : List (Ix × Nat)) : Bool :=
  cons.all fun c => c.involved.all fun ix => AL.has sizeDict ix

/-- `ContractionCosts.__init__` (slicer.py:43-75) with `original_flops=None` -/
def Costs.init (cons : List Con) (sizeDict : List (Ix × Nat)) (nslices : Nat := 1) : Option Costs :=
  if initOK cons sizeDict then
    let s0 : Costs := { sizeDict := sizeDict, cons := cons, nslices := nslices, originalFlops := 0,
                        flops := 0, mxsizes := MaxCounter.empty, fred := [], wred := [], wher := [] }
    let s := initLoop 0 cons s0
    some { s with originalFlops := s.flops }
  else none

/-- `size` property; `none` stands for `-inf` (no contraction at all) -/
def Costs.size (c : Costs) : Option Nat := c.mxsizes.mx
def Costs.totalFlops (c : Costs) : Int := c.nslices * c.flops

/-- `overhead <= p/q` decided exactly on the integers (`total_flops / original_flops` is a float
    division in the real code: exact while the products stay below 2^53 — stated assumption). -/
def Costs.overheadLe (c : Costs) (p q : Nat) : Bool :=
  decide (c.totalFlops * q ≤ p * c.originalFlops)

/-- `for oix in new_involved: _flop_reductions[oix] += new - old` (slicer.py:153-159) -/
def updFred (sd : List (Ix × Nat)) (oldFlops d : Nat) (fred : IDict) (oix : Ix) : IDict :=
  let di := (AL.get? sd oix).getD 1
  let oldR := red oldFlops di
  IDict.addTo fred oix (oldR / d - oldR)

/-- `for oix in new_legs: _write_reductions[oix] -= old - new` (slicer.py:170-176) -/
def updWred (sd : List (Ix × Nat)) (oldSize d : Nat) (wred : IDict) (oix : Ix) : IDict :=
  let di := (AL.get? sd oix).getD 1
  let oldR := red oldSize di
  IDict.addTo wred oix (-(oldR - oldR / d))

/-- the sliced contraction entry written back at slicer.py:181 -/
def sliceCon (ix : Ix) (d : Nat) (c : Con) : Con :=
  { involved := c.involved.filter (· != ix),
    legs := if c.legs.contains ix then c.legs.filter (· != ix) else c.legs,
    size := if c.legs.contains ix then c.size / d else c.size,
    flops := c.flops / d }

/-- the body of `for i in cost._where.pop(ix)` (slicer.py:143-186), lookups defaulted — the
    guards are checked up front by `removeOK`. -/
def removeStep (ix : Ix) (d : Nat) (s : Costs) (i : Nat) : Costs :=
  let old := s.cons.getD i default
  let new := sliceCon ix d old
  let fred := new.involved.foldl (updFred s.sizeDict old.flops d) s.fred
  let mxs := if old.legs.contains ix then (s.mxsizes.discard old.size).add new.size else s.mxsizes
  let wred := if old.legs.contains ix then new.legs.foldl (updWred s.sizeDict old.size d) s.wred
              else s.wred
  { s with cons := s.cons.set i new,
           flops := s.flops + ((new.flops : Int) - (old.flops : Int)),
           mxsizes := mxs, fred := fred, wred := wred }

/-- every lookup of `remove` that can raise succeeds (`KeyError`: `size_dict[ix]`, `_where.pop(ix)`,
    `size_dict[oix]`, the two `del`s on the defaultdicts; `IndexError`: `contractions[i]`). -/
def Costs.removeOK (c : Costs) (ix : Ix) : Bool :=
  AL.has c.sizeDict ix && AL.has c.wher ix &&
  (((AL.get? c.wher ix).getD []).all fun i =>
      decide (i < c.cons.length) &&
      ((c.cons.getD i default).involved.all fun oix => oix == ix || AL.has c.sizeDict oix)) &&
  AL.has c.fred ix && AL.has c.wred ix

def Costs.removeCore (c : Costs) (ix : Ix) : Costs :=
  let d := (AL.get? c.sizeDict ix).getD 1
  let ps := (AL.get? c.wher ix).getD []
  let c1 := { c with nslices := c.nslices * d, wher := AL.del c.wher ix }
  let c2 := ps.foldl (removeStep ix d) c1
  { c2 with sizeDict := AL.del c2.sizeDict ix, fred := AL.del c2.fred ix, wred := AL.del c2.wred ix }

/-- `ContractionCosts.remove(ix)` (slicer.py:136-192) on a copy; `none` = an exception -/
def Costs.remove (c : Costs) (ix : Ix) : Option Costs :=
  if c.removeOK ix then some (c.removeCore ix) else none

/-- chain of removals (what `tree.slice` / a caller looping over indices does) -/
def Costs.removeAll (c : Costs) : List Ix → Option Costs
  | [] => some c
  | ix :: rest => match c.remove ix with
    | none => none
    | some c' => c'.removeAll rest

/-- the side effect of evaluating `score_slice_index(cost, ix)` for every `ix in cost.size_dict`
    (scoring.py:106-326: every objective reads `_flop_reductions[ix]` and `_write_reductions[ix]`,
    which inserts missing keys into the defaultdicts of the *cached* cost object) -/
def Costs.touchAll (c : Costs) : Costs :=
  { c with fred := (AL.keys c.sizeDict).foldl IDict.touch c.fred,
           wred := (AL.keys c.sizeDict).foldl IDict.touch c.wred }

/-! ## SliceFinder -/

/-- frozenset keys of `SliceFinder.costs`: kept sorted so that `==` is set equality -/
def insertSorted (x : Nat) : List Nat → List Nat
  | [] => [x]
  | y :: t => if x < y then x :: y :: t else if x = y then y :: t else y :: insertSorted x t

abbrev Cache := List (List Ix × Costs)

def Cache.get? : Cache → List Ix → Option Costs
  | [], _ => none
  | (k, v) :: t, x => if k = x then some v else Cache.get? t x

def Cache.set : Cache → List Ix → Costs → Cache
  | [], x, v => [(x, v)]
  | (k, w) :: t, x, v => if k = x then (k, v) :: t else (k, w) :: Cache.set t x v

structure Targets where
  size : Option Nat
  /-- `target_overhead` as the fraction `p/q` -/
  overhead : Option (Nat × Nat)
  slices : Option Nat
deriving Repr, BEq

def sizeLe (c : Costs) (t : Nat) : Bool :=
  match c.size with
  | none => true        -- `-inf <= t`
  | some s => decide (s ≤ t)

inductive TrialRes where
  | ok (key : List Ix) (cost : Costs)
  | forbidden          -- RuntimeError("Ran out of valid indices to slice.")
  | keyError           -- an exception inside `remove`
  | valueError         -- `max()` over an empty `cost.size_dict`
  | badOracle          -- the supplied oracle answer is missing or not a key of `cost.size_dict`
                       -- (never in a real run: `max` returns an element of its argument)
deriving Repr, BEq

/-- `SliceFinder.trial` (slicer.py:333-406). The arg-max of the (floating point, randomised)
    score is an *oracle*: `picks` lists the index chosen at each iteration. Everything else is
    transcribed: the `forbidden` test, the cache lookup / `cost.remove(ix)`, the three termination
    tests and their order. -/
def trialLoop (forbidden : List Ix) (tg : Targets) :
    List Ix → Cache → List Ix → Costs → Cache × TrialRes
  | [], cache, _, cost => (cache, if cost.sizeDict.isEmpty then .valueError else .badOracle)
  | ix :: picks, cache, key, cost =>
    if cost.sizeDict.isEmpty then (cache, .valueError) else
    if !AL.has cost.sizeDict ix then (cache, .badOracle) else
    -- evaluating the scores touches the defaultdicts of the cached object
    let cost := cost.touchAll
    let cache := cache.set key cost
    if forbidden.contains ix then (cache, .forbidden) else
    let nkey := insertSorted ix key
    let step : Option (Cache × Costs) :=
      match cache.get? nkey with
      | some nc => some (cache, nc)
      | none => match cost.remove ix with
        | none => none
        | some nc => some (cache.set nkey nc, nc)
    match step with
    | none => (cache, .keyError)
    | some (cache, ncost) =>
      if (match tg.overhead with | some (p, q) => !ncost.overheadLe p q | none => false) then
        (cache, .ok key cost)
      else if (match tg.slices with | some s => decide (s ≤ ncost.nslices) | none => false) then
        (cache, .ok nkey ncost)
      else if (match tg.size with | some s => sizeLe ncost s | none => false) then
        (cache, .ok nkey ncost)
      else trialLoop forbidden tg picks cache nkey ncost

def alreadySatisfied (tg : Targets) (c : Costs) : Bool :=
  (match tg.size with | some s => sizeLe c s | none => false) ||
  (match tg.overhead with | some (p, q) => !c.overheadLe p q | none => false) ||
  (match tg.slices with | some s => decide (s ≤ c.nslices) | none => false)

def trial (forbidden : List Ix) (tg : Targets) (picks : List Ix) (cache : Cache) :
    Cache × TrialRes :=
  match cache.get? [] with
  | none => (cache, .keyError)
  | some cost =>
    if alreadySatisfied tg cost then (cache, .ok [] cost)
    else trialLoop forbidden tg picks cache [] cost

/-- the filter of `best` (slicer.py:306-316) -/
def valid (tg : Targets) (c : Costs) : Bool :=
  (match tg.size with | some s => sizeLe c s | none => true) &&
  (match tg.overhead with | some (p, q) => c.overheadLe p q | none => true) &&
  (match tg.slices with | some s => decide (s ≤ c.nslices) | none => true)

/-- `best_scorer` (slicer.py:318-326) as a triple compared lexicographically; a missing size
    (`-inf`) sorts below every number -/
def scorer (tg : Targets) (c : Costs) : Int × Int × Int :=
  let sz : Int := match c.size with | none => -1 | some s => s
  if tg.size.isSome || tg.slices.isSome then (c.totalFlops, (c.nslices : Int), sz)
  else (sz, c.totalFlops, (c.nslices : Int))

def lexLt (a b : Int × Int × Int) : Bool :=
  a.1 < b.1 || (a.1 == b.1 && (a.2.1 < b.2.1 || (a.2.1 == b.2.1 && a.2.2 < b.2.2)))

/-- python `min(iterable, key=…)`: the first minimal element; `none` = `ValueError` (empty) -/
def minBy (f : Costs → Int × Int × Int) : List (List Ix × Costs) → Option (List Ix × Costs)
  | [] => none
  | x :: t => some (t.foldl (fun best y => if lexLt (f y.2) (f best.2) then y else best) x)

/-- `SliceFinder.best` with `k=None` -/
def best (tg : Targets) (cache : Cache) : Option (List Ix × Costs) :=
  minBy (scorer tg) (cache.filter fun kv => valid tg kv.2)

/-- python's `sorted(valid, key=best_scorer)` (stable): insertion of `x` in front of the first
    element that is not smaller -/
def insertByScore (f : Costs → Int × Int × Int) (x : List Ix × Costs) :
    List (List Ix × Costs) → List (List Ix × Costs)
  | [] => [x]
  | y :: t => if lexLt (f y.2) (f x.2) then y :: insertByScore f x t else x :: y :: t

def sortByScore (f : Costs → Int × Int × Int) (l : List (List Ix × Costs)) : List (List Ix × Costs) :=
  l.foldr (insertByScore f) []

/-- `SliceFinder.best(k=…)` (slicer.py:329-331): the `k` best valid slicings, best first -/
def bestK (tg : Targets) (cache : Cache) (k : Nat) : List (List Ix × Costs) :=
  (sortByScore (scorer tg) (cache.filter fun kv => valid tg kv.2)).take k

/-- `forbidden` as set up in `__init__` (slicer.py:256-267); `allowOuter`: 0 = False, 1 = True,
    2 = 'only' -/
def forbiddenOf (output : List Ix) (sizeDict : List (Ix × Nat)) (allowOuter : Nat) : List Ix :=
  if allowOuter = 2 then (AL.keys sizeDict).filter (fun ix => !output.contains ix)
  else if allowOuter = 1 then []
  else output

/-- `search` (slicer.py:408-429): `max_repeats` trials (each with its own oracle answers), then
    `best`. An exception in a trial aborts the search. -/
def searchLoop (forbidden : List Ix) (tg : Targets) : List (List Ix) → Cache → Cache × Option TrialRes
  | [], cache => (cache, none)
  | picks :: rest, cache =>
    match trial forbidden tg picks cache with
    | (cache', .ok _ _) => searchLoop forbidden tg rest cache'
    | (cache', r) => (cache', some r)

/-! ## one finder object serving several `search` calls (slicer.py:284-287, 408-429)

`search(max_repeats, temperature, target_size, target_overhead, target_slices)` forwards its
per-call targets to every `trial` *and* to the final `best`; each of the two resolves an argument
that is `None` to the attribute set by `__init__` (`_maybe_default`). The cache `self.costs`
persists between calls. -/

/-- `_maybe_default`, field by field: the per-call value when given, else the constructor's -/
def Targets.orElse (call ctor : Targets) : Targets :=
  { size := match call.size with | some s => some s | none => ctor.size,
    overhead := match call.overhead with | some s => some s | none => ctor.overhead,
    slices := match call.slices with | some s => some s | none => ctor.slices }

/-- one `search(...)` call: its per-call targets and the oracle answers of its trials -/
structure Call where
  over : Targets
  trials : List (List Ix)

/-- the cache after the trials of one call (whether or not a trial raised: the object and its
    cache survive an exception) -/
def callCache (forbidden : List Ix) (tg0 : Targets) (cl : Call) (cache : Cache) : Cache :=
  (searchLoop forbidden (cl.over.orElse tg0) cl.trials cache).1

/-- the cache after a history of `search` calls on one finder -/
def sessionCache (forbidden : List Ix) (tg0 : Targets) : List Call → Cache → Cache
  | [], cache => cache
  | cl :: rest, cache => sessionCache forbidden tg0 rest (callCache forbidden tg0 cl cache)

/-- what one `search(...)` call returns on a finder whose cache is `cache`: `none` = it raised
    (a trial raised, or `best` found nothing valid) -/
def callResult (forbidden : List Ix) (tg0 : Targets) (cl : Call) (cache : Cache) :
    Option (List Ix × Costs) :=
  match searchLoop forbidden (cl.over.orElse tg0) cl.trials cache with
  | (cache', none) => best (cl.over.orElse tg0) cache'
  | (_, some _) => none

/-! ## the tree's contractions (`from_contraction_tree`, slicer.py:95-112) -/

/-- the tuple built for one internal node `s` of the complete tree `t` -/
def conOf (n : Net) (rm : List Ix) (t s : BT) : Con :=
  { involved := Legs.keys (n.involved rm s),
    legs := if s == t then Legs.keys (n.rootLegs rm) else Legs.keys (n.legs rm s),
    size := n.sizeIn rm t s,
    flops := n.nodeFlops rm s }

/-- contractions in children-first order (the real order is `tree.info`'s dict order; every
    theorem is stated for an arbitrary reordering, see `Props/C07.lean`) -/
def treeCons (n : Net) (rm : List Ix) (t : BT) : List Con := t.internal.map (conOf n rm t)

end Slicer
end Cotengra
