/-!
  Association lists keyed by naturals: the model of a python `dict` (first match wins, insertion
  order kept). Core Lean only.
-/
namespace Cotengra

/- association lists keyed by naturals: a python `dict` -/
namespace AL
variable {α : Type}

def get? : List (Nat × α) → Nat → Option α
  | [], _ => none
  | (k, v) :: t, x => if k = x then some v else get? t x

def has (d : List (Nat × α)) (x : Nat) : Bool := (get? d x).isSome

/-- `d[x] = v` -/
def set : List (Nat × α) → Nat → α → List (Nat × α)
  | [], x, v => [(x, v)]
  | (k, w) :: t, x, v => if k = x then (k, v) :: t else (k, w) :: set t x v

/-- `del d[x]` / `d.pop(x)` (the caller checks presence) -/
def del (d : List (Nat × α)) (x : Nat) : List (Nat × α) := d.filter (fun kv => kv.1 != x)

def keys (d : List (Nat × α)) : List Nat := d.map (·.1)

end AL

end Cotengra
