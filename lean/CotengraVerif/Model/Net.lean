/-
  Shared model: networks, ordered legs ("dict ix -> count"), binary trees and the
  per-node bookkeeping of `ContractionTree` (cotengra/core.py:743-848).

  Core Lean only (no Mathlib) so that the compiled driver can link it.
-/
namespace Cotengra

abbrev Ix := Nat

/-- An ordered python `dict[ix, int]`: association list, first match wins,
    insertion order kept (the order matters for `get_inds`). -/
abbrev Legs := List (Ix × Nat)

namespace Legs

/-- `d.get(ix, 0)` -/
def get : Legs → Ix → Nat
  | [], _ => 0
  | (k, v) :: t, ix => if k = ix then v else get t ix

/-- `ix in d` -/
def has : Legs → Ix → Bool
  | [], _ => false
  | (k, _) :: t, ix => k == ix || has t ix

/-- `d[ix] = d.get(ix, 0) + c` (in place if present, else appended) -/
def add : Legs → Ix → Nat → Legs
  | [], ix, c => [(ix, c)]
  | (k, v) :: t, ix, c => if k = ix then (k, v + c) :: t else (k, v) :: add t ix c

/-- `legs_union` for two operands (core.py:86): copy the first, add the second's items. -/
def union (a b : Legs) : Legs :=
  b.foldl (fun acc kv => add acc kv.1 kv.2) a

/-- `legs_without` (core.py:98). -/
def without (a : Legs) (ix : Ix) : Legs :=
  a.filter (fun kv => kv.1 != ix)

def keys (a : Legs) : List Ix := a.map (·.1)

/-- counting dict of a term: `for ix in term: legs[ix] = legs.get(ix, 0) + 1` -/
def ofTerm (term : List Ix) : Legs :=
  term.foldl (fun acc ix => add acc ix 1) []

end Legs

/-- A contraction network. `sizes` is the python `size_dict` as an association list. -/
structure Net where
  inputs : List (List Ix)
  output : List Ix
  sizes : List (Ix × Nat)
deriving Repr, BEq, Inhabited

namespace Net

/-- `size_dict[ix]`. The real code raises `KeyError` for a missing key; the harness only ever
    sends total size dicts, and every theorem that needs it assumes sizes ≥ 1 explicitly. -/
def size (n : Net) (ix : Ix) : Nat :=
  match n.sizes.lookup ix with
  | some d => d
  | none => 1

/-- number of occurrences of `ix` in a term -/
def occ (term : List Ix) (ix : Ix) : Nat := term.count ix

/-- `appearances[ix]` (core.py:238-246): occurrences over all inputs (with multiplicity)
    plus occurrences in the output. -/
def appIn (n : Net) (ix : Ix) : Nat := (n.inputs.map (occ · ix)).sum
def app (n : Net) (ix : Ix) : Nat := n.appIn ix + occ n.output ix

def term (n : Net) (i : Nat) : List Ix := n.inputs.getD i []

/-- the i-th term after removing sliced indices (`compute_leaf_legs`, core.py:749-754) -/
def termRm (n : Net) (rm : List Ix) (i : Nat) : List Ix :=
  (n.term i).filter (fun ix => !rm.contains ix)

/-- `compute_size_by_dict(legs, size_dict)` -/
def sizeOfLegs (n : Net) (l : Legs) : Nat :=
  (l.map (fun kv => n.size kv.1)).foldl (· * ·) 1

/-- `compute_leaf_legs` (core.py:743): returns the leaf legs and whether a preprocessing
    step is recorded. -/
def leafLegsPre (n : Net) (rm : List Ix) (i : Nat) : Legs × Bool :=
  let term := n.termRm rm i
  let legs := Legs.ofTerm term
  let simplifiable := (term.length != legs.length) || legs.any (fun kv => kv.2 == n.app kv.1)
  if simplifiable then (legs.filter (fun kv => kv.2 != n.app kv.1), true) else (legs, false)

def leafLegs (n : Net) (rm : List Ix) (i : Nat) : Legs := (n.leafLegsPre rm i).1

/-- the dict comprehension at core.py:821 -/
def keepOpen (n : Net) (involved : Legs) : Legs :=
  involved.filter (fun kv => kv.2 < n.app kv.1)

end Net

/-- Binary contraction trees over input positions. -/
inductive BT where
  | leaf : Nat → BT
  | node : BT → BT → BT
deriving Repr, BEq, Inhabited

namespace BT

def leaves : BT → List Nat
  | leaf i => [i]
  | node l r => l.leaves ++ r.leaves

/-- internal nodes (as subtrees), children first -/
def internal : BT → List BT
  | leaf _ => []
  | node l r => l.internal ++ r.internal ++ [node l r]

end BT

namespace Net

/-- `get_legs` for a non-root node, computed recursively from the children as the code does
    (core.py:816-825 with `get_involved`, :828-833). -/
def legs (n : Net) (rm : List Ix) : BT → Legs
  | .leaf i => n.leafLegs rm i
  | .node l r => n.keepOpen (Legs.union (n.legs rm l) (n.legs rm r))

/-- `get_involved` (core.py:828). -/
def involved (n : Net) (rm : List Ix) : BT → Legs
  | .leaf _ => []
  | .node l r => Legs.union (n.legs rm l) (n.legs rm r)

/-- root legs (core.py:811-814) -/
def rootLegs (n : Net) (rm : List Ix) : Legs :=
  (n.output.filter (fun ix => !rm.contains ix)).map (fun ix => (ix, 0))

/-- `get_size` of a non-root node -/
def nodeSize (n : Net) (rm : List Ix) (t : BT) : Nat := n.sizeOfLegs (n.legs rm t)

/-- `get_flops` (core.py:841) -/
def nodeFlops (n : Net) (rm : List Ix) : BT → Nat
  | .leaf _ => 0
  | t => n.sizeOfLegs (n.involved rm t)

/-- number of occurrences of `ix` in the (sliced) terms of the leaves under a node -/
def cnt (n : Net) (rm : List Ix) (t : BT) (ix : Ix) : Nat :=
  (t.leaves.map (fun i => occ (n.termRm rm i) ix)).sum

end Net

end Cotengra
