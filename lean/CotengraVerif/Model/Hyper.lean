/-
  Model of the driver-side logic of `HyperOptimizer` (cotengra/hyperoptimizers/hyper.py):

    * `report`      = `_maybe_report_result`                       (hyper.py:575-603)
    * `assess`      = body of the `for trial in trials` loop       (hyper.py:712-726)
    * `serialLoop`  = `_gen_results` consumed by `_search`         (hyper.py:605-621, 712-730)
    * `parPhase1/2` = `_gen_results_parallel` + `_get_and_report_next_future`
                      consumed by `_search`, then `_maybe_cancel_futures`
                                                                   (hyper.py:569-573, 623-657, 712-735)
    * `StopRule`    = the three `should_stop` closures             (hyper.py:661-688)

  Scores are Python floats compared with `<` only; the model uses `Option Nat` (`none` =
  `float('inf')`), any order embedding of the finite floats into `Nat` commutes with every
  definition here (`Props/C08.lean: runLog_map_mono`).  NaN scores are out of scope.

  Oracles (universally quantified in the theorems): the sampler `getSetting`, the worker-side
  trial function `trialFn` (result of `ComputeScore(...)`), the completion choices of the pool
  and the time-based stop decisions.

  Core Lean only (the compiled driver links this file).
-/
namespace Cotengra
namespace Hyper

/-- a score or cost figure: `none` is `float('inf')` -/
abbrev Score := Option Nat

/-- Python `a < b` on floats (no NaN) -/
def slt : Score → Score → Bool
  | some a, some b => decide (a < b)
  | some _, none => true
  | none, _ => false

/-- `a <= b` -/
def sle (a b : Score) : Bool := !slt b a

def smin (a b : Score) : Score := if slt b a then b else a

/-- minimum of a list of scores (`inf` for the empty list) -/
def minScore (l : List Score) : Score := l.foldl smin none

/-- what `get_setting` returns: `{"method": m, "params": p}` (both opaque ids) -/
structure Setting where
  method : Nat
  params : Nat
deriving DecidableEq, Repr, Inhabited

/-- the trial dict as the driver side reads it (`score`, `flops`, `write`, `size`, `tree`).
    `tree = none` models a record without a `"tree"` key (the failure record of `ComputeScore`);
    the payload of `tree` is the identity of the contraction the tree was built for. -/
structure Trial where
  score : Score
  flops : Score
  write : Score
  size : Score
  tree : Option Nat
deriving DecidableEq, Repr, Inhabited

/-- `self.best` once it has been replaced by a trial: the trial dict plus the two keys written
    at hyper.py:717-718, read from the *last* entries of `param_choices` / `method_choices`. -/
structure BestRec where
  trial : Trial
  params : Option Nat
  method : Option Nat
deriving DecidableEq, Repr, Inhabited

structure HState where
  methodChoices : List Nat := []
  paramChoices : List Nat := []
  scores : List Score := []
  costsFlops : List Score := []
  costsWrite : List Score := []
  costsSize : List Score := []
  /-- `self.best_score` (only steers what is reported to the optlib) -/
  bestScore : Score := none
  /-- `self.best`; `none` = the initial `{"score": inf, "size": inf, "flops": inf}` -/
  best : Option BestRec := none
  trialsSinceBest : Nat := 0
  /-- calls of `self._optimizer["report_result"]`: (params id, score), chronological -/
  optlibReports : List (Nat × Score) := []
  /-- constructor argument `max_training_steps` -/
  maxTrainingSteps : Option Nat := none
  /-- ghost: number of `get_setting` calls so far (identifies a submission) -/
  submitted : Nat := 0
deriving DecidableEq, Repr, Inhabited

def HState.init (mts : Option Nat := none) : HState := { maxTrainingSteps := mts }

/-- `self.best["score"]` -/
def HState.curBest (st : HState) : Score :=
  match st.best with
  | none => none
  | some b => b.trial.score

/-- `self.best["flops"]` (read by the `rate:` stop rule) -/
def HState.curBestFlops (st : HState) : Score :=
  match st.best with
  | none => none
  | some b => b.trial.flops

/-- `_maybe_report_result(setting, trial)` -/
def report (st : HState) (s : Setting) (t : Trial) : HState :=
  let newBest := slt t.score st.bestScore
  let withinTraining :=
    match st.maxTrainingSteps with
    | none => true
    | some m => decide (st.scores.length < m)
  let shouldReport := (withinTraining || newBest) && slt t.score none
  { st with
    bestScore := if newBest then t.score else st.bestScore
    optlibReports := if shouldReport then st.optlibReports ++ [(s.params, t.score)]
                     else st.optlibReports
    methodChoices := st.methodChoices ++ [s.method]
    paramChoices := st.paramChoices ++ [s.params]
    costsFlops := st.costsFlops ++ [t.flops]
    costsWrite := st.costsWrite ++ [t.write]
    costsSize := st.costsSize ++ [t.size]
    scores := st.scores ++ [t.score] }

/-- loop body at hyper.py:712-726 -/
def assess (st : HState) (t : Trial) : HState :=
  if slt t.score st.curBest then
    { st with
      trialsSinceBest := 0
      best := some { trial := t, params := st.paramChoices.getLast?,
                     method := st.methodChoices.getLast? } }
  else
    { st with trialsSinceBest := st.trialsSinceBest + 1 }

/-- one trial completing: reported by the generator, then assessed by `_search` -/
def complete (st : HState) (s : Setting) (t : Trial) : HState := assess (report st s t) t

/-- `should_stop` -/
inductive StopRule where
  /-- `max_time=None` -/
  | never
  /-- `max_time='equil:<amount>'` -/
  | equil (amount : Nat)
  /-- wall-clock rules (`max_time=<float>` or `'rate:<r>'`): the k-th evaluation answers the
      k-th bit, `false` once the list is used up (an arbitrary environment) -/
  | clock (bits : List Bool)
deriving Repr, Inhabited

/-- evaluate `should_stop()` once; returns the answer and the rule for the next evaluation -/
def StopRule.next : StopRule → HState → Bool × StopRule
  | .never, _ => (false, .never)
  | .equil a, st => (decide (st.trialsSinceBest > a), .equil a)
  | .clock [], _ => (false, .clock [])
  | .clock (b :: bs), _ => (b, .clock bs)

/-- the oracles of a search -/
structure Env where
  /-- `self._optimizer["get_setting"](self)`; may depend on everything the object has seen -/
  getSetting : HState → Setting
  /-- worker side: `ComputeScore(trial_fn)(*args, method, **params)` of the k-th submission -/
  trialFn : Nat → Setting → Trial

/-- set the ghost submission counter -/
def setSub (st : HState) (n : Nat) : HState := { st with submitted := n }

/-- `_gen_results` consumed by the assessing loop: `repeats` iterations unless stopped -/
def serialLoop (env : Env) : Nat → StopRule → HState → HState
  | 0, _, st => st
  | k + 1, stop, st =>
    let s := env.getSetting st
    let st1 := complete (setSub st (st.submitted + 1)) s (env.trialFn st.submitted s)
    if (stop.next st1).1 then st1 else serialLoop env k (stop.next st1).2 st1

/-- driver-side state of a parallel search -/
structure PState where
  h : HState
  /-- `self._futures`: (setting, submission number), in submission order -/
  futures : List (Setting × Nat) := []
  /-- submission numbers of the futures popped by `_maybe_cancel_futures` -/
  cancelled : List Nat := []
deriving Repr, Inhabited

/-- remove the element at position `c % length` (any pending future may be the first one found
    `done()` by the scan at hyper.py:626-632) -/
def pickAt {α : Type} : List α → Nat → Option (α × List α)
  | [], _ => none
  | a :: l, c =>
    let i := c % (l.length + 1)
    match (a :: l)[i]? with
    | none => none
    | some x => some (x, (a :: l).eraseIdx i)

/-- `_get_and_report_next_future` followed by the assessment of the returned trial -/
def completeP (env : Env) (ps : PState) (c : Nat) : PState :=
  match pickAt ps.futures c with
  | none => ps
  | some ((s, k), rest) =>
    { ps with h := complete ps.h s (env.trialFn k s), futures := rest }

/-- `_maybe_cancel_futures` -/
def cancel (ps : PState) : PState :=
  { ps with futures := [], cancelled := ps.cancelled ++ ps.futures.reverse.map (·.2) }

/-- `submit(...)`, `self._futures.append((setting, future))` -/
def submit (ps : PState) (s : Setting) : PState :=
  { ps with h := setSub ps.h (ps.h.submitted + 1), futures := ps.futures ++ [(s, ps.h.submitted)] }

/-- `while self._futures: yield …` (fuel = number of pending futures) -/
def parPhase2 (env : Env) : Nat → StopRule → List Nat → PState → PState
  | 0, _, _, ps => cancel ps
  | f + 1, stop, cs, ps =>
    if ps.futures.isEmpty then cancel ps
    else
      let ps1 := completeP env ps (cs.headD 0)
      if (stop.next ps1.h).1 then cancel ps1 else parPhase2 env f (stop.next ps1.h).2 cs.tail ps1

/-- `for _ in repeats: submit …; if len(futures) >= pre_dispatch: yield …` then phase 2 -/
def parPhase1 (env : Env) (pre : Nat) : Nat → StopRule → List Nat → PState → PState
  | 0, stop, cs, ps => parPhase2 env ps.futures.length stop cs ps
  | k + 1, stop, cs, ps =>
    let ps0 := submit ps (env.getSetting ps.h)
    if ps0.futures.length ≥ pre then
      let ps1 := completeP env ps0 (cs.headD 0)
      if (stop.next ps1.h).1 then cancel ps1
      else parPhase1 env pre k (stop.next ps1.h).2 cs.tail ps1
    else parPhase1 env pre k stop cs ps0

/-- `_search` without a pool -/
def searchSerial (env : Env) (maxRepeats : Nat) (stop : StopRule) (st : HState) : HState :=
  serialLoop env maxRepeats stop st

/-- `_search` with a pool; `choices` resolves which pending future completes next -/
def searchParallel (env : Env) (pre maxRepeats : Nat) (stop : StopRule) (choices : List Nat)
    (st : HState) : PState :=
  parPhase1 env pre maxRepeats stop choices { h := st }

/-- `self.tree` = `self.best["tree"]`: `none` models the `KeyError` raised when no trial ever
    beat the initial record -/
def HState.tree (st : HState) : Option Nat :=
  match st.best with
  | none => none
  | some b => b.trial.tree

/-! ### specification-side helpers (used by the theorems and printed by the driver) -/

/-- a completion log: the (setting, trial) pairs in the order they were reported -/
abbrev Log := List (Setting × Trial)

def runLog (st : HState) (log : Log) : HState :=
  log.foldl (fun st e => complete st e.1 e.2) st

/-- the five parallel lists zipped back into rows -/
def HState.rows (st : HState) : List (Nat × Nat × Score × Score × Score × Score) :=
  List.zip st.methodChoices (List.zip st.paramChoices (List.zip st.scores
    (List.zip st.costsFlops (List.zip st.costsWrite st.costsSize))))

def rowOf (e : Setting × Trial) : Nat × Nat × Score × Score × Score × Score :=
  (e.1.method, e.1.params, e.2.score, e.2.flops, e.2.write, e.2.size)

end Hyper
end Cotengra
