/-
  C19 — exponent stripping.  Executable model, generic in the scalar type `α` (the driver runs it
  over core `Rat`, the theorems of `Props/C19.lean` are about the same definitions over any
  linearly ordered field, in particular ℝ).  Core Lean only.

  Transcribed from /repo:

  * `Contractor.__call__` (cotengra/contract.py:766-803): the loop over `contractions` with the
    dictionary `temps` (`temps.pop(l)`, `temps.pop(r)`, `temps[p] = …`), single-term
    simplifications done in place *without* normalisation, and for every pairwise contraction
        factor = max(abs(p_array));  [check_zero: if factor == 0: return 0.0, -inf]
        exponent = exponent + log10(factor);  p_array = p_array / factor
  * `add_maybe_exponent_stripped` (cotengra/core.py:135-161)
  * the stripped branch of `gather_slices` (cotengra/core.py:3295-3348): chunks are summed with
    `add_maybe_exponent_stripped`, then rescaled to the largest exponent before stacking
  * `_wrap_strip_exponent_final` (cotengra/interface.py:564): `(fn(x), 0.0)`

  **Exponents are kept as factors.**  The code accumulates `e = Σ log10 f` and forms `10 ** (xe - e)`;
  the model accumulates the list of factors `f` (so that `F = Π f`, `e = log10 F`) and forms
  `Fx / F`.  `Props/C19.lean` defines the log-domain versions over ℝ and proves that they are the
  images of these definitions under `F = 10 ^ e` (`addLog_eq_addStripped`, `exponent_eq_log_prod`).
  Nothing in `Model/` mentions logarithms, so the same code runs over exact rationals.

  The array primitives (`einsum`, `tensordot` + `transpose`) are modelled by their meaning:
  `contract` sums the products of the entries over all assignments of the indices that do not
  survive (functional specification; trusted, validated against numpy on every run).
-/
namespace Cotengra.Strip

abbrev Ix := Nat

/-- an assignment of values to indices (association list; missing = 0) -/
abbrev Asg := List (Ix × Nat)

def Asg.get (a : Asg) (ix : Ix) : Nat :=
  match a.lookup ix with
  | some v => v
  | none => 0

/-- all assignments of the given indices, row-major (first index slowest) -/
def assignments (size : Ix → Nat) : List Ix → List Asg
  | [] => [[]]
  | ix :: rest =>
    (List.range (size ix)).flatMap fun v => (assignments size rest).map fun a => (ix, v) :: a

/-- row-major position of the entry selected by `a` in an array with axes `inds`
    (a repeated axis reads the same value twice: diagonals come for free) -/
def pos (size : Ix → Nat) (inds : List Ix) (a : Asg) : Nat :=
  inds.foldl (fun acc ix => acc * size ix + a.get ix) 0

structure Tensor (α : Type) where
  inds : List Ix
  data : List α
deriving Repr, BEq, DecidableEq

variable {α : Type}

section ops
variable [Add α] [Mul α] [Zero α]

def Tensor.at (size : Ix → Nat) (t : Tensor α) (a : Asg) : α := t.data.getD (pos size t.inds a) 0

def dedup : List Ix → List Ix
  | [] => []
  | x :: xs => if xs.contains x then dedup xs else x :: dedup xs

/-- indices of the operands that are summed: those not kept in the output -/
def summedOf (inds out : List Ix) : List Ix := dedup (inds.filter fun ix => !out.contains ix)

/-- meaning of `einsum(eq, l, r)` / `tensordot(l, r, axes)` + `transpose(perm)` for the step that
    produces an array with axes `out` -/
def contract (size : Ix → Nat) (l r : Tensor α) (out : List Ix) : Tensor α :=
  { inds := out,
    data := (assignments size out).map fun ao =>
      ((assignments size (summedOf (l.inds ++ r.inds) out)).map fun as =>
        l.at size (as ++ ao) * r.at size (as ++ ao)).sum }

/-- meaning of the single-term simplification `einsum("abb->a", x)` -/
def reduce1 (size : Ix → Nat) (t : Tensor α) (out : List Ix) : Tensor α :=
  { inds := out,
    data := (assignments size out).map fun ao =>
      ((assignments size (summedOf t.inds out)).map fun as => t.at size (as ++ ao)).sum }

/-- `c * x` entrywise -/
def scale (c : α) (t : Tensor α) : Tensor α := { t with data := t.data.map fun x => c * x }

/-- entrywise sum of two arrays of the same shape -/
def addT (x y : Tensor α) : Tensor α := { x with data := List.zipWith (· + ·) x.data y.data }

end ops

section norm
variable [Neg α] [Max α] [Zero α]

def absv (x : α) : α := max x (-x)

/-- `max(abs(x))` -/
def maxAbs (d : List α) : α := d.foldl (fun m x => max m (absv x)) 0

end norm

/-! ## the contraction loop -/

inductive Step where
  /-- `temps[i] = einsum(eq, temps[i])`, result axes `out` -/
  | pre (i : Nat) (out : List Ix)
  /-- `temps[p] = contract(temps.pop(l), temps.pop(r))`, result axes `out` -/
  | pair (p l r : Nat) (out : List Ix)
deriving Repr

/-- the live keys after a step (`temps.pop(l)`, `temps.pop(r)`, `temps[p] = …`) -/
def keysStep (ks : List Nat) : Step → List Nat
  | .pre i _ => i :: ks.filter (· != i)
  | .pair p l r _ => p :: ((ks.filter (· != l)).filter (· != r)).filter (· != p)

/-- executable well-formedness of a program against the live keys: the key written by a pairwise
    step is not live (a new intermediate).  That the operands *are* live is checked by the
    interpreter itself (`none` = `KeyError`). -/
def wfB : List Step → List Nat → Bool
  | [], _ => true
  | st :: rest, ks =>
    (match st with
     | .pre _ _ => true
     | .pair p l r _ => !((ks.filter (· != l)).filter (· != r)).contains p) && wfB rest (keysStep ks st)

/-- the dictionary `temps`: live intermediates by key -/
abbrev Temps (α : Type) := List (Nat × Tensor α)

def Temps.get? (t : Temps α) (k : Nat) : Option (Tensor α) := t.lookup k
def Temps.erase (t : Temps α) (k : Nat) : Temps α := t.filter fun kv => kv.1 != k
def Temps.set (t : Temps α) (k : Nat) (v : Tensor α) : Temps α := (k, v) :: t.erase k

/-- state of a stripped run: live intermediates, the factors divided out so far (in order),
    whether `check_zero` stopped the run (`return 0.0, -inf`), and whether a division by a zero
    factor has happened (`p_array / 0.0`: every entry of the mantissa is `nan` from then on, and
    `log10(0) = -inf` has entered the exponent) -/
structure SState (α : Type) where
  temps : Temps α
  factors : List α
  zero : Bool := false
  nan : Bool := false
deriving DecidableEq

section run
variable [Add α] [Mul α] [Div α] [Neg α] [Zero α] [Max α] [DecidableEq α]

/-- one iteration of the loop without stripping; `none` = `KeyError` -/
def stepPlain (size : Ix → Nat) (t : Temps α) : Step → Option (Temps α)
  | .pre i out => do
    let x ← t.get? i
    pure (t.set i (reduce1 size x out))
  | .pair p l r out => do
    let a ← t.get? l
    let t1 := t.erase l
    let b ← t1.get? r
    let t2 := t1.erase r
    pure (t2.set p (contract size a b out))

def runPlain (size : Ix → Nat) : List Step → Temps α → Option (Temps α)
  | [], t => some t
  | s :: rest, t => (stepPlain size t s).bind (runPlain size rest)

/-- one iteration with `strip_exponent=True` -/
def stepStrip (size : Ix → Nat) (checkZero : Bool) (s : SState α) : Step → Option (SState α)
  | .pre i out => do
    if s.zero || s.nan then pure s else
    let x ← s.temps.get? i
    pure { s with temps := s.temps.set i (reduce1 size x out) }
  | .pair p l r out => do
    if s.zero || s.nan then pure s else
    let a ← s.temps.get? l
    let t1 := s.temps.erase l
    let b ← t1.get? r
    let t2 := t1.erase r
    let q := contract size a b out
    let f := maxAbs q.data
    if decide (f = 0) then
      -- an all-zero intermediate
      if checkZero then pure { s with zero := true }
      else pure { s with temps := t2.set p q, nan := true }      -- 0/0: the mantissa is lost
    else pure { s with temps := t2.set p { q with data := q.data.map fun x => x / f },
                       factors := s.factors ++ [f] }

def runStrip (size : Ix → Nat) (checkZero : Bool) : List Step → SState α → Option (SState α)
  | [], s => some s
  | st :: rest, s => (stepStrip size checkZero s st).bind (runStrip size checkZero rest)

end run

/-! ## (mantissa, factor) pairs: `add_maybe_exponent_stripped` and `gather_slices` -/

/-- a stripped array: the value is `factor * mantissa` -/
structure Stripped (α : Type) where
  m : Tensor α
  f : α
deriving DecidableEq

section pairs
variable [Add α] [Mul α] [Div α] [Zero α] [Max α]

def Stripped.val (x : Stripped α) : Tensor α := scale x.f x.m

/-- `add_maybe_exponent_stripped` on two tuples (core.py:156-159):
    `e = max(xe, ye); m = xm * 10 ** (xe - e) + ym * 10 ** (ye - e)` with `F = 10 ** e` -/
def addStripped (x y : Stripped α) : Stripped α :=
  let F := max x.f y.f
  { m := addT (scale (x.f / F) x.m) (scale (y.f / F) y.m), f := F }

/-- `functools.reduce(add_maybe_exponent_stripped, slices)` -/
def sumStripped : Stripped α → List (Stripped α) → Stripped α
  | acc, [] => acc
  | acc, s :: rest => sumStripped (addStripped acc s) rest

/-- the stripped branch of `gather_slices` after the per-chunk sums: the chunks are rescaled to
    the largest factor (`emax`) and handed to `stack`; returns the rescaled chunks and `emax` -/
def rescaleChunks (chunks : List (Stripped α)) : List (Tensor α) × α :=
  match chunks with
  | [] => ([], 0)
  | c :: cs =>
    let F := cs.foldl (fun m x => max m x.f) c.f
    ((c :: cs).map fun x => scale (x.f / F) x.m, F)

end pairs

/-! ## slice results with their status, and their combination -/

/-- what one slice returns: a finite pair, the `check_zero` exit `(0.0, -inf)`, or a `nan` mantissa -/
inductive SRes (α : Type) where
  | ok (s : Stripped α)
  | zero
  | nan
deriving DecidableEq

section sres
variable [Add α] [Mul α] [Div α] [Neg α] [Zero α] [One α] [Max α] [DecidableEq α]

def prodL : List α → α
  | [] => 1
  | f :: rest => f * prodL rest

/-- `contract_core(strip_exponent=True)` on one slice -/
def sliceRes (size : Ix → Nat) (checkZero : Bool) (steps : List Step) (T0 : Temps α) : Option (SRes α) :=
  match runStrip size checkZero steps { temps := T0, factors := [] } with
  | none => none
  | some S =>
    if S.nan then some .nan
    else if S.zero then some .zero
    else match S.temps with
      | [(_, m)] => some (.ok { m := m, f := prodL S.factors })
      | _ => none

/-- `add_maybe_exponent_stripped` on slice results.  `(0.0, -inf)` added to a finite pair leaves
    the pair unchanged (`0.0 * 10 ** -inf + ym * 1`); two `(0.0, -inf)` give `(0.0, -inf)` -- this
    is the code *after* fixes/C19-check-zero-slices.patch (before it: `10 ** (-inf - -inf) = nan`,
    see `addResOld`). -/
def addRes : SRes α → SRes α → SRes α
  | .nan, _ => .nan
  | _, .nan => .nan
  | .zero, .zero => .zero
  | .zero, .ok y => .ok y
  | .ok x, .zero => .ok x
  | .ok x, .ok y => .ok (addStripped x y)

/-- the unrepaired `add_maybe_exponent_stripped` -/
def addResOld : SRes α → SRes α → SRes α
  | .zero, .zero => .nan
  | x, y => addRes x y

def sumRes (add : SRes α → SRes α → SRes α) : SRes α → List (SRes α) → SRes α
  | acc, [] => acc
  | acc, s :: rest => sumRes add (add acc s) rest

/-- result of `gather_slices` in the stripped branch -/
inductive GRes (α : Type) where
  | ok (chunks : List (Tensor α)) (f : α)
  | zero
  | nan
deriving DecidableEq

def SRes.isNan : SRes α → Bool
  | .nan => true
  | _ => false

/-- the stripped branch of `gather_slices` on per-chunk results (after
    fixes/C19-check-zero-slices.patch): a `nan` chunk makes the stacked mantissa contain `nan`;
    if every chunk is `(0.0, -inf)` the result is `(0.0, -inf)`; otherwise the finite chunks are
    rescaled to the largest factor (`rescaleChunks`) and the zero chunks become `zeros_like` a
    finite chunk -/
def gatherRes (chunks : List (SRes α)) : GRes α :=
  if chunks.any SRes.isNan then .nan
  else
    let oks := chunks.filterMap fun c => match c with | .ok x => some x | _ => none
    match oks with
    | [] => .zero
    | t :: _ =>
      let F := (rescaleChunks oks).2
      .ok (chunks.map fun c =>
            match c with
            | .ok x => scale (x.f / F) x.m
            | _ => { t.m with data := t.m.data.map fun _ => 0 }) F

end sres

end Cotengra.Strip
