import CotengraVerif.Model.Reuse

/-
  Object identity of the sub-optimizer.

  `ReusableOptimizer._run_optimizer` (cotengra/reusable.py:280-285) asks the subclass for a
  sub-optimizer (`_get_suboptimizer()`: `HyperOptimizer(**kw)` in hyper.py,
  `RandomGreedyOptimizer(**kw)` in pathfinders/path_basic.py:1565-1566), searches with it,
  registers *the object* in `_suboptimizers[thread id]`, and `search` later returns
  `self.last_opt.tree` — whatever that object's `tree` is *at that moment*.

  `Model/Reuse.lean` stores optimizer states by value, which is sound only because every call gets
  a new object that nobody mutates after it was registered.  This model makes that premise
  explicit: a heap of optimizer objects, `_suboptimizers[t]` holds a *reference*, and
  `_get_suboptimizer` follows a policy —

    * `fresh`  : a new object per call (the code);
    * `shared` : one object made in `__init__`, wiped and handed out again for every call, with a
                 lock held for the duration of `_run_optimizer` (seeded change C16-r3-2).

  A sub-search is a sequence of trial steps (one heap mutation each), so searches of different
  threads interleave at trial granularity.

  Core Lean only.
-/
namespace Cotengra
namespace ReuseShared
open Hyper Reuse

inductive Policy where
  | fresh | shared
deriving DecidableEq, Repr

/-- one `Reusable*Optimizer` with its sub-optimizer objects -/
structure SObj where
  /-- the optimizer objects -/
  heap : Nat → HState
  /-- next unused reference (0 is the instance made in `__init__` under the `shared` policy) -/
  next : Nat
  /-- `_suboptimizers[thread id]`: a reference -/
  subopts : Nat → Option Nat
  cache : Nat → Option Con
  /-- holder of the lock around `_run_optimizer` (`shared` policy only) -/
  lock : Option Nat

inductive SPC where
  | idle
  | hashed (q : Query) (missing : Bool)
  /-- inside `opt.search(...)` of the object `ref`; `todo` = trials still to complete -/
  | searching (q : Query) (missing : Bool) (ref : Nat) (todo : Log)
  | ran (q : Query) (missing : Bool) (ref : Nat)
  | stored (q : Query) (missing : Bool) (con : Con)
  | compare (q : Query) (con old : Con)
  | have (q : Query) (searched : Bool) (con : Con)

structure SThread where
  queue : List Query := []
  pc : SPC := .idle
  results : List (Query × Option Nat) := []
  nsearch : Nat := 0

structure SCfg where
  policy : Policy := .fresh
  overwrite : Overwrite := .no
  cacheOnly : Bool := false
  /-- completion log of the `i`-th sub-search of thread `t` -/
  trials : Nat → Nat → Log

structure SSys where
  obj : SObj
  threads : Nat → SThread

def SThread.finish (th : SThread) (q : Query) (res : Option Nat) : SThread :=
  { th with pc := .idle, results := th.results ++ [(q, res)] }

/-- release the lock if thread `t` holds it (leaving the `with` block, also by an exception) -/
def unlock (o : SObj) (t : Nat) : SObj :=
  if o.lock = some t then { o with lock := none } else o

/-- new object state and new record of thread `t` -/
def put (s : SSys) (o : SObj) (t : Nat) (th : SThread) : SSys :=
  { obj := o, threads := updFn s.threads t th }

/-- thread `t` runs up to and including its next access to shared state / its next trial -/
def sstep (cfg : SCfg) (s : SSys) (t : Nat) : SSys :=
  let th := s.threads t
  let o := s.obj
  match th.pc with
  | .idle =>
    match th.queue with
    | [] => s
    | q :: rest => put s o t { th with queue := rest, pc := .hashed q (o.cache q.key).isNone }
  | .hashed q missing =>
    if missing || cfg.overwrite != .no then
      if cfg.cacheOnly then put s o t (th.finish q none)
      else
        match cfg.policy with
        | .fresh =>
          -- `opt = self._get_suboptimizer()`: a new object
          put s { o with heap := updFn o.heap o.next HState.init, next := o.next + 1 } t
            { th with pc := .searching q missing o.next (stamp q (cfg.trials t th.nsearch)),
                      nsearch := th.nsearch + 1 }
        | .shared =>
          match o.lock with
          | some _ => s                       -- `with self._shared_opt_lock:` blocks
          | none =>
            -- the one instance, its best path forgotten
            put s { o with heap := updFn o.heap 0 HState.init, lock := some t } t
              { th with pc := .searching q missing 0 (stamp q (cfg.trials t th.nsearch)),
                        nsearch := th.nsearch + 1 }
    else
      match o.cache q.key with
      | none => put s o t (th.finish q none)
      | some con => put s o t { th with pc := .have q false con }
  | .searching q missing ref todo =>
    match todo with
    | e :: rest =>
      put s { o with heap := updFn o.heap ref (complete (o.heap ref) e.1 e.2) } t
        { th with pc := .searching q missing ref rest }
    | [] =>
      match (o.heap ref).tree with
      | none => put s (unlock o t) t (th.finish q none)
      | some _ => put s o t { th with pc := .ran q missing ref }
  | .ran q missing ref =>
    -- `self._suboptimizers[thrid] = opt`; `_deconstruct_tree`; `_run_optimizer` returns
    let con : Con := { score := (o.heap ref).curBest, origin := ((o.heap ref).tree).getD q.net }
    put s (unlock { o with subopts := updFn o.subopts t (some ref) } t) t
      { th with pc := .stored q missing con }
  | .stored q missing con =>
    if cfg.overwrite = .improved && !missing then
      match o.cache q.key with
      | none => put s o t (th.finish q none)
      | some old => put s o t { th with pc := .compare q con old }
    else
      put s { o with cache := updFn o.cache q.key (some con) } t { th with pc := .have q true con }
  | .compare q con old =>
    if slt con.score old.score then
      put s { o with cache := updFn o.cache q.key (some con) } t { th with pc := .have q true con }
    else put s o t (th.finish q (some q.net))
  | .have q searched _ =>
    if searched then
      -- `self.last_opt.tree`: the tree the registered object has *now*
      match o.subopts t with
      | none => put s o t (th.finish q none)
      | some ref => put s o t (th.finish q (o.heap ref).tree)
    else put s o t (th.finish q (some q.net))

def srun (cfg : SCfg) (s : SSys) (sched : List Nat) : SSys := sched.foldl (sstep cfg) s

def SSys.start (queues : Nat → List Query) : SSys :=
  { obj := { heap := fun _ => HState.init, next := 1, subopts := fun _ => none,
             cache := fun _ => none, lock := none },
    threads := fun t => { queue := queues t } }

end ReuseShared
end Cotengra
