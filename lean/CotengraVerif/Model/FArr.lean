import CotengraVerif.Model.Net

/-!
  Functional arrays and the numpy-level primitives that `cotengra/contract.py` uses
  (`transpose`, `reshape`, `matmul`, broadcasting `multiply`, `sum`, advanced-index diagonal),
  plus the reference meaning of one- and two-operand einsum.

  This file is the *model of numpy* used by C11 (trusted base; validated on every run by evaluating
  these very definitions in the compiled driver against numpy / `harness/refimpl.py` on integer
  arrays).  Core Lean only.

  An array is a shape and a total function from multi-indices to `Int`; only the values at
  in-range multi-indices mean anything.
-/
namespace Cotengra.FA

/-- `Σ_{i<n} f i` -/
def sumTo : Nat → (Nat → Int) → Int
  | 0, _ => 0
  | n + 1, f => sumTo n f + f n

/-- number of elements of a shape -/
def prod : List Nat → Nat
  | [] => 1
  | d :: ds => d * prod ds

/-- row-major (C order) flat position of a multi-index -/
def ravel : List Nat → List Nat → Nat
  | d :: ds, i :: is => i * prod ds + ravel ds is
  | _, _ => 0

/-- inverse of `ravel` on in-range positions -/
def unravel : List Nat → Nat → List Nat
  | [], _ => []
  | _ :: ds, n => n / prod ds :: unravel ds (n % prod ds)

/-- `idx` is a valid multi-index of `shape` -/
def inRange : List Nat → List Nat → Bool
  | [], [] => true
  | i :: is, d :: ds => decide (i < d) && inRange is ds
  | _, _ => false

/-- all multi-indices of a shape in row-major order -/
def allIdx : List Nat → List (List Nat)
  | [] => [[]]
  | d :: ds => (List.range d).flatMap fun i => (allIdx ds).map (i :: ·)

structure FArr where
  shape : List Nat
  get : List Nat → Int

namespace FArr

/-- row-major listing of the entries -/
def toList (x : FArr) : List Int := (allIdx x.shape).map x.get

/-- array from a row-major listing -/
def ofList (shape : List Nat) (data : List Int) : FArr :=
  ⟨shape, fun idx => data.getD (ravel shape idx) 0⟩

end FArr

/-- `p` is a permutation of `range n` (numpy raises `ValueError: axes don't match array` otherwise;
    negative axes are not modelled, the plans never contain them) -/
def isPermOf (p : List Nat) (n : Nat) : Bool :=
  p.length == n && (List.range n).all fun j => p.contains j

/-- `numpy.transpose(x, p)`: result axis `i` is source axis `p[i]` -/
def transpose (p : List Nat) (x : FArr) : Option FArr :=
  if isPermOf p x.shape.length then
    some ⟨p.map fun k => x.shape.getD k 0,
          fun idx => x.get ((List.range x.shape.length).map fun j => idx.getD (p.idxOf j) 0)⟩
  else none

/-- `numpy.reshape(x, s)` (C order); `ValueError` when the element counts differ -/
def reshape (s : List Nat) (x : FArr) : Option FArr :=
  if prod s = prod x.shape then
    some ⟨s, fun idx => x.get (unravel x.shape (ravel s idx))⟩
  else none

/-- `numpy.matmul` for the two cases the plans produce: 2-D × 2-D and 3-D × 3-D with equal
    batch dimension (numpy's batch broadcasting is not modelled: `none`). -/
def matmul (a b : FArr) : Option FArr :=
  match a.shape, b.shape with
  | [m, k], [k', n] =>
    if k = k' then
      some ⟨[m, n], fun idx =>
        sumTo k fun c => a.get [idx.getD 0 0, c] * b.get [c, idx.getD 1 0]⟩
    else none
  | [bt, m, k], [bt', k', n] =>
    if bt = bt' ∧ k = k' then
      some ⟨[bt, m, n], fun idx =>
        sumTo k fun c => a.get [idx.getD 0 0, idx.getD 1 0, c] * b.get [idx.getD 0 0, c, idx.getD 2 0]⟩
    else none
  | _, _ => none

/-- broadcast of two shapes of equal rank -/
def bshape : List Nat → List Nat → Option (List Nat)
  | [], [] => some []
  | d :: ds, e :: es =>
    if d = e ∨ d = 1 ∨ e = 1 then (bshape ds es).map ((if d = 1 then e else d) :: ·) else none
  | _, _ => none

/-- position read in an operand of shape `shape` when the broadcast result is read at `idx` -/
def clip : List Nat → List Nat → List Nat
  | d :: ds, i :: is => (if d = 1 then 0 else i) :: clip ds is
  | _, _ => []

/-- `numpy.multiply` with broadcasting, operands of equal rank (the only case the plans produce) -/
def mul (a b : FArr) : Option FArr :=
  (bshape a.shape b.shape).map fun s =>
    ⟨s, fun idx => a.get (clip a.shape idx) * b.get (clip b.shape idx)⟩

/-- `Σ` over the masked axes: `mask[k]` = axis `k` is summed; `f` reads a full multi-index,
    `idx` is the multi-index over the kept axes. -/
def sumMask : List Bool → List Nat → (List Nat → Int) → List Nat → Int
  | [], _, f, _ => f []
  | true :: m, d :: ds, f, idx => sumTo d fun v => sumMask m ds (fun full => f (v :: full)) idx
  | false :: m, _ :: ds, f, i :: idx => sumMask m ds (fun full => f (i :: full)) idx
  | _, _, _, _ => 0

/-- the entries of `l` at the positions where `mask` is false -/
def keepMask : List Bool → List Nat → List Nat
  | false :: m, d :: ds => d :: keepMask m ds
  | true :: m, _ :: ds => keepMask m ds
  | _, _ => []

/-- `numpy.sum(x, axis=axes)`; `axes` must be distinct valid axes -/
def sumAxes (axes : List Nat) (x : FArr) : Option FArr :=
  let n := x.shape.length
  if axes.all (· < n) && decide axes.Nodup then
    let mask := (List.range n).map fun k => axes.contains k
    some ⟨keepMask mask x.shape, fun idx => sumMask mask x.shape x.get idx⟩
  else none

/-! ### advanced indexing with one broadcast integer range (diagonal extraction)

`x[sel]` where `sel[k]` is either `slice(None)` (`none`) or the integer tuple `range(n)`
(`some n`); all integer entries are the same tuple, so they broadcast to one new axis of length
`n`.  numpy places that axis at the position of the first integer entry when the integer entries
are adjacent, and at the front otherwise. -/

/-- source multi-index: integer positions read `i`, slice positions consume `rest` in order -/
def fill : List (Option Nat) → Nat → List Nat → List Nat
  | [], _, _ => []
  | some _ :: s, i, rest => i :: fill s i rest
  | none :: s, i, r :: rest => r :: fill s i rest
  | none :: s, i, [] => 0 :: fill s i []

def dropNones : List (Option Nat) → List (Option Nat)
  | none :: s => dropNones s
  | s => s

/-- integer entries adjacent: after dropping the leading slices and the leading integer entries
    only slices remain -/
def contig (sel : List (Option Nat)) : Bool :=
  ((dropNones sel).dropWhile Option.isSome).all Option.isNone

/-- number of leading slices -/
def lead : List (Option Nat) → Nat
  | none :: s => lead s + 1
  | _ => 0

/-- dims of the sliced axes -/
def sliceDims : List (Option Nat) → List Nat → List Nat
  | none :: s, d :: ds => d :: sliceDims s ds
  | some _ :: s, _ :: ds => sliceDims s ds
  | _, _ => []

/-- every integer entry is `range n` with `n ≤` the axis length (else numpy: `IndexError`) -/
def selOK : List (Option Nat) → List Nat → Nat → Bool
  | [], [], _ => true
  | none :: s, _ :: ds, n => selOK s ds n
  | some m :: s, d :: ds, n => m == n && decide (n ≤ d) && selOK s ds n
  | _, _, _ => false

def selLen (sel : List (Option Nat)) : Option Nat := (sel.filterMap id).head?

def advIndex (sel : List (Option Nat)) (x : FArr) : Option FArr :=
  match selLen sel with
  | none => none      -- no integer entry: not produced by the parser
  | some n =>
    if selOK sel x.shape n then
      let q := if contig sel then lead sel else 0
      let sd := sliceDims sel x.shape
      some ⟨sd.take q ++ n :: sd.drop q,
            fun idx => x.get (fill sel (idx.getD q 0) (idx.eraseIdx q))⟩
    else none

/-! ### reference meaning of einsum -/

def upd (env : Ix → Nat) (i : Ix) (v : Nat) : Ix → Nat := fun j => if j = i then v else env j

/-- `Σ` over all assignments of the indices `ixs` (each over `range (sz i)`) -/
def sumEnv (sz : Ix → Nat) : List Ix → (Ix → Nat) → ((Ix → Nat) → Int) → Int
  | [], env, f => f env
  | i :: r, env, f => sumTo (sz i) fun v => sumEnv sz r (upd env i v) f

/-- environment that binds the output labels to the entries of a multi-index (others `0`) -/
def bindOut : List Ix → List Nat → Ix → Nat
  | o :: os, i :: is => upd (bindOut os is) o i
  | _, _ => fun _ => 0

/-- first-occurrence de-duplication -/
def uniq : List Ix → List Ix
  | [] => []
  | x :: xs => x :: (uniq xs).filter (· != x)

/-- `dict(zip(term, shape))`-style size lookup (first occurrence; `1` for labels not in `term`) -/
def szOf (term : List Ix) (shape : List Nat) (ix : Ix) : Nat :=
  if term.contains ix then shape.getD (term.idxOf ix) 1 else 1

/-- single-operand einsum `term -> out` by definition -/
def einsum1 (term out : List Ix) (x : FArr) : FArr :=
  let sz := szOf term x.shape
  ⟨out.map sz, fun idx =>
    sumEnv sz (uniq (term.filter fun i => !out.contains i)) (bindOut out idx)
      fun env => x.get (term.map env)⟩

/-- sizes of a two-operand equation -/
def szOf2 (aT : List Ix) (shA : List Nat) (bT : List Ix) (shB : List Nat) (ix : Ix) : Nat :=
  if aT.contains ix then shA.getD (aT.idxOf ix) 1 else szOf bT shB ix

/-- two-operand einsum `aT,bT -> out` by definition -/
def einsum2 (aT bT out : List Ix) (a b : FArr) : FArr :=
  let sz := szOf2 aT a.shape bT b.shape
  ⟨out.map sz, fun idx =>
    sumEnv sz (uniq ((aT ++ bT).filter fun i => !out.contains i)) (bindOut out idx)
      fun env => a.get (aT.map env) * b.get (bT.map env)⟩

end Cotengra.FA
