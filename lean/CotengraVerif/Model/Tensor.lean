import CotengraVerif.Model.Net

/-!
  Tensor semantics and functional arrays (core Lean only, so that the compiled driver links it).

  * `sumOver ks dim σ f` : the finite sum of `f` over all assignments that agree with `σ`
    outside `ks` and give every `k ∈ ks` a value `< dim k` (nested sums, one per key).
  * `Net.einsumSpec` : the mathematical einsum of a network — the sum, over all assignments
    of the non-output indices, of the product of the operands' entries.
  * `Arr R` : functional arrays (`shape`, total entry function `val`) and the numpy-level
    primitives the contraction programs use: one- and two-operand `einsum` (repeated labels =
    diagonals, labels missing from the output are summed), `tensordot`, `transpose`.
    `tensordot` and `transpose` are *defined* through the general einsum (numpy documents
    them so: `tensordot(a, b, axes)` sums the paired axes and lists the free axes of `a` then
    of `b`; `transpose(a, p)[i] = a[j]` with `j[p[k]] = i[k]`).  These definitions are the
    model of numpy / autoray (trusted base, validated against numpy on integer arrays by the
    `c01.eval` tie).

  Everything is generic in the scalar type `R` (`Add`, `Mul`, `Zero`, `One`); the theorems
  assume a commutative semiring, the driver instantiates `R := Int`.
-/
namespace Cotengra

/-- python `unique` / `dict.fromkeys`: first occurrences, order kept. -/
def uniq : List Nat → List Nat
  | [] => []
  | x :: xs => x :: (uniq xs).filter (· != x)

/-- association list lookup, first match wins, default `0` -/
def assoc : List (Nat × Nat) → Nat → Nat
  | [], _ => 0
  | (k, v) :: t, l => if k = l then v else assoc t l

/-- the binding relation is a function: equal keys carry equal values -/
def functional (ps : List (Nat × Nat)) : Bool :=
  ps.all fun p => ps.all fun q => p.1 != q.1 || p.2 == q.2

/-- the binding relation is a partial bijection: keys equal iff values equal -/
def bijective (ps : List (Nat × Nat)) : Bool :=
  ps.all fun p => ps.all fun q => (p.1 == q.1) == (p.2 == q.2)

/-- no repeated element (executable) -/
def nodupB : List Nat → Bool
  | [] => true
  | x :: xs => !xs.contains x && nodupB xs

/-- `σ[k ↦ v]` -/
def upd (σ : Nat → Nat) (k v : Nat) : Nat → Nat := fun j => if j = k then v else σ j

section Scalars
variable {R : Type} [Add R] [Mul R] [Zero R] [One R]

/-- `Σ_{v < d} f v` -/
def sumRange : Nat → (Nat → R) → R
  | 0, _ => 0
  | d + 1, f => sumRange d f + f d

/-- sum of `f` over all assignments obtained from `σ` by giving each key of `ks` (in turn)
    every value below its dimension -/
def sumOver (dim : Nat → Nat) : List Nat → (Nat → Nat) → ((Nat → Nat) → R) → R
  | [], σ, f => f σ
  | k :: ks, σ, f => sumRange (dim k) fun v => sumOver dim ks (upd σ k v) f

/-- `Π_{i ∈ S} f i` -/
def prodOver (S : List Nat) (f : Nat → R) : R := S.foldr (fun i acc => f i * acc) 1

/-- functional array: a shape and a total entry function (entries outside the shape are
    never inspected by a well-formed operation) -/
structure Arr (R : Type) where
  shape : List Nat
  val : List Nat → R

/-- `numpy.einsum(eq, a)` with `eq = lhs -> out` given as label lists.
    `none` models numpy raising: wrong number of labels, a repeated label on axes of different
    length, an output label that is not an input label, a repeated output label. -/
def einsum1 (lhs out : List Nat) (a : Arr R) : Option (Arr R) :=
  let ps := lhs.zip a.shape
  if lhs.length = a.shape.length ∧ functional ps = true ∧ out.all lhs.contains = true
      ∧ nodupB out = true then
    let dim := assoc ps
    let summed := (uniq lhs).filter fun l => !out.contains l
    some { shape := out.map dim,
           val := fun idx => sumOver dim summed (assoc (out.zip idx)) fun g => a.val (lhs.map g) }
  else none

/-- `numpy.einsum(eq, a, b)` with `eq = lA , lB -> out` given as label lists. -/
def einsum2 (lA lB out : List Nat) (a b : Arr R) : Option (Arr R) :=
  let ps := (lA ++ lB).zip (a.shape ++ b.shape)
  if lA.length = a.shape.length ∧ lB.length = b.shape.length ∧ functional ps = true
      ∧ out.all (lA ++ lB).contains = true ∧ nodupB out = true then
    let dim := assoc ps
    let summed := (uniq (lA ++ lB)).filter fun l => !out.contains l
    some { shape := out.map dim,
           val := fun idx => sumOver dim summed (assoc (out.zip idx)) fun g =>
             a.val (lA.map g) * b.val (lB.map g) }
  else none

/-- the einsum equation that `tensordot(a, b, (axA, axB))` stands for, for operand ranks
    `ra`, `rb`: `a`'s axes are labelled `0..ra-1`, a paired axis of `b` takes its partner's
    label, a free axis `j` of `b` the label `ra + j`; output = free labels of `a`, then of `b`. -/
def tdotLabels (ra rb : Nat) (axA axB : List Nat) : List Nat × List Nat × List Nat :=
  let lA := List.range ra
  let lB := (List.range rb).map fun j => if axB.contains j then assoc (axB.zip axA) j else ra + j
  let out := (lA.filter fun i => !axA.contains i) ++
    ((List.range rb).filter fun j => !axB.contains j).map (ra + ·)
  (lA, lB, out)

/-- the guard of `numpy.tensordot` on its `axes` argument (non-negative axes only) -/
def tdotAxesOk (ra rb : Nat) (axA axB : List Nat) : Bool :=
  axA.length == axB.length && nodupB axA && nodupB axB &&
    axA.all (· < ra) && axB.all (· < rb)

/-- `numpy.tensordot(a, b, axes=(axA, axB))` -/
def tensordot (axA axB : List Nat) (a b : Arr R) : Option (Arr R) :=
  if tdotAxesOk a.shape.length b.shape.length axA axB = true then
    let e := tdotLabels a.shape.length b.shape.length axA axB
    einsum2 e.1 e.2.1 e.2.2 a b
  else none

/-- `perm` is a permutation of `0..r-1` -/
def isPermOfRange (r : Nat) (perm : List Nat) : Bool :=
  perm.length == r && nodupB perm && perm.all (· < r)

/-- `numpy.transpose(a, perm)` -/
def transpose (perm : List Nat) (a : Arr R) : Option (Arr R) :=
  if isPermOfRange a.shape.length perm = true then einsum1 (List.range a.shape.length) perm a
  else none

end Scalars

namespace Net
variable {R : Type} [Add R] [Mul R] [Zero R] [One R]

/-- the declared output without the removed (sliced / projected) indices: the axes of the
    result of the core contraction (core.py:811-814, 3206-3210) -/
def outRm (n : Net) (rm : List Ix) : List Ix := n.output.filter fun ix => !rm.contains ix

/-- every index that occurs in the (sliced) terms of the inputs `S`, once -/
def occL (n : Net) (rm : List Ix) (S : List Nat) : List Ix :=
  uniq (S.flatMap fun i => n.termRm rm i)

/-- the indices the einsum sums: those of the inputs that are not output indices -/
def summedIx (n : Net) (rm : List Ix) : List Ix :=
  (n.occL rm (List.range n.inputs.length)).filter fun ix => !(n.outRm rm).contains ix

/-- product of the entries of the operands `S` under the index assignment `σ` -/
def prodS (n : Net) (rm : List Ix) (A : Nat → Arr R) (S : List Nat) (σ : Ix → Nat) : R :=
  prodOver S fun i => (A i).val ((n.termRm rm i).map σ)

/-- **The mathematical einsum** of the network (with the removed indices dropped from every
    term and from the output, i.e. for arrays that are already sliced): the entry of the result
    at the output position `(n.outRm rm).map σ` is the sum over all assignments of the
    non-output indices of the product of the operands' entries. -/
def einsumSpec (n : Net) (rm : List Ix) (A : Nat → Arr R) (σ : Ix → Nat) : R :=
  sumOver n.size (n.summedIx rm) σ (n.prodS rm A (List.range n.inputs.length))

/-- number of occurrences of `ix` in the (sliced) terms of the inputs `S` -/
def cntL (n : Net) (rm : List Ix) (S : List Nat) (ix : Ix) : Nat :=
  (S.map fun i => occ (n.termRm rm i) ix).sum

end Net
end Cotengra
