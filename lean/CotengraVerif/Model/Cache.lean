/-
  C13 model: the in-memory caches of cotengra/interface.py

    * `_PATH_CACHE` (array_contract_path, :283-294) and `_CONTRACT_EXPR_CACHE`
      (array_contract_expression, :759-786): a process-global dict, "look the key up, else
      build and store" -- `cachedCall`;
    * the key (`hash_contraction`, :112-120): a tuple of selected arguments
      `(inputs, output, tuple(size_dict.items()), optimize', frozenset(kwargs.items()))` plus
      `len(inputs)`; before the repair the tuple went through Python's `hash` first
      (`hashedKey`), after it the tuple itself is the dict key (`keyTuple`);
    * `functools.lru_cache` on the equation/shape parsers (contract.py:37,64,170,475,
      utils.py:1557): the same `cachedCall` with the identity key and arbitrary eviction.

  A history is a list of calls; each call may run with the cache disabled (`cache=False`) and
  before each call an arbitrary set of entries may be evicted (LRU bound, `cache_clear`, a
  rewrite that caches less).  Core Lean only.
-/
namespace Cotengra.Cache

/-- python `dict` lookup -/
def lookup {K V} [DecidableEq K] : List (K × V) → K → Option V
  | [], _ => none
  | (k', v) :: t, k => if k' = k then some v else lookup t k

/-- one call through a cache: `try: v = C[key] except KeyError: v = C[key] = build(q)` -/
def cachedCall {Q K V} [DecidableEq K] (key : Q → K) (build : Q → V) (cache : List (K × V)) (q : Q) :
    V × List (K × V) :=
  match lookup cache (key q) with
  | some v => (v, cache)
  | none => (build q, (key q, build q) :: cache)

/-- one call of a history -/
structure Call (Q K : Type) where
  q : Q
  /-- `cache=True`? -/
  useCache : Bool
  /-- entries dropped before this call (eviction / clearing): those whose key satisfies this -/
  evict : K → Bool

/-- run a history; returns the value handed back by each call -/
def runCached {Q K V} [DecidableEq K] (key : Q → K) (build : Q → V) :
    List (K × V) → List (Call Q K) → List V
  | _, [] => []
  | cache, c :: rest =>
    let cache := cache.filter (fun kv => !c.evict kv.1)
    if c.useCache then
      let r := cachedCall key build cache c.q
      r.1 :: runCached key build r.2 rest
    else
      build c.q :: runCached key build cache rest

/-! ## the interface's key -/

/-- a contraction request: the value of every named argument after `normalize_input`
    (values in any type with decidable equality; the driver uses canonical strings) -/
abbrev Query (V : Type) := String → V

/-- the tuple built from the named arguments -/
def keyTuple {V} (fields : List String) (q : Query V) : List V := fields.map q

/-- the arguments of the contraction request that enter the *expression* cache key
    (`hash_contraction(inputs, output, size_dict, optimize, **kwargs)`, interface.py:112-120, 761) -/
def exprKeyFields : List String := ["inputs", "output", "size_dict", "optimize", "kwargs"]
/-- … and the *path* cache key (`hash_contraction(inputs, output, size_dict, optimize)`, :284) -/
def pathKeyFields : List String := ["inputs", "output", "size_dict", "optimize"]

/-- what must agree before an *object* built for one request may be handed to another one:
    the key fields and, for functions with folded constants
    (`_array_contract_expression_with_constants`, interface.py:500-567), the positions **and
    values** of the constant arrays, which the returned function captures by reference -/
def exprShareFields : List String := exprKeyFields ++ ["constants"]

/-- may a cached value built for `q₁` be handed to `q₂`?  (decidable; run on observed sharing) -/
def shareOK {V} [DecidableEq V] (fields : List String) (q₁ q₂ : Query V) : Bool :=
  keyTuple fields q₁ == keyTuple fields q₂

/-! ## Python's `hash` on the key tuple (the key as it was before the repair) -/

/-- the values that occur in key tuples, as far as hashing is concerned -/
inductive PyVal where
  | int (i : Int)
  | str (s : String)
  | tup (l : List PyVal)
deriving Repr

mutual
/-- `hash(x)`: CPython maps the int −1 to −2 (−1 is the C-level error code) and otherwise small
    ints to themselves; strings through an arbitrary (per-process random) function `hs`; tuples
    through an arbitrary combination `comb` of the element hashes (xxHash-style in CPython). -/
def pyHash (hs : String → Int) (comb : List Int → Int) : PyVal → Int
  | .int i => if i = -1 then -2 else i
  | .str s => hs s
  | .tup l => comb (pyHashList hs comb l)
def pyHashList (hs : String → Int) (comb : List Int → Int) : List PyVal → List Int
  | [] => []
  | x :: t => pyHash hs comb x :: pyHashList hs comb t
end

/-- the key as it was: `(hash(tuple), len(inputs))` -/
def hashedKey (hs : String → Int) (comb : List Int → Int) (tuple : PyVal) (n : Nat) : Int × Nat :=
  (pyHash hs comb tuple, n)

end Cotengra.Cache
