import CotengraVerif.Model.Tensor

/-!
# Contraction programs, their interpreter, and the admissibility checker (C01)

**Program** = what `extract_contractions` emits (cotengra/contract.py:576-636):
optional per-leaf single-operand einsum equations (`tree.preprocessing`), then one step per
pairwise contraction `(parent, left, right, tdot?, arg, perm)`.  Nodes are given by their leaf
lists (the frozensets of the real code; compared as sets).  Einsum equations are label lists
(any naturals – the harness sends code points).

**Interpreter** `run` = `Contractor.__call__` (contract.py:757-805, without exponent stripping):
`temps` is keyed by node; a preprocessing step replaces `temps[leaf]`; a pairwise step pops the
two children, applies `tensordot` (+ `transpose` when `perm` is truthy) or `einsum`, stores the
parent; the value returned is the array produced by the *last* pairwise step.

**Checker** `Admissible n rm t prog : Bool` / `admissibleWhy … : Option String` (stable
interface, used by C02/C04 as well):

  * `n : Net`, `rm : List Ix` the removed (sliced or projected) indices – the leaf arrays are
    the already sliced ones, with axes `n.termRm rm i`;
  * `t : BT` the contraction tree, `prog : Program` the artefact to certify;
  * `admissibleWhy` returns `none` when admissible and otherwise the first failing clause.

Clauses (all decidable, none refers to cotengra's own `legs` recursion):
  1. every key a step names is available when the step runs (`temps.pop` would succeed), the
     parent is the disjoint union of the two operands;
  2. every equation / axes argument is well-typed against the operands' *current* axis lists:
     the label–index binding is a partial bijection, output labels are input labels and are
     distinct (tensordot: axes in range, distinct, pair equal indices; the derived equation
     must be a bijection, i.e. no repeated index inside an operand and no shared index left
     unpaired; `perm` a permutation);
  3. every index a step sums is *closed* in the parent: all its appearances (inputs + output)
     lie in the (sliced) terms of the parent's leaves;
  4. at the end exactly one entry is left, it holds all inputs, and its axis list is **equal
     as a list** to the declared output minus the removed indices; there is ≥ 1 step;
  5. the steps are, one for one, the internal nodes of `t` (either orientation of the two
     children), and `t`'s leaves are exactly the inputs.

`Props/C01.lean` proves: `Admissible` ⇒ `run` succeeds on well-shaped arrays and returns the
einsum of the network in the declared axis order (`admissible_sound`), and that the model's own
extraction (`Model/Recipes.lean`) is admissible for every network / tree / order / option.
-/
namespace Cotengra

/-- how one pairwise contraction is performed -/
inductive Recipe where
  /-- `einsum("lA,lB->out", l, r)` -/
  | einsum (lA lB out : List Nat)
  /-- `tensordot(l, r, (axA, axB))` followed by `transpose(·, perm)` if `perm` is truthy -/
  | tdot (axA axB : List Nat) (perm : Option (List Nat))
deriving Repr, BEq, Inhabited

/-- one pairwise contraction; nodes are leaf lists -/
structure Step where
  parent : List Nat
  left : List Nat
  right : List Nat
  recipe : Recipe
deriving Repr, BEq, Inhabited

/-- a single-operand simplification of input `leaf`: `einsum("lhs->out", ·)` -/
structure PreStep where
  leaf : Nat
  lhs : List Nat
  out : List Nat
deriving Repr, BEq, Inhabited

structure Program where
  pre : List PreStep
  steps : List Step
deriving Repr, BEq, Inhabited

/-- equality of frozensets given as lists -/
def sameSet (a b : List Nat) : Bool := a.all b.contains && b.all a.contains

/-- `temps.pop(key)`: the entry whose key equals `key` as a set, and the remaining entries -/
def pop? {α : Type} (key : List Nat) :
    List (List Nat × α) → Option ((List Nat × α) × List (List Nat × α))
  | [] => none
  | (k, v) :: rest =>
    if sameSet k key = true then some ((k, v), rest)
    else match pop? key rest with
      | some (e, rest') => some (e, (k, v) :: rest')
      | none => none

/-! ## interpreter -/
section Run
variable {R : Type} [Add R] [Mul R] [Zero R] [One R]

abbrev Temps (R : Type) := List (List Nat × Arr R)

/-- initial `temps`: `{leaf i: arrays[i]}` (contract.py:759-762) -/
def initTemps (arrays : List (Arr R)) : Temps R :=
  arrays.zipIdx.map fun (a, i) => ([i], a)

/-- the pairwise operation of one step (contract.py:783-788) -/
def applyRecipe (rc : Recipe) (l r : Arr R) : Option (Arr R) :=
  match rc with
  | .einsum lA lB out => einsum2 lA lB out l r
  | .tdot axA axB perm =>
    match tensordot axA axB l r with
    | none => none
    | some p =>
      match perm with
      | none => some p
      | some [] => some p
      | some pm => transpose pm p

/-- preprocessing steps (contract.py:774-777) -/
def runPre : Temps R → List PreStep → Except String (Temps R)
  | st, [] => .ok st
  | st, p :: ps =>
    match pop? [p.leaf] st with
    | none => .error "KeyError: preprocessing of a leaf that is not in temps"
    | some ((k, a), rest) =>
      match einsum1 p.lhs p.out a with
      | none => .error "einsum raises on a preprocessing equation"
      | some a' => runPre ((k, a') :: rest) ps

/-- pairwise steps (contract.py:779-800); carries the last produced array (`p_array`) -/
def runSteps : Temps R → Option (Arr R) → List Step → Except String (Temps R × Option (Arr R))
  | st, last, [] => .ok (st, last)
  | st, _, s :: ss =>
    match pop? s.left st with
    | none => .error "KeyError: left operand not in temps"
    | some ((_, la), st1) =>
      match pop? s.right st1 with
      | none => .error "KeyError: right operand not in temps"
      | some ((_, ra), st2) =>
        match applyRecipe s.recipe la ra with
        | none => .error "einsum / tensordot / transpose raises"
        | some pa => runSteps ((s.parent, pa) :: st2) (some pa) ss

/-- `Contractor(contractions)(*arrays)` -/
def run (p : Program) (arrays : List (Arr R)) : Except String (Arr R) :=
  match runPre (initTemps arrays) p.pre with
  | .error e => .error e
  | .ok st1 =>
    match runSteps st1 none p.steps with
    | .error e => .error e
    | .ok (_, some a) => .ok a
    | .ok (_, none) => .error "UnboundLocalError: no pairwise contraction"

end Run

/-! ## admissibility checker -/

/-- checker state: for every node currently in `temps`, its leaf list and its axis list -/
abbrev Axes := List (List Nat × List Ix)

namespace Net

/-- `ix` is closed in the inputs `S`: every appearance of it (in any input or in the output)
    is an occurrence in a sliced term of `S`.  (Then it occurs in no input outside `S` and not
    in the output, and it is not a removed index.) -/
def closedIn (n : Net) (rm : List Ix) (S : List Nat) (ix : Ix) : Bool :=
  n.cntL rm S ix == n.app ix

/-- every index of `axIn` that is dropped (not in `axOut`) is closed in `S` -/
def closedCheck (n : Net) (rm : List Ix) (S : List Nat) (axIn axOut : List Ix) : Bool :=
  axIn.all fun ix => axOut.contains ix || n.closedIn rm S ix

/-- initial checker state: leaf `i` has the axes of its sliced term -/
def initAxes (n : Net) (rm : List Ix) : Axes :=
  (List.range n.inputs.length).map fun i => ([i], n.termRm rm i)

end Net

/-- axes produced by a one-operand equation on an operand with axes `ax` -/
def unaryAxes (lhs out : List Nat) (ax : List Ix) : Except String (List Ix) :=
  if lhs.length != ax.length then .error "equation has the wrong number of labels for its operand"
  else if !bijective (lhs.zip ax) then
    .error "labels and operand axes are not in one-to-one correspondence"
  else if !out.all lhs.contains then .error "output label that is not an input label"
  else if !nodupB out then .error "repeated output label"
  else .ok (out.map (assoc (lhs.zip ax)))

/-- axes produced by a two-operand equation on operands with axes `axL`, `axR` -/
def binaryAxes (lA lB out : List Nat) (axL axR : List Ix) : Except String (List Ix) :=
  if lA.length != axL.length || lB.length != axR.length then
    .error "equation has the wrong number of labels for an operand"
  else if !bijective ((lA ++ lB).zip (axL ++ axR)) then
    .error "labels and operand axes are not in one-to-one correspondence"
  else if !out.all (lA ++ lB).contains then .error "output label that is not an input label"
  else if !nodupB out then .error "repeated output label"
  else .ok (out.map (assoc ((lA ++ lB).zip (axL ++ axR))))

/-- axes produced by a recipe; checks clause 2 and clause 3 (`closedCheck`) -/
def recipeAxes (n : Net) (rm : List Ix) (parent : List Nat) (rc : Recipe) (axL axR : List Ix) :
    Except String (List Ix) :=
  match rc with
  | .einsum lA lB out =>
    match binaryAxes lA lB out axL axR with
    | .error e => .error ("einsum step: " ++ e)
    | .ok axP =>
      if n.closedCheck rm parent (axL ++ axR) axP then .ok axP
      else .error "einsum step sums an index that still occurs outside the node or in the output"
  | .tdot axA axB perm =>
    if !tdotAxesOk axL.length axR.length axA axB then
      .error "tensordot axes: different lengths, repeated or out of range"
    else
      let e := tdotLabels axL.length axR.length axA axB
      match binaryAxes e.1 e.2.1 e.2.2 axL axR with
      | .error e => .error ("tensordot step (pairs unequal indices, repeated index in an operand, " ++
          "or shared index left unpaired): " ++ e)
      | .ok ax0 =>
        if !n.closedCheck rm parent (axL ++ axR) ax0 then
          .error "tensordot step sums an index that still occurs outside the node or in the output"
        else
          match perm with
          | none => .ok ax0
          | some [] => .ok ax0
          | some pm =>
            if !isPermOfRange ax0.length pm then .error "perm is not a permutation of the result's axes"
            else
              match unaryAxes (List.range ax0.length) pm ax0 with
              | .error e => .error ("transpose: " ++ e)
              | .ok axP => .ok axP

/-- clause 1–3 for the preprocessing steps -/
def checkPre (n : Net) (rm : List Ix) : Axes → List PreStep → Except String Axes
  | st, [] => .ok st
  | st, p :: ps =>
    match pop? [p.leaf] st with
    | none => .error s!"preprocessing of leaf {p.leaf}: not in temps"
    | some ((k, ax), rest) =>
      match unaryAxes p.lhs p.out ax with
      | .error e => .error (s!"preprocessing of leaf {p.leaf}: " ++ e)
      | .ok ax' =>
        if n.closedCheck rm k ax ax' then checkPre n rm ((k, ax') :: rest) ps
        else .error s!"preprocessing of leaf {p.leaf} sums an index that still occurs elsewhere"

/-- clause 1–3 for the pairwise steps -/
def checkSteps (n : Net) (rm : List Ix) : Axes → List Step → Except String Axes
  | st, [] => .ok st
  | st, s :: ss =>
    match pop? s.left st with
    | none => .error s!"step {s.parent}: left operand {s.left} not in temps"
    | some ((kL, axL), st1) =>
      match pop? s.right st1 with
      | none => .error s!"step {s.parent}: right operand {s.right} not in temps"
      | some ((kR, axR), st2) =>
        if !(nodupB s.parent && sameSet s.parent (kL ++ kR) &&
              s.parent.length == kL.length + kR.length) then
          .error s!"step {s.parent}: parent is not the disjoint union of its operands"
        else
          match recipeAxes n rm s.parent s.recipe axL axR with
          | .error e => .error (s!"step {s.parent}: " ++ e)
          | .ok axP => checkSteps n rm ((s.parent, axP) :: st2) ss

/-- clause 4 -/
def checkFinal (n : Net) (rm : List Ix) (prog : Program) (st : Axes) : Except String Unit :=
  if prog.steps.isEmpty then .error "no pairwise step"
  else
    match st with
    | [(k, ax)] =>
      if !sameSet k (List.range n.inputs.length) then .error "the last node does not hold all inputs"
      else if ax != n.outRm rm then
        .error s!"root axes {ax} differ from the declared output {n.outRm rm}"
      else .ok ()
    | _ => .error "not exactly one node left at the end"

/-- the step `s` contracts the two children of the tree node `x` (in either orientation) -/
def nodeMatches (s : Step) : BT → Bool
  | .node l r => sameSet s.parent (l.leaves ++ r.leaves) &&
      ((sameSet s.left l.leaves && sameSet s.right r.leaves) ||
       (sameSet s.left r.leaves && sameSet s.right l.leaves))
  | .leaf _ => false

/-- clause 5: the steps are the internal nodes of the tree -/
def matchesTree (n : Net) (t : BT) (prog : Program) : Except String Unit :=
  if !(sameSet t.leaves (List.range n.inputs.length) && t.leaves.length == n.inputs.length) then
    .error "the tree's leaves are not exactly the inputs"
  else if prog.steps.length != t.internal.length then
    .error "number of steps differs from the number of internal nodes"
  else if prog.steps.all fun s => t.internal.any (nodeMatches s) then .ok ()
  else .error "a step is not an internal node of the tree with its two children"

/-- clauses 1–4: the program on its own (no tree) -/
def checkCore (n : Net) (rm : List Ix) (prog : Program) : Except String Unit :=
  match checkPre n rm (n.initAxes rm) prog.pre with
  | .error e => .error e
  | .ok st1 =>
    match checkSteps n rm st1 prog.steps with
    | .error e => .error e
    | .ok st2 => checkFinal n rm prog st2

/-- all clauses; `.ok ()` iff admissible, otherwise the first failing clause -/
def checkProgram (n : Net) (rm : List Ix) (t : BT) (prog : Program) : Except String Unit :=
  match checkCore n rm prog with
  | .error e => .error e
  | .ok () => matchesTree n t prog

/-- the program on its own is admissible (clauses 1–4; what `admissible_sound` needs) -/
def AdmissibleCore (n : Net) (rm : List Ix) (prog : Program) : Bool :=
  match checkCore n rm prog with
  | .ok _ => true
  | .error _ => false

/-- **`Admissible net removed tree prog`** – the certificate check run on real programs -/
def Admissible (n : Net) (rm : List Ix) (t : BT) (prog : Program) : Bool :=
  match checkProgram n rm t prog with
  | .ok _ => true
  | .error _ => false

/-- `none` iff admissible, else the failing clause -/
def admissibleWhy (n : Net) (rm : List Ix) (t : BT) (prog : Program) : Option String :=
  match checkProgram n rm t prog with
  | .ok _ => none
  | .error e => some e

end Cotengra
