import CotengraVerif.Model.Reuse

/-
  Re-entrant (nested) queries, combined with thread interleaving.

  A query to a `Reusable*Optimizer` / `AutoOptimizer` that comes to a sub-search runs trial
  functions; a trial function may itself put queries to the same or to another optimizer object
  *while the outer search is still running, in the same thread* (`tree.contract_nodes(groups,
  optimize=shared)`, `super_optimize='auto-hq'` of the partitioning drivers, a user-registered
  hyper function).  `Model/Reuse.lean` has one program counter per thread and cannot express
  that; here every thread carries a **stack of frames** (one frame per query in progress), and a
  schedule interleaves the threads as before.

  What a query does *if* it comes to a search is an oracle, the nesting tree `QTree`: the list of
  trials of the sub-search, each trial = the nested queries its trial function puts (each again a
  `QTree`), then the setting/trial record it reports.  Everything is universally quantified in
  the theorems (Props/C16Nest.lean): nesting trees of any depth and width, which object and which
  interface (`search` / `__call__`) each query uses, per-object `overwrite` / `cache_only`, the
  hash function (field `key`), the schedule, the number of threads.

  Transcribed (cotengra/reusable.py): `search` 290-297, `__call__` 270-272,
  `_maybe_run_optimizer` 240-268, `_run_optimizer` 280-285, `hash_query` 161-172, `last_opt`
  141-143; (cotengra/presets.py) `AutoOptimizer.search/__call__/_get_optimizer_hyper_threadsafe`
  74-123; (hyper.py) the trial loop as `Hyper.complete` per trial, `self.tree` 519-521.

  Sub-optimizers are Python objects: `_suboptimizers[tid]` holds a *reference*.  The model keeps
  value semantics plus an object identity: a slot holds `(id, snapshot)`; a frame owns
  `(id, opt)`; whenever the frame's optimizer is mutated (a trial completes) a slot holding the
  same `id` is updated too (`writeThrough`).  With the real order "search, then register" the
  object is never mutated after it was registered, so write-through never matters; it is what
  makes the variant "register, then search" (`registerFirst`, seeded change C16-r2-2) faithful.

  Core Lean only.
-/
namespace Cotengra
namespace ReuseNest
open Hyper Reuse

/-- a query and, should it come to a sub-search, what that search's trial functions do -/
inductive QTree where
  | node (q : Query) (kind : Mode) (obj : Nat) (viaCall : Bool)
      (trials : List (List QTree × Setting × Trial))

/-- one trial of a sub-search: the nested queries of its trial function, then what it reports -/
abbrev TrialPlan := List QTree × Setting × Trial

/-- what kind of access ended a step (used only by the tie: the harness names its yield points) -/
inductive Label where
  | silent | hash | getopt | alloc | call | trial | search | store | cacheGet | cacheSet | ret
deriving DecidableEq, Repr

/-- one Reusable object; a slot of `_suboptimizers` holds (object identity, state of the object) -/
structure NRState where
  subopts : Nat → Option (Nat × HState)
  cache : Nat → Option Con

def NRState.empty : NRState := { subopts := fun _ => none, cache := fun _ => none }

/-- where a frame stands inside `search(q)` / `__call__(q)` -/
inductive FPC where
  /-- the call was made -/
  | start
  /-- AutoOptimizer, hard query: `_get_optimizer_hyper_threadsafe()` returned -/
  | gotOpt
  /-- `hash_query` returned -/
  | hashed (missing : Bool)
  /-- inside `opt.search(...)` of the fresh sub-optimizer `id`; `todo` = trials still to run, the
      head trial still has to put the nested queries listed in it -/
  | searching (missing : Bool) (id : Nat) (opt : HState) (todo : List TrialPlan)
  /-- `opt.search` returned a tree inside `_run_optimizer` -/
  | ran (missing : Bool) (id : Nat) (opt : HState)
  /-- registered, tree deconstructed into `con` -/
  | stored (missing : Bool) (con : Con)
  /-- `overwrite='improved'`: `old_con = self._cache[h]` read -/
  | compare (con old : Con)
  /-- `_maybe_run_optimizer` returns `(searched, con)` -/
  | have (searched : Bool) (con : Con)

structure Frame where
  q : Query
  /-- what kind of object the query was put to -/
  kind : Mode
  /-- which Reusable object (for `autoCached`: the per-thread `ReusableHyperOptimizer`) -/
  obj : Nat
  /-- `__call__` (path) instead of `search` (tree) -/
  viaCall : Bool
  trials : List TrialPlan
  pc : FPC

def frameOf : QTree → Frame
  | .node q kind obj viaCall trials => ⟨q, kind, obj, viaCall, trials, .start⟩

/-- an answered query: `got` = the contraction of the returned tree / the contraction whose
    search produced the returned path; `none` = the call raised -/
structure Res where
  q : Query
  viaCall : Bool
  /-- nesting depth (0 = put by the thread's program) -/
  depth : Nat
  got : Option Nat
deriving DecidableEq, Repr

structure NThread where
  /-- top-level queries still to be asked -/
  queue : List QTree := []
  /-- queries in progress, innermost first -/
  stack : List Frame := []
  /-- answers in the order the calls returned (post-order of the nesting) -/
  results : List Res := []
  /-- number of sub-optimizers created so far by this thread (= next object identity) -/
  nalloc : Nat := 0

structure NCfg where
  /-- per object -/
  overwrite : Nat → Overwrite := fun _ => .no
  cacheOnly : Nat → Bool := fun _ => false
  /-- `false`: the code (`tree = opt.search(...)`, then `self._suboptimizers[thrid] = opt`);
      `true`: the registration moved in front of the search -/
  registerFirst : Bool := false

structure NSys where
  objs : Nat → NRState
  threads : Nat → NThread

/-- the optimizer object `id` was mutated: a slot that references it sees the new state -/
def writeThrough (r : NRState) (t id : Nat) (opt : HState) : NRState :=
  match r.subopts t with
  | some (id', _) =>
    if id' = id then { r with subopts := updFn r.subopts t (some (id, opt)) } else r
  | none => r

inductive Outcome where
  /-- the frame goes on (new frame, new object state, new allocation counter) -/
  | cont (l : Label) (fr : Frame) (r : NRState) (nalloc : Nat)
  /-- the running trial function puts a nested query -/
  | push (fr : Frame) (child : QTree)
  /-- the call returns / raises -/
  | pop (l : Label) (res : Option Nat) (r : NRState)

/-- the innermost frame of thread `t` runs up to and including its next shared access;
    `r` is the object the frame's query was put to, `n` the thread's allocation counter -/
def stepTop (cfg : NCfg) (t n : Nat) (fr : Frame) (r : NRState) : Outcome :=
  match fr.pc with
  | .start =>
    match fr.kind with
    | .reusable =>
      -- search/__call__ -> _maybe_run_optimizer -> hash_query: `h not in self._cache`
      .cont .hash { fr with pc := .hashed (r.cache fr.q.key).isNone } r n
    | _ =>
      if fr.q.hard then .cont .getopt { fr with pc := .gotOpt } r n
      else .pop .ret (some fr.q.net) r          -- optimal path / from_path over the query
  | .gotOpt =>
    match fr.kind with
    | .autoPlain =>
      -- a fresh `HyperOptimizer` private to this call (presets.py:75-78)
      .cont .alloc { fr with pc := .searching true n HState.init fr.trials } r (n + 1)
    | _ => .cont .hash { fr with pc := .hashed (r.cache fr.q.key).isNone } r n
  | .hashed missing =>
    if missing || cfg.overwrite fr.obj != .no then
      if cfg.cacheOnly fr.obj then .pop .ret none r   -- KeyError("Contraction missing from cache.")
      else
        -- `_run_optimizer`: `opt = self._get_suboptimizer()`
        .cont (if cfg.registerFirst then .store else .alloc)
          { fr with pc := .searching missing n HState.init fr.trials }
          (if cfg.registerFirst then
            { r with subopts := updFn r.subopts t (some (n, HState.init)) } else r) (n + 1)
    else
      match r.cache fr.q.key with
      | none => .pop .ret none r
      | some con => .cont .cacheGet { fr with pc := .have false con } r n
  | .searching missing id opt todo =>
    match todo with
    | (c :: cs, s, tr) :: rest =>
      -- the trial function of the running trial puts its next nested query
      .push { fr with pc := .searching missing id opt ((cs, s, tr) :: rest) } c
    | ([], s, tr) :: rest =>
      -- the trial returns; `_maybe_report_result` + assessment (hyper.py:577-605, 714-728)
      let opt' := runLog opt (stamp fr.q [(s, tr)])
      .cont .trial { fr with pc := .searching missing id opt' rest } (writeThrough r t id opt') n
    | [] =>
      -- `return self.tree`
      match fr.kind with
      | .autoPlain => .pop .ret opt.tree r
      | _ =>
        match opt.tree with
        | none => .pop .ret none r                    -- KeyError('tree')
        | some _ => .cont .search { fr with pc := .ran missing id opt } r n
  | .ran missing id opt =>
    -- `self._suboptimizers[thrid] = opt`; `_deconstruct_tree(opt, tree)`
    .cont (if cfg.registerFirst then .silent else .store)
      { fr with pc := .stored missing { score := opt.curBest, origin := opt.tree.getD fr.q.net } }
      (if cfg.registerFirst then r else { r with subopts := updFn r.subopts t (some (id, opt)) }) n
  | .stored missing con =>
    if cfg.overwrite fr.obj = .improved && !missing then
      match r.cache fr.q.key with
      | none => .pop .ret none r
      | some old => .cont .cacheGet { fr with pc := .compare con old } r n
    else
      .cont .cacheSet { fr with pc := .have true con }
        { r with cache := updFn r.cache fr.q.key (some con) } n
  | .compare con old =>
    if slt con.score old.score then
      .cont .cacheSet { fr with pc := .have true con }
        { r with cache := updFn r.cache fr.q.key (some con) } n
    else
      -- `con = old_con; should_run = False`
      .cont .silent { fr with pc := .have false old } r n
  | .have searched con =>
    if fr.viaCall then
      .pop .ret (some con.origin) r                   -- `return con["path"]`
    else if searched then
      -- `self.last_opt.tree` = `_suboptimizers.get(get_ident()).tree`
      match r.subopts t with
      | none => .pop .ret none r
      | some (_, opt) => .pop .ret opt.tree r
    else
      .pop .ret (some fr.q.net) r                     -- `_reconstruct_tree(inputs, ...)`

/-- one step of thread `t`: its innermost frame moves, or the next top-level query is put -/
def stepThread (cfg : NCfg) (t : Nat) (th : NThread) (objs : Nat → NRState) :
    NThread × (Nat → NRState) × Label :=
  match th.stack with
  | [] =>
    match th.queue with
    | [] => (th, objs, .silent)
    | c :: rest => ({ th with queue := rest, stack := [frameOf c] }, objs, .silent)
  | fr :: below =>
    match stepTop cfg t th.nalloc fr (objs fr.obj) with
    | .cont l fr' r' n' =>
      ({ th with stack := fr' :: below, nalloc := n' }, updFn objs fr.obj r', l)
    | .push fr' c => ({ th with stack := frameOf c :: fr' :: below }, objs, .call)
    | .pop l res r' =>
      ({ th with stack := below,
                 results := th.results ++ [⟨fr.q, fr.viaCall, below.length, res⟩] },
       updFn objs fr.obj r', l)

def step (cfg : NCfg) (s : NSys) (t : Nat) : NSys :=
  let x := stepThread cfg t (s.threads t) s.objs
  { objs := x.2.1, threads := updFn s.threads t x.1 }

def runSched (cfg : NCfg) (s : NSys) (sched : List Nat) : NSys := sched.foldl (step cfg) s

def NSys.start (queues : Nat → List QTree) : NSys :=
  { objs := fun _ => NRState.empty, threads := fun t => { queue := queues t } }

/-- the sequential nested run: one thread, `fuel` steps -/
def runNested (cfg : NCfg) (qs : List QTree) (fuel : Nat) : NThread :=
  (runSched cfg (NSys.start fun t => if t = 0 then qs else []) (List.replicate fuel 0)).threads 0

end ReuseNest
end Cotengra
