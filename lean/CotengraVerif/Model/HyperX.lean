import CotengraVerif.Model.Hyper
import CotengraVerif.Model.HyperTrial

/-
  Extended model of `HyperOptimizer` (cotengra/hyperoptimizers/hyper.py), round 3.  Same code as
  `Model/Hyper.lean`, transcribed again with what that model left out:

    * scores are Python floats *including* `-inf` and `nan` (`XScore`), compared with the IEEE
      semantics of `<` / `>=` (`xlt`, `xge`: false whenever a NaN is involved) -- a custom
      `minimize=` callable / `Objective` may return any float;
    * `self.times` (the seventh record list) and `get_trials()`;
    * a worker that raises (`on_trial_error='raise'`): `trial_fn(...)` / `future.result()` raises
      inside the generator, `_search` is left by the exception, `_maybe_cancel_futures` is *not*
      reached (there is no try/finally), the pending futures stay in `self._futures`;
    * `_maybe_cancel_futures` seen with the state of the futures it pops: futures whose worker had
      already finished when the loop ended (`doneAt`) are popped and dropped like the others --
      their results are never recorded (`discarded`).

    `xreport`       = `_maybe_report_result`                       (hyper.py:577-605)
    `xassess`       = body of `for trial in trials`                (hyper.py:714-728)
    `xserialLoop`   = `_gen_results` consumed by `_search`         (hyper.py:607-623, 714-732)
    `xparPhase1/2`  = `_gen_results_parallel`, `_get_and_report_next_future` (625-659)
    `xcancel`       = `_maybe_cancel_futures`                      (571-575)
    `XState.getTrials` = `get_trials(sort=None)`                   (763-772)
    `xcomputeScore` = `ComputeScore.__call__` with a float-valued objective (308-342)

  Core Lean only (linked into the driver).
-/
namespace Cotengra
namespace Hyper

/-- a Python float used as a score -/
inductive XScore where
  | ninf
  | fin (n : Nat)
  | inf
  | nan
deriving DecidableEq, Repr, Inhabited

/-- position of an ordered float in `Score` (`-inf` lowest, `inf` = `none`); NaN has none -/
def XScore.rank : XScore → Option Score
  | .ninf => some (some 0)
  | .fin n => some (some (n + 1))
  | .inf => some none
  | .nan => none

/-- IEEE `a < b`: false whenever a NaN is involved -/
def xlt (a b : XScore) : Bool :=
  match a.rank, b.rank with
  | some x, some y => slt x y
  | _, _ => false

/-- IEEE `a >= b`: false whenever a NaN is involved (so *not* the negation of `a < b`) -/
def xge (a b : XScore) : Bool :=
  match a.rank, b.rank with
  | some x, some y => sle y x
  | _, _ => false

def XScore.isNaN : XScore → Bool
  | .nan => true
  | _ => false

/-- the trial dict as the driver side reads it; `time` is an opaque id of the float
    `trial["time"]` -/
structure XTrial where
  score : XScore
  flops : Score
  write : Score
  size : Score
  tree : Option Nat
  time : Nat := 0
deriving DecidableEq, Repr, Inhabited

structure XBest where
  trial : XTrial
  params : Option Nat
  method : Option Nat
deriving DecidableEq, Repr, Inhabited

structure XState where
  methodChoices : List Nat := []
  paramChoices : List Nat := []
  scores : List XScore := []
  times : List Nat := []
  costsFlops : List Score := []
  costsWrite : List Score := []
  costsSize : List Score := []
  /-- `self.best_score`, initially `float('inf')` -/
  bestScore : XScore := .inf
  /-- `self.best`; `none` = the initial `{"score": inf, "size": inf, "flops": inf}` -/
  best : Option XBest := none
  trialsSinceBest : Nat := 0
  optlibReports : List (Nat × XScore) := []
  maxTrainingSteps : Option Nat := none
  /-- ghost: number of `get_setting` calls so far -/
  submitted : Nat := 0
deriving DecidableEq, Repr, Inhabited

def XState.init (mts : Option Nat := none) : XState := { maxTrainingSteps := mts }

/-- `self.best["score"]` -/
def XState.curBest (st : XState) : XScore :=
  match st.best with
  | none => .inf
  | some b => b.trial.score

/-- `self.tree` = `self.best["tree"]` (`none` = `KeyError`) -/
def XState.tree (st : XState) : Option Nat :=
  match st.best with
  | none => none
  | some b => b.trial.tree

/-- `_maybe_report_result(setting, trial)` -/
def xreport (st : XState) (s : Setting) (t : XTrial) : XState :=
  let newBest := xlt t.score st.bestScore
  let withinTraining :=
    match st.maxTrainingSteps with
    | none => true
    | some m => decide (st.scores.length < m)
  let shouldReport := (withinTraining || newBest) && xlt t.score .inf
  { st with
    bestScore := if newBest then t.score else st.bestScore
    optlibReports := if shouldReport then st.optlibReports ++ [(s.params, t.score)]
                     else st.optlibReports
    methodChoices := st.methodChoices ++ [s.method]
    paramChoices := st.paramChoices ++ [s.params]
    costsFlops := st.costsFlops ++ [t.flops]
    costsWrite := st.costsWrite ++ [t.write]
    costsSize := st.costsSize ++ [t.size]
    scores := st.scores ++ [t.score]
    times := st.times ++ [t.time] }

/-- loop body at hyper.py:714-728: `if trial["score"] < self.best["score"]: adopt
    else: self.trials_since_best += 1` -/
def xassess (st : XState) (t : XTrial) : XState :=
  if xlt t.score st.curBest then
    { st with
      trialsSinceBest := 0
      best := some { trial := t, params := st.paramChoices.getLast?,
                     method := st.methodChoices.getLast? } }
  else
    { st with trialsSinceBest := st.trialsSinceBest + 1 }

def xcomplete (st : XState) (s : Setting) (t : XTrial) : XState := xassess (xreport st s t) t

/-- `should_stop()` on the extended state -/
def StopRule.xnext : StopRule → XState → Bool × StopRule
  | .never, _ => (false, .never)
  | .equil a, st => (decide (st.trialsSinceBest > a), .equil a)
  | .clock [], _ => (false, .clock [])
  | .clock (b :: bs), _ => (b, .clock bs)

/-- the oracles of a search -/
structure XEnv where
  getSetting : XState → Setting
  /-- worker side, k-th submission; `none` = the call raises (`on_trial_error='raise'`) -/
  trialFn : Nat → Setting → Option XTrial
  /-- had the worker of submission k already finished when `_maybe_cancel_futures` popped its
      future?  (any answer is possible for a pending future) -/
  doneAt : Nat → Bool := fun _ => false

def xsetSub (st : XState) (n : Nat) : XState := { st with submitted := n }

/-- result of a serial `_search`: the state and whether it was left by an exception -/
structure XSerial where
  st : XState
  aborted : Bool := false
deriving Repr, Inhabited

/-- `_gen_results` consumed by the assessing loop -/
def xserialLoop (env : XEnv) : Nat → StopRule → XState → XSerial
  | 0, _, st => { st := st }
  | k + 1, stop, st =>
    let s := env.getSetting st
    match env.trialFn st.submitted s with
    | none => { st := xsetSub st (st.submitted + 1), aborted := true }
    | some t =>
      let st1 := xcomplete (xsetSub st (st.submitted + 1)) s t
      if (stop.xnext st1).1 then { st := st1 } else xserialLoop env k (stop.xnext st1).2 st1

/-- driver-side state of a parallel search -/
structure XPState where
  h : XState
  /-- `self._futures`: (setting, submission number), in submission order -/
  futures : List (Setting × Nat) := []
  /-- futures popped by `_maybe_cancel_futures` (`cancel()` was called on them), in pop order -/
  cancelled : List Nat := []
  /-- those among the popped futures whose worker had already finished (with the setting they
      were submitted with): their result exists and is dropped unrecorded -/
  discarded : List (Setting × Nat) := []
  /-- the submission whose `future.result()` raised, if the search was left by an exception -/
  raised : Option Nat := none
deriving Repr, Inhabited

def XPState.aborted (ps : XPState) : Bool := ps.raised.isSome

/-- `_get_and_report_next_future` (the future at the chosen position is the first found
    `done()`; it is deleted from `self._futures`, then `future.result()` returns or raises)
    followed by the assessment of the returned trial -/
def xcompleteP (env : XEnv) (ps : XPState) (c : Nat) : XPState :=
  match pickAt ps.futures c with
  | none => ps
  | some ((s, k), rest) =>
    match env.trialFn k s with
    | none => { ps with futures := rest, raised := some k }
    | some t => { ps with h := xcomplete ps.h s t, futures := rest }

/-- `_maybe_cancel_futures`: `while self._futures: f = self._futures.pop()[-1]; f.cancel()` -/
def xcancel (env : XEnv) (ps : XPState) : XPState :=
  { ps with
    futures := []
    cancelled := ps.cancelled ++ ps.futures.reverse.map (·.2)
    discarded := ps.discarded ++ ps.futures.reverse.filter (fun f => env.doneAt f.2) }

def xsubmit (ps : XPState) (s : Setting) : XPState :=
  { ps with h := xsetSub ps.h (ps.h.submitted + 1), futures := ps.futures ++ [(s, ps.h.submitted)] }

/-- `while self._futures: yield self._get_and_report_next_future()` -/
def xparPhase2 (env : XEnv) : Nat → StopRule → List Nat → XPState → XPState
  | 0, _, _, ps => xcancel env ps
  | f + 1, stop, cs, ps =>
    if ps.futures.isEmpty then xcancel env ps
    else
      let ps1 := xcompleteP env ps (cs.headD 0)
      if ps1.aborted then ps1
      else if (stop.xnext ps1.h).1 then xcancel env ps1
      else xparPhase2 env f (stop.xnext ps1.h).2 cs.tail ps1

/-- `for _ in repeats: submit; if len(self._futures) >= self.pre_dispatch: yield …` -/
def xparPhase1 (env : XEnv) (pre : Nat) : Nat → StopRule → List Nat → XPState → XPState
  | 0, stop, cs, ps => xparPhase2 env ps.futures.length stop cs ps
  | k + 1, stop, cs, ps =>
    let ps0 := xsubmit ps (env.getSetting ps.h)
    if ps0.futures.length ≥ pre then
      let ps1 := xcompleteP env ps0 (cs.headD 0)
      if ps1.aborted then ps1
      else if (stop.xnext ps1.h).1 then xcancel env ps1
      else xparPhase1 env pre k (stop.xnext ps1.h).2 cs.tail ps1
    else xparPhase1 env pre k stop cs ps0

def xsearchSerial (env : XEnv) (maxRepeats : Nat) (stop : StopRule) (st : XState) : XSerial :=
  xserialLoop env maxRepeats stop st

/-- `_search` with a pool: `self._futures = []` first (whatever an aborted earlier search left
    behind is forgotten) -/
def xsearchParallel (env : XEnv) (pre maxRepeats : Nat) (stop : StopRule) (choices : List Nat)
    (st : XState) : XPState :=
  xparPhase1 env pre maxRepeats stop choices { h := st }

/-! ### what else the clean-up could do with futures that had already finished
       (not the code as written; subjects of `C08.harvest_report_only_counterexample` and
       `C08.harvest_and_assess_tracks`, and what the harness compares with when a changed tree
       collects results during the clean-up) -/

/-- pass the result of every finished popped future to `_maybe_report_result` only -/
def harvestReportOnly (env : XEnv) (ps : XPState) : XState :=
  ps.discarded.foldl (fun h f =>
    match env.trialFn f.2 f.1 with
    | some t => xreport h f.1 t
    | none => h) ps.h

/-- record *and* compare them -/
def harvestAndAssess (env : XEnv) (ps : XPState) : XState :=
  ps.discarded.foldl (fun h f =>
    match env.trialFn f.2 f.1 with
    | some t => xcomplete h f.1 t
    | none => h) ps.h

/-! ### specification-side helpers -/

abbrev XLog := List (Setting × XTrial)

def xrunLog (st : XState) (log : XLog) : XState :=
  log.foldl (fun st e => xcomplete st e.1 e.2) st

/-- `get_trials(sort=None)`: `zip(method_choices, costs_size, costs_flops, costs_write,
    param_choices)` -/
def XState.getTrials (st : XState) : List (Nat × Score × Score × Score × Nat) :=
  List.zip st.methodChoices (List.zip st.costsSize (List.zip st.costsFlops
    (List.zip st.costsWrite st.paramChoices)))

def xtrialRow (e : Setting × XTrial) : Nat × Score × Score × Score × Nat :=
  (e.1.method, e.2.size, e.2.flops, e.2.write, e.1.params)

/-- the seven parallel lists zipped back into rows -/
def XState.rows (st : XState) : List (Nat × Nat × XScore × Nat × Score × Score × Score) :=
  List.zip st.methodChoices (List.zip st.paramChoices (List.zip st.scores (List.zip st.times
    (List.zip st.costsFlops (List.zip st.costsWrite st.costsSize)))))

def xrowOf (e : Setting × XTrial) : Nat × Nat × XScore × Nat × Score × Score × Score :=
  (e.1.method, e.1.params, e.2.score, e.2.time, e.2.flops, e.2.write, e.2.size)

/-! ### worker side with a float-valued objective -/

/-- an objective returning any float (`none` = raises); the value stands for
    `score_fn(trial) ** score_compression + smudge`, which is NaN iff `score_fn(trial)` is -/
structure XObjective (τ : Type) where
  ensures : Bool
  value : TDict τ → Option XScore

def XObjective.call {τ : Type} (ops : TreeOps τ) (o : XObjective τ) (d : TDict τ) :
    Option (TDict τ × XScore) :=
  let d' := if o.ensures then ensureBasic ops d else d
  match o.value d' with
  | none => none
  | some sc => some (d', sc)

structure XRDict (τ : Type) where
  score : XScore
  flops : Option Score
  write : Option Score
  size : Option Score
  tree : Option τ
deriving Repr

def xfailRec {τ : Type} : XRDict τ :=
  { score := .inf, flops := some none, write := some none, size := some none, tree := none }

/-- `ComputeScore.__call__` -/
def xcomputeScore {τ : Type} (ops : TreeOps τ) (ws : List Wrapper) (obj : XObjective τ)
    (postEnsure : Bool) (onErr : OnErr) (raw : Raw τ) : Option (XRDict τ) :=
  let onException : Option (XRDict τ) := if onErr = .raise then none else some xfailRec
  match raw with
  | .badTrial => some xfailRec
  | .error => onException
  | .ok t =>
    match runStack ops ws (baseDict t) with
    | none => onException
    | some d =>
      match obj.call ops d with
      | none => onException
      | some (d', sc) =>
        let d'' := if postEnsure then ensureBasic ops d' else d'
        some { score := sc, flops := d''.flops.map some, write := d''.write.map some,
               size := d''.size.map some, tree := some d''.tree }

/-- the key reads of `_maybe_report_result` (`none` = `KeyError`); `time` is always set by
    `ComputeScore` after the `try` -/
def xtoTrial {τ : Type} (idOf : τ → Nat) (time : Nat) (r : XRDict τ) : Option XTrial :=
  match r.flops, r.write, r.size with
  | some f, some w, some s =>
    some { score := r.score, flops := f, write := w, size := s, tree := r.tree.map idOf,
           time := time }
  | _, _, _ => none

end Hyper
end Cotengra
