import CotengraVerif.Model.Program

/-!
# The per-node contraction recipes and the program extraction, as cotengra computes them

Transcribed from cotengra/core.py:801-921 (`get_legs` root rule, `get_inds`, `get_can_dot`,
`get_tensordot_axes`, `get_tensordot_perm`, `get_einsum_eq`), core.py:743-786
(`compute_leaf_legs` → preprocessing equation through `inputs_output_to_eq(…, canonicalize=True)`,
utils.py:1235), core.py:2920-3004 (`sort_contraction_indices`), contract.py:576-636
(`extract_contractions`).

Nodes of the complete tree are subtrees `s : BT`; "`len(node) == N`" (the root test of the real
code) is `s.leaves.length == n.inputs.length`.  The recipes are parameterised by the table of
ordered index lists `I : BT → List Ix` (`info[node]["inds"]`): `Net.inds` is the default
(`get_inds`), `sortInds` what `sort_contraction_indices` leaves behind.
-/
namespace Cotengra

/-- stable insertion of `x` into a list sorted by `key` (before equal keys: `x` came earlier) -/
def insertBy (key : Nat → Nat) (x : Nat) : List Nat → List Nat
  | [] => [x]
  | y :: ys => if key x ≤ key y then x :: y :: ys else y :: insertBy key x ys

/-- python `sorted(l, key=key)` (stable) -/
def sortBy (key : Nat → Nat) (l : List Nat) : List Nat := l.foldr (insertBy key) []

/-- `s.find(c) + 1` for a string of distinct-or-not characters: 0 when absent -/
def findKey (s : List Nat) (c : Nat) : Nat := if s.contains c then s.idxOf c + 1 else 0

namespace Net

/-- `get_legs` including the root rule (core.py:806-825) -/
def legsR (n : Net) (rm : List Ix) : BT → Legs
  | .leaf i => n.leafLegs rm i
  | .node l r =>
    if (BT.node l r).leaves.length == n.inputs.length then n.rootLegs rm
    else n.legs rm (.node l r)

/-- `get_inds` (core.py:860-877) -/
def inds (n : Net) (rm : List Ix) : BT → List Ix
  | .leaf i => Legs.keys (n.leafLegs rm i)
  | .node l r =>
    if (BT.node l r).leaves.length == n.inputs.length then Legs.keys (n.rootLegs rm)
    else
      let legs := n.legs rm (.node l r)
      uniq ((n.inds rm l ++ n.inds rm r).filter fun ix => legs.has ix)

end Net

/-- `get_can_dot` (core.py:850-858) on the three leg key lists:
    `set(sp) == set(sl).symmetric_difference(sr)` -/
def canDot (sp sl sr : List Ix) : Bool :=
  sp.all (fun ix => sl.contains ix != sr.contains ix) &&
    (sl ++ sr).all (fun ix => !(sl.contains ix != sr.contains ix) || sp.contains ix)

/-- `get_tensordot_axes` (core.py:879-892) -/
def tensordotAxes (lI rI : List Ix) : List Nat × List Nat :=
  let ps := lI.zipIdx.filter fun p => rI.contains p.1
  (ps.map (·.2), ps.map fun p => rI.idxOf p.1)

/-- `get_tensordot_perm` (core.py:894-906) -/
def tensordotPerm (lI rI pI : List Ix) : Option (List Nat) :=
  let td := sortBy (findKey (lI ++ rI)) pI
  if td == pI then none else some (pI.map fun ix => td.idxOf ix)

/-- `get_einsum_eq` (core.py:908-921): labels are positions of first appearance in
    `l_inds ++ r_inds`; `str.translate` leaves an unmapped character of `p_inds` unchanged –
    here it gets a label outside the mapped range. -/
def einsumEq (lI rI pI : List Ix) : List Nat × List Nat × List Nat :=
  let u := uniq (lI ++ rI)
  let lab := fun ix => if u.contains ix then u.idxOf ix else u.length + ix
  (lI.map lab, rI.map lab, pI.map lab)

/-- the preprocessing equation of a leaf: `inputs_output_to_eq((term,), legs, canonicalize=True)`;
    the output is translated first, so labels are positions of first appearance in
    `out ++ term`. -/
def preEq (term out : List Ix) : List Nat × List Nat :=
  let u := uniq (out ++ term)
  (term.map (u.idxOf ·), out.map (u.idxOf ·))

/-- one entry of `extract_contractions` (contract.py:612-623) -/
def stepOf (n : Net) (rm : List Ix) (I : BT → List Ix) (preferEinsum : Bool) : BT → Option Step
  | .leaf _ => none
  | .node l r =>
    let s := BT.node l r
    let rc :=
      if preferEinsum ||
          !canDot (Legs.keys (n.legsR rm s)) (Legs.keys (n.legsR rm l)) (Legs.keys (n.legsR rm r)) then
        let e := einsumEq (I l) (I r) (I s)
        Recipe.einsum e.1 e.2.1 e.2.2
      else
        let a := tensordotAxes (I l) (I r)
        Recipe.tdot a.1 a.2 (tensordotPerm (I l) (I r) (I s))
    some { parent := s.leaves, left := l.leaves, right := r.leaves, recipe := rc }

/-- `tree.preprocessing` once every leaf's legs have been computed (core.py:775-784);
    listed by leaf number (the real dict is in first-touched order, which no consumer observes
    beyond "all preprocessing first") -/
def preOf (n : Net) (rm : List Ix) : List PreStep :=
  (List.range n.inputs.length).filterMap fun i =>
    if (n.leafLegsPre rm i).2 then
      let e := preEq (n.termRm rm i) (Legs.keys (n.leafLegs rm i))
      some { leaf := i, lhs := e.1, out := e.2 }
    else none

/-- `extract_contractions(tree, order, prefer_einsum)` for the traversal `order` (a list of the
    internal nodes, children first) and the index-order table `I` -/
def extractWith (n : Net) (rm : List Ix) (I : BT → List Ix) (order : List BT)
    (preferEinsum : Bool) : Program :=
  { pre := preOf n rm, steps := order.filterMap (stepOf n rm I preferEinsum) }

/-- extraction with the default index orders (`get_inds`) -/
def extract (n : Net) (rm : List Ix) (order : List BT) (preferEinsum : Bool) : Program :=
  extractWith n rm (n.inds rm) order preferEinsum

/-! ## `sort_contraction_indices` (core.py:2920-3004) -/

/-- `info[·]["inds"]` overrides as an association list, newest first -/
abbrev IndsTable := List (BT × List Ix)

/-- `get_inds` as a *cached* node property during the sort: a stored value wins; otherwise the
    value is computed from the children's (cached or freshly computed) lists and stored. -/
def IndsTable.cached (n : Net) (rm : List Ix) (tb : IndsTable) : BT → IndsTable × List Ix
  | .leaf i =>
    match tb.find? (fun e => e.1 == BT.leaf i) with
    | some e => (tb, e.2)
    | none => (tb, Legs.keys (n.leafLegs rm i))
  | .node l r =>
    let s := BT.node l r
    match tb.find? (fun e => e.1 == s) with
    | some e => (tb, e.2)
    | none =>
      if s.leaves.length == n.inputs.length then
        let v := Legs.keys (n.rootLegs rm)
        ((s, v) :: tb, v)
      else
        let (tb1, lI) := IndsTable.cached n rm tb l
        let (tb2, rI) := IndsTable.cached n rm tb1 r
        let legs := n.legs rm s
        let v := uniq ((lI ++ rI).filter fun ix => legs.has ix)
        ((s, v) :: tb2, v)

/-- reading the table after the sort (`get_inds` of the extraction: stored values win, nodes the
    sort never touched are computed from their children) -/
def IndsTable.get (n : Net) (rm : List Ix) (tb : IndsTable) (s : BT) : List Ix :=
  (IndsTable.cached n rm tb s).2

/-- python sorts by the tuple `(a.find(ix), b.find(ix))`: lexicographic = sort by the second
    component, then stably by the first -/
def sortBy2 (a b : List Ix) (l : List Ix) : List Ix :=
  sortBy (findKey a) (sortBy (findKey b) l)

/-- the loop body for one node `p = node l r` (core.py:2966-3001) -/
def sortNode (n : Net) (rm : List Ix) (outputContig contractedContig : Bool) (tb : IndsTable) :
    BT → IndsTable
  | .leaf _ => tb
  | .node l r =>
    let p := BT.node l r
    let N := n.inputs.length
    let (tb, pI) := IndsTable.cached n rm tb p
    let (tb, lI) := IndsTable.cached n rm tb l
    let (tb, rI) := IndsTable.cached n rm tb r
    let (tb, pI) :=
      if outputContig && p.leaves.length != N then
        let pI' := sortBy2 rI lI pI
        ((p, pI') :: tb, pI')
      else (tb, pI)
    if contractedContig then
      let (tb, lI) :=
        if l.leaves.length != 1 then
          let lI' := sortBy2 rI pI (Legs.keys (n.legsR rm l))
          ((l, lI') :: tb, lI')
        else (tb, lI)
      if r.leaves.length != 1 then
        (r, sortBy2 pI lI (Legs.keys (n.legsR rm r))) :: tb
      else tb
    else tb

/-- `sort_contraction_indices(reset=True)` processing the nodes in the order `proc`
    (`proc` is what the `priority` argument selects: flops / size / root / leaves) -/
def sortInds (n : Net) (rm : List Ix) (outputContig contractedContig : Bool) (proc : List BT) :
    BT → List Ix :=
  (proc.foldl (sortNode n rm outputContig contractedContig) []).get n rm

end Cotengra
