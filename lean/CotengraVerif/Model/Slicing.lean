import CotengraVerif.Model.Net

/-!
  Model of the slicing layer of `ContractionTree` (cotengra/core.py):

  * `SliceInfo` and its dataclass ordering                      core.py:109-121
  * `get_slice_strides`                                         core.py:124-132
  * the slicing-state part of `remove_ind` / `restore_ind`      core.py:1606-1644, 1686-1718
    (`sliced_inds`, `multiplicity`, `sliced_inputs`; the cost bookkeeping is C04's)
  * `nslices`, `nchunks`                                        core.py:384-398
  * `slice_key`                                                 core.py:3245-3270
  * `slice_arrays` (the selectors)                              core.py:3272-3289
  * `gather_slices` incl. `recursively_stack_chunks`            core.py:3295-3350
  * `gen_output_chunks`                                         core.py:3352-3409

  Arrays are *functional*: a shape and an element function.  `IArr.add`, `IArr.stack`,
  `IArr.select` are the model of `x + y`, `numpy.stack(arrays, axis)` and basic indexing
  `x[(int | slice(None), ...)]`; they are trusted (validated against numpy by the harness).

  Core Lean only (the compiled driver links this file).
-/
namespace Cotengra

/-- `SliceInfo` (core.py:109): `project = none` means the index is sliced over its whole range,
    `some p` that it is projected onto the single value `p` (then `size = 1`). -/
structure SliceInfo where
  inner : Bool
  ind : Ix
  size : Nat
  project : Option Nat
deriving Repr, BEq, DecidableEq, Inhabited

namespace SliceInfo

/-- property `sliced_range` (core.py:116) -/
def slicedRange (s : SliceInfo) : List Nat :=
  match s.project with
  | none => List.range s.size
  | some p => [p]

/-- `@dataclass(order=True)`: tuple comparison on `(inner, ind, size, project)`.
    Two entries of one `sliced_inds` dict never share `ind` (`remove_ind` raises "already
    sliced"), so the comparison is always decided by `(inner, ind)`; the `size` component is
    transcribed, the `project` component (where Python would raise on `None < int`) is never
    reached and is modelled as "equal". -/
def le (a b : SliceInfo) : Bool :=
  if a.inner != b.inner then !a.inner
  else if a.ind != b.ind then a.ind < b.ind
  else a.size ≤ b.size

end SliceInfo

/-- An array as a total function on multi-indices, with its shape. -/
structure IArr where
  shape : List Nat
  get : List Nat → Int

namespace IArr

/-- `x + y` for arrays of equal shape -/
def add (a b : IArr) : IArr := { shape := a.shape, get := fun idx => a.get idx + b.get idx }

def zero : IArr := { shape := [], get := fun _ => 0 }

/-- `numpy.stack(arrays, axis)`: a new axis of length `len(arrays)` at position `axis`. -/
def stack (arrs : List IArr) (axis : Nat) : IArr :=
  { shape := ((arrs.head?.map (·.shape)).getD []).insertIdx axis arrs.length,
    get := fun idx => (arrs.getD (idx.getD axis 0) zero).get (idx.eraseIdx axis) }

/-- positions of the full array addressed by `idx` through a selector of ints (`some v`) and
    full slices (`none`) -/
def fill : List (Option Nat) → List Nat → List Nat
  | [], _ => []
  | some v :: sel, idx => v :: fill sel idx
  | none :: sel, j :: idx => j :: fill sel idx
  | none :: sel, [] => 0 :: fill sel []

/-- basic indexing `x[selector]` with one entry per axis: an int drops the axis,
    `slice(None)` keeps it -/
def select (a : IArr) (sel : List (Option Nat)) : IArr :=
  { shape := (a.shape.zip sel).filterMap (fun p => if p.2.isNone then some p.1 else none),
    get := fun idx => a.get (fill sel idx) }

end IArr

namespace Slicing

/-- `get_slice_strides` (core.py:124): backwards cumulative product,
    `strides[i] = strides[i+1] * infos[i+1].size`, last stride 1. -/
def getSliceStrides : List SliceInfo → List Nat
  | [] => []
  | [_] => [1]
  | _ :: b :: t =>
    match getSliceStrides (b :: t) with
    | [] => []
    | s :: ss => (s * b.size) :: s :: ss

/-- loop of `slice_key` (core.py:3262): runs over `zip(sliced_inds.items(), strides)` -/
def sliceKeyAux : List SliceInfo → List Nat → Nat → List (Ix × Nat)
  | s :: sl, st :: sts, i =>
    match s.project with
    | none => (s.ind, i / st) :: sliceKeyAux sl sts (i % st)
    | some p => (s.ind, p) :: sliceKeyAux sl sts i
  | _, _, _ => []

/-- `tree.slice_key(i)` (core.py:3245) as an ordered dict `ind ↦ value` -/
def sliceKey (sl : List SliceInfo) (i : Nat) : List (Ix × Nat) :=
  sliceKeyAux sl (getSliceStrides sl) i

/-! ### certificate checker for a real table `i ↦ slice_key(i)` -/

def validKeyB : List SliceInfo → List (Ix × Nat) → Bool
  | [], [] => true
  | s :: sl, kv :: k => kv.1 == s.ind && s.slicedRange.contains kv.2 && validKeyB sl k
  | _, _ => false

def nodupB : List (List (Ix × Nat)) → Bool
  | [] => true
  | a :: t => !t.contains a && nodupB t

/-- product of the `size` fields -/
def prodSizes : List SliceInfo → Nat
  | [] => 1
  | s :: t => s.size * prodSizes t

/-- accepts a table of keys iff it has `nslices` rows, every row is a valid key and no row
    repeats (sound for "the table is a bijection onto the valid keys": `C06.keysCert_sound`) -/
def keysCert (sl : List SliceInfo) (ks : List (List (Ix × Nat))) : Bool :=
  ks.length == prodSizes sl && ks.all (validKeyB sl) && nodupB ks

/-- `nchunks` (core.py:392): product of the sizes of the sliced *output* indices -/
def nchunks (sl : List SliceInfo) : Nat := prodSizes (sl.filter (fun s => !s.inner))

/-- `stepsize` of `gen_output_chunks` (core.py:3381) -/
def stepsize (sl : List SliceInfo) : Nat := prodSizes (sl.filter (fun s => s.inner))

def isSliced (sl : List SliceInfo) (ix : Ix) : Bool := sl.any (fun s => s.ind == ix)

/-- `sliced_inds[ix]` -/
def infoOf (sl : List SliceInfo) (ix : Ix) : Option SliceInfo := sl.find? (fun s => s.ind == ix)

/-! ### slicing state: `remove_ind` / `restore_ind` -/

/-- the part of the tree state the slicing layer reads -/
structure SliceState where
  slicedInds : List SliceInfo      -- the ordered dict `sliced_inds` (values, in dict order)
  multiplicity : Nat
  slicedInputs : List Nat          -- `sliced_inputs` (a frozenset; kept sorted)
deriving Repr, BEq, DecidableEq

def SliceState.empty : SliceState := ⟨[], 1, []⟩

/-- insert into a sorted duplicate-free list of naturals (set union with a singleton) -/
def setInsert (a : Nat) : List Nat → List Nat
  | [] => [a]
  | b :: t => if a < b then a :: b :: t else if a = b then b :: t else b :: setInsert a t

/-- ordered insertion before the first entry that is not smaller -/
def insertLe (a : SliceInfo) : List SliceInfo → List SliceInfo
  | [] => [a]
  | b :: t => if SliceInfo.le a b then a :: b :: t else b :: insertLe a t

/-- `sorted(infos)` (stable; here as insertion sort — every stable sort by a total preorder
    returns the same list) -/
def sortInfos (l : List SliceInfo) : List SliceInfo := l.foldr insertLe []

/-- the `SliceInfo` created at core.py:1620-1625 -/
def mkInfo (n : Net) (ind : Ix) : Option Nat → SliceInfo
  | none => ⟨!n.output.contains ind, ind, n.size ind, none⟩
  | some p => ⟨!n.output.contains ind, ind, 1, some p⟩

/-- slicing-state effect of `remove_ind(ind, project)` (core.py:1606-1644); `none` is the
    `ValueError("already sliced")`. -/
def removeInd (n : Net) (st : SliceState) (ind : Ix) (project : Option Nat) : Option SliceState :=
  if isSliced st.slicedInds ind then none
  else
    let holders := (List.range n.inputs.length).filter (fun i => (n.term i).contains ind)
    some { slicedInds := sortInfos (st.slicedInds ++ [mkInfo n ind project]),
           multiplicity := (match project with
             | none => st.multiplicity * n.size ind
             | some _ => st.multiplicity),
           slicedInputs := holders.foldl (fun acc i => setInsert i acc) st.slicedInputs }

/-- slicing-state effect of `restore_ind(ind)` (core.py:1686-1718); `none` is the `KeyError`. -/
def restoreInd (n : Net) (st : SliceState) (ind : Ix) : Option SliceState :=
  match infoOf st.slicedInds ind with
  | none => none
  | some si =>
    let sl := st.slicedInds.filter (fun s => s.ind != ind)
    some { slicedInds := sl,
           multiplicity := st.multiplicity / si.size,
           slicedInputs := st.slicedInputs.filter (fun i =>
             !((n.term i).contains ind && (n.term i).all (fun ix => !isSliced sl ix))) }

inductive SliceOp where
  | remove (ind : Ix) (project : Option Nat)
  | restore (ind : Ix)
deriving Repr

/-- a failing operation raises before it changes anything: the state is kept -/
def stepOp (n : Net) (st : SliceState) : SliceOp → SliceState
  | .remove ind p => (removeInd n st ind p).getD st
  | .restore ind => (restoreInd n st ind).getD st

def runOps (n : Net) (ops : List SliceOp) : SliceState := ops.foldl (stepOp n) SliceState.empty

/-! ### `slice_arrays` -/

/-- `d.get(ix, default)` / `d[ix]` on an ordered dict -/
def keyGet (key : List (Ix × Nat)) (ix : Ix) : Option Nat := key.lookup ix

/-- the indexing object built at core.py:3283 for one term -/
def selector (key : List (Ix × Nat)) (term : List Ix) : List (Option Nat) := term.map (keyGet key)

/-- per input: `some selector` if the input is in `sliced_inputs`, `none` if it is left alone -/
def sliceSelectors (n : Net) (st : SliceState) (i : Nat) : List (Option (List (Option Nat))) :=
  let key := sliceKey st.slicedInds i
  (List.range n.inputs.length).map fun c =>
    if st.slicedInputs.contains c then some (selector key (n.term c)) else none

/-- `slice_arrays(arrays, i)` -/
def sliceArrays (n : Net) (st : SliceState) (arrays : List IArr) (i : Nat) : List IArr :=
  let key := sliceKey st.slicedInds i
  (arrays.zip (List.range arrays.length)).map fun (a, c) =>
    if st.slicedInputs.contains c then a.select (selector key (n.term c)) else a

/-! ### `gather_slices` -/

/-- `output_pos` (core.py:3306): sliced output indices with their position in `output`,
    in output order -/
def outputPosFrom (sl : List SliceInfo) : Nat → List Ix → List (Ix × Nat)
  | _, [] => []
  | p, ix :: out =>
    if isSliced sl ix then (ix, p) :: outputPosFrom sl (p + 1) out else outputPosFrom sl (p + 1) out

def outputPos (sl : List SliceInfo) (output : List Ix) : List (Ix × Nat) := outputPosFrom sl 0 output

/-- `key_slice[ix]`; the default is never used: `ix` ranges over sliced indices only
    (`Slicing.keyGet_sliceKey_isSome` in Props/C06). -/
def keyVal (key : List (Ix × Nat)) (ix : Ix) : Nat := (keyGet key ix).getD 0

/-- `tuple(key_slice[ix] for ix in output_pos)` (core.py:3317) -/
def chunkKey (sl : List SliceInfo) (opos : List (Ix × Nat)) (i : Nat) : List Nat :=
  opos.map fun p => keyVal (sliceKey sl i) p.1

/-- `chunks[key] = chunks[key] + s` / `chunks[key] = s` (core.py:3318-3321) -/
def chunkAdd : List (List Nat × IArr) → List Nat → IArr → List (List Nat × IArr)
  | [], key, s => [(key, s)]
  | (k, a) :: rest, key, s =>
    if k = key then (k, a.add s) :: rest else (k, a) :: chunkAdd rest key s

/-- the loop at core.py:3315 over `enumerate(slices)`, starting at slice number `i0` -/
def buildChunksFrom (sl : List SliceInfo) (opos : List (Ix × Nat)) :
    Nat → List IArr → List (List Nat × IArr) → List (List Nat × IArr)
  | _, [], ch => ch
  | i, s :: rest, ch => buildChunksFrom sl opos (i + 1) rest (chunkAdd ch (chunkKey sl opos i) s)

def buildChunks (sl : List SliceInfo) (opos : List (Ix × Nat)) (slices : List IArr) :=
  buildChunksFrom sl opos 0 slices []

def chunkGet (ch : List (List Nat × IArr)) (loc : List Nat) : Option IArr := ch.lookup loc

/-- all-or-nothing list of options -/
def allSome : List (Option IArr) → Option (List IArr)
  | [] => some []
  | none :: _ => none
  | some a :: t => (allSome t).map (a :: ·)

/-- `sliced_inds[ix].sliced_range` -/
def rangeOf (sl : List SliceInfo) (ix : Ix) : List Nat :=
  match infoOf sl ix with
  | some s => s.slicedRange
  | none => []

/-- `recursively_stack_chunks(loc, remaining)` (core.py:3334-3343); `none` is a `KeyError` of
    `chunks[loc]`.  The stacking axis is `output_pos[remaining[0]] - len(loc)`. -/
def stackRec (sl : List SliceInfo) (ch : List (List Nat × IArr)) :
    List (Ix × Nat) → List Nat → Option IArr
  | [], loc => chunkGet ch loc
  | (ix, pos) :: rem, loc =>
    (allSome ((rangeOf sl ix).map fun d => stackRec sl ch rem (loc ++ [d]))).map
      fun arrs => IArr.stack arrs (pos - loc.length)

/-- `functools.reduce(add, slices)`; `none` for the empty sequence (`TypeError`) -/
def reduceAdd : List IArr → Option IArr
  | [] => none
  | s :: rest => some (rest.foldl IArr.add s)

/-- `gather_slices(slices)` without exponent stripping (core.py:3295-3350) -/
def gatherSlices (output : List Ix) (sl : List SliceInfo) (slices : List IArr) : Option IArr :=
  let opos := outputPos sl output
  if opos.isEmpty then reduceAdd slices
  else stackRec sl (buildChunks sl opos slices) opos []

/-! ### `gen_output_chunks` -/

/-- the slice numbers summed into chunk `o` and the chunk's output key (core.py:3392-3404):
    slices `o*stepsize .. o*stepsize + stepsize - 1`, key = output part of `slice_key(o*stepsize)` -/
def chunkPlan (output : List Ix) (sl : List SliceInfo) (mult : Nat) :
    List (List Nat × List (Ix × Nat)) :=
  let step := stepsize sl
  (List.range (mult / step)).map fun o =>
    ((o * step) :: ((List.range (step - 1)).map fun j => o * step + (j + 1)),
     (sliceKey sl (o * step)).filter (fun kv => output.contains kv.1))

/-- `gen_output_chunks(arrays, with_key=True)` given the per-slice contraction -/
def genOutputChunks (output : List Ix) (sl : List SliceInfo) (mult : Nat)
    (contractSlice : Nat → IArr) : List (IArr × List (Ix × Nat)) :=
  (chunkPlan output sl mult).map fun (is, key) =>
    (match is with
     | [] => IArr.zero
     | i0 :: rest => rest.foldl (fun acc i => acc.add (contractSlice i)) (contractSlice i0), key)

end Slicing
end Cotengra
