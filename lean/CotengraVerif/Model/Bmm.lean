import CotengraVerif.Model.FArr

/-!
  Model of the planners of `cotengra/contract.py` (transcribed from the code at HEAD):

  * `sanitize`        — `_sanitize_equation`                      (contract.py:37-61)
  * `parseSingle`     — `_parse_einsum_single`                    (contract.py:64-122)
  * `pureMul`         — `_parse_eq_to_pure_multiplication`        (contract.py:125-167)
  * `parseBmm`        — `_parse_eq_to_batch_matmul`               (contract.py:170-332)
  * `tensordotEq`     — `_parse_tensordot_axes_to_matmul`         (contract.py:475-521)
  * `evalSingle`      — `_einsum_single`, three-step fallback     (contract.py:346-364)
  * `evalPlan`        — `_do_contraction_via_bmm`                 (contract.py:367-414)

  Index labels are the code points of the symbols (so `sorted` is `<` on `Nat`).  Every exception
  the planners can raise is a `ValueError`; it is modelled by `none`.

  `lenCheck` selects between the shortcut test as it is at HEAD (`false`:
  `set(term) == set(desired)`) and the repaired one (`true`: additionally equal lengths, see
  fixes/C11-transpose-shortcut.patch).  The harness determines which of the two the code under
  /repo implements from its behaviour on the witness `aab,bc->ac`.
-/
namespace Cotengra.Bmm
open Cotengra Cotengra.FA

/-! ### python helpers -/

/-- `x in l` -/
abbrev has (l : List Ix) (x : Ix) : Bool := l.contains x

/-- `set(a) == set(b)` -/
def sameSet (a b : List Ix) : Bool := a.all (has b) && b.all (has a)

/-- `pat in l` for strings -/
def isInfix (pat : List Ix) : List Ix → Bool
  | [] => pat.isEmpty
  | l@(_ :: xs) => pat.isPrefixOf l || isInfix pat xs

/-- merge adjacent copies of `ix` (what `lhs.replace(ix * k, ix)` does when the `k = lhs.count(ix)`
    copies are adjacent) -/
def collapse (ix : Ix) : List Ix → List Ix
  | a :: b :: r => if a = ix ∧ b = ix then collapse ix (b :: r) else a :: collapse ix (b :: r)
  | l => l

/-- insertion into a sorted list / `sorted` -/
def insertSorted (x : Ix) : List Ix → List Ix
  | [] => [x]
  | y :: ys => if x ≤ y then x :: y :: ys else y :: insertSorted x ys

def sortIx (l : List Ix) : List Ix := l.foldr insertSorted []

/-! ### `_sanitize_equation` on code-point strings -/

def cSpace : Nat := 32
def cComma : Nat := 44
def cDot : Nat := 46
def cMinus : Nat := 45
def cGt : Nat := 62

/-- `s.split(",")` -/
def splitComma : List Nat → List (List Nat)
  | [] => [[]]
  | x :: xs =>
    if x = cComma then [] :: splitComma xs
    else match splitComma xs with
      | [] => [[x]]
      | p :: ps => (x :: p) :: ps

/-- split at every `->` -/
def splitArrow : List Nat → List (List Nat)
  | [] => [[]]
  | [x] => [[x]]
  | x :: y :: r =>
    if x = cMinus ∧ y = cGt then [] :: splitArrow r
    else match splitArrow (y :: r) with
      | [] => [[x]]
      | p :: ps => (x :: p) :: ps

inductive SanErr | notImplemented | value
deriving Repr, BEq, DecidableEq

/-- `_sanitize_equation(eq)`: `(lhs, out)`; the implicit output is the sorted sequence of the
    symbols occurring exactly once. -/
def sanitize (eq : List Nat) : Except SanErr (List Nat × List Nat) :=
  let eq := eq.filter (· != cSpace)
  if isInfix [cDot, cDot, cDot] eq then .error .notImplemented
  else match splitArrow eq with
    | [lhs] =>
      let tmp := lhs.filter (· != cComma)
      .ok (lhs, (sortIx (uniq tmp)).filter fun s => tmp.count s == 1)
    | [lhs, out] => .ok (lhs, out)
    | _ => .error .value        -- `lhs, out = eq.split("->")` cannot unpack

/-! ### `_parse_einsum_single` -/

structure SinglePlan where
  diag : Option (List (List (Option Nat)))
  sumAxes : Option (List Nat)
  perm : Option (List Nat)
deriving Repr, BEq, DecidableEq

/-- first loop: `(need_to_diag, need_to_sum, seen)` -/
def scanStep (out : List Ix) (st : List Ix × List Ix × List Ix) (ix : Ix) :
    List Ix × List Ix × List Ix :=
  let (nd, ns, seen) := st
  if has nd ix then st
  else if has seen ix then (nd ++ [ix], ns, seen)
  else (nd, if has out ix then ns else ns ++ [ix], ix :: seen)

def scan (lhs out : List Ix) : List Ix × List Ix :=
  let r := lhs.foldl (scanStep out) ([], [], [])
  (r.1, r.2.1)

/-- `dict(zip(lhs, shape))[ix]` (the last occurrence wins) -/
def lastSize (lhs : List Ix) (shape : List Nat) (ix : Ix) : Nat :=
  (((lhs.zip shape).reverse).lookup ix).getD 0

/-- one round of the `while need_to_diag` loop: the selector and the new `lhs` -/
def diagStep (sizes : Ix → Nat) (lhs : List Ix) (ixd : Ix) : List (Option Nat) × List Ix :=
  let sel := lhs.map fun ix => if ix = ixd then some (sizes ixd) else none
  let run := List.replicate (lhs.count ixd) ixd
  let lhs' := if isInfix run lhs then collapse ixd lhs else ixd :: lhs.filter (· != ixd)
  (sel, lhs')

def diagLoop (sizes : Ix → Nat) : List Ix → List Ix → List (List (Option Nat)) × List Ix
  | [], lhs => ([], lhs)
  | ixd :: rest, lhs =>
    let st := diagStep sizes lhs ixd
    let r := diagLoop sizes rest st.2
    (st.1 :: r.1, r.2)

/-- `_parse_einsum_single` after `_sanitize_equation`; `none` = `ValueError` (`lhs.index`) -/
def parseSingle (lhs out : List Ix) (shape : List Nat) : Option SinglePlan :=
  let nd := (scan lhs out).1
  let ns := (scan lhs out).2
  -- `need_to_diag.pop()` takes from the end
  let dl := diagLoop (lastSize lhs shape) nd.reverse lhs
  let lhs1 := dl.2
  let diag := if nd.isEmpty then none else some dl.1
  let sumAxes := if ns.isEmpty then none else some (ns.map lhs1.idxOf)
  let lhs2 := lhs1.filter fun ix => !has ns ix
  if lhs2 = out then some ⟨diag, sumAxes, none⟩
  else if out.all (has lhs2) then some ⟨diag, sumAxes, some (out.map lhs2.idxOf)⟩
  else none

def optApply (f : α → FArr → Option FArr) (o : Option α) (x : FArr) : Option FArr :=
  match o with
  | none => some x
  | some v => f v x

/-- the loop `for selector in diag_sels: x = x[selector]` -/
def applySels (sels : List (List (Option Nat))) (x : FArr) : Option FArr :=
  sels.foldlM (fun y sel => advIndex sel y) x

/-- `_einsum_single`, lines 346-364 (the path taken when the backend has no `einsum`) -/
def evalSingle (p : SinglePlan) (x : FArr) : Option FArr :=
  (optApply applySels p.diag x).bind fun x1 =>
  (optApply sumAxes p.sumAxes x1).bind fun x2 =>
  optApply transpose p.perm x2

/-! ### two operands -/

/-- what `eq_a` / `eq_b` can be: `None`, a permutation tuple, or an equation for `_einsum_single` -/
inductive Prep where
  | none
  | perm (p : List Nat)
  | eins (term desired : List Ix)
deriving Repr, BEq, DecidableEq

structure Plan where
  eqA : Prep
  eqB : Prep
  shA : Option (List Nat)
  shB : Option (List Nat)
  shAB : Option (List Nat)
  permAB : Option (List Nat)
  pure : Bool
deriving Repr, BEq, DecidableEq

/-- labels of the axes whose dimension is not 1, in order (the loop `continue`s on `d == 1`) -/
def nontriv (t : List Ix) (sh : List Nat) : List Ix :=
  ((t.zip sh).filter fun p => p.2 != 1).map (·.1)

/-- `sizes.setdefault(ix, d) != d → ValueError` -/
def addSize (s : List (Ix × Nat)) (p : Ix × Nat) : Option (List (Ix × Nat)) :=
  match s.lookup p.1 with
  | some d => if d = p.2 then some s else none
  | none => some (s ++ [p])

/-- the `sizes` dict after both loops (`none` = mismatched sizes) -/
def sizesOf (aT : List Ix) (shA : List Nat) (bT : List Ix) (shB : List Nat) :
    Option (List (Ix × Nat)) :=
  ((aT.zip shA ++ bT.zip shB).filter fun p => p.2 != 1).foldlM addSize []

/-- `sizes[ix]` -/
def sizeIn (s : List (Ix × Nat)) (ix : Ix) : Nat := (s.lookup ix).getD 1

/-- the `singletons` set after both loops: added for `d == 1`, discarded by a later `d != 1` on `b` -/
def singlesSet (aT : List Ix) (shA : List Nat) (bT : List Ix) (shB : List Nat) : List Ix :=
  (bT.zip shB).foldl (fun s p => if p.2 = 1 then p.1 :: s else s.filter (· != p.1))
    (((aT.zip shA).filter fun p => p.2 == 1).map (·.1))

structure Groups where
  bat : List Ix
  con : List Ix
  aKeep : List Ix
  bKeep : List Ix
deriving Repr, BEq, DecidableEq

/-- the classification loops (`seen` makes the body run once per distinct non-trivial label, in
    first-occurrence order) -/
def groups (aT : List Ix) (shA : List Nat) (bT : List Ix) (shB : List Nat) (out : List Ix) :
    Groups :=
  let aU := uniq (nontriv aT shA)
  let bU := uniq (nontriv bT shB)
  { bat := aU.filter fun ix => has bT ix && has out ix
    con := aU.filter fun ix => has bT ix && !has out ix
    aKeep := aU.filter fun ix => !has bT ix && has out ix
    bKeep := bU.filter fun ix => !has aT ix && has out ix }

/-- `_parse_eq_to_pure_multiplication` -/
def pureMul (aT : List Ix) (shA : List Nat) (bT : List Ix) (shB : List Nat) (out : List Ix) :
    Plan :=
  let dA := out.filter (has aT)
  let dB := out.filter (has bT)
  { eqA := if dA != aT then .eins aT dA else .none
    eqB := if dB != bT then .eins bT dB else .none
    shA := some (out.map fun ix => if has aT ix then shA.getD (aT.idxOf ix) 0 else 1)
    shB := some (out.map fun ix => if has bT ix then shB.getD (bT.idxOf ix) 0 else 1)
    shAB := none
    permAB := none
    pure := true }

/-- lines 259-278: `None`, transpose tuple, or einsum equation -/
def prepOf (lenCheck : Bool) (term desired : List Ix) : Prep :=
  if term = desired then .none
  else if sameSet term desired && (!lenCheck || term.length == desired.length) then
    .perm (desired.map term.idxOf)
  else .eins term desired

/-- fused shape of a list of groups, or `None` when every group has exactly one label -/
def fusedShape (sizes : List (Ix × Nat)) (gs : List (List Ix)) : Option (List Nat) :=
  if gs.any (fun g => g.length != 1) then
    some (gs.map fun g => prod (g.map (sizeIn sizes)))
  else none

/-- `_parse_eq_to_batch_matmul` after `eq.split`; `none` = `ValueError` -/
def parseBmm (lenCheck : Bool) (aT bT out : List Ix) (shA shB : List Nat) : Option Plan :=
  if aT.length != shA.length || bT.length != shB.length then none else
  match sizesOf aT shA bT shB with
  | none => none
  | some sizes =>
    let g := groups aT shA bT shB out
    if g.con.isEmpty then some (pureMul aT shA bT shB out) else
    let singles := out.filter (has (singlesSet aT shA bT shB))
    let dA := g.bat ++ g.aKeep ++ g.con
    let dB := g.bat ++ g.con ++ g.bKeep
    let lg := if g.bat.isEmpty then [g.aKeep, g.con] else [g.bat, g.aKeep, g.con]
    let rg := if g.bat.isEmpty then [g.con, g.bKeep] else [g.bat, g.con, g.bKeep]
    let og := if g.bat.isEmpty then [g.aKeep, g.bKeep] else [g.bat, g.aKeep, g.bKeep]
    let shAB :=
      if og.any (fun gr => gr.length != 1) || !singles.isEmpty then
        some (List.replicate singles.length 1 ++ og.flatten.map (sizeIn sizes))
      else none
    let produced := singles ++ g.bat ++ g.aKeep ++ g.bKeep
    if out.all (has produced) then
      let perm := out.map produced.idxOf
      some { eqA := prepOf lenCheck aT dA
             eqB := prepOf lenCheck bT dB
             shA := fusedShape sizes lg
             shB := fusedShape sizes rg
             shAB := shAB
             permAB := if perm = List.range perm.length then none else some perm
             pure := false }
    else none

/-! ### `_parse_tensordot_axes_to_matmul` -/

/-- `gen_nice_inds()` as code points: a-z, A-Z, then from 192 -/
def niceInd (i : Nat) : Nat :=
  if i < 26 then 97 + i else if i < 52 then 65 + (i - 26) else 192 + (i - 52)

/-- the `axes` argument after `tensordot`'s normalisation: an int or two tuples of ints -/
inductive Axes where
  | num (n : Nat)
  | pair (a b : List Nat)
deriving Repr, BEq, DecidableEq

/-- the loop over `range(ndim_b)`: `(inds_b, inds_out, next fresh symbol)`; `none` = `ValueError`
    (dimension mismatch) -/
def tdLoop (shA shB : List Nat) (indsA : List Ix) (axesA axesB : List Nat) :
    List Nat → (List Ix × List Ix × Nat) → Option (List Ix × List Ix × Nat)
  | [], st => some st
  | axb :: rest, (indsB, indsOut, c) =>
    if axesB.contains axb then
      let axa := axesA.getD (axesB.idxOf axb) 0
      if shA.getD axa 0 != shB.getD axb 0 then none
      else
        let ind := indsA.getD axa 0
        -- `inds_out.remove(ind)` raises `ValueError` when `ind` was already removed
        if !indsOut.contains ind then none
        else tdLoop shA shB indsA axesA axesB rest (indsB ++ [ind], indsOut.erase ind, c)
    else
      tdLoop shA shB indsA axesA axesB rest (indsB ++ [niceInd c], indsOut ++ [niceInd c], c + 1)

/-- the equation `_parse_tensordot_axes_to_matmul` builds: `(inds_a, inds_b, inds_out)`.
    Guards of the model (the real code indexes tuples and would raise `IndexError` or use python's
    negative indexing): axes are naturals below the respective rank; an integer `axes` is at most
    both ranks. -/
def tensordotEq (axes : Axes) (shA shB : List Nat) : Option (List Ix × List Ix × List Ix) :=
  let na := shA.length
  let nb := shB.length
  let (axesA, axesB) := match axes with
    | .num n => ((List.range n).map (· + (na - n)), List.range n)
    | .pair a b => (a, b)
  let inGuard := match axes with
    | .num n => n ≤ na && n ≤ nb
    | .pair a b => a.all (· < na) && b.all (· < nb)
  if axesA.length != axesB.length then none
  else if !inGuard then none
  else
    let indsA := (List.range na).map niceInd
    match tdLoop shA shB indsA axesA axesB (List.range nb) ([], indsA, na) with
    | none => none
    | some (indsB, indsOut, _) => some (indsA, indsB, indsOut)

/-! ### `_do_contraction_via_bmm` -/

def evalPrep (p : Prep) (x : FArr) : Option FArr :=
  match p with
  | .none => some x
  | .perm q => transpose q x
  | .eins t d => (parseSingle t d x.shape).bind fun sp => evalSingle sp x

def evalPlan (pl : Plan) (a b : FArr) : Option FArr :=
  (evalPrep pl.eqA a).bind fun a1 =>
  (optApply reshape pl.shA a1).bind fun a2 =>
  (evalPrep pl.eqB b).bind fun b1 =>
  (optApply reshape pl.shB b1).bind fun b2 =>
  if pl.pure then mul a2 b2
  else
    (matmul a2 b2).bind fun ab =>
    (optApply reshape pl.shAB ab).bind fun ab1 =>
    optApply transpose pl.permAB ab1

end Cotengra.Bmm
