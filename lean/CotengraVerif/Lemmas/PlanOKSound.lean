import CotengraVerif.Model.PlanOK
import CotengraVerif.Lemmas.BmmMain

/-!
  Soundness of the individual checks of `planOK`: each one that succeeds licenses the
  corresponding `Rep` step.
-/
namespace Cotengra.Bmm
open Cotengra Cotengra.FA

theorem gsz_eq (sz : Ix → Nat) (g : List Ix) : gsz sz g = gsize sz g := rfl

theorem ntFilter_eq (sz : Ix → Nat) (l : List Ix) : ntFilter sz l = l.filter fun i => sz i != 1 := rfl

/-! ### positionwise equality modulo labels of size 1 -/

theorem gsize_of_ntFilter {sz : Ix → Nat} {g g' : List Ix} (h : ntFilter sz g = ntFilter sz g') :
    gsize sz g = gsize sz g' := by
  rw [← gsize_filter_nt sz g, ← gsize_filter_nt sz g']
  exact congrArg _ h

theorem fuse_of_ntFilter {sz : Ix → Nat} {env} (henv : EnvOK sz env) {g g' : List Ix}
    (h : ntFilter sz g = ntFilter sz g') : fuse sz env g = fuse sz env g' := by
  rw [← fuse_filter_nt henv g, ← fuse_filter_nt henv g']
  exact congrArg _ h

/-- a descriptor may be replaced by one that agrees with it, axis by axis, up to labels of size 1 -/
theorem rep_congr_nt {sz : Ix → Nat} {D D' : List (List Ix)} {x : FArr} {F} (hx : Rep sz D x F)
    (hl : D.length = D'.length)
    (h : ∀ p ∈ D.zip D', ntFilter sz p.1 = ntFilter sz p.2) : Rep sz D' x F := by
  have hmap : ∀ (f g : List Ix → Nat), (∀ p ∈ D.zip D', f p.1 = g p.2) → D.map f = D'.map g := by
    intro f g hfg
    clear hx
    induction D generalizing D' with
    | nil => cases D' <;> simp_all
    | cons a r ih =>
      cases D' with
      | nil => simp at hl
      | cons b r' =>
        simp only [List.map_cons, List.cons.injEq]
        refine ⟨hfg (a, b) (by simp), ih (by simpa using hl) (fun p hp => h p (by simp [hp]))
          (fun p hp => hfg p (by simp [hp]))⟩
  refine ⟨?_, ?_⟩
  · rw [hx.shape]
    exact hmap _ _ fun p hp => gsize_of_ntFilter (h p hp)
  · intro env henv
    rw [← hx.val env henv]
    congr 1
    exact (hmap _ _ fun p hp => fuse_of_ntFilter henv (h p hp)).symm

/-! ### preparation -/

theorem prepCheck_sound {sz : Ix → Nat} {t d : List Ix} {p : Prep} (h : prepCheck t p = some d)
    {x : FArr} (hsh : x.shape = t.map sz) :
    ∃ y, evalPrep p x = some y ∧
      Lab sz d y fun env => sumEnv sz (scan t d).2 env fun e => x.get (t.map e) := by
  have hx : Lab sz t x (fun e => x.get (t.map e)) := lab_iff.2 ⟨hsh, fun _ _ => rfl⟩
  cases p with
  | none =>
    simp only [prepCheck, Option.some.injEq] at h
    subst h
    refine ⟨x, rfl, ?_⟩
    simp only [scan_ns_nil (fun i hi => hi), sumEnv_nil]
    exact hx
  | perm q =>
    simp only [prepCheck] at h
    split at h
    · rename_i hq
      cases h
      have hq' : isPermOf q (t.map fun i => [i]).length = true := by simpa using hq
      obtain ⟨y, hy1, hy2⟩ := rep_transpose hx hq'
      refine ⟨y, hy1, ?_⟩
      have hD : (q.map fun k => (t.map fun i => [i]).getD k []) =
          (q.map fun k => t.getD k 0).map fun i => [i] := by
        rw [List.map_map]
        apply List.map_congr_left
        intro k hk
        have hlt : k < t.length := isPermOf_lt hq hk
        simp [List.getD_eq_getElem?_getD, hlt]
      rw [hD] at hy2
      have hall : ∀ i ∈ t, i ∈ q.map fun k => t.getD k 0 := by
        intro i hi
        obtain ⟨n, hn, rfl⟩ := List.getElem_of_mem hi
        exact List.mem_map.2 ⟨n, isPermOf_mem hq hn, by simp [List.getD_eq_getElem?_getD, hn]⟩
      simp only [scan_ns_nil hall, sumEnv_nil]
      exact hy2
    · cases h
  | eins t' d' =>
    simp only [prepCheck] at h
    split at h
    · rename_i hc
      cases h
      simp only [Bool.and_eq_true, beq_iff_eq, decide_eq_true_eq, List.all_eq_true, has,
        List.contains_iff_mem] at hc
      obtain ⟨⟨rfl, hnd⟩, hsub⟩ := hc
      obtain ⟨sp, y, h3, h4, h5⟩ := single_plan_lab (sz := sz) hnd hsub hsh
      exact ⟨y, by simp [evalPrep, h3, h4], h5⟩
    · cases h

/-! ### reshape / matmul / transpose / final -/

theorem reshapeCheck_sound {sz : Ix → Nat} {D D' : List (List Ix)} {s : Option (List Nat)}
    (h : reshapeCheck sz D s = some D') {x : FArr} {F} (hx : Rep sz D x F) :
    ∃ y, optApply reshape s x = some y ∧ Rep sz D' y F := by
  cases s with
  | none =>
    simp only [reshapeCheck, Option.some.injEq] at h
    subst h
    exact ⟨x, rfl, hx⟩
  | some shape =>
    simp only [reshapeCheck] at h
    generalize regroup sz D.flatten shape = R at h
    split at h
    · rename_i hc
      cases h
      simp only [Bool.and_eq_true, decide_eq_true_eq] at hc
      obtain ⟨hs, hf⟩ := hc
      subst hs
      simp only [optApply]
      exact rep_reshape hx hf
    · cases h

theorem disjointB_iff {a b : List Ix} : disjointB a b = true ↔ ∀ i ∈ a, i ∉ b := by
  simp [disjointB]

theorem matmulCheck_sound {sz : Ix → Nat} {Da Db Dab : List (List Ix)} {C : List Ix}
    (h : matmulCheck Da Db = some (Dab, C)) {a b : FArr} {Fa Fb} (ha : Rep sz Da a Fa)
    (hb : Rep sz Db b Fb) :
    ∃ y, matmul a b = some y ∧ Rep sz Dab y fun env => sumEnv sz C env fun e => Fa e * Fb e := by
  unfold matmulCheck at h
  split at h
  · rename_i K C0 C' N
    split at h
    · rename_i hc
      simp only [Option.some.injEq, Prod.mk.injEq] at h
      obtain ⟨rfl, rfl⟩ := h
      simp only [Bool.and_eq_true, decide_eq_true_eq, disjointB_iff] at hc
      obtain ⟨⟨⟨rfl, hn⟩, hK⟩, hN⟩ := hc
      exact rep_matmul2 ha hb hn hK hN
    · cases h
  · rename_i B K C0 B' C' N
    split at h
    · rename_i hc
      simp only [Option.some.injEq, Prod.mk.injEq] at h
      obtain ⟨rfl, rfl⟩ := h
      simp only [Bool.and_eq_true, decide_eq_true_eq, disjointB_iff] at hc
      obtain ⟨⟨⟨⟨⟨rfl, rfl⟩, hn⟩, hB⟩, hK⟩, hN⟩ := hc
      exact rep_matmul3 ha hb hn hB hK hN
    · cases h
  · cases h

theorem transposeCheck_sound {sz : Ix → Nat} {D D' : List (List Ix)} {p : Option (List Nat)}
    (h : transposeCheck D p = some D') {x : FArr} {F} (hx : Rep sz D x F) :
    ∃ y, optApply transpose p x = some y ∧ Rep sz D' y F := by
  cases p with
  | none =>
    simp only [transposeCheck, Option.some.injEq] at h
    subst h
    exact ⟨x, rfl, hx⟩
  | some q =>
    simp only [transposeCheck] at h
    split at h
    · rename_i hq
      cases h
      exact rep_transpose hx hq
    · cases h

theorem finalCheck_sound {sz : Ix → Nat} {D : List (List Ix)} {out : List Ix}
    (h : finalCheck sz D out = true) {x : FArr} {F} (hx : Rep sz D x F) : Lab sz out x F := by
  simp only [finalCheck, Bool.and_eq_true, beq_iff_eq, List.all_eq_true] at h
  obtain ⟨hl, hz⟩ := h
  apply rep_congr_nt hx (by simpa using hl)
  intro p hp
  -- `p ∈ D.zip (out.map single)`: rewrite as a member of `D.zip out`
  rw [List.zip_map_right] at hp
  obtain ⟨q, hq, rfl⟩ := List.mem_map.1 hp
  exact hz q hq

/-! ### pure multiplication -/

theorem bshape_pad' {sz : Ix → Nat} {pa pb : Ix → Bool} {out : List Ix}
    (h : ∀ o ∈ out, pa o = true ∨ pb o = true ∨ sz o = 1) :
    bshape ((padDesc pa out).map (gsize sz)) ((padDesc pb out).map (gsize sz))
      = some (out.map sz) := by
  rw [padDesc_gsize, padDesc_gsize]
  induction out with
  | nil => rfl
  | cons o r ih =>
    have ihr := ih fun o' ho' => h o' (by simp [ho'])
    simp only [List.map_cons, bshape, ihr, Option.map_some]
    rcases h o (by simp) with h1 | h1 | h1
    · by_cases h2 : pb o = true
      · simp [h1, h2]
      · simp only [h1, h2, ↓reduceIte, Bool.false_eq_true]
        by_cases h3 : sz o = 1 <;> simp [h3]
    · by_cases h2 : pa o = true
      · simp [h1, h2]
      · simp [h1, h2]
    · by_cases h2 : pa o = true <;> by_cases h3 : pb o = true <;> simp [h1, h2, h3]

theorem rep_mul' {sz pa pb out a b Fa Fb} (ha : Rep sz (padDesc pa out) a Fa)
    (hb : Rep sz (padDesc pb out) b Fb) (h : ∀ o ∈ out, pa o = true ∨ pb o = true ∨ sz o = 1) :
    ∃ y, mul a b = some y ∧ Rep sz (out.map fun o => [o]) y fun env => Fa env * Fb env := by
  simp only [mul, ha.shape, hb.shape, bshape_pad' h, Option.map_some]
  refine ⟨_, rfl, ?_, ?_⟩
  · simp [List.map_map, Function.comp_def]
  · intro env henv
    simp only [List.map_map, Function.comp_def, fuse_single]
    rw [clip_pad henv, clip_pad henv, ha.val env henv, hb.val env henv]

theorem padDescB_eq (p : Ix → Bool) (out : List Ix) : padDescB p out = padDesc p out := rfl

/-- one operand of the pure-multiplication path: prepared labels `d`, reshaped to one axis per
    output label -/
theorem pure_operand_sound {sz : Ix → Nat} {d out : List Ix} {sh : List Nat}
    (h1 : (padDescB (fun o => (ntFilter sz d).contains o) out).map (gsz sz) = sh)
    (h2 : ntFilter sz d = ntFilter sz (padDescB (fun o => (ntFilter sz d).contains o) out).flatten)
    {x : FArr} {F} (hx : Lab sz d x F) :
    ∃ y, optApply reshape (some sh) x = some y ∧
      Rep sz (padDesc (fun o => (ntFilter sz d).contains o) out) y F := by
  simp only [optApply]
  rw [← h1]
  apply rep_reshape hx
  rw [flatten_map_single]
  exact h2

end Cotengra.Bmm
