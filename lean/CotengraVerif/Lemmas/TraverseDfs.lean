import CotengraVerif.Lemmas.TreeNodes
import Mathlib.Tactic.Tauto

/-!
  `_traverse_dfs`: the stack machine yields exactly the post-order `BT.internal`
  (left subtree, right subtree, node).
-/
namespace Cotengra.Paths
open Cotengra

/-- what gets pushed for a child: nothing for a leaf (always ready), the child otherwise -/
def pushOf : BT → List BT
  | .leaf _ => []
  | x => [x]

theorem dfsLoop_step (f : Nat) (s : DfsState) (h : s.queue ≠ []) :
    dfsLoop (f + 1) s = dfsLoop f (dfsStep s) := by
  have : s.queue.isEmpty = false := by
    cases hq : s.queue with
    | nil => exact absurd hq h
    | cons _ _ => rfl
  simp [dfsLoop, this]

theorem mem_internal_self (l r : BT) : BT.node l r ∈ (BT.node l r).internal := by
  simp [BT.internal]

theorem isReady_of (s : DfsState) (c : BT) (h : c ∈ pushOf c → c ∈ s.ready) : isReady s c = true := by
  cases c with
  | leaf i => simp [isReady, isLeaf]
  | node l r =>
    have := h (by simp [pushOf])
    simp [isReady, isLeaf, this]

theorem isReady_false (s : DfsState) (l r : BT) (h : BT.node l r ∉ s.ready) :
    isReady s (.node l r) = false := by
  simp [isReady, isLeaf, h]

/-- processing the sub-stack of one child -/
theorem dfs_child (c : BT) : ∀ (s : DfsState) (Q : List BT), s.queue = Q ++ pushOf c →
    (∀ y ∈ c.internal, y ∉ s.ready) → c.internal.Nodup →
    ∃ k s', k ≤ 2 * c.internal.length ∧ (∀ f, dfsLoop (k + f) s = dfsLoop f s') ∧ s'.queue = Q ∧
      s'.out = s.out ++ c.internal ∧ (∀ y, y ∈ s'.ready ↔ (y ∈ c.internal ∨ y ∈ s.ready)) := by
  induction c with
  | leaf i =>
    intro s Q hq _ _
    refine ⟨0, s, Nat.zero_le _, fun f => by simp, by simpa [pushOf] using hq, by simp [BT.internal],
      by simp [BT.internal]⟩
  | node l r ihl ihr =>
    intro s Q hq hnr hnd
    simp only [pushOf] at hq
    simp only [BT.internal] at hnd hnr
    have hnd1 := List.nodup_append.1 hnd
    have hnd2 := List.nodup_append.1 hnd1.1
    have hlast : s.queue.getLast? = some (.node l r) := by rw [hq]; simp
    have hne : s.queue ≠ [] := by rw [hq]; simp
    by_cases hboth : pushOf l = [] ∧ pushOf r = []
    · -- both children are leaves: the node is yielded at once
      have hl : isReady s l = true := isReady_of s l (by rw [hboth.1]; simp)
      have hr : isReady s r = true := isReady_of s r (by rw [hboth.2]; simp)
      have hli : l.internal = [] := by cases l <;> simp_all [pushOf, BT.internal]
      have hri : r.internal = [] := by cases r <;> simp_all [pushOf, BT.internal]
      refine ⟨1, { ready := .node l r :: s.ready, queue := Q, out := s.out ++ [.node l r] }, ?_, ?_, rfl,
        ?_, ?_⟩
      · simp only [BT.internal, List.length_append, List.length_singleton]; omega
      · intro f
        rw [Nat.add_comm, dfsLoop_step f s hne]
        congr 1
        have hstep : dfsStep s =
            { ready := .node l r :: s.ready, queue := s.queue.dropLast, out := s.out ++ [.node l r] } := by
          unfold dfsStep; rw [hlast]; simp only [hl, hr, Bool.and_self, if_true]
        rw [hstep, hq, List.dropLast_concat]
      · simp [BT.internal, hli, hri]
      · intro y; simp [BT.internal, hli, hri]
    · -- push r (if internal), then l (if internal)
      have hnotready : (isReady s l && isReady s r) = false := by
        rcases Classical.not_and_iff_not_or_not.1 hboth with h | h
        · cases l with
          | leaf i => simp [pushOf] at h
          | node a b =>
            have : BT.node a b ∉ s.ready := hnr _ (by simp [BT.internal])
            simp [isReady_false s a b this]
        · cases r with
          | leaf i => simp [pushOf] at h
          | node a b =>
            have : BT.node a b ∉ s.ready := hnr _ (by simp [BT.internal])
            simp [isReady_false s a b this]
      have hstep : dfsStep s = { s with queue :=
          (if isReady s l = true then (if isReady s r = true then s.queue else s.queue ++ [r])
           else (if isReady s r = true then s.queue else s.queue ++ [r]) ++ [l]) } := by
        unfold dfsStep; rw [hlast]; simp only [hnotready, Bool.false_eq_true, if_false]
      have hq1 : (dfsStep s).queue = ((Q ++ [.node l r]) ++ pushOf r) ++ pushOf l := by
        rw [hstep]
        simp only
        have hr' : (if isReady s r = true then s.queue else s.queue ++ [r]) = s.queue ++ pushOf r := by
          cases r with
          | leaf i => simp [isReady, isLeaf, pushOf]
          | node a b =>
            have : BT.node a b ∉ s.ready := hnr _ (by simp [BT.internal])
            simp [isReady_false s a b this, pushOf]
        have hl' : ∀ q : List BT, (if isReady s l = true then q else q ++ [l]) = q ++ pushOf l := by
          intro q
          cases l with
          | leaf i => simp [isReady, isLeaf, pushOf]
          | node a b =>
            have : BT.node a b ∉ s.ready := hnr _ (by simp [BT.internal])
            simp [isReady_false s a b this, pushOf]
        rw [hr', hl', hq]
      have hs1r : (dfsStep s).ready = s.ready := by rw [hstep]
      have hs1o : (dfsStep s).out = s.out := by rw [hstep]
      -- left subtree
      obtain ⟨kl, s2, hkl, hrun2, hq2, ho2, hr2⟩ := ihl (dfsStep s) ((Q ++ [.node l r]) ++ pushOf r) hq1
        (by rw [hs1r]; intro y hy; exact hnr y (by simp [hy])) hnd2.1
      -- right subtree
      obtain ⟨kr, s3, hkr, hrun3, hq3, ho3, hr3⟩ := ihr s2 (Q ++ [.node l r]) hq2
        (by
          intro y hy hys
          rcases (hr2 y).1 hys with h | h
          · exact hnd2.2.2 y h y hy rfl
          · rw [hs1r] at h; exact hnr y (by simp [hy]) h) hnd2.2.1
      -- now both children are ready
      have hlast3 : s3.queue.getLast? = some (.node l r) := by rw [hq3]; simp
      have hne3 : s3.queue ≠ [] := by rw [hq3]; simp
      have hl3 : isReady s3 l = true := by
        apply isReady_of
        intro _
        cases l with
        | leaf i => simp [pushOf] at *
        | node a b =>
          exact (hr3 _).2 (Or.inr ((hr2 _).2 (Or.inl (mem_internal_self a b))))
      have hr3' : isReady s3 r = true := by
        apply isReady_of
        intro _
        cases r with
        | leaf i => simp [pushOf] at *
        | node a b => exact (hr3 _).2 (Or.inl (mem_internal_self a b))
      refine ⟨1 + kl + kr + 1,
        { ready := .node l r :: s3.ready, queue := Q, out := s3.out ++ [.node l r] }, ?_, ?_, rfl, ?_, ?_⟩
      · simp only [BT.internal, List.length_append, List.length_singleton]; omega
      · intro f
        have e1 : 1 + kl + kr + 1 + f = (kl + (kr + (1 + f))) + 1 := by omega
        rw [e1, dfsLoop_step _ s hne, hrun2, hrun3, Nat.add_comm 1 f, dfsLoop_step f s3 hne3]
        congr 1
        have hstep3 : dfsStep s3 =
            { ready := .node l r :: s3.ready, queue := s3.queue.dropLast, out := s3.out ++ [.node l r] } := by
          unfold dfsStep; rw [hlast3]; simp only [hl3, hr3', Bool.and_self, if_true]
        rw [hstep3, hq3, List.dropLast_concat]
      · simp only [ho3, ho2, hs1o, BT.internal, List.append_assoc]
      · intro y
        simp only [List.mem_cons, hr3, hr2, hs1r, BT.internal, List.mem_append, List.mem_singleton]
        tauto

/-- **`_traverse_dfs`** yields the post-order -/
theorem traverseDfs_eq (l r : BT) (hn : (BT.node l r).leaves.Nodup) :
    traverseDfs (.node l r) = (BT.node l r).internal := by
  have hnd := internal_nodup _ hn
  obtain ⟨k, s', hk, hrun, hq, ho, _⟩ := dfs_child (.node l r)
    { ready := [], queue := [.node l r], out := [] } [] (by simp [pushOf]) (by simp) hnd
  unfold traverseDfs
  have : 3 * (BT.node l r).internal.length + 1 = k + (3 * (BT.node l r).internal.length + 1 - k) := by
    omega
  rw [this, hrun]
  have hdone : ∀ f, dfsLoop f s' = s' := by
    intro f
    cases f with
    | zero => rfl
    | succ f => simp [dfsLoop, hq]
  rw [hdone, ho]
  rfl

end Cotengra.Paths
