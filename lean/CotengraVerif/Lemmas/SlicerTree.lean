import CotengraVerif.Lemmas.SlicerRemove
import CotengraVerif.Props.C03

/-!
  From the contraction tuples of `ContractionCosts.from_contraction_tree` (slicer.py:95-112) to the
  tree of the shared model: the tuples are well formed, and erasing an index from them is the
  same as re-reading them off the tree with that index removed (L1 + C03.surv_cons).
-/
namespace Cotengra.Slicer
open Cotengra Cotengra.Net Cotengra.Legs

theorem bt_beq (a b : BT) : (a == b) = true ↔ a = b := by
  induction a generalizing b with
  | leaf i =>
    cases b with
    | leaf j =>
      have : (BT.leaf i == BT.leaf j) = (i == j) := rfl
      rw [this]; simp
    | node c d =>
      have : (BT.leaf i == BT.node c d) = false := rfl
      rw [this]; simp
  | node l r ihl ihr =>
    cases b with
    | leaf j =>
      have : (BT.node l r == BT.leaf j) = false := rfl
      rw [this]; simp
    | node c d =>
      have : (BT.node l r == BT.node c d) = (l == c && r == d) := rfl
      rw [this]; simp [ihl, ihr]

theorem lookup_eq_get? (l : List (Ix × Nat)) (ix : Ix) : l.lookup ix = AL.get? l ix := by
  induction l with
  | nil => rfl
  | cons kv t ih =>
    obtain ⟨k, v⟩ := kv
    by_cases h : k = ix
    · subst h; simp [List.lookup, AL.get?]
    · have h' : (ix == k) = false := by simpa using fun e => h e.symm
      simp [List.lookup, AL.get?, h, h', ih]

theorem size_eq_szOf (n : Net) (ix : Ix) : n.size ix = szOf n.sizes ix := by
  unfold Net.size szOf
  rw [lookup_eq_get?]
  cases AL.get? n.sizes ix <;> rfl

theorem sizeOfLegs_eq_prodSz (n : Net) (L : Legs) : n.sizeOfLegs L = prodSz n.sizes (keys L) := by
  rw [sizeOfLegs_eq_prod]
  unfold prodSz
  congr 1
  apply List.map_congr_left
  intro ix _
  exact size_eq_szOf n ix

/-- the standing assumptions on network and tree (guards of the real code / of the harness) -/
structure TreeHyp (n : Net) (t : BT) : Prop where
  nd : t.leaves.Nodup
  inb : ∀ i ∈ t.leaves, i < n.inputs.length
  outNd : n.output.Nodup
  outOcc : ∀ ix ∈ n.output, ∃ i ∈ t.leaves, ix ∈ n.term i
  szPos : ∀ ix, 0 < n.size ix

theorem keys_rootLegs (n : Net) (rm : List Ix) :
    keys (n.rootLegs rm) = n.output.filter (fun ix => !rm.contains ix) := by
  unfold rootLegs keys
  rw [List.map_map]
  have : ((fun x : Ix × Nat => x.1) ∘ fun ix => (ix, 0)) = id := rfl
  rw [this, List.map_id]

theorem mem_rootLegs (n : Net) (rm : List Ix) (x : Ix) :
    x ∈ keys (n.rootLegs rm) ↔ (x ∈ n.output ∧ x ∉ rm) := by
  rw [keys_rootLegs]; simp [List.mem_filter]

theorem cnt_pos_of_occ (n : Net) (rm : List Ix) (t : BT) (x : Ix) (i : Nat) (hi : i ∈ t.leaves)
    (hx : x ∈ n.term i) (hrm : x ∉ rm) : 0 < n.cnt rm t x := by
  unfold cnt
  have hmem : x ∈ n.termRm rm i := by
    unfold termRm
    rw [List.mem_filter]; exact ⟨hx, by simpa using hrm⟩
  have h1 : 0 < occ (n.termRm rm i) x := List.count_pos_iff.2 hmem
  have h2 : occ (n.termRm rm i) x ∈ t.leaves.map (fun i => occ (n.termRm rm i) x) :=
    List.mem_map.2 ⟨i, hi, rfl⟩
  have := List.single_le_sum (fun _ _ => Nat.zero_le _) _ h2
  omega

/-- legs of the root are involved in the last contraction -/
theorem root_sub (n : Net) (rm : List Ix) (l r : BT) (h : TreeHyp n (.node l r)) (x : Ix)
    (hx : x ∈ keys (n.rootLegs rm)) : x ∈ keys (n.involved rm (.node l r)) := by
  rw [mem_rootLegs] at hx
  obtain ⟨i, hi, hxi⟩ := h.outOcc x hx.1
  have hpos := cnt_pos_of_occ n rm _ x i hi hxi hx.2
  rw [cnt_node] at hpos
  have hdl : l.leaves.Nodup := (List.nodup_append.1 h.nd).1
  have hdr : r.leaves.Nodup := (List.nodup_append.1 h.nd).2.1
  have hbl : ∀ i ∈ l.leaves, i < n.inputs.length := fun i hi => h.inb i (by simp [BT.leaves, hi])
  have hbr : ∀ i ∈ r.leaves, i < n.inputs.length := fun i hi => h.inb i (by simp [BT.leaves, hi])
  have hout : 0 < occ n.output x := List.count_pos_iff.2 hx.1
  rw [C03.involved_iff n rm l r h.nd h.inb]
  unfold Surv app
  have := cnt_le_appIn n rm l hdl hbl x
  have := cnt_le_appIn n rm r hdr hbr x
  omega

/-- hypotheses restricted to an internal node -/
theorem sub_hyp (n : Net) (t s : BT) (h : TreeHyp n t) (hs : s ∈ t.internal) :
    s.leaves.Nodup ∧ (∀ i ∈ s.leaves, i < n.inputs.length) ∧ ∃ l r, s = .node l r := by
  have hsub := C03.internal_leaves_sublist t s hs
  exact ⟨h.nd.sublist hsub, fun i hi => h.inb i (hsub.subset hi), C03.internal_is_node t s hs⟩

theorem conOf_ok (n : Net) (rm : List Ix) (t s : BT) (h : TreeHyp n t) (hs : s ∈ t.internal) :
    ConOK n.sizes (conOf n rm t s) := by
  obtain ⟨hnd, hinb, l, r, rfl⟩ := sub_hyp n t s h hs
  refine ⟨keys_nodup_involved n rm _, ?_, ?_, ?_, ?_⟩
  · unfold conOf; simp only; split
    · rw [keys_rootLegs]; exact h.outNd.filter _
    · exact keys_nodup_legs n rm _
  · intro x hx
    unfold conOf at hx ⊢
    simp only at hx ⊢
    split at hx
    · rename_i he
      have := (bt_beq _ _).1 he
      subst this
      exact root_sub n rm l r h x hx
    · have hx' : x ∈ keys (n.keepOpen (Legs.union (n.legs rm l) (n.legs rm r))) := hx
      unfold keepOpen keys at hx'
      obtain ⟨kv, hkv, rfl⟩ := List.mem_map.1 hx'
      exact List.mem_map.2 ⟨kv, (List.mem_filter.1 hkv).1, rfl⟩
  · show n.nodeFlops rm (.node l r) = _
    unfold nodeFlops
    exact sizeOfLegs_eq_prodSz n _
  · unfold conOf sizeIn nodeSize
    simp only
    split <;> exact sizeOfLegs_eq_prodSz n _

/-- two tuples with the same index sets -/
def ConEq (a b : Con) : Prop :=
  (∀ x, x ∈ a.involved ↔ x ∈ b.involved) ∧ (∀ x, x ∈ a.legs ↔ x ∈ b.legs)

theorem prodSz_congr (sd sd' : List (Ix × Nat)) (l l' : List Ix) (hl : l.Nodup) (hl' : l'.Nodup)
    (hm : ∀ x, x ∈ l ↔ x ∈ l') (hs : ∀ x ∈ l, szOf sd x = szOf sd' x) :
    prodSz sd l = prodSz sd' l' := by
  unfold prodSz
  have hp : l.Perm l' := (List.perm_ext_iff_of_nodup hl hl').2 hm
  rw [← (hp.map (szOf sd')).prod_eq]
  congr 1
  exact List.map_congr_left hs

theorem conEq_figures (sd sd' : List (Ix × Nat)) (a b : Con) (ha : ConOK sd a) (hb : ConOK sd' b)
    (he : ConEq a b) (hs : ∀ x ∈ a.involved, szOf sd x = szOf sd' x) :
    a.flops = b.flops ∧ a.size = b.size := by
  constructor
  · rw [ha.flops, hb.flops]
    exact prodSz_congr _ _ _ _ ha.nodupI hb.nodupI he.1 hs
  · rw [ha.size, hb.size]
    exact prodSz_congr _ _ _ _ ha.nodupL hb.nodupL he.2 (fun x hx => hs x (ha.sub x hx))

theorem mem_sliceIf_involved (ix : Ix) (d : Nat) (c : Con) (x : Ix) :
    x ∈ (sliceIf ix d c).involved ↔ (x ∈ c.involved ∧ x ≠ ix) := by
  unfold sliceIf
  split
  · show x ∈ c.involved.filter (· != ix) ↔ _
    exact mem_filter_ne _ _ _
  · rename_i hni
    constructor
    · intro hx; exact ⟨hx, fun e => hni (e ▸ hx)⟩
    · exact fun hx => hx.1

theorem mem_sliceIf_legs (ix : Ix) (d : Nat) (c : Con) (hsub : ∀ x ∈ c.legs, x ∈ c.involved) (x : Ix) :
    x ∈ (sliceIf ix d c).legs ↔ (x ∈ c.legs ∧ x ≠ ix) := by
  unfold sliceIf
  split
  · unfold sliceCon
    simp only
    split
    · exact mem_filter_ne _ _ _
    · rename_i hc
      have hni : ix ∉ c.legs := by simpa using hc
      constructor
      · intro hx; exact ⟨hx, fun e => hni (e ▸ hx)⟩
      · exact fun hx => hx.1
  · rename_i hni
    constructor
    · intro hx; exact ⟨hx, fun e => hni (e ▸ hsub x hx)⟩
    · exact fun hx => hx.1

/-- erasing `ix` from a tuple of the tree with `rm` removed gives the tuple of the tree with
    `ix :: rm` removed (as index sets) -/
theorem conEq_step (n : Net) (rm : List Ix) (t s : BT) (h : TreeHyp n t) (hs : s ∈ t.internal)
    (ix : Ix) (d : Nat) (c : Con) (hsub : ∀ x ∈ c.legs, x ∈ c.involved)
    (he : ConEq c (conOf n rm t s)) : ConEq (sliceIf ix d c) (conOf n (ix :: rm) t s) := by
  obtain ⟨hnd, hinb, l, r, rfl⟩ := sub_hyp n t s h hs
  constructor
  · intro x
    rw [mem_sliceIf_involved, he.1 x]
    show (x ∈ keys (n.involved rm (.node l r)) ∧ x ≠ ix) ↔ x ∈ keys (n.involved (ix :: rm) (.node l r))
    rw [C03.involved_iff n rm l r hnd hinb, C03.involved_iff n _ l r hnd hinb,
      C03.surv_cons, C03.surv_cons]
    constructor
    · rintro ⟨h1 | h1, h2⟩
      · exact Or.inl ⟨h2, h1⟩
      · exact Or.inr ⟨h2, h1⟩
    · rintro (⟨h2, h1⟩ | ⟨h2, h1⟩)
      · exact ⟨Or.inl h1, h2⟩
      · exact ⟨Or.inr h1, h2⟩
  · intro x
    rw [mem_sliceIf_legs _ _ _ hsub, he.2 x]
    unfold conOf
    simp only
    split
    · rw [mem_rootLegs, mem_rootLegs]
      simp only [List.mem_cons, not_or]
      constructor
      · rintro ⟨⟨h1, h2⟩, h3⟩; exact ⟨h1, h3, h2⟩
      · rintro ⟨h1, h3, h2⟩; exact ⟨⟨h1, h2⟩, h3⟩
    · rw [Net.mem_legs_iff_surv n rm _ hnd hinb, Net.mem_legs_iff_surv n _ _ hnd hinb, C03.surv_cons]
      exact And.comm

end Cotengra.Slicer
