import CotengraVerif.Lemmas.SlicerBasic
import Mathlib.Algebra.BigOperators.Group.List.Basic
import Mathlib.Algebra.Order.Group.Int

/-!
  The state invariant of `ContractionCosts` (slicer.py:17-192): every accumulator equals its
  definition from the current list of contractions. `init` establishes it, `remove` preserves it.
-/
namespace Cotengra.Slicer
open Cotengra

def szOf (sd : List (Ix × Nat)) (ix : Ix) : Nat := (AL.get? sd ix).getD 1
def prodSz (sd : List (Ix × Nat)) (l : List Ix) : Nat := (l.map (szOf sd)).prod

/-- all stored sizes are ≥ 1 -/
def SdPos (sd : List (Ix × Nat)) : Prop := ∀ ix, 0 < szOf sd ix

/-- a contraction tuple is what `from_contraction_tree` produces: index *sets*, legs ⊆ involved,
    flops / size the products of the dimensions -/
structure ConOK (sd : List (Ix × Nat)) (c : Con) : Prop where
  nodupI : c.involved.Nodup
  nodupL : c.legs.Nodup
  sub : ∀ ix ∈ c.legs, ix ∈ c.involved
  flops : c.flops = prodSz sd c.involved
  size : c.size = prodSz sd c.legs

/-- definition of `_flop_reductions[ix]`: Σ over the contractions involving `ix` of
    `flops - flops // d` -/
def fredSpec (sd : List (Ix × Nat)) (cons : List Con) (ix : Ix) : Int :=
  (cons.map fun c => if ix ∈ c.involved then red c.flops (szOf sd ix) else 0).sum

/-- definition of `_write_reductions[ix]`: Σ over the contractions whose *result* carries `ix` -/
def wredSpec (sd : List (Ix × Nat)) (cons : List Con) (ix : Ix) : Int :=
  (cons.map fun c => if ix ∈ c.involved ∧ ix ∈ c.legs then red c.size (szOf sd ix) else 0).sum

/-- accumulators of `s` are those of the contraction list `P`; `ex` is the index whose tables are
    in flux (inside `remove`) -/
structure AccP (ex : Option Ix) (P : List Con) (s : Costs) : Prop where
  flops : s.flops = (P.map fun c => (c.flops : Int)).sum
  sizes : MaxCounter.Rep s.mxsizes (P.map (·.size))
  wher : ∀ ix, some ix ≠ ex → ∀ k, k ∈ (AL.get? s.wher ix).getD [] ↔
      (k < P.length ∧ ix ∈ (P.getD k default).involved)
  wherNd : ∀ ix, ((AL.get? s.wher ix).getD []).Nodup
  fred : ∀ ix, some ix ≠ ex → s.fred.get ix = fredSpec s.sizeDict P ix
  wred : ∀ ix, some ix ≠ ex → s.wred.get ix = wredSpec s.sizeDict P ix

/-- the invariant of a `ContractionCosts` object at rest -/
def Acc (s : Costs) : Prop := AccP none s.cons s
def AllOK (s : Costs) : Prop := ∀ c ∈ s.cons, ConOK s.sizeDict c

/-! ### representation is a multiset notion -/

theorem maxOpt_perm {M M' : List Nat} (h : M.Perm M') : MaxCounter.maxOpt M = MaxCounter.maxOpt M' := by
  unfold MaxCounter.maxOpt
  by_cases hM : M = []
  · subst hM; simp [List.Perm.nil_eq h]
  · have hM' : M' ≠ [] := by intro e; subst e; exact hM (List.Perm.eq_nil h)
    simp only [hM, hM', if_false]
    have h1 := MaxCounter.listMax_isMax M hM
    have h2 := MaxCounter.listMax_isMax M' hM'
    have h1' : MaxCounter.IsMax M' (Net.listMax M) :=
      ⟨h.subset h1.1, fun y hy => h1.2 y (h.symm.subset hy)⟩
    rw [MaxCounter.isMax_unique h1' h2]

theorem rep_perm {m : MaxCounter} {M M' : List Nat} (h : MaxCounter.Rep m M) (hp : M.Perm M') :
    MaxCounter.Rep m M' :=
  ⟨h.nodup, h.pos, fun x => by rw [h.cnt, hp.count_eq], by rw [h.mx, maxOpt_perm hp]⟩

/-! ### `init` establishes the invariant -/

theorem initIx_fold_fields (i : Nat) (c : Con) (l : List Ix) (s : Costs) :
    let r := l.foldl (initIx i c) s
    r.sizeDict = s.sizeDict ∧ r.cons = s.cons ∧ r.nslices = s.nslices ∧ r.flops = s.flops ∧
    r.mxsizes = s.mxsizes ∧ r.originalFlops = s.originalFlops ∧
    r.fred = l.foldl (fun f ix => IDict.addTo f ix (red c.flops (szOf s.sizeDict ix))) s.fred ∧
    r.wred = l.foldl (fun w ix => if c.legs.contains ix then
        IDict.addTo w ix (red c.size (szOf s.sizeDict ix)) else w) s.wred ∧
    r.wher = l.foldl (fun wh ix =>
        let w := (AL.get? wh ix).getD []
        AL.set wh ix (if w.contains i then w else w ++ [i])) s.wher := by
  induction l generalizing s with
  | nil => simp
  | cons a t ih =>
    simp only [List.foldl_cons]
    have := ih (initIx i c s a)
    simp only [initIx] at this ⊢
    obtain ⟨h1, h2, h3, h4, h5, h6, h7, h8, h9⟩ := this
    exact ⟨h1, h2, h3, h4, h5, h6, by rw [h7]; rfl, by rw [h8]; rfl, by rw [h9]⟩

theorem get_foldl_condAddTo (l : List Nat) (p : Nat → Bool) (δ : Nat → Int) (d : IDict)
    (hnd : l.Nodup) (x : Nat) :
    IDict.get (l.foldl (fun w o => if p o then IDict.addTo w o (δ o) else w) d) x =
      IDict.get d x + if x ∈ l ∧ p x = true then δ x else 0 := by
  induction l generalizing d with
  | nil => simp
  | cons a t ih =>
    have hnd' := List.nodup_cons.1 hnd
    simp only [List.foldl_cons]
    rw [ih _ hnd'.2]
    by_cases hx : a = x
    · subst hx
      by_cases hp : p a = true
      · simp [hp, hnd'.1, IDict.get_addTo]
      · simp [hp, hnd'.1]
    · have hx' : ¬ x = a := fun e => hx e.symm
      by_cases hp : p a = true
      · simp [hp, IDict.get_addTo, hx, hx']
      · simp [hp, hx']

theorem wher_fold_get (l : List Nat) (i : Nat) (wh : List (Ix × List Nat)) (hnd : l.Nodup) (x : Nat) :
    (AL.get? (l.foldl (fun wh ix =>
        let w := (AL.get? wh ix).getD []
        AL.set wh ix (if w.contains i then w else w ++ [i])) wh) x).getD [] =
      let w := (AL.get? wh x).getD []
      if x ∈ l then (if w.contains i then w else w ++ [i]) else w := by
  induction l generalizing wh with
  | nil => simp
  | cons a t ih =>
    have hnd' := List.nodup_cons.1 hnd
    simp only [List.foldl_cons]
    rw [ih _ hnd'.2]
    simp only [AL.get?_set]
    by_cases hx : a = x
    · subst hx
      simp [hnd'.1]
    · have hx' : ¬ x = a := fun e => hx e.symm
      simp [hx, hx']

theorem sum_map_append_single {α : Type} (P : List α) (c : α) (f : α → Int) :
    ((P ++ [c]).map f).sum = (P.map f).sum + f c := by
  simp

theorem getD_append_single (P : List Con) (c : Con) (k : Nat) :
    (P ++ [c]).getD k default = if k < P.length then P.getD k default else
      if k = P.length then c else default := by
  by_cases h : k < P.length
  · simp [List.getD_eq_getElem?_getD, List.getElem?_append_left h, h]
  · by_cases h2 : k = P.length
    · subst h2; simp [List.getD_eq_getElem?_getD]
    · have : P.length + 1 ≤ k := by omega
      simp [List.getD_eq_getElem?_getD, h, h2]
      rw [List.getElem?_eq_none (by simp; omega)]
      rfl

theorem initCon_acc (P : List Con) (c : Con) (s : Costs) (h : AccP none P s)
    (hnd : c.involved.Nodup) : AccP none (P ++ [c]) (initCon P.length c s) := by
  unfold initCon
  obtain ⟨h1, h2, h3, h4, h5, h6, h7, h8, h9⟩ := initIx_fold_fields P.length c c.involved
    { s with flops := s.flops + c.flops, mxsizes := s.mxsizes.add c.size }
  simp only at h1 h2 h3 h4 h5 h6 h7 h8 h9
  refine ⟨?_, ?_, ?_, ?_, ?_, ?_⟩
  · rw [h4, h.flops]; simp
  · rw [h5]
    apply rep_perm (MaxCounter.rep_add _ _ c.size h.sizes)
    simp only [List.map_append, List.map_cons, List.map_nil]
    exact (List.perm_append_singleton _ _).symm
  · intro ix _ k
    rw [h9, wher_fold_get _ _ _ hnd]
    have hw := h.wher ix (by simp)
    simp only
    rw [getD_append_single]
    by_cases hix : ix ∈ c.involved
    · have hni : ¬ P.length ∈ (AL.get? s.wher ix).getD [] := by
        intro hm; have := (hw _).1 hm; omega
      have : ((AL.get? s.wher ix).getD []).contains P.length = false := by
        simpa using hni
      simp only [hix, if_true, this, Bool.false_eq_true, if_false, List.mem_append, hw,
        List.mem_singleton, List.length_append, List.length_singleton]
      constructor
      · rintro (⟨hk, hm⟩ | rfl)
        · exact ⟨by omega, by rw [if_pos hk]; exact hm⟩
        · exact ⟨by omega, by simp [hix]⟩
      · rintro ⟨hk, hm⟩
        by_cases hk' : k < P.length
        · left; rw [if_pos hk'] at hm; exact ⟨hk', hm⟩
        · right; omega
    · simp only [hix, if_false, hw, List.length_append, List.length_singleton]
      constructor
      · rintro ⟨hk, hm⟩; exact ⟨by omega, by rw [if_pos hk]; exact hm⟩
      · rintro ⟨hk, hm⟩
        by_cases hk' : k < P.length
        · rw [if_pos hk'] at hm; exact ⟨hk', hm⟩
        · have : k = P.length := by omega
          simp [this, hix] at hm
  · intro ix
    rw [h9, wher_fold_get _ _ _ hnd]
    have hw := h.wher ix (by simp)
    simp only
    by_cases hix : ix ∈ c.involved
    · have hni : ¬ P.length ∈ (AL.get? s.wher ix).getD [] := by
        intro hm; have := (hw _).1 hm; omega
      have : ((AL.get? s.wher ix).getD []).contains P.length = false := by simpa using hni
      simp only [hix, if_true, this, Bool.false_eq_true, if_false]
      exact List.nodup_append.2 ⟨h.wherNd ix, by simp, by
        intro a ha b hb; simp at hb; subst hb; intro e; subst e; exact hni ha⟩
    · simp only [hix, if_false]; exact h.wherNd ix
  · intro ix _
    rw [h7, IDict.get_foldl_addTo c.involved (fun ix => red c.flops (szOf s.sizeDict ix)) _ hnd,
      h.fred ix (by simp), h1]
    simp only [fredSpec, sum_map_append_single]
  · intro ix _
    rw [h8, get_foldl_condAddTo c.involved (fun ix => c.legs.contains ix)
      (fun ix => red c.size (szOf s.sizeDict ix)) _ hnd, h.wred ix (by simp), h1]
    simp only [wredSpec, sum_map_append_single, List.contains_iff_mem]

theorem initLoop_acc (rest P : List Con) (s : Costs) (h : AccP none P s)
    (hnd : ∀ c ∈ rest, c.involved.Nodup) :
    AccP none (P ++ rest) (initLoop P.length rest s) ∧
      (initLoop P.length rest s).sizeDict = s.sizeDict ∧ (initLoop P.length rest s).cons = s.cons ∧
      (initLoop P.length rest s).nslices = s.nslices := by
  induction rest generalizing P s with
  | nil => simpa [initLoop] using h
  | cons c t ih =>
    simp only [initLoop]
    have hc := initCon_acc P c s h (hnd c List.mem_cons_self)
    have := ih (P ++ [c]) (initCon P.length c s) hc (fun c' hc' => hnd c' (List.mem_cons_of_mem _ hc'))
    simp only [List.length_append, List.length_singleton, List.append_assoc, List.cons_append,
      List.nil_append] at this
    obtain ⟨a1, a2, a3, a4⟩ := this
    obtain ⟨h1, h2, h3, _⟩ := initIx_fold_fields P.length c c.involved
      { s with flops := s.flops + c.flops, mxsizes := s.mxsizes.add c.size }
    refine ⟨a1, ?_, ?_, ?_⟩
    · rw [a2]; unfold initCon; exact h1
    · rw [a3]; unfold initCon; exact h2
    · rw [a4]; unfold initCon; exact h3

theorem init_acc (cons : List Con) (sd : List (Ix × Nat)) (ns : Nat) (c : Costs)
    (h : Costs.init cons sd ns = some c) (hnd : ∀ x ∈ cons, x.involved.Nodup) :
    Acc c ∧ c.cons = cons ∧ c.sizeDict = sd ∧ c.nslices = ns ∧ c.originalFlops = c.flops := by
  unfold Costs.init at h
  split at h
  · simp only [Option.some.injEq] at h
    have h0 : AccP none [] (Costs.mk sd cons ns 0 0 MaxCounter.empty [] [] []) := by
      refine ⟨by simp, MaxCounter.rep_empty, ?_, ?_, ?_, ?_⟩
      · intro ix _ k; simp [AL.get?]
      · intro ix; simp [AL.get?]
      · intro ix _; simp [IDict.get, AL.get?, fredSpec]
      · intro ix _; simp [IDict.get, AL.get?, wredSpec]
    have := initLoop_acc cons [] _ h0 hnd
    simp only [List.length_nil, List.nil_append] at this
    obtain ⟨a1, a2, a3, a4⟩ := this
    subst h
    refine ⟨?_, a3, a2, a4, rfl⟩
    unfold Acc
    simp only [a3]
    exact ⟨a1.flops, a1.sizes, a1.wher, a1.wherNd, by simpa [a2] using a1.fred, by simpa [a2] using a1.wred⟩
  · cases h

end Cotengra.Slicer
