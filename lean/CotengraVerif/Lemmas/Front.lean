import CotengraVerif.Model.EinsumFront
import CotengraVerif.Lemmas.SinglePlan

/-!
  Lemmas about the front-end model: `get_symbol` is injective and never a separator; the fresh
  symbols of the ellipsis expansion; first-occurrence de-duplication under renaming;
  `find_output_from_inputs` as a filter; sorting.
-/
namespace Cotengra.Front
open Cotengra Cotengra.FA Cotengra.Bmm

/-! ### `get_symbol` -/

theorem getSymbol_injective : Function.Injective getSymbol := by
  intro i j h
  unfold getSymbol at h
  split at h <;> split at h <;> (try split at h) <;> (try split at h) <;> (try split at h) <;>
    (try split at h) <;> omega

theorem getSymbol_not_sep (i : Nat) :
    getSymbol i ≠ cDot ∧ getSymbol i ≠ cComma ∧ getSymbol i ≠ cMinus ∧ getSymbol i ≠ cGt ∧
    getSymbol i ≠ cSpace := by
  unfold getSymbol cDot cComma cMinus cGt cSpace
  split <;> (try split) <;> (try split) <;> omega

/-! ### fresh symbols -/

/-- entries of `used` that are not among the first `c` candidates -/
def pending (used : List Nat) (c : Nat) : Nat :=
  (used.filter fun s => !((List.range c).map getSymbol).contains s).length

theorem pending_succ_le (used : List Nat) (c : Nat) : pending used (c + 1) ≤ pending used c := by
  unfold pending
  have hsub : (used.filter fun s => !((List.range (c + 1)).map getSymbol).contains s).Sublist
      (used.filter fun s => !((List.range c).map getSymbol).contains s) := by
    apply List.monotone_filter_right
    intro s hs
    simp only [Bool.not_eq_eq_eq_not, Bool.not_true, List.contains_eq_mem, List.mem_map,
      List.mem_range, decide_eq_false_iff_not, not_exists, not_and] at hs ⊢
    intro x hx
    exact hs x (by omega)
  exact hsub.length_le

theorem pending_succ_lt {used : List Nat} {c : Nat} (h : used.contains (getSymbol c) = true) :
    pending used (c + 1) < pending used c := by
  unfold pending
  have hmem : getSymbol c ∈ used := by simpa using h
  have hsub : (used.filter fun s => !((List.range (c + 1)).map getSymbol).contains s).Sublist
      (used.filter fun s => !((List.range c).map getSymbol).contains s) := by
    apply List.monotone_filter_right
    intro s hs
    simp only [Bool.not_eq_eq_eq_not, Bool.not_true, List.contains_eq_mem, List.mem_map,
      List.mem_range, decide_eq_false_iff_not, not_exists, not_and] at hs ⊢
    intro x hx
    exact hs x (by omega)
  rcases Nat.lt_or_ge (used.filter fun s => !((List.range (c + 1)).map getSymbol).contains s).length
      (used.filter fun s => !((List.range c).map getSymbol).contains s).length with hlt | hge
  · exact hlt
  · exfalso
    have heq := hsub.eq_of_length_le hge
    have h1 : getSymbol c ∈ used.filter fun s => !((List.range c).map getSymbol).contains s := by
      rw [List.mem_filter]
      refine ⟨hmem, ?_⟩
      simp only [Bool.not_eq_eq_eq_not, Bool.not_true, List.contains_eq_mem, List.mem_map,
        List.mem_range, decide_eq_false_iff_not, not_exists, not_and]
      intro x hx hxe
      have := getSymbol_injective hxe
      omega
    rw [← heq, List.mem_filter] at h1
    have := h1.2
    simp only [Bool.not_eq_eq_eq_not, Bool.not_true, List.contains_eq_mem, List.mem_map,
      List.mem_range, decide_eq_false_iff_not, not_exists, not_and] at this
    exact this c (by omega) rfl

theorem freshSyms_length (used : List Nat) :
    ∀ (fuel req c : Nat), req + pending used c ≤ fuel → (freshSyms used req c fuel).length = req := by
  intro fuel
  induction fuel with
  | zero =>
    intro req c h
    have : req = 0 := by omega
    subst this
    rfl
  | succ fuel ih =>
    intro req c h
    cases req with
    | zero => rfl
    | succ req =>
      unfold freshSyms
      by_cases hu : used.contains (getSymbol c) = true
      · rw [if_pos hu]
        apply ih
        have := pending_succ_lt hu
        omega
      · rw [if_neg hu]
        simp only [List.length_cons, Nat.add_right_cancel_iff]
        apply ih
        have := pending_succ_le used c
        omega

theorem freshSyms_mem (used : List Nat) :
    ∀ (fuel req c : Nat) (s : Nat), s ∈ freshSyms used req c fuel →
      (∃ c', c ≤ c' ∧ s = getSymbol c') ∧ s ∉ used := by
  intro fuel
  induction fuel with
  | zero => intro req c s h; cases req <;> simp [freshSyms] at h
  | succ fuel ih =>
    intro req c s h
    cases req with
    | zero => simp [freshSyms] at h
    | succ req =>
      unfold freshSyms at h
      by_cases hu : used.contains (getSymbol c) = true
      · rw [if_pos hu] at h
        obtain ⟨⟨c', h1, h2⟩, h3⟩ := ih _ _ _ h
        exact ⟨⟨c', by omega, h2⟩, h3⟩
      · rw [if_neg hu] at h
        rcases List.mem_cons.1 h with rfl | h
        · exact ⟨⟨c, Nat.le_refl _, rfl⟩, by simpa using hu⟩
        · obtain ⟨⟨c', h1, h2⟩, h3⟩ := ih _ _ _ h
          exact ⟨⟨c', by omega, h2⟩, h3⟩

theorem freshSyms_nodup (used : List Nat) :
    ∀ (fuel req c : Nat), (freshSyms used req c fuel).Nodup := by
  intro fuel
  induction fuel with
  | zero => intro req c; cases req <;> simp [freshSyms]
  | succ fuel ih =>
    intro req c
    cases req with
    | zero => simp [freshSyms]
    | succ req =>
      unfold freshSyms
      by_cases hu : used.contains (getSymbol c) = true
      · rw [if_pos hu]; exact ih _ _
      · rw [if_neg hu]
        refine List.nodup_cons.2 ⟨?_, ih _ _⟩
        intro hm
        obtain ⟨⟨c', h1, h2⟩, _⟩ := freshSyms_mem used _ _ _ _ hm
        have := getSymbol_injective h2
        omega

/-! ### ellipsis replacement -/

theorem replaceEllipsis_split (repl pre post : List Nat) (hpre : cDot ∉ pre) :
    replaceEllipsis repl (pre ++ [cDot, cDot, cDot] ++ post) = pre ++ repl ++ post := by
  induction pre with
  | nil => simp [replaceEllipsis]
  | cons a r ih =>
    simp only [List.mem_cons, not_or] at hpre
    have ha : a ≠ cDot := fun h => hpre.1 h.symm
    have ihr := ih hpre.2
    -- the list has at least three further elements after `a`
    cases r with
    | nil =>
      simp only [List.nil_append, List.cons_append] at ihr ⊢
      simp only [replaceEllipsis, ha, false_and, ↓reduceIte, List.cons.injEq, true_and]
      first | exact ihr | skip
    | cons b r' =>
      cases r' with
      | nil =>
        simp only [List.cons_append, List.nil_append] at ihr ⊢
        simp only [replaceEllipsis, ha, false_and, ↓reduceIte, List.cons.injEq, true_and] at ihr ⊢
        first | exact ihr | skip
      | cons c r'' =>
        simp only [List.cons_append] at ihr ⊢
        rw [replaceEllipsis]
        simp only [ha, false_and, ↓reduceIte, List.cons.injEq, true_and]
        first | exact ihr | skip

/-- a term with exactly three dots that are adjacent splits around its ellipsis -/
theorem split_of_checkEllipsis {t : List Nat} (h : checkEllipsis t = .ok true) :
    ∃ pre post, t = pre ++ [cDot, cDot, cDot] ++ post ∧ cDot ∉ pre ∧ cDot ∉ post := by
  unfold checkEllipsis at h
  simp only at h
  split at h
  · cases h
  · split at h
    · rename_i hcnt
      split at h
      · rename_i hinf
        -- find the first dot
        have hm : cDot ∈ t := List.count_pos_iff.1 (by omega)
        obtain ⟨pre, rest, rfl, hp⟩ := exists_first_split hm
        have hinf' := hinf
        rw [show ([cDot, cDot, cDot] : List Nat) = cDot :: [cDot, cDot] from rfl,
          isInfix_skip hp] at hinf'
        have hc : rest.count cDot = 2 := by
          rw [List.count_append, List.count_eq_zero.2 hp, List.count_cons_self] at hcnt
          omega
        -- the infix must start right here
        have hpre : ([cDot, cDot] : List Nat).isPrefixOf rest = true := by
          have hunf : isInfix (cDot :: [cDot, cDot]) (cDot :: rest)
              = ((cDot :: [cDot, cDot]).isPrefixOf (cDot :: rest) || isInfix (cDot :: [cDot, cDot]) rest) :=
            rfl
          rw [hunf] at hinf'
          rcases Bool.or_eq_true _ _ ▸ hinf' with h1 | h1
          · simpa [List.isPrefixOf] using h1
          · have := count_le_of_isInfix h1 cDot
            simp at this
            omega
        obtain ⟨post, rfl⟩ := List.isPrefixOf_iff_prefix.1 hpre
        refine ⟨pre, post, by simp, hp, ?_⟩
        intro hpost
        have : 0 < post.count cDot := List.count_pos_iff.2 hpost
        simp only [List.cons_append, List.nil_append, List.count_cons_self] at hc
        omega
      · cases h
    · cases h

/-! ### renaming -/

/-- `ρ` is injective on the members of `S` -/
def InjOn (ρ : Nat → Nat) (S : List Nat) : Prop := ∀ a ∈ S, ∀ b ∈ S, ρ a = ρ b → a = b

theorem InjOn.mono {ρ : Nat → Nat} {S T : List Nat} (h : InjOn ρ S) (hs : ∀ a ∈ T, a ∈ S) :
    InjOn ρ T := fun a ha b hb => h a (hs a ha) b (hs b hb)

theorem mem_map_injOn {ρ : Nat → Nat} {S l : List Nat} (h : InjOn ρ S) (hl : ∀ a ∈ l, a ∈ S)
    {x : Nat} (hx : x ∈ S) : ρ x ∈ l.map ρ ↔ x ∈ l := by
  constructor
  · intro hm
    obtain ⟨y, hy, hyx⟩ := List.mem_map.1 hm
    have := h y (hl y hy) x hx hyx
    exact this ▸ hy
  · exact fun hm => List.mem_map.2 ⟨x, hm, rfl⟩

theorem filter_map_injOn {ρ : Nat → Nat} {S l : List Nat} (h : InjOn ρ S) (hl : ∀ a ∈ l, a ∈ S)
    {x : Nat} (hx : x ∈ S) :
    (l.map ρ).filter (· != ρ x) = (l.filter (· != x)).map ρ := by
  induction l with
  | nil => rfl
  | cons a r ih =>
    have ha : a ∈ S := hl a (by simp)
    have ihr := ih fun b hb => hl b (by simp [hb])
    simp only [List.map_cons, List.filter_cons]
    by_cases hax : a = x
    · subst hax; simp [ihr]
    · have : ρ a ≠ ρ x := fun he => hax (h a ha x hx he)
      simp [hax, this, ihr]

theorem uniq_map_injOn {ρ : Nat → Nat} {S l : List Nat} (h : InjOn ρ S) (hl : ∀ a ∈ l, a ∈ S) :
    uniq (l.map ρ) = (uniq l).map ρ := by
  induction l with
  | nil => rfl
  | cons a r ih =>
    have ha : a ∈ S := hl a (by simp)
    have hr : ∀ b ∈ r, b ∈ S := fun b hb => hl b (by simp [hb])
    simp only [List.map_cons, uniq, ih hr]
    rw [filter_map_injOn h (fun b hb => hr b (mem_uniq.1 hb)) ha]

theorem count_map_injOn {ρ : Nat → Nat} {S l : List Nat} (h : InjOn ρ S) (hl : ∀ a ∈ l, a ∈ S)
    {x : Nat} (hx : x ∈ S) : (l.map ρ).count (ρ x) = l.count x := by
  induction l with
  | nil => rfl
  | cons a r ih =>
    have ha : a ∈ S := hl a (by simp)
    have ihr := ih fun b hb => hl b (by simp [hb])
    simp only [List.map_cons, List.count_cons, ihr]
    by_cases hax : a = x
    · subst hax; simp
    · have : ρ a ≠ ρ x := fun he => hax (h a ha x hx he)
      simp [hax, this]

/-! ### `find_output_from_inputs` -/

/-- state of the loop after reading the prefix `p` -/
theorem fo_foldl (l : List Nat) :
    ∀ (p : List Nat) (st : List Nat × List Nat),
      (∀ i, i ∈ st.1 ↔ i ∈ p) → st.2 = (uniq p).filter (fun x => p.count x == 1) →
      (l.foldl foStep st).2 = (uniq (p ++ l)).filter fun x => (p ++ l).count x == 1 := by
  induction l with
  | nil => intro p st _ h2; simpa using h2
  | cons a r ih =>
    intro p st h1 h2
    have key : ∀ q : List Nat, uniq (q ++ [a]) = if a ∈ q then uniq q else uniq q ++ [a] := by
      intro q
      induction q with
      | nil => simp [uniq]
      | cons b t iht =>
        simp only [List.cons_append, uniq, iht, List.mem_cons]
        by_cases hab : a = b
        · subst hab
          by_cases hat : a ∈ t <;> simp [hat, List.filter_append]
        · have hba : ¬ b = a := fun h => hab h.symm
          by_cases hat : a ∈ t
          · simp [hab, hat]
          · simp [hab, hat, List.filter_append, hba]
    simp only [List.foldl_cons]
    have happ : p ++ a :: r = (p ++ [a]) ++ r := by simp
    rw [happ]
    apply ih
    · intro i
      unfold foStep
      by_cases hc : st.1.contains a = true
      · have hap : a ∈ p := (h1 a).1 (by simpa using hc)
        simp only [hc, ↓reduceIte, h1, List.mem_append, List.mem_singleton]
        exact ⟨Or.inl, fun h => h.elim id fun h => h ▸ hap⟩
      · simp only [hc, Bool.false_eq_true, ↓reduceIte, List.mem_cons, h1, List.mem_append,
          List.mem_singleton]
        tauto
    · unfold foStep
      by_cases hc : st.1.contains a = true
      · have hap : a ∈ p := (h1 a).1 (by simpa using hc)
        simp only [hc, ↓reduceIte, h2, key, hap, List.filter_filter]
        apply List.filter_congr
        intro x _
        rw [count_snoc]
        by_cases hxa : x = a
        · subst hxa
          have : 0 < p.count x := List.count_pos_iff.2 hap
          simp only [bne_self_eq_false, Bool.false_and, ↓reduceIte]
          symm
          simp only [beq_eq_false_iff_ne, ne_eq]
          omega
        · simp [hxa]
      · have hap : a ∉ p := fun h => hc (by simpa using (h1 a).2 h)
        simp only [hc, Bool.false_eq_true, ↓reduceIte, h2, key, hap, List.filter_append]
        congr 1
        · apply List.filter_congr
          intro x hx
          rw [count_snoc]
          have hxa : x ≠ a := by
            rintro rfl
            exact hap (mem_uniq.1 hx)
          simp [hxa]
        · simp [count_snoc, List.count_eq_zero.2 hap]

theorem findOutputFromInputs_eq (inputs : List (List Nat)) :
    findOutputFromInputs inputs
      = (uniq inputs.flatten).filter fun x => inputs.flatten.count x == 1 := by
  unfold findOutputFromInputs
  have := fo_foldl inputs.flatten [] ([], []) (by simp) (by simp [uniq])
  simpa using this

/-! ### sorting -/

theorem mem_insertSorted {x y : Nat} {l : List Nat} : y ∈ insertSorted x l ↔ y = x ∨ y ∈ l := by
  induction l with
  | nil => simp [insertSorted]
  | cons a r ih =>
    unfold insertSorted
    split
    · simp
    · simp only [List.mem_cons, ih]; tauto

theorem mem_sortIx {y : Nat} {l : List Nat} : y ∈ sortIx l ↔ y ∈ l := by
  induction l with
  | nil => simp [sortIx]
  | cons a r ih =>
    simp only [sortIx, List.foldr_cons, List.mem_cons] at ih ⊢
    rw [mem_insertSorted, ih]

theorem sorted_insertSorted {x : Nat} {l : List Nat} (h : l.Pairwise (· ≤ ·)) :
    (insertSorted x l).Pairwise (· ≤ ·) := by
  induction l with
  | nil => simp [insertSorted]
  | cons a r ih =>
    unfold insertSorted
    have ha := List.pairwise_cons.1 h
    split
    · rename_i hxa
      refine List.pairwise_cons.2 ⟨?_, h⟩
      intro b hb
      rcases List.mem_cons.1 hb with rfl | hb
      · exact hxa
      · exact Nat.le_trans hxa (ha.1 b hb)
    · rename_i hxa
      refine List.pairwise_cons.2 ⟨?_, ih ha.2⟩
      intro b hb
      rcases mem_insertSorted.1 hb with rfl | hb
      · exact Nat.le_of_lt (Nat.lt_of_not_le hxa)
      · exact ha.1 b hb

theorem sorted_sortIx (l : List Nat) : (sortIx l).Pairwise (· ≤ ·) := by
  induction l with
  | nil => simp [sortIx]
  | cons a r ih =>
    simp only [sortIx, List.foldr_cons] at ih ⊢
    exact sorted_insertSorted ih

theorem nodup_insertSorted {x : Nat} {l : List Nat} (h : l.Nodup) (hx : x ∉ l) :
    (insertSorted x l).Nodup := by
  induction l with
  | nil => simp [insertSorted]
  | cons a r ih =>
    unfold insertSorted
    have ha := List.nodup_cons.1 h
    simp only [List.mem_cons, not_or] at hx
    split
    · exact List.nodup_cons.2 ⟨by simp [hx.1, hx.2], h⟩
    · refine List.nodup_cons.2 ⟨?_, ih ha.2 hx.2⟩
      intro hm
      rcases mem_insertSorted.1 hm with rfl | hm
      · exact hx.1 rfl
      · exact ha.1 hm

theorem nodup_sortIx {l : List Nat} (h : l.Nodup) : (sortIx l).Nodup := by
  induction l with
  | nil => simp [sortIx]
  | cons a r ih =>
    have ha := List.nodup_cons.1 h
    simp only [sortIx, List.foldr_cons] at ih ⊢
    exact nodup_insertSorted (ih ha.2) (fun hm => ha.1 (mem_sortIx.1 hm))

end Cotengra.Front
