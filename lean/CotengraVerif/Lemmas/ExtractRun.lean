import CotengraVerif.Lemmas.ExtractOK

/-!
  Running the checker on the model's own program: the preprocessing steps turn every leaf's
  axis list into its `get_inds` list; along any children-first order every pop succeeds and
  every step produces the node's index list; only the root is left.
-/
namespace Cotengra
open Cotengra.Net Cotengra.Legs

/-- the recipe `extract_contractions` chooses for the node `node l r` -/
def modelRecipe (n : Net) (rm : List Ix) (I : BT → List Ix) (preferEinsum : Bool) (l r : BT) :
    Recipe :=
  let s := BT.node l r
  if preferEinsum ||
      !canDot (keys (n.legsR rm s)) (keys (n.legsR rm l)) (keys (n.legsR rm r)) then
    let e := einsumEq (I l) (I r) (I s)
    Recipe.einsum e.1 e.2.1 e.2.2
  else
    let a := tensordotAxes (I l) (I r)
    Recipe.tdot a.1 a.2 (tensordotPerm (I l) (I r) (I s))

theorem stepOf_node (n : Net) (rm : List Ix) (I : BT → List Ix) (pe : Bool) (l r : BT) :
    stepOf n rm I pe (.node l r) =
      some { parent := (BT.node l r).leaves, left := l.leaves, right := r.leaves,
             recipe := modelRecipe n rm I pe l r } := rfl

theorem sameSet_refl (a : List Nat) : sameSet a a = true := (sameSet_iff a a).2 fun _ => Iff.rfl

/-- pairwise steps of the model's program along a schedule -/
theorem checkSteps_model (n : Net) (rm : List Ix) (I : BT → List Ix) (pe : Bool)
    {av order fin : List BT} (hs : Sched av order fin)
    (hrec : ∀ l r, BT.node l r ∈ order →
      recipeAxes n rm (BT.node l r).leaves (modelRecipe n rm I pe l r) (I l) (I r)
        = .ok (I (.node l r)))
    (cs : Axes) (hcs : cs.Perm (av.map fun s => (s.leaves, I s)))
    (hnd : (av.flatMap BT.leaves).Nodup) :
    ∃ cs', checkSteps n rm cs (order.filterMap (stepOf n rm I pe)) = .ok cs' ∧
      cs'.Perm (fin.map fun s => (s.leaves, I s)) := by
  induction hs generalizing cs with
  | nil h => exact ⟨cs, rfl, hcs.trans (h.map _)⟩
  | @step av av0 rest fin l r h _ ih =>
    have hcs' : cs.Perm ((l.leaves, I l) :: (r.leaves, I r) :: av0.map fun s => (s.leaves, I s)) := by
      have := hcs.trans (h.map fun s => (s.leaves, I s))
      simpa using this
    have hnd' : ((l :: r :: av0).flatMap BT.leaves).Nodup := (h.flatMap_right _).nodup_iff.1 hnd
    -- pop the left operand
    obtain ⟨cs1, hp1, hcs1⟩ := pop?_of_perm l.leaves cs (l.leaves, I l) _ hcs' (sameSet_refl _) (by
      intro e' he' hse
      have he'' := (hcs.trans (h.map _)).mem_iff.1 he'
      obtain ⟨s', hs', rfl⟩ := List.mem_map.1 he''
      have := eq_of_sameSet_leaves _ hnd' l s' (by simp) hs' hse
      rw [this])
    -- pop the right operand
    have hnd1 : ((r :: av0).flatMap BT.leaves).Nodup := by
      simp only [List.flatMap_cons] at hnd' ⊢
      exact (List.nodup_append.1 hnd').2.1
    obtain ⟨cs2, hp2, hcs2⟩ := pop?_of_perm r.leaves cs1 (r.leaves, I r) _ hcs1 (sameSet_refl _) (by
      intro e' he' hse
      have he'' : e' ∈ (r :: av0).map (fun s => (s.leaves, I s)) := by
        simpa using hcs1.mem_iff.1 he'
      obtain ⟨s', hs', rfl⟩ := List.mem_map.1 he''
      have := eq_of_sameSet_leaves _ hnd1 r s' (by simp) hs' hse
      rw [this])
    have hlr : (l.leaves ++ r.leaves).Nodup := by
      simp only [List.flatMap_cons, ← List.append_assoc] at hnd'
      exact (List.nodup_append.1 hnd').1
    have hguard : (nodupB (BT.node l r).leaves &&
        sameSet (BT.node l r).leaves (l.leaves ++ r.leaves) &&
        (BT.node l r).leaves.length == l.leaves.length + r.leaves.length) = true := by
      simp only [BT.leaves, (nodupB_iff _).2 hlr, sameSet_refl, List.length_append, beq_self_eq_true,
        Bool.and_self]
    have hrc := hrec l r List.mem_cons_self
    -- the rest of the schedule
    have hnd2 : ((BT.node l r :: av0).flatMap BT.leaves).Nodup := by
      simp only [List.flatMap_cons, BT.leaves] at hnd' ⊢
      simpa [List.append_assoc] using hnd'
    obtain ⟨cs', hrest, hfin⟩ := ih (fun l' r' hm => hrec l' r' (List.mem_cons_of_mem _ hm))
      (((BT.node l r).leaves, I (.node l r)) :: cs2)
      (by simpa using hcs2.cons ((BT.node l r).leaves, I (.node l r))) hnd2
    refine ⟨cs', ?_, hfin⟩
    simp only [List.filterMap_cons, stepOf_node, checkSteps, hp1, hp2, hguard, hrc,
      Bool.not_true, Bool.false_eq_true, if_false]
    exact hrest

/-! ### preprocessing -/

/-- the preprocessing entry of input `i` (`preOf` maps this over the inputs) -/
def preStepOf (n : Net) (rm : List Ix) (i : Nat) : Option PreStep :=
  if (n.leafLegsPre rm i).2 then
    let e := preEq (n.termRm rm i) (keys (n.leafLegs rm i))
    some { leaf := i, lhs := e.1, out := e.2 }
  else none

theorem preOf_eq (n : Net) (rm : List Ix) :
    preOf n rm = (List.range n.inputs.length).filterMap (preStepOf n rm) := rfl

/-- axes of input `i` once the inputs in `done` have been treated -/
def leafEntry (n : Net) (rm : List Ix) (done : List Nat) (i : Nat) : List Nat × List Ix :=
  ([i], if i ∈ done then keys (n.leafLegs rm i) else n.termRm rm i)

theorem keys_add_eq (L : Legs) (ix c : Nat) :
    keys (Legs.add L ix c) = if ix ∈ keys L then keys L else keys L ++ [ix] := keys_add L ix c

theorem keys_ofTerm_aux (term : List Ix) (a : Legs) :
    keys (term.foldl (fun acc ix => Legs.add acc ix 1) a) =
      keys a ++ (uniq term).filter fun ix => !(keys a).contains ix := by
  induction term generalizing a with
  | nil => simp [uniq]
  | cons x xs ih =>
    simp only [List.foldl_cons, ih, keys_add_eq, uniq]
    by_cases hx : x ∈ keys a
    · have hc : (keys a).contains x = true := by simpa using hx
      rw [if_pos hx, List.filter_cons, hc]
      simp only [Bool.not_true, Bool.false_eq_true, if_false, List.filter_filter]
      congr 1
      apply List.filter_congr
      intro y _
      by_cases hy : y ∈ keys a
      · simp [hy]
      · have : y ≠ x := fun e => hy (e ▸ hx)
        simp [hy, this]
    · have hc : (keys a).contains x = false := by simpa using hx
      rw [if_neg hx, List.filter_cons, hc]
      simp only [Bool.not_false, if_true, List.filter_filter, List.append_assoc, List.cons_append,
        List.nil_append]
      congr 2
      apply List.filter_congr
      intro y _
      by_cases hy : y = x
      · subst hy; simp
      · simp [hy, List.mem_append]

theorem keys_ofTerm (term : List Ix) : keys (Legs.ofTerm term) = uniq term := by
  unfold Legs.ofTerm
  rw [keys_ofTerm_aux]
  simp [keys]

theorem length_uniq_le (l : List Nat) : (uniq l).length ≤ l.length := by
  induction l with
  | nil => simp [uniq]
  | cons x xs ih =>
    simp only [uniq, List.length_cons]
    have := List.length_filter_le (fun y => y != x) (uniq xs)
    omega

theorem uniq_eq_self_of_length (l : List Nat) (h : (uniq l).length = l.length) : uniq l = l := by
  induction l with
  | nil => rfl
  | cons x xs ih =>
    simp only [uniq, List.length_cons, Nat.add_right_cancel_iff] at h
    have h1 := List.length_filter_le (fun y => y != x) (uniq xs)
    have h2 := length_uniq_le xs
    have hf : ((uniq xs).filter fun y => y != x).length = (uniq xs).length := by omega
    have hu : (uniq xs).length = xs.length := by omega
    have := List.length_filter_eq_length_iff.1 hf
    simp only [uniq]
    rw [List.filter_eq_self.2 this, ih hu]

/-- a leaf without preprocessing has the axes `get_inds` reports -/
theorem keys_leafLegs_of_not_pre (n : Net) (rm : List Ix) (i : Nat)
    (h : (n.leafLegsPre rm i).2 = false) : keys (n.leafLegs rm i) = n.termRm rm i := by
  unfold leafLegs
  unfold leafLegsPre at h ⊢
  simp only at h ⊢
  split at h
  · cases h
  · rename_i hs
    rw [if_neg hs]
    simp only [Bool.or_eq_true, not_or, bne_iff_ne, ne_eq, not_not] at hs
    rw [keys_ofTerm]
    apply uniq_eq_self_of_length
    have := hs.1
    rw [← keys_ofTerm]
    simp only [keys, List.length_map]
    exact this.symm

theorem mem_keys_leafLegs (n : Net) (rm : List Ix) (i : Nat) (ix : Ix)
    (h : ix ∈ keys (n.leafLegs rm i)) : ix ∈ n.termRm rm i := by
  have hpos := (mem_keys_iff_get_pos _ (keys_nodup_leafLegs n rm i) (pos_leafLegs n rm i) ix).1 h
  rw [get_leafLegs] at hpos
  split at hpos
  · omega
  · exact List.count_pos_iff.1 hpos

/-- an index of the term that `compute_leaf_legs` drops is closed in that single input -/
theorem leaf_closed (n : Net) (rm : List Ix) (i : Nat) (ix : Ix) (h : ix ∈ n.termRm rm i)
    (hno : ix ∉ keys (n.leafLegs rm i)) : n.cntL rm [i] ix = n.app ix := by
  have hz : Legs.get (n.leafLegs rm i) ix = 0 := get_eq_zero_of_not_mem _ _ hno
  rw [get_leafLegs] at hz
  have hpos : 0 < occ (n.termRm rm i) ix := List.count_pos_iff.2 h
  simp only [cntL, List.map_cons, List.map_nil, List.sum_cons, List.sum_nil, Nat.add_zero]
  split at hz
  · assumption
  · omega

theorem checkPre_model (n : Net) (rm : List Ix) (is done : List Nat) (cs : Axes)
    (hcs : cs.Perm ((List.range n.inputs.length).map (leafEntry n rm done)))
    (his : ∀ i ∈ is, i < n.inputs.length) (hnd : is.Nodup) (hdisj : ∀ i ∈ is, i ∉ done) :
    ∃ cs', checkPre n rm cs (is.filterMap (preStepOf n rm)) = .ok cs' ∧
      cs'.Perm ((List.range n.inputs.length).map (leafEntry n rm (is.reverse ++ done))) := by
  induction is generalizing cs done with
  | nil => exact ⟨cs, rfl, by simpa using hcs⟩
  | cons i is ih =>
    have hi : i < n.inputs.length := his i List.mem_cons_self
    have hid : i ∉ done := hdisj i List.mem_cons_self
    have hnd' := (List.nodup_cons.1 hnd)
    have hrev : (i :: is).reverse ++ done = is.reverse ++ (i :: done) := by simp
    rw [hrev]
    by_cases hflag : (n.leafLegsPre rm i).2 = true
    · -- a preprocessing step for input i
      have hperm : (List.range n.inputs.length).Perm (i :: (List.range n.inputs.length).erase i) :=
        List.perm_cons_erase (List.mem_range.2 hi)
      have hcs' : cs.Perm (leafEntry n rm done i ::
          ((List.range n.inputs.length).erase i).map (leafEntry n rm done)) :=
        hcs.trans (by simpa using hperm.map (leafEntry n rm done))
      have he : leafEntry n rm done i = ([i], n.termRm rm i) := by simp [leafEntry, hid]
      rw [he] at hcs'
      obtain ⟨cs1, hp1, hcs1⟩ := pop?_of_perm [i] cs ([i], n.termRm rm i) _ hcs' (sameSet_refl _) (by
        intro e' he' hse
        obtain ⟨j, _, rfl⟩ := List.mem_map.1 (hcs.mem_iff.1 he')
        have : j = i := by
          have := ((sameSet_iff _ _).1 hse j).1 (by simp [leafEntry])
          simpa using this
        subst this
        exact he)
      have hu := preEq_ok (n.termRm rm i) (keys (n.leafLegs rm i))
        (mem_keys_leafLegs n rm i) (keys_nodup_leafLegs n rm i)
      have hcc : n.closedCheck rm [i] (n.termRm rm i) (keys (n.leafLegs rm i)) = true :=
        (closedCheck_iff n rm _ _ _).2 (leaf_closed n rm i)
      obtain ⟨cs', hrest, hfin⟩ := ih (i :: done) (([i], keys (n.leafLegs rm i)) :: cs1) (by
          have h1 : (([i], keys (n.leafLegs rm i)) :: cs1).Perm
              (leafEntry n rm (i :: done) i ::
                ((List.range n.inputs.length).erase i).map (leafEntry n rm (i :: done))) := by
            have e1 : leafEntry n rm (i :: done) i = ([i], keys (n.leafLegs rm i)) := by
              simp [leafEntry]
            rw [e1]
            apply List.Perm.cons
            refine hcs1.trans (List.Perm.of_eq ?_)
            apply List.map_congr_left
            intro j hj
            have hji : j ≠ i := fun e => by
              subst e
              exact (List.Nodup.mem_erase_iff List.nodup_range).1 hj |>.1 rfl
            simp [leafEntry, hji]
          exact h1.trans (by simpa using (hperm.map (leafEntry n rm (i :: done))).symm))
        (fun j hj => his j (List.mem_cons_of_mem _ hj)) hnd'.2
        (fun j hj hm => by
          rcases List.mem_cons.1 hm with e | hm
          · subst e; exact hnd'.1 hj
          · exact hdisj j (List.mem_cons_of_mem _ hj) hm)
      refine ⟨cs', ?_, hfin⟩
      simp only [List.filterMap_cons, preStepOf, hflag, if_true, checkPre, hp1, hu, hcc]
      exact hrest
    · -- no preprocessing: the term already is the index list
      have hflag' : (n.leafLegsPre rm i).2 = false := by simpa using hflag
      have hsame : (List.range n.inputs.length).map (leafEntry n rm (i :: done)) =
          (List.range n.inputs.length).map (leafEntry n rm done) := by
        apply List.map_congr_left
        intro j _
        by_cases hji : j = i
        · subst hji
          simp [leafEntry, hid, keys_leafLegs_of_not_pre n rm j hflag']
        · simp [leafEntry, hji]
      obtain ⟨cs', hrest, hfin⟩ := ih (i :: done) cs (by rw [hsame]; exact hcs)
        (fun j hj => his j (List.mem_cons_of_mem _ hj)) hnd'.2
        (fun j hj hm => by
          rcases List.mem_cons.1 hm with e | hm
          · subst e; exact hnd'.1 hj
          · exact hdisj j (List.mem_cons_of_mem _ hj) hm)
      refine ⟨cs', ?_, hfin⟩
      simp only [List.filterMap_cons, preStepOf, hflag', Bool.false_eq_true, if_false]
      exact hrest

end Cotengra
