import CotengraVerif.Model.Bmm
import CotengraVerif.Lemmas.Rep
import Mathlib.Data.List.Basic

/-!
  List-level facts behind one round of the diagonal loop of `_parse_einsum_single`:
  the selector, where numpy puts the new axis (`FA.contig`, `FA.lead`) versus the string test and
  string rewrite the parser performs (`Bmm.isInfix`, `Bmm.collapse`).
-/
namespace Cotengra.Bmm
open Cotengra Cotengra.FA

/-- the selector of `diagStep` -/
def selOf (n : Nat) (ixd : Ix) (t : List Ix) : List (Option Nat) :=
  t.map fun ix => if ix = ixd then some n else none

theorem exists_first_split {ixd : Ix} {t : List Ix} (h : ixd ∈ t) :
    ∃ pre rest, t = pre ++ ixd :: rest ∧ ixd ∉ pre := by
  induction t with
  | nil => simp at h
  | cons a r ih =>
    by_cases ha : a = ixd
    · exact ⟨[], r, by simp [ha], by simp⟩
    · have : ixd ∈ r := by
        rcases List.mem_cons.1 h with h | h
        · exact absurd h.symm ha
        · exact h
      obtain ⟨pre, rest, h1, h2⟩ := ih this
      refine ⟨a :: pre, rest, by simp [h1], ?_⟩
      simp only [List.mem_cons, not_or]
      exact ⟨fun h => ha h.symm, h2⟩

theorem selLen_selOf {n : Nat} {ixd : Ix} {t : List Ix} (h : ixd ∈ t) :
    selLen (selOf n ixd t) = some n := by
  induction t with
  | nil => simp at h
  | cons a r ih =>
    by_cases ha : a = ixd
    · simp [selLen, selOf, ha]
    · have : ixd ∈ r := by
        rcases List.mem_cons.1 h with h | h
        · exact absurd h.symm ha
        · exact h
      have ihr := ih this
      simp only [selLen, selOf, List.map_cons, ha, ↓reduceIte, List.filterMap_cons, id_eq] at ihr ⊢
      exact ihr

theorem selOK_selOf (sz : Ix → Nat) (ixd : Ix) (t : List Ix) :
    selOK (selOf (sz ixd) ixd t) (t.map sz) (sz ixd) = true := by
  induction t with
  | nil => rfl
  | cons a r ih =>
    by_cases ha : a = ixd
    · subst ha
      simp only [selOf, List.map_cons, ↓reduceIte, selOK, beq_self_eq_true, Nat.le_refl,
        decide_true, Bool.and_self, Bool.true_and]
      exact ih
    · simp only [selOf, List.map_cons, ha, ↓reduceIte, selOK]
      exact ih

theorem sliceDims_selOf (sz : Ix → Nat) (n : Nat) (ixd : Ix) (t : List Ix) :
    sliceDims (selOf n ixd t) (t.map sz) = (t.filter (· != ixd)).map sz := by
  induction t with
  | nil => rfl
  | cons a r ih =>
    by_cases ha : a = ixd
    · simp only [selOf, List.map_cons, ha, ↓reduceIte, sliceDims, List.filter_cons,
        bne_self_eq_false, Bool.false_eq_true]
      exact ih
    · have : (a != ixd) = true := by simp [ha]
      simp only [selOf, List.map_cons, ha, ↓reduceIte, sliceDims, List.filter_cons, this,
        List.cons.injEq, true_and]
      exact ih

theorem fill_selOf (n : Nat) (ixd : Ix) (e : Ix → Nat) (t : List Ix) :
    fill (selOf n ixd t) (e ixd) ((t.filter (· != ixd)).map e) = t.map e := by
  induction t with
  | nil => rfl
  | cons a r ih =>
    by_cases ha : a = ixd
    · simp only [selOf, List.map_cons, ha, ↓reduceIte, fill, List.filter_cons, bne_self_eq_false,
        Bool.false_eq_true, List.cons.injEq, true_and]
      exact ih
    · have : (a != ixd) = true := by simp [ha]
      simp only [selOf, List.map_cons, ha, ↓reduceIte, fill, List.filter_cons, this,
        List.cons.injEq, true_and]
      exact ih

theorem lead_selOf (n : Nat) {ixd : Ix} {pre : List Ix} (h : ixd ∉ pre) (rest : List Ix) :
    lead (selOf n ixd (pre ++ ixd :: rest)) = pre.length := by
  induction pre with
  | nil => simp [selOf, lead]
  | cons a r ih =>
    simp only [List.mem_cons, not_or] at h
    have ha : a ≠ ixd := fun h' => h.1 h'.symm
    simp only [selOf, List.cons_append, List.map_cons, ha, ↓reduceIte, lead, List.length_cons,
      Nat.add_right_cancel_iff]
    exact ih h.2

theorem dropNones_selOf (n : Nat) {ixd : Ix} {pre : List Ix} (h : ixd ∉ pre) (rest : List Ix) :
    dropNones (selOf n ixd (pre ++ ixd :: rest)) = some n :: selOf n ixd rest := by
  induction pre with
  | nil => simp [selOf, dropNones]
  | cons a r ih =>
    simp only [List.mem_cons, not_or] at h
    have ha : a ≠ ixd := fun h' => h.1 h'.symm
    simp only [selOf, List.cons_append, List.map_cons, ha, ↓reduceIte, dropNones]
    exact ih h.2

theorem dropWhile_selOf (n : Nat) (ixd : Ix) (l : List Ix) :
    (selOf n ixd l).dropWhile Option.isSome = selOf n ixd (l.dropWhile (· == ixd)) := by
  induction l with
  | nil => rfl
  | cons a r ih =>
    by_cases ha : a = ixd
    · simp only [selOf, List.map_cons, ha, ↓reduceIte, List.dropWhile_cons, Option.isSome_some,
        beq_self_eq_true]
      exact ih
    · have : (a == ixd) = false := by simp [ha]
      simp [selOf, List.dropWhile_cons, ha, this]

theorem all_isNone_selOf (n : Nat) (ixd : Ix) (l : List Ix) :
    (selOf n ixd l).all Option.isNone = l.all (· != ixd) := by
  induction l with
  | nil => rfl
  | cons a r ih =>
    simp only [selOf, List.map_cons, List.all_cons] at ih ⊢
    rw [ih]
    by_cases ha : a = ixd <;> simp [ha]

/-- numpy's adjacency test on the selector, in terms of the labels -/
theorem contig_selOf (n : Nat) {ixd : Ix} {pre : List Ix} (h : ixd ∉ pre) (rest : List Ix) :
    contig (selOf n ixd (pre ++ ixd :: rest)) = (rest.dropWhile (· == ixd)).all (· != ixd) := by
  simp only [contig, dropNones_selOf n h, List.dropWhile_cons, Option.isSome_some, ↓reduceIte,
    dropWhile_selOf, all_isNone_selOf]

/-! ### the parser's string test -/

theorem count_le_of_isInfix {pat l : List Ix} (h : isInfix pat l = true) (a : Ix) :
    pat.count a ≤ l.count a := by
  induction l with
  | nil =>
    simp only [isInfix, List.isEmpty_iff] at h
    simp [h]
  | cons x xs ih =>
    simp only [isInfix, Bool.or_eq_true] at h
    rcases h with h | h
    · exact (List.isPrefixOf_iff_prefix.1 h).sublist.count_le a
    · exact Nat.le_trans (ih h) (List.count_le_count_cons ..)

theorem isPrefixOf_run (ixd : Ix) (rest : List Ix) :
    (List.replicate (rest.count ixd) ixd).isPrefixOf rest
      = (rest.dropWhile (· == ixd)).all (· != ixd) := by
  induction rest with
  | nil => rfl
  | cons a r ih =>
    by_cases ha : a = ixd
    · subst ha
      simp only [List.count_cons_self, List.replicate_succ, List.isPrefixOf, beq_self_eq_true,
        Bool.true_and, List.dropWhile_cons, ↓reduceIte]
      exact ih
    · have hne : (a == ixd) = false := by simp [ha]
      have hne' : (ixd == a) = false := by simp [Ne.symm ha]
      rw [List.count_cons_of_ne (by simpa using ha)]
      simp only [List.dropWhile_cons, hne, Bool.false_eq_true, ↓reduceIte, List.all_cons]
      have hb : (a != ixd) = true := by simp [ha]
      rw [hb, Bool.true_and]
      by_cases hc : r.count ixd = 0
      · have hnm : ixd ∉ r := List.count_eq_zero.1 hc
        rw [hc]
        simp only [List.replicate_zero, List.isPrefixOf]
        symm
        simp only [List.all_eq_true, bne_iff_ne, ne_eq]
        intro y hy hyx
        exact hnm (hyx ▸ hy)
      · obtain ⟨k, hk⟩ := Nat.exists_eq_succ_of_ne_zero hc
        rw [hk]
        simp only [List.replicate_succ, List.isPrefixOf, hne', Bool.false_and]
        symm
        have hm : ixd ∈ r := by
          by_contra hnm
          exact hc (List.count_eq_zero.2 hnm)
        simp only [List.all_eq_false, bne_iff_ne, ne_eq, Decidable.not_not]
        exact ⟨ixd, hm, rfl⟩

theorem isInfix_skip {ixd : Ix} {pat' : List Ix} {p : List Ix} (hp : ixd ∉ p) (l : List Ix) :
    isInfix (ixd :: pat') (p ++ l) = isInfix (ixd :: pat') l := by
  induction p with
  | nil => rfl
  | cons a r ih =>
    simp only [List.mem_cons, not_or] at hp
    have hne' : (ixd == a) = false := by simpa using hp.1
    have : isInfix (ixd :: pat') (a :: (r ++ l))
        = ((ixd :: pat').isPrefixOf (a :: (r ++ l)) || isInfix (ixd :: pat') (r ++ l)) := rfl
    rw [List.cons_append, this, List.isPrefixOf, hne', Bool.false_and, Bool.false_or]
    exact ih hp.2

/-- the parser's test `ixd * lhs.count(ixd) in lhs`, in terms of the labels -/
theorem isInfix_run {ixd : Ix} {pre : List Ix} (h : ixd ∉ pre) (rest : List Ix) :
    isInfix (List.replicate ((pre ++ ixd :: rest).count ixd) ixd) (pre ++ ixd :: rest)
      = (rest.dropWhile (· == ixd)).all (· != ixd) := by
  have hc : (pre ++ ixd :: rest).count ixd = rest.count ixd + 1 := by
    rw [List.count_append, List.count_eq_zero.2 h, List.count_cons_self]; simp
  rw [hc, List.replicate_succ, isInfix_skip h]
  have hno : isInfix (ixd :: List.replicate (rest.count ixd) ixd) rest = false := by
    by_contra hc'
    have := count_le_of_isInfix (Bool.eq_true_of_not_eq_false hc') ixd
    simp at this
  have : isInfix (ixd :: List.replicate (rest.count ixd) ixd) (ixd :: rest)
      = ((ixd :: List.replicate (rest.count ixd) ixd).isPrefixOf (ixd :: rest)
          || isInfix (ixd :: List.replicate (rest.count ixd) ixd) rest) := rfl
  rw [this, hno, Bool.or_false, List.isPrefixOf, beq_self_eq_true, Bool.true_and]
  exact isPrefixOf_run ixd rest

/-! ### the parser's string rewrite -/

theorem collapse_cons_ne {ixd a : Ix} (h : a ≠ ixd) (l : List Ix) :
    collapse ixd (a :: l) = a :: collapse ixd l := by
  cases l with
  | nil => rfl
  | cons b r => simp [collapse, h]

theorem collapse_not_mem {ixd : Ix} {l : List Ix} (h : ixd ∉ l) : collapse ixd l = l := by
  induction l with
  | nil => rfl
  | cons a r ih =>
    simp only [List.mem_cons, not_or] at h
    rw [collapse_cons_ne (fun h' => h.1 h'.symm), ih h.2]

theorem collapse_run {ixd : Ix} {rest : List Ix}
    (h : (rest.dropWhile (· == ixd)).all (· != ixd) = true) :
    collapse ixd (ixd :: rest) = ixd :: rest.filter (· != ixd) := by
  induction rest with
  | nil => rfl
  | cons a r ih =>
    by_cases ha : a = ixd
    · subst ha
      simp only [List.dropWhile_cons, beq_self_eq_true, ↓reduceIte] at h
      simp only [collapse, and_self, ↓reduceIte, List.filter_cons, bne_self_eq_false,
        Bool.false_eq_true]
      exact ih h
    · have hne : (a == ixd) = false := by simp [ha]
      simp only [List.dropWhile_cons, hne, Bool.false_eq_true, ↓reduceIte] at h
      have hnm : ixd ∉ a :: r := by
        intro hm
        have := List.all_eq_true.1 h ixd hm
        simp at this
      have hf : (a :: r).filter (· != ixd) = a :: r := by
        apply List.filter_eq_self.2
        intro y hy
        simp only [bne_iff_ne, ne_eq]
        rintro rfl
        exact hnm hy
      rw [hf]
      simp only [collapse, ha, and_false, ↓reduceIte, List.cons.injEq, true_and]
      exact collapse_not_mem hnm

theorem collapse_contig {ixd : Ix} {pre : List Ix} (hp : ixd ∉ pre) {rest : List Ix}
    (h : (rest.dropWhile (· == ixd)).all (· != ixd) = true) :
    collapse ixd (pre ++ ixd :: rest) = pre ++ ixd :: rest.filter (· != ixd) := by
  induction pre with
  | nil => exact collapse_run h
  | cons a r ih =>
    simp only [List.mem_cons, not_or] at hp
    rw [List.cons_append, collapse_cons_ne (fun h' => hp.1 h'.symm), ih hp.2]
    rfl

end Cotengra.Bmm
