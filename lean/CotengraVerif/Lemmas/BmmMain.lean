import CotengraVerif.Lemmas.BmmSound

/-!
  The two paths of `_parse_eq_to_batch_matmul` + `_do_contraction_via_bmm` end to end, as labelled
  arrays: the plan exists, its evaluation succeeds, and the result has one axis per output label
  and holds `Σ_con (Σ_SA A)(Σ_SB B)`.
-/
namespace Cotengra.Bmm
open Cotengra Cotengra.FA

theorem getD_map_idxOf (sz : Ix → Nat) {t : List Ix} {i : Ix} (hi : i ∈ t) (d : Nat) :
    (t.map sz).getD (t.idxOf i) d = sz i := by
  have hlt := List.idxOf_lt_length_of_mem hi
  rw [List.getD_eq_getElem?_getD, List.getElem?_eq_getElem (by simpa using hlt)]
  simp [List.getElem_idxOf hlt]

theorem flatten_padDesc (p : Ix → Bool) (out : List Ix) :
    (padDesc p out).flatten = out.filter p := by
  induction out with
  | nil => rfl
  | cons o r ih =>
    simp only [padDesc, List.map_cons, List.flatten_cons, List.filter_cons] at ih ⊢
    by_cases hp : p o = true
    · simp [hp, ih]
    · simp [hp, ih]

theorem pureShape_eq (sz : Ix → Nat) (t out : List Ix) :
    (out.map fun ix => if has t ix then (t.map sz).getD (t.idxOf ix) 0 else 1)
      = (padDesc (has t) out).map (gsize sz) := by
  rw [padDesc_gsize]
  apply List.map_congr_left
  intro o _
  by_cases h : has t o = true
  · have hm : o ∈ t := by simpa [has] using h
    rw [if_pos h, if_pos h, getD_map_idxOf sz hm]
  · rw [if_neg h, if_neg h]

/-- the pure-multiplication path -/
theorem pure_lab {sz : Ix → Nat} {aT bT out : List Ix} (hout : out.Nodup)
    (hsub : ∀ o ∈ out, o ∈ aT ∨ o ∈ bT) {a b : FArr} (hsa : a.shape = aT.map sz)
    (hsb : b.shape = bT.map sz) :
    ∃ r, evalPlan (pureMul aT (aT.map sz) bT (bT.map sz) out) a b = some r ∧
      Lab sz out r fun env =>
        sumEnv sz (scan aT (out.filter (has aT))).2 env (fun e => a.get (aT.map e)) *
        sumEnv sz (scan bT (out.filter (has bT))).2 env (fun e => b.get (bT.map e)) := by
  have hmemf : ∀ (t : List Ix), ∀ o ∈ out.filter (has t), o ∈ t := by
    intro t o ho
    simpa [has] using (List.mem_filter.1 ho).2
  obtain ⟨a1, ha1, hla1⟩ := prep_lab_pure (sz := sz) hsa (hout.filter _) (hmemf aT)
  obtain ⟨b1, hb1, hlb1⟩ := prep_lab_pure (sz := sz) hsb (hout.filter _) (hmemf bT)
  obtain ⟨a2, ha2, hra2⟩ := rep_reshape hla1 (D' := padDesc (has aT) out)
    (by rw [flatten_map_single, flatten_padDesc])
  obtain ⟨b2, hb2, hrb2⟩ := rep_reshape hlb1 (D' := padDesc (has bT) out)
    (by rw [flatten_map_single, flatten_padDesc])
  obtain ⟨r, hr, hlr⟩ := rep_mul hra2 hrb2 (by
    intro o ho
    rcases hsub o ho with h | h
    · exact Or.inl (by simpa [has] using h)
    · exact Or.inr (by simpa [has] using h))
  refine ⟨r, ?_, hlr⟩
  simp only [evalPlan, pureMul, ha1, hb1, Option.bind_some, optApply, pureShape_eq, ha2, hb2,
    ↓reduceIte, hr]

/-! ### the batched-matmul path -/

theorem idx_identity {out p : List Ix} (hlen : out.length = p.length)
    (hsub : ∀ o ∈ out, o ∈ p) (h : out.map p.idxOf = List.range (out.map p.idxOf).length) :
    out = p := by
  apply List.ext_getElem hlen
  intro k h1 h2
  have hk : p.idxOf out[k] = k := by
    have := congrArg (fun l => l[k]?) h
    simp only [List.getElem?_map, List.length_map, List.getElem?_range h1,
      List.getElem?_eq_getElem h1, Option.map_some] at this
    exact Option.some.inj this
  have hlt := List.idxOf_lt_length_of_mem (hsub _ (List.getElem_mem h1))
  have := List.getElem_idxOf hlt
  simp only [hk] at this
  exact this.symm

theorem matmul_og {sz : Ix → Nat} {bat aKeep con bKeep : List Ix} {a2 b2 : FArr} {Fa Fb}
    (ha : Rep sz (if bat.isEmpty then [aKeep, con] else [bat, aKeep, con]) a2 Fa)
    (hb : Rep sz (if bat.isEmpty then [con, bKeep] else [bat, con, bKeep]) b2 Fb)
    (hC : con.Nodup) (hB : ∀ i ∈ bat, i ∉ con) (hK : ∀ i ∈ aKeep, i ∉ con)
    (hN : ∀ i ∈ bKeep, i ∉ con) :
    ∃ ab, matmul a2 b2 = some ab ∧
      Rep sz (if bat.isEmpty then [aKeep, bKeep] else [bat, aKeep, bKeep]) ab
        fun env => sumEnv sz con env fun e => Fa e * Fb e := by
  by_cases hbe : bat.isEmpty = true
  · simp only [hbe, ↓reduceIte] at ha hb ⊢
    exact rep_matmul2 ha hb hC hK hN
  · simp only [hbe, Bool.false_eq_true, ↓reduceIte] at ha hb ⊢
    exact rep_matmul3 ha hb hC hB hK hN

theorem og_flatten (bat aKeep bKeep : List Ix) :
    (if bat.isEmpty then [aKeep, bKeep] else [bat, aKeep, bKeep]).flatten
      = bat ++ aKeep ++ bKeep := by
  by_cases hbe : bat.isEmpty = true
  · have : bat = [] := by simpa using hbe
    simp [this]
  · simp [hbe]

theorem lg_flatten (bat aKeep con : List Ix) :
    (if bat.isEmpty then [aKeep, con] else [bat, aKeep, con]).flatten
      = bat ++ aKeep ++ con := og_flatten bat aKeep con

theorem rg_flatten (bat con bKeep : List Ix) :
    (if bat.isEmpty then [con, bKeep] else [bat, con, bKeep]).flatten
      = bat ++ con ++ bKeep := og_flatten bat con bKeep

/-- reshape of the matmul output to `(1,)*k + sizes of bat, aKeep, bKeep` -/
theorem unfuse_lab {sz : Ix → Nat} {singles : List Ix} {og : List (List Ix)} {ab : FArr} {F}
    (hab : Rep sz og ab F) {sizes : List (Ix × Nat)} (hs1 : ∀ i ∈ singles, sz i = 1)
    (hsz : ∀ i ∈ og.flatten, sizeIn sizes i = sz i) :
    ∃ y, optApply reshape
        (if (og.any fun gr => gr.length != 1) || !singles.isEmpty then
          some (List.replicate singles.length 1 ++ og.flatten.map (sizeIn sizes)) else none) ab
        = some y ∧ Lab sz (singles ++ og.flatten) y F := by
  by_cases hc : ((og.any fun gr => gr.length != 1) || !singles.isEmpty) = true
  · simp only [hc, ↓reduceIte, optApply]
    have hshape : List.replicate singles.length 1 ++ og.flatten.map (sizeIn sizes)
        = ((singles ++ og.flatten).map fun i => [i]).map (gsize sz) := by
      simp only [List.map_append, List.map_map, Function.comp_def, gsize_single]
      congr 1
      · symm
        rw [List.eq_replicate_iff]
        simp only [List.length_map, List.mem_map, true_and]
        rintro _ ⟨i, hi, rfl⟩
        exact hs1 i hi
      · exact List.map_congr_left hsz
    rw [hshape]
    apply rep_reshape hab
    rw [flatten_map_single, List.filter_append]
    have : singles.filter (fun i => sz i != 1) = [] := by
      apply List.filter_eq_nil_iff.2
      intro i hi
      simp [hs1 i hi]
    rw [this, List.nil_append]
  · simp only [hc, Bool.false_eq_true, ↓reduceIte, optApply]
    simp only [Bool.or_eq_true, not_or, Bool.not_eq_true, Bool.not_eq_false',
      List.isEmpty_iff] at hc
    have hall : ∀ g ∈ og, g.length = 1 := by
      intro g hg
      by_contra hne
      have := hc.1
      rw [List.any_eq_false] at this
      exact this g hg (by simpa using hne)
    refine ⟨ab, rfl, ?_⟩
    rw [hc.2, List.nil_append]
    have := eq_map_single_of_len_one hall
    rw [this] at hab
    exact hab

/-- final transposition to the requested output order -/
theorem final_perm_lab {sz : Ix → Nat} {produced out : List Ix} {ab1 : FArr} {F}
    (hab : Lab sz produced ab1 F) (hp : produced.Nodup) (hout : out.Nodup)
    (h1 : ∀ o ∈ out, o ∈ produced) (h2 : ∀ i ∈ produced, i ∈ out) :
    ∃ r, optApply transpose
        (if out.map produced.idxOf = List.range (out.map produced.idxOf).length then none
          else some (out.map produced.idxOf)) ab1 = some r ∧ Lab sz out r F := by
  have hperm : out.Perm produced := (List.perm_ext_iff_of_nodup hout hp).2 fun a => ⟨h1 a, h2 a⟩
  by_cases hid : out.map produced.idxOf = List.range (out.map produced.idxOf).length
  · rw [if_pos hid]
    have : out = produced := idx_identity hperm.length_eq h1 hid
    exact ⟨ab1, rfl, this ▸ hab⟩
  · rw [if_neg hid]
    exact lab_transpose hab hp hout h1 h2


/-- what `parseBmm` returns on the batched-matmul path -/
theorem parseBmm_bmm {lc : Bool} {aT bT out : List Ix} {shA shB : List Nat}
    {sizes : List (Ix × Nat)} {g : Groups} (hl1 : aT.length = shA.length)
    (hl2 : bT.length = shB.length) (hs : sizesOf aT shA bT shB = some sizes)
    (hg : groups aT shA bT shB out = g) (hne : g.con.isEmpty = false)
    {singles : List Ix} (hsing : out.filter (has (singlesSet aT shA bT shB)) = singles)
    (hall : out.all (has (singles ++ g.bat ++ g.aKeep ++ g.bKeep)) = true) :
    parseBmm lc aT bT out shA shB = some
      { eqA := prepOf lc aT (g.bat ++ g.aKeep ++ g.con)
        eqB := prepOf lc bT (g.bat ++ g.con ++ g.bKeep)
        shA := fusedShape sizes (if g.bat.isEmpty then [g.aKeep, g.con] else [g.bat, g.aKeep, g.con])
        shB := fusedShape sizes (if g.bat.isEmpty then [g.con, g.bKeep] else [g.bat, g.con, g.bKeep])
        shAB :=
          if ((if g.bat.isEmpty then [g.aKeep, g.bKeep] else [g.bat, g.aKeep, g.bKeep]).any
              fun gr => gr.length != 1) || !singles.isEmpty then
            some (List.replicate singles.length 1 ++
              (if g.bat.isEmpty then [g.aKeep, g.bKeep] else [g.bat, g.aKeep, g.bKeep]).flatten.map
                (sizeIn sizes))
          else none
        permAB :=
          if out.map (singles ++ g.bat ++ g.aKeep ++ g.bKeep).idxOf
              = List.range (out.map (singles ++ g.bat ++ g.aKeep ++ g.bKeep).idxOf).length then none
          else some (out.map (singles ++ g.bat ++ g.aKeep ++ g.bKeep).idxOf)
        pure := false } := by
  simp only [parseBmm, hl1, hl2, bne_self_eq_false, Bool.or_self, Bool.false_eq_true, ↓reduceIte, hs,
    hg, hne, hsing, hall]

/-- the batched-matmul path end to end -/
theorem bmm_lab {sz : Ix → Nat} {aT bT out : List Ix} (lc : Bool) (hout : out.Nodup)
    (hsub : ∀ o ∈ out, o ∈ aT ∨ o ∈ bT)
    (hga : lc = true ∨ (sameSet aT ((groups aT (aT.map sz) bT (bT.map sz) out).bat ++
              (groups aT (aT.map sz) bT (bT.map sz) out).aKeep ++
              (groups aT (aT.map sz) bT (bT.map sz) out).con) = true →
            aT.length = ((groups aT (aT.map sz) bT (bT.map sz) out).bat ++
              (groups aT (aT.map sz) bT (bT.map sz) out).aKeep ++
              (groups aT (aT.map sz) bT (bT.map sz) out).con).length))
    (hgb : lc = true ∨ (sameSet bT ((groups aT (aT.map sz) bT (bT.map sz) out).bat ++
              (groups aT (aT.map sz) bT (bT.map sz) out).con ++
              (groups aT (aT.map sz) bT (bT.map sz) out).bKeep) = true →
            bT.length = ((groups aT (aT.map sz) bT (bT.map sz) out).bat ++
              (groups aT (aT.map sz) bT (bT.map sz) out).con ++
              (groups aT (aT.map sz) bT (bT.map sz) out).bKeep).length))
    {a b : FArr} (hsa : a.shape = aT.map sz) (hsb : b.shape = bT.map sz)
    (hne : (groups aT (aT.map sz) bT (bT.map sz) out).con.isEmpty = false) :
    ∃ plan r, parseBmm lc aT bT out (aT.map sz) (bT.map sz) = some plan ∧
      evalPlan plan a b = some r ∧
      Lab sz out r fun env =>
        sumEnv sz (groups aT (aT.map sz) bT (bT.map sz) out).con env fun e =>
          sumEnv sz (scan aT ((groups aT (aT.map sz) bT (bT.map sz) out).bat ++
              (groups aT (aT.map sz) bT (bT.map sz) out).aKeep ++
              (groups aT (aT.map sz) bT (bT.map sz) out).con)).2 e (fun e' => a.get (aT.map e')) *
          sumEnv sz (scan bT ((groups aT (aT.map sz) bT (bT.map sz) out).bat ++
              (groups aT (aT.map sz) bT (bT.map sz) out).con ++
              (groups aT (aT.map sz) bT (bT.map sz) out).bKeep)).2 e (fun e' => b.get (bT.map e')) := by
  obtain ⟨sizes, hs1, hs2⟩ := sizesOf_consistent sz aT bT
  -- facts about the groups, then forget how they were computed
  have hbat := fun i => @mem_bat sz aT bT out i
  have hcon := fun i => @mem_con sz aT bT out i
  have hak := fun i => @mem_aKeep sz aT bT out i
  have hbk := fun i => @mem_bKeep sz aT bT out i
  obtain ⟨hn1, hn2, hn3, hn4⟩ := nodup_groups (sz := sz) (aT := aT) (bT := bT) (out := out)
  obtain ⟨hndA, hndB⟩ := nodup_desired (sz := sz) (aT := aT) (bT := bT) (out := out)
  have hsing : ∀ i, i ∈ out.filter (has (singlesSet aT (aT.map sz) bT (bT.map sz)))
      ↔ i ∈ out ∧ (i ∈ aT ∨ i ∈ bT) ∧ sz i = 1 := by
    intro i
    simp only [List.mem_filter, has, List.contains_iff_mem, mem_singlesSet]
  have hsingn : (out.filter (has (singlesSet aT (aT.map sz) bT (bT.map sz)))).Nodup :=
    hout.filter _
  generalize hG : groups aT (aT.map sz) bT (bT.map sz) out = G at *
  obtain ⟨bat, con, aKeep, bKeep⟩ := G
  simp only at hbat hcon hak hbk hn1 hn2 hn3 hn4 hndA hndB hne hga hgb ⊢
  generalize hS : out.filter (has (singlesSet aT (aT.map sz) bT (bT.map sz))) = singles at *
  -- the produced order
  have hprod_assoc : singles ++ bat ++ aKeep ++ bKeep = singles ++ (bat ++ aKeep ++ bKeep) := by
    simp [List.append_assoc]
  have hmem_prod : ∀ i, i ∈ singles ++ bat ++ aKeep ++ bKeep ↔ i ∈ out := by
    intro i
    simp only [List.mem_append, hsing, hbat, hak, hbk]
    constructor
    · rintro (((h | h) | h) | h)
      · exact h.1
      · exact h.2.2
      · exact h.2.2
      · exact h.2.2
    · intro ho
      by_cases h1 : sz i = 1
      · exact Or.inl (Or.inl (Or.inl ⟨ho, hsub i ho, h1⟩))
      · by_cases ha : i ∈ aT
        · by_cases hb : i ∈ bT
          · exact Or.inl (Or.inl (Or.inr ⟨⟨ha, h1⟩, hb, ho⟩))
          · exact Or.inl (Or.inr ⟨⟨ha, h1⟩, hb, ho⟩)
        · have hb : i ∈ bT := (hsub i ho).resolve_left ha
          exact Or.inr ⟨⟨hb, h1⟩, ha, ho⟩
  have hnd_prod : (singles ++ bat ++ aKeep ++ bKeep).Nodup := by
    rw [hprod_assoc]
    refine List.nodup_append.2 ⟨hsingn, ?_, ?_⟩
    · apply nodup_append3 hn1 hn3 hn4
      · intro i h1 h2; exact ((hak i).1 h2).2.1 ((hbat i).1 h1).2.1
      · intro i h1 h2; exact ((hbk i).1 h2).2.1 ((hbat i).1 h1).1.1
      · intro i h1 h2; exact ((hbk i).1 h2).2.1 ((hak i).1 h1).1.1
    · intro x hx y hy hxy
      subst hxy
      have h1 := ((hsing x).1 hx).2.2
      simp only [List.mem_append, hbat, hak, hbk] at hy
      rcases hy with (h | h) | h
      · exact h.1.2 h1
      · exact h.1.2 h1
      · exact h.1.2 h1
  have hall : out.all (has (singles ++ bat ++ aKeep ++ bKeep)) = true := by
    simp only [List.all_eq_true, has, List.contains_iff_mem]
    exact fun o ho => (hmem_prod o).2 ho
  rw [parseBmm_bmm (by simp) (by simp) hs1 hG hne hS hall]
  -- prepare the operands
  obtain ⟨a1, ha1, hla1⟩ := prep_lab (sz := sz) lc hsa hndA (by
    intro o ho
    simp only [List.mem_append, hbat, hak, hcon] at ho
    rcases ho with (h | h) | h <;> exact h.1.1) hga
  obtain ⟨b1, hb1, hlb1⟩ := prep_lab (sz := sz) lc hsb hndB (by
    intro o ho
    simp only [List.mem_append, hbat, hbk, hcon] at ho
    rcases ho with (h | h) | h
    · exact h.2.1
    · exact h.2.1
    · exact h.1.1) hgb
  obtain ⟨a2, ha2, hra2⟩ := fuse_lab hla1 (sizes := sizes) (lg_flatten bat aKeep con) (by
    intro i hi
    simp only [List.mem_append, hbat, hak, hcon] at hi
    rcases hi with (h | h) | h <;> exact hs2 i (Or.inl h.1.1) h.1.2)
  obtain ⟨b2, hb2, hrb2⟩ := fuse_lab hlb1 (sizes := sizes) (rg_flatten bat con bKeep) (by
    intro i hi
    simp only [List.mem_append, hbat, hbk, hcon] at hi
    rcases hi with (h | h) | h
    · exact hs2 i (Or.inl h.1.1) h.1.2
    · exact hs2 i (Or.inl h.1.1) h.1.2
    · exact hs2 i (Or.inr h.1.1) h.1.2)
  -- multiply
  obtain ⟨ab, hab, hrab⟩ := matmul_og hra2 hrb2 hn2
    (fun i h1 h2 => ((hcon i).1 h2).2.2 ((hbat i).1 h1).2.2)
    (fun i h1 h2 => ((hak i).1 h1).2.1 ((hcon i).1 h2).2.1)
    (fun i h1 h2 => ((hbk i).1 h1).2.1 ((hcon i).1 h2).1.1)
  -- unfuse and permute
  obtain ⟨ab1, hab1, hlab1⟩ := unfuse_lab hrab (sizes := sizes) (singles := singles)
    (fun i hi => ((hsing i).1 hi).2.2) (by
      intro i hi
      rw [og_flatten] at hi
      simp only [List.mem_append, hbat, hak, hbk] at hi
      rcases hi with (h | h) | h
      · exact hs2 i (Or.inl h.1.1) h.1.2
      · exact hs2 i (Or.inl h.1.1) h.1.2
      · exact hs2 i (Or.inr h.1.1) h.1.2)
  rw [og_flatten, ← hprod_assoc] at hlab1
  obtain ⟨r, hr, hlr⟩ := final_perm_lab hlab1 hnd_prod hout (fun o ho => (hmem_prod o).2 ho)
    (fun i hi => (hmem_prod i).1 hi)
  refine ⟨_, r, rfl, ?_, hlr⟩
  simp only [evalPlan, ha1, Option.bind_some, ha2, hb1, hb2, Bool.false_eq_true, ↓reduceIte, hab,
    hab1]
  exact hr


/-- `out_produced = singletons + bat + a_keep + b_keep` lists every output label exactly once -/
theorem produced_spec {sz : Ix → Nat} {aT bT out : List Ix} (hout : out.Nodup)
    (hsub : ∀ o ∈ out, o ∈ aT ∨ o ∈ bT) :
    (∀ i, i ∈ out.filter (has (singlesSet aT (aT.map sz) bT (bT.map sz))) ++
        (groups aT (aT.map sz) bT (bT.map sz) out).bat ++
        (groups aT (aT.map sz) bT (bT.map sz) out).aKeep ++
        (groups aT (aT.map sz) bT (bT.map sz) out).bKeep ↔ i ∈ out) ∧
    (out.filter (has (singlesSet aT (aT.map sz) bT (bT.map sz))) ++
        (groups aT (aT.map sz) bT (bT.map sz) out).bat ++
        (groups aT (aT.map sz) bT (bT.map sz) out).aKeep ++
        (groups aT (aT.map sz) bT (bT.map sz) out).bKeep).Nodup := by
  have hbat := fun i => @mem_bat sz aT bT out i
  have hak := fun i => @mem_aKeep sz aT bT out i
  have hbk := fun i => @mem_bKeep sz aT bT out i
  obtain ⟨hn1, _, hn3, hn4⟩ := nodup_groups (sz := sz) (aT := aT) (bT := bT) (out := out)
  have hsing : ∀ i, i ∈ out.filter (has (singlesSet aT (aT.map sz) bT (bT.map sz)))
      ↔ i ∈ out ∧ (i ∈ aT ∨ i ∈ bT) ∧ sz i = 1 := by
    intro i
    simp only [List.mem_filter, has, List.contains_iff_mem, mem_singlesSet]
  have hsingn : (out.filter (has (singlesSet aT (aT.map sz) bT (bT.map sz)))).Nodup :=
    hout.filter _
  generalize hG : groups aT (aT.map sz) bT (bT.map sz) out = G at *
  obtain ⟨bat, con, aKeep, bKeep⟩ := G
  simp only at hbat hak hbk hn1 hn3 hn4 ⊢
  generalize hS : out.filter (has (singlesSet aT (aT.map sz) bT (bT.map sz))) = singles at *
  have hprod_assoc : singles ++ bat ++ aKeep ++ bKeep = singles ++ (bat ++ aKeep ++ bKeep) := by
    simp [List.append_assoc]
  constructor
  · intro i
    simp only [List.mem_append, hsing, hbat, hak, hbk]
    constructor
    · rintro (((h | h) | h) | h)
      · exact h.1
      · exact h.2.2
      · exact h.2.2
      · exact h.2.2
    · intro ho
      by_cases h1 : sz i = 1
      · exact Or.inl (Or.inl (Or.inl ⟨ho, hsub i ho, h1⟩))
      · by_cases ha : i ∈ aT
        · by_cases hb : i ∈ bT
          · exact Or.inl (Or.inl (Or.inr ⟨⟨ha, h1⟩, hb, ho⟩))
          · exact Or.inl (Or.inr ⟨⟨ha, h1⟩, hb, ho⟩)
        · have hb : i ∈ bT := (hsub i ho).resolve_left ha
          exact Or.inr ⟨⟨hb, h1⟩, ha, ho⟩
  · rw [hprod_assoc]
    refine List.nodup_append.2 ⟨hsingn, ?_, ?_⟩
    · apply nodup_append3 hn1 hn3 hn4
      · intro i h1 h2; exact ((hak i).1 h2).2.1 ((hbat i).1 h1).2.1
      · intro i h1 h2; exact ((hbk i).1 h2).2.1 ((hbat i).1 h1).1.1
      · intro i h1 h2; exact ((hbk i).1 h2).2.1 ((hak i).1 h1).1.1
    · intro x hx y hy hxy
      subst hxy
      have h1 := ((hsing x).1 hx).2.2
      simp only [List.mem_append, hbat, hak, hbk] at hy
      rcases hy with (h | h) | h
      · exact h.1.2 h1
      · exact h.1.2 h1
      · exact h.1.2 h1

theorem isPermOf_map_idxOf {t out : List Ix} (ht : t.Nodup) (ho : out.Nodup)
    (h1 : ∀ o ∈ out, o ∈ t) (h2 : ∀ i ∈ t, i ∈ out) :
    isPermOf (out.map t.idxOf) t.length = true := by
  have hperm : out.Perm t := (List.perm_ext_iff_of_nodup ho ht).2 fun a => ⟨h1 a, h2 a⟩
  simp only [isPermOf, List.length_map, hperm.length_eq, beq_self_eq_true, Bool.true_and,
    List.all_eq_true, List.mem_range, List.contains_iff_mem, List.mem_map]
  intro j hj
  exact ⟨t[j], h2 _ (List.getElem_mem hj), idxOf_getElem_nodup ht hj⟩

end Cotengra.Bmm
