import CotengraVerif.Lemmas.ExtractOK

/-!
  `ChildrenFirst` (defined through the inductive schedule `Sched`) covers every traversal that
  is children-first in the plain positional sense (`ChildrenEarlier`): it lists exactly the
  internal nodes and every child that is itself a node occurs earlier in the list.
-/
namespace Cotengra

/-- positional definition of a children-first traversal -/
def ChildrenEarlier (t : BT) (order : List BT) : Prop :=
  order.Perm t.internal ∧
  ∀ pre post l r, order = pre ++ BT.node l r :: post →
    (∀ a b, l = BT.node a b → l ∈ pre) ∧ (∀ a b, r = BT.node a b → r ∈ pre)

theorem Sched.frame {av o fin : List BT} (ex : List BT) (h : Sched av o fin) :
    Sched (av ++ ex) o (fin ++ ex) := by
  induction h with
  | nil h => exact Sched.nil (h.append_right ex)
  | step h _ ih => exact Sched.step (h.append_right ex) ih

inductive Interleave : List BT → List BT → List BT → Prop
  | nil : Interleave [] [] []
  | left {x : BT} {o oa ob : List BT} : Interleave o oa ob → Interleave (x :: o) (x :: oa) ob
  | right {x : BT} {o oa ob : List BT} : Interleave o oa ob → Interleave (x :: o) oa (x :: ob)

/-- schedules over disjoint pools of available nodes can be interleaved arbitrarily -/
theorem sched_interleave {o oa ob : List BT} (hi : Interleave o oa ob) :
    ∀ {A B FA FB : List BT}, Sched A oa FA → Sched B ob FB → Sched (A ++ B) o (FA ++ FB) := by
  induction hi with
  | nil =>
    intro A B FA FB ha hb
    cases ha with
    | nil h1 =>
      cases hb with
      | nil h2 => exact Sched.nil (h1.append h2)
  | left _ ih =>
    intro A B FA FB ha hb
    cases ha with
    | step h hs => exact Sched.step (h.append_right B) (ih hs hb)
  | right _ ih =>
    intro A B FA FB ha hb
    cases hb with
    | @step _ B0 _ _ l r h hs =>
      have hp : (A ++ B).Perm (l :: r :: (A ++ B0)) := by
        refine (List.Perm.append_left A h).trans ?_
        exact (List.perm_middle).trans ((List.perm_middle).cons l)
      exact Sched.step hp (Sched.perm List.perm_middle.symm (ih ha hs))

theorem interleave_filter (p : BT → Bool) (o : List BT) :
    Interleave o (o.filter p) (o.filter fun x => !p x) := by
  induction o with
  | nil => exact Interleave.nil
  | cons x xs ih =>
    cases hp : p x
    · simp only [List.filter_cons, hp, Bool.false_eq_true, if_false, Bool.not_false, if_true]
      exact Interleave.right ih
    · simp only [List.filter_cons, hp, if_true, Bool.not_true, Bool.false_eq_true, if_false]
      exact Interleave.left ih

/-- in a positional children-first list every internal descendant of a node precedes it -/
theorem descendants_earlier {order : List BT}
    (h : ∀ pre post l r, order = pre ++ BT.node l r :: post →
      (∀ a b, l = BT.node a b → l ∈ pre) ∧ (∀ a b, r = BT.node a b → r ∈ pre)) :
    ∀ (p : BT) (pre post : List BT), order = pre ++ p :: post →
      ∀ q ∈ p.internal, q = p ∨ q ∈ pre := by
  intro p
  induction p with
  | leaf i => intro pre post _ q hq; cases hq
  | node l r ihl ihr =>
    intro pre post e q hq
    simp only [BT.internal, List.mem_append, List.mem_singleton] at hq
    rcases hq with (hq | hq) | hq
    · cases l with
      | leaf i => cases hq
      | node a b =>
        have hl := (h pre post _ _ e).1 a b rfl
        obtain ⟨pre1, post1, rfl⟩ := List.append_of_mem hl
        have e' : order = pre1 ++ BT.node a b :: (post1 ++ BT.node (.node a b) r :: post) := by
          rw [e]; simp
        rcases ihl pre1 _ e' q hq with rfl | hq'
        · exact Or.inr (by simp)
        · exact Or.inr (by simp [hq'])
    · cases r with
      | leaf i => cases hq
      | node a b =>
        have hr := (h pre post _ _ e).2 a b rfl
        obtain ⟨pre1, post1, rfl⟩ := List.append_of_mem hr
        have e' : order = pre1 ++ BT.node a b :: (post1 ++ BT.node l (.node a b) :: post) := by
          rw [e]; simp
        rcases ihr pre1 _ e' q hq with rfl | hq'
        · exact Or.inr (by simp)
        · exact Or.inr (by simp [hq'])
    · exact Or.inl hq

theorem internal_nodup (t : BT) (h : t.leaves.Nodup) : t.internal.Nodup := by
  induction t with
  | leaf i => simp [BT.internal]
  | node a b iha ihb =>
    have hd := List.nodup_append.1 h
    simp only [BT.internal]
    rw [List.nodup_append]
    refine ⟨?_, by simp, ?_⟩
    · rw [List.nodup_append]
      refine ⟨iha hd.1, ihb hd.2.1, ?_⟩
      intro x hx y hy e
      subst e
      have h1 := (C03.internal_leaves_sublist a x hx).subset
      have h2 := (C03.internal_leaves_sublist b x hy).subset
      cases hl : x.leaves with
      | nil => exact BT.leaves_ne_nil x hl
      | cons v _ =>
        have hv : v ∈ x.leaves := by rw [hl]; simp
        exact hd.2.2 v (h1 hv) v (h2 hv) rfl
    · intro x hx y hy e
      simp only [List.mem_singleton] at hy
      subst hy
      subst e
      rcases List.mem_append.1 hx with hx | hx
      · have := (C03.internal_leaves_sublist a _ hx).length_le
        simp only [BT.leaves, List.length_append] at this
        have := leaves_length_pos b
        omega
      · have := (C03.internal_leaves_sublist b _ hx).length_le
        simp only [BT.leaves, List.length_append] at this
        have := leaves_length_pos a
        omega

/-- restricting a positional children-first list to the nodes of one subtree -/
theorem earlier_filter (order pre tail : List BT) (sub : BT) (p : BT → Bool)
    (h : ∀ pre post l r, order = pre ++ BT.node l r :: post →
      (∀ a b, l = BT.node a b → l ∈ pre) ∧ (∀ a b, r = BT.node a b → r ∈ pre))
    (hord : order = pre ++ tail) (hperm : (pre.filter p).Perm sub.internal)
    (hp : ∀ s ∈ sub.internal, p s = true) : ChildrenEarlier sub (pre.filter p) := by
  refine ⟨hperm, ?_⟩
  intro pa qa l r e
  obtain ⟨l₁, l₂, hpre, hf1, hf2⟩ := List.filter_eq_append_iff.1 e
  obtain ⟨m₁, m₂, hl2, hm1, _, _⟩ := List.filter_eq_cons_iff.1 hf2
  have hmem : BT.node l r ∈ sub.internal := hperm.mem_iff.1 (by rw [e]; simp)
  have e' : order = (l₁ ++ m₁) ++ BT.node l r :: (m₂ ++ tail) := by
    rw [hord, hpre, hl2]; simp
  have hh := h _ _ l r e'
  constructor
  · intro a b hl
    have hin := hh.1 a b hl
    have hpl : p l = true := hp l (internal_child_left sub l r hmem a b hl)
    rcases List.mem_append.1 hin with h1 | h1
    · rw [← hf1]; exact List.mem_filter.2 ⟨h1, hpl⟩
    · exact absurd hpl (hm1 l h1)
  · intro a b hr
    have hin := hh.2 a b hr
    have hpr : p r = true := hp r (internal_child_right sub l r hmem a b hr)
    rcases List.mem_append.1 hin with h1 | h1
    · rw [← hf1]; exact List.mem_filter.2 ⟨h1, hpr⟩
    · exact absurd hpr (hm1 r h1)

theorem sched_of_earlier : ∀ (t : BT) (order : List BT), t.leaves.Nodup →
    ChildrenEarlier t order → Sched (t.leaves.map BT.leaf) order [t] := by
  intro t
  induction t with
  | leaf i =>
    intro order _ h
    have : order = [] := List.perm_nil.1 (by simpa [BT.internal] using h.1)
    subst this
    exact Sched.nil (List.Perm.refl _)
  | node a b iha ihb =>
    intro order hnd h
    obtain ⟨hperm, hce⟩ := h
    have hd := List.nodup_append.1 hnd
    have hordnd : order.Nodup := hperm.nodup_iff.2 (internal_nodup _ hnd)
    have ht : BT.node a b ∈ order := hperm.mem_iff.2 (by simp [BT.internal])
    obtain ⟨pre, post, rfl⟩ := List.append_of_mem ht
    -- the root is last
    have hpost : post = [] := by
      cases post with
      | nil => rfl
      | cons x xs =>
        exfalso
        have hx : x ∈ (BT.node a b).internal := hperm.mem_iff.1 (by simp)
        have hnd' := List.nodup_append.1 hordnd
        rcases descendants_earlier hce _ pre (x :: xs) rfl x hx with e | e
        · subst e
          have := (List.nodup_cons.1 hnd'.2.1).1
          exact this (by simp)
        · exact hnd'.2.2 x e x (by simp) rfl
    subst hpost
    have hperm' : pre.Perm (a.internal ++ b.internal) := by
      have : (pre ++ [BT.node a b]).Perm ((a.internal ++ b.internal) ++ [BT.node a b]) := by
        simpa [BT.internal] using hperm
      exact (List.perm_append_right_iff _).1 this
    -- split by "all leaves under a"
    let p : BT → Bool := fun s => s.leaves.all fun x => a.leaves.contains x
    have hpa : ∀ s ∈ a.internal, p s = true := by
      intro s hs
      simp only [p, List.all_eq_true, List.contains_iff_mem]
      exact fun x hx => (C03.internal_leaves_sublist a s hs).subset hx
    have hpb : ∀ s ∈ b.internal, p s = false := by
      intro s hs
      cases hl : s.leaves with
      | nil => exact absurd hl (BT.leaves_ne_nil s)
      | cons v vs =>
        have hv : v ∈ b.leaves := (C03.internal_leaves_sublist b s hs).subset (by rw [hl]; simp)
        have hva : v ∉ a.leaves := fun hva => hd.2.2 v hva v hv rfl
        simp only [p, hl, List.all_cons, List.contains_iff_mem]
        simp [hva]
    have hoa : (pre.filter p).Perm a.internal := by
      refine (hperm'.filter p).trans (List.Perm.of_eq ?_)
      rw [List.filter_append, List.filter_eq_self.2 hpa,
        List.filter_eq_nil_iff.2 (fun s hs => by simp [hpb s hs])]
      simp
    have hob : (pre.filter fun x => !p x).Perm b.internal := by
      refine (hperm'.filter _).trans (List.Perm.of_eq ?_)
      rw [List.filter_append, List.filter_eq_nil_iff.2 (fun s hs => by simp [hpa s hs]),
        List.filter_eq_self.2 (fun s hs => by simp [hpb s hs])]
      simp
    have cea := earlier_filter _ pre [BT.node a b] a p hce rfl hoa hpa
    have ceb := earlier_filter _ pre [BT.node a b] b (fun x => !p x) hce rfl hob
      (fun s hs => by simp [hpb s hs])
    have sa := iha _ hd.1 cea
    have sb := ihb _ hd.2.1 ceb
    have s1 : Sched (a.leaves.map BT.leaf ++ b.leaves.map BT.leaf) pre ([a] ++ [b]) :=
      sched_interleave (interleave_filter p pre) sa sb
    have s2 : Sched ([a] ++ [b]) [BT.node a b] [BT.node a b] :=
      Sched.step (List.Perm.refl _) (Sched.nil (List.Perm.refl _))
    simp only [BT.leaves, List.map_append]
    exact s1.append s2

/-- **every positional children-first traversal is covered by `ChildrenFirst`** -/
theorem childrenFirst_of_childrenEarlier (t : BT) (order : List BT) (hnd : t.leaves.Nodup)
    (h : ChildrenEarlier t order) : ChildrenFirst t order :=
  ⟨h.1, sched_of_earlier t order hnd h⟩

end Cotengra
