import CotengraVerif.Lemmas.PathsBasic

/-!
  Facts about the nodes of a binary tree with distinct leaves: all subtrees are distinct.
-/
namespace Cotengra.Paths
open Cotengra

/-- all subtrees, children first, root last -/
def allNodes : BT → List BT
  | .leaf i => [.leaf i]
  | .node l r => allNodes l ++ allNodes r ++ [.node l r]

def properInternal : BT → List BT
  | .leaf _ => []
  | .node l r => l.internal ++ r.internal

theorem internal_eq (l r : BT) : (BT.node l r).internal = properInternal (.node l r) ++ [.node l r] := rfl

theorem leaves_ne_nil (t : BT) : t.leaves ≠ [] := by
  induction t with
  | leaf i => simp [BT.leaves]
  | node l r ihl _ => simp [BT.leaves, ihl]

theorem leaves_length_pos (t : BT) : 0 < t.leaves.length :=
  List.length_pos_iff.2 (leaves_ne_nil t)

theorem mem_allNodes (t x : BT) (h : x ∈ allNodes t) :
    (∀ i ∈ x.leaves, i ∈ t.leaves) ∧ x.leaves.length ≤ t.leaves.length := by
  induction t with
  | leaf i =>
    simp only [allNodes, List.mem_singleton] at h
    subst h; exact ⟨fun _ h => h, Nat.le_refl _⟩
  | node l r ihl ihr =>
    simp only [allNodes, List.mem_append, List.mem_singleton] at h
    simp only [BT.leaves, List.mem_append, List.length_append]
    rcases h with (h | h) | h
    · have := ihl h; exact ⟨fun i hi => Or.inl (this.1 i hi), by omega⟩
    · have := ihr h; exact ⟨fun i hi => Or.inr (this.1 i hi), by omega⟩
    · subst h; exact ⟨fun i hi => by simpa [BT.leaves] using hi, by simp [BT.leaves]⟩

theorem internal_sublist_allNodes (t : BT) : t.internal.Sublist (allNodes t) := by
  induction t with
  | leaf i => simp [BT.internal]
  | node l r ihl ihr =>
    simp only [BT.internal, allNodes]
    exact List.Sublist.append (List.Sublist.append ihl ihr) (List.Sublist.refl _)

theorem allNodes_nodup (t : BT) (h : t.leaves.Nodup) : (allNodes t).Nodup := by
  induction t with
  | leaf i => simp [allNodes]
  | node l r ihl ihr =>
    simp only [BT.leaves] at h
    have hd := List.nodup_append.1 h
    simp only [allNodes]
    rw [List.nodup_append]
    refine ⟨?_, by simp, ?_⟩
    · rw [List.nodup_append]
      refine ⟨ihl hd.1, ihr hd.2.1, ?_⟩
      intro x hx y hy hxy
      subst hxy
      have h1 := mem_allNodes l x hx
      have h2 := mem_allNodes r x hy
      obtain ⟨i, hi⟩ := List.exists_mem_of_ne_nil _ (leaves_ne_nil x)
      exact hd.2.2 i (h1.1 i hi) i (h2.1 i hi) rfl
    · intro x hx y hy hxy
      simp only [List.mem_singleton] at hy
      subst hy; subst hxy
      have hl := leaves_length_pos l
      have hr := leaves_length_pos r
      rcases List.mem_append.1 hx with hx | hx
      · have := (mem_allNodes l _ hx).2
        simp only [BT.leaves, List.length_append] at this; omega
      · have := (mem_allNodes r _ hx).2
        simp only [BT.leaves, List.length_append] at this; omega

theorem internal_nodup (t : BT) (h : t.leaves.Nodup) : t.internal.Nodup :=
  List.Nodup.sublist (internal_sublist_allNodes t) (allNodes_nodup t h)

/-- the internal nodes strictly below `x`: its internal children and what is strictly below them -/
theorem properInternal_perm (x : BT) :
    (properInternal x).Perm (ichildren x ++ (ichildren x).flatMap properInternal) := by
  cases x with
  | leaf i => simp [properInternal, ichildren]
  | node l r =>
    cases l with
    | leaf i =>
      cases r with
      | leaf j => simp [properInternal, ichildren, BT.internal]
      | node rl rr =>
        simp only [properInternal, ichildren, BT.internal, List.nil_append, List.flatMap_cons,
          List.flatMap_nil, List.append_nil, List.singleton_append]
        exact List.perm_append_singleton _ _
    | node ll lr =>
      cases r with
      | leaf j =>
        simp only [properInternal, ichildren, BT.internal, List.append_nil, List.flatMap_cons,
          List.flatMap_nil, List.singleton_append]
        exact List.perm_append_singleton _ _
      | node rl rr =>
        simp only [properInternal, ichildren, BT.internal, List.flatMap_cons, List.flatMap_nil,
          List.append_nil, List.cons_append, List.nil_append]
        -- (A ++ [L]) ++ (B ++ [R]) ~ L :: R :: (A ++ B)
        have h1 : ((ll.internal ++ lr.internal ++ [BT.node ll lr]) ++
            (rl.internal ++ rr.internal ++ [BT.node rl rr])).Perm
            ((BT.node ll lr :: (ll.internal ++ lr.internal)) ++
              (BT.node rl rr :: (rl.internal ++ rr.internal))) :=
          List.Perm.append (List.perm_append_singleton _ _) (List.perm_append_singleton _ _)
        refine h1.trans ?_
        simp only [List.cons_append]
        refine List.Perm.cons _ ?_
        exact (List.perm_middle).trans (List.Perm.refl _)

theorem ichildren_sub (x c : BT) (h : c ∈ ichildren x) : c ∈ properInternal x := by
  exact (properInternal_perm x).mem_iff.2 (List.mem_append_left _ h)

theorem ichildren_ne (x c : BT) (h : c ∈ ichildren x) : c ≠ x := by
  intro e
  subst e
  cases c with
  | leaf i => simp [ichildren] at h
  | node l r =>
    have hl := leaves_length_pos l
    have hr := leaves_length_pos r
    simp only [ichildren] at h
    rcases List.mem_append.1 h with h | h
    · cases l with
      | leaf i => simp at h
      | node a b =>
        simp only [List.mem_singleton] at h
        have := congrArg (fun t => t.leaves.length) h
        simp only [BT.leaves, List.length_append] at this hl hr
        omega
    · cases r with
      | leaf i => simp at h
      | node a b =>
        simp only [List.mem_singleton] at h
        have := congrArg (fun t => t.leaves.length) h
        simp only [BT.leaves, List.length_append] at this hl hr
        omega

end Cotengra.Paths
