import CotengraVerif.Lemmas.SimsAnneal
import CotengraVerif.Props.C03

/-!
  The `ContractionProcessor` rule (path_basic.py:56-118): sorted merge of `(ix, count)` legs.
-/
namespace Cotengra
namespace Proc
open Legs

/-- strictly increasing index numbers -/
def Sorted (l : PLegs) : Prop := l.Pairwise (fun a b => a.1 < b.1)

theorem sorted_nodup (l : PLegs) (h : Sorted l) : (keys l).Nodup := by
  unfold keys
  rw [List.nodup_iff_pairwise_ne, List.pairwise_map]
  exact h.imp (fun hab => Nat.ne_of_lt hab)

theorem sorted_tail {a : Nat × Nat} {l : PLegs} (h : Sorted (a :: l)) : Sorted l :=
  (List.pairwise_cons.1 h).2

theorem sorted_head_lt {a : Nat × Nat} {l : PLegs} (h : Sorted (a :: l)) : ∀ b ∈ l, a.1 < b.1 :=
  (List.pairwise_cons.1 h).1

theorem not_mem_of_lt (l : PLegs) (x : Nat) (h : ∀ b ∈ l, x < b.1) : x ∉ keys l := by
  intro hm
  obtain ⟨b, hb, rfl⟩ := List.mem_map.1 hm
  exact Nat.lt_irrefl _ (h b hb)

/-- all keys of the result come from the operands, and a lower bound on the keys is kept -/
theorem contractedAux_lb (app : Nat → Nat) (f : Nat) (a b : PLegs) (m : Nat)
    (ha : ∀ x ∈ a, m < x.1) (hb : ∀ x ∈ b, m < x.1) : ∀ x ∈ contractedAux app f a b, m < x.1 := by
  induction f generalizing a b with
  | zero => intro x hx; simp [contractedAux] at hx
  | succ f ih =>
    cases a with
    | nil => simpa [contractedAux] using hb
    | cons ia ta =>
      cases b with
      | nil => simpa [contractedAux] using ha
      | cons jb tb =>
        obtain ⟨iix, ic⟩ := ia
        obtain ⟨jix, jc⟩ := jb
        have hta : ∀ x ∈ ta, m < x.1 := fun x hx => ha x (List.mem_cons_of_mem _ hx)
        have htb : ∀ x ∈ tb, m < x.1 := fun x hx => hb x (List.mem_cons_of_mem _ hx)
        have hi := ha (iix, ic) List.mem_cons_self
        have hj := hb (jix, jc) List.mem_cons_self
        simp only [contractedAux]
        split
        · intro x hx
          rcases List.mem_cons.1 hx with e | e
          · subst e; exact hi
          · exact ih ta ((jix, jc) :: tb) hta hb x e
        · split
          · intro x hx
            rcases List.mem_cons.1 hx with e | e
            · subst e; exact hj
            · exact ih ((iix, ic) :: ta) tb ha htb x e
          · split
            · intro x hx
              rcases List.mem_cons.1 hx with e | e
              · subst e; exact hi
              · exact ih ta tb hta htb x e
            · exact ih ta tb hta htb

theorem contractedAux_sorted (app : Nat → Nat) (f : Nat) (a b : PLegs) (ha : Sorted a) (hb : Sorted b) :
    Sorted (contractedAux app f a b) := by
  induction f generalizing a b with
  | zero => simp [contractedAux, Sorted]
  | succ f ih =>
    cases a with
    | nil => simpa [contractedAux] using hb
    | cons ia ta =>
      cases b with
      | nil => simpa [contractedAux] using ha
      | cons jb tb =>
        obtain ⟨iix, ic⟩ := ia
        obtain ⟨jix, jc⟩ := jb
        simp only [contractedAux]
        split
        · rename_i hlt
          apply List.pairwise_cons.2
          refine ⟨?_, ih ta _ (sorted_tail ha) hb⟩
          apply contractedAux_lb app f ta _ iix (sorted_head_lt ha)
          intro x hx
          rcases List.mem_cons.1 hx with e | e
          · subst e; exact hlt
          · exact Nat.lt_trans hlt (sorted_head_lt hb x e)
        · split
          · rename_i _ hlt
            apply List.pairwise_cons.2
            refine ⟨?_, ih _ tb ha (sorted_tail hb)⟩
            apply contractedAux_lb app f _ tb jix _ (sorted_head_lt hb)
            intro x hx
            rcases List.mem_cons.1 hx with e | e
            · subst e; exact hlt
            · exact Nat.lt_trans hlt (sorted_head_lt ha x e)
          · rename_i h1 h2
            have heq : iix = jix := by omega
            split
            · apply List.pairwise_cons.2
              refine ⟨?_, ih ta tb (sorted_tail ha) (sorted_tail hb)⟩
              apply contractedAux_lb app f ta tb iix (sorted_head_lt ha)
              intro x hx; rw [heq]; exact sorted_head_lt hb x hx
            · exact ih ta tb (sorted_tail ha) (sorted_tail hb)

theorem contractedAux_pos (app : Nat → Nat) (f : Nat) (a b : PLegs) (ha : Pos a) (hb : Pos b) :
    Pos (contractedAux app f a b) := by
  induction f generalizing a b with
  | zero => intro x hx; simp [contractedAux] at hx
  | succ f ih =>
    cases a with
    | nil => simpa [contractedAux] using hb
    | cons ia ta =>
      cases b with
      | nil => simpa [contractedAux] using ha
      | cons jb tb =>
        obtain ⟨iix, ic⟩ := ia
        obtain ⟨jix, jc⟩ := jb
        have hta : Pos ta := fun x hx => ha x (List.mem_cons_of_mem _ hx)
        have htb : Pos tb := fun x hx => hb x (List.mem_cons_of_mem _ hx)
        have hi : 0 < ic := ha (iix, ic) List.mem_cons_self
        have hj : 0 < jc := hb (jix, jc) List.mem_cons_self
        simp only [contractedAux]
        split
        · intro x hx
          rcases List.mem_cons.1 hx with e | e
          · subst e; exact hi
          · exact ih ta _ hta hb x e
        · split
          · intro x hx
            rcases List.mem_cons.1 hx with e | e
            · subst e; exact hj
            · exact ih _ tb ha htb x e
          · split
            · intro x hx
              rcases List.mem_cons.1 hx with e | e
              · subst e; show 0 < ic + jc; omega
              · exact ih ta tb hta htb x e
            · exact ih ta tb hta htb

theorem has_cons_self (k v : Nat) (t : Legs) : has ((k, v) :: t) k = true := by simp [has]
theorem has_cons_ne (k v : Nat) (t : Legs) (x : Nat) (h : k ≠ x) : has ((k, v) :: t) x = has t x := by
  have : (k == x) = false := by simpa using h
  simp [has, this]
theorem has_false_of_not_mem (L : Legs) (x : Nat) (h : x ∉ keys L) : has L x = false := by
  have : ¬ has L x = true := fun e => h ((has_iff_mem L x).1 e)
  simpa using this

/-- the rule of `compute_contracted` as a function of the two counts -/
def mergeSpec (app : Nat → Nat) (a b : PLegs) (x : Nat) : Nat :=
  if has a x && has b x then (if get a x + get b x ≠ app x then get a x + get b x else 0)
  else get a x + get b x

theorem mergeSpec_cons_left_ne (app : Nat → Nat) (k v : Nat) (a b : PLegs) (x : Nat) (h : k ≠ x) :
    mergeSpec app ((k, v) :: a) b x = mergeSpec app a b x := by
  unfold mergeSpec; rw [has_cons_ne k v a x h, get_cons_ne k v a x h]

theorem mergeSpec_cons_right_ne (app : Nat → Nat) (k v : Nat) (a b : PLegs) (x : Nat) (h : k ≠ x) :
    mergeSpec app a ((k, v) :: b) x = mergeSpec app a b x := by
  unfold mergeSpec; rw [has_cons_ne k v b x h, get_cons_ne k v b x h]

/-- **the processor's survival rule, pointwise**: an index on one operand only keeps its count; a
    shared index keeps the summed count unless that reaches its number of appearances. -/
theorem contractedAux_get (app : Nat → Nat) (f : Nat) (a b : PLegs) (ha : Sorted a) (hb : Sorted b)
    (hf : a.length + b.length < f) (x : Nat) :
    get (contractedAux app f a b) x = mergeSpec app a b x := by
  induction f generalizing a b with
  | zero => omega
  | succ f ih =>
    cases a with
    | nil => simp [contractedAux, mergeSpec, has]
    | cons ia ta =>
      cases b with
      | nil => simp [contractedAux, mergeSpec, has]
      | cons jb tb =>
        obtain ⟨iix, ic⟩ := ia
        obtain ⟨jix, jc⟩ := jb
        have hla : ∀ y ∈ ta, iix < y.1 := sorted_head_lt ha
        have hlb : ∀ y ∈ tb, jix < y.1 := sorted_head_lt hb
        have hnia : iix ∉ keys ta := not_mem_of_lt ta iix hla
        have hnjb : jix ∉ keys tb := not_mem_of_lt tb jix hlb
        simp only [List.length_cons] at hf
        simp only [contractedAux]
        split
        · -- iix < jix : index only on i
          rename_i hlt
          have hnib : iix ∉ keys ((jix, jc) :: tb) := by
            apply not_mem_of_lt
            intro y hy
            rcases List.mem_cons.1 hy with e | e
            · subst e; exact hlt
            · exact Nat.lt_trans hlt (hlb y e)
          have hrec := ih ta ((jix, jc) :: tb) (sorted_tail ha) hb (by simp only [List.length_cons]; omega)
          by_cases hx : iix = x
          · subst hx
            rw [get_cons_self]
            unfold mergeSpec
            rw [has_false_of_not_mem _ _ hnib, get_cons_self, get_eq_zero_of_not_mem _ _ hnib]
            simp
          · rw [get_cons_ne _ _ _ _ hx, hrec, mergeSpec_cons_left_ne app iix ic ta _ x hx]
        · split
          · rename_i _ hlt
            have hnja : jix ∉ keys ((iix, ic) :: ta) := by
              apply not_mem_of_lt
              intro y hy
              rcases List.mem_cons.1 hy with e | e
              · subst e; exact hlt
              · exact Nat.lt_trans hlt (hla y e)
            have hrec := ih ((iix, ic) :: ta) tb ha (sorted_tail hb) (by simp only [List.length_cons]; omega)
            by_cases hx : jix = x
            · subst hx
              rw [get_cons_self]
              unfold mergeSpec
              rw [has_false_of_not_mem _ _ hnja, get_cons_self, get_eq_zero_of_not_mem _ _ hnja]
              simp
            · rw [get_cons_ne _ _ _ _ hx, hrec, mergeSpec_cons_right_ne app jix jc _ tb x hx]
          · rename_i h1 h2
            have heq : iix = jix := by omega
            subst heq
            have hrec := ih ta tb (sorted_tail ha) (sorted_tail hb) (by omega)
            by_cases hx : iix = x
            · subst hx
              have hm : mergeSpec app ((iix, ic) :: ta) ((iix, jc) :: tb) iix =
                  if ic + jc ≠ app iix then ic + jc else 0 := by
                unfold mergeSpec
                rw [has_cons_self, has_cons_self, get_cons_self, get_cons_self]
                simp
              rw [hm]
              split
              · rw [get_cons_self]
              · rw [hrec]
                unfold mergeSpec
                rw [has_false_of_not_mem _ _ hnia, get_eq_zero_of_not_mem _ _ hnia,
                  get_eq_zero_of_not_mem _ _ hnjb]
                simp
            · have hm : mergeSpec app ((iix, ic) :: ta) ((iix, jc) :: tb) x = mergeSpec app ta tb x := by
                rw [mergeSpec_cons_left_ne app iix ic ta _ x hx, mergeSpec_cons_right_ne app iix jc ta tb x hx]
              rw [hm]
              split
              · rw [get_cons_ne _ _ _ _ hx, hrec]
              · exact hrec

theorem contracted_get (app : Nat → Nat) (a b : PLegs) (ha : Sorted a) (hb : Sorted b) (x : Nat) :
    get (contracted app a b) x = mergeSpec app a b x :=
  contractedAux_get app _ a b ha hb (by omega) x

theorem contracted_sorted (app : Nat → Nat) (a b : PLegs) (ha : Sorted a) (hb : Sorted b) :
    Sorted (contracted app a b) := contractedAux_sorted app _ a b ha hb

theorem contracted_pos (app : Nat → Nat) (a b : PLegs) (ha : Pos a) (hb : Pos b) :
    Pos (contracted app a b) := contractedAux_pos app _ a b ha hb

/-! ### sizes and flops as products over key lists -/

theorem size_eq_prod (sz : Nat → Nat) (l : PLegs) : size sz l = ((keys l).map sz).prod := by
  unfold size keys
  rw [List.prod_eq_foldl, List.map_map]
  generalize (1 : Nat) = acc
  induction l generalizing acc with
  | nil => rfl
  | cons a t ih => simp only [List.foldl_cons, List.map_cons, Function.comp]; exact ih _

theorem any_eq_contains (a : PLegs) (x : Nat) : (a.any fun kv' => kv'.1 == x) = (keys a).contains x := by
  induction a with
  | nil => rfl
  | cons h tl iha =>
    show (h.1 == x || tl.any fun kv' => kv'.1 == x) = (h.1 :: keys tl).contains x
    rw [iha, List.contains_cons, Bool.beq_comm]

theorem flops_eq_prod (sz : Nat → Nat) (a b : PLegs) :
    flops sz a b = ((keys a).map sz).prod * (((keys b).filter (fun x => !(keys a).contains x)).map sz).prod := by
  unfold flops
  simp only
  have h1 : a.foldl (fun acc kv => acc * sz kv.1) 1 = ((keys a).map sz).prod := size_eq_prod sz a
  rw [h1]
  generalize ((keys a).map sz).prod = acc
  induction b generalizing acc with
  | nil => simp [keys]
  | cons kv t ih =>
    simp only [List.foldl_cons]
    rw [any_eq_contains]
    have hk : keys (kv :: t) = kv.1 :: keys t := rfl
    rw [hk, List.filter_cons]
    by_cases hc : (keys a).contains kv.1 = true
    · simp only [hc, if_true, Bool.not_true, Bool.false_eq_true, if_false]
      exact ih acc
    · have hc' : (keys a).contains kv.1 = false := by simpa using hc
      simp only [hc', Bool.false_eq_true, if_false, Bool.not_false, if_true, List.map_cons, List.prod_cons]
      rw [ih, Nat.mul_assoc]

end Proc
end Cotengra
