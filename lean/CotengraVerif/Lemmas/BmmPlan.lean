import CotengraVerif.Lemmas.SinglePlan

/-!
  Facts about the two-operand planner `parseBmm` under consistent shapes
  (`shA = aT.map sz`, `shB = bT.map sz`): what the groups contain, that they are duplicate-free
  and disjoint, that the `sizes` dict agrees with `sz`, what `singletons` is.
-/
namespace Cotengra.Bmm
open Cotengra Cotengra.FA

theorem nontriv_map (sz : Ix → Nat) (t : List Ix) :
    nontriv t (t.map sz) = t.filter fun i => sz i != 1 := by
  simp only [nontriv, zip_map_self, List.filter_map, List.map_map]
  induction t with
  | nil => rfl
  | cons a r ih =>
    simp only [List.filter_cons, Function.comp]
    by_cases h : sz a = 1
    · simp only [h, bne_self_eq_false, Bool.false_eq_true, ↓reduceIte]; exact ih
    · have : (sz a != 1) = true := by simpa using h
      simp only [this, ↓reduceIte, List.map_cons, Function.comp, List.cons.injEq, true_and]
      exact ih

variable {sz : Ix → Nat} {aT bT out : List Ix}

theorem mem_aU {i : Ix} : i ∈ uniq (nontriv aT (aT.map sz)) ↔ i ∈ aT ∧ sz i ≠ 1 := by
  rw [mem_uniq, nontriv_map, List.mem_filter]; simp

/-- the four groups, by membership -/
theorem mem_bat {i : Ix} : i ∈ (groups aT (aT.map sz) bT (bT.map sz) out).bat ↔
    (i ∈ aT ∧ sz i ≠ 1) ∧ i ∈ bT ∧ i ∈ out := by
  simp only [groups, List.mem_filter, mem_aU, has, Bool.and_eq_true, List.contains_iff_mem]

theorem mem_con {i : Ix} : i ∈ (groups aT (aT.map sz) bT (bT.map sz) out).con ↔
    (i ∈ aT ∧ sz i ≠ 1) ∧ i ∈ bT ∧ i ∉ out := by
  simp only [groups, List.mem_filter, mem_aU, has, Bool.and_eq_true, List.contains_iff_mem,
    Bool.not_eq_eq_eq_not, Bool.not_true, List.contains_eq_mem, decide_eq_false_iff_not,
    decide_eq_true_eq]

theorem mem_aKeep {i : Ix} : i ∈ (groups aT (aT.map sz) bT (bT.map sz) out).aKeep ↔
    (i ∈ aT ∧ sz i ≠ 1) ∧ i ∉ bT ∧ i ∈ out := by
  simp only [groups, List.mem_filter, mem_aU, has, Bool.and_eq_true, List.contains_iff_mem,
    Bool.not_eq_eq_eq_not, Bool.not_true, List.contains_eq_mem, decide_eq_false_iff_not,
    decide_eq_true_eq]

theorem mem_bKeep {i : Ix} : i ∈ (groups aT (aT.map sz) bT (bT.map sz) out).bKeep ↔
    (i ∈ bT ∧ sz i ≠ 1) ∧ i ∉ aT ∧ i ∈ out := by
  simp only [groups, List.mem_filter, mem_aU, has, Bool.and_eq_true, List.contains_iff_mem,
    Bool.not_eq_eq_eq_not, Bool.not_true, List.contains_eq_mem, decide_eq_false_iff_not,
    decide_eq_true_eq]

theorem nodup_groups :
    (groups aT (aT.map sz) bT (bT.map sz) out).bat.Nodup ∧
    (groups aT (aT.map sz) bT (bT.map sz) out).con.Nodup ∧
    (groups aT (aT.map sz) bT (bT.map sz) out).aKeep.Nodup ∧
    (groups aT (aT.map sz) bT (bT.map sz) out).bKeep.Nodup :=
  ⟨(nodup_uniq _).filter _, (nodup_uniq _).filter _, (nodup_uniq _).filter _,
   (nodup_uniq _).filter _⟩

theorem nodup_append3 {l1 l2 l3 : List Ix} (h1 : l1.Nodup) (h2 : l2.Nodup) (h3 : l3.Nodup)
    (d12 : ∀ i ∈ l1, i ∉ l2) (d13 : ∀ i ∈ l1, i ∉ l3) (d23 : ∀ i ∈ l2, i ∉ l3) :
    (l1 ++ l2 ++ l3).Nodup := by
  refine List.nodup_append.2 ⟨List.nodup_append.2 ⟨h1, h2, ?_⟩, h3, ?_⟩
  · intro a ha b hb hab; subst hab; exact d12 a ha hb
  · intro a ha b hb hab
    subst hab
    rcases List.mem_append.1 ha with h | h
    · exact d13 a h hb
    · exact d23 a h hb

/-- `desired_a` and `desired_b` are duplicate-free -/
theorem nodup_desired :
    ((groups aT (aT.map sz) bT (bT.map sz) out).bat ++
      (groups aT (aT.map sz) bT (bT.map sz) out).aKeep ++
      (groups aT (aT.map sz) bT (bT.map sz) out).con).Nodup ∧
    ((groups aT (aT.map sz) bT (bT.map sz) out).bat ++
      (groups aT (aT.map sz) bT (bT.map sz) out).con ++
      (groups aT (aT.map sz) bT (bT.map sz) out).bKeep).Nodup := by
  obtain ⟨h1, h2, h3, h4⟩ := nodup_groups (sz := sz) (aT := aT) (bT := bT) (out := out)
  constructor
  · apply nodup_append3 h1 h3 h2
    · intro i hi hi'; exact (mem_aKeep.1 hi').2.1 (mem_bat.1 hi).2.1
    · intro i hi hi'; exact (mem_con.1 hi').2.2 (mem_bat.1 hi).2.2
    · intro i hi hi'; exact (mem_aKeep.1 hi).2.1 (mem_con.1 hi').2.1
  · apply nodup_append3 h1 h2 h4
    · intro i hi hi'; exact (mem_con.1 hi').2.2 (mem_bat.1 hi).2.2
    · intro i hi hi'; exact (mem_bKeep.1 hi').2.1 (mem_bat.1 hi).1.1
    · intro i hi hi'; exact (mem_bKeep.1 hi').2.1 (mem_con.1 hi).1.1

/-! ### the `sizes` dict -/

/-- all entries of the dict are `(label, sz label)` -/
def GraphList (sz : Ix → Nat) (s : List (Ix × Nat)) : Prop := ∀ p ∈ s, p.2 = sz p.1

theorem lookup_graphList {s : List (Ix × Nat)} (hs : GraphList sz s) {j : Ix} {d : Nat}
    (h : s.lookup j = some d) : d = sz j := by
  induction s with
  | nil => simp at h
  | cons p r ih =>
    obtain ⟨k, v⟩ := p
    by_cases hk : j = k
    · subst hk
      simp only [List.lookup, beq_self_eq_true] at h
      have := hs (j, v) (by simp)
      simp only at this
      rw [← this]; exact (Option.some.inj h).symm
    · have hb : (j == k) = false := by simpa using hk
      simp only [List.lookup, hb] at h
      exact ih (fun p hp => hs p (by simp [hp])) h

theorem lookup_append_some {s : List (Ix × Nat)} {j : Ix} {d : Nat} (h : s.lookup j = some d)
    (t : List (Ix × Nat)) : (s ++ t).lookup j = some d := by
  induction s with
  | nil => simp at h
  | cons p r ih =>
    obtain ⟨k, v⟩ := p
    by_cases hk : j = k
    · subst hk; simpa [List.lookup] using h
    · have hb : (j == k) = false := by simpa using hk
      simp only [List.lookup, hb, List.cons_append] at h ⊢
      exact ih h

theorem lookup_append_none {s : List (Ix × Nat)} {j : Ix} (h : s.lookup j = none) (v : Nat) :
    (s ++ [(j, v)]).lookup j = some v := by
  induction s with
  | nil => simp [List.lookup]
  | cons p r ih =>
    obtain ⟨k, w⟩ := p
    by_cases hk : j = k
    · subst hk; simp [List.lookup] at h
    · have hb : (j == k) = false := by simpa using hk
      simp only [List.lookup, hb, List.cons_append] at h ⊢
      exact ih h

theorem foldlM_addSize (L : List Ix) :
    ∀ s : List (Ix × Nat), GraphList sz s →
      ∃ s', (L.map fun i => (i, sz i)).foldlM addSize s = some s' ∧ GraphList sz s' ∧
        (∀ j d, s.lookup j = some d → s'.lookup j = some d) ∧
        (∀ j ∈ L, s'.lookup j = some (sz j)) := by
  induction L with
  | nil => intro s hs; exact ⟨s, rfl, hs, fun _ _ h => h, by simp⟩
  | cons i r ih =>
    intro s hs
    simp only [List.map_cons, List.foldlM_cons]
    cases hl : s.lookup i with
    | some d =>
      have hd : d = sz i := lookup_graphList hs hl
      subst hd
      have hadd : addSize s (i, sz i) = some s := by simp [addSize, hl]
      obtain ⟨s', h1, h2, h3, h4⟩ := ih s hs
      refine ⟨s', by rw [hadd]; exact h1, h2, h3, ?_⟩
      intro j hj
      rcases List.mem_cons.1 hj with rfl | hj
      · exact h3 _ _ hl
      · exact h4 j hj
    | none =>
      have hadd : addSize s (i, sz i) = some (s ++ [(i, sz i)]) := by simp [addSize, hl]
      have hs' : GraphList sz (s ++ [(i, sz i)]) := by
        intro p hp
        rcases List.mem_append.1 hp with h | h
        · exact hs p h
        · simp only [List.mem_singleton] at h; subst h; rfl
      obtain ⟨s', h1, h2, h3, h4⟩ := ih _ hs'
      refine ⟨s', by rw [hadd]; exact h1, h2, ?_, ?_⟩
      · intro j d hjd
        exact h3 j d (lookup_append_some hjd _)
      · intro j hj
        rcases List.mem_cons.1 hj with rfl | hj
        · exact h3 _ _ (lookup_append_none hl _)
        · exact h4 j hj

/-- with consistent shapes the size check passes and `sizes[ix] = sz ix` for every non-trivial
    label of either operand -/
theorem sizesOf_consistent (sz : Ix → Nat) (aT bT : List Ix) :
    ∃ sizes, sizesOf aT (aT.map sz) bT (bT.map sz) = some sizes ∧
      ∀ i, (i ∈ aT ∨ i ∈ bT) → sz i ≠ 1 → sizeIn sizes i = sz i := by
  have hL : ((aT.zip (aT.map sz) ++ bT.zip (bT.map sz)).filter fun p => p.2 != 1)
      = ((aT ++ bT).filter fun i => sz i != 1).map fun i => (i, sz i) := by
    rw [zip_map_self, zip_map_self, ← List.map_append, List.filter_map]
    rfl
  obtain ⟨s', h1, _, _, h4⟩ := foldlM_addSize (sz := sz) ((aT ++ bT).filter fun i => sz i != 1) []
    (by intro p hp; simp at hp)
  refine ⟨s', by rw [sizesOf, hL]; exact h1, ?_⟩
  intro i hi hnt
  have : i ∈ (aT ++ bT).filter fun i => sz i != 1 := by
    rw [List.mem_filter, List.mem_append]; exact ⟨hi, by simpa using hnt⟩
  simp [sizeIn, h4 i this]

/-! ### `singletons` -/

theorem mem_singlesSet {i : Ix} :
    i ∈ singlesSet aT (aT.map sz) bT (bT.map sz) ↔ (i ∈ aT ∨ i ∈ bT) ∧ sz i = 1 := by
  have hstart : ∀ i, i ∈ ((aT.zip (aT.map sz)).filter fun p => p.2 == 1).map (·.1)
      ↔ i ∈ aT ∧ sz i = 1 := by
    intro i
    rw [zip_map_self, List.filter_map, List.map_map]
    simp [List.mem_filter, Function.comp_def]
  have hfold : ∀ (L s : List Ix), (∀ i ∈ s, sz i = 1) → ∀ i,
      i ∈ (L.map fun a => (a, sz a)).foldl
          (fun s p => if p.2 = 1 then p.1 :: s else s.filter (· != p.1)) s
        ↔ (i ∈ s ∨ i ∈ L) ∧ sz i = 1 := by
    intro L
    induction L with
    | nil => intro s hs i; simpa using hs i
    | cons a r ih =>
      intro s hs i
      simp only [List.map_cons, List.foldl_cons]
      by_cases ha : sz a = 1
      · simp only [ha, ↓reduceIte]
        rw [ih (a :: s) (by intro j hj; rcases List.mem_cons.1 hj with rfl | h; exact ha; exact hs j h)]
        simp only [List.mem_cons]; tauto
      · simp only [ha, ↓reduceIte]
        have hfs : s.filter (· != a) = s := by
          apply List.filter_eq_self.2
          intro j hj
          simp only [bne_iff_ne, ne_eq]
          rintro rfl
          exact ha (hs j hj)
        rw [hfs, ih s hs]
        simp only [List.mem_cons]
        constructor
        · rintro ⟨h | h, h1⟩
          · exact ⟨Or.inl h, h1⟩
          · exact ⟨Or.inr (Or.inr h), h1⟩
        · rintro ⟨h | h | h, h1⟩
          · exact ⟨Or.inl h, h1⟩
          · subst h; exact absurd h1 ha
          · exact ⟨Or.inr h, h1⟩
  rw [singlesSet, zip_map_self sz bT, hfold bT _ (fun i hi => ((hstart i).1 hi).2)]
  rw [hstart]
  tauto

end Cotengra.Bmm
