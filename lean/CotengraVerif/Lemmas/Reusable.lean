import CotengraVerif.Model.Reusable

/-! Helper lemmas for C14: association lists, the two-level `DiskDict`, one policy step. -/
namespace Cotengra.Reusable

variable {K : Type} [DecidableEq K]

theorem assocGet_assocSet {V} (l : List (K × V)) (k : K) (v : V) (k' : K) :
    assocGet (assocSet l k v) k' = if k' = k then some v else assocGet l k' := by
  induction l with
  | nil =>
    simp only [assocSet, assocGet]
    by_cases h : k = k'
    · simp [h]
    · have : ¬ k' = k := fun e => h e.symm
      simp [h, this]
  | cons hd tl ih =>
    obtain ⟨a, b⟩ := hd
    simp only [assocSet]
    by_cases h : a = k
    · subst h
      simp only [if_true, assocGet]
      by_cases h2 : a = k'
      · simp [h2]
      · have : ¬ k' = a := fun e => h2 e.symm
        simp [h2, this]
    · simp only [h, if_false, assocGet]
      by_cases h2 : a = k'
      · subst h2
        simp [h]
      · simp only [h2, if_false]
        exact ih

namespace DD

theorem diskGet_set (d : DD K) (k : K) (c : Con) (k' : K) :
    (d.set k c).diskGet k' = if d.disk.isSome ∧ k' = k then some c else d.diskGet k' := by
  unfold diskGet set
  cases d.disk with
  | none => simp
  | some f => simp [assocGet_assocSet]

theorem view_set (d : DD K) (k : K) (c : Con) (k' : K) :
    (d.set k c).view k' = if k' = k then some c else d.view k' := by
  unfold view
  rw [diskGet_set]
  simp only [set, assocGet_assocSet]
  by_cases h : k' = k
  · simp [h]
  · simp [h]

theorem load_eq (d : DD K) (k : K) :
    d.load k = d ∨ ∃ c, assocGet d.mem k = none ∧ d.diskGet k = some c ∧
      d.load k = { d with mem := assocSet d.mem k c } := by
  unfold load
  cases hm : assocGet d.mem k with
  | some x => left; rfl
  | none =>
    cases hd : d.diskGet k with
    | none => left; rfl
    | some c => right; exact ⟨c, rfl, rfl, rfl⟩

theorem view_load (d : DD K) (k k' : K) : (d.load k).view k' = d.view k' := by
  rcases load_eq d k with h | ⟨c, hm, hd, h⟩
  · rw [h]
  · rw [h]
    unfold view
    have : ({ d with mem := assocSet d.mem k c } : DD K).diskGet k' = d.diskGet k' := rfl
    rw [this]
    simp only [assocGet_assocSet]
    by_cases e : k' = k
    · subst e; simp [hm, hd]
    · simp [e]

theorem disk_load (d : DD K) (k : K) : (d.load k).disk = d.disk := by
  rcases load_eq d k with h | ⟨c, hm, hd, h⟩ <;> rw [h]

theorem disk_set_isSome (d : DD K) (k : K) (c : Con) : (d.set k c).disk.isSome = d.disk.isSome := by
  unfold set; cases d.disk <;> rfl

/-- what memory holds is what the directory holds (no other process wrote in between) -/
def MemAgrees (d : DD K) : Prop :=
  ∀ k c, assocGet d.mem k = some c → d.disk.isSome → d.diskGet k = some c

theorem memAgrees_reload (d : DD K) : MemAgrees d.reload := by
  intro k c h; simp [reload, assocGet] at h

theorem memAgrees_set (d : DD K) (k : K) (c : Con) (h : MemAgrees d) : MemAgrees (d.set k c) := by
  intro k' c' hm hs
  rw [disk_set_isSome] at hs
  rw [diskGet_set]
  simp only [set, assocGet_assocSet] at hm
  by_cases e : k' = k
  · simp only [e, if_true] at hm
    simp [e, hs, hm]
  · simp only [e, if_false] at hm
    simp only [e, and_false, if_false]
    exact h k' c' hm hs

theorem memAgrees_load (d : DD K) (k : K) (h : MemAgrees d) : MemAgrees (d.load k) := by
  rcases load_eq d k with e | ⟨c, hm, hd, e⟩
  · rw [e]; exact h
  · rw [e]
    intro k' c' hm' hs
    have hg : ({ d with mem := assocSet d.mem k c } : DD K).diskGet k' = d.diskGet k' := rfl
    rw [hg]
    simp only [assocGet_assocSet] at hm'
    by_cases e2 : k' = k
    · subst e2; simp only [if_true] at hm'; rw [← hm']; exact hd
    · simp only [e2, if_false] at hm'; exact h k' c' hm' hs

/-- **reload_agrees**: a fresh process sees exactly what the previous one saw, provided there is
    a directory -/
theorem view_reload (d : DD K) (h : MemAgrees d) (hd : d.disk.isSome) (k : K) :
    d.reload.view k = d.view k := by
  unfold view
  have : d.reload.diskGet k = d.diskGet k := rfl
  rw [this]
  simp only [reload, assocGet]
  cases hm : assocGet d.mem k with
  | none => rfl
  | some c => exact h k c hm hd

end DD

/-! ### one policy step -/

/-- the dictionary after a step is the (memoised) old one, or that with `k := ans` -/
theorem maybeRun_dd (cfg : Cfg) (k : K) (ans : Con) (s : St K) :
    (maybeRun cfg k ans s).1.dd = s.dd.load k ∨ (maybeRun cfg k ans s).1.dd = (s.dd.load k).set k ans := by
  unfold maybeRun
  simp only []
  cases (s.dd.load k).view k with
  | none => simp only []; split <;> simp
  | some old =>
    simp only []
    cases cfg.overwrite with
    | no => simp
    | yes => simp only []; split <;> simp
    | improved =>
      simp only []
      split
      · simp
      · split <;> simp

theorem disk_isSome_maybeRun (cfg : Cfg) (k : K) (ans : Con) (s : St K) :
    (maybeRun cfg k ans s).1.dd.disk.isSome = s.dd.disk.isSome := by
  rcases maybeRun_dd cfg k ans s with h | h <;> rw [h]
  · rw [DD.disk_load]
  · rw [DD.disk_set_isSome, DD.disk_load]

theorem memAgrees_maybeRun (cfg : Cfg) (k : K) (ans : Con) (s : St K) (h : DD.MemAgrees s.dd) :
    DD.MemAgrees (maybeRun cfg k ans s).1.dd := by
  rcases maybeRun_dd cfg k ans s with e | e <;> rw [e]
  · exact DD.memAgrees_load _ _ h
  · exact DD.memAgrees_set _ _ _ (DD.memAgrees_load _ _ h)

theorem updateFromTree_dd (tie : Bool) (ow : Overwrite) (k : K) (new : Con) (s : St K) :
    (updateFromTree tie ow k new s).dd = s.dd.load k ∨
    (updateFromTree tie ow k new s).dd = (s.dd.load k).set k new := by
  unfold updateFromTree
  simp only []
  cases (s.dd.load k).view k with
  | none => right; rfl
  | some old =>
    cases ow with
    | no => left; rfl
    | yes => right; rfl
    | improved => simp only []; split <;> simp

theorem memAgrees_updateFromTree (tie : Bool) (ow : Overwrite) (k : K) (new : Con) (s : St K)
    (h : DD.MemAgrees s.dd) : DD.MemAgrees (updateFromTree tie ow k new s).dd := by
  rcases updateFromTree_dd tie ow k new s with e | e <;> rw [e]
  · exact DD.memAgrees_load _ _ h
  · exact DD.memAgrees_set _ _ _ (DD.memAgrees_load _ _ h)

theorem disk_isSome_updateFromTree (tie : Bool) (ow : Overwrite) (k : K) (new : Con) (s : St K) :
    (updateFromTree tie ow k new s).dd.disk.isSome = s.dd.disk.isSome := by
  rcases updateFromTree_dd tie ow k new s with h | h <;> rw [h]
  · rw [DD.disk_load]
  · rw [DD.disk_set_isSome, DD.disk_load]

theorem better_le (cfg : Cfg) (ans old : Con) (h : better cfg ans old = true) : ans.score ≤ old.score := by
  unfold better at h
  simp only [Bool.or_eq_true, decide_eq_true_eq, Bool.and_eq_true, beq_iff_eq] at h
  rcases h with h | ⟨_, h⟩
  · exact Int.le_of_lt h
  · exact Int.le_of_eq h

theorem view_maybeRun_other (cfg : Cfg) (k : K) (ans : Con) (s : St K) (k' : K) (hne : k' ≠ k) :
    (maybeRun cfg k ans s).1.dd.view k' = s.dd.view k' := by
  rcases maybeRun_dd cfg k ans s with e | e <;> rw [e]
  · exact DD.view_load _ _ _
  · rw [DD.view_set, if_neg hne]; exact DD.view_load _ _ _

/-! the seven branches of `_maybe_run_optimizer`, one equation each -/

theorem maybeRun_missing_cacheOnly (cfg : Cfg) (k : K) (ans : Con) (s : St K)
    (hv : s.dd.view k = none) (hc : cfg.cacheOnly = true) :
    maybeRun cfg k ans s = ({ s with dd := s.dd.load k }, .keyError) := by
  have hvk : (s.dd.load k).view k = none := by rw [DD.view_load]; exact hv
  unfold maybeRun; simp only [hvk, hc, if_true]

theorem maybeRun_missing (cfg : Cfg) (k : K) (ans : Con) (s : St K)
    (hv : s.dd.view k = none) (hc : cfg.cacheOnly = false) :
    maybeRun cfg k ans s =
      ({ dd := (s.dd.load k).set k ans, searches := s.searches + 1 }, .ok true ans) := by
  have hvk : (s.dd.load k).view k = none := by rw [DD.view_load]; exact hv
  unfold maybeRun; simp [hvk, hc]

theorem maybeRun_hit (cfg : Cfg) (k : K) (ans old : Con) (s : St K)
    (hv : s.dd.view k = some old) (ho : cfg.overwrite = .no) :
    maybeRun cfg k ans s = ({ s with dd := s.dd.load k }, .ok false old) := by
  have hvk : (s.dd.load k).view k = some old := by rw [DD.view_load]; exact hv
  unfold maybeRun; simp only [hvk, ho]

theorem maybeRun_present_cacheOnly (cfg : Cfg) (k : K) (ans old : Con) (s : St K)
    (hv : s.dd.view k = some old) (ho : cfg.overwrite ≠ .no) (hc : cfg.cacheOnly = true) :
    maybeRun cfg k ans s = ({ s with dd := s.dd.load k }, .keyError) := by
  have hvk : (s.dd.load k).view k = some old := by rw [DD.view_load]; exact hv
  unfold maybeRun
  cases h : cfg.overwrite with
  | no => exact absurd h ho
  | yes => simp only [hvk, hc, if_true]
  | improved => simp only [hvk, hc, if_true]

theorem maybeRun_overwrite (cfg : Cfg) (k : K) (ans old : Con) (s : St K)
    (hv : s.dd.view k = some old) (ho : cfg.overwrite = .yes) (hc : cfg.cacheOnly = false) :
    maybeRun cfg k ans s =
      ({ dd := (s.dd.load k).set k ans, searches := s.searches + 1 }, .ok true ans) := by
  have hvk : (s.dd.load k).view k = some old := by rw [DD.view_load]; exact hv
  unfold maybeRun; simp [hvk, hc, ho]

theorem maybeRun_improved_better (cfg : Cfg) (k : K) (ans old : Con) (s : St K)
    (hv : s.dd.view k = some old) (ho : cfg.overwrite = .improved) (hc : cfg.cacheOnly = false)
    (hlt : better cfg ans old = true) :
    maybeRun cfg k ans s =
      ({ dd := (s.dd.load k).set k ans, searches := s.searches + 1 }, .ok true ans) := by
  have hvk : (s.dd.load k).view k = some old := by rw [DD.view_load]; exact hv
  unfold maybeRun; simp [hvk, hc, ho, hlt]

theorem maybeRun_improved_worse (cfg : Cfg) (k : K) (ans old : Con) (s : St K)
    (hv : s.dd.view k = some old) (ho : cfg.overwrite = .improved) (hc : cfg.cacheOnly = false)
    (hge : better cfg ans old = false) :
    maybeRun cfg k ans s =
      ({ dd := s.dd.load k, searches := s.searches + 1 }, .ok false old) := by
  have hvk : (s.dd.load k).view k = some old := by rw [DD.view_load]; exact hv
  unfold maybeRun; simp [hvk, hc, ho, hge]

end Cotengra.Reusable
