import CotengraVerif.Model.Partition
import Mathlib.Data.List.Dedup
import Mathlib.Data.List.Count
import Mathlib.Algebra.BigOperators.Group.List.Basic
import Mathlib.Algebra.BigOperators.Group.List.Lemmas
import Mathlib.Data.List.Perm.Basic

/-!
  Lemmas for the partition builders of C05: `separate` splits its argument into non-empty groups
  that together hold every element; the termination measure of `build_divide`; the agglomerative
  loop; lengths of the kahypar short-circuit memberships.
-/
namespace Cotengra
namespace Partition

/-! ## `labelsOf` = sorted distinct labels -/

theorem mem_insertLabel (b x : Nat) (S : List Nat) : x ∈ insertLabel b S ↔ x = b ∨ x ∈ S := by
  induction S with
  | nil => simp [insertLabel]
  | cons a t ih =>
    unfold insertLabel
    by_cases h1 : b < a
    · rw [if_pos h1]; simp
    · rw [if_neg h1]
      by_cases h2 : b = a
      · rw [if_pos h2]; subst h2; simp
      · rw [if_neg h2]
        simp only [List.mem_cons, ih]
        tauto

theorem sorted_insertLabel (b : Nat) (S : List Nat) (h : S.Pairwise (· < ·)) :
    (insertLabel b S).Pairwise (· < ·) := by
  induction S with
  | nil => simp [insertLabel]
  | cons a t ih =>
    rw [List.pairwise_cons] at h
    unfold insertLabel
    by_cases h1 : b < a
    · rw [if_pos h1]
      refine List.pairwise_cons.2 ⟨?_, List.pairwise_cons.2 h⟩
      intro x hx
      rcases List.mem_cons.1 hx with e | e
      · subst e; exact h1
      · exact Nat.lt_trans h1 (h.1 x e)
    · rw [if_neg h1]
      by_cases h2 : b = a
      · rw [if_pos h2]; exact List.pairwise_cons.2 h
      · rw [if_neg h2]
        refine List.pairwise_cons.2 ⟨?_, ih h.2⟩
        intro x hx
        rcases (mem_insertLabel b x t).1 hx with e | e
        · subst e; omega
        · exact h.1 x e

theorem sorted_labelsOf (L : List Nat) : (labelsOf L).Pairwise (· < ·) := by
  induction L with
  | nil => simp [labelsOf]
  | cons a t ih => exact sorted_insertLabel a _ ih

theorem mem_labelsOf (L : List Nat) (x : Nat) : x ∈ labelsOf L ↔ x ∈ L := by
  induction L with
  | nil => simp [labelsOf]
  | cons a t ih =>
    unfold labelsOf
    rw [mem_insertLabel, ih]
    simp only [List.mem_cons]

theorem nodup_labelsOf (L : List Nat) : (labelsOf L).Nodup :=
  (sorted_labelsOf L).imp (fun h => Nat.ne_of_lt h)

theorem labelsOf_perm_dedup (L : List Nat) : (labelsOf L).Perm L.dedup := by
  rw [List.perm_ext_iff_of_nodup (nodup_labelsOf L) (List.nodup_dedup L)]
  intro x
  rw [mem_labelsOf, List.mem_dedup]

/-! ## `separate` -/

theorem separate_lengths {α} (xs : List α) (blocks : List Nat) :
    ((separate xs blocks).map List.length).sum = min xs.length blocks.length := by
  unfold separate
  simp only [List.map_map]
  have hfun : (List.length ∘ fun b => ((xs.zip blocks).filter fun xb => xb.2 == b).map (·.1)) =
      fun b => ((xs.zip blocks).map (·.2)).count b := by
    funext b
    simp only [Function.comp, List.length_map, List.count, List.countP_map,
      List.countP_eq_length_filter]
    rw [List.filter_map, List.length_map]
    rfl
  rw [hfun, ((labelsOf_perm_dedup _).map _).sum_eq, List.sum_map_count_dedup_eq_length,
    List.length_map, List.length_zip]

theorem separate_nonempty {α} (xs : List α) (blocks : List Nat) :
    ∀ g ∈ separate xs blocks, 1 ≤ g.length := by
  intro g hg
  unfold separate at hg
  obtain ⟨b, hb, rfl⟩ := List.mem_map.1 hg
  rw [mem_labelsOf] at hb
  obtain ⟨xb, hxb, rfl⟩ := List.mem_map.1 hb
  rw [List.length_map]
  apply List.length_pos_of_mem (a := xb)
  exact List.mem_filter.2 ⟨hxb, by simp⟩

theorem separate_ne_nil {α} (xs : List α) (blocks : List Nat) (hx : xs ≠ []) (hb : blocks ≠ []) :
    separate xs blocks ≠ [] := by
  intro h
  have := separate_lengths xs blocks
  rw [h] at this
  simp only [List.map_nil, List.sum_nil] at this
  have h1 : 0 < xs.length := List.length_pos_iff.2 hx
  have h2 : 0 < blocks.length := List.length_pos_iff.2 hb
  omega

/-! ## `build_divide`: the measure Σ (|P| - 1) over the childless nodes -/

def mu (c : List (List Nat)) : Nat := (c.map fun P => P.length - 1).sum

def Big (c : List (List Nat)) : Prop := ∀ P ∈ c, 2 ≤ P.length

theorem mu_perm {a b : List (List Nat)} (h : a.Perm b) : mu a = mu b := (h.map _).sum_eq

theorem mu_append (a b : List (List Nat)) : mu (a ++ b) = mu a + mu b := by
  simp [mu, List.map_append, List.sum_append]

theorem mu_cons (P : List Nat) (c : List (List Nat)) : mu (P :: c) = (P.length - 1) + mu c := by
  simp [mu]

/-- parts with more than one element weigh at most (total size − number of parts) -/
theorem mu_filter_le (G : List (List Nat)) (h : ∀ g ∈ G, 1 ≤ g.length) :
    mu (G.filter fun g => 1 < g.length) + G.length ≤ (G.map List.length).sum := by
  induction G with
  | nil => simp [mu]
  | cons g t ih =>
    have hg := h g List.mem_cons_self
    have iht := ih (fun x hx => h x (List.mem_cons_of_mem _ hx))
    by_cases h1 : 1 < g.length
    · simp only [List.filter_cons, h1, decide_true, if_true, mu_cons, List.length_cons, List.map_cons,
        List.sum_cons]
      omega
    · simp only [List.filter_cons, h1, decide_false, List.length_cons, List.map_cons,
        List.sum_cons]
      simp only [Bool.false_eq_true, if_false]
      omega

theorem big_filter (G : List (List Nat)) : Big (G.filter fun g => 1 < g.length) := by
  intro P hP
  have := (List.mem_filter.1 hP).2
  simp only [decide_eq_true_eq] at this
  omega

theorem mu_pos_of_big {c : List (List Nat)} (hb : Big c) (hne : c ≠ []) : 0 < mu c := by
  cases c with
  | nil => exact absurd rfl hne
  | cons P t =>
    rw [mu_cons]
    have := hb P List.mem_cons_self
    omega

/-- one iteration of `while tree.childless` strictly decreases the measure -/
theorem divideStep_decreases (cutoff : Nat) (o : DivideOracle)
    (hfull : ∀ sub, sub.length ≤ (o.part sub).length) (c c' : List (List Nat)) (hb : Big c)
    (h : divideStep cutoff o c = some c') : mu c' < mu c ∧ Big c' := by
  unfold divideStep at h
  cases c with
  | nil => cases h
  | cons P0 t0 =>
    simp only at h
    generalize hc : (P0 :: t0) = c at h hb
    have hlen : 0 < c.length := by rw [← hc]; simp
    set k := o.pick c % c.length with hk
    have hklt : k < c.length := Nat.mod_lt _ hlen
    have hget : c.getD k [] = c[k] := by
      rw [List.getD_eq_getElem?_getD, List.getElem?_eq_getElem hklt]; rfl
    have hperm : (c[k] :: c.eraseIdx k).Perm c := List.getElem_cons_eraseIdx_perm hklt
    have hmu : mu c = (c[k].length - 1) + mu (c.eraseIdx k) := by
      rw [← mu_perm hperm, mu_cons]
    have hsub : 2 ≤ c[k].length := hb _ (List.getElem_mem hklt)
    have hbo : Big (c.eraseIdx k) := fun P hP =>
      hb P (hperm.subset (List.mem_cons_of_mem _ hP))
    rw [hget] at h
    rw [if_neg (by omega : ¬ c[k].length ≤ 1)] at h
    by_cases h1 : c[k].length ≤ cutoff
    · rw [if_pos h1] at h
      cases h
      exact ⟨by omega, hbo⟩
    · rw [if_neg h1] at h
      by_cases h2 : (separate c[k] (o.part c[k])).length = 1
      · rw [if_pos h2] at h
        cases h
        exact ⟨by omega, hbo⟩
      · rw [if_neg h2] at h
        cases h
        have hl := separate_lengths c[k] (o.part c[k])
        rw [Nat.min_eq_left (hfull _)] at hl
        have hne := separate_nonempty c[k] (o.part c[k])
        have hle := mu_filter_le _ hne
        rw [hl] at hle
        have hnn : separate c[k] (o.part c[k]) ≠ [] := by
          apply separate_ne_nil
          · intro e; rw [e] at hsub; simp at hsub
          · intro e
            have := hfull c[k]
            rw [e] at this
            simp only [List.length_nil] at this
            omega
        have hg1 : 1 ≤ (separate c[k] (o.part c[k])).length := List.length_pos_iff.2 hnn
        refine ⟨by rw [mu_append]; omega, ?_⟩
        intro P hP
        rcases List.mem_append.1 hP with e | e
        · exact hbo P e
        · exact big_filter _ P e

theorem divideLoop_terminates (cutoff : Nat) (o : DivideOracle)
    (hfull : ∀ sub, sub.length ≤ (o.part sub).length) :
    ∀ (fuel : Nat) (c : List (List Nat)), Big c → mu c ≤ fuel →
      ∃ k, divideLoop cutoff o fuel c = some k ∧ k ≤ mu c := by
  intro fuel
  induction fuel with
  | zero =>
    intro c hb hmu
    have : c = [] := by
      by_contra hne
      have := mu_pos_of_big hb hne
      omega
    subst this
    exact ⟨0, rfl, Nat.le_refl _⟩
  | succ fuel ih =>
    intro c hb hmu
    unfold divideLoop
    cases hs : divideStep cutoff o c with
    | none => exact ⟨0, rfl, Nat.zero_le _⟩
    | some c' =>
      have hd := divideStep_decreases cutoff o hfull c c' hb hs
      obtain ⟨k, hk, hkle⟩ := ih c' hd.2 (by omega)
      refine ⟨k + 1, ?_, by omega⟩
      simp only [hk, Option.map_some]

/-- a childless node with a single input is never resolved: the loop of the code as it stands
    spins on it forever -/
theorem divideLoop_single_diverges (cutoff : Nat) (o : DivideOracle) (i : Nat) :
    ∀ fuel, divideLoop cutoff o fuel [[i]] = none := by
  intro fuel
  have hstep : divideStep cutoff o [[i]] = some [[i]] := by
    have hk : o.pick [[i]] % 1 = 0 := Nat.mod_one _
    simp [divideStep, hk]
  induction fuel with
  | zero => simp [divideLoop]
  | succ fuel ih => simp [divideLoop, hstep, ih]

/-! ## `build_agglom` -/

theorem agglomLoop_result_le (groupsize : Nat) (labels : Nat → List Nat) :
    ∀ (fuel n r : Nat), agglomLoop groupsize labels fuel n = some r → r ≤ groupsize := by
  intro fuel
  induction fuel with
  | zero =>
    intro n r h
    unfold agglomLoop at h
    split at h
    · cases h
    · cases h; omega
  | succ fuel ih =>
    intro n r h
    unfold agglomLoop at h
    split at h
    · exact ih _ _ h
    · cases h; omega

theorem agglomLoop_terminates_of_progress (groupsize : Nat) (labels : Nat → List Nat)
    (hprog : ∀ m, groupsize < m → (separate (List.range m) (labels m)).length < m) :
    ∀ (fuel n : Nat), n ≤ fuel → ∃ r, agglomLoop groupsize labels fuel n = some r := by
  intro fuel
  induction fuel with
  | zero =>
    intro n hn
    have : n = 0 := by omega
    subst this
    exact ⟨0, by simp [agglomLoop]⟩
  | succ fuel ih =>
    intro n hn
    unfold agglomLoop
    by_cases h : n > groupsize
    · rw [if_pos h]
      exact ih _ (by have := hprog n h; omega)
    · rw [if_neg h]; exact ⟨n, rfl⟩

theorem separate_identity_length (n : Nat) :
    (separate (List.range n) (List.range n)).length = n := by
  unfold separate
  rw [List.length_map]
  have hz : ((List.range n).zip (List.range n)).map (·.2) = List.range n := by
    rw [List.map_snd_zip]
    simp
  rw [hz, (labelsOf_perm_dedup _).length_eq, List.Nodup.dedup List.nodup_range, List.length_range]

/-- the partitioner that puts every node in its own community makes the loop spin forever -/
theorem agglomLoop_identity_diverges (groupsize : Nat) :
    ∀ (fuel n : Nat), groupsize < n → agglomLoop groupsize (fun m => List.range m) fuel n = none := by
  intro fuel
  induction fuel with
  | zero => intro n h; simp [agglomLoop, h]
  | succ fuel ih =>
    intro n h
    unfold agglomLoop
    rw [if_pos h, separate_identity_length]
    exact ih n h

theorem agglomLoopFixed_terminates (groupsize : Nat) (labels : Nat → List Nat) :
    ∀ (fuel n : Nat), n ≤ fuel → ∃ r, agglomLoopFixed groupsize labels fuel n = some r ∧ r ≤ n := by
  intro fuel
  induction fuel with
  | zero =>
    intro n hn
    have : n = 0 := by omega
    subst this
    exact ⟨0, by simp [agglomLoopFixed], Nat.le_refl _⟩
  | succ fuel ih =>
    intro n hn
    unfold agglomLoopFixed
    by_cases h : n > groupsize
    · rw [if_pos h]
      simp only
      by_cases h2 : (separate (List.range n) (labels n)).length ≥ n
      · rw [if_pos h2]; exact ⟨n, rfl, Nat.le_refl _⟩
      · rw [if_neg h2]
        obtain ⟨r, hr, hle⟩ := ih _ (by omega : (separate (List.range n) (labels n)).length ≤ fuel)
        exact ⟨r, hr, by omega⟩
    · rw [if_neg h]; exact ⟨n, rfl, Nat.le_refl _⟩

/-! ## kahypar short-circuits -/

theorem fixOutputs_aux (onodes : List Nat) (l : List Nat) (acc : List Nat × Nat) :
    (l.foldl (fun (acc : List Nat × Nat) i =>
      if onodes.contains i then (acc.1 ++ [0], acc.2) else (acc.1 ++ [acc.2], acc.2 + 1)) acc).1.length
      = acc.1.length + l.length := by
  induction l generalizing acc with
  | nil => simp
  | cons a t ih =>
    rw [List.foldl_cons, ih]
    split <;> simp <;> omega

theorem kahyparFixOutputs_length (nv : Nat) (onodes : List Nat) :
    (kahyparFixOutputs nv onodes).length = nv := by
  unfold kahyparFixOutputs
  rw [fixOutputs_aux]
  simp

theorem roundRobin_sum (q r p : Nat) :
    ((List.range p).map fun k => q + (if k < r then 1 else 0)).sum = p * q + min r p := by
  induction p with
  | zero => simp
  | succ p ih =>
    rw [List.range_succ, List.map_append, List.sum_append, ih]
    simp only [List.map_cons, List.map_nil, List.sum_cons, List.sum_nil]
    rw [Nat.succ_mul]
    by_cases h : p < r
    · rw [if_pos h]; omega
    · rw [if_neg h]; omega

theorem kahyparRoundRobin_length (nv parts : Nat) (hp : 1 ≤ parts) :
    (kahyparRoundRobin nv parts).length = nv := by
  unfold kahyparRoundRobin
  rw [List.length_flatMap]
  have : (List.map (fun a => (List.replicate (nv / parts + if a < nv % parts then 1 else 0) a).length)
      (List.range parts)) = (List.range parts).map fun k => nv / parts + (if k < nv % parts then 1 else 0) := by
    apply List.map_congr_left
    intro a _
    simp
  rw [this, roundRobin_sum]
  have h1 : nv % parts < parts := Nat.mod_lt _ (by omega)
  rw [Nat.min_eq_left (Nat.le_of_lt h1)]
  exact Nat.div_add_mod nv parts

end Partition
end Cotengra
