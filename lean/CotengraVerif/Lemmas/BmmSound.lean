import CotengraVerif.Lemmas.BmmPlan

/-!
  Semantics of the two-operand plan: the preparation step, the fusing reshapes, and the algebra
  that turns `Σ_con (Σ_SA A)(Σ_SB B)` into the reference sum over all non-output labels.
-/
namespace Cotengra.Bmm
open Cotengra Cotengra.FA

/-! ### preparation of one operand -/

theorem scan_ns_nil {t d : List Ix} (h : ∀ i ∈ t, i ∈ d) : (scan t d).2 = [] := by
  apply List.eq_nil_iff_forall_not_mem.2
  intro i hi
  have := ((scan_spec t d).2.2.2 i).1 hi
  exact this.2 (h i this.1)

theorem nodup_of_sameSet {t d : List Ix} (hd : d.Nodup) (hsub : ∀ o ∈ d, o ∈ t)
    (hlen : t.length = d.length) : t.Nodup := by
  have hp : d.Perm t := (hd.subperm hsub).perm_of_length_le (by omega)
  exact hp.nodup_iff.1 hd

/-- `eq_a` / `eq_b` of the batched-matmul path: nothing, a transpose, or `_einsum_single`.
    `hg` is the guard under which the transpose shortcut is right. -/
theorem prep_lab {sz : Ix → Nat} {t d : List Ix} {x : FArr} (lc : Bool)
    (hsh : x.shape = t.map sz) (hd : d.Nodup) (hsub : ∀ o ∈ d, o ∈ t)
    (hg : lc = true ∨ (sameSet t d = true → t.length = d.length)) :
    ∃ y, evalPrep (prepOf lc t d) x = some y ∧
      Lab sz d y fun env => sumEnv sz (scan t d).2 env fun e => x.get (t.map e) := by
  have hx : Lab sz t x (fun e => x.get (t.map e)) := lab_iff.2 ⟨hsh, fun _ _ => rfl⟩
  unfold prepOf
  by_cases h1 : t = d
  · subst h1
    simp only [↓reduceIte, evalPrep]
    refine ⟨x, rfl, ?_⟩
    simp only [scan_ns_nil (fun i hi => hi), sumEnv_nil]
    exact hx
  · simp only [h1, ↓reduceIte]
    by_cases h2 : (sameSet t d && (!lc || t.length == d.length)) = true
    · simp only [h2, ↓reduceIte, evalPrep]
      have hss : sameSet t d = true := by
        cases hq : sameSet t d
        · rw [hq] at h2; simp at h2
        · rfl
      simp only [Bool.and_eq_true, sameSet, List.all_eq_true, has, List.contains_iff_mem,
        Bool.or_eq_true, Bool.not_eq_eq_eq_not, Bool.not_true, beq_iff_eq] at h2
      have htd : ∀ i ∈ t, i ∈ d := h2.1.1
      have htn : t.Nodup := by
        rcases hg with hlc | hn
        · rcases h2.2 with h | h
          · rw [hlc] at h; exact absurd h (by simp)
          · exact nodup_of_sameSet hd hsub h
        · exact nodup_of_sameSet hd hsub (hn hss)
      obtain ⟨y, hy1, hy2⟩ := lab_transpose hx htn hd hsub htd
      refine ⟨y, hy1, ?_⟩
      simp only [scan_ns_nil htd, sumEnv_nil]
      exact hy2
    · simp only [h2, Bool.false_eq_true, ↓reduceIte, evalPrep]
      obtain ⟨sp, y, h3, h4, h5⟩ := single_plan_lab (sz := sz) hd hsub hsh
      exact ⟨y, by simp [h3, h4], h5⟩

/-- `eq_a` / `eq_b` of the pure-multiplication path -/
theorem prep_lab_pure {sz : Ix → Nat} {t d : List Ix} {x : FArr}
    (hsh : x.shape = t.map sz) (hd : d.Nodup) (hsub : ∀ o ∈ d, o ∈ t) :
    ∃ y, evalPrep (if d != t then Prep.eins t d else Prep.none) x = some y ∧
      Lab sz d y fun env => sumEnv sz (scan t d).2 env fun e => x.get (t.map e) := by
  by_cases h1 : d = t
  · subst h1
    simp only [bne_self_eq_false, Bool.false_eq_true, ↓reduceIte, evalPrep]
    refine ⟨x, rfl, ?_⟩
    simp only [scan_ns_nil (fun i hi => hi), sumEnv_nil]
    exact lab_iff.2 ⟨hsh, fun _ _ => rfl⟩
  · have : (d != t) = true := by simpa using h1
    simp only [this, ↓reduceIte, evalPrep]
    obtain ⟨sp, y, h3, h4, h5⟩ := single_plan_lab (sz := sz) hd hsub hsh
    exact ⟨y, by simp [h3, h4], h5⟩

/-! ### fusing -/

theorem flatten_map_single (d : List Ix) : (d.map fun i => [i]).flatten = d := by
  induction d with
  | nil => rfl
  | cons a r ih => simp [ih]

theorem eq_map_single_of_len_one {gs : List (List Ix)} (h : ∀ g ∈ gs, g.length = 1) :
    gs = gs.flatten.map fun i => [i] := by
  induction gs with
  | nil => rfl
  | cons g r ih =>
    have hg := h g (by simp)
    obtain ⟨a, rfl⟩ := List.length_eq_one_iff.1 hg
    simp only [List.flatten_cons, List.singleton_append, List.map_cons, List.cons.injEq, true_and]
    exact ih fun g' hg' => h g' (by simp [hg'])

theorem fuse_lab {sz : Ix → Nat} {d : List Ix} {x : FArr} {F} (hx : Lab sz d x F)
    {sizes : List (Ix × Nat)} {gs : List (List Ix)} (hfl : gs.flatten = d)
    (hsz : ∀ i ∈ d, sizeIn sizes i = sz i) :
    ∃ y, optApply reshape (fusedShape sizes gs) x = some y ∧ Rep sz gs y F := by
  unfold fusedShape
  by_cases hany : (gs.any fun g => g.length != 1) = true
  · simp only [hany, ↓reduceIte, optApply]
    have hshape : (gs.map fun g => prod (g.map (sizeIn sizes))) = gs.map (gsize sz) := by
      apply List.map_congr_left
      intro g hg
      simp only [gsize]
      congr 1
      apply List.map_congr_left
      intro i hi
      exact hsz i (hfl ▸ List.mem_flatten.2 ⟨g, hg, hi⟩)
    rw [hshape]
    exact rep_reshape hx (by rw [flatten_map_single, hfl])
  · simp only [hany, Bool.false_eq_true, ↓reduceIte, optApply]
    refine ⟨x, rfl, ?_⟩
    have hall : ∀ g ∈ gs, g.length = 1 := by
      intro g hg
      by_contra hne
      apply hany
      simp only [List.any_eq_true, bne_iff_ne, ne_eq]
      exact ⟨g, hg, hne⟩
    rw [eq_map_single_of_len_one hall, hfl]
    exact hx

/-! ### the algebra of the sums -/

theorem depOn_sumEnv {sz : Ix → Nat} {f : (Ix → Nat) → Int} {T : List Ix} (hf : DepOn f T)
    (L : List Ix) : DepOn (fun e => sumEnv sz L e f) T := by
  intro e1 e2 h
  exact sumEnv_env_congr hf fun i hi _ => h i hi

theorem sum_algebra {sz : Ix → Nat} {aT bT out C SA SB : List Ix} {A B : (Ix → Nat) → Int}
    (hA : DepOn A aT) (hB : DepOn B bT) (hC : C.Nodup) (hSA : SA.Nodup) (hSB : SB.Nodup)
    (hCm : ∀ i, sz i ≠ 1 → (i ∈ C ↔ i ∈ aT ∧ i ∈ bT ∧ i ∉ out))
    (hSAm : ∀ i, sz i ≠ 1 → (i ∈ SA ↔ i ∈ aT ∧ i ∉ bT ∧ i ∉ out))
    (hSBm : ∀ i, sz i ≠ 1 → (i ∈ SB ↔ i ∈ bT ∧ i ∉ aT ∧ i ∉ out))
    {env : Ix → Nat} (henv : EnvOK sz env) :
    sumEnv sz C env (fun e => sumEnv sz SA e A * sumEnv sz SB e B)
      = sumEnv sz (uniq ((aT ++ bT).filter fun i => !out.contains i)) env fun e => A e * B e := by
  let nt : Ix → Bool := fun i => sz i != 1
  have hnt : ∀ i, nt i = true ↔ sz i ≠ 1 := fun i => by simp [nt]
  have hC' : ∀ i, i ∈ C.filter nt ↔ (i ∈ aT ∧ i ∈ bT ∧ i ∉ out) ∧ sz i ≠ 1 := by
    intro i
    rw [List.mem_filter, hnt]
    constructor
    · rintro ⟨h1, h2⟩; exact ⟨(hCm i h2).1 h1, h2⟩
    · rintro ⟨h1, h2⟩; exact ⟨(hCm i h2).2 h1, h2⟩
  have hSA' : ∀ i, i ∈ SA.filter nt ↔ (i ∈ aT ∧ i ∉ bT ∧ i ∉ out) ∧ sz i ≠ 1 := by
    intro i
    rw [List.mem_filter, hnt]
    constructor
    · rintro ⟨h1, h2⟩; exact ⟨(hSAm i h2).1 h1, h2⟩
    · rintro ⟨h1, h2⟩; exact ⟨(hSAm i h2).2 h1, h2⟩
  have hSB' : ∀ i, i ∈ SB.filter nt ↔ (i ∈ bT ∧ i ∉ aT ∧ i ∉ out) ∧ sz i ≠ 1 := by
    intro i
    rw [List.mem_filter, hnt]
    constructor
    · rintro ⟨h1, h2⟩; exact ⟨(hSBm i h2).1 h1, h2⟩
    · rintro ⟨h1, h2⟩; exact ⟨(hSBm i h2).2 h1, h2⟩
  -- drop the labels of size 1 from all three sums
  have step1 : sumEnv sz C env (fun e => sumEnv sz SA e A * sumEnv sz SB e B)
      = sumEnv sz (C.filter nt) env
          fun e => sumEnv sz (SA.filter nt) e A * sumEnv sz (SB.filter nt) e B := by
    rw [sumEnv_filter_nt henv]
    apply sumEnv_congr henv
    intro e he _
    rw [sumEnv_filter_nt he A, sumEnv_filter_nt he B]
  -- merge the product of sums into one sum
  have step2 : ∀ e, sumEnv sz (SA.filter nt) e A * sumEnv sz (SB.filter nt) e B
      = sumEnv sz (SA.filter nt) e fun e' => sumEnv sz (SB.filter nt) e' fun e'' => A e'' * B e'' := by
    intro e
    rw [← sumEnv_factor_right (g := fun e' => sumEnv sz (SB.filter nt) e' B) (T := bT) e
      (depOn_sumEnv hB _) (fun i hi h => ((hSA' i).1 h).1.2.1 hi)]
    apply sumEnv_congr'
    intro e' _
    rw [← sumEnv_factor_left (g := A) (T := aT) e' hA (fun i hi h => ((hSB' i).1 h).1.2.1 hi)]
  rw [step1]
  have step3 : sumEnv sz (C.filter nt) env
        (fun e => sumEnv sz (SA.filter nt) e A * sumEnv sz (SB.filter nt) e B)
      = sumEnv sz (C.filter nt ++ SA.filter nt ++ SB.filter nt) env fun e => A e * B e := by
    rw [sumEnv_append, sumEnv_append]
    apply sumEnv_congr'
    intro e _
    exact step2 e
  rw [step3, sumEnv_filter_nt henv (L := uniq _)]
  apply sumEnv_of_mem_iff
  · apply nodup_append3 (hC.filter _) (hSA.filter _) (hSB.filter _)
    · intro i h1 h2; exact ((hSA' i).1 h2).1.2.1 ((hC' i).1 h1).1.2.1
    · intro i h1 h2; exact ((hSB' i).1 h2).1.2.1 ((hC' i).1 h1).1.1
    · intro i h1 h2; exact ((hSB' i).1 h2).1.2.1 ((hSA' i).1 h1).1.1
  · exact (nodup_uniq _).filter _
  · intro i
    simp only [List.mem_append, hC', hSA', hSB', List.mem_filter, mem_uniq, bne_iff_ne, ne_eq,
      Bool.not_eq_eq_eq_not, Bool.not_true, List.contains_eq_mem, decide_eq_false_iff_not]
    tauto

end Cotengra.Bmm
