import CotengraVerif.Model.HyperX
import CotengraVerif.Lemmas.HyperLemmas

/-!
  Helper lemmas for C08 (round 3) about `Model/HyperX.lean`: IEEE comparison of extended scores,
  the effect of `xreport` / `xassess` / `xcomplete` on the record lists, `xrunLog`.
-/
namespace Cotengra
namespace Hyper

/-! ## IEEE comparison -/

@[simp] theorem rank_ninf : XScore.ninf.rank = some (some 0) := rfl
@[simp] theorem rank_fin (n : Nat) : (XScore.fin n).rank = some (some (n + 1)) := rfl
@[simp] theorem rank_inf : XScore.inf.rank = some none := rfl
@[simp] theorem rank_nan : XScore.nan.rank = none := rfl

theorem rank_eq_none_iff (a : XScore) : a.rank = none ↔ a = .nan := by
  cases a <;> simp

theorem nan_or_rank (a : XScore) : a = .nan ∨ ∃ x, a.rank = some x := by
  cases a <;> simp

theorem rank_injective {a b : XScore} (x : Score) (ha : a.rank = some x) (hb : b.rank = some x) :
    a = b := by
  rw [← hb] at ha
  cases a <;> cases b <;> simp at ha ⊢
  exact ha

@[simp] theorem xlt_nan_left (b : XScore) : xlt .nan b = false := by
  simp [xlt]

@[simp] theorem xlt_nan_right (a : XScore) : xlt a .nan = false := by
  unfold xlt; cases a.rank <;> simp

@[simp] theorem xge_nan_left (b : XScore) : xge .nan b = false := by
  simp [xge]

@[simp] theorem xge_nan_right (a : XScore) : xge a .nan = false := by
  unfold xge; cases a.rank <;> simp

theorem xlt_of_rank {a b : XScore} {x y : Score} (ha : a.rank = some x) (hb : b.rank = some y) :
    xlt a b = slt x y := by
  simp [xlt, ha, hb]

theorem xge_of_rank {a b : XScore} {x y : Score} (ha : a.rank = some x) (hb : b.rank = some y) :
    xge a b = sle y x := by
  simp [xge, ha, hb]

theorem rank_of_xlt {a b : XScore} (h : xlt a b = true) :
    ∃ x y, a.rank = some x ∧ b.rank = some y ∧ slt x y = true := by
  unfold xlt at h
  cases ha : a.rank with
  | none => simp [ha] at h
  | some x =>
    cases hb : b.rank with
    | none => simp [ha, hb] at h
    | some y => simp only [ha, hb] at h; exact ⟨x, y, rfl, rfl, h⟩

theorem rank_of_xge {a b : XScore} (h : xge a b = true) :
    ∃ x y, a.rank = some x ∧ b.rank = some y ∧ sle y x = true := by
  unfold xge at h
  cases ha : a.rank with
  | none => simp [ha] at h
  | some x =>
    cases hb : b.rank with
    | none => simp [ha, hb] at h
    | some y => simp only [ha, hb] at h; exact ⟨x, y, rfl, rfl, h⟩

/-- on ordered floats `>=` is the negation of `<` -/
theorem xge_eq_not_xlt {a b : XScore} (ha : a ≠ .nan) (hb : b ≠ .nan) : xge a b = !xlt a b := by
  rcases nan_or_rank a with h | ⟨x, hx⟩
  · exact absurd h ha
  rcases nan_or_rank b with h | ⟨y, hy⟩
  · exact absurd h hb
  rw [xge_of_rank hx hy, xlt_of_rank hx hy]
  cases x <;> cases y <;> simp [sle, slt]

/-- "usable": an ordered float below `+inf` -/
theorem usable_iff (a : XScore) : xlt a .inf = true ↔ ∃ x, a.rank = some (some x) := by
  cases a <;> simp [xlt, slt]

/-! ## effect of one completion on the lists -/

section lists
variable (st : XState) (s : Setting) (t : XTrial)

@[simp] theorem xreport_scores : (xreport st s t).scores = st.scores ++ [t.score] := rfl
@[simp] theorem xreport_times : (xreport st s t).times = st.times ++ [t.time] := rfl
@[simp] theorem xreport_flops : (xreport st s t).costsFlops = st.costsFlops ++ [t.flops] := rfl
@[simp] theorem xreport_write : (xreport st s t).costsWrite = st.costsWrite ++ [t.write] := rfl
@[simp] theorem xreport_size : (xreport st s t).costsSize = st.costsSize ++ [t.size] := rfl
@[simp] theorem xreport_methods :
    (xreport st s t).methodChoices = st.methodChoices ++ [s.method] := rfl
@[simp] theorem xreport_params :
    (xreport st s t).paramChoices = st.paramChoices ++ [s.params] := rfl
@[simp] theorem xreport_best : (xreport st s t).best = st.best := rfl
@[simp] theorem xreport_curBest : (xreport st s t).curBest = st.curBest := rfl
@[simp] theorem xreport_submitted : (xreport st s t).submitted = st.submitted := rfl
@[simp] theorem xreport_mts : (xreport st s t).maxTrainingSteps = st.maxTrainingSteps := rfl
@[simp] theorem xreport_tsb : (xreport st s t).trialsSinceBest = st.trialsSinceBest := rfl

@[simp] theorem xassess_scores : (xassess st t).scores = st.scores := by
  unfold xassess; split <;> rfl
@[simp] theorem xassess_times : (xassess st t).times = st.times := by
  unfold xassess; split <;> rfl
@[simp] theorem xassess_flops : (xassess st t).costsFlops = st.costsFlops := by
  unfold xassess; split <;> rfl
@[simp] theorem xassess_write : (xassess st t).costsWrite = st.costsWrite := by
  unfold xassess; split <;> rfl
@[simp] theorem xassess_size : (xassess st t).costsSize = st.costsSize := by
  unfold xassess; split <;> rfl
@[simp] theorem xassess_methods : (xassess st t).methodChoices = st.methodChoices := by
  unfold xassess; split <;> rfl
@[simp] theorem xassess_params : (xassess st t).paramChoices = st.paramChoices := by
  unfold xassess; split <;> rfl
@[simp] theorem xassess_submitted : (xassess st t).submitted = st.submitted := by
  unfold xassess; split <;> rfl
@[simp] theorem xassess_mts : (xassess st t).maxTrainingSteps = st.maxTrainingSteps := by
  unfold xassess; split <;> rfl
@[simp] theorem xassess_reports : (xassess st t).optlibReports = st.optlibReports := by
  unfold xassess; split <;> rfl
@[simp] theorem xassess_bestScore : (xassess st t).bestScore = st.bestScore := by
  unfold xassess; split <;> rfl

@[simp] theorem xcomplete_scores : (xcomplete st s t).scores = st.scores ++ [t.score] := by
  simp [xcomplete]
@[simp] theorem xcomplete_times : (xcomplete st s t).times = st.times ++ [t.time] := by
  simp [xcomplete]
@[simp] theorem xcomplete_flops : (xcomplete st s t).costsFlops = st.costsFlops ++ [t.flops] := by
  simp [xcomplete]
@[simp] theorem xcomplete_write : (xcomplete st s t).costsWrite = st.costsWrite ++ [t.write] := by
  simp [xcomplete]
@[simp] theorem xcomplete_size : (xcomplete st s t).costsSize = st.costsSize ++ [t.size] := by
  simp [xcomplete]
@[simp] theorem xcomplete_methods :
    (xcomplete st s t).methodChoices = st.methodChoices ++ [s.method] := by simp [xcomplete]
@[simp] theorem xcomplete_params :
    (xcomplete st s t).paramChoices = st.paramChoices ++ [s.params] := by simp [xcomplete]
@[simp] theorem xcomplete_submitted : (xcomplete st s t).submitted = st.submitted := by
  simp [xcomplete]
@[simp] theorem xcomplete_mts : (xcomplete st s t).maxTrainingSteps = st.maxTrainingSteps := by
  simp [xcomplete]

/-- the best record after one completion -/
theorem xcomplete_best :
    (xcomplete st s t).best =
      if xlt t.score st.curBest then
        some { trial := t, params := some s.params, method := some s.method }
      else st.best := by
  unfold xcomplete xassess
  simp only [xreport_curBest, xreport_params, xreport_methods, List.getLast?_append,
    List.getLast?_singleton, Option.some_or]
  split <;> simp

/-- `trials_since_best` after one completion -/
theorem xcomplete_tsb :
    (xcomplete st s t).trialsSinceBest =
      if xlt t.score st.curBest then 0 else st.trialsSinceBest + 1 := by
  unfold xcomplete xassess
  simp only [xreport_curBest]
  by_cases h : xlt t.score st.curBest = true
  · simp only [h, if_true]
  · simp only [h]; rfl

end lists

theorem xcomplete_withSub (st : XState) (n : Nat) (s : Setting) (t : XTrial) :
    xcomplete { st with submitted := n } s t = { xcomplete st s t with submitted := n } := by
  have hr : xreport { st with submitted := n } s t = { xreport st s t with submitted := n } := rfl
  have ha : ∀ st' : XState, xassess { st' with submitted := n } t
      = { xassess st' t with submitted := n } := by
    intro st'
    unfold xassess
    have hc : XState.curBest { st' with submitted := n } = st'.curBest := rfl
    rw [hc]
    split <;> rfl
  unfold xcomplete
  rw [hr, ha]

theorem xrunLog_withSub (st : XState) (n : Nat) (log : XLog) :
    xrunLog { st with submitted := n } log = { xrunLog st log with submitted := n } := by
  induction log generalizing st with
  | nil => rfl
  | cons e l ih =>
    simp only [xrunLog, List.foldl_cons] at ih ⊢
    rw [xcomplete_withSub, ih]

theorem xrunLog_append (st : XState) (l1 l2 : XLog) :
    xrunLog st (l1 ++ l2) = xrunLog (xrunLog st l1) l2 := by
  simp [xrunLog, List.foldl_append]

theorem xrunLog_snoc (st : XState) (l : XLog) (s : Setting) (t : XTrial) :
    xrunLog st (l ++ [(s, t)]) = xcomplete (xrunLog st l) s t := by
  simp [xrunLog, List.foldl_append]

@[simp] theorem xrunLog_nil (st : XState) : xrunLog st [] = st := rfl

theorem xrunLog_cons (st : XState) (e : Setting × XTrial) (l : XLog) :
    xrunLog st (e :: l) = xrunLog (xcomplete st e.1 e.2) l := rfl

@[simp] theorem xrunLog_submitted (st : XState) (log : XLog) :
    (xrunLog st log).submitted = st.submitted := by
  induction log generalizing st with
  | nil => rfl
  | cons e l ih => simp only [xrunLog, List.foldl_cons] at ih ⊢; rw [ih]; simp

@[simp] theorem xrunLog_mts (st : XState) (log : XLog) :
    (xrunLog st log).maxTrainingSteps = st.maxTrainingSteps := by
  induction log generalizing st with
  | nil => rfl
  | cons e l ih => simp only [xrunLog, List.foldl_cons] at ih ⊢; rw [ih]; simp

theorem xrunLog_scores (st : XState) (log : XLog) :
    (xrunLog st log).scores = st.scores ++ log.map (·.2.score) := by
  induction log generalizing st with
  | nil => simp
  | cons e l ih => simp only [xrunLog, List.foldl_cons] at ih ⊢; rw [ih]; simp

@[simp] theorem xsetSub_xsetSub (st : XState) (a b : Nat) :
    xsetSub (xsetSub st a) b = xsetSub st b := rfl
@[simp] theorem xsetSub_self (st : XState) : xsetSub st st.submitted = st := rfl
@[simp] theorem xsetSub_submitted (st : XState) (n : Nat) : (xsetSub st n).submitted = n := rfl
theorem xcomplete_xsetSub (st : XState) (n : Nat) (s : Setting) (t : XTrial) :
    xcomplete (xsetSub st n) s t = xsetSub (xcomplete st s t) n := xcomplete_withSub st n s t
theorem xrunLog_xsetSub (st : XState) (n : Nat) (log : XLog) :
    xrunLog (xsetSub st n) log = xsetSub (xrunLog st log) n := xrunLog_withSub st n log

end Hyper
end Cotengra
