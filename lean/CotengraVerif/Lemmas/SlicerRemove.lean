import CotengraVerif.Lemmas.SlicerCosts
import Mathlib.Tactic.Ring

/-!
  `ContractionCosts.remove` (slicer.py:136-192) preserves the state invariant and rewrites the
  contraction list to the from-scratch sliced one.
-/
namespace Cotengra.Slicer
open Cotengra

/-! ### list helpers -/

theorem getD_set (L : List Con) (i k : Nat) (x : Con) :
    (L.set i x).getD k default = if k = i ∧ i < L.length then x else L.getD k default := by
  simp only [List.getD_eq_getElem?_getD, List.getElem?_set]
  by_cases h : i = k
  · subst h
    by_cases h2 : i < L.length
    · simp [h2]
    · simp [h2]
  · have h' : ¬ k = i := fun e => h e.symm
    simp [h, h']

theorem sum_map_set (L : List Con) (i : Nat) (x : Con) (f : Con → Int) (hi : i < L.length) :
    ((L.set i x).map f).sum = (L.map f).sum - f (L.getD i default) + f x := by
  induction L generalizing i with
  | nil => simp at hi
  | cons a t ih =>
    cases i with
    | zero => simp [List.getD_eq_getElem?_getD]; omega
    | succ j =>
      have hj : j < t.length := by simpa using hi
      have := ih j hj
      simp only [List.set_cons_succ, List.map_cons, List.sum_cons, this]
      simp [List.getD_eq_getElem?_getD]
      omega

theorem map_set_perm (L : List Con) (i : Nat) (x : Con) (g : Con → Nat) (hi : i < L.length) :
    ((L.set i x).map g).Perm (g x :: (L.map g).erase (g (L.getD i default))) := by
  induction L generalizing i with
  | nil => simp at hi
  | cons a t ih =>
    cases i with
    | zero => simp [List.getD_eq_getElem?_getD]
    | succ j =>
      have hj : j < t.length := by simpa using hi
      have := ih j hj
      simp only [List.set_cons_succ, List.map_cons]
      have hg : (a :: t).getD (j + 1) default = t.getD j default := by
        simp [List.getD_eq_getElem?_getD]
      rw [hg]
      by_cases he : g a = g (t.getD j default)
      · rw [he, List.erase_cons_head]
        have hmem : g (t.getD j default) ∈ t.map g := by
          apply List.mem_map.2
          refine ⟨t.getD j default, ?_, rfl⟩
          simp [List.getD_eq_getElem?_getD, hj]
        exact ((List.Perm.cons _ this).trans (List.Perm.swap _ _ _)).trans
          (List.Perm.cons _ (List.perm_cons_erase hmem).symm)
      · have hne : ¬ (g a == g (t.getD j default)) = true := by simpa using he
        rw [List.erase_cons_tail hne]
        exact (List.Perm.cons _ this).trans (List.Perm.swap _ _ _)

theorem getD_mem (L : List Con) (i : Nat) (hi : i < L.length) : L.getD i default ∈ L := by
  simp [List.getD_eq_getElem?_getD, hi]

/-! ### products of sizes -/

theorem prodSz_filter_mem (sd : List (Ix × Nat)) (l : List Ix) (ix : Ix) (hnd : l.Nodup) (h : ix ∈ l) :
    prodSz sd l = szOf sd ix * prodSz sd (l.filter (· != ix)) := by
  induction l with
  | nil => cases h
  | cons a t ih =>
    have hnd' := List.nodup_cons.1 hnd
    by_cases ha : a = ix
    · subst ha
      have : t.filter (· != a) = t := by
        apply List.filter_eq_self.2
        intro x hx
        have : x ≠ a := fun e => hnd'.1 (e ▸ hx)
        simpa using this
      simp [prodSz, List.filter_cons, this]
    · have hin : ix ∈ t := by
        rcases List.mem_cons.1 h with e | e
        · exact absurd e.symm ha
        · exact e
      have := ih hnd'.2 hin
      have hb : (a != ix) = true := by simpa using ha
      simp only [prodSz, List.filter_cons, hb, if_true, List.map_cons, List.prod_cons] at this ⊢
      rw [this]; ring

theorem filter_ne_of_not_mem (l : List Ix) (ix : Ix) (h : ix ∉ l) : l.filter (· != ix) = l := by
  apply List.filter_eq_self.2
  intro x hx
  have : x ≠ ix := fun e => h (e ▸ hx)
  simpa using this

theorem szOf_del (sd : List (Ix × Nat)) (ix o : Ix) (h : o ≠ ix) : szOf (AL.del sd ix) o = szOf sd o := by
  unfold szOf
  rw [AL.get?_del]
  have : ¬ ix = o := fun e => h e.symm
  simp [this]

theorem prodSz_del (sd : List (Ix × Nat)) (ix : Ix) (l : List Ix) (h : ix ∉ l) :
    prodSz (AL.del sd ix) l = prodSz sd l := by
  unfold prodSz
  congr 1
  apply List.map_congr_left
  intro o ho
  exact szOf_del sd ix o (fun e => h (e ▸ ho))

theorem prodSz_pos (sd : List (Ix × Nat)) (hp : SdPos sd) (l : List Ix) : 0 < prodSz sd l := by
  unfold prodSz
  induction l with
  | nil => simp
  | cons a t ih => simp only [List.map_cons, List.prod_cons]; exact Nat.mul_pos (hp a) ih

/-! ### the arithmetic of the reduction tables -/

theorem red_slice (F d di R : Nat) (hd : 0 < d) (hdi : 0 < di) (hF : F = d * (di * R)) :
    red F di / (d : Int) = red (F / d) di := by
  subst hF
  unfold red
  have e1 : d * (di * R) / di = d * R := by
    rw [show d * (di * R) = di * (d * R) by ring, Nat.mul_div_cancel_left _ hdi]
  have e2 : d * (di * R) / d = di * R := Nat.mul_div_cancel_left _ hd
  have e3 : di * R / di = R := Nat.mul_div_cancel_left _ hdi
  rw [e1, e2, e3]
  push_cast
  have : (d : Int) * ((di : Int) * R) - (d : Int) * R = (d : Int) * ((di : Int) * R - R) := by ring
  rw [this, Int.mul_ediv_cancel_left _ (by exact_mod_cast hd.ne')]

/-! ### sliceCon keeps tuples well formed -/

theorem mem_filter_ne (l : List Ix) (ix o : Ix) : o ∈ l.filter (· != ix) ↔ (o ∈ l ∧ o ≠ ix) := by
  simp [List.mem_filter]

theorem sliceCon_ok (sd : List (Ix × Nat)) (hp : SdPos sd) (ix : Ix) (c : Con) (h : ConOK sd c)
    (hin : ix ∈ c.involved) : ConOK sd (sliceCon ix (szOf sd ix) c) := by
  have hd := hp ix
  refine ⟨h.nodupI.filter _, ?_, ?_, ?_, ?_⟩
  · unfold sliceCon; simp only; split
    · exact h.nodupL.filter _
    · exact h.nodupL
  · intro o ho
    unfold sliceCon at ho ⊢
    simp only at ho ⊢
    split at ho
    · rw [mem_filter_ne] at ho ⊢; exact ⟨h.sub o ho.1, ho.2⟩
    · rename_i hc
      rw [mem_filter_ne]
      refine ⟨h.sub o ho, ?_⟩
      intro e; subst e
      exact hc (by simpa using ho)
  · show c.flops / szOf sd ix = prodSz sd (c.involved.filter (· != ix))
    rw [h.flops, prodSz_filter_mem sd _ ix h.nodupI hin, Nat.mul_div_cancel_left _ hd]
  · unfold sliceCon
    simp only
    split
    · rename_i hc
      have hl : ix ∈ c.legs := by simpa using hc
      rw [h.size, prodSz_filter_mem sd _ ix h.nodupL hl, Nat.mul_div_cancel_left _ hd]
    · exact h.size

/-! ### one iteration of the loop over `_where.pop(ix)` -/

theorem fold_updFred_get (sd : List (Ix × Nat)) (F d : Nat) (l : List Ix) (fr : IDict) (hnd : l.Nodup)
    (x : Ix) :
    IDict.get (l.foldl (updFred sd F d) fr) x =
      IDict.get fr x + if x ∈ l then red F (szOf sd x) / (d : Int) - red F (szOf sd x) else 0 := by
  have : l.foldl (updFred sd F d) fr =
      l.foldl (fun acc o => IDict.addTo acc o (red F (szOf sd o) / (d : Int) - red F (szOf sd o))) fr := by
    congr 1
  rw [this, IDict.get_foldl_addTo l _ fr hnd]

theorem fold_updWred_get (sd : List (Ix × Nat)) (S d : Nat) (l : List Ix) (wr : IDict) (hnd : l.Nodup)
    (x : Ix) :
    IDict.get (l.foldl (updWred sd S d) wr) x =
      IDict.get wr x + if x ∈ l then -(red S (szOf sd x) - red S (szOf sd x) / (d : Int)) else 0 := by
  have : l.foldl (updWred sd S d) wr =
      l.foldl (fun acc o => IDict.addTo acc o (-(red S (szOf sd o) - red S (szOf sd o) / (d : Int)))) wr := by
    congr 1
  rw [this, IDict.get_foldl_addTo l _ wr hnd]

theorem fold_updFred_has (sd : List (Ix × Nat)) (F d : Nat) (l : List Ix) (fr : IDict) (x : Ix) :
    AL.has (l.foldl (updFred sd F d) fr) x = (decide (x ∈ l) || AL.has fr x) := by
  have : l.foldl (updFred sd F d) fr =
      l.foldl (fun acc o => IDict.addTo acc o (red F (szOf sd o) / (d : Int) - red F (szOf sd o))) fr := by
    congr 1
  rw [this, IDict.has_foldl_addTo]

theorem fold_updWred_has (sd : List (Ix × Nat)) (S d : Nat) (l : List Ix) (wr : IDict) (x : Ix) :
    AL.has (l.foldl (updWred sd S d) wr) x = (decide (x ∈ l) || AL.has wr x) := by
  have : l.foldl (updWred sd S d) wr =
      l.foldl (fun acc o => IDict.addTo acc o (-(red S (szOf sd o) - red S (szOf sd o) / (d : Int)))) wr := by
    congr 1
  rw [this, IDict.has_foldl_addTo]

/-- sum over a list with one entry replaced, for conditional summands -/
theorem spec_set (L : List Con) (i : Nat) (x : Con) (f : Con → Int) (hi : i < L.length) :
    ((L.set i x).map f).sum = (L.map f).sum + (f x - f (L.getD i default)) := by
  rw [sum_map_set L i x f hi]; ring

structure StepOut (ix : Ix) (d : Nat) (s : Costs) (i : Nat) (s' : Costs) : Prop where
  acc : AccP (some ix) s'.cons s'
  ok : AllOK s'
  sd : s'.sizeDict = s.sizeDict
  wher : s'.wher = s.wher
  ns : s'.nslices = s.nslices
  orig : s'.originalFlops = s.originalFlops
  cons : s'.cons = s.cons.set i (sliceCon ix d (s.cons.getD i default))
  hasF : ∀ x, AL.has s.fred x = true → AL.has s'.fred x = true
  hasW : ∀ x, AL.has s.wred x = true → AL.has s'.wred x = true

theorem removeStep_out (ix : Ix) (d : Nat) (s : Costs) (i : Nat)
    (hacc : AccP (some ix) s.cons s) (hok : AllOK s) (hpos : SdPos s.sizeDict)
    (hd : d = szOf s.sizeDict ix) (hi : i < s.cons.length)
    (hin : ix ∈ (s.cons.getD i default).involved) :
    StepOut ix d s i (removeStep ix d s i) := by
  subst hd
  set old := s.cons.getD i default with hold
  have holdOK : ConOK s.sizeDict old := hok old (getD_mem _ _ hi)
  have hnewOK := sliceCon_ok s.sizeDict hpos ix old holdOK hin
  set new := sliceCon ix (szOf s.sizeDict ix) old with hnew
  have hdpos := hpos ix
  have hlen : (s.cons.set i new).length = s.cons.length := by simp
  have hinv : ∀ o, o ≠ ix → (o ∈ new.involved ↔ o ∈ old.involved) := by
    intro o ho
    show o ∈ old.involved.filter (· != ix) ↔ _
    rw [mem_filter_ne]; simp [ho]
  refine ⟨⟨?_, ?_, ?_, ?_, ?_, ?_⟩, ?_, rfl, rfl, rfl, rfl, rfl, ?_, ?_⟩
  · -- flops
    show s.flops + ((new.flops : Int) - old.flops) = ((s.cons.set i new).map fun c => (c.flops : Int)).sum
    rw [spec_set _ _ _ _ hi, hacc.flops]
  · -- sizes
    show MaxCounter.Rep (if old.legs.contains ix then (s.mxsizes.discard old.size).add new.size
      else s.mxsizes) ((s.cons.set i new).map (·.size))
    split
    · apply rep_perm _ (map_set_perm s.cons i new (·.size) hi).symm
      apply MaxCounter.rep_add
      apply MaxCounter.rep_discard _ _ _ hacc.sizes
      exact List.mem_map.2 ⟨old, getD_mem _ _ hi, rfl⟩
    · rename_i hc
      have hnm : ix ∉ old.legs := by simpa using hc
      have hsz : new.size = old.size := by simp [hnew, sliceCon, hnm]
      have : (s.cons.set i new).map (·.size) = s.cons.map (·.size) := by
        rw [List.map_set, hsz]
        apply List.ext_getElem (by simp)
        intro k h1 h2
        simp only [List.getElem_set, List.getElem_map]
        split
        · rename_i e; subst e
          simp [hold, List.getD_eq_getElem?_getD, hi]
        · rfl
      rw [this]; exact hacc.sizes
  · -- where (other indices)
    intro o ho k
    have ho' : o ≠ ix := fun e => ho (by rw [e])
    show k ∈ (AL.get? s.wher o).getD [] ↔
      (k < (s.cons.set i new).length ∧ o ∈ ((s.cons.set i new).getD k default).involved)
    rw [hacc.wher o ho k, hlen, getD_set]
    by_cases hk : k = i ∧ i < s.cons.length
    · rw [if_pos hk, hk.1, hinv o ho']
    · rw [if_neg hk]
  · exact hacc.wherNd
  · -- flop reductions of the other indices
    intro o ho
    have ho' : o ≠ ix := fun e => ho (by rw [e])
    show IDict.get (new.involved.foldl (updFred s.sizeDict old.flops (szOf s.sizeDict ix)) s.fred) o =
      fredSpec s.sizeDict (s.cons.set i new) o
    rw [fold_updFred_get _ _ _ _ _ hnewOK.nodupI, hacc.fred o ho]
    unfold fredSpec
    rw [spec_set _ _ _ _ hi]
    congr 1
    rw [← hold]
    by_cases hm : o ∈ old.involved
    · have hm' : o ∈ new.involved := (hinv o ho').2 hm
      rw [if_pos hm', if_pos hm', if_pos hm]
      -- F = d * (di * R)
      have hF1 := prodSz_filter_mem s.sizeDict _ ix holdOK.nodupI hin
      have hm2 : o ∈ old.involved.filter (· != ix) := by rw [mem_filter_ne]; exact ⟨hm, ho'⟩
      have hF2 := prodSz_filter_mem s.sizeDict _ o (holdOK.nodupI.filter _) hm2
      have hF : old.flops = szOf s.sizeDict ix * (szOf s.sizeDict o *
          prodSz s.sizeDict ((old.involved.filter (· != ix)).filter (· != o))) := by
        rw [holdOK.flops, hF1, hF2]
      have hnf : new.flops = old.flops / szOf s.sizeDict ix := rfl
      rw [hnf, red_slice _ _ _ _ hdpos (hpos o) hF]
    · have hm' : ¬ o ∈ new.involved := fun h => hm ((hinv o ho').1 h)
      rw [if_neg hm', if_neg hm', if_neg hm]; simp
  · -- write reductions of the other indices
    intro o ho
    have ho' : o ≠ ix := fun e => ho (by rw [e])
    show IDict.get (if old.legs.contains ix then
        new.legs.foldl (updWred s.sizeDict old.size (szOf s.sizeDict ix)) s.wred else s.wred) o =
      wredSpec s.sizeDict (s.cons.set i new) o
    unfold wredSpec
    rw [spec_set _ _ _ _ hi, ← hold]
    by_cases hc : old.legs.contains ix = true
    · have hl : ix ∈ old.legs := by simpa using hc
      have hnl : new.legs = old.legs.filter (· != ix) := by simp [hnew, sliceCon, hl]
      have hns : new.size = old.size / szOf s.sizeDict ix := by simp [hnew, sliceCon, hl]
      rw [if_pos hc, fold_updWred_get _ _ _ _ _ hnewOK.nodupL, hacc.wred o ho]
      unfold wredSpec
      congr 1
      by_cases hm : o ∈ old.legs
      · have hmi : o ∈ old.involved := holdOK.sub o hm
        have hm' : o ∈ new.legs := by rw [hnl, mem_filter_ne]; exact ⟨hm, ho'⟩
        rw [if_pos hm', if_pos ⟨(hinv o ho').2 hmi, hm'⟩, if_pos ⟨hmi, hm⟩]
        have hF1 := prodSz_filter_mem s.sizeDict _ ix holdOK.nodupL hl
        have hm2 : o ∈ old.legs.filter (· != ix) := by rw [mem_filter_ne]; exact ⟨hm, ho'⟩
        have hF2 := prodSz_filter_mem s.sizeDict _ o (holdOK.nodupL.filter _) hm2
        have hF : old.size = szOf s.sizeDict ix * (szOf s.sizeDict o *
            prodSz s.sizeDict ((old.legs.filter (· != ix)).filter (· != o))) := by
          rw [holdOK.size, hF1, hF2]
        rw [hns, ← red_slice _ _ _ _ hdpos (hpos o) hF]; ring
      · have hm' : ¬ o ∈ new.legs := by rw [hnl, mem_filter_ne]; exact fun h => hm h.1
        rw [if_neg hm', if_neg (fun h => hm' h.2), if_neg (fun h => hm h.2)]; simp
    · have hnm : ix ∉ old.legs := by simpa using hc
      have hnl : new.legs = old.legs := by simp [hnew, sliceCon, hnm]
      have hns : new.size = old.size := by simp [hnew, sliceCon, hnm]
      rw [if_neg hc, hacc.wred o ho]
      unfold wredSpec
      have : (if o ∈ new.involved ∧ o ∈ new.legs then red new.size (szOf s.sizeDict o) else 0) =
          (if o ∈ old.involved ∧ o ∈ old.legs then red old.size (szOf s.sizeDict o) else 0) := by
        rw [hnl, hns]
        by_cases hm : o ∈ old.involved
        · simp [hm, (hinv o ho').2 hm]
        · have hm' : o ∉ new.involved := fun h => hm ((hinv o ho').1 h)
          simp [hm, hm']
      rw [this]; simp
  · -- AllOK
    intro c hc
    show ConOK s.sizeDict c
    rcases List.mem_or_eq_of_mem_set hc with h | h
    · exact hok c h
    · rw [h]; exact hnewOK
  · intro x hx
    show AL.has (new.involved.foldl (updFred s.sizeDict old.flops (szOf s.sizeDict ix)) s.fred) x = true
    rw [fold_updFred_has]; simp [hx]
  · intro x hx
    show AL.has (if old.legs.contains ix then
        new.legs.foldl (updWred s.sizeDict old.size (szOf s.sizeDict ix)) s.wred else s.wred) x = true
    split
    · rw [fold_updWred_has]; simp [hx]
    · exact hx

end Cotengra.Slicer

namespace Cotengra.Slicer
open Cotengra

/-! ### the whole loop and the final `del`s -/

/-- what `remove` does to one contraction tuple: nothing unless it involves `ix` -/
def sliceIf (ix : Ix) (d : Nat) (c : Con) : Con := if ix ∈ c.involved then sliceCon ix d c else c

theorem fold_set_getD (f : Con → Con) (ps : List Nat) (L : List Con) (hnd : ps.Nodup) (k : Nat) :
    (ps.foldl (fun L p => L.set p (f (L.getD p default))) L).getD k default =
      if k ∈ ps ∧ k < L.length then f (L.getD k default) else L.getD k default := by
  induction ps generalizing L with
  | nil => simp
  | cons p t ih =>
    have hnd' := List.nodup_cons.1 hnd
    simp only [List.foldl_cons]
    rw [ih _ hnd'.2, getD_set, List.length_set]
    by_cases hkp : k = p
    · subst hkp
      by_cases hk : k < L.length
      · simp [hnd'.1, hk]
      · simp [hnd'.1, hk]
    · have : ¬ (k = p ∧ p < L.length) := fun h => hkp h.1
      rw [if_neg this]
      simp only [List.mem_cons, hkp, false_or]

theorem fold_set_length (f : Con → Con) (ps : List Nat) (L : List Con) :
    (ps.foldl (fun L p => L.set p (f (L.getD p default))) L).length = L.length := by
  induction ps generalizing L with
  | nil => rfl
  | cons p t ih => simp only [List.foldl_cons, ih, List.length_set]

structure FoldOut (ix : Ix) (d : Nat) (s r : Costs) (ps : List Nat) : Prop where
  acc : AccP (some ix) r.cons r
  ok : AllOK r
  sd : r.sizeDict = s.sizeDict
  wher : r.wher = s.wher
  ns : r.nslices = s.nslices
  orig : r.originalFlops = s.originalFlops
  cons : r.cons = ps.foldl (fun L p => L.set p (sliceCon ix d (L.getD p default))) s.cons
  hasF : ∀ x, AL.has s.fred x = true → AL.has r.fred x = true
  hasW : ∀ x, AL.has s.wred x = true → AL.has r.wred x = true

theorem fold_removeStep (ix : Ix) (d : Nat) (ps : List Nat) (s : Costs)
    (hacc : AccP (some ix) s.cons s) (hok : AllOK s) (hpos : SdPos s.sizeDict)
    (hd : d = szOf s.sizeDict ix) (hnd : ps.Nodup)
    (hps : ∀ p ∈ ps, p < s.cons.length ∧ ix ∈ (s.cons.getD p default).involved) :
    FoldOut ix d s (ps.foldl (removeStep ix d) s) ps := by
  induction ps generalizing s with
  | nil => exact ⟨hacc, hok, rfl, rfl, rfl, rfl, rfl, fun _ h => h, fun _ h => h⟩
  | cons p t ih =>
    have hnd' := List.nodup_cons.1 hnd
    obtain ⟨hp1, hp2⟩ := hps p List.mem_cons_self
    have st := removeStep_out ix d s p hacc hok hpos hd hp1 hp2
    simp only [List.foldl_cons]
    have hps' : ∀ q ∈ t, q < (removeStep ix d s p).cons.length ∧
        ix ∈ ((removeStep ix d s p).cons.getD q default).involved := by
      intro q hq
      obtain ⟨hq1, hq2⟩ := hps q (List.mem_cons_of_mem _ hq)
      have hqp : ¬ q = p := fun e => hnd'.1 (e ▸ hq)
      rw [st.cons, List.length_set, getD_set]
      have : ¬ (q = p ∧ p < s.cons.length) := fun h => hqp h.1
      rw [if_neg this]
      exact ⟨hq1, hq2⟩
    have r := ih (removeStep ix d s p) st.acc st.ok (by rw [st.sd]; exact hpos)
      (by rw [st.sd]; exact hd) hnd'.2 hps'
    exact ⟨r.acc, r.ok, r.sd.trans st.sd, r.wher.trans st.wher, r.ns.trans st.ns,
      r.orig.trans st.orig, by rw [r.cons, st.cons]; rfl,
      fun x hx => r.hasF x (st.hasF x hx), fun x hx => r.hasW x (st.hasW x hx)⟩

theorem default_con_involved : (default : Con).involved = [] := rfl

theorem not_mem_sliceIf (ix : Ix) (d : Nat) (c : Con) : ix ∉ (sliceIf ix d c).involved := by
  unfold sliceIf
  split
  · show ix ∉ c.involved.filter (· != ix)
    rw [mem_filter_ne]; exact fun h => h.2 rfl
  · assumption

theorem conOK_del (sd : List (Ix × Nat)) (ix : Ix) (c : Con) (h : ConOK sd c) (hni : ix ∉ c.involved) :
    ConOK (AL.del sd ix) c := by
  have hnl : ix ∉ c.legs := fun hl => hni (h.sub ix hl)
  refine ⟨h.nodupI, h.nodupL, h.sub, ?_, ?_⟩
  · rw [prodSz_del _ _ _ hni]; exact h.flops
  · rw [prodSz_del _ _ _ hnl]; exact h.size

theorem sdPos_del (sd : List (Ix × Nat)) (ix : Ix) (h : SdPos sd) : SdPos (AL.del sd ix) := by
  intro o
  by_cases ho : o = ix
  · subst ho
    unfold szOf
    rw [AL.get?_del]; simp
  · rw [szOf_del _ _ _ ho]; exact h o

theorem spec_sum_zero (cons : List Con) (f : Con → Int) (h : ∀ c ∈ cons, f c = 0) :
    (cons.map f).sum = 0 := by
  induction cons with
  | nil => rfl
  | cons a t ih =>
    simp only [List.map_cons, List.sum_cons, h a List.mem_cons_self,
      ih (fun c hc => h c (List.mem_cons_of_mem _ hc)), add_zero]

structure RemoveOut (c c' : Costs) (ix : Ix) : Prop where
  acc : Acc c'
  ok : AllOK c'
  pos : SdPos c'.sizeDict
  cons : c'.cons = c.cons.map (sliceIf ix (szOf c.sizeDict ix))
  ns : c'.nslices = c.nslices * szOf c.sizeDict ix
  sd : c'.sizeDict = AL.del c.sizeDict ix
  orig : c'.originalFlops = c.originalFlops

/-- **`remove` is the from-scratch recomputation.** On a `ContractionCosts` object whose
    accumulators equal their definitions, `remove(ix)` (when none of its lookups raises) yields an
    object whose contraction list is the old one with `ix` erased from every tuple that involves
    it, whose accumulators again equal their definitions, and whose `nslices` is multiplied by
    the dimension of `ix`. -/
theorem remove_out (c c' : Costs) (ix : Ix) (hacc : Acc c) (hok : AllOK c) (hpos : SdPos c.sizeDict)
    (h : c.remove ix = some c') : RemoveOut c c' ix := by
  unfold Costs.remove at h
  split at h
  · rename_i hg
    simp only [Option.some.injEq] at h
    subst h
    set d := szOf c.sizeDict ix with hd
    set ps := (AL.get? c.wher ix).getD [] with hps
    -- state after the two assignments preceding the loop
    set c1 : Costs := { c with nslices := c.nslices * (AL.get? c.sizeDict ix).getD 1,
                               wher := AL.del c.wher ix } with hc1
    have hacc1 : AccP (some ix) c1.cons c1 := by
      refine ⟨hacc.flops, hacc.sizes, ?_, ?_, ?_, ?_⟩
      · intro o ho k
        have ho' : ¬ ix = o := fun e => ho (by rw [e])
        show k ∈ (AL.get? (AL.del c.wher ix) o).getD [] ↔ _
        rw [AL.get?_del, if_neg ho']
        exact hacc.wher o (by simp) k
      · intro o
        show ((AL.get? (AL.del c.wher ix) o).getD []).Nodup
        rw [AL.get?_del]
        split
        · simp
        · exact hacc.wherNd o
      · intro o _; exact hacc.fred o (by simp)
      · intro o _; exact hacc.wred o (by simp)
    have hpsW : ∀ p ∈ ps, p < c1.cons.length ∧ ix ∈ (c1.cons.getD p default).involved :=
      fun p hp => (hacc.wher ix (by simp) p).1 hp
    have fo := fold_removeStep ix d ps c1 hacc1 hok hpos hd (hacc.wherNd ix) hpsW
    have hcore : c.removeCore ix =
        { (ps.foldl (removeStep ix d) c1) with
            sizeDict := AL.del (ps.foldl (removeStep ix d) c1).sizeDict ix,
            fred := AL.del (ps.foldl (removeStep ix d) c1).fred ix,
            wred := AL.del (ps.foldl (removeStep ix d) c1).wred ix } := rfl
    set r := ps.foldl (removeStep ix d) c1 with hr
    -- the contraction list afterwards
    have hcons : r.cons = c.cons.map (sliceIf ix d) := by
      rw [fo.cons]
      apply List.ext_getElem (by rw [fold_set_length]; simp; rfl)
      intro k h1 h2
      have hk : k < c.cons.length := by rw [fold_set_length] at h1; exact h1
      have e1 := fold_set_getD (sliceCon ix d) ps c1.cons (hacc.wherNd ix) k
      rw [List.getD_eq_getElem?_getD, List.getElem?_eq_getElem h1] at e1
      simp only [Option.getD_some] at e1
      rw [e1, List.getElem_map]
      have hgk : c1.cons.getD k default = c.cons[k] := by
        show c.cons.getD k default = _
        simp [List.getD_eq_getElem?_getD, hk]
      rw [hgk]
      unfold sliceIf
      have hw := hacc.wher ix (by simp) k
      by_cases hin : ix ∈ c.cons[k].involved
      · have : k ∈ ps := hw.2 ⟨hk, by
          show ix ∈ (c.cons.getD k default).involved
          rw [show c.cons.getD k default = c.cons[k] from hgk]; exact hin⟩
        rw [if_pos ⟨this, hk⟩, if_pos hin]
      · have : ¬ (k ∈ ps ∧ k < c1.cons.length) := by
          intro hh
          have := (hw.1 hh.1).2
          rw [show c.cons.getD k default = c.cons[k] from hgk] at this
          exact hin this
        rw [if_neg this, if_neg hin]
    have hni : ∀ k, ix ∉ (r.cons.getD k default).involved := by
      intro k
      rw [hcons]
      by_cases hk : k < c.cons.length
      · rw [List.getD_eq_getElem?_getD, List.getElem?_map, List.getElem?_eq_getElem hk]
        exact not_mem_sliceIf ix d _
      · rw [List.getD_eq_getElem?_getD, List.getElem?_eq_none (by simp; omega)]
        simp [default_con_involved]
    have hnim : ∀ x ∈ r.cons, ix ∉ x.involved := by
      intro x hx
      rw [hcons] at hx
      obtain ⟨y, _, rfl⟩ := List.mem_map.1 hx
      exact not_mem_sliceIf ix d y
    rw [hcore]
    refine ⟨⟨fo.acc.flops, fo.acc.sizes, ?_, ?_, ?_, ?_⟩, ?_, ?_, hcons, ?_, ?_, ?_⟩
    · intro o _ k
      show k ∈ (AL.get? r.wher o).getD [] ↔ _
      by_cases ho : o = ix
      · subst ho
        rw [fo.wher]
        show k ∈ (AL.get? (AL.del c.wher o) o).getD [] ↔ _
        rw [AL.get?_del]
        simp only [if_true, Option.getD_none, List.not_mem_nil, false_iff]
        exact fun hh => hni k hh.2
      · exact fo.acc.wher o (fun e => ho (by injection e)) k
    · exact fo.acc.wherNd
    · intro o _
      show IDict.get (AL.del r.fred ix) o = fredSpec (AL.del r.sizeDict ix) r.cons o
      rw [IDict.get_del]
      by_cases ho : ix = o
      · subst ho
        rw [if_pos rfl]
        unfold fredSpec
        symm; apply spec_sum_zero
        intro x hx; rw [if_neg (hnim x hx)]
      · rw [if_neg ho, fo.acc.fred o (fun e => ho (by injection e; symm; assumption))]
        unfold fredSpec
        rw [szOf_del _ _ _ (fun e => ho e.symm)]
    · intro o _
      show IDict.get (AL.del r.wred ix) o = wredSpec (AL.del r.sizeDict ix) r.cons o
      rw [IDict.get_del]
      by_cases ho : ix = o
      · subst ho
        rw [if_pos rfl]
        unfold wredSpec
        symm; apply spec_sum_zero
        intro x hx; rw [if_neg (fun hh => hnim x hx hh.1)]
      · rw [if_neg ho, fo.acc.wred o (fun e => ho (by injection e; symm; assumption))]
        unfold wredSpec
        rw [szOf_del _ _ _ (fun e => ho e.symm)]
    · intro x hx
      exact conOK_del _ ix x (fo.ok x hx) (hnim x hx)
    · show SdPos (AL.del r.sizeDict ix)
      rw [fo.sd]; exact sdPos_del _ _ hpos
    · show r.nslices = _
      rw [fo.ns]; rfl
    · show AL.del r.sizeDict ix = _
      rw [fo.sd]
    · exact fo.orig
  · cases h

end Cotengra.Slicer
