import CotengraVerif.Lemmas.Sched
import CotengraVerif.Lemmas.PathsBasic
import CotengraVerif.Model.Stats

/-!
  `peak_size(order)` (core.py:1008-1024) against an independent definition of "peak concurrent
  memory along a schedule".

  The code keeps one running number: `tot += size(p); peak = max(peak, tot); tot -= size(l);
  tot -= size(r)`.  The definition keeps the *multiset of live tensors*: it starts as the inputs;
  a step `p = (l, r)` needs everything that is live (both operands among it) plus its output;
  afterwards the two operands are gone and `p` is live.  `stepsPeak` is the largest requirement
  over the steps.  `peakFold_eq` shows, for every children-first schedule (`Sched`), that the
  running number *is* the total size of the live multiset after every step — in particular the
  subtraction never goes below zero (the model uses truncating `Nat` subtraction, python exact
  integers: they agree) — and that the reported peak is the definition's.
-/
namespace Cotengra
namespace Net

theorem sumSz_perm (sz : BT → Nat) {a b : List BT} (h : a.Perm b) : sumSz sz a = sumSz sz b := by
  unfold sumSz
  exact (h.map sz).sum_eq

theorem liveStep_perm {a b : List BT} (h : a.Perm b) (p : BT) : (liveStep a p).Perm (liveStep b p) := by
  cases p with
  | leaf i => exact h
  | node l r =>
    unfold liveStep
    exact List.Perm.cons _ ((h.erase l).erase r)

theorem stepsPeak_perm (sz : BT → Nat) (order : List BT) :
    ∀ {a b : List BT}, a.Perm b → stepsPeak sz a order = stepsPeak sz b order := by
  induction order with
  | nil => intro a b _; rfl
  | cons p rest ih =>
    intro a b h
    unfold stepsPeak
    rw [sumSz_perm sz h, ih (liveStep_perm h p)]

theorem liveAfter_perm (order : List BT) :
    ∀ {a b : List BT}, a.Perm b → (liveAfter a order).Perm (liveAfter b order) := by
  induction order with
  | nil => intro a b h; exact h
  | cons p rest ih =>
    intro a b h
    unfold liveAfter
    exact ih (liveStep_perm h p)

/-- when both operands are live, the step replaces them by the output -/
theorem liveStep_of_perm {av av0 : List BT} {l r : BT} (h : av.Perm (l :: r :: av0)) :
    (liveStep av (.node l r)).Perm (.node l r :: av0) := by
  have h1 := liveStep_perm h (.node l r)
  refine h1.trans ?_
  unfold liveStep
  simp

/-- **the running total is the size of the live multiset; the peak is the definition's.**
    For every children-first schedule started with `av` live (`Sched av order fin`) and every
    value `pk` of the running peak: the loop ends with `tot_size` = total size of the tensors
    that are live at the end, and `peak` = the larger of `pk` and the largest step requirement. -/
theorem peakFold_eq (sz : BT → Nat) {av order fin : List BT} (h : Sched av order fin) (pk : Nat) :
    order.foldl (peakStep sz) (sumSz sz av, pk) = (sumSz sz fin, max pk (stepsPeak sz av order)) := by
  induction h generalizing pk with
  | nil hp =>
    simp only [List.foldl_nil, stepsPeak, Nat.max_zero]
    rw [sumSz_perm sz hp]
  | @step av av0 rest fin l r hp hs ih =>
    simp only [List.foldl_cons]
    have hsum : sumSz sz av = sz l + sz r + sumSz sz av0 := by
      rw [sumSz_perm sz hp]; simp [sumSz, Nat.add_assoc]
    have hstep : peakStep sz (sumSz sz av, pk) (.node l r) =
        (sumSz sz (.node l r :: av0), max pk (sumSz sz av + sz (.node l r))) := by
      unfold peakStep children
      simp only [List.map_cons, List.map_nil, List.sum_cons, List.sum_nil, Nat.add_zero]
      congr 1
      rw [hsum]
      simp only [sumSz, List.map_cons, List.sum_cons]
      omega
    rw [hstep, ih]
    congr 1
    show max (max pk (sumSz sz av + sz (.node l r))) (stepsPeak sz (.node l r :: av0) rest) =
      max pk (max (sumSz sz av + sz (.node l r)) (stepsPeak sz (liveStep av (.node l r)) rest))
    rw [stepsPeak_perm sz rest (liveStep_of_perm hp), Nat.max_assoc]

/-- the subtraction in the loop never truncates: before every step the two operands are part of
    the running total -/
theorem peakStep_no_underflow (sz : BT → Nat) {av av0 : List BT} {l r : BT}
    (hp : av.Perm (l :: r :: av0)) :
    ((children (.node l r)).map sz).sum ≤ sumSz sz av + sz (.node l r) := by
  rw [sumSz_perm sz hp]
  simp [children, sumSz]
  omega

/-- the live tensors after a children-first schedule are the ones `Sched` ends with -/
theorem liveAfter_of_sched {av order fin : List BT} (h : Sched av order fin) :
    (liveAfter av order).Perm fin := by
  induction h with
  | nil hp => exact hp
  | step hp _ ih =>
    unfold liveAfter
    exact (liveAfter_perm _ (liveStep_of_perm hp)).trans ih

/-- every step's output is counted in the peak requirement -/
theorem le_stepsPeak (sz : BT → Nat) (order : List BT) :
    ∀ (av : List BT) (p : BT), p ∈ order → sz p ≤ stepsPeak sz av order := by
  induction order with
  | nil => intro _ _ h; cases h
  | cons q rest ih =>
    intro av p hp
    unfold stepsPeak
    rcases List.mem_cons.1 hp with rfl | hp
    · exact Nat.le_trans (Nat.le_add_left _ _) (Nat.le_max_left _ _)
    · exact Nat.le_trans (ih _ p hp) (Nat.le_max_right _ _)

end Net
end Cotengra
