import CotengraVerif.Lemmas.IndsDefault

/-!
  The model of `sort_contraction_indices` (core.py:2920-3004) only ever stores, for a node,
  a permutation of what `get_inds` would give – never touches leaves or the root – so the table
  it leaves behind is admissible (`sortInds_ok`), whatever the processing order (`priority`) and
  the two flags.
-/
namespace Cotengra
open Cotengra.Net Cotengra.Legs

theorem BT.eq_of_beq : ∀ a b : BT, (a == b) = true → a = b := by
  intro a
  induction a with
  | leaf i =>
    intro b h
    cases b with
    | leaf j =>
      have : (i == j) = true := h
      simp at this; rw [this]
    | node c d => exact Bool.noConfusion (show false = true from h)
  | node l r ihl ihr =>
    intro b h
    cases b with
    | leaf j => exact Bool.noConfusion (show false = true from h)
    | node c d =>
      have : (l == c && r == d) = true := h
      simp only [Bool.and_eq_true] at this
      rw [ihl c this.1, ihr d this.2]

/-- the list `v` is an acceptable `info[s]["inds"]` -/
def GoodInds (n : Net) (rm : List Ix) (s : BT) (v : List Ix) : Prop :=
  match s with
  | .leaf i => v = keys (n.leafLegs rm i)
  | .node l r =>
    if (BT.node l r).leaves.length = n.inputs.length then v = n.outRm rm
    else v.Perm (keys (n.legs rm (.node l r)))

def TableOK (n : Net) (rm : List Ix) (tb : IndsTable) : Prop := ∀ e ∈ tb, GoodInds n rm e.1 e.2

theorem good_perm_of_lt (n : Net) (rm : List Ix) (c : BT) (v : List Ix)
    (h : GoodInds n rm c v) (hlt : c.leaves.length < n.inputs.length) :
    v.Perm (keys (n.legs rm c)) := by
  cases c with
  | leaf i => simp only [GoodInds] at h; rw [h]; exact List.Perm.refl _
  | node a b =>
    simp only [GoodInds] at h
    rw [if_neg (by omega)] at h
    exact h

/-- the default computation of a node's list from any orderings of its children's legs -/
theorem uniq_filter_perm (n : Net) (rm : List Ix) (l r : BT) (lI rI : List Ix)
    (hl : lI.Perm (keys (n.legs rm l))) (hr : rI.Perm (keys (n.legs rm r))) :
    (uniq ((lI ++ rI).filter fun ix => (n.legs rm (.node l r)).has ix)).Perm
      (keys (n.legs rm (.node l r))) := by
  rw [List.perm_ext_iff_of_nodup (nodup_uniq _) (keys_nodup_legs n rm _)]
  intro ix
  rw [mem_uniq, List.mem_filter, has_iff_mem_keys, List.mem_append, hl.mem_iff, hr.mem_iff]
  constructor
  · exact fun h => h.2
  · exact fun h => ⟨mem_keys_legs_node n rm l r ix h, h⟩

theorem find_good (n : Net) (rm : List Ix) (tb : IndsTable) (h : TableOK n rm tb) (s : BT)
    (e : BT × List Ix) (he : tb.find? (fun e => e.1 == s) = some e) : GoodInds n rm s e.2 := by
  have hm := List.mem_of_find?_eq_some he
  have hb := List.find?_some he
  have : e.1 = s := BT.eq_of_beq _ _ hb
  exact this ▸ h e hm

theorem cached_ok (n : Net) (rm : List Ix) (s : BT) (tb : IndsTable) (h : TableOK n rm tb)
    (hs : s.leaves.length ≤ n.inputs.length) :
    TableOK n rm (IndsTable.cached n rm tb s).1 ∧ GoodInds n rm s (IndsTable.cached n rm tb s).2 := by
  induction s generalizing tb with
  | leaf i =>
    simp only [IndsTable.cached]
    split
    · rename_i e he
      exact ⟨h, find_good n rm tb h _ e he⟩
    · exact ⟨h, rfl⟩
  | node l r ihl ihr =>
    simp only [IndsTable.cached]
    split
    · rename_i e he
      exact ⟨h, find_good n rm tb h _ e he⟩
    · split
      · rename_i hroot
        have hroot' : (BT.node l r).leaves.length = n.inputs.length := by simpa using hroot
        have hg : GoodInds n rm (.node l r) (keys (n.rootLegs rm)) := by
          simp only [GoodInds, hroot', if_true, keys_rootLegs]
        refine ⟨?_, hg⟩
        intro e he
        rcases List.mem_cons.1 he with rfl | he
        · exact hg
        · exact h e he
      · rename_i hroot
        have hne : (BT.node l r).leaves.length ≠ n.inputs.length := by simpa using hroot
        have hll : l.leaves.length < n.inputs.length := by
          simp only [BT.leaves, List.length_append] at hs hne
          have := leaves_length_pos r
          omega
        have hlr : r.leaves.length < n.inputs.length := by
          simp only [BT.leaves, List.length_append] at hs hne
          have := leaves_length_pos l
          omega
        obtain ⟨h1, g1⟩ := ihl tb h (by omega)
        obtain ⟨h2, g2⟩ := ihr _ h1 (by omega)
        have hg : GoodInds n rm (.node l r)
            (uniq (((IndsTable.cached n rm tb l).2 ++
              (IndsTable.cached n rm (IndsTable.cached n rm tb l).1 r).2).filter
              fun ix => (n.legs rm (.node l r)).has ix)) := by
          simp only [GoodInds, hne, if_false]
          exact uniq_filter_perm n rm l r _ _ (good_perm_of_lt n rm l _ g1 hll)
            (good_perm_of_lt n rm r _ g2 hlr)
        refine ⟨?_, hg⟩
        intro e he
        rcases List.mem_cons.1 he with rfl | he
        · exact hg
        · exact h2 e he

theorem sortBy2_perm (a b l : List Ix) : (sortBy2 a b l).Perm l :=
  (sortBy_perm _ _).trans (sortBy_perm _ _)

theorem tableOK_cons (n : Net) (rm : List Ix) (tb : IndsTable) (h : TableOK n rm tb) (s : BT)
    (v : List Ix) (g : GoodInds n rm s v) : TableOK n rm ((s, v) :: tb) := by
  intro e he
  rcases List.mem_cons.1 he with rfl | he
  · exact g
  · exact h e he

theorem good_node_of_perm (n : Net) (rm : List Ix) (c : BT) (v : List Ix)
    (hne1 : c.leaves.length ≠ 1) (hlt : c.leaves.length < n.inputs.length)
    (hp : v.Perm (keys (n.legs rm c))) : GoodInds n rm c v := by
  cases c with
  | leaf i => simp [BT.leaves] at hne1
  | node a b =>
    simp only [GoodInds]
    rw [if_neg (by omega)]
    exact hp

theorem sortNode_ok (n : Net) (rm : List Ix) (oc cc : Bool) (tb : IndsTable)
    (h : TableOK n rm tb) (p : BT) (hp : p.leaves.length ≤ n.inputs.length) :
    TableOK n rm (sortNode n rm oc cc tb p) := by
  cases p with
  | leaf i => exact h
  | node l r =>
    have hll : l.leaves.length < n.inputs.length := by
      simp only [BT.leaves, List.length_append] at hp
      have := leaves_length_pos r
      omega
    have hlr : r.leaves.length < n.inputs.length := by
      simp only [BT.leaves, List.length_append] at hp
      have := leaves_length_pos l
      omega
    obtain ⟨h1, gp⟩ := cached_ok n rm (.node l r) tb h hp
    obtain ⟨h2, gl⟩ := cached_ok n rm l _ h1 (by omega)
    obtain ⟨h3, gr⟩ := cached_ok n rm r _ h2 (by omega)
    simp only [sortNode]
    generalize (IndsTable.cached n rm tb (.node l r)) = c1 at *
    obtain ⟨tb1, pI⟩ := c1
    simp only at h1 gp h2 gl h3 gr ⊢
    generalize (IndsTable.cached n rm tb1 l) = c2 at *
    obtain ⟨tb2, lI⟩ := c2
    simp only at h2 gl h3 gr ⊢
    generalize (IndsTable.cached n rm tb2 r) = c3 at *
    obtain ⟨tb3, rI⟩ := c3
    simp only at h3 gr ⊢
    -- the parent's entry
    by_cases hoc : (oc && (BT.node l r).leaves.length != n.inputs.length) = true
    · have hne : (BT.node l r).leaves.length ≠ n.inputs.length := by
        simp only [Bool.and_eq_true, bne_iff_ne, ne_eq] at hoc
        exact hoc.2
      have gp' : GoodInds n rm (.node l r) (sortBy2 rI lI pI) := by
        simp only [GoodInds, hne, if_false] at gp ⊢
        exact (sortBy2_perm _ _ _).trans gp
      have h4 := tableOK_cons n rm tb3 h3 _ _ gp'
      simp only [hoc, if_true]
      by_cases hcc : cc = true
      · simp only [hcc, if_true]
        by_cases hl1 : (l.leaves.length != 1) = true
        · have gl' : GoodInds n rm l (sortBy2 rI (sortBy2 rI lI pI) (keys (n.legsR rm l))) := by
            apply good_node_of_perm n rm l _ (by simpa using hl1) hll
            rw [legsR_of_lt n rm l hll]
            exact sortBy2_perm _ _ _
          have h5 := tableOK_cons n rm _ h4 _ _ gl'
          simp only [hl1, if_true]
          by_cases hr1 : (r.leaves.length != 1) = true
          · simp only [hr1, if_true]
            apply tableOK_cons n rm _ h5
            apply good_node_of_perm n rm r _ (by simpa using hr1) hlr
            rw [legsR_of_lt n rm r hlr]
            exact sortBy2_perm _ _ _
          · simp only [hr1]
            exact h5
        · simp only [hl1]
          by_cases hr1 : (r.leaves.length != 1) = true
          · simp only [hr1, if_true]
            apply tableOK_cons n rm _ h4
            apply good_node_of_perm n rm r _ (by simpa using hr1) hlr
            rw [legsR_of_lt n rm r hlr]
            exact sortBy2_perm _ _ _
          · simp only [hr1]
            exact h4
      · simp only [hcc]
        exact h4
    · simp only [hoc]
      by_cases hcc : cc = true
      · simp only [hcc, if_true]
        by_cases hl1 : (l.leaves.length != 1) = true
        · have gl' : GoodInds n rm l (sortBy2 rI pI (keys (n.legsR rm l))) := by
            apply good_node_of_perm n rm l _ (by simpa using hl1) hll
            rw [legsR_of_lt n rm l hll]
            exact sortBy2_perm _ _ _
          have h5 := tableOK_cons n rm _ h3 _ _ gl'
          simp only [hl1, if_true]
          by_cases hr1 : (r.leaves.length != 1) = true
          · simp only [hr1, if_true]
            apply tableOK_cons n rm _ h5
            apply good_node_of_perm n rm r _ (by simpa using hr1) hlr
            rw [legsR_of_lt n rm r hlr]
            exact sortBy2_perm _ _ _
          · simp only [hr1]
            exact h5
        · simp only [hl1]
          by_cases hr1 : (r.leaves.length != 1) = true
          · simp only [hr1, if_true]
            apply tableOK_cons n rm _ h3
            apply good_node_of_perm n rm r _ (by simpa using hr1) hlr
            rw [legsR_of_lt n rm r hlr]
            exact sortBy2_perm _ _ _
          · simp only [hr1]
            exact h3
      · simp only [hcc]
        exact h3

theorem sortFold_ok (n : Net) (rm : List Ix) (oc cc : Bool) (proc : List BT) (tb : IndsTable)
    (h : TableOK n rm tb) (hp : ∀ p ∈ proc, p.leaves.length ≤ n.inputs.length) :
    TableOK n rm (proc.foldl (sortNode n rm oc cc) tb) := by
  induction proc generalizing tb with
  | nil => exact h
  | cons p ps ih =>
    simp only [List.foldl_cons]
    exact ih _ (sortNode_ok n rm oc cc tb h p (hp p List.mem_cons_self))
      (fun q hq => hp q (List.mem_cons_of_mem _ hq))

/-- **`sort_contraction_indices` leaves an admissible table behind**, for every processing
    order `proc` over nodes of the tree (any `priority`) and both flags. -/
theorem sortInds_ok (n : Net) (rm : List Ix) (t : BT) (oc cc : Bool) (proc : List BT)
    (hN : 2 ≤ n.inputs.length) (hc : Complete n t)
    (hp : ∀ p ∈ proc, p.leaves.length ≤ n.inputs.length) :
    IndsOK n rm t (sortInds n rm oc cc proc) := by
  have hNt := complete_length n t hc
  have htb := sortFold_ok n rm oc cc proc [] (fun _ h => by cases h) hp
  refine ⟨?_, ?_, ?_⟩
  · intro i
    have := (cached_ok n rm (.leaf i) _ htb (by simp [BT.leaves]; omega)).2
    exact this
  · cases t with
    | leaf i => simp [BT.leaves] at hNt; omega
    | node a b =>
      have := (cached_ok n rm (.node a b) _ htb (by omega)).2
      simp only [GoodInds, hNt, if_true] at this
      exact this
  · intro s hs hne
    have hlt := internal_proper t s hs hne
    obtain ⟨a, b, rfl⟩ := C03.internal_is_node t s hs
    have := (cached_ok n rm (.node a b) _ htb (by omega)).2
    simp only [GoodInds] at this
    rw [if_neg (by omega)] at this
    exact this

end Cotengra
