import CotengraVerif.Model.Flow

/-!
  Noninterference for the three-source semantics of `Model/Flow.lean`, and soundness of the
  table decision procedure `cleanFrom` (core Lean only).
-/
namespace Cotengra.Flow

variable {σ : Type}

/-- two environments agree on what a seeded call may depend on: the store (arguments and every
    value computed from them) and the seeded generator -/
def LowEq (a b : Env σ) : Prop := a.store = b.store ∧ a.seeded = b.seeded

/-- results agree: both out of fuel, or both finished in `LowEq` environments -/
def OptLowEq : Option (Env σ) → Option (Env σ) → Prop
  | some a, some b => LowEq a b
  | none, none => True
  | _, _ => False

/-- `g` is reachable from `f` through the calls that occur in the bodies -/
inductive Reach (P : Prog σ) : FnId → FnId → Prop
  | refl (f : FnId) : Reach P f f
  | step {f g h : FnId} : g ∈ (P f).calls → Reach P g h → Reach P f h

/-- the body of `g` reads neither the global generator nor the hash order nor the completion
    order of pool workers -/
def FnClean (P : Prog σ) (g : FnId) : Prop :=
  (P g).reads .global = false ∧ (P g).reads .hash = false ∧ (P g).reads .sched = false

/-- nothing reachable from `f` reads the global generator, the hash order or the schedule -/
def Clean (P : Prog σ) (f : FnId) : Prop := ∀ g, Reach P f g → FnClean P g

/-- a command reads only the seeded source -/
def RdClean (c : Cmd σ) : Prop :=
  c.reads .global = false ∧ c.reads .hash = false ∧ c.reads .sched = false

def CmdClean (P : Prog σ) (c : Cmd σ) : Prop :=
  RdClean c ∧ ∀ g ∈ c.calls, Clean P g

theorem cmdClean_body (P : Prog σ) (f : FnId) (h : Clean P f) : CmdClean P (P f) := by
  refine ⟨h f (Reach.refl f), ?_⟩
  intro g hg k hk
  exact h k (Reach.step hg hk)

theorem rdClean_or {a b : Cmd σ}
    (h : ∀ t, (a.reads t || b.reads t) = false → a.reads t = false ∧ b.reads t = false)
    (hc : (a.reads .global || b.reads .global) = false ∧ (a.reads .hash || b.reads .hash) = false ∧
      (a.reads .sched || b.reads .sched) = false) : RdClean a ∧ RdClean b :=
  ⟨⟨(h _ hc.1).1, (h _ hc.2.1).1, (h _ hc.2.2).1⟩, ⟨(h _ hc.1).2, (h _ hc.2.1).2, (h _ hc.2.2).2⟩⟩

theorem or_false_split (x y : Bool) (h : (x || y) = false) : x = false ∧ y = false := by
  cases x <;> cases y <;> simp_all

theorem optLowEq_bind {r1 r2 : Option (Env σ)} {k1 k2 : Env σ → Option (Env σ)}
    (h : OptLowEq r1 r2) (hk : ∀ a b, LowEq a b → OptLowEq (k1 a) (k2 b)) :
    OptLowEq (r1.bind k1) (r2.bind k2) := by
  cases r1 <;> cases r2 <;> simp only [OptLowEq, Option.bind] at h ⊢
  exact hk _ _ h

/-- core lemma: a clean command maps `LowEq` environments to `LowEq` results, whatever the
    global generators, hash orders and worker schedules of the two environments are -/
theorem exec_lowEq (P : Prog σ) : ∀ (n : Nat) (c : Cmd σ) (e1 e2 : Env σ),
    CmdClean P c → LowEq e1 e2 → OptLowEq (exec P n c e1) (exec P n c e2) := by
  intro n
  induction n with
  | zero => intro c e1 e2 _ _; simp [exec, OptLowEq]
  | succ n ih =>
    intro c e1 e2 hc hl
    obtain ⟨hs, hg⟩ := hl
    cases c with
    | pure f =>
      simp only [exec, OptLowEq, LowEq]
      exact ⟨by rw [hs], hg⟩
    | draw s k =>
      have h1 := hc.1.1
      have h2 := hc.1.2.1
      have h3 := hc.1.2.2
      cases s with
      | seeded =>
        simp only [exec, Env.read, Gen.next, OptLowEq, LowEq]
        exact ⟨by rw [hs, hg], by rw [hg]⟩
      | global => simp [Cmd.reads] at h1
      | hash => simp [Cmd.reads] at h2
      | sched => simp [Cmd.reads] at h3
    | seq a b =>
      have hr := rdClean_or (a := a) (b := b) (fun t h => or_false_split _ _ h)
        (by simpa only [RdClean, Cmd.reads] using hc.1)
      have hca : CmdClean P a := ⟨hr.1, fun g hgm => hc.2 g (by simp [Cmd.calls, hgm])⟩
      have hcb : CmdClean P b := ⟨hr.2, fun g hgm => hc.2 g (by simp [Cmd.calls, hgm])⟩
      simp only [exec]
      exact optLowEq_bind (ih a e1 e2 hca ⟨hs, hg⟩) (fun x y hxy => ih b x y hcb hxy)
    | ite cnd a b =>
      have hr := rdClean_or (a := a) (b := b) (fun t h => or_false_split _ _ h)
        (by simpa only [RdClean, Cmd.reads] using hc.1)
      have hca : CmdClean P a := ⟨hr.1, fun g hgm => hc.2 g (by simp [Cmd.calls, hgm])⟩
      have hcb : CmdClean P b := ⟨hr.2, fun g hgm => hc.2 g (by simp [Cmd.calls, hgm])⟩
      simp only [exec, hs]
      split
      · exact ih a e1 e2 hca ⟨hs, hg⟩
      · exact ih b e1 e2 hcb ⟨hs, hg⟩
    | loop cnd body =>
      have hcb : CmdClean P body :=
        ⟨by simpa only [RdClean, Cmd.reads] using hc.1,
         fun g hgm => hc.2 g (by simpa [Cmd.calls] using hgm)⟩
      simp only [exec, hs]
      split
      · exact optLowEq_bind (ih body e1 e2 hcb ⟨hs, hg⟩)
          (fun x y hxy => ih (.loop cnd body) x y hc hxy)
      · simp only [OptLowEq, LowEq]; exact ⟨hs, hg⟩
    | call f =>
      simp only [exec]
      have hf : Clean P f := hc.2 f (by simp [Cmd.calls])
      exact ih (P f) e1 e2 (cmdClean_body P f hf) ⟨hs, hg⟩

/-- **Noninterference.**  If nothing reachable from `f` reads the global generator or the hash
    order, then the outcome of calling `f` (final store, state of the seeded generator, and
    whether it terminates within the fuel) is a function of the store and the seeded generator
    alone. -/
theorem noninterference (P : Prog σ) (f : FnId) (h : Clean P f) (fuel : Nat) (e1 e2 : Env σ)
    (hl : LowEq e1 e2) : OptLowEq (exec P fuel (.call f) e1) (exec P fuel (.call f) e2) := by
  apply exec_lowEq P fuel (.call f) e1 e2 _ hl
  refine ⟨⟨rfl, rfl, rfl⟩, ?_⟩
  intro g hg
  simp only [Cmd.calls, List.mem_singleton] at hg
  subst hg
  exact h

/-- what a clean command may not even touch: the global generator (its position), the hash
    parameter and the schedule tape -/
def Untouched (e e' : Env σ) : Prop := e'.global = e.global ∧ e'.hash = e.hash ∧ e'.sched = e.sched

theorem exec_untouched (P : Prog σ) : ∀ (n : Nat) (c : Cmd σ) (e e' : Env σ),
    CmdClean P c → exec P n c e = some e' → Untouched e e' := by
  intro n
  induction n with
  | zero => intro c e e' _ h; simp [exec] at h
  | succ n ih =>
    intro c e e' hc h
    cases c with
    | pure f =>
      simp only [exec, Option.some.injEq] at h
      subst h; exact ⟨rfl, rfl, rfl⟩
    | draw s k =>
      have h1 := hc.1.1
      have h2 := hc.1.2.1
      have h3 := hc.1.2.2
      cases s with
      | seeded =>
        simp only [exec, Env.read, Gen.next, Option.some.injEq] at h
        subst h; exact ⟨rfl, rfl, rfl⟩
      | global => simp [Cmd.reads] at h1
      | hash => simp [Cmd.reads] at h2
      | sched => simp [Cmd.reads] at h3
    | seq a b =>
      have hr := rdClean_or (a := a) (b := b) (fun t h => or_false_split _ _ h)
        (by simpa only [RdClean, Cmd.reads] using hc.1)
      have hca : CmdClean P a := ⟨hr.1, fun g hgm => hc.2 g (by simp [Cmd.calls, hgm])⟩
      have hcb : CmdClean P b := ⟨hr.2, fun g hgm => hc.2 g (by simp [Cmd.calls, hgm])⟩
      simp only [exec] at h
      cases h1 : exec P n a e with
      | none => simp [h1] at h
      | some e1 =>
        simp only [h1, Option.bind] at h
        have u1 := ih a e e1 hca h1
        have u2 := ih b e1 e' hcb h
        exact ⟨u2.1.trans u1.1, u2.2.1.trans u1.2.1, u2.2.2.trans u1.2.2⟩
    | ite cnd a b =>
      have hr := rdClean_or (a := a) (b := b) (fun t h => or_false_split _ _ h)
        (by simpa only [RdClean, Cmd.reads] using hc.1)
      have hca : CmdClean P a := ⟨hr.1, fun g hgm => hc.2 g (by simp [Cmd.calls, hgm])⟩
      have hcb : CmdClean P b := ⟨hr.2, fun g hgm => hc.2 g (by simp [Cmd.calls, hgm])⟩
      simp only [exec] at h
      split at h
      · exact ih a e e' hca h
      · exact ih b e e' hcb h
    | loop cnd body =>
      have hcb : CmdClean P body :=
        ⟨by simpa only [RdClean, Cmd.reads] using hc.1,
         fun g hgm => hc.2 g (by simpa [Cmd.calls] using hgm)⟩
      simp only [exec] at h
      split at h
      · cases h1 : exec P n body e with
        | none => simp [h1] at h
        | some e1 =>
          simp only [h1, Option.bind] at h
          have u1 := ih body e e1 hcb h1
          have u2 := ih (.loop cnd body) e1 e' hc h
          exact ⟨u2.1.trans u1.1, u2.2.1.trans u1.2.1, u2.2.2.trans u1.2.2⟩
      · simp only [Option.some.injEq] at h
        subst h; exact ⟨rfl, rfl, rfl⟩
    | call f =>
      simp only [exec] at h
      have hf : Clean P f := hc.2 f (by simp [Cmd.calls])
      exact ih (P f) e e' (cmdClean_body P f hf) h

/-- **A clean entry point leaves the process-global generator exactly where it was** (and the
    schedule tape): the state of `random` / `numpy.random` after a seeded call equals the state
    before it.  This is what the harness observes on every call (`random.getstate()`). -/
theorem clean_leaves_global_untouched (P : Prog σ) (f : FnId) (h : Clean P f) (fuel : Nat)
    (e e' : Env σ) (hex : exec P fuel (.call f) e = some e') : Untouched e e' := by
  apply exec_untouched P fuel (.call f) e e' _ hex
  refine ⟨⟨rfl, rfl, rfl⟩, ?_⟩
  intro g hg
  simp only [Cmd.calls, List.mem_singleton] at hg
  subst hg
  exact h

/-! ## the fact table over-approximates the program -/

/-- every read and every call of every body is recorded in the table -/
def Covers (T : List Facts) (P : Prog σ) : Prop :=
  ∀ f, ((P f).reads .global = true → (getFacts T f).rdGlobal = true) ∧
       ((P f).reads .hash = true → (getFacts T f).rdHash = true) ∧
       ((P f).reads .sched = true → (getFacts T f).rdSched = true) ∧
       ∀ g ∈ (P f).calls, g ∈ (getFacts T f).calls

theorem closedClean_row (T : List Facts) (R : FSet) (hc : closedClean T R = true) (f : FnId)
    (hf : inSet T R f = true) :
    (getFacts T f).rdGlobal = false ∧ (getFacts T f).rdHash = false ∧
      (getFacts T f).rdSched = false ∧
      ∀ g ∈ (getFacts T f).calls, inSet T R g = true := by
  unfold inSet at hf
  simp only [Bool.and_eq_true, decide_eq_true_eq] at hf
  have hrow := (List.all_eq_true.1 hc) f (List.mem_range.2 hf.1)
  simp only [hf.2, Bool.not_true, Bool.false_or, Bool.and_eq_true, Bool.not_eq_true'] at hrow
  exact ⟨hrow.1.1.1, hrow.1.1.2, hrow.1.2, fun g hg => (List.all_eq_true.1 hrow.2) g hg⟩

theorem closed_reach (T : List Facts) (P : Prog σ) (R : FSet)
    (hc : closedClean T R = true) (hcov : Covers T P) {f g : FnId} (hr : Reach P f g) :
    inSet T R f = true → inSet T R g = true := by
  induction hr with
  | refl f => exact id
  | @step f' g' _ hcall _ ih =>
    intro hf
    apply ih
    exact (closedClean_row T R hc f' hf).2.2.2 g' ((hcov f').2.2.2 g' hcall)

theorem closed_sound (T : List Facts) (P : Prog σ) (R : FSet)
    (hc : closedClean T R = true) (hcov : Covers T P) (f : FnId) (hf : inSet T R f = true) :
    Clean P f := by
  intro g hr
  have hg := closed_reach T P R hc hcov hr hf
  have hrow := closedClean_row T R hc g hg
  refine ⟨?_, ?_, ?_⟩
  · cases h : (P g).reads .global with
    | false => rfl
    | true => have := (hcov g).1 h; rw [hrow.1] at this; cases this
  · cases h : (P g).reads .hash with
    | false => rfl
    | true => have := (hcov g).2.1 h; rw [hrow.2.1] at this; cases this
  · cases h : (P g).reads .sched with
    | false => rfl
    | true => have := (hcov g).2.2.1 h; rw [hrow.2.2.1] at this; cases this

/-- soundness of the decision procedure that `decide` / the driver run on the extracted table -/
theorem cleanFrom_sound (T : List Facts) (P : Prog σ) (hcov : Covers T P) (f : FnId)
    (h : cleanFrom T f = true) : Clean P f := by
  unfold cleanFrom at h
  simp only [Bool.and_eq_true] at h
  exact closed_sound T P _ h.2 hcov f h.1

theorem cleanAll_sound (T : List Facts) (P : Prog σ) (hcov : Covers T P) (es : List FnId)
    (h : cleanAll T es = true) : ∀ e ∈ es, Clean P e := by
  unfold cleanAll at h
  simp only [Bool.and_eq_true] at h
  intro e he
  exact closed_sound T P _ h.2 hcov e ((List.all_eq_true.1 h.1) e he)

end Cotengra.Flow

namespace Cotengra.Share

/-- a container of the copy above the copy depth is private: it is no container of the original -/
theorem copy_private (o : Obj) (he : AllEven o) (d : Nat) (p : List Nat) (hp : p.length < d)
    (q : List Nat) : copyD d o p ≠ o q := by
  unfold copyD
  simp only [hp, if_true]
  intro h
  have h2 := he q
  omega

/-- at or below the copy depth the copy's container *is* the original's -/
theorem copy_shared (o : Obj) (d : Nat) (p : List Nat) (hp : d ≤ p.length) : copyD d o p = o p := by
  unfold copyD
  have : ¬ p.length < d := by omega
  simp [this]

/-- soundness of the table check: if every attribute is copied at least as deep as it is mutated,
    then every in-place mutation performed through a copy (at any depth up to the deepest one
    observed for that attribute) writes into a container the original does not own -- a
    non-inplace operation cannot change the state, visible or hidden, of its argument -/
theorem safe_sound (rows : List (Nat × Nat)) (h : safe rows = true) :
    ∀ r ∈ rows, ∀ (o : Obj), AllEven o → ∀ (p : List Nat), p.length + 1 ≤ r.2 →
      ∀ q, copyD r.1 o p ≠ o q := by
  intro r hr o he p hp q
  have hrow := (List.all_eq_true.1 h) r hr
  simp only [decide_eq_true_eq] at hrow
  exact copy_private o he r.1 p (by omega) q

end Cotengra.Share

