import CotengraVerif.Model.Strip
import Mathlib.Algebra.BigOperators.Ring.List
import Mathlib.Algebra.Order.Field.Basic
import Mathlib.Algebra.Order.Ring.Abs
import Mathlib.Data.List.GetD
import Mathlib.Tactic.Ring
import Mathlib.Tactic.FieldSimp

/-!
  Algebra of the stripping interpreter (`Model/Strip.lean`) over any linearly ordered field:
  every step is homogeneous in each operand (multilinearity), `max|x|` scales with `|c|`, the
  normalised array has `max|x| = 1`.
-/
namespace Cotengra.Strip

set_option linter.unusedSectionVars false

variable {α : Type} [Field α] [LinearOrder α] [IsStrictOrderedRing α]

theorem absv_eq_abs (x : α) : absv x = |x| := (abs_eq_max_neg (a := x)).symm

/-! ## scaling -/

theorem at_scale (size : Ix → Nat) (c : α) (t : Tensor α) (a : Asg) :
    (scale c t).at size a = c * t.at size a := by
  unfold Tensor.at scale
  simp only
  have h := List.getD_map (l := t.data) (d := (0 : α)) (n := pos size t.inds a) (fun x => c * x)
  simpa using h

theorem scale_scale (c d : α) (t : Tensor α) : scale c (scale d t) = scale (c * d) t := by
  unfold scale
  simp only [List.map_map, Tensor.mk.injEq, true_and]
  apply List.map_congr_left
  intro x _
  simp [mul_assoc]

theorem scale_one (t : Tensor α) : scale (1 : α) t = t := by
  unfold scale
  simp

theorem contract_scale (size : Ix → Nat) (c d : α) (l r : Tensor α) (out : List Ix) :
    contract size (scale c l) (scale d r) out = scale (c * d) (contract size l r out) := by
  unfold contract
  simp only [scale, List.map_map, Tensor.mk.injEq, true_and]
  apply List.map_congr_left
  intro ao _
  simp only [Function.comp]
  rw [← List.sum_map_mul_left]
  congr 1
  apply List.map_congr_left
  intro as _
  have h1 := at_scale size c l (as ++ ao)
  have h2 := at_scale size d r (as ++ ao)
  simp only [scale] at h1 h2
  rw [h1, h2]
  ring

theorem reduce1_scale (size : Ix → Nat) (c : α) (t : Tensor α) (out : List Ix) :
    reduce1 size (scale c t) out = scale c (reduce1 size t out) := by
  unfold reduce1
  simp only [scale, List.map_map, Tensor.mk.injEq, true_and]
  apply List.map_congr_left
  intro ao _
  simp only [Function.comp]
  rw [← List.sum_map_mul_left]
  congr 1
  apply List.map_congr_left
  intro as _
  have h1 := at_scale size c t (as ++ ao)
  simp only [scale] at h1
  exact h1

/-- dividing by a non-zero factor and multiplying back -/
theorem scale_normalised (f : α) (hf : f ≠ 0) (q : Tensor α) :
    scale f { q with data := q.data.map fun x => x / f } = q := by
  unfold scale
  simp only [List.map_map]
  have : (fun x => f * x) ∘ (fun x => x / f) = id := by
    funext x
    simp only [Function.comp, id]
    exact mul_div_cancel₀ x hf
  rw [this]
  simp

/-! ## `max(abs(·))` -/

theorem maxAbs_foldl_ge (d : List α) (m : α) :
    m ≤ d.foldl (fun m x => max m (absv x)) m := by
  induction d generalizing m with
  | nil => exact le_refl _
  | cons x xs ih =>
    simp only [List.foldl_cons]
    exact le_trans (le_max_left _ _) (ih _)

theorem maxAbs_nonneg (d : List α) : 0 ≤ maxAbs d := maxAbs_foldl_ge d 0

theorem abs_le_foldl (d : List α) (m : α) (x : α) (hx : x ∈ d) :
    |x| ≤ d.foldl (fun m x => max m (absv x)) m := by
  induction d generalizing m with
  | nil => cases hx
  | cons y ys ih =>
    simp only [List.foldl_cons]
    rcases List.mem_cons.1 hx with h | h
    · subst h
      rw [← absv_eq_abs]
      exact le_trans (le_max_right _ _) (maxAbs_foldl_ge ys _)
    · exact ih _ h

/-- every entry is bounded by `max|x|` -/
theorem abs_le_maxAbs (d : List α) (x : α) (hx : x ∈ d) : |x| ≤ maxAbs d := abs_le_foldl d 0 x hx

theorem foldl_max_scale (c : α) (d : List α) (m : α) :
    (d.map fun x => c * x).foldl (fun m x => max m (absv x)) (|c| * m) =
      |c| * d.foldl (fun m x => max m (absv x)) m := by
  induction d generalizing m with
  | nil => simp
  | cons x xs ih =>
    simp only [List.map_cons, List.foldl_cons]
    have : max (|c| * m) (absv (c * x)) = |c| * max m (absv x) := by
      rw [absv_eq_abs, absv_eq_abs, abs_mul, mul_max_of_nonneg _ _ (abs_nonneg c)]
    rw [this]
    exact ih _

/-- `max|c·x| = |c| · max|x|` -/
theorem maxAbs_scale (c : α) (d : List α) : maxAbs (d.map fun x => c * x) = |c| * maxAbs d := by
  unfold maxAbs
  have := foldl_max_scale c d 0
  simpa using this

theorem maxAbs_eq_zero (d : List α) (h : maxAbs d = 0) : ∀ x ∈ d, x = 0 := by
  intro x hx
  have := abs_le_maxAbs d x hx
  rw [h] at this
  exact abs_eq_zero.1 (le_antisymm this (abs_nonneg x))

/-- **magnitude bound, part 1**: after the normalisation of a step `max|p| = 1` -/
theorem maxAbs_normalised (d : List α) (hf : maxAbs d ≠ 0) :
    maxAbs (d.map fun x => x / maxAbs d) = 1 := by
  have hpos : 0 < maxAbs d := lt_of_le_of_ne (maxAbs_nonneg d) (Ne.symm hf)
  have : (d.map fun x => x / maxAbs d) = d.map fun x => (maxAbs d)⁻¹ * x := by
    apply List.map_congr_left
    intro x _
    rw [div_eq_inv_mul]
  rw [this, maxAbs_scale, abs_of_pos (inv_pos.2 hpos)]
  exact inv_mul_cancel₀ hf

/-! ## bounded products -/

theorem abs_at_le (size : Ix → Nat) (t : Tensor α) (a : Asg) : |t.at size a| ≤ maxAbs t.data := by
  unfold Tensor.at
  by_cases h : pos size t.inds a < t.data.length
  · rw [List.getD_eq_getElem _ _ h]
    exact abs_le_maxAbs _ _ (List.getElem_mem h)
  · rw [List.getD_eq_default _ _ (Nat.le_of_not_lt h)]
    simpa using maxAbs_nonneg t.data

theorem abs_sum_le_of_forall (L : List α) (b : α) (h : ∀ x ∈ L, |x| ≤ b) :
    |L.sum| ≤ L.length * b := by
  induction L with
  | nil => simp
  | cons x xs ih =>
    simp only [List.sum_cons, List.length_cons, Nat.cast_add, Nat.cast_one]
    have h1 : |x| ≤ b := h x (List.mem_cons_self)
    have h2 := ih (fun y hy => h y (List.mem_cons_of_mem _ hy))
    calc |x + xs.sum| ≤ |x| + |xs.sum| := abs_add_le _ _
      _ ≤ b + xs.length * b := add_le_add h1 h2
      _ = (xs.length + 1) * b := by ring

/-- **magnitude bound, part 2**: every entry a step forms is bounded by
    `K · max|l| · max|r|`, `K` the number of summed terms -/
theorem contract_entry_le (size : Ix → Nat) (l r : Tensor α) (out : List Ix) :
    ∀ x ∈ (contract size l r out).data,
      |x| ≤ (assignments size (summedOf (l.inds ++ r.inds) out)).length *
              (maxAbs l.data * maxAbs r.data) := by
  intro x hx
  unfold contract at hx
  simp only [List.mem_map] at hx
  obtain ⟨ao, _, rfl⟩ := hx
  have := abs_sum_le_of_forall
    ((assignments size (summedOf (l.inds ++ r.inds) out)).map fun as =>
      l.at size (as ++ ao) * r.at size (as ++ ao)) (maxAbs l.data * maxAbs r.data) (by
      intro y hy
      simp only [List.mem_map] at hy
      obtain ⟨as, _, rfl⟩ := hy
      rw [abs_mul]
      exact mul_le_mul (abs_at_le size l _) (abs_at_le size r _) (abs_nonneg _) (maxAbs_nonneg _))
  simpa using this

end Cotengra.Strip
