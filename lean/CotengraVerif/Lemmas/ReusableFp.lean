import CotengraVerif.Model.Reusable
import CotengraVerif.Props.C03

/-! Fingerprint lemmas for C14: equal `a`-tuples ⇒ the contractions differ only by the order of
    indices inside terms / output / size items ⇒ (through L1 and C03's leaf-set
    characterisations) every tree has the same legs and cost figures for both. -/
namespace Cotengra.Reusable
open Cotengra Cotengra.Net

/-! ### the sort -/

theorem perm_insertBy {α} (le : α → α → Bool) (a : α) (l : List α) :
    (insertBy le a l).Perm (a :: l) := by
  induction l with
  | nil => exact List.Perm.refl _
  | cons b t ih =>
    simp only [insertBy]
    split
    · exact List.Perm.refl _
    · exact ((List.Perm.cons b ih).trans (List.Perm.swap a b t))

theorem perm_isort {α} (le : α → α → Bool) (l : List α) : (isort le l).Perm l := by
  induction l with
  | nil => exact List.Perm.refl _
  | cons a t ih => exact (perm_insertBy le a _).trans (List.Perm.cons a ih)

theorem perm_of_isort_eq {α} (le : α → α → Bool) (l l' : List α) (h : isort le l = isort le l') :
    l.Perm l' :=
  (perm_isort le l).symm.trans (h ▸ perm_isort le l')

theorem sortIx_nil : sortIx [] = [] := rfl

theorem getD_map_sortIx (l : List (List Ix)) (i : Nat) :
    (l.map sortIx).getD i [] = sortIx (l.getD i []) := by
  induction l generalizing i with
  | nil => simp [sortIx_nil]
  | cons a t ih =>
    cases i with
    | zero => simp
    | succ i => simpa using ih i

/-! ### "the same contraction up to the order of indices" -/

/-- `q` and `q'` have the same number of tensors, and term by term / in the output / in the size
    items they differ only by a permutation -/
structure SameUpToOrder (q q' : Net) : Prop where
  len : q.inputs.length = q'.inputs.length
  terms : ∀ i, (q.term i).Perm (q'.term i)
  output : q.output.Perm q'.output
  sizes : q.sizes.Perm q'.sizes

theorem sameUpToOrder_of_fpA (q q' : Net) (h : fpA q = fpA q') : SameUpToOrder q q' := by
  simp only [fpA, FpA.mk.injEq] at h
  obtain ⟨hi, ho, hs⟩ := h
  refine ⟨?_, ?_, perm_of_isort_eq _ _ _ ho, perm_of_isort_eq _ _ _ hs⟩
  · have := congrArg List.length hi
    simpa using this
  · intro i
    apply perm_of_isort_eq (fun a b => decide (a ≤ b))
    have h1 : ((q.inputs.map sortIx).getD i []) = ((q'.inputs.map sortIx).getD i []) := by
      rw [hi]
    rw [getD_map_sortIx, getD_map_sortIx] at h1
    exact h1

/-! ### consequences for the bookkeeping -/

section
variable {q q' : Net} (h : SameUpToOrder q q')
include h

theorem occ_term_congr (i : Nat) (ix : Ix) : occ (q.term i) ix = occ (q'.term i) ix :=
  (h.terms i).count_eq ix

theorem occ_termRm_congr (rm : List Ix) (i : Nat) (ix : Ix) :
    occ (q.termRm rm i) ix = occ (q'.termRm rm i) ix := by
  unfold termRm occ
  exact ((h.terms i).filter _).count_eq ix

theorem cnt_congr (rm : List Ix) (t : BT) (ix : Ix) : q.cnt rm t ix = q'.cnt rm t ix := by
  unfold cnt
  congr 1
  apply List.map_congr_left
  intro i _
  exact occ_termRm_congr h rm i ix

theorem app_congr (ix : Ix) : q.app ix = q'.app ix := by
  unfold app
  rw [appIn_eq_range, appIn_eq_range, h.len]
  congr 1
  · congr 1
    apply List.map_congr_left
    intro i _
    exact occ_term_congr h i ix
  · exact h.output.count_eq ix

theorem surv_congr (rm : List Ix) (t : BT) (ix : Ix) : q.Surv rm t ix ↔ q'.Surv rm t ix := by
  unfold Surv
  rw [cnt_congr h rm t ix, app_congr h ix]

/-- the legs of every node agree, index by index (count included) -/
theorem legs_get_congr (rm : List Ix) (t : BT) (hd : t.leaves.Nodup)
    (hb : ∀ i ∈ t.leaves, i < q.inputs.length) (ix : Ix) :
    Legs.get (q.legs rm t) ix = Legs.get (q'.legs rm t) ix := by
  rw [legs_get_eq_spec q rm t hd hb, legs_get_eq_spec q' rm t hd (fun i hi => h.len ▸ hb i hi),
    cnt_congr h rm t ix, app_congr h ix]

end

theorem lookup_eq_some_iff_mem (l : List (Ix × Nat)) (hnd : (l.map (·.1)).Nodup) (a : Ix) (b : Nat) :
    l.lookup a = some b ↔ (a, b) ∈ l := by
  induction l with
  | nil => simp
  | cons hd tl ih =>
    obtain ⟨k, v⟩ := hd
    simp only [List.map_cons, List.nodup_cons] at hnd
    simp only [List.lookup_cons, List.mem_cons, Prod.mk.injEq]
    by_cases e : a = k
    · subst e
      simp only [beq_self_eq_true, true_and]
      constructor
      · intro hv; left; exact (Option.some.inj hv).symm
      · rintro (hv | hm)
        · rw [hv]
        · exact absurd (List.mem_map_of_mem (f := (·.1)) hm) hnd.1
    · have : (a == k) = false := by simpa using e
      simp only [this, e, false_and, false_or]
      exact ih hnd.2

theorem size_congr {q q' : Net} (h : SameUpToOrder q q') (hnd : (q.sizes.map (·.1)).Nodup) (ix : Ix) :
    q.size ix = q'.size ix := by
  have hnd' : (q'.sizes.map (·.1)).Nodup := (h.sizes.map (·.1)).nodup_iff.1 hnd
  have : q.sizes.lookup ix = q'.sizes.lookup ix := by
    apply Option.ext
    intro b
    rw [lookup_eq_some_iff_mem _ hnd, lookup_eq_some_iff_mem _ hnd', h.sizes.mem_iff]
  unfold Net.size
  rw [this]

theorem flatten_perm_of_terms : ∀ (l l' : List (List Ix)), l.length = l'.length →
    (∀ i, (l.getD i []).Perm (l'.getD i [])) → l.flatten.Perm l'.flatten := by
  intro l
  induction l with
  | nil =>
    intro l' hl _
    cases l' with
    | nil => exact List.Perm.refl _
    | cons a t => simp at hl
  | cons a t ih =>
    intro l' hl ht
    cases l' with
    | nil => simp at hl
    | cons b t' =>
      simp only [List.flatten_cons]
      apply List.Perm.append
      · simpa using ht 0
      · apply ih t' (by simpa using hl)
        intro i
        simpa using ht (i + 1)

theorem allIx_perm {q q' : Net} (h : SameUpToOrder q q') : q.allIx.Perm q'.allIx := by
  unfold allIx
  apply List.Perm.dedup
  exact (flatten_perm_of_terms _ _ h.len h.terms).append h.output

theorem specProd_congr {q q' : Net} (h : SameUpToOrder q q') (hnd : (q.sizes.map (·.1)).Nodup)
    (p p' : Ix → Bool) (hp : ∀ ix, p ix = p' ix) : q.specProd p = q'.specProd p' := by
  unfold specProd
  have hpp : p = p' := funext hp
  have hs : q.size = q'.size := funext (size_congr h hnd)
  rw [hpp, hs]
  exact (((allIx_perm h).filter p').map q'.size).prod_eq

/-- **Equal default fingerprints ⇒ identical bookkeeping for every tree.** -/
theorem costs_congr_of_same {q q' : Net} (h : SameUpToOrder q q') (hnd : (q.sizes.map (·.1)).Nodup)
    (rm : List Ix) (t : BT) (hd : t.leaves.Nodup) (hb : ∀ i ∈ t.leaves, i < q.inputs.length) :
    q.nodeSize rm t = q'.nodeSize rm t ∧ q.nodeFlops rm t = q'.nodeFlops rm t := by
  have hb' : ∀ i ∈ t.leaves, i < q'.inputs.length := fun i hi => h.len ▸ hb i hi
  constructor
  · rw [C03.size_eq_spec q rm t hd hb, C03.size_eq_spec q' rm t hd hb']
    apply specProd_congr h hnd
    intro ix
    simp only [surv_congr h rm t ix]
  · cases t with
    | leaf i => rfl
    | node l r =>
      rw [C03.flops_eq_spec q rm l r hd hb, C03.flops_eq_spec q' rm l r hd hb']
      apply specProd_congr h hnd
      intro ix
      simp only [surv_congr h rm l ix, surv_congr h rm r ix]

/-! ### `fits` only depends on what the fingerprint keeps -/

theorem hasIx_iff (n : Net) (ix : Ix) :
    hasIx n ix = true ↔ (∃ i, i < n.inputs.length ∧ ix ∈ n.term i) ∨ ix ∈ n.output := by
  unfold hasIx
  simp only [Bool.or_eq_true, List.any_eq_true, List.contains_iff_mem]
  constructor
  · rintro (⟨t, ht, hix⟩ | ho)
    · left
      obtain ⟨i, hi, rfl⟩ := List.getElem_of_mem ht
      exact ⟨i, hi, by simp [Net.term, List.getD_eq_getElem?_getD, hi]; exact hix⟩
    · right; exact ho
  · rintro (⟨i, hi, hix⟩ | ho)
    · left
      refine ⟨n.inputs[i], List.getElem_mem hi, ?_⟩
      simpa [Net.term, List.getD_eq_getElem?_getD, hi] using hix
    · right; exact ho

theorem hasIx_congr {q q' : Net} (h : SameUpToOrder q q') (ix : Ix) : hasIx q ix = hasIx q' ix := by
  apply Bool.eq_iff_iff.2
  rw [hasIx_iff, hasIx_iff, h.len]
  constructor
  · rintro (⟨i, hi, hix⟩ | ho)
    · exact Or.inl ⟨i, hi, (h.terms i).mem_iff.1 hix⟩
    · exact Or.inr (h.output.mem_iff.1 ho)
  · rintro (⟨i, hi, hix⟩ | ho)
    · exact Or.inl ⟨i, hi, (h.terms i).mem_iff.2 hix⟩
    · exact Or.inr (h.output.mem_iff.2 ho)

theorem fits_congr_of_fpA (q q' : Net) (c : Con) (h : fpA q = fpA q') : fits q c = fits q' c := by
  have hs := sameUpToOrder_of_fpA q q' h
  unfold fits
  rw [hs.len]
  congr 1
  apply List.all_congr rfl
  intro ix
  exact hasIx_congr hs ix

end Cotengra.Reusable
