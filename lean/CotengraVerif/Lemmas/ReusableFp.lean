import CotengraVerif.Model.Reusable
import CotengraVerif.Props.C03

/-! Fingerprint lemmas for C14: equal `a`-tuples ⇒ the contractions differ only by the order of
    indices inside terms / output / size items ⇒ (through L1 and C03's leaf-set
    characterisations) every tree has the same legs and cost figures for both. -/
namespace Cotengra.Reusable
open Cotengra Cotengra.Net

/-! ### the sort -/

theorem perm_insertBy {α} (le : α → α → Bool) (a : α) (l : List α) :
    (insertBy le a l).Perm (a :: l) := by
  induction l with
  | nil => exact List.Perm.refl _
  | cons b t ih =>
    simp only [insertBy]
    split
    · exact List.Perm.refl _
    · exact ((List.Perm.cons b ih).trans (List.Perm.swap a b t))

theorem perm_isort {α} (le : α → α → Bool) (l : List α) : (isort le l).Perm l := by
  induction l with
  | nil => exact List.Perm.refl _
  | cons a t ih => exact (perm_insertBy le a _).trans (List.Perm.cons a ih)

theorem perm_of_isort_eq {α} (le : α → α → Bool) (l l' : List α) (h : isort le l = isort le l') :
    l.Perm l' :=
  (perm_isort le l).symm.trans (h ▸ perm_isort le l')

theorem sortIx_nil : sortIx [] = [] := rfl

theorem getD_map_sortIx (l : List (List Ix)) (i : Nat) :
    (l.map sortIx).getD i [] = sortIx (l.getD i []) := by
  induction l generalizing i with
  | nil => simp [sortIx_nil]
  | cons a t ih =>
    cases i with
    | zero => simp
    | succ i => simpa using ih i

/-! ### "the same contraction up to the order of indices" -/

/-- `q` and `q'` have the same number of tensors, and term by term / in the output / in the size
    items they differ only by a permutation -/
structure SameUpToOrder (q q' : Net) : Prop where
  len : q.inputs.length = q'.inputs.length
  terms : ∀ i, (q.term i).Perm (q'.term i)
  output : q.output.Perm q'.output
  sizes : q.sizes.Perm q'.sizes

theorem sameUpToOrder_of_fpA (q q' : Net) (h : fpA q = fpA q') : SameUpToOrder q q' := by
  simp only [fpA, FpA.mk.injEq] at h
  obtain ⟨hi, ho, hs⟩ := h
  refine ⟨?_, ?_, perm_of_isort_eq _ _ _ ho, perm_of_isort_eq _ _ _ hs⟩
  · have := congrArg List.length hi
    simpa using this
  · intro i
    apply perm_of_isort_eq (fun a b => decide (a ≤ b))
    have h1 : ((q.inputs.map sortIx).getD i []) = ((q'.inputs.map sortIx).getD i []) := by
      rw [hi]
    rw [getD_map_sortIx, getD_map_sortIx] at h1
    exact h1

/-! ### consequences for the bookkeeping -/

section
variable {q q' : Net} (h : SameUpToOrder q q')
include h

theorem occ_term_congr (i : Nat) (ix : Ix) : occ (q.term i) ix = occ (q'.term i) ix :=
  (h.terms i).count_eq ix

theorem occ_termRm_congr (rm : List Ix) (i : Nat) (ix : Ix) :
    occ (q.termRm rm i) ix = occ (q'.termRm rm i) ix := by
  unfold termRm occ
  exact ((h.terms i).filter _).count_eq ix

theorem cnt_congr (rm : List Ix) (t : BT) (ix : Ix) : q.cnt rm t ix = q'.cnt rm t ix := by
  unfold cnt
  congr 1
  apply List.map_congr_left
  intro i _
  exact occ_termRm_congr h rm i ix

theorem app_congr (ix : Ix) : q.app ix = q'.app ix := by
  unfold app
  rw [appIn_eq_range, appIn_eq_range, h.len]
  congr 1
  · congr 1
    apply List.map_congr_left
    intro i _
    exact occ_term_congr h i ix
  · exact h.output.count_eq ix

theorem surv_congr (rm : List Ix) (t : BT) (ix : Ix) : q.Surv rm t ix ↔ q'.Surv rm t ix := by
  unfold Surv
  rw [cnt_congr h rm t ix, app_congr h ix]

/-- the legs of every node agree, index by index (count included) -/
theorem legs_get_congr (rm : List Ix) (t : BT) (hd : t.leaves.Nodup)
    (hb : ∀ i ∈ t.leaves, i < q.inputs.length) (ix : Ix) :
    Legs.get (q.legs rm t) ix = Legs.get (q'.legs rm t) ix := by
  rw [legs_get_eq_spec q rm t hd hb, legs_get_eq_spec q' rm t hd (fun i hi => h.len ▸ hb i hi),
    cnt_congr h rm t ix, app_congr h ix]

end

theorem lookup_eq_some_iff_mem (l : List (Ix × Nat)) (hnd : (l.map (·.1)).Nodup) (a : Ix) (b : Nat) :
    l.lookup a = some b ↔ (a, b) ∈ l := by
  induction l with
  | nil => simp
  | cons hd tl ih =>
    obtain ⟨k, v⟩ := hd
    simp only [List.map_cons, List.nodup_cons] at hnd
    simp only [List.lookup_cons, List.mem_cons, Prod.mk.injEq]
    by_cases e : a = k
    · subst e
      simp only [beq_self_eq_true, true_and]
      constructor
      · intro hv; left; exact (Option.some.inj hv).symm
      · rintro (hv | hm)
        · rw [hv]
        · exact absurd (List.mem_map_of_mem (f := (·.1)) hm) hnd.1
    · have : (a == k) = false := by simpa using e
      simp only [this, e, false_and, false_or]
      exact ih hnd.2

theorem size_congr {q q' : Net} (h : SameUpToOrder q q') (hnd : (q.sizes.map (·.1)).Nodup) (ix : Ix) :
    q.size ix = q'.size ix := by
  have hnd' : (q'.sizes.map (·.1)).Nodup := (h.sizes.map (·.1)).nodup_iff.1 hnd
  have : q.sizes.lookup ix = q'.sizes.lookup ix := by
    apply Option.ext
    intro b
    rw [lookup_eq_some_iff_mem _ hnd, lookup_eq_some_iff_mem _ hnd', h.sizes.mem_iff]
  unfold Net.size
  rw [this]

theorem flatten_perm_of_terms : ∀ (l l' : List (List Ix)), l.length = l'.length →
    (∀ i, (l.getD i []).Perm (l'.getD i [])) → l.flatten.Perm l'.flatten := by
  intro l
  induction l with
  | nil =>
    intro l' hl _
    cases l' with
    | nil => exact List.Perm.refl _
    | cons a t => simp at hl
  | cons a t ih =>
    intro l' hl ht
    cases l' with
    | nil => simp at hl
    | cons b t' =>
      simp only [List.flatten_cons]
      apply List.Perm.append
      · simpa using ht 0
      · apply ih t' (by simpa using hl)
        intro i
        simpa using ht (i + 1)

theorem allIx_perm {q q' : Net} (h : SameUpToOrder q q') : q.allIx.Perm q'.allIx := by
  unfold allIx
  apply List.Perm.dedup
  exact (flatten_perm_of_terms _ _ h.len h.terms).append h.output

theorem specProd_congr {q q' : Net} (h : SameUpToOrder q q') (hnd : (q.sizes.map (·.1)).Nodup)
    (p p' : Ix → Bool) (hp : ∀ ix, p ix = p' ix) : q.specProd p = q'.specProd p' := by
  unfold specProd
  have hpp : p = p' := funext hp
  have hs : q.size = q'.size := funext (size_congr h hnd)
  rw [hpp, hs]
  exact (((allIx_perm h).filter p').map q'.size).prod_eq

/-- **Equal default fingerprints ⇒ identical bookkeeping for every tree.** -/
theorem costs_congr_of_same {q q' : Net} (h : SameUpToOrder q q') (hnd : (q.sizes.map (·.1)).Nodup)
    (rm : List Ix) (t : BT) (hd : t.leaves.Nodup) (hb : ∀ i ∈ t.leaves, i < q.inputs.length) :
    q.nodeSize rm t = q'.nodeSize rm t ∧ q.nodeFlops rm t = q'.nodeFlops rm t := by
  have hb' : ∀ i ∈ t.leaves, i < q'.inputs.length := fun i hi => h.len ▸ hb i hi
  constructor
  · rw [C03.size_eq_spec q rm t hd hb, C03.size_eq_spec q' rm t hd hb']
    apply specProd_congr h hnd
    intro ix
    simp only [surv_congr h rm t ix]
  · cases t with
    | leaf i => rfl
    | node l r =>
      rw [C03.flops_eq_spec q rm l r hd hb, C03.flops_eq_spec q' rm l r hd hb']
      apply specProd_congr h hnd
      intro ix
      simp only [surv_congr h rm l ix, surv_congr h rm r ix]

/-! ### `fits` only depends on what the fingerprint keeps -/

theorem hasIx_iff (n : Net) (ix : Ix) :
    hasIx n ix = true ↔ (∃ i, i < n.inputs.length ∧ ix ∈ n.term i) ∨ ix ∈ n.output := by
  unfold hasIx
  simp only [Bool.or_eq_true, List.any_eq_true, List.contains_iff_mem]
  constructor
  · rintro (⟨t, ht, hix⟩ | ho)
    · left
      obtain ⟨i, hi, rfl⟩ := List.getElem_of_mem ht
      exact ⟨i, hi, by simp [Net.term, List.getD_eq_getElem?_getD, hi]; exact hix⟩
    · right; exact ho
  · rintro (⟨i, hi, hix⟩ | ho)
    · left
      refine ⟨n.inputs[i], List.getElem_mem hi, ?_⟩
      simpa [Net.term, List.getD_eq_getElem?_getD, hi] using hix
    · right; exact ho

theorem hasIx_congr {q q' : Net} (h : SameUpToOrder q q') (ix : Ix) : hasIx q ix = hasIx q' ix := by
  apply Bool.eq_iff_iff.2
  rw [hasIx_iff, hasIx_iff, h.len]
  constructor
  · rintro (⟨i, hi, hix⟩ | ho)
    · exact Or.inl ⟨i, hi, (h.terms i).mem_iff.1 hix⟩
    · exact Or.inr (h.output.mem_iff.1 ho)
  · rintro (⟨i, hi, hix⟩ | ho)
    · exact Or.inl ⟨i, hi, (h.terms i).mem_iff.2 hix⟩
    · exact Or.inr (h.output.mem_iff.2 ho)

theorem fits_congr_of_fpA (q q' : Net) (c : Con) (h : fpA q = fpA q') : fits q c = fits q' c := by
  have hs := sameUpToOrder_of_fpA q q' h
  unfold fits
  rw [hs.len]
  congr 1
  apply List.all_congr rfl
  intro ix
  exact hasIx_congr hs ix

/-! ### method `b`: what the label-free edge lists still determine -/

/-- all node ids recorded in an `edges` dict, with multiplicity -/
def incid (e : List (Ix × List Int)) : List Int := (e.map (·.2)).flatten

theorem incid_edgeAdd (e : List (Ix × List Int)) (ix : Ix) (v : Int) :
    (incid (edgeAdd e ix v)).Perm (v :: incid e) := by
  induction e with
  | nil => simp [edgeAdd, incid]
  | cons hd tl ih =>
    obtain ⟨k, l⟩ := hd
    simp only [edgeAdd]
    split
    · simp only [incid, List.map_cons, List.flatten_cons, List.append_assoc]
      have : (l ++ [v] ++ (tl.map (·.2)).flatten).Perm (v :: (l ++ (tl.map (·.2)).flatten)) := by
        rw [List.append_assoc]
        exact List.perm_middle
      simp only [List.append_assoc] at this ⊢
      exact this
    · simp only [incid, List.map_cons, List.flatten_cons] at ih ⊢
      exact (List.Perm.append_left l ih).trans List.perm_middle

theorem incid_foldl_term (t : List Ix) (v : Int) (acc : List (Ix × List Int)) :
    (incid (t.foldl (fun a ix => edgeAdd a ix v) acc)).Perm (t.map (fun _ => v) ++ incid acc) := by
  induction t generalizing acc with
  | nil => simp
  | cons ix rest ih =>
    simp only [List.foldl_cons, List.map_cons, List.cons_append]
    exact (ih _).trans ((List.Perm.append_left _ (incid_edgeAdd acc ix v)).trans List.perm_middle)

theorem incid_foldl_inputs (l : List (List Ix × Nat)) (acc : List (Ix × List Int)) :
    (incid (l.foldl (fun a ti => ti.1.foldl (fun a ix => edgeAdd a ix (Int.ofNat ti.2)) a) acc)).Perm
      (l.flatMap (fun ti => ti.1.map (fun _ => Int.ofNat ti.2)) ++ incid acc) := by
  induction l generalizing acc with
  | nil => simp
  | cons ti rest ih =>
    simp only [List.foldl_cons, List.flatMap_cons, List.append_assoc]
    refine (ih _).trans ?_
    refine (List.Perm.append_left _ (incid_foldl_term ti.1 (Int.ofNat ti.2) acc)).trans ?_
    rw [← List.append_assoc, ← List.append_assoc]
    exact List.Perm.append_right _ List.perm_append_comm

/-- the node ids of `edgesOf n`: −1 once per output index, `i` once per index occurrence in term `i` -/
theorem incid_edgesOf (n : Net) :
    (incid (edgesOf n)).Perm
      (n.inputs.zipIdx.flatMap (fun ti => ti.1.map (fun _ => Int.ofNat ti.2)) ++ n.output.map (fun _ => (-1 : Int))) := by
  unfold edgesOf
  refine (incid_foldl_inputs _ _).trans (List.Perm.append_left _ ?_)
  have := incid_foldl_term n.output (-1) []
  simpa [incid] using this

theorem mem_incid_edgesOf (n : Net) (i : Nat) :
    Int.ofNat i ∈ incid (edgesOf n) ↔ ∃ t, n.inputs[i]? = some t ∧ t ≠ [] := by
  rw [(incid_edgesOf n).mem_iff]
  simp only [List.mem_append, List.mem_flatMap, List.mem_map, Prod.exists]
  constructor
  · rintro (⟨t, j, hm, ix, hix, he⟩ | ⟨ix, _, he⟩)
    · have hj : j = i := Int.ofNat.inj he
      subst hj
      rw [List.mem_zipIdx_iff_getElem?] at hm
      exact ⟨t, by simpa using hm, List.ne_nil_of_mem hix⟩
    · have h2 : (-1 : Int) = (i : Int) := he
      omega
  · rintro ⟨t, ht, hne⟩
    left
    obtain ⟨ix, hix⟩ := List.exists_mem_of_ne_nil t hne
    exact ⟨t, i, by rw [List.mem_zipIdx_iff_getElem?]; simpa using ht, ix, hix, rfl⟩

/-- under method `b` two contractions without index-free tensors that share a key have the same
    number of tensors -/
theorem fpB_same_N (q q' : Net) (h : fpB q = fpB q')
    (hq : ∀ t ∈ q.inputs, t ≠ []) (hq' : ∀ t ∈ q'.inputs, t ≠ []) :
    q.inputs.length = q'.inputs.length := by
  simp only [fpB, FpB.mk.injEq] at h
  have hp := perm_of_isort_eq _ _ _ h.1
  have h1 : ∀ l : List (Ix × List Int),
      ((l.map fun kv => isort (fun a b => decide (a ≤ b)) kv.2).flatten).Perm (incid l) := by
    intro l
    induction l with
    | nil => exact List.Perm.refl _
    | cons a t ih =>
      simp only [incid, List.map_cons, List.flatten_cons] at ih ⊢
      exact (perm_isort _ _).append ih
  have hperm : (incid (edgesOf q)).Perm (incid (edgesOf q')) :=
    (h1 _).symm.trans ((List.Perm.flatten hp).trans (h1 _))
  have hmem : ∀ i : Nat, i < q.inputs.length ↔ i < q'.inputs.length := by
    intro i
    have e := hperm.mem_iff (a := Int.ofNat i)
    rw [mem_incid_edgesOf, mem_incid_edgesOf] at e
    constructor
    · intro hi
      have : ∃ t, q.inputs[i]? = some t ∧ t ≠ [] :=
        ⟨q.inputs[i], by simp [hi], hq _ (List.getElem_mem hi)⟩
      obtain ⟨t, ht, _⟩ := e.1 this
      exact (List.getElem?_eq_some_iff.1 ht).1
    · intro hi
      have : ∃ t, q'.inputs[i]? = some t ∧ t ≠ [] :=
        ⟨q'.inputs[i], by simp [hi], hq' _ (List.getElem_mem hi)⟩
      obtain ⟨t, ht, _⟩ := e.2 this
      exact (List.getElem?_eq_some_iff.1 ht).1
  rcases Nat.lt_trichotomy q.inputs.length q'.inputs.length with hlt | heq | hgt
  · exact absurd ((hmem _).2 hlt) (Nat.lt_irrefl _)
  · exact heq
  · exact absurd ((hmem _).1 hgt) (Nat.lt_irrefl _)

end Cotengra.Reusable
