import CotengraVerif.Lemmas.DPLegs
import CotengraVerif.Lemmas.DPTable
import CotengraVerif.Props.C03

/-!
  C09, specification level: the objective value of a tree defined from the network alone
  (`treeCost`, through the leaf-set survivors `Net.Surv` of L1/C03), outer-product-freeness
  (`OPF`), and the link between the DP's sorted legs and that definition (`LegsSpec`).
-/
namespace Cotengra
namespace C09
open Cotengra Cotengra.Net Cotengra.Legs Cotengra.DP

/-! ## the independent definition -/

/-- flops of the step contracting `l` with `r`: product of the dimensions of every index that
    survives `l` or survives `r` (= `C03.specFlops`) -/
def stepFlops (g : Net) (l r : BT) : Nat :=
  g.specProd fun ix => decide (g.Surv [] l ix ∨ g.Surv [] r ix)

/-- size of the result: product of the dimensions of the indices surviving `l ∪ r` -/
def stepSize (g : Net) (l r : BT) : Nat :=
  g.specProd fun ix => decide (g.Surv [] (.node l r) ix)

/-- objective value of a contraction tree, from the network alone -/
def treeCost (g : Net) (obj : Objective) : BT → Nat
  | .leaf _ => 0
  | .node l r =>
    combine obj (treeCost g obj l) (treeCost g obj r) (stepFlops g l r) (stepSize g l r)

/-- no step of the tree is an outer product: its two operands share a (surviving) index -/
def OPF (g : Net) : BT → Prop
  | .leaf _ => True
  | .node l r => OPF g l ∧ OPF g r ∧ ∃ ix, g.Surv [] l ix ∧ g.Surv [] r ix

/-- the class of trees searched: all trees when `search_outer`, the outer-product-free otherwise -/
def Adm (g : Net) (outer : Bool) (t : BT) : Prop := outer = true ∨ OPF g t

/-- the leaves are distinct input positions -/
structure Valid (g : Net) (t : BT) : Prop where
  nodup : t.leaves.Nodup
  bound : ∀ i ∈ t.leaves, i < g.inputs.length

/-- a complete contraction tree of the network -/
def Full (g : Net) (t : BT) : Prop := Valid g t ∧ t.leaves.length = g.inputs.length

/-- what the optimality proof needs of the property's guard: no repeated index inside a tensor,
    no index confined to one tensor and absent from the output -/
def LeafGuard (g : Net) : Prop :=
  ∀ i < g.inputs.length, (g.term i).Nodup ∧ ∀ ix ∈ g.term i, 1 < g.app ix

theorem Valid.left {g : Net} {l r : BT} (h : Valid g (.node l r)) : Valid g l :=
  ⟨(List.nodup_append.1 h.nodup).1, fun i hi => h.bound i (by simp [BT.leaves, hi])⟩

theorem Valid.right {g : Net} {l r : BT} (h : Valid g (.node l r)) : Valid g r :=
  ⟨(List.nodup_append.1 h.nodup).2.1, fun i hi => h.bound i (by simp [BT.leaves, hi])⟩

theorem Valid.swap {g : Net} {l r : BT} (h : Valid g (.node l r)) : Valid g (.node r l) := by
  refine ⟨?_, fun i hi => h.bound i ?_⟩
  · have := h.nodup
    simp only [BT.leaves] at this ⊢
    exact (List.perm_append_comm.nodup_iff).1 this
  · simp only [BT.leaves, List.mem_append] at hi ⊢
    exact hi.symm

theorem leaves_ne_nil (t : BT) : t.leaves ≠ [] := by
  induction t with
  | leaf i => simp [BT.leaves]
  | node l r ihl _ => simp [BT.leaves, ihl]

theorem leaves_length_pos (t : BT) : 1 ≤ t.leaves.length := by
  have := leaves_ne_nil t
  cases h : t.leaves with
  | nil => exact absurd h this
  | cons a b => simp

/-! ## counts depend on the leaf multiset only -/

theorem termRm_nil (g : Net) (i : Nat) : g.termRm [] i = g.term i := by
  simp [termRm]

theorem cnt_perm (g : Net) {t t' : BT} (h : t.leaves.Perm t'.leaves) (ix : Nat) :
    g.cnt [] t ix = g.cnt [] t' ix := by
  unfold cnt
  exact (h.map _).sum_eq

theorem surv_congr (g : Net) {t t' : BT} (h : ∀ ix, g.cnt [] t ix = g.cnt [] t' ix) (ix : Nat) :
    g.Surv [] t ix ↔ g.Surv [] t' ix := by
  unfold Surv; rw [h ix]

theorem cnt_node_comm (g : Net) (l r : BT) (ix : Nat) :
    g.cnt [] (.node l r) ix = g.cnt [] (.node r l) ix := by
  rw [cnt_node, cnt_node, Nat.add_comm]

theorem specProd_congr (g : Net) (p q : Ix → Bool) (h : ∀ ix, p ix = q ix) :
    g.specProd p = g.specProd q := by
  have : p = q := funext h
  rw [this]

theorem stepFlops_congr (g : Net) {l l' r r' : BT}
    (hl : ∀ ix, g.cnt [] l ix = g.cnt [] l' ix) (hr : ∀ ix, g.cnt [] r ix = g.cnt [] r' ix) :
    stepFlops g l r = stepFlops g l' r' := by
  unfold stepFlops
  apply specProd_congr
  intro ix
  rw [decide_eq_decide, surv_congr g hl ix, surv_congr g hr ix]

theorem stepSize_congr (g : Net) {l l' r r' : BT}
    (hl : ∀ ix, g.cnt [] l ix = g.cnt [] l' ix) (hr : ∀ ix, g.cnt [] r ix = g.cnt [] r' ix) :
    stepSize g l r = stepSize g l' r' := by
  unfold stepSize
  apply specProd_congr
  intro ix
  rw [decide_eq_decide]
  apply surv_congr
  intro jx
  rw [cnt_node, cnt_node, hl jx, hr jx]

theorem stepFlops_comm (g : Net) (l r : BT) : stepFlops g l r = stepFlops g r l := by
  unfold stepFlops
  apply specProd_congr
  intro ix
  rw [decide_eq_decide]
  exact Or.comm

theorem stepSize_comm (g : Net) (l r : BT) : stepSize g l r = stepSize g r l := by
  unfold stepSize
  apply specProd_congr
  intro ix
  rw [decide_eq_decide]
  exact surv_congr g (cnt_node_comm g l r) ix

theorem combine_comm (obj : Objective) (a b F S : Nat) : combine obj a b F S = combine obj b a F S := by
  cases obj <;> simp only [combine, Nat.add_comm a b, Nat.max_comm a b]

theorem combine_mono (obj : Objective) {a a' b b' : Nat} (ha : a ≤ a') (hb : b ≤ b') (F S : Nat) :
    combine obj a b F S ≤ combine obj a' b' F S := by
  cases obj <;> simp only [combine, Nat.max_def] <;> (repeat' split) <;> omega

theorem le_combine_left (obj : Objective) (a b F S : Nat) : a ≤ combine obj a b F S := by
  cases obj <;> simp only [combine, Nat.max_def] <;> (repeat' split) <;> omega

theorem le_combine_right (obj : Objective) (a b F S : Nat) : b ≤ combine obj a b F S := by
  cases obj <;> simp only [combine, Nat.max_def] <;> (repeat' split) <;> omega

theorem treeCost_swap (g : Net) (obj : Objective) (l r : BT) :
    treeCost g obj (.node r l) = treeCost g obj (.node l r) := by
  simp only [treeCost]
  rw [combine_comm, stepFlops_comm, stepSize_comm]

theorem treeCost_left_le (g : Net) (obj : Objective) (l r : BT) :
    treeCost g obj l ≤ treeCost g obj (.node l r) := le_combine_left _ _ _ _ _

theorem treeCost_right_le (g : Net) (obj : Objective) (l r : BT) :
    treeCost g obj r ≤ treeCost g obj (.node l r) := le_combine_right _ _ _ _ _

/-! ## the DP's legs against the leaf-set characterisation -/

/-- `L` is the DP's legs list of (a tree with the leaf multiset of) `t`: strictly sorted keys,
    positive counts, and `ix ↦ cnt` exactly for the surviving indices (the statement of L1) -/
structure LegsSpec (g : Net) (t : BT) (L : Legs) : Prop where
  sorted : Sorted L
  pos : Pos L
  get : ∀ ix, Legs.get L ix = if g.cnt [] t ix < g.app ix then g.cnt [] t ix else 0

theorem LegsSpec.mem_iff {g : Net} {t : BT} {L : Legs} (h : LegsSpec g t L) (ix : Nat) :
    ix ∈ keys L ↔ g.Surv [] t ix := by
  rw [mem_keys_iff_get_pos _ h.sorted.nodup h.pos, h.get]
  unfold Surv
  split <;> omega

theorem LegsSpec.congr {g : Net} {t t' : BT} {L : Legs} (h : LegsSpec g t L)
    (hc : ∀ ix, g.cnt [] t ix = g.cnt [] t' ix) : LegsSpec g t' L :=
  ⟨h.sorted, h.pos, fun ix => by rw [h.get ix, hc ix]⟩

theorem cnt_leaf (g : Net) (i ix : Nat) : g.cnt [] (.leaf i) ix = (g.term i).count ix := by
  simp [cnt, BT.leaves, termRm_nil, occ]

/-- the processor's initial legs of a tensor meet the spec under the leaf guard -/
theorem legsSpec_leaf (g : Net) (hg : LeafGuard g) (i : Nat) (hi : i < g.inputs.length) :
    LegsSpec g (.leaf i) (initLegs g i) := by
  obtain ⟨hnd, happ⟩ := hg i hi
  refine ⟨sorted_initLegs g i hnd, pos_initLegs g i, ?_⟩
  intro ix
  rw [get_initLegs g i hnd, cnt_leaf]
  have hle : (g.term i).count ix ≤ 1 := List.nodup_iff_count_le_one.1 hnd ix
  by_cases hmem : ix ∈ g.term i
  · have h1 := happ ix hmem
    have hpos : 0 < (g.term i).count ix := List.count_pos_iff.2 hmem
    rw [if_pos (by omega)]
  · rw [List.count_eq_zero_of_not_mem hmem]
    split <;> rfl

theorem cnt_le_app (g : Net) (t : BT) (hv : Valid g t) (ix : Nat) : g.cnt [] t ix ≤ g.app ix := by
  have := cnt_le_appIn g [] t hv.nodup hv.bound ix
  unfold app; omega

/-- merged-then-pruned legs of two sub-results meet the spec of the joined tree -/
theorem legsSpec_node (g : Net) {l r : BT} {La Lb : Legs} (hv : Valid g (.node l r))
    (hl : LegsSpec g l La) (hr : LegsSpec g r Lb) :
    LegsSpec g (.node l r) (kept g (mergeLegs La Lb).1) := by
  have hs := sorted_merge La Lb hl.sorted hr.sorted
  refine ⟨sorted_kept g _ hs, pos_filter _ _ (pos_merge La Lb hl.pos hr.pos), ?_⟩
  intro ix
  rw [get_kept g _ hs, get_merge La Lb hl.sorted hr.sorted, hl.get, hr.get, cnt_node]
  have hle := cnt_le_app g _ hv ix
  rw [cnt_node] at hle
  by_cases h1 : g.cnt [] l ix < g.app ix <;> by_cases h2 : g.cnt [] r ix < g.app ix <;>
    simp only [h1, h2, if_true, if_false] <;> (repeat' split) <;> omega

theorem prodKeys_eq_specProd (g : Net) (L : Legs) (hnd : (keys L).Nodup) (p : Ix → Bool)
    (hmem : ∀ ix, ix ∈ keys L ↔ (ix ∈ g.allIx ∧ p ix = true)) :
    prodKeys g L = g.specProd p := by
  unfold prodKeys
  rw [← sizeOfLegs_eq_prod]
  exact sizeOfLegs_eq_specProd g L hnd p hmem

theorem prodKeys_merge (g : Net) {l r : BT} {La Lb : Legs}
    (hl : LegsSpec g l La) (hr : LegsSpec g r Lb) :
    prodKeys g (mergeLegs La Lb).1 = stepFlops g l r := by
  unfold stepFlops
  apply prodKeys_eq_specProd g _ (sorted_merge La Lb hl.sorted hr.sorted).nodup
  intro ix
  rw [mem_keys_merge, hl.mem_iff, hr.mem_iff]
  constructor
  · intro h
    refine ⟨?_, by simpa using h⟩
    rcases h with h | h
    · exact surv_mem_allIx g [] l ix h
    · exact surv_mem_allIx g [] r ix h
  · intro h; simpa using h.2

theorem prodKeys_kept (g : Net) {l r : BT} {La Lb : Legs} (hv : Valid g (.node l r))
    (hl : LegsSpec g l La) (hr : LegsSpec g r Lb) :
    prodKeys g (kept g (mergeLegs La Lb).1) = stepSize g l r := by
  have hn := legsSpec_node g hv hl hr
  unfold stepSize
  apply prodKeys_eq_specProd g _ hn.sorted.nodup
  intro ix
  rw [hn.mem_iff]
  constructor
  · intro h; exact ⟨surv_mem_allIx g [] _ ix h, by simpa using h⟩
  · intro h; simpa using h.2

/-- **cost_fn_eq_spec**: each of the six `compute_con_cost_*`, run on the merged legs of two
    sub-results, (i) leaves exactly the legs of the joined node (removes exactly the indices all of
    whose appearances are inside) and (ii) returns the objective's combination of the operands'
    scores with the step's flops / size as defined from the network alone. -/
theorem conCost_spec (g : Net) (obj : Objective) {l r : BT} {La Lb : Legs} (a b : Nat)
    (hv : Valid g (.node l r)) (hl : LegsSpec g l La) (hr : LegsSpec g r Lb) :
    LegsSpec g (.node l r) (conCost g obj (mergeLegs La Lb).1 a b).1 ∧
    (conCost g obj (mergeLegs La Lb).1 a b).2 =
      combine obj a b (stepFlops g l r) (stepSize g l r) := by
  rw [conCost_eq]
  exact ⟨legsSpec_node g hv hl hr, by rw [prodKeys_merge g hl hr, prodKeys_kept g hv hl hr]⟩

/-- the `skip_because_outer` test sees exactly whether the operands share a surviving index -/
theorem shared_spec (g : Net) {l r : BT} {La Lb : Legs} (hl : LegsSpec g l La)
    (hr : LegsSpec g r Lb) :
    (mergeLegs La Lb).2 = true ↔ ∃ ix, g.Surv [] l ix ∧ g.Surv [] r ix := by
  rw [shared_merge La Lb hl.sorted hr.sorted]
  constructor
  · rintro ⟨ix, h1, h2⟩; exact ⟨ix, (hl.mem_iff ix).1 h1, (hr.mem_iff ix).1 h2⟩
  · rintro ⟨ix, h1, h2⟩; exact ⟨ix, (hl.mem_iff ix).2 h1, (hr.mem_iff ix).2 h2⟩

/-! ## the `ContractionTree` pricing used by the driver equals the definition -/

theorem modelTreeCost_eq (g : Net) (obj : Objective) (t : BT) (hv : Valid g t) :
    modelTreeCost g obj t = treeCost g obj t := by
  induction t with
  | leaf i => rfl
  | node l r ihl ihr =>
    simp only [modelTreeCost, treeCost]
    rw [ihl hv.left, ihr hv.right, C03.flops_eq_spec g [] l r hv.nodup hv.bound,
      C03.size_eq_spec g [] (.node l r) hv.nodup hv.bound]
    rfl

theorem has_iff_mem_keys (L : Legs) (ix : Nat) : L.has ix = true ↔ ix ∈ keys L := by
  induction L with
  | nil => simp [Legs.has, keys]
  | cons kv t ih =>
    obtain ⟨k, v⟩ := kv
    simp only [Legs.has, Bool.or_eq_true, beq_iff_eq, ih, keys, List.map_cons, List.mem_cons]
    constructor
    · rintro (h | h)
      · exact Or.inl h.symm
      · exact Or.inr h
    · rintro (h | h)
      · exact Or.inl h.symm
      · exact Or.inr h

theorem modelHasOuter_iff (g : Net) (t : BT) (hv : Valid g t) :
    modelHasOuter g t = false ↔ OPF g t := by
  induction t with
  | leaf i => simp [modelHasOuter, OPF]
  | node l r ihl ihr =>
    simp only [modelHasOuter, OPF, Bool.or_eq_false_iff, ihl hv.left, ihr hv.right,
      Bool.not_eq_false', List.any_eq_true, has_iff_mem_keys]
    have hL := fun ix => Net.mem_legs_iff_surv g [] l hv.left.nodup hv.left.bound ix
    have hR := fun ix => Net.mem_legs_iff_surv g [] r hv.right.nodup hv.right.bound ix
    constructor
    · rintro ⟨⟨h1, h2⟩, ⟨k, v⟩, hkv, hr⟩
      refine ⟨h1, h2, k, (hL k).1 ?_, (hR k).1 hr⟩
      exact List.mem_map.2 ⟨(k, v), hkv, rfl⟩
    · rintro ⟨h1, h2, ix, hl, hr⟩
      obtain ⟨⟨k, v⟩, hkv, hk⟩ := List.mem_map.1 ((hL ix).2 hl)
      simp only at hk; subst hk
      exact ⟨⟨h1, h2⟩, (k, v), hkv, (hR k).2 hr⟩

end C09
end Cotengra
