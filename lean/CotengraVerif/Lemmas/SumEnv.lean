import CotengraVerif.Lemmas.FArrRadix

/-!
  Sums over index assignments (`FA.sumEnv`): congruence, splitting, factoring, reordering,
  dropping indices of size 1.
-/
namespace Cotengra.FA

/-- every label is bound to a value below its size -/
def EnvOK (sz : Ix → Nat) (env : Ix → Nat) : Prop := ∀ i, env i < sz i

@[simp] theorem upd_same (env : Ix → Nat) (i : Ix) (v : Nat) : upd env i v i = v := by simp [upd]

theorem upd_other (env : Ix → Nat) {i j : Ix} (v : Nat) (h : j ≠ i) : upd env i v j = env j := by
  simp [upd, h]

theorem upd_comm (env : Ix → Nat) {i j : Ix} (v w : Nat) (h : i ≠ j) :
    upd (upd env i v) j w = upd (upd env j w) i v := by
  funext k
  simp only [upd]
  by_cases hj : k = j <;> by_cases hi : k = i <;> simp_all

theorem upd_eq_self (env : Ix → Nat) (i : Ix) : upd env i (env i) = env := by
  funext k; simp only [upd]; split <;> simp_all

theorem EnvOK.upd {sz env} (h : EnvOK sz env) {i : Ix} {v : Nat} (hv : v < sz i) :
    EnvOK sz (upd env i v) := by
  intro j
  by_cases hj : j = i
  · subst hj; simpa using hv
  · rw [upd_other _ _ hj]; exact h j

/-- `f` reads the environment only at the labels of `T` -/
def DepOn (f : (Ix → Nat) → Int) (T : List Ix) : Prop :=
  ∀ e1 e2 : Ix → Nat, (∀ i ∈ T, e1 i = e2 i) → f e1 = f e2

theorem DepOn.mono {f T T'} (h : DepOn f T) (hs : ∀ i ∈ T, i ∈ T') : DepOn f T' :=
  fun e1 e2 he => h e1 e2 fun i hi => he i (hs i hi)

theorem sumEnv_nil (sz : Ix → Nat) (env) (f) : sumEnv sz [] env f = f env := rfl

theorem sumEnv_cons (sz : Ix → Nat) (i : Ix) (r : List Ix) (env) (f) :
    sumEnv sz (i :: r) env f = sumTo (sz i) fun v => sumEnv sz r (upd env i v) f := rfl

/-- congruence: the summands need only agree on the environments the sum actually visits -/
theorem sumEnv_congr {sz : Ix → Nat} {L : List Ix} {env : Ix → Nat} {f g} (henv : EnvOK sz env)
    (h : ∀ e, EnvOK sz e → (∀ i, i ∉ L → e i = env i) → f e = g e) :
    sumEnv sz L env f = sumEnv sz L env g := by
  induction L generalizing env with
  | nil => exact h env henv (fun _ _ => rfl)
  | cons i r ih =>
    simp only [sumEnv_cons]
    apply sumTo_congr
    intro v hv
    apply ih (henv.upd hv)
    intro e he hag
    apply h e he
    intro j hj
    simp only [List.mem_cons, not_or] at hj
    rw [hag j hj.2, upd_other _ _ hj.1]

theorem sumEnv_congr' {sz : Ix → Nat} {L : List Ix} {env : Ix → Nat} {f g}
    (h : ∀ e, (∀ i, i ∉ L → e i = env i) → f e = g e) :
    sumEnv sz L env f = sumEnv sz L env g := by
  induction L generalizing env with
  | nil => exact h env (fun _ _ => rfl)
  | cons i r ih =>
    simp only [sumEnv_cons]
    apply sumTo_congr
    intro v _
    apply ih
    intro e hag
    apply h e
    intro j hj
    simp only [List.mem_cons, not_or] at hj
    rw [hag j hj.2, upd_other _ _ hj.1]

/-- the sum does not read the starting environment at the summed labels, nor outside `T` -/
theorem sumEnv_env_congr {sz : Ix → Nat} {L T : List Ix} {f} (hf : DepOn f T) {e1 e2 : Ix → Nat}
    (h : ∀ i ∈ T, i ∉ L → e1 i = e2 i) : sumEnv sz L e1 f = sumEnv sz L e2 f := by
  induction L generalizing e1 e2 with
  | nil => exact hf e1 e2 fun i hi => h i hi (by simp)
  | cons j r ih =>
    simp only [sumEnv_cons]
    apply sumTo_congr
    intro v _
    apply ih
    intro i hi hir
    by_cases hij : i = j
    · subst hij; simp
    · rw [upd_other _ _ hij, upd_other _ _ hij]
      exact h i hi (by simp [hij, hir])

theorem sumEnv_append (sz : Ix → Nat) (L1 L2 : List Ix) (env) (f) :
    sumEnv sz (L1 ++ L2) env f = sumEnv sz L1 env fun e => sumEnv sz L2 e f := by
  induction L1 generalizing env with
  | nil => rfl
  | cons i r ih => simp only [List.cons_append, sumEnv_cons, ih]

theorem sumEnv_add (sz : Ix → Nat) (L : List Ix) (env) (f g : (Ix → Nat) → Int) :
    sumEnv sz L env (fun e => f e + g e) = sumEnv sz L env f + sumEnv sz L env g := by
  induction L generalizing env with
  | nil => rfl
  | cons i r ih => simp only [sumEnv_cons, ih, sumTo_add]

theorem sumEnv_const_mul (sz : Ix → Nat) (L : List Ix) (env) (c : Int) (f : (Ix → Nat) → Int) :
    sumEnv sz L env (fun e => c * f e) = c * sumEnv sz L env f := by
  induction L generalizing env with
  | nil => rfl
  | cons i r ih => simp only [sumEnv_cons, ih, sumTo_mul_left]

theorem sumEnv_mul_const (sz : Ix → Nat) (L : List Ix) (env) (c : Int) (f : (Ix → Nat) → Int) :
    sumEnv sz L env (fun e => f e * c) = sumEnv sz L env f * c := by
  induction L generalizing env with
  | nil => rfl
  | cons i r ih => simp only [sumEnv_cons, ih, sumTo_mul_right]

/-- a factor that does not read the summed labels can be pulled out (left) -/
theorem sumEnv_factor_left {sz : Ix → Nat} {L T : List Ix} {g f : (Ix → Nat) → Int} (env)
    (hg : DepOn g T) (hd : ∀ i ∈ T, i ∉ L) :
    sumEnv sz L env (fun e => g e * f e) = g env * sumEnv sz L env f := by
  rw [← sumEnv_const_mul]
  apply sumEnv_congr'
  intro e hag
  rw [hg e env fun i hi => hag i (hd i hi)]

/-- a factor that does not read the summed labels can be pulled out (right) -/
theorem sumEnv_factor_right {sz : Ix → Nat} {L T : List Ix} {g f : (Ix → Nat) → Int} (env)
    (hg : DepOn g T) (hd : ∀ i ∈ T, i ∉ L) :
    sumEnv sz L env (fun e => f e * g e) = sumEnv sz L env f * g env := by
  rw [← sumEnv_mul_const]
  apply sumEnv_congr'
  intro e hag
  rw [hg e env fun i hi => hag i (hd i hi)]

theorem sumEnv_swap (sz : Ix → Nat) {i j : Ix} (hij : i ≠ j) (r : List Ix) (env) (f) :
    sumEnv sz (i :: j :: r) env f = sumEnv sz (j :: i :: r) env f := by
  simp only [sumEnv_cons]
  rw [sumTo_comm]
  apply sumTo_congr; intro w _
  apply sumTo_congr; intro v _
  rw [upd_comm _ _ _ hij]

theorem sumEnv_perm {sz : Ix → Nat} {L1 L2 : List Ix} (hp : L1.Perm L2) (hn : L1.Nodup) (env) (f) :
    sumEnv sz L1 env f = sumEnv sz L2 env f := by
  induction hp generalizing env with
  | nil => rfl
  | cons x _ ih =>
    simp only [sumEnv_cons]
    apply sumTo_congr; intro v _
    exact ih (List.nodup_cons.1 hn).2 _
  | swap x y l =>
    apply sumEnv_swap
    intro h
    have := (List.nodup_cons.1 hn).1
    simp [h] at this
  | trans h1 _ ih1 ih2 =>
    rw [ih1 hn, ih2 (h1.nodup_iff.1 hn)]

theorem sumEnv_of_mem_iff {sz : Ix → Nat} {L1 L2 : List Ix} (h1 : L1.Nodup) (h2 : L2.Nodup)
    (h : ∀ i, i ∈ L1 ↔ i ∈ L2) (env) (f) : sumEnv sz L1 env f = sumEnv sz L2 env f :=
  sumEnv_perm ((List.perm_ext_iff_of_nodup h1 h2).2 h) h1 env f

/-- labels of size 1 contribute a single term, at the value the environment already has -/
theorem sumEnv_filter_nt {sz : Ix → Nat} {L : List Ix} {env : Ix → Nat} (henv : EnvOK sz env)
    (f) : sumEnv sz L env f = sumEnv sz (L.filter fun i => sz i != 1) env f := by
  induction L generalizing env with
  | nil => rfl
  | cons i r ih =>
    by_cases h1 : sz i = 1
    · have h0 : env i = 0 := by have := henv i; omega
      simp only [sumEnv_cons, h1, sumTo_one, List.filter_cons, bne_self_eq_false,
        Bool.false_eq_true, ↓reduceIte]
      rw [← h0, upd_eq_self, ih henv]
    · have : (sz i != 1) = true := by simp [h1]
      simp only [List.filter_cons, this, ↓reduceIte, sumEnv_cons]
      apply sumTo_congr; intro v hv
      exact ih (henv.upd hv)

end Cotengra.FA
