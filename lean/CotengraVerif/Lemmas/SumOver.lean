import CotengraVerif.Model.Tensor
import Mathlib.Algebra.Ring.Defs
import Mathlib.Algebra.Group.Basic
import Mathlib.Data.List.Perm.Basic

/-!
  Algebra of the nested finite sums `sumOver` over a commutative semiring: congruence,
  splitting over `++`, invariance under permutation of the summed keys (Fubini), pulling a
  factor that does not depend on the summed keys out of the sum (distributivity), and the
  combined statement `sumOver_fubini` used by the step case of `admissible_sound`.
-/
namespace Cotengra

theorem upd_same (σ : Nat → Nat) (k v : Nat) : upd σ k v k = v := by simp [upd]

theorem upd_other (σ : Nat → Nat) (k v j : Nat) (h : j ≠ k) : upd σ k v j = σ j := by
  simp [upd, h]

theorem upd_comm (σ : Nat → Nat) (a b v w : Nat) (h : a ≠ b) :
    upd (upd σ a v) b w = upd (upd σ b w) a v := by
  funext j
  simp only [upd]
  grind

section
variable {R : Type} [CommSemiring R]

theorem sumRange_congr {d : Nat} {f g : Nat → R} (h : ∀ v, v < d → f v = g v) :
    sumRange d f = sumRange d g := by
  induction d with
  | zero => rfl
  | succ d ih =>
    simp only [sumRange]
    rw [ih (fun v hv => h v (Nat.lt_succ_of_lt hv)), h d (Nat.lt_succ_self d)]

theorem sumRange_add (d : Nat) (f g : Nat → R) :
    sumRange d (fun v => f v + g v) = sumRange d f + sumRange d g := by
  induction d with
  | zero => simp [sumRange]
  | succ d ih =>
    simp only [sumRange, ih]
    rw [add_add_add_comm]

theorem sumRange_mul_left (d : Nat) (c : R) (f : Nat → R) :
    sumRange d (fun v => c * f v) = c * sumRange d f := by
  induction d with
  | zero => simp [sumRange]
  | succ d ih => simp only [sumRange, ih, mul_add]

theorem sumRange_mul_right (d : Nat) (c : R) (f : Nat → R) :
    sumRange d (fun v => f v * c) = sumRange d f * c := by
  induction d with
  | zero => simp [sumRange]
  | succ d ih => simp only [sumRange, ih, add_mul]

theorem sumRange_comm (d e : Nat) (f : Nat → Nat → R) :
    sumRange d (fun v => sumRange e (f v)) = sumRange e (fun w => sumRange d (fun v => f v w)) := by
  induction d with
  | zero =>
    simp only [sumRange]
    induction e with
    | zero => rfl
    | succ e ih => simp only [sumRange, ← ih, add_zero]
  | succ d ih =>
    simp only [sumRange, ih]
    rw [← sumRange_add]

/-- `f` does not depend on the value assigned to key `k` -/
def Indep (f : (Nat → Nat) → R) (k : Nat) : Prop := ∀ σ v, f (upd σ k v) = f σ

theorem sumOver_congr (dim : Nat → Nat) (ks : List Nat) (σ : Nat → Nat)
    {f g : (Nat → Nat) → R} (h : ∀ τ, f τ = g τ) : sumOver dim ks σ f = sumOver dim ks σ g := by
  have : f = g := funext h
  rw [this]

theorem sumOver_append (dim : Nat → Nat) (k1 k2 : List Nat) (σ : Nat → Nat)
    (f : (Nat → Nat) → R) :
    sumOver dim (k1 ++ k2) σ f = sumOver dim k1 σ (fun τ => sumOver dim k2 τ f) := by
  induction k1 generalizing σ with
  | nil => rfl
  | cons k ks ih =>
    simp only [List.cons_append, sumOver]
    exact sumRange_congr (fun v _ => ih _)

theorem sumOver_swap (dim : Nat → Nat) (a b : Nat) (ks : List Nat) (σ : Nat → Nat)
    (f : (Nat → Nat) → R) (h : a ≠ b) :
    sumOver dim (a :: b :: ks) σ f = sumOver dim (b :: a :: ks) σ f := by
  simp only [sumOver]
  rw [sumRange_comm]
  apply sumRange_congr
  intro w _
  apply sumRange_congr
  intro v _
  rw [upd_comm σ a b v w h]

/-- **Fubini**: the order in which distinct keys are summed is irrelevant. -/
theorem sumOver_perm (dim : Nat → Nat) {k1 k2 : List Nat} (hp : k1.Perm k2) (hn : k1.Nodup)
    (σ : Nat → Nat) (f : (Nat → Nat) → R) : sumOver dim k1 σ f = sumOver dim k2 σ f := by
  induction hp generalizing σ with
  | nil => rfl
  | cons x _ ih =>
    simp only [sumOver]
    exact sumRange_congr (fun v _ => ih (List.nodup_cons.1 hn).2 _)
  | swap x y l =>
    apply sumOver_swap
    intro e
    subst e
    simp at hn
  | trans h1 _ ih1 ih2 =>
    rw [ih1 hn, ih2 (h1.nodup_iff.1 hn)]

/-- **distributivity**: a factor independent of the summed keys leaves the sum -/
theorem sumOver_mul_left (dim : Nat → Nat) (ks : List Nat) (σ : Nat → Nat)
    (f g : (Nat → Nat) → R) (h : ∀ k ∈ ks, Indep f k) :
    sumOver dim ks σ (fun τ => f τ * g τ) = f σ * sumOver dim ks σ g := by
  induction ks generalizing σ with
  | nil => rfl
  | cons k ks ih =>
    simp only [sumOver]
    rw [← sumRange_mul_left]
    apply sumRange_congr
    intro v _
    rw [ih _ (fun j hj => h j (List.mem_cons_of_mem _ hj)), h k List.mem_cons_self σ v]

theorem sumOver_mul_right (dim : Nat → Nat) (ks : List Nat) (σ : Nat → Nat)
    (f g : (Nat → Nat) → R) (h : ∀ k ∈ ks, Indep g k) :
    sumOver dim ks σ (fun τ => f τ * g τ) = sumOver dim ks σ f * g σ := by
  have := sumOver_mul_left dim ks σ g f h
  rw [mul_comm (g σ)] at this
  rw [← this]
  exact sumOver_congr dim ks σ (fun τ => mul_comm _ _)

theorem indep_sumOver (dim : Nat → Nat) (ks : List Nat) (g : (Nat → Nat) → R) (k : Nat)
    (hg : Indep g k) (hk : k ∉ ks) : Indep (fun τ => sumOver dim ks τ g) k := by
  induction ks with
  | nil => exact hg
  | cons j ks ih =>
    intro σ v
    simp only [sumOver]
    apply sumRange_congr
    intro w _
    have hjk : k ≠ j := fun e => hk (e ▸ List.mem_cons_self)
    rw [upd_comm σ k j v w hjk]
    exact ih (fun h => hk (List.mem_cons_of_mem _ h)) (upd σ j w) v

/-- the step case of the soundness proof in the abstract: summing `K`, then the keys private
    to the left factor, then those private to the right factor, of a product, is the sum over
    `K` of the product of the two partial sums. -/
theorem sumOver_fubini (dim : Nat → Nat) (K mL mR : List Nat) (σ : Nat → Nat)
    (fL fR : (Nat → Nat) → R)
    (hL : ∀ k ∈ mR, Indep fL k) (hR : ∀ k ∈ mL, Indep fR k) (hd : ∀ k ∈ mL, k ∉ mR) :
    sumOver dim (K ++ (mL ++ mR)) σ (fun τ => fL τ * fR τ) =
      sumOver dim K σ (fun τ => sumOver dim mL τ fL * sumOver dim mR τ fR) := by
  rw [sumOver_append]
  apply sumOver_congr
  intro τ
  rw [sumOver_append]
  have h1 : ∀ τ', sumOver dim mR τ' (fun τ => fL τ * fR τ) = fL τ' * sumOver dim mR τ' fR :=
    fun τ' => sumOver_mul_left dim mR τ' fL fR hL
  rw [sumOver_congr dim mL τ h1]
  exact sumOver_mul_right dim mL τ fL (fun τ' => sumOver dim mR τ' fR)
    (fun k hk => indep_sumOver dim mR fR k (hR k hk) (hd k hk))

/-! ### products over operand lists -/

theorem prodOver_append (S T : List Nat) (f : Nat → R) :
    prodOver (S ++ T) f = prodOver S f * prodOver T f := by
  induction S with
  | nil => simp [prodOver]
  | cons i S ih =>
    simp only [prodOver, List.cons_append, List.foldr_cons] at *
    rw [ih, mul_assoc]

theorem prodOver_perm {S T : List Nat} (h : S.Perm T) (f : Nat → R) :
    prodOver S f = prodOver T f := by
  induction h with
  | nil => rfl
  | cons x _ ih => simp only [prodOver, List.foldr_cons] at *; rw [ih]
  | swap x y l => simp only [prodOver, List.foldr_cons]; rw [← mul_assoc, ← mul_assoc, mul_comm (f y)]
  | trans _ _ ih1 ih2 => rw [ih1, ih2]

theorem prodOver_congr {S : List Nat} {f g : Nat → R} (h : ∀ i ∈ S, f i = g i) :
    prodOver S f = prodOver S g := by
  induction S with
  | nil => rfl
  | cons i S ih =>
    simp only [prodOver, List.foldr_cons] at *
    rw [ih (fun j hj => h j (List.mem_cons_of_mem _ hj)), h i List.mem_cons_self]

end
end Cotengra
