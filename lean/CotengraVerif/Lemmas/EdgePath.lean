import CotengraVerif.Lemmas.PathInverse
import Mathlib.Tactic.Tauto
import Mathlib.Data.List.Induction

/-!
  `edge_path_to_ssa`: the two incremental maps `ind_to_ssas` / `ssa_to_inds` simulate the
  leaf-set definition "contract all current tensors that carry the index".
-/
namespace Cotengra.Paths
open Cotengra

abbrev I2S := List (Ix × List Nat)
abbrev S2I := List (Nat × List Ix)

/-! ### small facts -/

theorem mem_setAdd (a : Nat) (l : List Nat) (x : Nat) : x ∈ setAdd a l ↔ x = a ∨ x ∈ l := by
  unfold setAdd
  by_cases h : l.contains a = true
  · simp only [h, if_true]
    have : a ∈ l := by simpa using h
    constructor
    · exact Or.inr
    · rintro (rfl | h') <;> assumption
  · simp only [h, Bool.false_eq_true, if_false, List.mem_append, List.mem_singleton]
    tauto

theorem nodup_setAdd (a : Nat) (l : List Nat) (h : l.Nodup) : (setAdd a l).Nodup := by
  unfold setAdd
  by_cases hc : l.contains a = true
  · rw [if_pos hc]; exact h
  · rw [if_neg hc]
    have : a ∉ l := by simpa using hc
    rw [List.nodup_append]
    exact ⟨h, by simp, fun x hx y hy e => this (by simp at hy; rw [← hy, ← e]; exact hx)⟩

/-- `s` replaced by `ssa` in a carrier set -/
def updSet (ssa s : Nat) (set : List Nat) : List Nat := setAdd ssa (set.filter (· != s))

theorem mem_updSet (ssa s : Nat) (set : List Nat) (x : Nat) :
    x ∈ updSet ssa s set ↔ x = ssa ∨ (x ∈ set ∧ x ≠ s) := by
  unfold updSet
  rw [mem_setAdd, List.mem_filter]
  simp

theorem nodup_updSet (ssa s : Nat) (set : List Nat) (h : set.Nodup) : (updSet ssa s set).Nodup :=
  nodup_setAdd _ _ (h.filter _)

theorem lookup_none_iff {α β : Type _} [BEq α] [LawfulBEq α] (l : List (α × β)) (k : α) :
    l.lookup k = none ↔ k ∉ l.map (·.1) := by
  induction l with
  | nil => simp
  | cons a t ih =>
    obtain ⟨a1, a2⟩ := a
    by_cases h : k = a1
    · subst h; simp [List.lookup]
    · have : (k == a1) = false := by simpa using h
      simp [List.lookup, this, ih, h]

theorem lookup_map_snd {α β : Type _} [BEq α] [LawfulBEq α] (l : List (α × β)) (f : α → β → β) (k : α) :
    (l.map fun kv => (kv.1, f kv.1 kv.2)).lookup k = (l.lookup k).map (f k) := by
  induction l with
  | nil => rfl
  | cons a t ih =>
    obtain ⟨a1, a2⟩ := a
    by_cases h : k = a1
    · subst h; simp [List.lookup]
    · have : (k == a1) = false := by simpa using h
      simp [List.lookup, this, ih]

theorem lookup_filter_ne' {α β : Type _} [BEq α] [LawfulBEq α] (l : List (α × β)) (i j : α) (h : j ≠ i) :
    (l.filter (fun kv => kv.1 != i)).lookup j = l.lookup j := by
  induction l with
  | nil => rfl
  | cons a t ih =>
    obtain ⟨a1, a2⟩ := a
    by_cases ha : a1 = i
    · subst ha
      have h1 : (j == a1) = false := by simpa using h
      simp [List.lookup, h1, ih]
    · have h2 : (a1 != i) = true := by simpa using ha
      simp only [List.filter_cons, h2, if_true, List.lookup]
      cases (j == a1) <;> simp [ih]

theorem lookup_mem {α β : Type _} [BEq α] [LawfulBEq α] (l : List (α × β)) (k : α) (v : β)
    (h : l.lookup k = some v) : (k, v) ∈ l := by
  induction l with
  | nil => simp at h
  | cons a t ih =>
    obtain ⟨a1, a2⟩ := a
    by_cases hk : k = a1
    · subst hk
      simp only [List.lookup, BEq.rfl, Option.some.injEq] at h
      subst h; exact List.mem_cons_self
    · have : (k == a1) = false := by simpa using hk
      simp only [List.lookup, this] at h
      exact List.mem_cons_of_mem _ (ih h)

theorem lookup_of_mem_nodup {α β : Type _} [BEq α] [LawfulBEq α] (l : List (α × β))
    (hn : (l.map (·.1)).Nodup) (k : α) (v : β) (h : (k, v) ∈ l) : l.lookup k = some v := by
  induction l with
  | nil => simp at h
  | cons a t ih =>
    obtain ⟨a1, a2⟩ := a
    simp only [List.map_cons, List.nodup_cons] at hn
    rcases List.mem_cons.1 h with e | h'
    · cases e; simp [List.lookup]
    · have hne : k ≠ a1 := fun e => hn.1 (e ▸ List.mem_map.2 ⟨(k, v), h', rfl⟩)
      have : (k == a1) = false := by simpa using hne
      simp only [List.lookup, this]
      exact ih hn.2 h'

/-! ### the inner loop: the indices of one contracted tensor -/

/-- the map applied to `ind_to_ssas` by the inner loop of tensor `s` with index set `inds` -/
def absorbMap (ssa s : Nat) (inds : List Ix) (i2s : I2S) : I2S :=
  i2s.map fun kv => (kv.1, if inds.contains kv.1 then updSet ssa s kv.2 else kv.2)

theorem absorbMap_nil (ssa s : Nat) (i2s : I2S) : absorbMap ssa s [] i2s = i2s := by
  unfold absorbMap
  conv => rhs; rw [← List.map_id i2s]
  apply List.map_congr_left
  intro kv _; simp

theorem inner_spec (ssa s : Nat) (inds : List Ix) : ∀ (i2s : I2S) (term : List Ix),
    inds.Nodup → (∀ jx ∈ inds, ∀ set, i2s.lookup jx = some set → s ∈ set) →
    ∃ term', inds.foldl (fun o jx => o.bind (fun a => absorbIx ssa s a jx)) (some (i2s, term)) =
        some (absorbMap ssa s inds i2s, term') ∧
      (term.Nodup → term'.Nodup) ∧
      ∀ x, x ∈ term' ↔ (x ∈ term ∨ (x ∈ inds ∧ x ∈ i2s.map (·.1))) := by
  induction inds with
  | nil =>
    intro i2s term _ _
    exact ⟨term, by simp [absorbMap_nil], fun h => h, by simp⟩
  | cons jx rest ih =>
    intro i2s term hnd hmem
    have hnd' := List.nodup_cons.1 hnd
    rw [List.foldl_cons]
    cases hl : i2s.lookup jx with
    | none =>
      have hkey : jx ∉ i2s.map (·.1) := (lookup_none_iff i2s jx).1 hl
      obtain ⟨term', h1, h2, h3⟩ := ih i2s term hnd'.2
        (fun j hj set hs => hmem j (List.mem_cons_of_mem _ hj) set hs)
      refine ⟨term', ?_, h2, ?_⟩
      · have hstep : absorbIx ssa s (i2s, term) jx = some (i2s, term) := by simp [absorbIx, hl]
        rw [Option.bind_some, hstep, h1]
        congr 2
        unfold absorbMap
        apply List.map_congr_left
        intro kv hkv
        have : kv.1 ≠ jx := fun e => hkey (e ▸ List.mem_map.2 ⟨kv, hkv, rfl⟩)
        simp [List.contains_cons, this]
      · intro x
        rw [h3 x]
        constructor
        · rintro (h | ⟨h, h'⟩)
          · exact Or.inl h
          · exact Or.inr ⟨List.mem_cons_of_mem _ h, h'⟩
        · rintro (h | ⟨h, h'⟩)
          · exact Or.inl h
          · rcases List.mem_cons.1 h with rfl | h
            · exact absurd h' hkey
            · exact Or.inr ⟨h, h'⟩
    | some set =>
      have hs : s ∈ set := hmem jx List.mem_cons_self set hl
      have hc : set.contains s = true := by simpa using hs
      set i2s1 : I2S := i2s.map (fun kv => if kv.1 == jx then (kv.1, setAdd ssa (kv.2.filter (· != s))) else kv)
        with hi2s1
      have hi2s1' : i2s1 = i2s.map (fun kv => (kv.1, if kv.1 == jx then updSet ssa s kv.2 else kv.2)) := by
        rw [hi2s1]
        apply List.map_congr_left
        intro kv _
        by_cases e : kv.1 == jx <;> simp [e, updSet]
      have hlook1 : ∀ j, j ≠ jx → i2s1.lookup j = i2s.lookup j := by
        intro j hj
        rw [hi2s1', lookup_map_snd i2s (fun k set => if k == jx then updSet ssa s set else set) j]
        have : (j == jx) = false := by simpa using hj
        simp [this]
      have hkeys1 : i2s1.map (·.1) = i2s.map (·.1) := by
        rw [hi2s1', List.map_map]; rfl
      obtain ⟨term', h1, h2, h3⟩ := ih i2s1 (if term.contains jx then term else term ++ [jx]) hnd'.2
        (by
          intro j hj set' hs'
          have hne : j ≠ jx := fun e => hnd'.1 (e ▸ hj)
          rw [hlook1 j hne] at hs'
          exact hmem j (List.mem_cons_of_mem _ hj) set' hs')
      refine ⟨term', ?_, ?_, ?_⟩
      · have hstep : absorbIx ssa s (i2s, term) jx =
            some (i2s1, if term.contains jx then term else term ++ [jx]) := by
          simp [absorbIx, hl, hs, hi2s1]
        rw [Option.bind_some, hstep, h1]
        congr 2
        rw [hi2s1']
        unfold absorbMap
        rw [List.map_map]
        apply List.map_congr_left
        intro kv _
        simp only [Function.comp, List.contains_cons]
        by_cases e : kv.1 = jx
        · have hnr : jx ∉ rest := hnd'.1
          simp [e, hnr]
        · have : (kv.1 == jx) = false := by simpa using e
          simp [this]
      · intro ht
        apply h2
        by_cases hcj : term.contains jx = true
        · rw [if_pos hcj]; exact ht
        · rw [if_neg hcj]
          have : jx ∉ term := by simpa using hcj
          rw [List.nodup_append]
          exact ⟨ht, by simp, fun x hx y hy e => this (by simp at hy; rw [← hy, ← e]; exact hx)⟩
      · intro x
        rw [h3 x, hkeys1]
        have hjk : jx ∈ i2s.map (·.1) := by
          have := lookup_mem i2s jx set hl
          exact List.mem_map.2 ⟨(jx, set), this, rfl⟩
        have hterm : x ∈ (if term.contains jx then term else term ++ [jx]) ↔ x ∈ term ∨ x = jx := by
          by_cases hcj : term.contains jx = true
          · rw [if_pos hcj]
            have : jx ∈ term := by simpa using hcj
            constructor
            · exact Or.inl
            · rintro (h | rfl) <;> assumption
          · rw [if_neg hcj]; simp
        rw [hterm]
        constructor
        · rintro ((h | rfl) | ⟨h, h'⟩)
          · exact Or.inl h
          · exact Or.inr ⟨List.mem_cons_self, hjk⟩
          · exact Or.inr ⟨List.mem_cons_of_mem _ h, h'⟩
        · rintro (h | ⟨h, h'⟩)
          · exact Or.inl (Or.inl h)
          · rcases List.mem_cons.1 h with rfl | h
            · exact Or.inl (Or.inr rfl)
            · exact Or.inr ⟨h, h'⟩

/-! ### the outer loop: all contracted tensors -/

def indsOf (s2i : S2I) (s : Nat) : List Ix := (s2i.lookup s).getD []

/-- the carrier set of `jx` after the tensors `S` have been absorbed into the new id `ssa` -/
def absorbAll (s2i : S2I) (ssa : Nat) : List Nat → Ix → List Nat → List Nat
  | [], _, set => set
  | s :: S, jx, set =>
    absorbAll s2i ssa S jx (if (indsOf s2i s).contains jx then updSet ssa s set else set)

theorem absorbAll_congr (s2i s2i' : S2I) (ssa : Nat) (S : List Nat)
    (h : ∀ s ∈ S, indsOf s2i' s = indsOf s2i s) (jx : Ix) (set : List Nat) :
    absorbAll s2i' ssa S jx set = absorbAll s2i ssa S jx set := by
  induction S generalizing set with
  | nil => rfl
  | cons s S ih =>
    simp only [absorbAll, h s List.mem_cons_self]
    exact ih (fun s' hs' => h s' (List.mem_cons_of_mem _ hs')) _

theorem nodup_absorbAll (s2i : S2I) (ssa : Nat) (S : List Nat) (jx : Ix) (set : List Nat)
    (h : set.Nodup) : (absorbAll s2i ssa S jx set).Nodup := by
  induction S generalizing set with
  | nil => exact h
  | cons s S ih =>
    simp only [absorbAll]
    apply ih
    split
    · exact nodup_updSet _ _ _ h
    · exact h

theorem mem_absorbAll (s2i : S2I) (ssa : Nat) (S : List Nat) (jx : Ix) (set : List Nat) (x : Nat)
    (hS : ssa ∉ S) :
    x ∈ absorbAll s2i ssa S jx set ↔
      (x = ssa ∧ (ssa ∈ set ∨ ∃ s ∈ S, jx ∈ indsOf s2i s)) ∨
      (x ≠ ssa ∧ x ∈ set ∧ ∀ s ∈ S, jx ∈ indsOf s2i s → x ≠ s) := by
  induction S generalizing set with
  | nil =>
    simp only [absorbAll, List.not_mem_nil, false_and, exists_false, or_false, false_imp_iff,
      implies_true, and_true]
    by_cases hx : x = ssa
    · subst hx; simp
    · simp [hx]
  | cons s S ih =>
    have hS' : ssa ∉ S := fun h => hS (List.mem_cons_of_mem _ h)
    have hne : ssa ≠ s := fun e => hS (e ▸ List.mem_cons_self)
    simp only [absorbAll]
    rw [ih _ hS']
    by_cases hc : (indsOf s2i s).contains jx = true
    · have hm : jx ∈ indsOf s2i s := by simpa using hc
      simp only [hc, if_true, mem_updSet, List.mem_cons, exists_eq_or_imp, forall_eq_or_imp]
      by_cases hx : x = ssa
      · subst hx; simp [hm]
      · simp only [hx, false_and, false_or, ne_eq, not_false_eq_true, true_and]
        constructor
        · rintro ⟨⟨h2, h3⟩, h4⟩
          exact ⟨h2, fun _ => h3, h4⟩
        · rintro ⟨h2, h3, h4⟩
          exact ⟨⟨h2, h3 hm⟩, h4⟩
    · have hm : jx ∉ indsOf s2i s := by simpa using hc
      simp only [hc, Bool.false_eq_true, if_false, List.mem_cons, exists_eq_or_imp, forall_eq_or_imp]
      by_cases hx : x = ssa
      · subst hx; simp [hm]
      · simp [hx, hm]

theorem outer_spec (ssa : Nat) (S : List Nat) : ∀ (i2s : I2S) (s2i : S2I) (term : List Ix),
    S.Nodup →
    (∀ s ∈ S, (s2i.lookup s).isSome = true ∧ (indsOf s2i s).Nodup) →
    (∀ s ∈ S, ∀ jx ∈ indsOf s2i s, ∀ set, i2s.lookup jx = some set → s ∈ set) →
    ∃ term', S.foldl (fun o s => o.bind (edgeAbsorb ssa s)) (some (i2s, s2i, term)) =
        some (i2s.map (fun kv => (kv.1, absorbAll s2i ssa S kv.1 kv.2)),
              s2i.filter (fun kv => !S.contains kv.1), term') ∧
      (term.Nodup → term'.Nodup) ∧
      ∀ x, x ∈ term' ↔ (x ∈ term ∨ (x ∈ i2s.map (·.1) ∧ ∃ s ∈ S, x ∈ indsOf s2i s)) := by
  induction S with
  | nil =>
    intro i2s s2i term _ _ _
    refine ⟨term, ?_, fun h => h, by simp⟩
    simp only [List.foldl_nil, absorbAll, List.contains_nil, Bool.not_false, List.filter_true]
    congr 2
    conv => lhs; rw [← List.map_id i2s]
    apply List.map_congr_left
    intro kv _; rfl
  | cons s S ih =>
    intro i2s s2i term hnd hlook hmem
    have hnd' := List.nodup_cons.1 hnd
    obtain ⟨hsome, hindsnd⟩ := hlook s List.mem_cons_self
    obtain ⟨inds, hinds⟩ := Option.isSome_iff_exists.1 hsome
    have hio : indsOf s2i s = inds := by simp [indsOf, hinds]
    obtain ⟨term1, hin1, hin2, hin3⟩ := inner_spec ssa s inds i2s term (hio ▸ hindsnd)
      (fun jx hj set hs => hmem s List.mem_cons_self jx (hio ▸ hj) set hs)
    have hstep : edgeAbsorb ssa s (i2s, s2i, term) =
        some (absorbMap ssa s inds i2s, s2i.filter (fun kv => kv.1 != s), term1) := by
      simp only [edgeAbsorb, hinds, hin1, Option.map_some]
    have hlk : ∀ s' ∈ S, (s2i.filter (fun kv => kv.1 != s)).lookup s' = s2i.lookup s' := by
      intro s' hs'
      exact lookup_filter_ne' s2i s s' (fun e => hnd'.1 (e ▸ hs'))
    have hio' : ∀ s' ∈ S, indsOf (s2i.filter (fun kv => kv.1 != s)) s' = indsOf s2i s' := by
      intro s' hs'; simp [indsOf, hlk s' hs']
    have hkeys1 : (absorbMap ssa s inds i2s).map (·.1) = i2s.map (·.1) := by
      unfold absorbMap; rw [List.map_map]; rfl
    obtain ⟨term', h1, h2, h3⟩ := ih (absorbMap ssa s inds i2s) (s2i.filter (fun kv => kv.1 != s)) term1
      hnd'.2
      (by
        intro s' hs'
        rw [hlk s' hs', hio' s' hs']
        exact hlook s' (List.mem_cons_of_mem _ hs'))
      (by
        intro s' hs' jx hj set' hset'
        rw [hio' s' hs'] at hj
        unfold absorbMap at hset'
        rw [lookup_map_snd i2s (fun k set => if inds.contains k then updSet ssa s set else set) jx] at hset'
        cases hl : i2s.lookup jx with
        | none => simp [hl] at hset'
        | some set =>
          simp only [hl, Option.map_some, Option.some.injEq] at hset'
          have hm := hmem s' (List.mem_cons_of_mem _ hs') jx hj set hl
          have hne : s' ≠ s := fun e => hnd'.1 (e ▸ hs')
          rw [← hset']
          split
          · rw [mem_updSet]; exact Or.inr ⟨hm, hne⟩
          · exact hm)
    refine ⟨term', ?_, fun ht => h2 (hin2 ht), ?_⟩
    · rw [List.foldl_cons, Option.bind_some, hstep, h1]
      congr 2
      · unfold absorbMap
        rw [List.map_map]
        apply List.map_congr_left
        intro kv _
        simp only [Function.comp, absorbAll, hio]
        rw [absorbAll_congr s2i _ ssa S hio']
      · congr 1
        rw [List.filter_filter]
        apply List.filter_congr
        intro kv _
        simp only [List.contains_cons, Bool.not_or, bne, Bool.and_comm]
    · intro x
      rw [h3 x, hin3 x, hkeys1]
      constructor
      · rintro ((h | ⟨h, h'⟩) | ⟨h, s', hs', hx⟩)
        · exact Or.inl h
        · exact Or.inr ⟨h', s, List.mem_cons_self, hio ▸ h⟩
        · exact Or.inr ⟨h, s', List.mem_cons_of_mem _ hs', (hio' s' hs') ▸ hx⟩
      · rintro (h | ⟨h, s', hs', hx⟩)
        · exact Or.inl (Or.inl h)
        · rcases List.mem_cons.1 hs' with rfl | hs''
          · exact Or.inl (Or.inr ⟨hio ▸ hx, h⟩)
          · exact Or.inr ⟨h, s', hs'', (hio' s' hs'').symm ▸ hx⟩

/-! ### the definition: contract the current tensors that carry the index -/

/-- some leaf of the tensor has `ix` among the indices of its input term -/
def carriesIx (inputs : List (List Ix)) (leaves : List Nat) (ix : Ix) : Bool :=
  leaves.any fun l => (inputs.getD l []).contains ix

structure SpecSt where
  cur : List (Nat × List Nat)     -- current tensors: (ssa id, leaves)
  ssa : Nat
  path : Path

/-- eliminate index `ix`: all current tensors carrying it are merged (if there are at least two) -/
def specStep (inputs : List (List Ix)) (p : SpecSt) (ix : Ix) : SpecSt :=
  let car := p.cur.filter fun kv => carriesIx inputs kv.2 ix
  if car.length < 2 then p
  else { cur := p.cur.filter (fun kv => !carriesIx inputs kv.2 ix) ++ [(p.ssa, car.flatMap (·.2))],
         ssa := p.ssa + 1, path := p.path ++ [sortAsc (car.map (·.1))] }

def specInit (inputs : List (List Ix)) : SpecSt :=
  ⟨(List.range inputs.length).map fun i => (i, [i]), inputs.length, []⟩

/-- the SSA path defined by an edge path, from the leaf sets alone -/
def specEdge (inputs : List (List Ix)) (ep : List Ix) : Path :=
  (ep.foldl (specStep inputs) (specInit inputs)).path

/-- simulation relation between the state of `edge_path_to_ssa` and the definition -/
structure ESim (inputs : List (List Ix)) (e : EdgeState) (p : SpecSt) : Prop where
  ssa_eq : e.ssa = p.ssa
  path_eq : e.path = p.path
  ids_eq : e.ssaToInds.map (·.1) = p.cur.map (·.1)
  ids_nd : (p.cur.map (·.1)).Nodup
  ids_lt : ∀ s ∈ p.cur.map (·.1), s < p.ssa
  inds_nd : ∀ kv ∈ e.ssaToInds, kv.2.Nodup
  keys_nd : (e.indToSsas.map (·.1)).Nodup
  sets : ∀ jx set, e.indToSsas.lookup jx = some set →
    set.Nodup ∧ ∀ s, s ∈ set ↔ ∃ inds, e.ssaToInds.lookup s = some inds ∧ jx ∈ inds
  carry : ∀ s inds leaves, e.ssaToInds.lookup s = some inds → p.cur.lookup s = some leaves →
    ∀ jx ∈ e.indToSsas.map (·.1), (jx ∈ inds ↔ carriesIx inputs leaves jx = true)

theorem lookup_isSome_iff {α β : Type _} [BEq α] [LawfulBEq α] (l : List (α × β)) (k : α) :
    (l.lookup k).isSome = true ↔ k ∈ l.map (·.1) := by
  constructor
  · intro h
    apply Classical.byContradiction
    intro hn
    have := (lookup_none_iff l k).2 hn
    simp [this] at h
  · intro h
    cases hl : l.lookup k with
    | some v => rfl
    | none => exact absurd h ((lookup_none_iff l k).1 hl)

theorem lookup_append_single {β : Type _} (A : List (Nat × β)) (k : Nat) (v : β) (x : Nat)
    (hk : k ∉ A.map (·.1)) :
    (A ++ [(k, v)]).lookup x = if x = k then some v else A.lookup x := by
  induction A with
  | nil =>
    by_cases h : x = k
    · subst h; simp [List.lookup]
    · have : (x == k) = false := by simpa using h
      simp [List.lookup, this, h]
  | cons a t ih =>
    obtain ⟨a1, a2⟩ := a
    simp only [List.map_cons, List.mem_cons, not_or] at hk
    by_cases h : x = a1
    · subst h
      have : x ≠ k := fun e => hk.1 e.symm
      simp [List.lookup, this]
    · have hb : (x == a1) = false := by simpa using h
      simp only [List.cons_append, List.lookup, hb]
      exact ih hk.2

/-- same keys ⇒ a key found in one dict is found in the other -/
theorem exists_lookup_of_keys_eq {β γ : Type _} (A : List (Nat × β)) (B : List (Nat × γ))
    (h : A.map (·.1) = B.map (·.1)) (s : Nat) (v : β) (hv : A.lookup s = some v) :
    ∃ w, B.lookup s = some w := by
  have : s ∈ A.map (·.1) := List.mem_map.2 ⟨(s, v), lookup_mem A s v hv, rfl⟩
  rw [h] at this
  exact Option.isSome_iff_exists.1 ((lookup_isSome_iff B s).2 this)

/-- the carriers of `ix` according to `ind_to_ssas` are the current tensors whose leaves carry it -/
theorem scon_perm (inputs : List (List Ix)) (e : EdgeState) (p : SpecSt) (h : ESim inputs e p)
    (ix : Ix) (scon : List Nat) (hl : e.indToSsas.lookup ix = some scon) :
    scon.Perm ((p.cur.filter fun kv => carriesIx inputs kv.2 ix).map (·.1)) := by
  have hix : ix ∈ e.indToSsas.map (·.1) :=
    List.mem_map.2 ⟨(ix, scon), lookup_mem _ _ _ hl, rfl⟩
  obtain ⟨hnd, hmem⟩ := h.sets ix scon hl
  have hnd2 : ((p.cur.filter fun kv => carriesIx inputs kv.2 ix).map (·.1)).Nodup :=
    List.Nodup.sublist (List.Sublist.map _ List.filter_sublist) h.ids_nd
  rw [List.perm_ext_iff_of_nodup hnd hnd2]
  intro s
  rw [hmem s]
  constructor
  · rintro ⟨inds, hi, hj⟩
    obtain ⟨leaves, hlv⟩ := exists_lookup_of_keys_eq _ _ h.ids_eq s inds hi
    have := (h.carry s inds leaves hi hlv ix hix).1 hj
    exact List.mem_map.2 ⟨(s, leaves), List.mem_filter.2 ⟨lookup_mem _ _ _ hlv, this⟩, rfl⟩
  · intro hs
    obtain ⟨kv, hkv, rfl⟩ := List.mem_map.1 hs
    obtain ⟨hkc, hcar⟩ := List.mem_filter.1 hkv
    have hlv : p.cur.lookup kv.1 = some kv.2 := lookup_of_mem_nodup _ h.ids_nd _ _ hkc
    obtain ⟨inds, hi⟩ := exists_lookup_of_keys_eq _ _ h.ids_eq.symm kv.1 kv.2 hlv
    exact ⟨inds, hi, (h.carry kv.1 inds kv.2 hi hlv ix hix).2 hcar⟩

theorem esim_skip (inputs : List (List Ix)) (e : EdgeState) (p : SpecSt) (h : ESim inputs e p)
    (ix : Ix) : ESim inputs { e with indToSsas := e.indToSsas.filter (fun kv => kv.1 != ix) } p := by
  have hlk : ∀ jx set, (e.indToSsas.filter (fun kv => kv.1 != ix)).lookup jx = some set →
      e.indToSsas.lookup jx = some set := by
    intro jx set hs
    by_cases e' : jx = ix
    · subst e'
      have : (e.indToSsas.filter (fun kv => kv.1 != jx)).lookup jx = none := by
        rw [lookup_none_iff]
        intro hm
        obtain ⟨kv, hkv, hk⟩ := List.mem_map.1 hm
        have := (List.mem_filter.1 hkv).2
        simp [hk] at this
      rw [this] at hs; cases hs
    · rwa [lookup_filter_ne' _ ix jx e'] at hs
  refine ⟨h.ssa_eq, h.path_eq, h.ids_eq, h.ids_nd, h.ids_lt, h.inds_nd, ?_, ?_, ?_⟩
  · exact List.Nodup.sublist (List.Sublist.map _ List.filter_sublist) h.keys_nd
  · intro jx set hs
    exact h.sets jx set (hlk jx set hs)
  · intro s inds leaves hi hlv jx hjx
    apply h.carry s inds leaves hi hlv jx
    obtain ⟨kv, hkv, hk⟩ := List.mem_map.1 hjx
    exact List.mem_map.2 ⟨kv, (List.mem_filter.1 hkv).1, hk⟩

theorem lookup_filter_notin {β : Type _} (A : List (Nat × β)) (S : List Nat) (x : Nat) :
    (A.filter (fun kv => !S.contains kv.1)).lookup x = if x ∈ S then none else A.lookup x := by
  induction A with
  | nil => simp
  | cons a t ih =>
    obtain ⟨a1, a2⟩ := a
    by_cases ha : a1 ∈ S
    · have hc : S.contains a1 = true := by simpa using ha
      simp only [List.filter_cons, hc, Bool.not_true, Bool.false_eq_true, if_false, ih]
      by_cases hx : x ∈ S
      · simp [hx]
      · have hne : x ≠ a1 := fun e' => hx (e' ▸ ha)
        have hb : (x == a1) = false := by simpa using hne
        simp [hx, List.lookup, hb]
    · have hc : S.contains a1 = false := by simpa using ha
      simp only [List.filter_cons, hc, Bool.not_false, if_true]
      by_cases hxa : x = a1
      · subst hxa; simp [List.lookup, ha]
      · have hb : (x == a1) = false := by simpa using hxa
        simp only [List.lookup, hb]
        exact ih

theorem map_fst_filter {β : Type _} (A : List (Nat × β)) (q : Nat → Bool) :
    (A.filter (fun kv => q kv.1)).map (·.1) = (A.map (·.1)).filter q := by
  induction A with
  | nil => rfl
  | cons a t ih =>
    by_cases h : q a.1 = true
    · simp [List.filter_cons, h, ih]
    · simp [List.filter_cons, h, ih]

theorem carriesIx_flatMap (inputs : List (List Ix)) (car : List (Nat × List Nat)) (jx : Ix) :
    carriesIx inputs (car.flatMap (·.2)) jx = true ↔ ∃ kv ∈ car, carriesIx inputs kv.2 jx = true := by
  unfold carriesIx
  simp only [List.any_eq_true, List.mem_flatMap]
  constructor
  · rintro ⟨l, ⟨kv, hkv, hl⟩, hc⟩
    exact ⟨kv, hkv, l, hl, hc⟩
  · rintro ⟨kv, hkv, l, hl, hc⟩
    exact ⟨l, ⟨kv, hkv, hl⟩, hc⟩

theorem esim_merge (inputs : List (List Ix)) (e : EdgeState) (p : SpecSt) (h : ESim inputs e p)
    (ix : Ix) (scon : List Nat) (hl : e.indToSsas.lookup ix = some scon) :
    ∃ i2s' s2i' term',
      (sortAsc scon).foldl (fun o s => o.bind (edgeAbsorb e.ssa s))
        (some (e.indToSsas.filter (fun kv => kv.1 != ix), e.ssaToInds, [])) = some (i2s', s2i', term') ∧
      i2s'.map (·.1) = (e.indToSsas.filter (fun kv => kv.1 != ix)).map (·.1) ∧
      ESim inputs
        { indToSsas := i2s', ssaToInds := s2i' ++ [(e.ssa, term')], ssa := e.ssa + 1,
          path := e.path ++ [sortAsc scon] }
        { cur := p.cur.filter (fun kv => !carriesIx inputs kv.2 ix) ++
            [(p.ssa, (p.cur.filter fun kv => carriesIx inputs kv.2 ix).flatMap (·.2))],
          ssa := p.ssa + 1,
          path := p.path ++ [sortAsc ((p.cur.filter fun kv => carriesIx inputs kv.2 ix).map (·.1))] } := by
  set S := sortAsc scon with hS
  set i2s0 := e.indToSsas.filter (fun kv => kv.1 != ix) with hi2s0
  set car := p.cur.filter (fun kv => carriesIx inputs kv.2 ix) with hcar
  have hperm := scon_perm inputs e p h ix scon hl
  obtain ⟨hscnd, hscmem⟩ := h.sets ix scon hl
  have hSmem : ∀ s, s ∈ S ↔ s ∈ scon := fun s => (sortAsc_perm scon).mem_iff
  have hSnd : S.Nodup := sortAsc_nodup scon hscnd
  have hSeq : S = sortAsc (car.map (·.1)) := sortAsc_of_perm hperm
  have hScar : ∀ s, s ∈ S ↔ s ∈ car.map (·.1) := fun s => (hSmem s).trans hperm.mem_iff
  -- lookups in the filtered ind_to_ssas
  have hlk0 : ∀ jx set, i2s0.lookup jx = some set → jx ≠ ix ∧ e.indToSsas.lookup jx = some set := by
    intro jx set hs
    by_cases e' : jx = ix
    · subst e'
      have : i2s0.lookup jx = none := by
        rw [lookup_none_iff]
        intro hm
        obtain ⟨kv, hkv, hk⟩ := List.mem_map.1 hm
        have := (List.mem_filter.1 hkv).2
        simp [hk] at this
      rw [this] at hs; cases hs
    · exact ⟨e', by rwa [hi2s0, lookup_filter_ne' _ ix jx e'] at hs⟩
  have hkeys0 : ∀ jx, jx ∈ i2s0.map (·.1) → jx ∈ e.indToSsas.map (·.1) := by
    intro jx hjx
    obtain ⟨kv, hkv, hk⟩ := List.mem_map.1 hjx
    exact List.mem_map.2 ⟨kv, (List.mem_filter.1 hkv).1, hk⟩
  have hidsS : ∀ s ∈ S, s < e.ssa := by
    intro s hs
    obtain ⟨inds, hi, _⟩ := (hscmem s).1 ((hSmem s).1 hs)
    have : s ∈ e.ssaToInds.map (·.1) := List.mem_map.2 ⟨(s, inds), lookup_mem _ _ _ hi, rfl⟩
    rw [h.ids_eq] at this
    rw [h.ssa_eq]; exact h.ids_lt s this
  have hssaS : e.ssa ∉ S := fun hm => Nat.lt_irrefl _ (hidsS _ hm)
  obtain ⟨term', hfold, htnd, htmem⟩ := outer_spec e.ssa S i2s0 e.ssaToInds [] hSnd
    (by
      intro s hs
      obtain ⟨inds, hi, _⟩ := (hscmem s).1 ((hSmem s).1 hs)
      refine ⟨by simp [hi], ?_⟩
      simp only [indsOf, hi, Option.getD_some]
      exact h.inds_nd _ (lookup_mem _ _ _ hi))
    (by
      intro s hs jx hj set hset
      obtain ⟨hne, hset'⟩ := hlk0 jx set hset
      obtain ⟨inds, hi, _⟩ := (hscmem s).1 ((hSmem s).1 hs)
      simp only [indsOf, hi, Option.getD_some] at hj
      exact ((h.sets jx set hset').2 s).2 ⟨inds, hi, hj⟩)
  refine ⟨_, _, term', hfold, by rw [List.map_map]; rfl, ?_⟩
  have hterm : ∀ x, x ∈ term' ↔ (x ∈ i2s0.map (·.1) ∧ ∃ s ∈ S, x ∈ indsOf e.ssaToInds s) := by
    intro x; rw [htmem x]; simp
  -- the surviving tensors
  have hcur : p.cur.filter (fun kv => !carriesIx inputs kv.2 ix) =
      p.cur.filter (fun kv => !S.contains kv.1) := by
    apply List.filter_congr
    intro kv hkv
    congr 1
    rw [Bool.eq_iff_iff]
    simp only [List.contains_eq_mem, decide_eq_true_eq, hScar]
    constructor
    · intro hc; exact List.mem_map.2 ⟨kv, List.mem_filter.2 ⟨hkv, hc⟩, rfl⟩
    · intro hm
      obtain ⟨kv', hkv', hk⟩ := List.mem_map.1 hm
      obtain ⟨hk1, hk2⟩ := List.mem_filter.1 hkv'
      have h1 := lookup_of_mem_nodup _ h.ids_nd _ _ hk1
      have h2 := lookup_of_mem_nodup _ h.ids_nd _ _ hkv
      have h3 : kv'.2 = kv.2 := by
        rw [hk, h2] at h1
        exact (Option.some.inj h1).symm
      rw [← h3]; exact hk2
  have hids' : (e.ssaToInds.filter (fun kv => !S.contains kv.1)).map (·.1) =
      (p.cur.filter (fun kv => !S.contains kv.1)).map (·.1) := by
    rw [map_fst_filter _ (fun k => !S.contains k), map_fst_filter _ (fun k => !S.contains k), h.ids_eq]
  have hssa_notin : e.ssa ∉ (e.ssaToInds.filter (fun kv => !S.contains kv.1)).map (·.1) := by
    intro hm
    obtain ⟨kv, hkv, hk⟩ := List.mem_map.1 hm
    have : kv.1 ∈ e.ssaToInds.map (·.1) := List.mem_map.2 ⟨kv, (List.mem_filter.1 hkv).1, rfl⟩
    rw [h.ids_eq] at this
    have := h.ids_lt _ this
    rw [hk, h.ssa_eq] at this
    exact Nat.lt_irrefl _ this
  have hlook_new : ∀ x, (e.ssaToInds.filter (fun kv => !S.contains kv.1) ++ [(e.ssa, term')]).lookup x =
      if x = e.ssa then some term' else if x ∈ S then none else e.ssaToInds.lookup x := by
    intro x
    rw [lookup_append_single _ _ _ _ hssa_notin, lookup_filter_notin]
  have hlook_cur : ∀ x, (p.cur.filter (fun kv => !S.contains kv.1) ++ [(p.ssa, car.flatMap (·.2))]).lookup x =
      if x = p.ssa then some (car.flatMap (·.2)) else if x ∈ S then none else p.cur.lookup x := by
    intro x
    have hnotin : p.ssa ∉ (p.cur.filter (fun kv => !S.contains kv.1)).map (·.1) := by
      rw [← hids', ← h.ssa_eq]; exact hssa_notin
    rw [lookup_append_single _ _ _ _ hnotin, lookup_filter_notin]
  rw [hcur, ← hSeq]
  refine ⟨by simp [h.ssa_eq], by simp [h.path_eq], ?_, ?_, ?_, ?_, ?_, ?_, ?_⟩
  · -- ids
    simp only [List.map_append, List.map_cons, List.map_nil, hids', h.ssa_eq]
  · -- ids nodup
    simp only [List.map_append, List.map_cons, List.map_nil]
    rw [List.nodup_append]
    refine ⟨List.Nodup.sublist (List.Sublist.map _ List.filter_sublist) h.ids_nd, by simp, ?_⟩
    intro a ha b hb hab
    simp only [List.mem_singleton] at hb
    subst hb; subst hab
    obtain ⟨kv, hkv, hk⟩ := List.mem_map.1 ha
    have : kv.1 ∈ p.cur.map (·.1) := List.mem_map.2 ⟨kv, (List.mem_filter.1 hkv).1, rfl⟩
    have := h.ids_lt _ this
    rw [hk] at this
    exact Nat.lt_irrefl _ this
  · -- ids below the next fresh id
    intro s hs
    simp only [List.map_append, List.map_cons, List.map_nil, List.mem_append, List.mem_singleton] at hs
    rcases hs with hs | rfl
    · obtain ⟨kv, hkv, hk⟩ := List.mem_map.1 hs
      have : kv.1 ∈ p.cur.map (·.1) := List.mem_map.2 ⟨kv, (List.mem_filter.1 hkv).1, rfl⟩
      have := h.ids_lt _ this
      rw [hk] at this
      show s < p.ssa + 1
      omega
    · show p.ssa < p.ssa + 1
      omega
  · -- index sets duplicate free
    intro kv hkv
    rcases List.mem_append.1 hkv with hkv | hkv
    · exact h.inds_nd kv (List.mem_filter.1 hkv).1
    · simp only [List.mem_singleton] at hkv
      subst hkv
      exact htnd List.nodup_nil
  · -- keys
    rw [List.map_map]
    exact List.Nodup.sublist (List.Sublist.map _ List.filter_sublist) h.keys_nd
  · -- carrier sets
    intro jx set' hset'
    rw [lookup_map_snd i2s0 (fun k set => absorbAll e.ssaToInds e.ssa S k set) jx] at hset'
    cases hl0 : i2s0.lookup jx with
    | none => simp [hl0] at hset'
    | some set =>
      simp only [hl0, Option.map_some, Option.some.injEq] at hset'
      obtain ⟨hne, hle⟩ := hlk0 jx set hl0
      obtain ⟨hsnd, hsmem⟩ := h.sets jx set hle
      have hjk : jx ∈ i2s0.map (·.1) := List.mem_map.2 ⟨(jx, set), lookup_mem _ _ _ hl0, rfl⟩
      have hssa_set : e.ssa ∉ set := by
        intro hm
        obtain ⟨inds, hi, _⟩ := (hsmem _).1 hm
        have : e.ssa ∈ e.ssaToInds.map (·.1) := List.mem_map.2 ⟨(e.ssa, inds), lookup_mem _ _ _ hi, rfl⟩
        rw [h.ids_eq] at this
        have := h.ids_lt _ this
        rw [h.ssa_eq] at this
        exact Nat.lt_irrefl _ this
      rw [← hset']
      refine ⟨nodup_absorbAll _ _ _ _ _ hsnd, ?_⟩
      intro x
      rw [mem_absorbAll _ _ _ _ _ _ hssaS, hlook_new x]
      by_cases hx : x = e.ssa
      · subst hx
        simp only [true_and, ne_eq, not_true_eq_false, false_and, or_false, if_true, Option.some.injEq,
          exists_eq_left', hssa_set, false_or]
        rw [hterm jx]
        constructor
        · intro hh; exact ⟨hjk, hh⟩
        · intro hh; exact hh.2
      · simp only [hx, false_and, false_or, ne_eq, not_false_eq_true, true_and, if_false]
        by_cases hxs : x ∈ S
        · simp only [hxs, if_true, reduceCtorEq, false_and, exists_false, iff_false, not_and]
          intro hxset hall
          obtain ⟨inds, hi, hj⟩ := (hsmem x).1 hxset
          exact hall x hxs (by simp [indsOf, hi, hj]) rfl
        · simp only [hxs, if_false]
          rw [hsmem x]
          constructor
          · intro hh; exact hh.1
          · intro hh
            exact ⟨hh, fun s hs _ e' => hxs (e' ▸ hs)⟩
  · -- what the tensors carry
    intro s inds leaves hi hlv jx hjx
    rw [hlook_new s] at hi
    rw [hlook_cur s, ← h.ssa_eq] at hlv
    rw [List.map_map] at hjx
    have hjx0 : jx ∈ i2s0.map (·.1) := hjx
    have hjxe : jx ∈ e.indToSsas.map (·.1) := hkeys0 jx hjx0
    by_cases hs : s = e.ssa
    · simp only [hs, if_true, Option.some.injEq] at hi hlv
      subst hi; subst hlv
      rw [hterm jx, carriesIx_flatMap]
      constructor
      · rintro ⟨_, s', hs', hj'⟩
        obtain ⟨kv, hkv, hk⟩ := List.mem_map.1 ((hScar s').1 hs')
        obtain ⟨inds', hi', _⟩ := (hscmem s').1 ((hSmem s').1 hs')
        have hlv' : p.cur.lookup kv.1 = some kv.2 :=
          lookup_of_mem_nodup _ h.ids_nd _ _ (List.mem_filter.1 hkv).1
        simp only [indsOf, hi', Option.getD_some] at hj'
        rw [← hk] at hi'
        exact ⟨kv, hkv, (h.carry kv.1 inds' kv.2 hi' hlv' jx hjxe).1 hj'⟩
      · rintro ⟨kv, hkv, hc⟩
        have hs' : kv.1 ∈ S := (hScar kv.1).2 (List.mem_map.2 ⟨kv, hkv, rfl⟩)
        obtain ⟨inds', hi', _⟩ := (hscmem kv.1).1 ((hSmem kv.1).1 hs')
        have hlv' : p.cur.lookup kv.1 = some kv.2 :=
          lookup_of_mem_nodup _ h.ids_nd _ _ (List.mem_filter.1 hkv).1
        refine ⟨hjx0, kv.1, hs', ?_⟩
        simp only [indsOf, hi', Option.getD_some]
        exact (h.carry kv.1 inds' kv.2 hi' hlv' jx hjxe).2 hc
    · simp only [hs, if_false] at hi hlv
      by_cases hsS : s ∈ S
      · simp [hsS] at hi
      · simp only [hsS, if_false] at hi hlv
        exact h.carry s inds leaves hi hlv jx hjxe

/-- **one iteration of the main loop simulates one step of the definition** -/
theorem esim_step (inputs : List (List Ix)) (e : EdgeState) (p : SpecSt) (h : ESim inputs e p)
    (ix : Ix) (hix : ix ∈ e.indToSsas.map (·.1)) :
    ∃ e', edgeStep e ix = some e' ∧ ESim inputs e' (specStep inputs p ix) ∧
      e'.indToSsas.map (·.1) = (e.indToSsas.map (·.1)).filter (· != ix) := by
  obtain ⟨scon, hl⟩ := Option.isSome_iff_exists.1 ((lookup_isSome_iff _ ix).2 hix)
  have hperm := scon_perm inputs e p h ix scon hl
  have hlen : scon.length = (p.cur.filter fun kv => carriesIx inputs kv.2 ix).length := by
    rw [hperm.length_eq, List.length_map]
  have hkeys : (e.indToSsas.filter (fun kv => kv.1 != ix)).map (·.1) =
      (e.indToSsas.map (·.1)).filter (· != ix) := map_fst_filter e.indToSsas (· != ix)
  by_cases hlt : scon.length < 2
  · refine ⟨{ e with indToSsas := e.indToSsas.filter (fun kv => kv.1 != ix) }, ?_, ?_, hkeys⟩
    · simp [edgeStep, hl, hlt]
    · have : specStep inputs p ix = p := by
        unfold specStep
        simp only [← hlen, hlt, if_true]
      rw [this]
      exact esim_skip inputs e p h ix
  · obtain ⟨i2s', s2i', term', hfold, hk', hsim⟩ := esim_merge inputs e p h ix scon hl
    refine ⟨{ indToSsas := i2s', ssaToInds := s2i' ++ [(e.ssa, term')], ssa := e.ssa + 1,
              path := e.path ++ [sortAsc scon] }, ?_, ?_, ?_⟩
    · simp only [edgeStep, hl, hlt, if_false, hfold]
    · have : specStep inputs p ix =
          { cur := p.cur.filter (fun kv => !carriesIx inputs kv.2 ix) ++
              [(p.ssa, (p.cur.filter fun kv => carriesIx inputs kv.2 ix).flatMap (·.2))],
            ssa := p.ssa + 1,
            path := p.path ++ [sortAsc ((p.cur.filter fun kv => carriesIx inputs kv.2 ix).map (·.1))] } := by
        unfold specStep
        simp only [← hlen, hlt, if_false]
      rw [this]
      exact hsim
    · show i2s'.map (·.1) = _
      rw [hk', hkeys]

theorem esim_fold (inputs : List (List Ix)) (ep : List Ix) : ∀ (e : EdgeState) (p : SpecSt),
    ESim inputs e p → ep.Nodup → (∀ ix ∈ ep, ix ∈ e.indToSsas.map (·.1)) →
    ∃ e', ep.foldl (fun o ix => o.bind (fun st => edgeStep st ix)) (some e) = some e' ∧
      ESim inputs e' (ep.foldl (specStep inputs) p) := by
  induction ep with
  | nil => intro e p h _ _; exact ⟨e, rfl, h⟩
  | cons ix rest ih =>
    intro e p h hnd hin
    have hnd' := List.nodup_cons.1 hnd
    obtain ⟨e1, h1, h2, h3⟩ := esim_step inputs e p h ix (hin ix List.mem_cons_self)
    obtain ⟨e', h4, h5⟩ := ih e1 (specStep inputs p ix) h2 hnd'.2 (by
      intro jx hjx
      rw [h3]
      refine List.mem_filter.2 ⟨hin jx (List.mem_cons_of_mem _ hjx), ?_⟩
      have : jx ≠ ix := fun e' => hnd'.1 (e' ▸ hjx)
      simpa using this)
    exact ⟨e', by rw [List.foldl_cons, Option.bind_some, h1, h4], by rw [List.foldl_cons]; exact h5⟩

/-! ### the population loop -/

theorem nodup_eraseDups (l : List Ix) : l.eraseDups.Nodup := by
  induction h : l.length using Nat.strong_induction_on generalizing l with
  | _ n ih =>
    cases l with
    | nil => simp
    | cons a t =>
      rw [List.eraseDups_cons, List.nodup_cons]
      constructor
      · intro hm
        rw [List.mem_eraseDups] at hm
        have := (List.mem_filter.1 hm).2
        simp at this
      · apply ih (t.filter fun b => !b == a).length _ _ rfl
        have := List.length_filter_le (fun b => !b == a) t
        simp only [List.length_cons] at h
        omega

/-- state of the population loop after the inputs `l` (numbered `0 .. l.length-1`), while the
    indices `pre` of input number `l.length` have already been added -/
structure AddInv (l : List (List Ix)) (pre : List Ix) (m : I2S) : Prop where
  keys_nd : (m.map (·.1)).Nodup
  sets : ∀ jx set, m.lookup jx = some set → set.Nodup ∧
    ∀ s, s ∈ set ↔ ((s < l.length ∧ jx ∈ l.getD s []) ∨ (s = l.length ∧ jx ∈ pre))
  keys : ∀ jx, jx ∈ m.map (·.1) ↔ ((∃ s, s < l.length ∧ jx ∈ l.getD s []) ∨ jx ∈ pre)

theorem addInv_step (l : List (List Ix)) (pre : List Ix) (m : I2S) (h : AddInv l pre m) (ix : Ix) :
    AddInv l (pre ++ [ix]) (initAddIx l.length m ix) := by
  unfold initAddIx
  cases hl : m.lookup ix with
  | none =>
    have hnk : ix ∉ m.map (·.1) := (lookup_none_iff m ix).1 hl
    simp only
    refine ⟨?_, ?_, ?_⟩
    · rw [List.map_append, List.nodup_append]
      refine ⟨h.keys_nd, by simp, ?_⟩
      intro a ha b hb e
      simp only [List.map_cons, List.map_nil, List.mem_singleton] at hb
      subst hb; subst e; exact hnk ha
    · intro jx set hs
      rw [lookup_append_single m ix [l.length] jx hnk] at hs
      by_cases hj : jx = ix
      · subst hj
        simp only [if_true, Option.some.injEq] at hs
        subst hs
        refine ⟨by simp, fun s => ?_⟩
        have hno : ¬ ((∃ s, s < l.length ∧ jx ∈ l.getD s []) ∨ jx ∈ pre) := fun hh => hnk ((h.keys jx).2 hh)
        simp only [List.mem_singleton, List.mem_append, or_true, and_true]
        constructor
        · intro hs'; exact Or.inr hs'
        · rintro (⟨h1, h2⟩ | h1)
          · exact absurd (Or.inl ⟨s, h1, h2⟩) hno
          · exact h1
      · simp only [hj, if_false] at hs
        obtain ⟨h1, h2⟩ := h.sets jx set hs
        refine ⟨h1, fun s => ?_⟩
        rw [h2 s]
        simp only [List.mem_append, List.mem_singleton, hj, or_false]
    · intro jx
      simp only [List.map_append, List.map_cons, List.map_nil, List.mem_append, List.mem_singleton, h.keys jx]
      constructor
      · rintro ((h1 | h1) | h1)
        · exact Or.inl h1
        · exact Or.inr (Or.inl h1)
        · exact Or.inr (Or.inr h1)
      · rintro (h1 | h1 | h1)
        · exact Or.inl (Or.inl h1)
        · exact Or.inl (Or.inr h1)
        · exact Or.inr h1
  | some set0 =>
    simp only
    have hmap : (m.map fun kv => if kv.1 == ix then (kv.1, setAdd l.length kv.2) else kv) =
        m.map fun kv => (kv.1, if kv.1 == ix then setAdd l.length kv.2 else kv.2) := by
      apply List.map_congr_left
      intro kv _
      by_cases e : kv.1 == ix <;> simp [e]
    rw [hmap]
    have hik : ix ∈ m.map (·.1) := List.mem_map.2 ⟨(ix, set0), lookup_mem _ _ _ hl, rfl⟩
    refine ⟨?_, ?_, ?_⟩
    · rw [List.map_map]; exact h.keys_nd
    · intro jx set hs
      rw [lookup_map_snd m (fun k st => if k == ix then setAdd l.length st else st) jx] at hs
      cases hlj : m.lookup jx with
      | none => simp [hlj] at hs
      | some st =>
        simp only [hlj, Option.map_some, Option.some.injEq] at hs
        obtain ⟨h1, h2⟩ := h.sets jx st hlj
        by_cases hj : jx = ix
        · subst hj
          simp only [BEq.rfl, if_true] at hs
          subst hs
          refine ⟨nodup_setAdd _ _ h1, fun s => ?_⟩
          rw [mem_setAdd, h2 s]
          simp only [List.mem_append, List.mem_singleton, or_true, and_true]
          tauto
        · have hb : (jx == ix) = false := by simpa using hj
          simp only [hb, Bool.false_eq_true, if_false] at hs
          subst hs
          refine ⟨h1, fun s => ?_⟩
          rw [h2 s]
          simp only [List.mem_append, List.mem_singleton, hj, or_false]
    · intro jx
      rw [List.map_map]
      show jx ∈ m.map (·.1) ↔ _
      rw [h.keys jx]
      simp only [List.mem_append, List.mem_singleton]
      constructor
      · rintro (h1 | h1)
        · exact Or.inl h1
        · exact Or.inr (Or.inl h1)
      · rintro (h1 | h1 | h1)
        · exact Or.inl h1
        · exact Or.inr h1
        · subst h1; exact (h.keys jx).1 hik

theorem addInv_fold (l : List (List Ix)) (t : List Ix) : ∀ (pre : List Ix) (m : I2S),
    AddInv l pre m → AddInv l (pre ++ t) (t.foldl (initAddIx l.length) m) := by
  induction t with
  | nil => intro pre m h; simpa using h
  | cons ix rest ih =>
    intro pre m h
    rw [List.foldl_cons]
    have := ih (pre ++ [ix]) _ (addInv_step l pre m h ix)
    simpa [List.append_assoc] using this

theorem getD_append_lt (l : List (List Ix)) (t : List Ix) (s : Nat) (h : s < l.length) :
    (l ++ [t]).getD s [] = l.getD s [] := by
  rw [List.getD_eq_getElem?_getD, List.getD_eq_getElem?_getD, List.getElem?_append_left h]

theorem getD_append_eq (l : List (List Ix)) (t : List Ix) : (l ++ [t]).getD l.length [] = t := by
  rw [List.getD_eq_getElem?_getD, List.getElem?_append_right (Nat.le_refl _)]
  simp

/-- closing an input: `AddInv l t` is `AddInv (l ++ [t]) []` -/
theorem addInv_close (l : List (List Ix)) (t : List Ix) (m : I2S) (h : AddInv l t m) :
    AddInv (l ++ [t]) [] m := by
  have hlen : (l ++ [t]).length = l.length + 1 := by simp
  have hiff : ∀ jx s, ((s < l.length ∧ jx ∈ l.getD s []) ∨ (s = l.length ∧ jx ∈ t)) ↔
      (s < (l ++ [t]).length ∧ jx ∈ (l ++ [t]).getD s []) := by
    intro jx s
    rw [hlen]
    constructor
    · rintro (⟨h1, h2⟩ | ⟨h1, h2⟩)
      · exact ⟨by omega, by rw [getD_append_lt l t s h1]; exact h2⟩
      · subst h1; exact ⟨by omega, by rw [getD_append_eq]; exact h2⟩
    · rintro ⟨h1, h2⟩
      by_cases hs : s < l.length
      · exact Or.inl ⟨hs, by rwa [getD_append_lt l t s hs] at h2⟩
      · have : s = l.length := by omega
        subst this
        exact Or.inr ⟨rfl, by rwa [getD_append_eq] at h2⟩
  refine ⟨h.keys_nd, ?_, ?_⟩
  · intro jx set hs
    obtain ⟨h1, h2⟩ := h.sets jx set hs
    refine ⟨h1, fun s => ?_⟩
    rw [h2 s, hiff jx s]
    simp
  · intro jx
    rw [h.keys jx]
    constructor
    · rintro (⟨s, h1, h2⟩ | h1)
      · exact Or.inl ⟨s, (hiff jx s).1 (Or.inl ⟨h1, h2⟩)⟩
      · exact Or.inl ⟨l.length, (hiff jx l.length).1 (Or.inr ⟨rfl, h1⟩)⟩
    · rintro (⟨s, hs⟩ | h1)
      · rcases (hiff jx s).2 hs with ⟨h1, h2⟩ | ⟨h1, h2⟩
        · exact Or.inl ⟨s, h1, h2⟩
        · exact Or.inr h2
      · simp at h1

theorem init_fold (l : List (List Ix)) :
    AddInv l [] ((l.zip (List.range l.length)).foldl initStep ([], [])).1 ∧
      ((l.zip (List.range l.length)).foldl initStep ([], [])).2 =
        (List.range l.length).map fun i => (i, (l.getD i []).eraseDups) := by
  induction l using List.reverseRecOn with
  | nil =>
    refine ⟨⟨by simp, by simp, by simp⟩, by simp⟩
  | append_singleton l t ih =>
    obtain ⟨ih1, ih2⟩ := ih
    have hzip : (l ++ [t]).zip (List.range (l ++ [t]).length) =
        l.zip (List.range l.length) ++ [(t, l.length)] := by
      have : (l ++ [t]).length = l.length + 1 := by simp
      rw [this, List.range_succ, List.zip_append (by simp)]
      simp
    rw [hzip, List.foldl_append]
    simp only [List.foldl_cons, List.foldl_nil, initStep]
    constructor
    · have := addInv_fold l t [] _ ih1
      simp only [List.nil_append] at this
      exact addInv_close l t _ this
    · rw [ih2]
      have : (l ++ [t]).length = l.length + 1 := by simp
      rw [this, List.range_succ, List.map_append]
      congr 1
      · apply List.map_congr_left
        intro i hi
        rw [getD_append_lt l t i (List.mem_range.1 hi)]
      · simp [getD_append_eq]

theorem lookup_range_map {β : Type _} (n : Nat) (f : Nat → β) (s : Nat) :
    ((List.range n).map fun i => (i, f i)).lookup s = if s < n then some (f s) else none := by
  induction n with
  | zero => simp
  | succ n ih =>
    rw [List.range_succ, List.map_append]
    have hnotin : n ∉ ((List.range n).map fun i => (i, f i)).map (·.1) := by
      rw [List.map_map]
      intro hm
      obtain ⟨i, hi, he⟩ := List.mem_map.1 hm
      simp only [Function.comp] at he
      have := List.mem_range.1 hi
      omega
    simp only [List.map_cons, List.map_nil]
    rw [lookup_append_single _ n (f n) s hnotin, ih]
    by_cases h1 : s = n
    · subst h1; simp
    · by_cases h2 : s < n
      · simp [h1, h2]; omega
      · simp [h1, h2]; omega

/-- **the population loop establishes the simulation relation** -/
theorem esim_init (inputs : List (List Ix)) : ESim inputs (edgeInit inputs) (specInit inputs) := by
  obtain ⟨h1, h2⟩ := init_fold inputs
  have hs2i : (edgeInit inputs).ssaToInds =
      (List.range inputs.length).map fun i => (i, (inputs.getD i []).eraseDups) := h2
  have hi2s : (edgeInit inputs).indToSsas =
      ((inputs.zip (List.range inputs.length)).foldl initStep ([], [])).1 := rfl
  refine ⟨rfl, rfl, ?_, ?_, ?_, ?_, ?_, ?_, ?_⟩
  · rw [hs2i]; simp [specInit, List.map_map, Function.comp]
  · have : (specInit inputs).cur.map (·.1) = List.range inputs.length := by
      simp only [specInit, List.map_map]
      conv => rhs; rw [← List.map_id (List.range inputs.length)]
      apply List.map_congr_left
      intro i _; rfl
    rw [this]; exact List.nodup_range
  · intro s hs
    have : (specInit inputs).cur.map (·.1) = List.range inputs.length := by
      simp only [specInit, List.map_map]
      conv => rhs; rw [← List.map_id (List.range inputs.length)]
      apply List.map_congr_left
      intro i _; rfl
    rw [this] at hs
    exact List.mem_range.1 hs
  · intro kv hkv
    rw [hs2i] at hkv
    obtain ⟨i, _, rfl⟩ := List.mem_map.1 hkv
    exact nodup_eraseDups _
  · rw [hi2s]; exact h1.keys_nd
  · intro jx set hs
    rw [hi2s] at hs
    obtain ⟨h3, h4⟩ := h1.sets jx set hs
    refine ⟨h3, fun s => ?_⟩
    rw [h4 s, hs2i, lookup_range_map]
    simp only [List.not_mem_nil, and_false, or_false]
    constructor
    · rintro ⟨h5, h6⟩
      exact ⟨_, by simp [h5], List.mem_eraseDups.2 h6⟩
    · rintro ⟨inds, h5, h6⟩
      by_cases hlt : s < inputs.length
      · simp only [hlt, if_true, Option.some.injEq] at h5
        subst h5
        exact ⟨hlt, List.mem_eraseDups.1 h6⟩
      · simp [hlt] at h5
  · intro s inds leaves hi hlv jx _
    rw [hs2i, lookup_range_map] at hi
    simp only [specInit] at hlv
    rw [lookup_range_map] at hlv
    by_cases hlt : s < inputs.length
    · simp only [hlt, if_true, Option.some.injEq] at hi hlv
      subst hi; subst hlv
      simp [carriesIx, List.mem_eraseDups]
    · simp [hlt] at hi

/-! ### the defined path is a valid SSA path -/

/-- the steps the definition emits from state `p` on -/
def specSuffix (inputs : List (List Ix)) : SpecSt → List Ix → Path
  | _, [] => []
  | p, ix :: rest =>
    (if (p.cur.filter fun kv => carriesIx inputs kv.2 ix).length < 2 then []
     else [sortAsc ((p.cur.filter fun kv => carriesIx inputs kv.2 ix).map (·.1))]) ++
      specSuffix inputs (specStep inputs p ix) rest

theorem specStep_path (inputs : List (List Ix)) (p : SpecSt) (ix : Ix) :
    (specStep inputs p ix).path = p.path ++
      (if (p.cur.filter fun kv => carriesIx inputs kv.2 ix).length < 2 then []
       else [sortAsc ((p.cur.filter fun kv => carriesIx inputs kv.2 ix).map (·.1))]) := by
  unfold specStep
  by_cases h : (p.cur.filter fun kv => carriesIx inputs kv.2 ix).length < 2 <;> simp [h]

theorem foldl_specStep_path (inputs : List (List Ix)) (ep : List Ix) (p : SpecSt) :
    (ep.foldl (specStep inputs) p).path = p.path ++ specSuffix inputs p ep := by
  induction ep generalizing p with
  | nil => simp [specSuffix]
  | cons ix rest ih =>
    rw [List.foldl_cons, ih, specStep_path, specSuffix, List.append_assoc]

theorem specSuffix_valid (inputs : List (List Ix)) (ep : List Ix) : ∀ (p : SpecSt),
    (p.cur.map (·.1)).Nodup → (∀ s ∈ p.cur.map (·.1), s < p.ssa) →
    ValidSsa (p.cur.map (·.1)) p.ssa (specSuffix inputs p ep) := by
  induction ep with
  | nil => intro p _ _; trivial
  | cons ix rest ih =>
    intro p hnd hlt
    unfold specSuffix
    by_cases h : (p.cur.filter fun kv => carriesIx inputs kv.2 ix).length < 2
    · have hs : specStep inputs p ix = p := by unfold specStep; simp [h]
      simp only [h, if_true, List.nil_append, hs]
      exact ih p hnd hlt
    · simp only [h, if_false, List.cons_append, List.nil_append]
      set car := p.cur.filter (fun kv => carriesIx inputs kv.2 ix) with hcar
      have hcnd : (car.map (·.1)).Nodup :=
        List.Nodup.sublist (List.Sublist.map _ List.filter_sublist) hnd
      have hsm : ∀ s, s ∈ sortAsc (car.map (·.1)) ↔ s ∈ car.map (·.1) :=
        fun s => (sortAsc_perm _).mem_iff
      have hstep : specStep inputs p ix =
          { cur := p.cur.filter (fun kv => !carriesIx inputs kv.2 ix) ++ [(p.ssa, car.flatMap (·.2))],
            ssa := p.ssa + 1, path := p.path ++ [sortAsc (car.map (·.1))] } := by
        unfold specStep; simp only [← hcar, h, if_false]
      refine ⟨sortAsc_nodup _ hcnd, ?_, ?_⟩
      · intro s hs
        obtain ⟨kv, hkv, hk⟩ := List.mem_map.1 ((hsm s).1 hs)
        exact List.mem_map.2 ⟨kv, (List.mem_filter.1 hkv).1, hk⟩
      · have hids : (p.cur.map (·.1)).filter (fun x => !(sortAsc (car.map (·.1))).contains x) ++ [p.ssa] =
            (specStep inputs p ix).cur.map (·.1) := by
          rw [hstep]
          simp only [List.map_append, List.map_cons, List.map_nil]
          congr 1
          rw [← map_fst_filter p.cur (fun x => !(sortAsc (car.map (·.1))).contains x)]
          congr 1
          apply List.filter_congr
          intro kv hkv
          congr 1
          rw [Bool.eq_iff_iff]
          simp only [List.contains_eq_mem, decide_eq_true_eq, hsm]
          constructor
          · intro hm
            obtain ⟨kv', hkv', hk⟩ := List.mem_map.1 hm
            obtain ⟨hk1, hk2⟩ := List.mem_filter.1 hkv'
            have h1 := lookup_of_mem_nodup _ hnd _ _ hk1
            have h2 := lookup_of_mem_nodup _ hnd _ _ hkv
            have h3 : kv'.2 = kv.2 := by
              rw [hk, h2] at h1
              exact (Option.some.inj h1).symm
            rw [← h3]; exact hk2
          · intro hc; exact List.mem_map.2 ⟨kv, List.mem_filter.2 ⟨hkv, hc⟩, rfl⟩
        have hssa : (specStep inputs p ix).ssa = p.ssa + 1 := by rw [hstep]
        rw [hids, ← hssa]
        apply ih
        · rw [← hids, List.nodup_append]
          refine ⟨hnd.filter _, by simp, ?_⟩
          intro a ha b hb e
          simp only [List.mem_singleton] at hb
          subst hb; subst e
          exact Nat.lt_irrefl _ (hlt _ (List.mem_filter.1 ha).1)
        · intro s hs
          rw [← hids] at hs
          rw [hssa]
          rcases List.mem_append.1 hs with hs | hs
          · have := hlt s (List.mem_filter.1 hs).1; omega
          · simp only [List.mem_singleton] at hs; omega

end Cotengra.Paths
