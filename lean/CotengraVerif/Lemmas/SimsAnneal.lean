import CotengraVerif.Model.Sims
import CotengraVerif.Lemmas.Cost

/-!
  The annealing move evaluator `compute_contracted_info`
  (path_simulated_annealing.py:19-68) computes *exactly* what the tree computes from the two
  children's legs (core.py:816-848): same dict (including order), same cost, same size.
-/
namespace Cotengra
namespace Legs

theorem has_iff_mem (L : Legs) (x : Ix) : has L x = true ↔ x ∈ keys L := by
  induction L with
  | nil => simp [has, keys]
  | cons kv t ih =>
    obtain ⟨k, v⟩ := kv
    simp only [has, keys, List.map_cons, List.mem_cons, Bool.or_eq_true, beq_iff_eq]
    simp only [keys] at ih
    rw [ih]
    constructor
    · rintro (h | h)
      · exact Or.inl h.symm
      · exact Or.inr h
    · rintro (h | h)
      · exact Or.inl h.symm
      · exact Or.inr h

theorem add_not_mem (L : Legs) (k c : Nat) (h : k ∉ keys L) : add L k c = L ++ [(k, c)] := by
  induction L with
  | nil => rfl
  | cons kv t ih =>
    obtain ⟨k', v'⟩ := kv
    simp only [keys, List.map_cons, List.mem_cons, not_or] at h
    have hk : ¬ k' = k := fun e => h.1 e.symm
    simp only [add, hk, if_false, List.cons_append]
    rw [ih h.2]

theorem add_mem_map (L : Legs) (k c : Nat) (hnd : (keys L).Nodup) (h : k ∈ keys L) :
    add L k c = L.map (fun kv => if kv.1 = k then (kv.1, kv.2 + c) else kv) := by
  induction L with
  | nil => cases h
  | cons kv t ih =>
    obtain ⟨k', v'⟩ := kv
    simp only [keys, List.map_cons, List.nodup_cons] at hnd
    by_cases hk : k' = k
    · subst hk
      simp only [add, if_true, List.map_cons]
      congr 1
      symm
      have : ∀ kv ∈ t, (fun kv : Ix × Nat => if kv.1 = k' then (kv.1, kv.2 + c) else kv) kv = id kv := by
        intro kv hkv
        have : ¬ kv.1 = k' := by
          intro e
          exact hnd.1 (List.mem_map.2 ⟨kv, hkv, e⟩)
        simp [this]
      rw [List.map_congr_left this, List.map_id]
    · have hin : k ∈ keys t := by
        simp only [keys, List.map_cons, List.mem_cons] at h
        rcases h with e | e
        · exact absurd e.symm hk
        · exact e
      simp only [add, hk, if_false, List.map_cons]
      rw [ih hnd.2 hin]

theorem get_cons_self (k v : Nat) (t : Legs) : get ((k, v) :: t) k = v := by simp [get]
theorem get_cons_ne (k v : Nat) (t : Legs) (x : Nat) (h : k ≠ x) : get ((k, v) :: t) x = get t x := by
  simp [get, h]

/-- the dict `legs_union(a, b)` written out: `a`'s entries with `b`'s counts added in place,
    followed by `b`'s entries that are new, in `b`'s order -/
theorem union_eq (b a : Legs) (hb : (keys b).Nodup) (ha : (keys a).Nodup) :
    union a b = a.map (fun kv => (kv.1, kv.2 + get b kv.1)) ++ b.filter (fun kv => !(has a kv.1)) := by
  induction b generalizing a with
  | nil =>
    simp only [union, List.foldl_nil, get_nil, Nat.add_zero, List.filter_nil, List.append_nil]
    exact (List.map_id' a).symm
  | cons kv b' ih =>
    obtain ⟨k, v⟩ := kv
    simp only [keys, List.map_cons, List.nodup_cons] at hb
    have hkb : get b' k = 0 := get_eq_zero_of_not_mem b' k hb.1
    have hstep : union a ((k, v) :: b') = union (add a k v) b' := rfl
    rw [hstep, ih (add a k v) hb.2 (keys_nodup_add a k v ha)]
    by_cases hka : k ∈ keys a
    · have hhas : has a k = true := (has_iff_mem a k).2 hka
      rw [add_mem_map a k v ha hka, List.map_map]
      have hf : ((k, v) :: b').filter (fun kv => !(has a kv.1)) = b'.filter (fun kv => !(has a kv.1)) := by
        simp [List.filter_cons, hhas]
      rw [hf]
      congr 1
      · apply List.map_congr_left
        intro kv hkv
        by_cases e : kv.1 = k
        · simp only [Function.comp, e, if_true, hkb, Nat.add_zero, get_cons_self]
        · have e' : k ≠ kv.1 := fun h => e h.symm
          simp only [Function.comp, e, if_false, get_cons_ne k v b' kv.1 e']
      · apply List.filter_congr
        intro kv _
        congr 1
        have hkeys : ∀ x, has (a.map (fun kv => if kv.1 = k then (kv.1, kv.2 + v) else kv)) x = has a x := by
          intro x
          have e1 : keys (a.map (fun kv => if kv.1 = k then (kv.1, kv.2 + v) else kv)) = keys a := by
            unfold keys
            rw [List.map_map]
            apply List.map_congr_left
            intro kv _
            simp only [Function.comp]
            split <;> rfl
          by_cases hx : x ∈ keys a
          · rw [(has_iff_mem _ x).2 (by rw [e1]; exact hx), (has_iff_mem a x).2 hx]
          · have h1 : ¬ has a x = true := fun h => hx ((has_iff_mem a x).1 h)
            have h2 : ¬ has (a.map (fun kv => if kv.1 = k then (kv.1, kv.2 + v) else kv)) x = true :=
              fun h => hx (by rw [← e1]; exact (has_iff_mem _ x).1 h)
            simp [h1, h2]
        exact hkeys kv.1
    · have hhas : has a k = false := by
        have : ¬ has a k = true := fun h => hka ((has_iff_mem a k).1 h)
        simpa using this
      rw [add_not_mem a k v hka, List.map_append]
      have hf : ((k, v) :: b').filter (fun kv => !(has a kv.1)) =
          (k, v) :: b'.filter (fun kv => !(has a kv.1)) := by
        simp [List.filter_cons, hhas]
      rw [hf]
      simp only [List.map_cons, List.map_nil, hkb, Nat.add_zero, List.append_assoc, List.cons_append,
        List.nil_append]
      congr 1
      · apply List.map_congr_left
        intro kv hkv
        have e' : k ≠ kv.1 := by
          intro e
          exact hka (List.mem_map.2 ⟨kv, hkv, e.symm⟩)
        rw [get_cons_ne k v b' kv.1 e']
      · congr 1
        apply List.filter_congr
        intro kv hkv
        have e' : ¬ kv.1 = k := by
          intro e
          exact hb.1 (List.mem_map.2 ⟨kv, hkv, e⟩)
        congr 1
        -- `has (a ++ [(k,v)]) x = has a x` for `x ≠ k`
        have : ∀ (L : Legs), has (L ++ [(k, v)]) kv.1 = has L kv.1 := by
          intro L
          induction L with
          | nil =>
            have : (k == kv.1) = false := by simpa using fun h => e' h.symm
            simp [has, this]
          | cons h t iht => simp only [List.cons_append, has, iht]
        exact this a

end Legs

namespace Anneal
open Legs

def prodOf (n : Net) (l : Legs) : Nat := ((keys l).map n.size).prod

theorem left_eq (n : Net) (b a : Legs) :
    left n b a =
      ((a.map (fun kv => (kv.1, kv.2 + get b kv.1))).filter (fun kv => decide (kv.2 < n.app kv.1)),
       prodOf n a,
       prodOf n ((a.map (fun kv => (kv.1, kv.2 + get b kv.1))).filter (fun kv => decide (kv.2 < n.app kv.1)))) := by
  induction a with
  | nil => simp [left, prodOf, keys]
  | cons kv t ih =>
    obtain ⟨ix, c⟩ := kv
    have hc : (if b.has ix = true then c + get b ix else c) = c + get b ix := by
      by_cases h : b.has ix = true
      · simp [h]
      · have : get b ix = 0 := get_eq_zero_of_not_mem b ix (fun hm => h ((has_iff_mem b ix).2 hm))
        simp [h, this]
    simp only [left, ih, hc, List.map_cons, List.filter_cons]
    by_cases hk : c + get b ix < n.app ix
    · simp [hk, prodOf, keys]
    · simp [hk, prodOf, keys]

theorem right_eq (n : Net) (a b : Legs) :
    right n a b =
      ((b.filter (fun kv => !(has a kv.1))).filter (fun kv => decide (kv.2 < n.app kv.1)),
       prodOf n (b.filter (fun kv => !(has a kv.1))),
       prodOf n ((b.filter (fun kv => !(has a kv.1))).filter (fun kv => decide (kv.2 < n.app kv.1)))) := by
  induction b with
  | nil => simp [right, prodOf, keys]
  | cons kv t ih =>
    obtain ⟨ix, c⟩ := kv
    simp only [right, ih, List.filter_cons]
    by_cases h : a.has ix = true
    · simp [h]
    · have h' : a.has ix = false := by simpa using h
      by_cases hk : c < n.app ix
      · simp [h', hk, prodOf, keys]
      · simp [h', hk, prodOf, keys]

theorem prodOf_append (n : Net) (x y : Legs) : prodOf n (x ++ y) = prodOf n x * prodOf n y := by
  simp [prodOf, keys]

end Anneal
end Cotengra
