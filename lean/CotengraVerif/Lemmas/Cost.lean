import CotengraVerif.Lemmas.Legs
import CotengraVerif.Model.Stats
import Mathlib.Data.List.Dedup
import Mathlib.Algebra.BigOperators.Group.List.Basic

/-!
  From L1 to the independent ("leaf-set") definition of sizes and flops.
-/
namespace Cotengra
namespace Legs

def Pos (L : Legs) : Prop := ∀ kv ∈ L, 0 < kv.2

theorem pos_add (L : Legs) (ix c) (h : Pos L) (hc : 0 < c) : Pos (add L ix c) := by
  induction L with
  | nil => intro kv hkv; simp [add] at hkv; subst hkv; exact hc
  | cons kv t ih =>
    obtain ⟨k, v⟩ := kv
    have ht : Pos t := fun x hx => h x (List.mem_cons_of_mem _ hx)
    have hv : 0 < v := h (k, v) (List.mem_cons_self)
    by_cases hk : k = ix
    · subst hk
      simp only [add, if_true]
      intro x hx
      rcases List.mem_cons.1 hx with e | e
      · subst e; simp; omega
      · exact ht x e
    · simp only [add, hk, if_false]
      intro x hx
      rcases List.mem_cons.1 hx with e | e
      · subst e; exact hv
      · exact ih ht x e

theorem pos_foldl_add (b a : Legs) (ha : Pos a) (hb : Pos b) :
    Pos (b.foldl (fun acc kv => add acc kv.1 kv.2) a) := by
  induction b generalizing a with
  | nil => simpa
  | cons kv t ih =>
    simp only [List.foldl_cons]
    apply ih
    · exact pos_add a _ _ ha (hb kv List.mem_cons_self)
    · exact fun x hx => hb x (List.mem_cons_of_mem _ hx)

theorem pos_union (a b : Legs) (ha : Pos a) (hb : Pos b) : Pos (union a b) :=
  pos_foldl_add b a ha hb

theorem pos_filter (L : Legs) (p) (h : Pos L) : Pos (L.filter p) :=
  fun x hx => h x (List.mem_filter.1 hx).1

theorem pos_ofTerm_aux (term : List Ix) (a : Legs) (ha : Pos a) :
    Pos (term.foldl (fun acc ix => add acc ix 1) a) := by
  induction term generalizing a with
  | nil => simpa
  | cons x t ih => exact ih _ (pos_add a x 1 ha (by omega))

theorem pos_ofTerm (term : List Ix) : Pos (ofTerm term) :=
  pos_ofTerm_aux term [] (fun _ h => by cases h)

theorem get_of_mem (L : Legs) (hnd : (keys L).Nodup) (k v) (h : (k, v) ∈ L) : get L k = v := by
  induction L with
  | nil => cases h
  | cons kv t ih =>
    obtain ⟨k', v'⟩ := kv
    simp only [keys, List.map_cons, List.nodup_cons] at hnd
    rcases List.mem_cons.1 h with e | e
    · cases e; simp [get]
    · have : k' ≠ k := by
        intro e'; subst e'
        exact hnd.1 (List.mem_map.2 ⟨(k', v), e, rfl⟩)
      simp only [get, this, if_false]
      exact ih hnd.2 e

theorem mem_keys_iff_get_pos (L : Legs) (hnd : (keys L).Nodup) (hp : Pos L) (ix) :
    ix ∈ keys L ↔ 0 < get L ix := by
  constructor
  · intro h
    obtain ⟨⟨k, v⟩, hkv, hk⟩ := List.mem_map.1 h
    simp only at hk; subst hk
    rw [get_of_mem L hnd k v hkv]
    exact hp _ hkv
  · exact mem_keys_of_get_pos L ix

end Legs

namespace Net
open Legs

theorem pos_leafLegs (n : Net) (rm i) : Pos (n.leafLegs rm i) := by
  unfold leafLegs leafLegsPre
  simp only
  split
  · exact pos_filter _ _ (pos_ofTerm _)
  · exact pos_ofTerm _

theorem pos_legs (n : Net) (rm) (t : BT) : Pos (n.legs rm t) := by
  induction t with
  | leaf i => exact pos_leafLegs n rm i
  | node l r ihl ihr =>
    unfold legs keepOpen
    exact pos_filter _ _ (pos_union _ _ ihl ihr)

/-- `ix` survives the sub-contraction `t`: it occurs under `t`, and not all of its
    appearances (inputs + output) are under `t`. -/
def Surv (n : Net) (rm : List Ix) (t : BT) (ix : Ix) : Prop :=
  0 < n.cnt rm t ix ∧ n.cnt rm t ix < n.app ix

instance (n : Net) (rm t ix) : Decidable (n.Surv rm t ix) := by unfold Surv; infer_instance

theorem mem_legs_iff_surv (n : Net) (rm : List Ix) (t : BT) (hd : t.leaves.Nodup)
    (hb : ∀ i ∈ t.leaves, i < n.inputs.length) (ix : Ix) :
    ix ∈ keys (n.legs rm t) ↔ n.Surv rm t ix := by
  rw [mem_keys_iff_get_pos _ (keys_nodup_legs n rm t) (pos_legs n rm t), legs_get_eq_spec n rm t hd hb]
  unfold Surv
  split <;> omega

theorem keys_nodup_involved (n : Net) (rm) (t : BT) : (keys (n.involved rm t)).Nodup := by
  cases t with
  | leaf i => simp [involved, keys]
  | node l r => exact keys_nodup_union _ _ (keys_nodup_legs n rm l)

theorem pos_involved (n : Net) (rm) (t : BT) : Pos (n.involved rm t) := by
  cases t with
  | leaf i => intro _ h; cases h
  | node l r => exact pos_union _ _ (pos_legs n rm l) (pos_legs n rm r)

theorem mem_involved_iff (n : Net) (rm : List Ix) (l r : BT) (ix : Ix) :
    ix ∈ keys (n.involved rm (.node l r)) ↔
      ix ∈ keys (n.legs rm l) ∨ ix ∈ keys (n.legs rm r) := by
  rw [mem_keys_iff_get_pos _ (keys_nodup_involved n rm _) (pos_involved n rm _), involved_get,
    mem_keys_iff_get_pos _ (keys_nodup_legs n rm l) (pos_legs n rm l),
    mem_keys_iff_get_pos _ (keys_nodup_legs n rm r) (pos_legs n rm r)]
  omega

/-- every index of the network, once -/
def allIx (n : Net) : List Ix := (n.inputs.flatten ++ n.output).dedup

theorem allIx_nodup (n : Net) : n.allIx.Nodup := List.nodup_dedup _

theorem mem_term_mem_allIx (n : Net) (i ix) (h : ix ∈ n.term i) : ix ∈ n.allIx := by
  unfold allIx term at *
  rw [List.mem_dedup, List.mem_append]
  left
  rw [List.mem_flatten]
  by_cases hi : i < n.inputs.length
  · refine ⟨n.inputs[i], List.getElem_mem _, ?_⟩
    simpa [List.getD_eq_getElem?_getD, hi] using h
  · simp [List.getD_eq_getElem?_getD, Nat.not_lt.1 hi] at h

theorem cnt_pos_mem_allIx (n : Net) (rm t ix) (h : 0 < n.cnt rm t ix) : ix ∈ n.allIx := by
  by_contra hn
  have hz : n.cnt rm t ix = 0 := by
    unfold cnt
    apply List.sum_eq_zero
    intro x hx
    obtain ⟨i, _, rfl⟩ := List.mem_map.1 hx
    by_contra hne
    have hmem : ix ∈ n.termRm rm i := by
      unfold occ at hne
      exact List.count_pos_iff.1 (Nat.pos_of_ne_zero hne)
    unfold termRm at hmem
    exact hn (mem_term_mem_allIx n i ix (List.mem_filter.1 hmem).1)
  omega

theorem surv_mem_allIx (n : Net) (rm t ix) (h : n.Surv rm t ix) : ix ∈ n.allIx :=
  cnt_pos_mem_allIx n rm t ix h.1

/-- product of the sizes of the network indices satisfying `p` -/
def specProd (n : Net) (p : Ix → Bool) : Nat := ((n.allIx.filter p).map n.size).prod

theorem sizeOfLegs_eq_prod (n : Net) (L : Legs) :
    n.sizeOfLegs L = ((keys L).map n.size).prod := by
  unfold sizeOfLegs keys
  rw [List.prod_eq_foldl, List.map_map]
  rfl

/-- a legs dict whose keys are exactly the indices satisfying `p` has size `specProd p` -/
theorem sizeOfLegs_eq_specProd (n : Net) (L : Legs) (hnd : (keys L).Nodup) (p : Ix → Bool)
    (hmem : ∀ ix, ix ∈ keys L ↔ (ix ∈ n.allIx ∧ p ix = true)) :
    n.sizeOfLegs L = n.specProd p := by
  rw [sizeOfLegs_eq_prod]
  unfold specProd
  apply List.Perm.prod_eq
  apply List.Perm.map
  rw [List.perm_ext_iff_of_nodup hnd ((allIx_nodup n).filter _)]
  intro ix
  rw [hmem ix, List.mem_filter]

end Net
end Cotengra
