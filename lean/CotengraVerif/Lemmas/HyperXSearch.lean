import CotengraVerif.Lemmas.HyperXLemmas
import CotengraVerif.Lemmas.HyperSearch

/-!
  The serial and the parallel search loops of `Model/HyperX.lean` (with aborting workers and the
  clean-up of in-flight futures) are completion logs: `xserialLoop_spec`, the invariant `XPInv`
  of the parallel driver state, `xparPhase2_spec`, `xparPhase1_spec`.
-/
namespace Cotengra
namespace Hyper

/-! ## serial -/

theorem xserialLoop_spec (env : XEnv) (k : Nat) (stop : StopRule) (st : XState) :
    ∃ log : XLog,
      (xserialLoop env k stop st).st =
        { xrunLog st log with
          submitted := st.submitted + log.length + (if (xserialLoop env k stop st).aborted then 1 else 0) } ∧
      log.length ≤ k ∧
      ((xserialLoop env k stop st).aborted = true → log.length < k) ∧
      (∀ i (h : i < log.length), env.trialFn (st.submitted + i) log[i].1 = some log[i].2) ∧
      ((xserialLoop env k stop st).aborted = true →
        ∃ s, env.trialFn (st.submitted + log.length) s = none) ∧
      (stop = .never → (xserialLoop env k stop st).aborted = false → log.length = k) := by
  induction k generalizing stop st with
  | zero =>
    exact ⟨[], rfl, Nat.le_refl _, by simp [xserialLoop], fun i h => absurd h (by simp),
      by simp [xserialLoop], fun _ _ => rfl⟩
  | succ k ih =>
    generalize hs : env.getSetting st = s
    cases ht : env.trialFn st.submitted s with
    | none =>
      have hunf : xserialLoop env (k + 1) stop st =
          { st := xsetSub st (st.submitted + 1), aborted := true } := by
        simp only [xserialLoop, hs, ht]
      rw [hunf]
      refine ⟨[], ?_, by simp, by simp, fun i h => absurd h (by simp), fun _ => ⟨s, by simpa using ht⟩,
        fun _ h => by simp at h⟩
      simp only [List.length_nil, Nat.add_zero, if_true]
      rfl
    | some t =>
      have hunf : xserialLoop env (k + 1) stop st =
          if (stop.xnext (xsetSub (xcomplete st s t) (st.submitted + 1))).1 then
            { st := xsetSub (xcomplete st s t) (st.submitted + 1) }
          else xserialLoop env k (stop.xnext (xsetSub (xcomplete st s t) (st.submitted + 1))).2
            (xsetSub (xcomplete st s t) (st.submitted + 1)) := by
        simp only [xserialLoop, hs, ht, xcomplete_xsetSub]
      rw [hunf]
      cases hb : (stop.xnext (xsetSub (xcomplete st s t) (st.submitted + 1))).1 with
      | true =>
        simp only [if_true]
        refine ⟨[(s, t)], ?_, by simp, by simp, ?_, by simp, ?_⟩
        · simp only [Bool.false_eq_true, if_false, List.length_singleton, Nat.add_zero]; rfl
        · intro i h
          have : i = 0 := by simpa using h
          subst this; simp [ht]
        · intro hn; subst hn; simp [StopRule.xnext] at hb
      | false =>
        simp only [Bool.false_eq_true, if_false]
        obtain ⟨log', heq, hlen, hab, hres, habn, hnever⟩ :=
          ih (stop.xnext (xsetSub (xcomplete st s t) (st.submitted + 1))).2
            (xsetSub (xcomplete st s t) (st.submitted + 1))
        generalize xserialLoop env k (stop.xnext (xsetSub (xcomplete st s t) (st.submitted + 1))).2
          (xsetSub (xcomplete st s t) (st.submitted + 1)) = R at *
        refine ⟨(s, t) :: log', ?_, by simp; omega, ?_, ?_, ?_, ?_⟩
        · rw [heq]
          change xsetSub (xrunLog (xsetSub (xcomplete st s t) (st.submitted + 1)) log') _ = xsetSub _ _
          rw [xrunLog_xsetSub]
          simp only [xsetSub_xsetSub, xsetSub_submitted, List.length_cons]
          have : st.submitted + 1 + log'.length + (if R.aborted = true then 1 else 0)
              = st.submitted + (log'.length + 1) + (if R.aborted = true then 1 else 0) := by omega
          rw [this]; rfl
        · intro h; have := hab h; simp; omega
        · intro i h
          cases i with
          | zero => simp [ht]
          | succ i =>
            have h' : i < log'.length := by simpa using h
            have := hres i h'
            simp only [xsetSub_submitted] at this
            simp only [List.getElem_cons_succ]
            rw [← this]
            congr 1; omega
        · intro h
          obtain ⟨s', hs'⟩ := habn h
          refine ⟨s', ?_⟩
          simp only [xsetSub_submitted] at hs'
          rw [← hs']; congr 1; simp; omega
        · intro hn hna
          subst hn
          have := hnever (by simp [StopRule.xnext]) hna
          simp [this]

/-! ## the invariant of the parallel driver state -/

structure XPInv (env : XEnv) (st0 : XState) (ps : XPState) (plog : List (Nat × Setting × XTrial)) :
    Prop where
  hstate : ps.h = { xrunLog st0 (plog.map (·.2)) with submitted := ps.h.submitted }
  sub_ge : st0.submitted ≤ ps.h.submitted
  conserve : (plog.map (·.1) ++ ps.futures.map (·.2) ++ ps.cancelled ++ ps.raised.toList).Perm
    (List.range' st0.submitted (ps.h.submitted - st0.submitted))
  results : ∀ e ∈ plog, env.trialFn e.1 e.2.1 = some e.2.2
  raisedNone : ∀ k, ps.raised = some k → ∃ s, env.trialFn k s = none
  discardedSub : ∀ f ∈ ps.discarded, f.2 ∈ ps.cancelled ∧ env.doneAt f.2 = true

theorem xpinv_init (env : XEnv) (st : XState) : XPInv env st { h := st } [] :=
  ⟨rfl, Nat.le_refl _, by simp, (by intro e he; cases he), (by intro k hk; cases hk),
    (by intro k hk; cases hk)⟩

theorem xpinv_submit {env : XEnv} {st0 : XState} {ps : XPState} {plog} (h : XPInv env st0 ps plog)
    (s : Setting) :
    XPInv env st0 (xsubmit ps s) plog := by
  refine ⟨?_, ?_, ?_, h.results, h.raisedNone, h.discardedSub⟩
  · have := h.hstate
    change xsetSub ps.h (ps.h.submitted + 1) = xsetSub _ (ps.h.submitted + 1)
    change ps.h = xsetSub _ _ at this
    rw [this]; rfl
  · have := h.sub_ge
    change st0.submitted ≤ ps.h.submitted + 1
    omega
  · have hc := h.conserve
    have hge := h.sub_ge
    change (plog.map (·.1) ++ (ps.futures ++ [(s, ps.h.submitted)]).map (·.2) ++ ps.cancelled
      ++ ps.raised.toList).Perm
      (List.range' st0.submitted (ps.h.submitted + 1 - st0.submitted))
    have e1 : ps.h.submitted + 1 - st0.submitted = (ps.h.submitted - st0.submitted) + 1 := by omega
    rw [e1, List.range'_1_concat]
    have e2 : st0.submitted + (ps.h.submitted - st0.submitted) = ps.h.submitted := by omega
    rw [e2]
    rw [List.perm_iff_count] at hc ⊢
    intro a
    have := hc a
    simp only [List.count_append, List.map_append, List.map_cons, List.map_nil] at this ⊢
    omega

theorem xpinv_completeP {env : XEnv} {st0 : XState} {ps : XPState} {plog}
    (h : XPInv env st0 ps plog) (hr : ps.raised = none) (c : Nat) (hne : ps.futures ≠ []) :
    ∃ plog', XPInv env st0 (xcompleteP env ps c) plog' ∧
      (xcompleteP env ps c).futures.length + 1 = ps.futures.length ∧
      (xcompleteP env ps c).h.submitted = ps.h.submitted ∧
      (xcompleteP env ps c).cancelled = ps.cancelled ∧
      (xcompleteP env ps c).discarded = ps.discarded := by
  obtain ⟨⟨s, k⟩, rest, hp⟩ := pickAt_some ps.futures c hne
  have hperm := pickAt_perm _ _ _ _ hp
  have hlen := pickAt_length _ _ _ _ hp
  cases ht : env.trialFn k s with
  | none =>
    have hcp : xcompleteP env ps c = { ps with futures := rest, raised := some k } := by
      unfold xcompleteP; rw [hp]; simp only [ht]
    rw [hcp]
    refine ⟨plog, ⟨h.hstate, h.sub_ge, ?_, h.results, ?_, h.discardedSub⟩, hlen, rfl, rfl, rfl⟩
    · have hc := h.conserve
      rw [hr] at hc
      rw [List.perm_iff_count] at hc ⊢
      intro a
      have h1 := hc a
      have h2 := (List.perm_iff_count.1 (hperm.map (·.2))) a
      simp only [List.count_append, List.map_cons, Option.toList_none, Option.toList_some,
        List.count_cons, List.count_nil] at h1 h2 ⊢
      omega
    · intro k' hk'
      simp only [Option.some.injEq] at hk'
      subst hk'
      exact ⟨s, ht⟩
  | some t =>
    have hcp : xcompleteP env ps c =
        { ps with h := xcomplete ps.h s t, futures := rest } := by
      unfold xcompleteP; rw [hp]; simp only [ht]
    rw [hcp]
    refine ⟨plog ++ [(k, s, t)], ⟨?_, ?_, ?_, ?_, h.raisedNone, h.discardedSub⟩, hlen, by simp, rfl, rfl⟩
    · have := h.hstate
      change ps.h = xsetSub _ _ at this
      change xcomplete ps.h s t = xsetSub _ _
      rw [List.map_append, List.map_cons, List.map_nil, xrunLog_snoc]
      conv_lhs => rw [this]
      rw [xcomplete_xsetSub]
      simp
    · simpa using h.sub_ge
    · have hc := h.conserve
      simp only [xcomplete_submitted]
      rw [List.perm_iff_count] at hc ⊢
      intro a
      have h1 := hc a
      have h2 := (List.perm_iff_count.1 (hperm.map (·.2))) a
      simp only [List.count_append, List.map_append, List.map_cons, List.map_nil,
        List.count_cons, List.count_nil] at h1 h2 ⊢
      omega
    · intro e he
      rcases List.mem_append.1 he with he | he
      · exact h.results e he
      · simp only [List.mem_singleton] at he; subst he; exact ht

theorem xcompleteP_raised_of {env : XEnv} {ps : XPState} {c : Nat} {k : Nat}
    (h : (xcompleteP env ps c).raised = some k) (hr : ps.raised = none) :
    ∃ s, env.trialFn k s = none := by
  unfold xcompleteP at h
  split at h
  · rw [hr] at h; cases h
  · rename_i s k' rest _
    cases ht : env.trialFn k' s with
    | none =>
      simp only [ht, Option.some.injEq] at h
      subst h
      exact ⟨s, ht⟩
    | some t => simp only [ht] at h; rw [hr] at h; cases h

theorem xpinv_cancel {env : XEnv} {st0 : XState} {ps : XPState} {plog}
    (h : XPInv env st0 ps plog) : XPInv env st0 (xcancel env ps) plog := by
  refine ⟨h.hstate, h.sub_ge, ?_, h.results, h.raisedNone, ?_⟩
  · have hc := h.conserve
    change (plog.map (·.1) ++ ([] : List (Setting × Nat)).map (·.2) ++
        (ps.cancelled ++ ps.futures.reverse.map (·.2)) ++ ps.raised.toList).Perm
        (List.range' st0.submitted (ps.h.submitted - st0.submitted))
    rw [List.perm_iff_count] at hc ⊢
    intro a
    have h1 := hc a
    simp only [List.count_append, List.map_nil, List.count_nil, List.map_reverse,
      List.count_reverse] at h1 ⊢
    omega
  · intro k hk
    change k ∈ ps.discarded ++ ps.futures.reverse.filter (fun f => env.doneAt f.2) at hk
    change k.2 ∈ ps.cancelled ++ ps.futures.reverse.map (·.2) ∧ _
    rcases List.mem_append.1 hk with hk | hk
    · exact ⟨List.mem_append_left _ (h.discardedSub k hk).1, (h.discardedSub k hk).2⟩
    · obtain ⟨h1, h2⟩ := List.mem_filter.1 hk
      exact ⟨List.mem_append_right _ (List.mem_map.2 ⟨k, h1, rfl⟩), h2⟩

@[simp] theorem xcancel_futures (env : XEnv) (ps : XPState) : (xcancel env ps).futures = [] := rfl
@[simp] theorem xcancel_h (env : XEnv) (ps : XPState) : (xcancel env ps).h = ps.h := rfl
@[simp] theorem xcancel_raised (env : XEnv) (ps : XPState) : (xcancel env ps).raised = ps.raised :=
  rfl
theorem xcancel_cancelled_of_empty (env : XEnv) (ps : XPState) (h : ps.futures = []) :
    (xcancel env ps).cancelled = ps.cancelled := by
  unfold xcancel; simp [h]

/-- what the loop specs deliver about the final state -/
structure XPPost (env : XEnv) (st0 : XState) (ps0 ps : XPState) : Prop where
  inv : ∃ plog, XPInv env st0 ps plog
  futures : ps.raised = none → ps.futures = []

theorem xparPhase2_spec (env : XEnv) (st0 : XState) (fuel : Nat) (stop : StopRule) (cs : List Nat)
    (ps : XPState) (plog : List (Nat × Setting × XTrial)) (h : XPInv env st0 ps plog)
    (hr : ps.raised = none) :
    ∃ plog', XPInv env st0 (xparPhase2 env fuel stop cs ps) plog' ∧
      ((xparPhase2 env fuel stop cs ps).raised = none →
        (xparPhase2 env fuel stop cs ps).futures = []) ∧
      (xparPhase2 env fuel stop cs ps).h.submitted = ps.h.submitted ∧
      (stop = .never → (xparPhase2 env fuel stop cs ps).raised = none → ps.futures.length ≤ fuel →
        ps.cancelled = [] → (xparPhase2 env fuel stop cs ps).cancelled = []) := by
  induction fuel generalizing stop cs ps plog with
  | zero =>
    refine ⟨plog, xpinv_cancel h, fun _ => rfl, rfl, ?_⟩
    intro _ _ hl hc
    have : ps.futures = [] := List.eq_nil_of_length_eq_zero (by omega)
    change (xcancel env ps).cancelled = []
    rw [xcancel_cancelled_of_empty env ps this, hc]
  | succ f ih =>
    unfold xparPhase2
    by_cases hemp : ps.futures.isEmpty = true
    · simp only [hemp, if_true]
      refine ⟨plog, xpinv_cancel h, fun _ => rfl, rfl, ?_⟩
      intro _ _ _ hc
      rw [xcancel_cancelled_of_empty env ps (List.isEmpty_iff.1 hemp), hc]
    · simp only [hemp, Bool.false_eq_true, if_false]
      have hne : ps.futures ≠ [] := by
        intro e; apply hemp; simp [e]
      obtain ⟨plog1, hinv1, hlen1, hsub1, hcan1, _⟩ := xpinv_completeP h hr (cs.headD 0) hne
      cases hab : (xcompleteP env ps (cs.headD 0)).raised with
      | some k =>
        have hab' : (xcompleteP env ps (cs.headD 0)).aborted = true := by
          rw [XPState.aborted, hab]; rfl
        simp only [hab', if_true]
        refine ⟨plog1, hinv1, ?_, hsub1, ?_⟩
        · intro hn; rw [hab] at hn; cases hn
        · intro _ hn; rw [hab] at hn; cases hn
      | none =>
        have hab' : (xcompleteP env ps (cs.headD 0)).aborted = false := by
          rw [XPState.aborted, hab]; rfl
        simp only [hab', Bool.false_eq_true, if_false]
        cases hb : (stop.xnext (xcompleteP env ps (cs.headD 0)).h).1 with
        | true =>
          simp only [if_true]
          refine ⟨plog1, xpinv_cancel hinv1, fun _ => rfl, by simpa using hsub1, ?_⟩
          intro hn; subst hn; simp [StopRule.xnext] at hb
        | false =>
          simp only [Bool.false_eq_true, if_false]
          obtain ⟨plog2, hinv2, hfut2, hsub2, hnever2⟩ :=
            ih (stop.xnext (xcompleteP env ps (cs.headD 0)).h).2 cs.tail _ plog1 hinv1 hab
          refine ⟨plog2, hinv2, hfut2, by rw [hsub2, hsub1], ?_⟩
          intro hn hrn hl hc
          apply hnever2
          · subst hn; simp [StopRule.xnext]
          · exact hrn
          · omega
          · rw [hcan1, hc]

theorem xparPhase1_spec (env : XEnv) (pre k : Nat) (stop : StopRule) (cs : List Nat)
    (ps : XPState) (plog : List (Nat × Setting × XTrial)) {st0 : XState}
    (h : XPInv env st0 ps plog) (hr : ps.raised = none) :
    ∃ plog', XPInv env st0 (xparPhase1 env pre k stop cs ps) plog' ∧
      ((xparPhase1 env pre k stop cs ps).raised = none →
        (xparPhase1 env pre k stop cs ps).futures = []) ∧
      (xparPhase1 env pre k stop cs ps).h.submitted ≤ ps.h.submitted + k ∧
      (stop = .never → (xparPhase1 env pre k stop cs ps).raised = none → ps.cancelled = [] →
        (xparPhase1 env pre k stop cs ps).cancelled = [] ∧
        (xparPhase1 env pre k stop cs ps).h.submitted = ps.h.submitted + k) := by
  induction k generalizing stop cs ps plog with
  | zero =>
    obtain ⟨plog', hinv, hfut, hsub, hnever⟩ :=
      xparPhase2_spec env st0 ps.futures.length stop cs ps plog h hr
    refine ⟨plog', hinv, hfut, by simp only [xparPhase1]; omega, ?_⟩
    intro hn hrn hc
    exact ⟨hnever hn hrn (Nat.le_refl _) hc, hsub⟩
  | succ k ih =>
    have h0 := xpinv_submit h (env.getSetting ps.h)
    have hs0 : (xsubmit ps (env.getSetting ps.h)).h.submitted = ps.h.submitted + 1 := rfl
    have hc0 : (xsubmit ps (env.getSetting ps.h)).cancelled = ps.cancelled := rfl
    have hr0 : (xsubmit ps (env.getSetting ps.h)).raised = none := hr
    have hne0 : (xsubmit ps (env.getSetting ps.h)).futures ≠ [] := by simp [xsubmit]
    have hunf : xparPhase1 env pre (k + 1) stop cs ps =
        if (xsubmit ps (env.getSetting ps.h)).futures.length ≥ pre then
          if (xcompleteP env (xsubmit ps (env.getSetting ps.h)) (cs.headD 0)).aborted then
            xcompleteP env (xsubmit ps (env.getSetting ps.h)) (cs.headD 0)
          else if (stop.xnext (xcompleteP env (xsubmit ps (env.getSetting ps.h)) (cs.headD 0)).h).1 then
            xcancel env (xcompleteP env (xsubmit ps (env.getSetting ps.h)) (cs.headD 0))
          else xparPhase1 env pre k
            (stop.xnext (xcompleteP env (xsubmit ps (env.getSetting ps.h)) (cs.headD 0)).h).2 cs.tail
            (xcompleteP env (xsubmit ps (env.getSetting ps.h)) (cs.headD 0))
        else xparPhase1 env pre k stop cs (xsubmit ps (env.getSetting ps.h)) := by
      simp only [xparPhase1]
    rw [hunf]
    generalize xsubmit ps (env.getSetting ps.h) = ps0 at *
    by_cases hpre : ps0.futures.length ≥ pre
    · simp only [hpre, if_true]
      obtain ⟨plog1, hinv1, _, hsub1, hcan1, _⟩ := xpinv_completeP h0 hr0 (cs.headD 0) hne0
      cases hab : (xcompleteP env ps0 (cs.headD 0)).raised with
      | some kk =>
        have hab' : (xcompleteP env ps0 (cs.headD 0)).aborted = true := by
          rw [XPState.aborted, hab]; rfl
        simp only [hab', if_true]
        refine ⟨plog1, hinv1, ?_, by omega, ?_⟩
        · intro hn; rw [hab] at hn; cases hn
        · intro _ hn; rw [hab] at hn; cases hn
      | none =>
        have hab' : (xcompleteP env ps0 (cs.headD 0)).aborted = false := by
          rw [XPState.aborted, hab]; rfl
        simp only [hab', Bool.false_eq_true, if_false]
        cases hb : (stop.xnext (xcompleteP env ps0 (cs.headD 0)).h).1 with
        | true =>
          simp only [if_true]
          refine ⟨plog1, xpinv_cancel hinv1, fun _ => rfl, ?_, ?_⟩
          · simp only [xcancel_h]; omega
          · intro hn; subst hn; simp [StopRule.xnext] at hb
        | false =>
          simp only [Bool.false_eq_true, if_false]
          obtain ⟨plog2, hinv2, hfut2, hsub2, hnever2⟩ :=
            ih (stop.xnext (xcompleteP env ps0 (cs.headD 0)).h).2 cs.tail _ plog1 hinv1 hab
          refine ⟨plog2, hinv2, hfut2, by omega, ?_⟩
          intro hn hrn hc
          have := hnever2 (by subst hn; simp [StopRule.xnext]) hrn (by rw [hcan1, hc0, hc])
          exact ⟨this.1, by rw [this.2, hsub1, hs0]; omega⟩
    · simp only [hpre, if_false]
      obtain ⟨plog2, hinv2, hfut2, hsub2, hnever2⟩ := ih stop cs ps0 plog h0 hr0
      refine ⟨plog2, hinv2, hfut2, by omega, ?_⟩
      intro hn hrn hc
      have := hnever2 hn hrn (by rw [hc0, hc])
      exact ⟨this.1, by rw [this.2, hs0]; omega⟩

end Hyper
end Cotengra
