import CotengraVerif.Lemmas.SumOver
import CotengraVerif.Model.Program
import Mathlib.Data.List.Basic
import Mathlib.Data.List.Nodup

/-!
  Array-level meaning of the model's `einsum1` / `einsum2` under a label–index binding that the
  checker accepted (`unaryAxes` / `binaryAxes`): the produced array, read through its axis list,
  is the sum over the dropped indices of the (product of the) operand(s) read through theirs.
  This is the change of variables "labels ↔ indices" (`sumOver_rename`).
-/
namespace Cotengra

/-! ### executable predicates as propositions -/

theorem nodupB_iff (l : List Nat) : nodupB l = true ↔ l.Nodup := by
  induction l with
  | nil => simp [nodupB]
  | cons x xs ih => simp [nodupB, ih]

theorem functional_iff (ps : List (Nat × Nat)) :
    functional ps = true ↔ ∀ p ∈ ps, ∀ q ∈ ps, p.1 = q.1 → p.2 = q.2 := by
  simp only [functional, List.all_eq_true, Bool.or_eq_true, bne_iff_ne, ne_eq, beq_iff_eq]
  constructor
  · intro h p hp q hq e
    rcases h p hp q hq with h' | h'
    · exact absurd e h'
    · exact h'
  · intro h p hp q hq
    by_cases e : p.1 = q.1
    · exact Or.inr (h p hp q hq e)
    · exact Or.inl e

theorem bijective_iff (ps : List (Nat × Nat)) :
    bijective ps = true ↔ ∀ p ∈ ps, ∀ q ∈ ps, (p.1 = q.1 ↔ p.2 = q.2) := by
  simp only [bijective, List.all_eq_true, beq_iff_eq]
  constructor
  · intro h p hp q hq
    have := h p hp q hq
    by_cases e1 : p.1 = q.1 <;> by_cases e2 : p.2 = q.2 <;> simp_all
  · intro h p hp q hq
    have := h p hp q hq
    by_cases e1 : p.1 = q.1 <;> by_cases e2 : p.2 = q.2 <;> simp_all

theorem all_contains_iff (out ls : List Nat) :
    out.all ls.contains = true ↔ ∀ l ∈ out, l ∈ ls := by
  simp [List.all_eq_true]

/-! ### `uniq` -/

theorem mem_uniq (l : List Nat) (x : Nat) : x ∈ uniq l ↔ x ∈ l := by
  induction l with
  | nil => simp [uniq]
  | cons y ys ih =>
    simp only [uniq, List.mem_cons, List.mem_filter, ih, bne_iff_ne, ne_eq]
    by_cases h : x = y <;> simp [h]

theorem nodup_uniq (l : List Nat) : (uniq l).Nodup := by
  induction l with
  | nil => simp [uniq]
  | cons y ys ih =>
    simp only [uniq]
    refine List.nodup_cons.2 ⟨?_, ih.filter _⟩
    intro h
    simpa using (List.mem_filter.1 h).2

/-! ### association lists -/

theorem assoc_mem (ps : List (Nat × Nat)) (l : Nat) (h : l ∈ ps.map (·.1)) :
    (l, assoc ps l) ∈ ps := by
  induction ps with
  | nil => simp at h
  | cons p ps ih =>
    obtain ⟨k, v⟩ := p
    by_cases e : k = l
    · subst e; simp [assoc]
    · simp only [List.map_cons, List.mem_cons] at h
      rcases h with h | h
      · exact absurd h.symm e
      · simp only [assoc, e, if_false, List.mem_cons]
        exact Or.inr (ih h)

theorem assoc_of_mem (ps : List (Nat × Nat)) (hf : ∀ p ∈ ps, ∀ q ∈ ps, p.1 = q.1 → p.2 = q.2)
    (l x : Nat) (h : (l, x) ∈ ps) : assoc ps l = x := by
  have hm : l ∈ ps.map (·.1) := List.mem_map.2 ⟨(l, x), h, rfl⟩
  exact hf _ (assoc_mem ps l hm) _ h rfl

theorem map_fst_zip_eq (ls xs : List Nat) (h : ls.length = xs.length) :
    (ls.zip xs).map (·.1) = ls := by
  induction ls generalizing xs with
  | nil => simp
  | cons l ls ih =>
    cases xs with
    | nil => simp at h
    | cons x xs => simp at h; simp [ih xs h]

theorem map_snd_zip_eq (ls xs : List Nat) (h : ls.length = xs.length) :
    (ls.zip xs).map (·.2) = xs := by
  induction ls generalizing xs with
  | nil => cases xs <;> simp_all
  | cons l ls ih =>
    cases xs with
    | nil => simp at h
    | cons x xs => simp at h; simp [ih xs h]

/-- a functional binding maps the label list onto the bound list -/
theorem map_assoc_zip (ls xs : List Nat) (h : ls.length = xs.length)
    (hf : ∀ p ∈ ls.zip xs, ∀ q ∈ ls.zip xs, p.1 = q.1 → p.2 = q.2) :
    ls.map (assoc (ls.zip xs)) = xs := by
  have h1 : (ls.zip xs).map (fun p => assoc (ls.zip xs) p.1) = (ls.zip xs).map (·.2) := by
    apply List.map_congr_left
    intro p hp
    exact assoc_of_mem _ hf p.1 p.2 hp
  have h2 : (ls.zip xs).map (fun p => assoc (ls.zip xs) p.1) =
      ((ls.zip xs).map (·.1)).map (assoc (ls.zip xs)) := by
    rw [List.map_map]; rfl
  rw [h2, map_fst_zip_eq ls xs h, map_snd_zip_eq ls xs h] at h1
  exact h1

/-- reading a position list back through the labels that produced it -/
theorem assoc_zip_map (out : List Nat) (g : Nat → Nat) (m : Nat) (h : m ∈ out) :
    assoc (out.zip (out.map g)) m = g m := by
  induction out with
  | nil => simp at h
  | cons o out ih =>
    by_cases e : o = m
    · subst e; simp [assoc]
    · simp only [List.map_cons, List.zip_cons_cons, assoc, e, if_false]
      rcases List.mem_cons.1 h with h | h
      · exact absurd h.symm e
      · exact ih h

/-- binding to the images of the bound values -/
theorem assoc_zip_map_right (ls xs : List Nat) (g : Nat → Nat) (l : Nat)
    (h : ls.length = xs.length) (hl : l ∈ ls) :
    assoc (ls.zip (xs.map g)) l = g (assoc (ls.zip xs) l) := by
  induction ls generalizing xs with
  | nil => simp at hl
  | cons k ls ih =>
    cases xs with
    | nil => simp at h
    | cons x xs =>
      by_cases e : k = l
      · subst e; simp [assoc]
      · simp only [List.map_cons, List.zip_cons_cons, assoc, e, if_false]
        rcases List.mem_cons.1 hl with hl | hl
        · exact absurd hl.symm e
        · exact ih xs (by simpa using h) hl

/-! ### the binding accepted by the checker -/

/-- what `unaryAxes` / `binaryAxes` establish about labels `ls`, operand axes `xs`, output
    labels `out` -/
structure Binding (ls xs out : List Nat) : Prop where
  len : ls.length = xs.length
  bij : ∀ p ∈ ls.zip xs, ∀ q ∈ ls.zip xs, (p.1 = q.1 ↔ p.2 = q.2)
  sub : ∀ l ∈ out, l ∈ ls
  nodup : out.Nodup

namespace Binding
variable {ls xs out : List Nat} (B : Binding ls xs out)
include B

/-- the label → index map -/
def phi (_ : Binding ls xs out) : Nat → Nat := assoc (ls.zip xs)

/-- labels that are summed -/
def summed (_ : Binding ls xs out) : List Nat := (uniq ls).filter fun l => !out.contains l

/-- indices that are summed -/
def K (B : Binding ls xs out) : List Nat := B.summed.map B.phi

theorem func : ∀ p ∈ ls.zip xs, ∀ q ∈ ls.zip xs, p.1 = q.1 → p.2 = q.2 :=
  fun p hp q hq e => (B.bij p hp q hq).1 e

theorem map_phi : ls.map B.phi = xs := map_assoc_zip ls xs B.len B.func

theorem phi_mem {l : Nat} (h : l ∈ ls) : (l, B.phi l) ∈ ls.zip xs :=
  assoc_mem _ l (by rw [map_fst_zip_eq ls xs B.len]; exact h)

theorem phi_inj {l m : Nat} (hl : l ∈ ls) (hm : m ∈ ls) (e : B.phi l = B.phi m) : l = m :=
  (B.bij _ (B.phi_mem hl) _ (B.phi_mem hm)).2 e

theorem phi_mem_xs {l : Nat} (h : l ∈ ls) : B.phi l ∈ xs := by
  have := List.mem_map_of_mem (f := B.phi) h
  rw [B.map_phi] at this
  exact this

theorem exists_label {x : Nat} (h : x ∈ xs) : ∃ l ∈ ls, B.phi l = x := by
  rw [← B.map_phi] at h
  obtain ⟨l, hl, e⟩ := List.mem_map.1 h
  exact ⟨l, hl, e⟩

theorem summed_nodup : B.summed.Nodup := (nodup_uniq ls).filter _

theorem mem_summed {l : Nat} : l ∈ B.summed ↔ l ∈ ls ∧ l ∉ out := by
  simp [summed, mem_uniq]

theorem K_nodup : B.K.Nodup := by
  unfold K
  apply List.Nodup.map_on _ B.summed_nodup
  intro a ha b hb e
  exact B.phi_inj (B.mem_summed.1 ha).1 (B.mem_summed.1 hb).1 e

/-- the summed indices are exactly the operand indices that are not produced -/
theorem mem_K {x : Nat} : x ∈ B.K ↔ x ∈ xs ∧ x ∉ out.map B.phi := by
  unfold K
  constructor
  · intro h
    obtain ⟨l, hl, e⟩ := List.mem_map.1 h
    obtain ⟨hls, hno⟩ := B.mem_summed.1 hl
    refine ⟨e ▸ B.phi_mem_xs hls, ?_⟩
    intro hx
    obtain ⟨o, ho, eo⟩ := List.mem_map.1 hx
    have : o = l := B.phi_inj (B.sub o ho) hls (eo.trans e.symm)
    exact hno (this ▸ ho)
  · intro ⟨hx, hno⟩
    obtain ⟨l, hl, e⟩ := B.exists_label hx
    refine List.mem_map.2 ⟨l, B.mem_summed.2 ⟨hl, ?_⟩, e⟩
    intro ho
    exact hno (List.mem_map.2 ⟨l, ho, e⟩)

theorem produced_subset {x : Nat} (h : x ∈ out.map B.phi) : x ∈ xs := by
  obtain ⟨o, ho, e⟩ := List.mem_map.1 h
  exact e ▸ B.phi_mem_xs (B.sub o ho)

end Binding

section
variable {R : Type} [CommSemiring R]

/-- change of variables from label assignments to index assignments -/
theorem sumOver_rename (dimL size : Nat → Nat) (φ : Nat → Nat) (rel : List Nat)
    (f F : (Nat → Nat) → R)
    (hinj : ∀ l ∈ rel, ∀ m ∈ rel, φ l = φ m → l = m)
    (hfF : ∀ asg σ, (∀ m ∈ rel, asg m = σ (φ m)) → f asg = F σ)
    (ks : List Nat) (hdim : ∀ l ∈ ks, dimL l = size (φ l)) (hks : ∀ l ∈ ks, l ∈ rel)
    (asg σ : Nat → Nat) (hagree : ∀ m ∈ rel, m ∉ ks → asg m = σ (φ m)) :
    sumOver dimL ks asg f = sumOver size (ks.map φ) σ F := by
  induction ks generalizing asg σ with
  | nil => exact hfF asg σ (fun m hm => hagree m hm (by simp))
  | cons l ks ih =>
    simp only [List.map_cons, sumOver]
    rw [hdim l List.mem_cons_self]
    apply sumRange_congr
    intro v _
    apply ih (fun j hj => hdim j (List.mem_cons_of_mem _ hj))
      (fun j hj => hks j (List.mem_cons_of_mem _ hj))
    intro m hm hmk
    by_cases e : m = l
    · subst e; rw [upd_same, upd_same]
    · have hne : φ m ≠ φ l := fun h => e (hinj m hm l (hks l List.mem_cons_self) h)
      rw [upd_other _ _ _ _ e, upd_other _ _ _ _ hne]
      exact hagree m hm (by simp [e, hmk])

/-- the common core of `einsum1` / `einsum2`: the sum over the summed labels, started from the
    assignment read off an output position `(out.map φ).map σ`, is the sum over the summed
    indices started from `σ`. -/
theorem einsum_core {ls xs out : List Nat} (B : Binding ls xs out) (size : Nat → Nat)
    (f F : (Nat → Nat) → R)
    (hfF : ∀ asg σ, (∀ m ∈ ls, asg m = σ (B.phi m)) → f asg = F σ) (σ : Nat → Nat) :
    sumOver (assoc (ls.zip (xs.map size))) B.summed
        (assoc (out.zip ((out.map B.phi).map σ))) f =
      sumOver size B.K σ F := by
  unfold Binding.K
  apply sumOver_rename _ size B.phi ls f F (fun l hl m hm e => B.phi_inj hl hm e) hfF
  · intro l hl
    exact assoc_zip_map_right ls xs size l B.len (B.mem_summed.1 hl).1
  · intro l hl
    exact (B.mem_summed.1 hl).1
  · intro m hm hns
    have hmo : m ∈ out := by
      by_contra hno
      exact hns (B.mem_summed.2 ⟨hm, hno⟩)
    rw [List.map_map]
    exact assoc_zip_map out (σ ∘ B.phi) m hmo

/-- consistent dimensions of repeated labels follow from the binding -/
theorem functional_dims {ls xs out : List Nat} (B : Binding ls xs out) (size : Nat → Nat) :
    functional (ls.zip (xs.map size)) = true := by
  rw [functional_iff]
  intro p hp q hq e
  -- every pair is (l, size x) for a pair (l, x) of the binding
  have key : ∀ p ∈ ls.zip (xs.map size), ∃ x, (p.1, x) ∈ ls.zip xs ∧ p.2 = size x := by
    intro p hp
    rw [← List.map_id ls, List.zip_map, List.mem_map] at hp
    obtain ⟨⟨l, x⟩, hlx, rfl⟩ := hp
    exact ⟨x, by simpa using hlx, rfl⟩
  obtain ⟨x, hx, ex⟩ := key p hp
  obtain ⟨y, hy, ey⟩ := key q hq
  have : x = y := B.func _ hx _ hy e
  rw [ex, ey, this]

theorem shape_produced {ls xs out : List Nat} (B : Binding ls xs out) (size : Nat → Nat) :
    out.map (assoc (ls.zip (xs.map size))) = (out.map B.phi).map size := by
  rw [List.map_map]
  apply List.map_congr_left
  intro l hl
  exact assoc_zip_map_right ls xs size l B.len (B.sub l hl)

end

/-! ### from the checker's answer to a `Binding` -/

theorem unaryAxes_ok {lhs out ax axP : List Nat} (h : unaryAxes lhs out ax = .ok axP) :
    ∃ B : Binding lhs ax out, axP = out.map B.phi := by
  unfold unaryAxes at h
  split at h; · cases h
  split at h; · cases h
  split at h; · cases h
  split at h; · cases h
  rename_i h1 h2 h3 h4
  simp only [bne_iff_ne, ne_eq, not_not, Bool.not_eq_false,
    Bool.not_eq_eq_eq_not, Bool.not_true] at h1 h2 h3 h4
  have B : Binding lhs ax out :=
    ⟨h1, (bijective_iff _).1 (by simpa using h2), (all_contains_iff _ _).1 (by simpa using h3),
      (nodupB_iff _).1 (by simpa using h4)⟩
  refine ⟨B, ?_⟩
  cases h
  rfl

theorem binaryAxes_ok {lA lB out axL axR axP : List Nat}
    (h : binaryAxes lA lB out axL axR = .ok axP) :
    ∃ B : Binding (lA ++ lB) (axL ++ axR) out, axP = out.map B.phi ∧
      lA.length = axL.length ∧ lB.length = axR.length := by
  unfold binaryAxes at h
  split at h; · cases h
  split at h; · cases h
  split at h; · cases h
  split at h; · cases h
  rename_i h1 h2 h3 h4
  simp only [bne_iff_ne, ne_eq, Bool.or_eq_true, not_or, not_not,
    Bool.not_eq_false, Bool.not_eq_eq_eq_not, Bool.not_true] at h1 h2 h3 h4
  have hlen : (lA ++ lB).length = (axL ++ axR).length := by
    simp [h1.1, h1.2]
  have B : Binding (lA ++ lB) (axL ++ axR) out :=
    ⟨hlen, (bijective_iff _).1 (by simpa using h2), (all_contains_iff _ _).1 (by simpa using h3),
      (nodupB_iff _).1 (by simpa using h4)⟩
  refine ⟨B, ?_, h1.1, h1.2⟩
  cases h
  rfl

section
variable {R : Type} [CommSemiring R]

/-- meaning of the one-operand einsum under an accepted binding -/
theorem einsum1_sem {lhs out ax : List Nat} (B : Binding lhs ax out) (size : Nat → Nat)
    (a : Arr R) (hs : a.shape = ax.map size) :
    ∃ p, einsum1 lhs out a = some p ∧ p.shape = (out.map B.phi).map size ∧
      ∀ σ, p.val ((out.map B.phi).map σ) = sumOver size B.K σ (fun τ => a.val (ax.map τ)) := by
  have hlen : lhs.length = a.shape.length := by rw [hs, List.length_map]; exact B.len
  have hfun : functional (lhs.zip a.shape) = true := by rw [hs]; exact functional_dims B size
  have hsub : out.all lhs.contains = true := (all_contains_iff _ _).2 B.sub
  have hnd : nodupB out = true := (nodupB_iff _).2 B.nodup
  simp only [einsum1, hlen, hfun, hsub, hnd, and_self, if_true]
  refine ⟨_, rfl, ?_, ?_⟩
  · simp only [hs]
    exact shape_produced B size
  · intro σ
    simp only [hs]
    apply einsum_core B size
    intro asg τ h
    congr 1
    rw [← B.map_phi, List.map_map]
    apply List.map_congr_left
    intro m hm
    exact h m hm

theorem map_append_split {lA lB axL axR : List Nat} (φ : Nat → Nat)
    (h : (lA ++ lB).map φ = axL ++ axR) (hl : lA.length = axL.length) :
    lA.map φ = axL ∧ lB.map φ = axR := by
  rw [List.map_append] at h
  exact List.append_inj h (by simpa using hl)

/-- meaning of the two-operand einsum under an accepted binding -/
theorem einsum2_sem {lA lB out axL axR : List Nat} (B : Binding (lA ++ lB) (axL ++ axR) out)
    (hlA : lA.length = axL.length) (hlB : lB.length = axR.length) (size : Nat → Nat)
    (a b : Arr R) (ha : a.shape = axL.map size) (hb : b.shape = axR.map size) :
    ∃ p, einsum2 lA lB out a b = some p ∧ p.shape = (out.map B.phi).map size ∧
      ∀ σ, p.val ((out.map B.phi).map σ) =
        sumOver size B.K σ (fun τ => a.val (axL.map τ) * b.val (axR.map τ)) := by
  have h1 : lA.length = a.shape.length := by rw [ha, List.length_map]; exact hlA
  have h2 : lB.length = b.shape.length := by rw [hb, List.length_map]; exact hlB
  have hsh : a.shape ++ b.shape = (axL ++ axR).map size := by rw [ha, hb, List.map_append]
  have hfun : functional ((lA ++ lB).zip (a.shape ++ b.shape)) = true := by
    rw [hsh]; exact functional_dims B size
  have hsub : out.all (lA ++ lB).contains = true := (all_contains_iff _ _).2 B.sub
  have hnd : nodupB out = true := (nodupB_iff _).2 B.nodup
  simp only [einsum2, h1, h2, hfun, hsub, hnd, and_self, if_true]
  refine ⟨_, rfl, ?_, ?_⟩
  · simp only [hsh]
    exact shape_produced B size
  · intro σ
    simp only [hsh]
    apply einsum_core B size
    intro asg τ h
    obtain ⟨eL, eR⟩ := map_append_split B.phi B.map_phi hlA
    have e1 : lA.map asg = axL.map τ := by
      rw [← eL, List.map_map]
      apply List.map_congr_left
      intro m hm
      exact h m (List.mem_append_left _ hm)
    have e2 : lB.map asg = axR.map τ := by
      rw [← eR, List.map_map]
      apply List.map_congr_left
      intro m hm
      exact h m (List.mem_append_right _ hm)
    rw [e1, e2]

end
end Cotengra
