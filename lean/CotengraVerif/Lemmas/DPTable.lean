import CotengraVerif.Model.DP
import Mathlib.Data.Nat.Bitwise

/-!
  Bitmask keys (`maskOf`), dict operations (`Table.get?`, `Table.upsert`) and the pair
  enumerations (`product`, `pairs2`) of the DP model.
-/
namespace Cotengra
namespace DP

/-! ## bitmasks -/

theorem testBit_maskOf (ls : List Nat) (i : Nat) : (maskOf ls).testBit i = decide (i ∈ ls) := by
  induction ls with
  | nil => simp [maskOf]
  | cons a t ih =>
    have : maskOf (a :: t) = (1 <<< a) ||| maskOf t := rfl
    rw [this, Nat.testBit_or, ih, Nat.one_shiftLeft, Nat.testBit_two_pow]
    by_cases h : a = i
    · subst h; simp
    · have h' : ¬ i = a := fun e => h e.symm
      simp [h, h']

theorem maskOf_eq_iff (a b : List Nat) : maskOf a = maskOf b ↔ ∀ i, i ∈ a ↔ i ∈ b := by
  constructor
  · intro h i
    have := congrArg (fun m => m.testBit i) h
    simp only [testBit_maskOf] at this
    simpa using this
  · intro h
    apply Nat.eq_of_testBit_eq
    intro i
    rw [testBit_maskOf, testBit_maskOf]
    simp [h i]

theorem maskOf_append (a b : List Nat) : maskOf (a ++ b) = maskOf a ||| maskOf b := by
  apply Nat.eq_of_testBit_eq
  intro i
  rw [Nat.testBit_or, testBit_maskOf, testBit_maskOf, testBit_maskOf]
  simp

theorem maskOf_append_comm (a b : List Nat) : maskOf (a ++ b) = maskOf (b ++ a) := by
  rw [maskOf_eq_iff]
  intro i
  simp only [List.mem_append]
  exact Or.comm

theorem mask_and_eq_zero_iff (a b : List Nat) :
    maskOf a &&& maskOf b = 0 ↔ ∀ i, i ∈ a → i ∉ b := by
  constructor
  · intro h i hia hib
    have := congrArg (fun m => m.testBit i) h
    simp only [Nat.testBit_and, testBit_maskOf, Nat.zero_testBit] at this
    simp [hia, hib] at this
  · intro h
    apply Nat.eq_of_testBit_eq
    intro i
    rw [Nat.testBit_and, testBit_maskOf, testBit_maskOf, Nat.zero_testBit]
    by_cases hia : i ∈ a
    · simp [hia, h i hia]
    · simp [hia]

theorem maskOf_singleton (i : Nat) : maskOf [i] = 1 <<< i := by
  simp [maskOf]

theorem maskOf_ne_zero {a : List Nat} (h : a ≠ []) : maskOf a ≠ 0 := by
  intro e
  obtain ⟨x, hx⟩ := List.exists_mem_of_ne_nil a h
  have := congrArg (fun m => m.testBit x) e
  simp only [testBit_maskOf, Nat.zero_testBit] at this
  simp [hx] at this

/-! ## dict operations -/

namespace Table

theorem get?_some_mem {T : Table} {k : Nat} {e : Entry} (h : T.get? k = some e) : (k, e) ∈ T := by
  induction T with
  | nil => simp [get?] at h
  | cons x t ih =>
    obtain ⟨k', e'⟩ := x
    unfold get? at h
    by_cases hk : k' = k
    · rw [if_pos hk] at h
      cases h; subst hk; exact List.mem_cons_self
    · rw [if_neg hk] at h
      exact List.mem_cons_of_mem _ (ih h)

theorem get?_none_not_mem {T : Table} {k : Nat} (h : T.get? k = none) (e : Entry) : (k, e) ∉ T := by
  induction T with
  | nil => simp
  | cons x t ih =>
    obtain ⟨k', e'⟩ := x
    unfold get? at h
    by_cases hk : k' = k
    · rw [if_pos hk] at h; cases h
    · rw [if_neg hk] at h
      intro hm
      rcases List.mem_cons.1 hm with e1 | e1
      · cases e1; exact hk rfl
      · exact ih h e1

theorem mem_upsert_self (T : Table) (k : Nat) (e : Entry) : (k, e) ∈ T.upsert k e := by
  induction T with
  | nil => simp [upsert]
  | cons x t ih =>
    obtain ⟨k', e'⟩ := x
    unfold upsert
    by_cases hk : k' = k
    · rw [if_pos hk]; exact List.mem_cons_self
    · rw [if_neg hk]; exact List.mem_cons_of_mem _ ih

theorem mem_upsert {T : Table} {k : Nat} {e : Entry} {x : Nat × Entry} (h : x ∈ T.upsert k e) :
    x = (k, e) ∨ x ∈ T := by
  induction T with
  | nil => simp [upsert] at h; exact Or.inl h
  | cons y t ih =>
    obtain ⟨k', e'⟩ := y
    unfold upsert at h
    by_cases hk : k' = k
    · rw [if_pos hk] at h
      rcases List.mem_cons.1 h with e1 | e1
      · exact Or.inl e1
      · exact Or.inr (List.mem_cons_of_mem _ e1)
    · rw [if_neg hk] at h
      rcases List.mem_cons.1 h with e1 | e1
      · exact Or.inr (e1 ▸ List.mem_cons_self)
      · rcases ih e1 with e2 | e2
        · exact Or.inl e2
        · exact Or.inr (List.mem_cons_of_mem _ e2)

/-- an old entry survives `d[k] = e` unless it is the (first) entry stored under `k` -/
theorem mem_upsert_of_mem {T : Table} {k : Nat} {e : Entry} {x : Nat × Entry} (h : x ∈ T) :
    x ∈ T.upsert k e ∨ (x.1 = k ∧ T.get? k = some x.2) := by
  induction T with
  | nil => cases h
  | cons y t ih =>
    obtain ⟨k', e'⟩ := y
    unfold upsert get?
    by_cases hk : k' = k
    · rw [if_pos hk, if_pos hk]
      rcases List.mem_cons.1 h with e1 | e1
      · subst e1; exact Or.inr ⟨hk, rfl⟩
      · exact Or.inl (List.mem_cons_of_mem _ e1)
    · rw [if_neg hk, if_neg hk]
      rcases List.mem_cons.1 h with e1 | e1
      · subst e1; exact Or.inl List.mem_cons_self
      · rcases ih e1 with e2 | e2
        · exact Or.inl (List.mem_cons_of_mem _ e2)
        · exact Or.inr e2

def keys (T : Table) : List Nat := T.map (·.1)

theorem keys_upsert (T : Table) (k : Nat) (e : Entry) :
    keys (T.upsert k e) = if k ∈ keys T then keys T else keys T ++ [k] := by
  induction T with
  | nil => simp [upsert, keys]
  | cons y t ih =>
    obtain ⟨k', e'⟩ := y
    unfold upsert
    by_cases hk : k' = k
    · subst hk; simp [keys]
    · have hk' : ¬ k = k' := fun h => hk h.symm
      rw [if_neg hk]
      simp only [keys, List.map_cons, List.mem_cons, hk', false_or] at ih ⊢
      rw [ih]
      by_cases hm : k ∈ List.map (fun x => x.1) t
      · simp [hm]
      · simp [hm]

theorem keys_nodup_upsert {T : Table} (k : Nat) (e : Entry) (h : (keys T).Nodup) :
    (keys (T.upsert k e)).Nodup := by
  rw [keys_upsert]
  split
  · exact h
  · rename_i hni
    refine List.nodup_append.2 ⟨h, by simp, ?_⟩
    intro a ha b hb
    simp at hb; subst hb
    intro hab; subst hab; exact hni ha

theorem upsert_ne_nil (T : Table) (k : Nat) (e : Entry) : T.upsert k e ≠ [] := by
  intro h
  have := mem_upsert_self T k e
  rw [h] at this
  cases this

/-- a dict whose keys are all the same has at most one entry -/
theorem eq_singleton_of_keys {T : Table} (hne : T ≠ []) (hnd : (keys T).Nodup) (k : Nat)
    (hk : ∀ x ∈ T, x.1 = k) : ∃ e, T = [(k, e)] := by
  match T, hne with
  | [(k', e)], _ =>
    have := hk (k', e) List.mem_cons_self
    simp only at this; subst this
    exact ⟨e, rfl⟩
  | x :: y :: t, _ =>
    exfalso
    have h1 := hk x List.mem_cons_self
    have h2 := hk y (List.mem_cons_of_mem _ List.mem_cons_self)
    simp only [keys, List.map_cons, List.nodup_cons, List.mem_cons] at hnd
    exact hnd.1 (Or.inl (h1.trans h2.symm))

end Table

/-! ## pair enumerations -/

theorem mem_product {α β} {xs : List α} {ys : List β} {x : α} {y : β} :
    (x, y) ∈ product xs ys ↔ x ∈ xs ∧ y ∈ ys := by
  unfold product
  simp only [List.mem_flatMap, List.mem_map]
  constructor
  · rintro ⟨a, ha, b, hb, e⟩
    cases e; exact ⟨ha, hb⟩
  · rintro ⟨hx, hy⟩
    exact ⟨x, hx, y, hy, rfl⟩

theorem mem_pairs2_mem {α} {xs : List α} {p : α × α} (h : p ∈ pairs2 xs) :
    p.1 ∈ xs ∧ p.2 ∈ xs := by
  induction xs with
  | nil => simp [pairs2] at h
  | cons a t ih =>
    unfold pairs2 at h
    rcases List.mem_append.1 h with h1 | h1
    · obtain ⟨y, hy, rfl⟩ := List.mem_map.1 h1
      exact ⟨List.mem_cons_self, List.mem_cons_of_mem _ hy⟩
    · have := ih h1
      exact ⟨List.mem_cons_of_mem _ this.1, List.mem_cons_of_mem _ this.2⟩

/-- `combinations(xs, 2)` meets every unordered pair of distinct elements in one orientation -/
theorem pairs2_covers {α} {xs : List α} {x y : α} (hx : x ∈ xs) (hy : y ∈ xs) (hne : x ≠ y) :
    (x, y) ∈ pairs2 xs ∨ (y, x) ∈ pairs2 xs := by
  induction xs with
  | nil => cases hx
  | cons a t ih =>
    unfold pairs2
    rcases List.mem_cons.1 hx with ex | ex <;> rcases List.mem_cons.1 hy with ey | ey
    · exact absurd (ex.trans ey.symm) hne
    · subst ex
      exact Or.inl (List.mem_append_left _ (List.mem_map.2 ⟨y, ey, rfl⟩))
    · subst ey
      exact Or.inr (List.mem_append_left _ (List.mem_map.2 ⟨x, ex, rfl⟩))
    · rcases ih ex ey with h | h
      · exact Or.inl (List.mem_append_right _ h)
      · exact Or.inr (List.mem_append_right _ h)

end DP
end Cotengra
