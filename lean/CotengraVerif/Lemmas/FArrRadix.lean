import CotengraVerif.Model.FArr
import Mathlib.Tactic.Ring
import Mathlib.Tactic.Linarith

/-!
  Mixed-radix lemmas for `FA.ravel` / `FA.unravel` / `FA.inRange` and basic facts about `FA.sumTo`.
-/
namespace Cotengra.FA

@[simp] theorem prod_nil : prod [] = 1 := rfl
@[simp] theorem prod_cons (d : Nat) (ds : List Nat) : prod (d :: ds) = d * prod ds := rfl

theorem prod_append (a b : List Nat) : prod (a ++ b) = prod a * prod b := by
  induction a with
  | nil => simp
  | cons d ds ih => simp [ih, Nat.mul_assoc]

theorem prod_pos {l : List Nat} (h : ∀ d ∈ l, 0 < d) : 0 < prod l := by
  induction l with
  | nil => simp
  | cons d ds ih =>
    simp only [prod_cons]
    exact Nat.mul_pos (h d (by simp)) (ih fun e he => h e (by simp [he]))

@[simp] theorem inRange_nil : inRange [] [] = true := rfl

@[simp] theorem inRange_cons (i d : Nat) (is ds : List Nat) :
    inRange (i :: is) (d :: ds) = (decide (i < d) && inRange is ds) := rfl

theorem inRange_length {idx shape : List Nat} (h : inRange idx shape = true) :
    idx.length = shape.length := by
  induction idx generalizing shape with
  | nil => cases shape <;> simp_all [inRange]
  | cons i is ih =>
    cases shape with
    | nil => simp [inRange] at h
    | cons d ds =>
      simp only [inRange_cons, Bool.and_eq_true] at h
      simp [ih h.2]

theorem inRange_append {i1 d1 i2 d2 : List Nat} (h1 : inRange i1 d1 = true)
    (h2 : inRange i2 d2 = true) : inRange (i1 ++ i2) (d1 ++ d2) = true := by
  induction i1 generalizing d1 with
  | nil => cases d1 <;> simp_all [inRange]
  | cons i is ih =>
    cases d1 with
    | nil => simp [inRange] at h1
    | cons d ds =>
      simp only [inRange_cons, Bool.and_eq_true] at h1
      simp only [List.cons_append, inRange_cons, Bool.and_eq_true]
      exact ⟨h1.1, ih h1.2⟩

theorem ravel_lt {idx shape : List Nat} (h : inRange idx shape = true) :
    ravel shape idx < prod shape := by
  induction idx generalizing shape with
  | nil => cases shape <;> simp_all [inRange, ravel]
  | cons i is ih =>
    cases shape with
    | nil => simp [inRange] at h
    | cons d ds =>
      simp only [inRange_cons, Bool.and_eq_true, decide_eq_true_eq] at h
      have := ih h.2
      simp only [ravel, prod_cons]
      calc i * prod ds + ravel ds is < i * prod ds + prod ds := by omega
        _ = (i + 1) * prod ds := by ring
        _ ≤ d * prod ds := Nat.mul_le_mul_right _ h.1

theorem unravel_ravel {idx shape : List Nat} (h : inRange idx shape = true) :
    unravel shape (ravel shape idx) = idx := by
  induction idx generalizing shape with
  | nil => cases shape <;> simp_all [inRange, unravel]
  | cons i is ih =>
    cases shape with
    | nil => simp [inRange] at h
    | cons d ds =>
      simp only [inRange_cons, Bool.and_eq_true, decide_eq_true_eq] at h
      have hlt := ravel_lt h.2
      have hp : 0 < prod ds := by omega
      simp only [ravel, unravel]
      have h1 : (i * prod ds + ravel ds is) / prod ds = i := by
        rw [Nat.add_comm, Nat.add_mul_div_right _ _ hp, Nat.div_eq_of_lt hlt]; simp
      have h2 : (i * prod ds + ravel ds is) % prod ds = ravel ds is := by
        rw [Nat.add_comm, Nat.add_mul_mod_self_right, Nat.mod_eq_of_lt hlt]
      rw [h1, h2, ih h.2]

theorem ravel_append {i1 d1 : List Nat} (hl : i1.length = d1.length) (i2 d2 : List Nat) :
    ravel (d1 ++ d2) (i1 ++ i2) = ravel d1 i1 * prod d2 + ravel d2 i2 := by
  induction i1 generalizing d1 with
  | nil => cases d1 <;> simp_all [ravel]
  | cons i is ih =>
    cases d1 with
    | nil => simp at hl
    | cons d ds =>
      simp only [List.length_cons, Nat.add_right_cancel_iff] at hl
      simp only [List.cons_append, ravel, ih hl, prod_append]
      ring

theorem inRange_unravel {shape : List Nat} {n : Nat} (h : n < prod shape) :
    inRange (unravel shape n) shape = true := by
  induction shape generalizing n with
  | nil => simp [unravel]
  | cons d ds ih =>
    simp only [prod_cons] at h
    have hp : 0 < prod ds := by
      rcases Nat.eq_zero_or_pos (prod ds) with h0 | h0
      · rw [h0] at h; simp at h
      · exact h0
    simp only [unravel, inRange_cons, Bool.and_eq_true, decide_eq_true_eq]
    refine ⟨?_, ih (Nat.mod_lt _ hp)⟩
    exact (Nat.div_lt_iff_lt_mul hp).2 h

theorem ravel_unravel {shape : List Nat} {n : Nat} (h : n < prod shape) :
    ravel shape (unravel shape n) = n := by
  induction shape generalizing n with
  | nil => simp [prod] at h; simp [unravel, ravel, h]
  | cons d ds ih =>
    simp only [prod_cons] at h
    have hp : 0 < prod ds := by
      rcases Nat.eq_zero_or_pos (prod ds) with h0 | h0
      · rw [h0] at h; simp at h
      · exact h0
    simp only [unravel, ravel, ih (Nat.mod_lt _ hp)]
    rw [Nat.mul_comm]; exact Nat.div_add_mod n (prod ds)

/-! ### `sumTo` -/

@[simp] theorem sumTo_zero (f : Nat → Int) : sumTo 0 f = 0 := rfl
theorem sumTo_succ (n : Nat) (f : Nat → Int) : sumTo (n + 1) f = sumTo n f + f n := rfl

theorem sumTo_congr {n : Nat} {f g : Nat → Int} (h : ∀ i, i < n → f i = g i) :
    sumTo n f = sumTo n g := by
  induction n with
  | zero => rfl
  | succ n ih =>
    rw [sumTo_succ, sumTo_succ, ih (fun i hi => h i (by omega)), h n (by omega)]

@[simp] theorem sumTo_one (f : Nat → Int) : sumTo 1 f = f 0 := by simp [sumTo]

theorem sumTo_const_zero (n : Nat) : sumTo n (fun _ => 0) = 0 := by
  induction n with
  | zero => rfl
  | succ n ih => rw [sumTo_succ, ih]; simp

theorem sumTo_add (n : Nat) (f g : Nat → Int) :
    sumTo n (fun i => f i + g i) = sumTo n f + sumTo n g := by
  induction n with
  | zero => simp
  | succ n ih => simp only [sumTo_succ, ih]; ring

theorem sumTo_mul_left (n : Nat) (c : Int) (f : Nat → Int) :
    sumTo n (fun i => c * f i) = c * sumTo n f := by
  induction n with
  | zero => simp
  | succ n ih => simp only [sumTo_succ, ih]; ring

theorem sumTo_mul_right (n : Nat) (c : Int) (f : Nat → Int) :
    sumTo n (fun i => f i * c) = sumTo n f * c := by
  induction n with
  | zero => simp
  | succ n ih => simp only [sumTo_succ, ih]; ring

theorem sumTo_comm (n m : Nat) (f : Nat → Nat → Int) :
    sumTo n (fun i => sumTo m (fun j => f i j)) = sumTo m (fun j => sumTo n (fun i => f i j)) := by
  induction n with
  | zero => simp [sumTo_const_zero]
  | succ n ih => simp only [sumTo_succ, ih, sumTo_add]

theorem sumTo_split (a b : Nat) (f : Nat → Int) :
    sumTo (a + b) f = sumTo a f + sumTo b fun j => f (a + j) := by
  induction b with
  | zero => simp
  | succ k ih =>
    have : a + (k + 1) = (a + k) + 1 := by omega
    rw [this, sumTo_succ, ih, sumTo_succ]; ring

/-- a sum over a product range is a double sum: `Σ_{c < n*m} f c = Σ_{i<n} Σ_{j<m} f (i*m + j)` -/
theorem sumTo_mul (n m : Nat) (f : Nat → Int) :
    sumTo (n * m) f = sumTo n fun i => sumTo m fun j => f (i * m + j) := by
  induction n with
  | zero => simp
  | succ n ih =>
    have : (n + 1) * m = n * m + m := by ring
    rw [this, sumTo_split, ih, sumTo_succ]

end Cotengra.FA
