import CotengraVerif.Lemmas.SingleSel
import Mathlib.Data.List.Nodup

/-!
  The three steps of `_einsum_single` (diagonals by advanced indexing, `sum`, `transpose`) on
  labelled arrays: `Lab sz t x X` says that `x` has one axis per label of `t` (repeats allowed) and
  holds the values of `X`.
-/
namespace Cotengra.Bmm
open Cotengra Cotengra.FA

abbrev Lab (sz : Ix → Nat) (t : List Ix) (x : FArr) (X : (Ix → Nat) → Int) : Prop :=
  Rep sz (t.map fun i => [i]) x X

theorem lab_iff {sz : Ix → Nat} {t : List Ix} {x : FArr} {X} :
    Lab sz t x X ↔ x.shape = t.map sz ∧ ∀ env, EnvOK sz env → x.get (t.map env) = X env := by
  constructor
  · intro h
    refine ⟨rep_shape_single h, fun env henv => ?_⟩
    have := h.val env henv
    simpa [List.map_map, Function.comp_def] using this
  · rintro ⟨h1, h2⟩
    refine ⟨by simp [h1, List.map_map, Function.comp_def], fun env henv => ?_⟩
    simpa [List.map_map, Function.comp_def] using h2 env henv

/-! ### diagonal step -/

theorem lab_advIndex {sz : Ix → Nat} {t : List Ix} {x : FArr} {X} (hx : Lab sz t x X) {ixd : Ix}
    (hm : ixd ∈ t) {q : Nat} (hq : q ≤ (t.filter (· != ixd)).length)
    (hqd : q = if contig (selOf (sz ixd) ixd t) then lead (selOf (sz ixd) ixd t) else 0) :
    ∃ y, advIndex (selOf (sz ixd) ixd t) x = some y ∧
      Lab sz ((t.filter (· != ixd)).take q ++ ixd :: (t.filter (· != ixd)).drop q) y X := by
  obtain ⟨hsh, hval⟩ := lab_iff.1 hx
  simp only [advIndex, selLen_selOf hm, hsh, selOK_selOf, ↓reduceIte, ← hqd, sliceDims_selOf]
  refine ⟨_, rfl, ?_⟩
  rw [lab_iff]
  generalize hr : t.filter (· != ixd) = r at hq
  refine ⟨by simp [List.map_take, List.map_drop], fun env henv => ?_⟩
  simp only [List.map_append, List.map_cons]
  have hlen : ((r.take q).map env).length = q := by simp [hq]
  have h1 : (List.map env (List.take q r) ++ env ixd :: List.map env (List.drop q r)).getD q 0
      = env ixd := by
    rw [List.getD_eq_getElem?_getD, List.getElem?_append_right (by omega), hlen, Nat.sub_self]
    rfl
  have h2 : (List.map env (List.take q r) ++ env ixd :: List.map env (List.drop q r)).eraseIdx q
      = r.map env := by
    rw [List.eraseIdx_append_of_length_le (by omega)]
    simp only [hlen, Nat.sub_self, List.eraseIdx_cons_zero]
    rw [← List.map_append, List.take_append_drop]
  rw [h1, h2, ← hr, fill_selOf, hval env henv]

theorem filter_ne_split {ixd : Ix} {pre : List Ix} (hp : ixd ∉ pre) (rest : List Ix) :
    (pre ++ ixd :: rest).filter (· != ixd) = pre ++ rest.filter (· != ixd) := by
  rw [List.filter_append, List.filter_cons]
  simp only [bne_self_eq_false, Bool.false_eq_true, ↓reduceIte, List.append_cancel_right_eq]
  apply List.filter_eq_self.2
  intro y hy
  simp only [bne_iff_ne, ne_eq]
  rintro rfl
  exact hp hy

/-- one round of the `while need_to_diag` loop -/
theorem lab_diagStep {sz : Ix → Nat} {t : List Ix} {x : FArr} {X} (hx : Lab sz t x X) {ixd : Ix}
    (hm : ixd ∈ t) {sizes : Ix → Nat} (hs : sizes ixd = sz ixd) :
    ∃ y, advIndex (diagStep sizes t ixd).1 x = some y ∧ Lab sz (diagStep sizes t ixd).2 y X ∧
      (diagStep sizes t ixd).2.Perm (ixd :: t.filter (· != ixd)) := by
  obtain ⟨pre, rest, rfl, hp⟩ := exists_first_split hm
  have hsel : (diagStep sizes (pre ++ ixd :: rest) ixd).1 = selOf (sz ixd) ixd (pre ++ ixd :: rest) := by
    simp only [diagStep, hs, selOf]
  rw [hsel]
  by_cases hc : (rest.dropWhile (· == ixd)).all (· != ixd) = true
  · -- adjacent: the new axis stays in place
    have h2 : (diagStep sizes (pre ++ ixd :: rest) ixd).2 = pre ++ ixd :: rest.filter (· != ixd) := by
      simp only [diagStep, isInfix_run hp, hc, ↓reduceIte, collapse_contig hp hc]
    have hq : pre.length ≤ ((pre ++ ixd :: rest).filter (· != ixd)).length := by
      rw [filter_ne_split hp]; simp
    obtain ⟨y, hy1, hy2⟩ := lab_advIndex hx hm hq
      (by rw [contig_selOf _ hp, hc, lead_selOf _ hp]; simp)
    refine ⟨y, hy1, ?_, ?_⟩
    · rw [h2]
      rw [filter_ne_split hp] at hy2
      simpa using hy2
    · rw [h2, filter_ne_split hp]
      exact List.perm_middle
  · -- not adjacent: the new axis goes to the front
    have hc' : (rest.dropWhile (· == ixd)).all (· != ixd) = false := by simpa using hc
    have h2 : (diagStep sizes (pre ++ ixd :: rest) ixd).2
        = ixd :: (pre ++ ixd :: rest).filter (· != ixd) := by
      simp only [diagStep, isInfix_run hp, hc', Bool.false_eq_true, ↓reduceIte]
    obtain ⟨y, hy1, hy2⟩ := lab_advIndex hx hm (Nat.zero_le _)
      (by rw [contig_selOf _ hp, hc']; simp)
    refine ⟨y, hy1, ?_, ?_⟩
    · rw [h2]; simpa using hy2
    · rw [h2]

theorem count_diagStep {t t' : List Ix} {ixd : Ix} (h : t'.Perm (ixd :: t.filter (· != ixd)))
    (j : Ix) : t'.count j = if j = ixd then 1 else t.count j := by
  rw [h.count_eq]
  by_cases hj : j = ixd
  · subst hj
    have : (t.filter (· != j)).count j = 0 := List.count_eq_zero.2 (by simp)
    simp [this]
  · rw [List.count_cons_of_ne (by simpa using Ne.symm hj), if_neg hj]
    exact List.count_filter (by simpa using hj)

/-- the whole diagonal loop -/
theorem lab_diagLoop {sz : Ix → Nat} {sizes : Ix → Nat} (L : List Ix) :
    ∀ {t : List Ix} {x : FArr} {X}, Lab sz t x X → (∀ i ∈ L, i ∈ t) → L.Nodup →
      (∀ i ∈ L, sizes i = sz i) →
      ∃ y, (diagLoop sizes L t).1.foldlM (fun y sel => advIndex sel y) x = some y ∧
        Lab sz (diagLoop sizes L t).2 y X ∧
        ∀ j, (diagLoop sizes L t).2.count j = if j ∈ L then 1 else t.count j := by
  induction L with
  | nil =>
    intro t x X hx _ _ _
    exact ⟨x, rfl, hx, fun j => by simp [diagLoop]⟩
  | cons ixd rest ih =>
    intro t x X hx hm hn hs
    obtain ⟨y1, h1, h2, h3⟩ := lab_diagStep hx (hm ixd (by simp)) (hs ixd (by simp))
    have hcnt := count_diagStep h3
    have hnd := List.nodup_cons.1 hn
    have hm' : ∀ i ∈ rest, i ∈ (diagStep sizes t ixd).2 := by
      intro i hi
      have hne : i ≠ ixd := by rintro rfl; exact hnd.1 hi
      have : 0 < (diagStep sizes t ixd).2.count i := by
        rw [hcnt i, if_neg hne]
        exact List.count_pos_iff.2 (hm i (by simp [hi]))
      exact List.count_pos_iff.1 this
    obtain ⟨y, h4, h5, h6⟩ := ih h2 hm' hnd.2 (fun i hi => hs i (by simp [hi]))
    refine ⟨y, ?_, h5, ?_⟩
    · simp only [diagLoop, List.foldlM_cons, h1]
      exact h4
    · intro j
      simp only [diagLoop]
      rw [h6 j, hcnt j]
      by_cases hj : j = ixd
      · subst hj; simp [hnd.1]
      · simp [hj]

/-! ### sum step -/

theorem sumMask_lab {sz : Ix → Nat} (S : List Ix) :
    ∀ (l : List Ix) (g : List Nat → Int) (env : Ix → Nat), l.Nodup →
      sumMask (l.map (S.contains ·)) (l.map sz) g ((l.filter (!S.contains ·)).map env)
        = sumEnv sz (l.filter (S.contains ·)) env fun e => g (l.map e) := by
  intro l
  induction l with
  | nil => intro g env _; rfl
  | cons i r ih =>
    intro g env hn
    have hi : i ∉ r := (List.nodup_cons.1 hn).1
    have hr := (List.nodup_cons.1 hn).2
    by_cases hS : S.contains i = true
    · simp only [List.map_cons, hS, sumMask, List.filter_cons, Bool.not_true, Bool.false_eq_true,
        ↓reduceIte, sumEnv_cons]
      apply sumTo_congr
      intro v _
      have hmap : (r.filter (!S.contains ·)).map env = (r.filter (!S.contains ·)).map (upd env i v) := by
        apply List.map_congr_left
        intro j hj
        rw [upd_other _ _ (by rintro rfl; exact hi (List.mem_filter.1 hj).1)]
      rw [hmap, ih (fun full => g (v :: full)) (upd env i v) hr]
      apply sumEnv_congr'
      intro e hag
      rw [hag i (fun h => hi (List.mem_filter.1 h).1), upd_same]
    · have hS' : S.contains i = false := by simpa using hS
      simp only [List.map_cons, hS', sumMask, List.filter_cons, Bool.not_false, ↓reduceIte,
        Bool.false_eq_true]
      rw [ih (fun full => g (env i :: full)) env hr]
      apply sumEnv_congr'
      intro e hag
      rw [hag i (fun h => hi (List.mem_filter.1 h).1)]

theorem keepMask_lab (sz : Ix → Nat) (S : List Ix) (l : List Ix) :
    keepMask (l.map (S.contains ·)) (l.map sz) = (l.filter (!S.contains ·)).map sz := by
  induction l with
  | nil => rfl
  | cons i r ih =>
    by_cases hS : S.contains i = true
    · simp only [List.map_cons, hS, keepMask, List.filter_cons, Bool.not_true, Bool.false_eq_true,
        ↓reduceIte]
      exact ih
    · have hS' : S.contains i = false := by simpa using hS
      simp only [List.map_cons, hS', keepMask, List.filter_cons, Bool.not_false, ↓reduceIte,
        List.cons.injEq, true_and]
      exact ih

theorem idxOf_getElem_nodup {l : List Ix} (hn : l.Nodup) {k : Nat} (hk : k < l.length) :
    l.idxOf l[k] = k := by
  have h1 : l.idxOf l[k] < l.length := List.idxOf_lt_length_of_mem (List.getElem_mem hk)
  exact (List.Nodup.getElem_inj_iff hn).1 (List.getElem_idxOf h1)

theorem mask_eq {t ns : List Ix} (ht : t.Nodup) (hsub : ∀ i ∈ ns, i ∈ t) :
    ((List.range t.length).map fun k => (ns.map t.idxOf).contains k) = t.map (ns.contains ·) := by
  apply List.ext_getElem
  · simp
  · intro k h1 h2
    simp only [List.length_map, List.length_range] at h1
    simp only [List.getElem_map, List.getElem_range]
    rw [Bool.eq_iff_iff]
    simp only [List.contains_iff_mem, List.mem_map]
    constructor
    · rintro ⟨i, hi, hik⟩
      have hit := hsub i hi
      have : t[k] = i := by
        subst hik
        exact List.getElem_idxOf (List.idxOf_lt_length_of_mem hit)
      rw [this]; exact hi
    · intro hk
      exact ⟨t[k], hk, idxOf_getElem_nodup ht h1⟩

theorem lab_sumAxes {sz : Ix → Nat} {t : List Ix} {x : FArr} {X} (hx : Lab sz t x X)
    (ht : t.Nodup) {ns : List Ix} (hns : ns.Nodup) (hsub : ∀ i ∈ ns, i ∈ t) :
    ∃ y, sumAxes (ns.map t.idxOf) x = some y ∧
      Lab sz (t.filter fun i => !ns.contains i) y fun env => sumEnv sz ns env X := by
  obtain ⟨hsh, hval⟩ := lab_iff.1 hx
  have hlen : x.shape.length = t.length := by simp [hsh]
  have hall : (ns.map t.idxOf).all (· < t.length) = true := by
    simp only [List.all_map, List.all_eq_true, Function.comp, decide_eq_true_eq]
    intro i hi
    exact List.idxOf_lt_length_of_mem (hsub i hi)
  have hnd : (ns.map t.idxOf).Nodup := by
    apply List.Nodup.map_on _ hns
    intro a ha b hb hab
    have h1 := List.getElem_idxOf (List.idxOf_lt_length_of_mem (hsub a ha))
    have h2 := List.getElem_idxOf (List.idxOf_lt_length_of_mem (hsub b hb))
    rw [← h1, ← h2]
    simp [hab]
  simp only [sumAxes, hlen, hall, hnd, decide_true, Bool.and_true, ↓reduceIte, mask_eq ht hsub]
  refine ⟨_, rfl, ?_⟩
  rw [lab_iff]
  refine ⟨by rw [hsh, keepMask_lab], fun env henv => ?_⟩
  simp only
  rw [hsh, sumMask_lab ns t x.get env ht]
  have h1 : sumEnv sz (t.filter (ns.contains ·)) env (fun e => x.get (t.map e))
      = sumEnv sz (t.filter (ns.contains ·)) env X :=
    sumEnv_congr henv fun e he _ => hval e he
  rw [h1]
  apply sumEnv_of_mem_iff (ht.filter _) hns
  intro i
  simp only [List.mem_filter, List.contains_iff_mem]
  constructor
  · exact fun h => h.2
  · exact fun h => ⟨hsub i h, h⟩

/-! ### transpose step -/

theorem lab_transpose {sz : Ix → Nat} {t : List Ix} {x : FArr} {X} (hx : Lab sz t x X)
    (ht : t.Nodup) {out : List Ix} (ho : out.Nodup) (h1 : ∀ o ∈ out, o ∈ t) (h2 : ∀ i ∈ t, i ∈ out) :
    ∃ y, transpose (out.map t.idxOf) x = some y ∧ Lab sz out y X := by
  have hperm : out.Perm t := (List.perm_ext_iff_of_nodup ho ht).2 fun a => ⟨h1 a, h2 a⟩
  have hp : isPermOf (out.map t.idxOf) (t.map fun i => [i]).length = true := by
    simp only [isPermOf, List.length_map, hperm.length_eq, beq_self_eq_true, Bool.true_and,
      List.all_eq_true, List.mem_range, List.contains_iff_mem, List.mem_map]
    intro j hj
    exact ⟨t[j], h2 _ (List.getElem_mem hj), idxOf_getElem_nodup ht hj⟩
  obtain ⟨y, hy1, hy2⟩ := rep_transpose hx hp
  refine ⟨y, hy1, ?_⟩
  have : ((out.map t.idxOf).map fun k => (t.map fun i => [i]).getD k []) = out.map fun i => [i] := by
    rw [List.map_map]
    apply List.map_congr_left
    intro o ho'
    have hlt := List.idxOf_lt_length_of_mem (h1 o ho')
    simp only [Function.comp, List.getD_eq_getElem?_getD]
    rw [List.getElem?_eq_getElem (by simpa using hlt)]
    simp [List.getElem_idxOf hlt]
  rw [this] at hy2
  exact hy2

end Cotengra.Bmm
