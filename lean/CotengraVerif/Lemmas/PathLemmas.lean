import CotengraVerif.Model.Path
import Mathlib.Data.List.Perm.Basic
import Mathlib.Data.List.Flatten

/-!
  Lemmas for the path checkers of C05: the list discipline of linear and SSA paths preserves the
  multiset of consumed inputs, and is parametric in the item type (so the unit-item checker
  decides success of the real replay).
-/
namespace Cotengra
namespace Path

/-! ## linear paths -/

theorem splitAt_perm {α} (p : List Nat) (xs : List α) (off : Nat) :
    ((splitAt p xs off).1 ++ (splitAt p xs off).2).Perm xs := by
  induction xs generalizing off with
  | nil => simp [splitAt]
  | cons x t ih =>
    simp only [splitAt]
    split
    · exact List.Perm.cons x (ih (off + 1))
    · exact (List.perm_middle).trans (List.Perm.cons x (ih (off + 1)))

theorem splitAt_map {α β} (f : α → β) (p : List Nat) (xs : List α) (off : Nat) :
    splitAt p (xs.map f) off = ((splitAt p xs off).1.map f, (splitAt p xs off).2.map f) := by
  induction xs generalizing off with
  | nil => simp [splitAt]
  | cons x t ih =>
    simp only [List.map_cons, splitAt, ih]
    split <;> simp

theorem stepLinear_map {α β} (f : α → β) (merge : List α → α) (merge' : List β → β)
    (hm : ∀ xs, f (merge xs) = merge' (xs.map f)) (items : List α) (p : Step) :
    stepLinear merge' (items.map f) p = (stepLinear merge items p).map (·.map f) := by
  unfold stepLinear
  rw [List.length_map]
  split
  · simp [splitAt_map, hm]
  · rfl

theorem runLinear_map {α β} (f : α → β) (merge : List α → α) (merge' : List β → β)
    (hm : ∀ xs, f (merge xs) = merge' (xs.map f)) (items : List α) (path : Path) :
    runLinear merge' (items.map f) path = (runLinear merge items path).map (·.map f) := by
  induction path generalizing items with
  | nil => simp [runLinear]
  | cons p rest ih =>
    simp only [runLinear]
    rw [stepLinear_map f merge merge' hm]
    cases h : stepLinear merge items p with
    | none => simp
    | some items' => simp [ih]

/-- a step keeps the multiset of consumed inputs -/
theorem stepLinear_flatten {items items' : List (List Nat)} {p : Step}
    (h : stepLinear List.flatten items p = some items') : items'.flatten.Perm items.flatten := by
  unfold stepLinear at h
  split at h
  · cases h
    rw [List.flatten_append]
    simp only [List.flatten_cons, List.flatten_nil, List.append_nil]
    have := (splitAt_perm p items 0).flatten
    rw [List.flatten_append] at this
    exact List.perm_append_comm.trans this
  · cases h

theorem runLinear_flatten {items items' : List (List Nat)} {path : Path}
    (h : runLinear List.flatten items path = some items') : items'.flatten.Perm items.flatten := by
  induction path generalizing items with
  | nil => simp [runLinear] at h; subst h; exact List.Perm.refl _
  | cons p rest ih =>
    simp only [runLinear] at h
    cases hs : stepLinear List.flatten items p with
    | none => rw [hs] at h; cases h
    | some its =>
      rw [hs] at h
      exact (ih h).trans (stepLinear_flatten hs)

/-- each step names existing, distinct positions (spelled out) -/
theorem stepLinear_some_iff {α} (merge : List α → α) (items : List α) (p : Step) :
    (stepLinear merge items p).isSome ↔ (p ≠ [] ∧ p.Nodup ∧ ∀ i ∈ p, i < items.length) := by
  unfold stepLinear stepOK
  split
  · rename_i h
    simp only [Bool.and_eq_true, Bool.not_eq_true', List.isEmpty_eq_false_iff, decide_eq_true_eq,
      List.all_eq_true] at h
    simp only [Option.isSome_some, true_iff]
    exact ⟨h.1.1, h.1.2, h.2⟩
  · rename_i h
    simp only [Bool.and_eq_true, Bool.not_eq_true', List.isEmpty_eq_false_iff, decide_eq_true_eq,
      List.all_eq_true] at h
    simp only [Option.isSome_none, Bool.false_eq_true, false_iff]
    rintro ⟨h1, h2, h3⟩
    exact h ⟨⟨h1, h2⟩, h3⟩

def leafItems (N : Nat) : List (List Nat) := (List.range N).map fun i => [i]

theorem leafItems_flatten (N : Nat) : (leafItems N).flatten = List.range N := by
  unfold leafItems
  induction (List.range N) with
  | nil => rfl
  | cons a t ih => simp [ih]

theorem leafItems_unit (N : Nat) : (leafItems N).map (fun _ => ()) = List.replicate N () := by
  unfold leafItems
  rw [List.map_map]
  apply List.ext_getElem
  · simp
  · intro i h1 h2; simp

/-! ## SSA paths -/

def vals {α} (d : List (Nat × α)) : List α := d.map (·.2)

theorem popId_perm {α} {d d' : List (Nat × α)} {i : Nat} {x : α} (h : popId d i = some (x, d')) :
    (x :: vals d').Perm (vals d) := by
  induction d generalizing d' with
  | nil => simp [popId] at h
  | cons kv t ih =>
    obtain ⟨k, v⟩ := kv
    unfold popId at h
    by_cases hk : k = i
    · rw [if_pos hk] at h
      cases h
      exact List.Perm.refl _
    · rw [if_neg hk] at h
      cases ht : popId t i with
      | none => rw [ht] at h; cases h
      | some r =>
        obtain ⟨y, t'⟩ := r
        rw [ht] at h
        cases h
        simp only [vals, List.map_cons]
        exact (List.Perm.swap _ _ _).trans (List.Perm.cons v (ih ht))

theorem popIds_perm {α} {d d' : List (Nat × α)} {p : List Nat} {xs : List α}
    (h : popIds d p = some (xs, d')) : (xs ++ vals d').Perm (vals d) := by
  induction p generalizing d d' xs with
  | nil => simp [popIds] at h; obtain ⟨rfl, rfl⟩ := h; exact List.Perm.refl _
  | cons i rest ih =>
    unfold popIds at h
    cases h1 : popId d i with
    | none => rw [h1] at h; cases h
    | some r =>
      obtain ⟨x, d1⟩ := r
      rw [h1] at h
      simp only at h
      cases h2 : popIds d1 rest with
      | none => rw [h2] at h; cases h
      | some r2 =>
        obtain ⟨ys, d2⟩ := r2
        rw [h2] at h
        cases h
        exact (List.Perm.cons x (ih h2)).trans (popId_perm h1)

def mapD {α β} (f : α → β) (d : List (Nat × α)) : List (Nat × β) := d.map fun kv => (kv.1, f kv.2)

theorem popId_map {α β} (f : α → β) (d : List (Nat × α)) (i : Nat) :
    popId (mapD f d) i = (popId d i).map fun r => (f r.1, mapD f r.2) := by
  induction d with
  | nil => simp [popId, mapD]
  | cons kv t ih =>
    obtain ⟨k, v⟩ := kv
    simp only [mapD, List.map_cons] at ih ⊢
    unfold popId
    by_cases hk : k = i
    · simp [hk]
    · simp only [if_neg hk]
      rw [ih]
      cases popId t i <;> simp

theorem popIds_map {α β} (f : α → β) (d : List (Nat × α)) (p : List Nat) :
    popIds (mapD f d) p = (popIds d p).map fun r => (r.1.map f, mapD f r.2) := by
  induction p generalizing d with
  | nil => simp [popIds]
  | cons i rest ih =>
    unfold popIds
    rw [popId_map]
    cases h1 : popId d i with
    | none => simp
    | some r =>
      obtain ⟨x, d1⟩ := r
      simp only [Option.map_some]
      rw [ih]
      cases popIds d1 rest <;> simp

def mapS {α β} (f : α → β) (s : SSAState α) : SSAState β := ⟨mapD f s.nodes, s.ssa⟩

theorem stepSSA_map {α β} (f : α → β) (merge : List α → α) (merge' : List β → β)
    (hm : ∀ xs, f (merge xs) = merge' (xs.map f)) (s : SSAState α) (p : Step) :
    stepSSA merge' (mapS f s) p = (stepSSA merge s p).map (mapS f) := by
  unfold stepSSA
  split
  · rfl
  · simp only [mapS]
    rw [popIds_map]
    cases popIds s.nodes p with
    | none => simp
    | some r => simp [mapS, mapD, hm]

theorem runSSA_map {α β} (f : α → β) (merge : List α → α) (merge' : List β → β)
    (hm : ∀ xs, f (merge xs) = merge' (xs.map f)) (s : SSAState α) (path : Path) :
    runSSA merge' (mapS f s) path = (runSSA merge s path).map (mapS f) := by
  induction path generalizing s with
  | nil => simp [runSSA]
  | cons p rest ih =>
    simp only [runSSA]
    rw [stepSSA_map f merge merge' hm]
    cases h : stepSSA merge s p with
    | none => simp
    | some s' => simp [ih]

theorem stepSSA_flatten {s s' : SSAState (List Nat)} {p : Step}
    (h : stepSSA List.flatten s p = some s') : (vals s'.nodes).flatten.Perm (vals s.nodes).flatten := by
  unfold stepSSA at h
  split at h
  · cases h
  · cases hp : popIds s.nodes p with
    | none => rw [hp] at h; cases h
    | some r =>
      obtain ⟨xs, d⟩ := r
      rw [hp] at h
      cases h
      simp only [vals, List.map_append, List.map_cons, List.map_nil, List.flatten_append,
        List.flatten_cons, List.flatten_nil, List.append_nil]
      have := (popIds_perm hp).flatten
      rw [List.flatten_append] at this
      exact List.perm_append_comm.trans this

theorem runSSA_flatten {s s' : SSAState (List Nat)} {path : Path}
    (h : runSSA List.flatten s path = some s') :
    (vals s'.nodes).flatten.Perm (vals s.nodes).flatten := by
  induction path generalizing s with
  | nil => simp [runSSA] at h; subst h; exact List.Perm.refl _
  | cons p rest ih =>
    simp only [runSSA] at h
    cases hs : stepSSA List.flatten s p with
    | none => rw [hs] at h; cases h
    | some s1 =>
      rw [hs] at h
      exact (ih h).trans (stepSSA_flatten hs)

theorem initSSA_vals_flatten (N : Nat) :
    (vals (initSSA N fun i => [i]).nodes).flatten = List.range N := by
  unfold initSSA vals
  simp only [List.map_map]
  have : ((fun x : Nat × List Nat => x.2) ∘ fun i => (i, [i])) = fun i => [i] := rfl
  rw [this]
  exact leafItems_flatten N

theorem initSSA_unit (N : Nat) :
    mapS (fun _ => ()) (initSSA N fun i => [i]) = initSSA N fun _ => () := by
  unfold mapS initSSA mapD
  simp [List.map_map, Function.comp_def]

/-! ## tree maps -/

theorem TreeMap.get?_mem {m : TreeMap} {x l r : Node} (h : m.get? x = some (l, r)) :
    (x, l, r) ∈ m := by
  induction m with
  | nil => simp [TreeMap.get?] at h
  | cons e t ih =>
    obtain ⟨p, l', r'⟩ := e
    unfold TreeMap.get? at h
    by_cases hp : p = x
    · rw [if_pos hp] at h; cases h; subst hp; exact List.mem_cons_self
    · rw [if_neg hp] at h; exact List.mem_cons_of_mem _ (ih h)

/-- every internal node of the tree is an entry of the `children` dict, with the entry's two
    children holding exactly the inputs of the two subtrees -/
def Licensed (m : TreeMap) : BT → Prop
  | .leaf _ => True
  | .node l r => (∃ x lx rx, (x, lx, rx) ∈ m ∧ lx.Perm l.leaves ∧ rx.Perm r.leaves ∧
      x.Perm (l.leaves ++ r.leaves)) ∧ Licensed m l ∧ Licensed m r

theorem toBT?_sound (m : TreeMap) (fuel : Nat) (x : Node) (t : BT)
    (h : toBT? m fuel x = some t) : t.leaves.Perm x ∧ Licensed m t := by
  induction fuel generalizing x t with
  | zero => simp [toBT?] at h
  | succ fuel ih =>
    unfold toBT? at h
    split at h
    · cases h; exact ⟨List.Perm.refl _, trivial⟩
    · cases hg : m.get? x with
      | none => rw [hg] at h; cases h
      | some lr =>
        obtain ⟨l, r⟩ := lr
        rw [hg] at h
        simp only at h
        split at h
        · cases h
        · rename_i hc
          simp only [Bool.or_eq_true, Bool.not_eq_true', not_or, Bool.not_eq_true] at hc
          have hperm : (l ++ r).Perm x := List.isPerm_iff.1 (by simpa using hc.2)
          cases hl : toBT? m fuel l with
          | none => rw [hl] at h; cases h
          | some tl =>
            cases hr : toBT? m fuel r with
            | none => rw [hl, hr] at h; cases h
            | some tr =>
              rw [hl, hr] at h
              cases h
              have h1 := ih l tl hl
              have h2 := ih r tr hr
              refine ⟨(h1.1.append h2.1).trans hperm, ⟨x, l, r, TreeMap.get?_mem hg, h1.1.symm,
                h2.1.symm, hperm.symm.trans (h1.1.append h2.1).symm⟩, h1.2, h2.2⟩

end Path
end Cotengra
