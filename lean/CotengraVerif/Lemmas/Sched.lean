import CotengraVerif.Lemmas.SoundRun
import CotengraVerif.Model.Recipes

/-!
  Children-first traversals and the behaviour of `pop?` on states that are known only up to
  permutation (preprocessing re-inserts entries at the front, so positions carry no meaning).

  `Sched av order fin`: starting from the available nodes `av`, every node of `order` finds both
  its children among the available nodes; they are replaced by the node; `fin` is what is
  available at the end (as a multiset).  `ChildrenFirst t order`: `order` lists the internal
  nodes of `t`, and scheduling it from the leaves leaves exactly the root.
-/
namespace Cotengra

inductive Sched : List BT → List BT → List BT → Prop
  | nil {av fin : List BT} (h : av.Perm fin) : Sched av [] fin
  | step {av av0 rest fin : List BT} {l r : BT} (h : av.Perm (l :: r :: av0))
      (hs : Sched (.node l r :: av0) rest fin) : Sched av (.node l r :: rest) fin

theorem Sched.perm {av av' order fin : List BT} (hp : av'.Perm av) (h : Sched av order fin) :
    Sched av' order fin := by
  cases h with
  | nil h => exact Sched.nil (hp.trans h)
  | step h hs => exact Sched.step (hp.trans h) hs

theorem Sched.append {a b c o1 o2 : List BT} (s1 : Sched a o1 b) (s2 : Sched b o2 c) :
    Sched a (o1 ++ o2) c := by
  induction s1 with
  | nil h => exact Sched.perm h s2
  | step h _ ih => exact Sched.step h (ih s2)

/-- `order` is a traversal of the internal nodes of `t` that visits children before parents:
    it lists exactly the internal nodes, each node finds both children available (a leaf, or
    a node scheduled earlier and not yet consumed), and only the root is left at the end. -/
def ChildrenFirst (t : BT) (order : List BT) : Prop :=
  order.Perm t.internal ∧ Sched (t.leaves.map BT.leaf) order [t]

theorem sched_internal (t : BT) (av : List BT) :
    Sched (t.leaves.map BT.leaf ++ av) t.internal (t :: av) := by
  induction t generalizing av with
  | leaf i => exact Sched.nil (List.Perm.refl _)
  | node l r ihl ihr =>
    simp only [BT.leaves, BT.internal, List.map_append, List.append_assoc]
    have h1 := ihl (r.leaves.map BT.leaf ++ av)
    have h2 : Sched (l :: (r.leaves.map BT.leaf ++ av)) r.internal (r :: l :: av) :=
      Sched.perm List.perm_middle.symm (ihr (l :: av))
    have h3 : Sched (r :: l :: av) [BT.node l r] (BT.node l r :: av) :=
      Sched.step (List.Perm.swap l r av) (Sched.nil (List.Perm.refl _))
    exact h1.append (h2.append h3)

/-- the depth-first order of the model (`BT.internal`) is children-first: non-vacuity of
    `ChildrenFirst` for every tree -/
theorem childrenFirst_internal (t : BT) : ChildrenFirst t t.internal := by
  refine ⟨List.Perm.refl _, ?_⟩
  have := sched_internal t []
  simpa using this

/-! ### `pop?` on a state known up to permutation -/

theorem pop?_isSome {α : Type} (key : List Nat) (st : List (List Nat × α))
    (h : ∃ e ∈ st, sameSet e.1 key = true) : ∃ e st', pop? key st = some (e, st') := by
  induction st with
  | nil => obtain ⟨e, he, _⟩ := h; cases he
  | cons x xs ih =>
    obtain ⟨k, v⟩ := x
    unfold pop?
    by_cases hs : sameSet k key = true
    · simp [hs]
    · simp only [hs]
      obtain ⟨e, he, hse⟩ := h
      rcases List.mem_cons.1 he with rfl | he
      · exact absurd hse hs
      · obtain ⟨e', st', hp⟩ := ih ⟨e, he, hse⟩
        simp [hp]

/-- if the state is, up to order, `e :: rest` and `e` is the only entry whose key matches, then
    popping yields `e` and, up to order, `rest` -/
theorem pop?_of_perm {α : Type} (key : List Nat) (st : List (List Nat × α)) (e : List Nat × α)
    (rest : List (List Nat × α)) (hp : st.Perm (e :: rest)) (hs : sameSet e.1 key = true)
    (huniq : ∀ e' ∈ st, sameSet e'.1 key = true → e' = e) :
    ∃ st', pop? key st = some (e, st') ∧ st'.Perm rest := by
  have hmem : e ∈ st := hp.mem_iff.2 List.mem_cons_self
  obtain ⟨e', st', hpop⟩ := pop?_isSome key st ⟨e, hmem, hs⟩
  have hperm := pop?_perm key st e' st' hpop
  have he' : e' ∈ st := hperm.mem_iff.2 List.mem_cons_self
  have : e' = e := huniq e' he' (pop?_sameSet key st e' st' hpop)
  subst this
  exact ⟨st', hpop, (hperm.symm.trans hp).cons_inv⟩

/-! ### nodes with pairwise disjoint leaves -/

theorem BT.leaves_ne_nil (s : BT) : s.leaves ≠ [] := by
  induction s with
  | leaf i => simp [BT.leaves]
  | node l r ihl _ => simp [BT.leaves, ihl]

/-- among nodes with pairwise disjoint leaf lists, the leaf set determines the node -/
theorem eq_of_sameSet_leaves (av : List BT) (hnd : (av.flatMap BT.leaves).Nodup) (s s' : BT)
    (hs : s ∈ av) (hs' : s' ∈ av) (h : sameSet s'.leaves s.leaves = true) : s' = s := by
  induction av with
  | nil => cases hs
  | cons a av ih =>
    simp only [List.flatMap_cons] at hnd
    obtain ⟨_, hnd2, hdis⟩ := List.nodup_append.1 hnd
    have hx : ∃ x, x ∈ s.leaves := by
      cases hl : s.leaves with
      | nil => exact absurd hl (BT.leaves_ne_nil s)
      | cons x _ => exact ⟨x, by simp⟩
    obtain ⟨x, hx⟩ := hx
    have hx' : x ∈ s'.leaves := ((sameSet_iff _ _).1 h x).2 hx
    rcases List.mem_cons.1 hs with rfl | hs1 <;> rcases List.mem_cons.1 hs' with rfl | hs1'
    · rfl
    · exact absurd rfl (hdis x hx x (List.mem_flatMap.2 ⟨s', hs1', hx'⟩))
    · exact absurd rfl (hdis x hx' x (List.mem_flatMap.2 ⟨s, hs1, hx⟩))
    · exact ih hnd2 hs1 hs1'

end Cotengra
