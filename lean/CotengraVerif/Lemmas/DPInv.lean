import CotengraVerif.Lemmas.DPSpec

/-!
  C09, invariant level: soundness and completeness-under-cap of the table updates
  (`tryPair`, `processK`, `processM`, `sweep`) and the cap-doubling `loop`.
-/
namespace Cotengra
namespace C09
open Cotengra Cotengra.Net Cotengra.Legs Cotengra.DP

/-! ## generic fold lemmas -/

theorem foldl_inv {α β : Type _} (f : β → α → β) (P : β → Prop) (l : List α) (b : β) (h0 : P b)
    (hstep : ∀ b x, x ∈ l → P b → P (f b x)) : P (l.foldl f b) := by
  induction l generalizing b with
  | nil => exact h0
  | cons a t ih =>
    rw [List.foldl_cons]
    apply ih
    · exact hstep b a List.mem_cons_self h0
    · exact fun b x hx hb => hstep b x (List.mem_cons_of_mem _ hx) hb

/-- a property established by the step at `x` and kept by every other step holds at the end -/
theorem foldl_reach {α β : Type _} (f : β → α → β) (P : β → Prop) (l : List α) (b : β) (x : α)
    (hx : x ∈ l) (hat : ∀ b, P (f b x)) (hmono : ∀ b y, P b → P (f b y)) : P (l.foldl f b) := by
  induction l generalizing b with
  | nil => cases hx
  | cons a t ih =>
    rw [List.foldl_cons]
    rcases List.mem_cons.1 hx with e | e
    · subst e
      exact foldl_inv f P t _ (hat b) (fun b y _ hb => hmono b y hb)
    · exact ih _ e

theorem foldl_range'_inv {β : Type _} (f : β → Nat → β) (P : Nat → β → Prop) (j : Nat) :
    ∀ (s : Nat) (b : β), P s b →
      (∀ m b, s ≤ m → m < s + j → P m b → P (m + 1) (f b m)) →
      P (s + j) ((List.range' s j).foldl f b) := by
  induction j with
  | zero => intro s b h0 _; simpa using h0
  | succ j ih =>
    intro s b h0 hstep
    rw [List.range'_succ, List.foldl_cons]
    have := ih (s + 1) (f b s) (hstep s b (Nat.le_refl _) (by omega) h0)
      (fun m b h1 h2 hp => hstep m b (by omega) (by omega) hp)
    have e : s + 1 + j = s + (j + 1) := by omega
    rw [e] at this
    exact this

/-! ## invariants -/

section
variable (g : Net) (obj : Objective) (outer : Bool)

/-- a table entry is what it claims to be -/
structure EntryOK (k : Nat) (e : Entry) : Prop where
  valid : Valid g e.tree
  key : k = maskOf e.tree.leaves
  legs : LegsSpec g e.tree e.legs
  score : e.score = treeCost g obj e.tree
  adm : Adm g outer e.tree

/-- every entry of `contractions[m]` is sound, describes `m` tensors; keys are distinct -/
def TableOK (m : Nat) (T : Table) : Prop :=
  (Table.keys T).Nodup ∧ ∀ x ∈ T, EntryOK g obj outer x.1 x.2 ∧ x.2.tree.leaves.length = m

/-- the dict holds, under key `S`, an entry of score at most `x` -/
def Has (T : Table) (S x : Nat) : Prop := ∃ e, (S, e) ∈ T ∧ e.score ≤ x

def ScoresLe (C : Nat) (T : Table) : Prop := ∀ y ∈ T, y.2.score ≤ C

theorem Has.weaken {T : Table} {S x x' : Nat} (h : Has T S x) (hx : x ≤ x') : Has T S x' := by
  obtain ⟨e, he, hs⟩ := h
  exact ⟨e, he, Nat.le_trans hs hx⟩

/-- the candidate entry built from a pair -/
def cand (a b : Nat × Entry) : Entry :=
  ⟨(conCost g obj (mergeLegs a.2.legs b.2.legs).1 a.2.score b.2.score).1,
   (conCost g obj (mergeLegs a.2.legs b.2.legs).1 a.2.score b.2.score).2,
   .node a.2.tree b.2.tree⟩

/-- the pair gets through the three filters (overlap, outer product, sieve) -/
def Passes (cap : Nat) (a b : Nat × Entry) : Prop :=
  a.1 &&& b.1 = 0 ∧ (outer = true ∨ (mergeLegs a.2.legs b.2.legs).2 = true) ∧
    (cand g obj a b).score ≤ cap

theorem tryPair_cases (cap : Nat) (tm : Table) (a b : Nat × Entry) :
    tryPair g obj outer cap tm a b = tm ∨
    (Passes g obj outer cap a b ∧
      tryPair g obj outer cap tm a b = tm.upsert (a.1 ||| b.1) (cand g obj a b) ∧
      ∀ cur, tm.get? (a.1 ||| b.1) = some cur → (cand g obj a b).score < cur.score) := by
  unfold tryPair
  by_cases h0 : a.1 &&& b.1 ≠ 0
  · left; rw [if_pos h0]
  · rw [if_neg h0]
    have h0' : a.1 &&& b.1 = 0 := by simpa using h0
    simp only
    by_cases h1 : (!outer && !(mergeLegs a.2.legs b.2.legs).2) = true
    · left; rw [if_pos h1]
    · rw [if_neg h1]
      have h1' : outer = true ∨ (mergeLegs a.2.legs b.2.legs).2 = true := by
        cases ho : outer <;> cases hs : (mergeLegs a.2.legs b.2.legs).2 <;> simp [ho, hs] at h1 ⊢
      by_cases h2 : (conCost g obj (mergeLegs a.2.legs b.2.legs).1 a.2.score b.2.score).2 > cap
      · left; rw [if_pos h2]
      · rw [if_neg h2]
        have hp : Passes g obj outer cap a b := ⟨h0', h1', Nat.not_lt.1 h2⟩
        cases hg : tm.get? (a.1 ||| b.1) with
        | none =>
          right
          exact ⟨hp, rfl, fun cur hc => by cases hc⟩
        | some cur =>
          simp only
          by_cases h3 :
              (conCost g obj (mergeLegs a.2.legs b.2.legs).1 a.2.score b.2.score).2 < cur.score
          · right
            rw [if_pos h3]
            exact ⟨hp, rfl, fun c hc => by cases hc; exact h3⟩
          · left; rw [if_neg h3]

theorem tryPair_progress (cap : Nat) (tm : Table) (a b : Nat × Entry)
    (hp : Passes g obj outer cap a b) :
    Has (tryPair g obj outer cap tm a b) (a.1 ||| b.1) (cand g obj a b).score := by
  obtain ⟨h0, h1, h2⟩ := hp
  unfold tryPair
  rw [if_neg (by simpa using h0)]
  simp only
  have h1' : ¬ ((!outer && !(mergeLegs a.2.legs b.2.legs).2) = true) := by
    rcases h1 with h | h <;> simp [h]
  rw [if_neg h1']
  have h2' : ¬ (conCost g obj (mergeLegs a.2.legs b.2.legs).1 a.2.score b.2.score).2 > cap :=
    Nat.not_lt.2 h2
  rw [if_neg h2']
  cases hg : tm.get? (a.1 ||| b.1) with
  | none => exact ⟨_, Table.mem_upsert_self _ _ _, Nat.le_refl _⟩
  | some cur =>
    simp only
    by_cases h3 : (conCost g obj (mergeLegs a.2.legs b.2.legs).1 a.2.score b.2.score).2 < cur.score
    · rw [if_pos h3]; exact ⟨_, Table.mem_upsert_self _ _ _, Nat.le_refl _⟩
    · rw [if_neg h3]
      exact ⟨cur, Table.get?_some_mem hg, Nat.not_lt.1 h3⟩

theorem tryPair_mono (cap : Nat) (tm : Table) (a b : Nat × Entry) (S x : Nat) (h : Has tm S x) :
    Has (tryPair g obj outer cap tm a b) S x := by
  rcases tryPair_cases g obj outer cap tm a b with e | ⟨_, e, hlt⟩
  · rw [e]; exact h
  · rw [e]
    obtain ⟨en, hen, hs⟩ := h
    rcases Table.mem_upsert_of_mem (k := a.1 ||| b.1) (e := cand g obj a b) hen with h1 | ⟨h1, h2⟩
    · exact ⟨en, h1, hs⟩
    · simp only at h1 h2
      subst h1
      exact ⟨_, Table.mem_upsert_self _ _ _, Nat.le_trans (Nat.le_of_lt (hlt en h2)) hs⟩

theorem tryPair_scores (cap : Nat) (tm : Table) (a b : Nat × Entry) (h : ScoresLe cap tm) :
    ScoresLe cap (tryPair g obj outer cap tm a b) := by
  rcases tryPair_cases g obj outer cap tm a b with e | ⟨hp, e, _⟩
  · rw [e]; exact h
  · rw [e]
    intro y hy
    rcases Table.mem_upsert hy with e1 | e1
    · subst e1; exact hp.2.2
    · exact h y e1

theorem adm_node {l r : BT} (h : Adm g outer (.node l r)) : Adm g outer l ∧ Adm g outer r := by
  rcases h with h | h
  · exact ⟨Or.inl h, Or.inl h⟩
  · exact ⟨Or.inr h.1, Or.inr h.2.1⟩

theorem adm_swap {l r : BT} (h : Adm g outer (.node l r)) : Adm g outer (.node r l) := by
  rcases h with h | h
  · exact Or.inl h
  · obtain ⟨h1, h2, ix, h3, h4⟩ := h
    exact Or.inr ⟨h2, h1, ix, h4, h3⟩

/-- soundness of one table update -/
theorem tryPair_ok (cap m : Nat) (tm : Table) (a b : Nat × Entry)
    (htm : TableOK g obj outer m tm) (ha : EntryOK g obj outer a.1 a.2)
    (hb : EntryOK g obj outer b.1 b.2)
    (hlen : a.2.tree.leaves.length + b.2.tree.leaves.length = m) :
    TableOK g obj outer m (tryPair g obj outer cap tm a b) := by
  rcases tryPair_cases g obj outer cap tm a b with e | ⟨hp, e, _⟩
  · rw [e]; exact htm
  · rw [e]
    refine ⟨Table.keys_nodup_upsert _ _ htm.1, ?_⟩
    intro y hy
    rcases Table.mem_upsert hy with e1 | e1
    · subst e1
      have hdisj : ∀ i ∈ a.2.tree.leaves, i ∉ b.2.tree.leaves := by
        have := hp.1
        rw [ha.key, hb.key] at this
        exact (mask_and_eq_zero_iff _ _).1 this
      have hv : Valid g (.node a.2.tree b.2.tree) := by
        refine ⟨?_, ?_⟩
        · simp only [BT.leaves]
          refine List.nodup_append.2 ⟨ha.valid.nodup, hb.valid.nodup, ?_⟩
          intro x hx y hy hxy
          subst hxy
          exact hdisj x hx hy
        · intro i hi
          simp only [BT.leaves, List.mem_append] at hi
          rcases hi with hi | hi
          · exact ha.valid.bound i hi
          · exact hb.valid.bound i hi
      have hspec := conCost_spec g obj a.2.score b.2.score hv ha.legs hb.legs
      refine ⟨⟨hv, ?_, hspec.1, ?_, ?_⟩, ?_⟩
      · show a.1 ||| b.1 = maskOf (a.2.tree.leaves ++ b.2.tree.leaves)
        rw [maskOf_append, ← ha.key, ← hb.key]
      · show (conCost g obj (mergeLegs a.2.legs b.2.legs).1 a.2.score b.2.score).2 = _
        rw [hspec.2, ha.score, hb.score]
        rfl
      · show Adm g outer (.node a.2.tree b.2.tree)
        cases ho : outer with
        | true => exact Or.inl rfl
        | false =>
          have hsh : (mergeLegs a.2.legs b.2.legs).2 = true := by
            rcases hp.2.1 with h | h
            · rw [ho] at h; cases h
            · exact h
          have hoa : OPF g a.2.tree := by
            rcases ha.adm with h | h
            · rw [ho] at h; cases h
            · exact h
          have hob : OPF g b.2.tree := by
            rcases hb.adm with h | h
            · rw [ho] at h; cases h
            · exact h
          exact Or.inr ⟨hoa, hob, (shared_spec g ha.legs hb.legs).1 hsh⟩
      · show (a.2.tree.leaves ++ b.2.tree.leaves).length = m
        rw [List.length_append]; exact hlen
    · exact htm.2 y e1

theorem perm_of_mask_eq {a b : List Nat} (ha : a.Nodup) (hb : b.Nodup) (h : maskOf a = maskOf b) :
    a.Perm b :=
  (List.perm_ext_iff_of_nodup ha hb).2 ((maskOf_eq_iff a b).1 h)

/-- completeness of one table update: a pair of entries matching the two halves of an admissible
    tree under the cap leaves an entry for the whole tree that is at least as good -/
theorem cover_pair (cap : Nat) {l r : BT} (hv : Valid g (.node l r))
    (hadm : Adm g outer (.node l r)) (hC : treeCost g obj (.node l r) ≤ cap)
    {x y : Nat × Entry} (hx : EntryOK g obj outer x.1 x.2) (hy : EntryOK g obj outer y.1 y.2)
    (hxk : x.1 = maskOf l.leaves) (hyk : y.1 = maskOf r.leaves)
    (hxs : x.2.score ≤ treeCost g obj l) (hys : y.2.score ≤ treeCost g obj r) (tm : Table) :
    Has (tryPair g obj outer cap tm x y) (maskOf (BT.node l r).leaves)
      (treeCost g obj (.node l r)) := by
  have hpl : x.2.tree.leaves.Perm l.leaves :=
    perm_of_mask_eq hx.valid.nodup hv.left.nodup (hx.key ▸ hxk)
  have hpr : y.2.tree.leaves.Perm r.leaves :=
    perm_of_mask_eq hy.valid.nodup hv.right.nodup (hy.key ▸ hyk)
  have hcl := fun ix => cnt_perm g hpl ix
  have hcr := fun ix => cnt_perm g hpr ix
  have hv' : Valid g (.node x.2.tree y.2.tree) := by
    refine ⟨?_, ?_⟩
    · simp only [BT.leaves]
      exact ((hpl.append hpr).nodup_iff).2 hv.nodup
    · intro i hi
      simp only [BT.leaves, List.mem_append] at hi
      rcases hi with hi | hi
      · exact hx.valid.bound i hi
      · exact hy.valid.bound i hi
  have hspec := conCost_spec g obj x.2.score y.2.score hv' hx.legs hy.legs
  have hscore : (cand g obj x y).score ≤ treeCost g obj (.node l r) := by
    show (conCost g obj (mergeLegs x.2.legs y.2.legs).1 x.2.score y.2.score).2 ≤ _
    rw [hspec.2, stepFlops_congr g hcl hcr, stepSize_congr g hcl hcr]
    exact combine_mono obj hxs hys _ _
  have hpass : Passes g obj outer cap x y := by
    refine ⟨?_, ?_, Nat.le_trans hscore hC⟩
    · rw [hxk, hyk, mask_and_eq_zero_iff]
      intro i hi hi'
      have := (List.nodup_append.1 hv.nodup).2.2 i hi i hi'
      exact this rfl
    · rcases hadm with h | h
      · exact Or.inl h
      · right
        obtain ⟨_, _, ix, h1, h2⟩ := h
        exact (shared_spec g hx.legs hy.legs).2
          ⟨ix, (surv_congr g hcl ix).2 h1, (surv_congr g hcr ix).2 h2⟩
  have := (tryPair_progress g obj outer cap tm x y hpass).weaken hscore
  have hk : x.1 ||| y.1 = maskOf (BT.node l r).leaves := by
    simp only [BT.leaves]
    rw [maskOf_append, hxk, hyk]
  rw [hk] at this
  exact this

theorem cover_pair_swapped (cap : Nat) {l r : BT} (hv : Valid g (.node l r))
    (hadm : Adm g outer (.node l r)) (hC : treeCost g obj (.node l r) ≤ cap)
    {x y : Nat × Entry} (hx : EntryOK g obj outer x.1 x.2) (hy : EntryOK g obj outer y.1 y.2)
    (hxk : x.1 = maskOf l.leaves) (hyk : y.1 = maskOf r.leaves)
    (hxs : x.2.score ≤ treeCost g obj l) (hys : y.2.score ≤ treeCost g obj r) (tm : Table) :
    Has (tryPair g obj outer cap tm y x) (maskOf (BT.node l r).leaves)
      (treeCost g obj (.node l r)) := by
  have := cover_pair g obj outer cap hv.swap (adm_swap g outer hadm)
    (by rw [treeCost_swap]; exact hC) hy hx hyk hxk hys hxs tm
  rw [treeCost_swap] at this
  have hk : maskOf (BT.node r l).leaves = maskOf (BT.node l r).leaves := by
    simp only [BT.leaves]; exact maskOf_append_comm _ _
  rw [hk] at this
  exact this

/-! ## `processK`, `processM` -/

theorem mem_ps {tabs : List Table} {m k : Nat} {p : (Nat × Entry) × (Nat × Entry)}
    (hp : p ∈ (if k ≠ m - k then product (tab tabs k) (tab tabs (m - k))
               else pairs2 (tab tabs k))) :
    p.1 ∈ tab tabs k ∧ p.2 ∈ tab tabs (m - k) := by
  by_cases h : k ≠ m - k
  · rw [if_pos h] at hp
    have : (p.1, p.2) ∈ product (tab tabs k) (tab tabs (m - k)) := hp
    exact mem_product.1 this
  · rw [if_neg h] at hp
    have hk : k = m - k := by simpa using h
    have := mem_pairs2_mem hp
    rw [← hk]
    exact this

theorem processK_inv (cap : Nat) (tabs : List Table) (m k : Nat) (tm : Table)
    (P : Table → Prop) (h0 : P tm)
    (hstep : ∀ tm a b, a ∈ tab tabs k → b ∈ tab tabs (m - k) → P tm →
      P (tryPair g obj outer cap tm a b)) :
    P (processK g obj outer cap tabs m tm k) := by
  unfold processK
  exact foldl_inv _ P _ tm h0 (fun tm p hp hP => hstep tm p.1 p.2 (mem_ps hp).1 (mem_ps hp).2 hP)

theorem processK_mono (cap : Nat) (tabs : List Table) (m k : Nat) (tm : Table) (S x : Nat)
    (h : Has tm S x) : Has (processK g obj outer cap tabs m tm k) S x :=
  processK_inv g obj outer cap tabs m k tm (fun T => Has T S x) h
    (fun tm a b _ _ hP => tryPair_mono g obj outer cap tm a b S x hP)

theorem processK_scores (cap : Nat) (tabs : List Table) (m k : Nat) (tm : Table)
    (h : ScoresLe cap tm) : ScoresLe cap (processK g obj outer cap tabs m tm k) :=
  processK_inv g obj outer cap tabs m k tm (ScoresLe cap) h
    (fun tm a b _ _ hP => tryPair_scores g obj outer cap tm a b hP)

theorem processK_ok (cap : Nat) (tabs : List Table) (m k : Nat) (tm : Table)
    (hok : ∀ j, TableOK g obj outer j (tab tabs j)) (hkm : k ≤ m)
    (htm : TableOK g obj outer m tm) :
    TableOK g obj outer m (processK g obj outer cap tabs m tm k) :=
  processK_inv g obj outer cap tabs m k tm (TableOK g obj outer m) htm
    (fun tm a b ha hb hP => by
      have h1 := (hok k).2 a ha
      have h2 := (hok (m - k)).2 b hb
      exact tryPair_ok g obj outer cap m tm a b hP h1.1 h2.1 (by rw [h1.2, h2.2]; omega))

theorem tab_set (tabs : List Table) (m : Nat) (T : Table) (j : Nat) :
    tab (tabs.set m T) j = if m = j ∧ m < tabs.length then T else tab tabs j := by
  unfold tab
  rw [List.getD_eq_getElem?_getD, List.getD_eq_getElem?_getD, List.getElem?_set]
  by_cases h : m = j
  · subst h
    by_cases h2 : m < tabs.length
    · simp [h2]
    · simp [h2]
  · simp [h]

theorem processM_tab_ne (cap : Nat) (tabs : List Table) (m j : Nat) (h : m ≠ j) :
    tab (processM g obj outer cap tabs m) j = tab tabs j := by
  unfold processM
  rw [tab_set, if_neg (fun hh => h hh.1)]

theorem processM_tab_eq (cap : Nat) (tabs : List Table) (m : Nat) (h : m < tabs.length) :
    tab (processM g obj outer cap tabs m) m =
      (List.range' 1 (m / 2)).foldl (processK g obj outer cap tabs m) (tab tabs m) := by
  unfold processM
  rw [tab_set, if_pos ⟨rfl, h⟩]

theorem processM_length (cap : Nat) (tabs : List Table) (m : Nat) :
    (processM g obj outer cap tabs m).length = tabs.length := by
  unfold processM; simp

/-- tables of all sizes are sound, there are `n + 1` of them -/
def TabsOK (n : Nat) (tabs : List Table) : Prop :=
  tabs.length = n + 1 ∧ ∀ m, TableOK g obj outer m (tab tabs m)

theorem processM_ok (cap n : Nat) (tabs : List Table) (m : Nat)
    (hok : TabsOK g obj outer n tabs) : TabsOK g obj outer n (processM g obj outer cap tabs m) := by
  refine ⟨by rw [processM_length]; exact hok.1, ?_⟩
  intro j
  by_cases h : m = j ∧ m < tabs.length
  · obtain ⟨rfl, hlt⟩ := h
    rw [processM_tab_eq g obj outer cap tabs m hlt]
    apply foldl_inv _ (TableOK g obj outer m) _ _ (hok.2 m)
    intro tm k hk htm
    have := List.mem_range'_1.1 hk
    exact processK_ok g obj outer cap tabs m k tm hok.2
      (by have := Nat.div_le_self m 2; omega) htm
  · unfold processM
    rw [tab_set, if_neg h]
    exact hok.2 j

/-- after the sweep with cap `C`, every admissible tree on `m` tensors costing at most `C` is
    matched or beaten by the entry of its leaf set -/
def Covers (C : Nat) (tabs : List Table) (m : Nat) : Prop :=
  ∀ t, Valid g t → Adm g outer t → t.leaves.length = m → treeCost g obj t ≤ C →
    Has (tab tabs m) (maskOf t.leaves) (treeCost g obj t)

theorem mask_ne_of_disjoint {a b : List Nat} (ha : a ≠ []) (h : ∀ i ∈ a, i ∉ b) :
    maskOf a ≠ maskOf b := by
  intro e
  obtain ⟨x, hx⟩ := List.exists_mem_of_ne_nil a ha
  exact h x hx (((maskOf_eq_iff a b).1 e x).1 hx)

theorem processM_covers (cap n : Nat) (tabs : List Table) (m : Nat)
    (hok : TabsOK g obj outer n tabs) (hm : 2 ≤ m) (hmn : m ≤ n)
    (hcov : ∀ k, 1 ≤ k → k < m → Covers g obj outer cap tabs k) :
    Covers g obj outer cap (processM g obj outer cap tabs m) m := by
  intro t hv hadm hlen hC
  rw [processM_tab_eq g obj outer cap tabs m (by rw [hok.1]; omega)]
  cases t with
  | leaf i => simp [BT.leaves] at hlen; omega
  | node l r =>
    have hla := leaves_length_pos l
    have hlb := leaves_length_pos r
    have hsum : l.leaves.length + r.leaves.length = m := by
      simpa [BT.leaves, List.length_append] using hlen
    have hadm2 := adm_node g outer hadm
    obtain ⟨el, hel, hels⟩ := hcov l.leaves.length hla (by omega) l hv.left hadm2.1 rfl
      (Nat.le_trans (treeCost_left_le g obj l r) hC)
    obtain ⟨er, her, hers⟩ := hcov r.leaves.length hlb (by omega) r hv.right hadm2.2 rfl
      (Nat.le_trans (treeCost_right_le g obj l r) hC)
    have hokl := ((hok.2 _).2 _ hel).1
    have hokr := ((hok.2 _).2 _ her).1
    have hdisj : ∀ i ∈ l.leaves, i ∉ r.leaves := fun i hi hi' =>
      (List.nodup_append.1 hv.nodup).2.2 i hi i hi' rfl
    -- the value of `k` and the orientation in which the pair is enumerated
    have key : ∃ k, k ∈ List.range' 1 (m / 2) ∧
        ∀ tm, Has (processK g obj outer cap tabs m tm k) (maskOf (BT.node l r).leaves)
          (treeCost g obj (.node l r)) := by
      rcases Nat.lt_trichotomy l.leaves.length r.leaves.length with hlt | heq | hgt
      · refine ⟨l.leaves.length, List.mem_range'_1.2 ⟨hla, by omega⟩, ?_⟩
        intro tm
        unfold processK
        have hne : l.leaves.length ≠ m - l.leaves.length := by omega
        rw [if_pos hne]
        have hmk : m - l.leaves.length = r.leaves.length := by omega
        rw [hmk]
        refine foldl_reach _ (fun T => Has T _ _) _ tm
          ((maskOf l.leaves, el), (maskOf r.leaves, er)) (mem_product.2 ⟨hel, her⟩) ?_ ?_
        · intro tm'
          exact cover_pair g obj outer cap hv hadm hC hokl hokr rfl rfl hels hers tm'
        · intro tm' p hP
          exact tryPair_mono g obj outer cap tm' p.1 p.2 _ _ hP
      · refine ⟨l.leaves.length, List.mem_range'_1.2 ⟨hla, by omega⟩, ?_⟩
        intro tm
        unfold processK
        have hne : ¬ l.leaves.length ≠ m - l.leaves.length := by omega
        rw [if_neg hne]
        have hne2 : ((maskOf l.leaves, el) : Nat × Entry) ≠ (maskOf r.leaves, er) := by
          intro e
          exact mask_ne_of_disjoint (leaves_ne_nil l) hdisj (congrArg Prod.fst e)
        have her' : (maskOf r.leaves, er) ∈ tab tabs l.leaves.length := by rw [heq]; exact her
        rcases pairs2_covers hel her' hne2 with hp | hp
        · refine foldl_reach _ (fun T => Has T _ _) _ tm _ hp ?_ ?_
          · intro tm'
            exact cover_pair g obj outer cap hv hadm hC hokl hokr rfl rfl hels hers tm'
          · intro tm' p hP
            exact tryPair_mono g obj outer cap tm' p.1 p.2 _ _ hP
        · refine foldl_reach _ (fun T => Has T _ _) _ tm _ hp ?_ ?_
          · intro tm'
            exact cover_pair_swapped g obj outer cap hv hadm hC hokl hokr rfl rfl hels hers tm'
          · intro tm' p hP
            exact tryPair_mono g obj outer cap tm' p.1 p.2 _ _ hP
      · refine ⟨r.leaves.length, List.mem_range'_1.2 ⟨hlb, by omega⟩, ?_⟩
        intro tm
        unfold processK
        have hne : r.leaves.length ≠ m - r.leaves.length := by omega
        rw [if_pos hne]
        have hmk : m - r.leaves.length = l.leaves.length := by omega
        rw [hmk]
        refine foldl_reach _ (fun T => Has T _ _) _ tm
          ((maskOf r.leaves, er), (maskOf l.leaves, el)) (mem_product.2 ⟨her, hel⟩) ?_ ?_
        · intro tm'
          exact cover_pair_swapped g obj outer cap hv hadm hC hokl hokr rfl rfl hels hers tm'
        · intro tm' p hP
          exact tryPair_mono g obj outer cap tm' p.1 p.2 _ _ hP
    obtain ⟨k, hk, hat⟩ := key
    exact foldl_reach _ (fun T => Has T _ _) _ _ k hk hat
      (fun tm' k' hP => processK_mono g obj outer cap tabs m k' tm' _ _ hP)

/-! ## `sweep` -/

/-- the singletons are in `contractions[1]` with score 0 -/
def Base (n : Nat) (tabs : List Table) : Prop := ∀ i < n, Has (tab tabs 1) (maskOf [i]) 0

theorem base_covers (n C : Nat) (tabs : List Table) (hn : g.inputs.length = n)
    (hb : Base n tabs) : Covers g obj outer C tabs 1 := by
  intro t hv _ hlen _
  cases t with
  | leaf i =>
    have : i < n := hn ▸ hv.bound i (by simp [BT.leaves])
    exact hb i this
  | node l r =>
    have := leaves_length_pos l
    have := leaves_length_pos r
    simp [BT.leaves, List.length_append] at hlen
    omega

/-- state of the sweep before processing size `m` -/
structure SweepInv (n C m : Nat) (tabs : List Table) : Prop where
  ok : TabsOK g obj outer n tabs
  base : Base n tabs
  covers : ∀ k, 1 ≤ k → k < m → Covers g obj outer C tabs k

theorem processM_scores (cap : Nat) (tabs : List Table) (m j : Nat)
    (h : ScoresLe cap (tab tabs j)) : ScoresLe cap (tab (processM g obj outer cap tabs m) j) := by
  unfold processM
  rw [tab_set]
  split
  · rename_i hh
    obtain ⟨rfl, _⟩ := hh
    exact foldl_inv _ (ScoresLe cap) _ _ h
      (fun tm k _ hP => processK_scores g obj outer cap tabs m k tm hP)
  · exact h

theorem sweep_scores (cap n : Nat) (tabs : List Table) (j : Nat)
    (h : ScoresLe cap (tab tabs j)) : ScoresLe cap (tab (sweep g obj outer cap n tabs) j) := by
  unfold sweep
  exact foldl_inv _ (fun T => ScoresLe cap (tab T j)) _ _ h
    (fun T m _ hP => processM_scores g obj outer cap T m j hP)

theorem sweep_ok (cap n : Nat) (tabs : List Table) (hok : TabsOK g obj outer n tabs) :
    TabsOK g obj outer n (sweep g obj outer cap n tabs) := by
  unfold sweep
  exact foldl_inv _ (TabsOK g obj outer n) _ _ hok
    (fun T m _ hP => processM_ok g obj outer cap n T m hP)

theorem sweep_inv (n C : Nat) (tabs : List Table) (hn : g.inputs.length = n) (hn1 : 1 ≤ n)
    (hok : TabsOK g obj outer n tabs) (hb : Base n tabs) :
    SweepInv g obj outer n C (n + 1) (sweep g obj outer C n tabs) := by
  unfold sweep
  have h := foldl_range'_inv (processM g obj outer C) (fun m tabs => SweepInv g obj outer n C m tabs)
    (n - 1) 2 tabs
    ⟨hok, hb, fun k h1 h2 => by
      have : k = 1 := by omega
      subst this
      exact base_covers g obj outer n C tabs hn hb⟩
    (by
      intro m tabs' h1 h2 hinv
      have hmn : m ≤ n := by omega
      refine ⟨processM_ok g obj outer C n tabs' m hinv.ok, ?_, ?_⟩
      · intro i hi
        rw [processM_tab_ne g obj outer C tabs' m 1 (by omega)]
        exact hinv.base i hi
      · intro k hk1 hk2
        by_cases hkm : k = m
        · subst hkm
          exact processM_covers g obj outer C n tabs' k hinv.ok h1 hmn hinv.covers
        · intro t hv ha hl hc
          rw [processM_tab_ne g obj outer C tabs' m k (fun e => hkm e.symm)]
          exact hinv.covers k hk1 (by omega) t hv ha hl hc)
  have e : 2 + (n - 1) = n + 1 := by omega
  rw [e] at h
  exact h

/-! ## the cap-doubling loop -/

/-- what is known of the tables whenever the `while` condition is evaluated -/
structure LoopInv (n : Nat) (tabs : List Table) : Prop where
  ok : TabsOK g obj outer n tabs
  base : Base n tabs
  fin : tab tabs n ≠ [] → ∃ C, ScoresLe C (tab tabs n) ∧ Covers g obj outer C tabs n

theorem has_ne_nil {T : Table} {S x : Nat} (h : Has T S x) : T ≠ [] := by
  obtain ⟨e, he, _⟩ := h
  intro hn; rw [hn] at he; cases he

theorem isEmpty_false_of_ne {T : Table} (h : T ≠ []) : T.isEmpty = false := by
  cases T with
  | nil => exact absurd rfl h
  | cons a t => rfl

theorem loop_spec (n : Nat) (hn : g.inputs.length = n) (hn1 : 1 ≤ n) (t0 : BT)
    (hf0 : Full g t0) (ha0 : Adm g outer t0) :
    ∀ (fuel cap : Nat) (tabs : List Table), 1 ≤ cap → LoopInv g obj outer n tabs →
      (tab tabs n ≠ [] ∨ (1 ≤ fuel ∧ treeCost g obj t0 < fuel + cap)) →
      ∃ tabs' cap', loop g obj outer n fuel cap tabs = some (tabs', cap') ∧
        LoopInv g obj outer n tabs' ∧ tab tabs' n ≠ [] := by
  intro fuel
  induction fuel with
  | zero =>
    intro cap tabs _ hinv h
    rcases h with h | h
    · refine ⟨tabs, cap, ?_, hinv, h⟩
      simp [loop, isEmpty_false_of_ne h]
    · omega
  | succ fuel ih =>
    intro cap tabs hcap hinv h
    by_cases hne : tab tabs n ≠ []
    · refine ⟨tabs, cap, ?_, hinv, hne⟩
      simp [loop, isEmpty_false_of_ne hne]
    · have hnil : tab tabs n = [] := by simpa using hne
      have hsw := sweep_inv g obj outer n cap tabs hn hn1 hinv.ok hinv.base
      have hsc : ScoresLe cap (tab (sweep g obj outer cap n tabs) n) :=
        sweep_scores g obj outer cap n tabs n (by rw [hnil]; intro y hy; cases hy)
      have hcov : Covers g obj outer cap (sweep g obj outer cap n tabs) n :=
        hsw.covers n hn1 (by omega)
      have hinv' : LoopInv g obj outer n (sweep g obj outer cap n tabs) :=
        ⟨hsw.ok, hsw.base, fun _ => ⟨cap, hsc, hcov⟩⟩
      have hstep : loop g obj outer n (fuel + 1) cap tabs =
          loop g obj outer n fuel (cap * 2) (sweep g obj outer cap n tabs) := by
        simp [loop, hnil]
      rw [hstep]
      apply ih (cap * 2) _ (by omega) hinv'
      by_cases hle : treeCost g obj t0 ≤ cap
      · left
        exact has_ne_nil (hcov t0 hf0.1 ha0 (hf0.2.trans hn) hle)
      · right
        rcases h with h | h
        · exact absurd h hne
        · omega

end

end C09
end Cotengra
