import CotengraVerif.Lemmas.BmmMain

/-!
  `_parse_tensordot_axes_to_matmul`: the loop over `range(ndim_b)` in closed form, and the
  well-formedness of the equation it builds.
-/
namespace Cotengra.Bmm
open Cotengra Cotengra.FA

theorem niceInd_injective : Function.Injective niceInd := by
  intro i j h
  unfold niceInd at h
  split at h <;> split at h <;> (try split at h) <;> (try split at h) <;> omega

section
variable (indsA : List Ix) (axesA axesB : List Nat) (na : Nat)

/-- the label of `a` that position `j` of `b` is contracted with -/
def lblA (j : Nat) : Ix := indsA.getD (axesA.getD (axesB.idxOf j) 0) 0

/-- number of uncontracted positions of `b` before `j` -/
def freeRank (j : Nat) : Nat := ((List.range j).filter fun x => !axesB.contains x).length

/-- the label position `j` of `b` receives -/
def tdLabel (j : Nat) : Ix :=
  if axesB.contains j then lblA indsA axesA axesB j else niceInd (na + freeRank axesB j)

/-- the labels of `a` not yet contracted away after the positions `< m` of `b` -/
def keptA (m : Nat) : List Ix :=
  indsA.filter fun y => ((List.range m).filter axesB.contains).all fun j => y != lblA indsA axesA axesB j

/-- the state of the loop after the positions `< m` -/
def tdState (m : Nat) : List Ix × List Ix × Nat :=
  ((List.range m).map (tdLabel indsA axesA axesB na),
   keptA indsA axesA axesB m ++
     ((List.range m).filter fun x => !axesB.contains x).map (tdLabel indsA axesA axesB na),
   na + freeRank axesB m)

end

variable {indsA : List Ix} {axesA axesB : List Nat} {na : Nat} {shA shB : List Nat}

theorem freeRank_succ_of_mem {m : Nat} (h : axesB.contains m = true) :
    freeRank axesB (m + 1) = freeRank axesB m := by
  simp only [freeRank, List.range_succ, List.filter_append, List.filter_cons, List.filter_nil, h,
    Bool.not_true, Bool.false_eq_true, ↓reduceIte, List.append_nil]

theorem freeRank_succ_of_not_mem {m : Nat} (h : axesB.contains m = false) :
    freeRank axesB (m + 1) = freeRank axesB m + 1 := by
  simp only [freeRank, List.range_succ, List.filter_append, List.filter_cons, List.filter_nil, h,
    Bool.not_false, ↓reduceIte, List.length_append, List.length_cons, List.length_nil]

/-- one round of the loop, in closed form -/
theorem tdLoop_step (hA : indsA.Nodup) {m : Nat} (rest : List Nat)
    (hdim : axesB.contains m = true →
      shA.getD (axesA.getD (axesB.idxOf m) 0) 0 = shB.getD m 0)
    (hin : axesB.contains m = true → lblA indsA axesA axesB m ∈ keptA indsA axesA axesB m) :
    tdLoop shA shB indsA axesA axesB (m :: rest) (tdState indsA axesA axesB na m)
      = tdLoop shA shB indsA axesA axesB rest (tdState indsA axesA axesB na (m + 1)) := by
  unfold tdState
  rw [tdLoop]
  by_cases hm : axesB.contains m = true
  · have hk := hin hm
    have hc : (keptA indsA axesA axesB m ++
        ((List.range m).filter fun x => !axesB.contains x).map (tdLabel indsA axesA axesB na)).contains
          (lblA indsA axesA axesB m) = true := by
      simp only [List.contains_iff_mem, List.mem_append]; exact Or.inl hk
    simp only [hm, ↓reduceIte, hdim hm, bne_self_eq_false, Bool.false_eq_true]
    have hc' : (keptA indsA axesA axesB m ++
        ((List.range m).filter fun x => !axesB.contains x).map (tdLabel indsA axesA axesB na)).contains
          (indsA.getD (axesA.getD (axesB.idxOf m) 0) 0) = true := hc
    simp only [hc', Bool.not_true, Bool.false_eq_true, ↓reduceIte]
    congr 2
    · -- inds_b
      simp only [List.range_succ, List.map_append, List.map_cons, List.map_nil, tdLabel, hm,
        ↓reduceIte, lblA]
    · refine Prod.ext ?_ ?_
      · -- inds_out
        show (keptA indsA axesA axesB m ++ _).erase (lblA indsA axesA axesB m) = _
        rw [List.erase_append_left _ hk]
        congr 1
        · have hnd : (keptA indsA axesA axesB m).Nodup := hA.filter _
          rw [hnd.erase_eq_filter]
          simp only [keptA, List.filter_filter, List.range_succ, List.filter_append, hm,
            List.filter_cons, ↓reduceIte, List.filter_nil, List.all_append, List.all_cons,
            List.all_nil, Bool.and_true]
          apply List.filter_congr
          intro y _
          simp only [lblA]
          rw [Bool.and_comm]
        · simp only [List.range_succ, List.filter_append, List.filter_cons, hm, Bool.not_true,
            Bool.false_eq_true, ↓reduceIte, List.filter_nil, List.append_nil]
      · simp only
        rw [freeRank_succ_of_mem hm]
  · have hm' : axesB.contains m = false := by simpa using hm
    simp only [hm', Bool.false_eq_true, ↓reduceIte]
    congr 2
    · simp only [List.range_succ, List.map_append, List.map_cons, List.map_nil, tdLabel, hm',
        Bool.false_eq_true, ↓reduceIte]
    · refine Prod.ext ?_ ?_
      · simp only
        have hk : keptA indsA axesA axesB (m + 1) = keptA indsA axesA axesB m := by
          simp only [keptA, List.range_succ, List.filter_append, List.filter_cons, hm',
            Bool.false_eq_true, ↓reduceIte, List.filter_nil, List.append_nil]
        rw [hk]
        simp only [List.range_succ, List.filter_append, List.filter_cons, hm', Bool.not_false,
          ↓reduceIte, List.filter_nil, List.map_append, List.map_cons, List.map_nil,
          List.append_assoc, tdLabel, Bool.false_eq_true]
      · simp only
        rw [freeRank_succ_of_not_mem hm']
        omega

/-- the whole loop, in closed form -/
theorem tdLoop_closed (hA : indsA.Nodup) (nb : Nat)
    (hdim : ∀ m < nb, axesB.contains m = true →
      shA.getD (axesA.getD (axesB.idxOf m) 0) 0 = shB.getD m 0)
    (hin : ∀ m < nb, axesB.contains m = true →
      lblA indsA axesA axesB m ∈ keptA indsA axesA axesB m) :
    ∀ (k m : Nat), m + k = nb →
      tdLoop shA shB indsA axesA axesB (List.range' m k) (tdState indsA axesA axesB na m)
        = some (tdState indsA axesA axesB na nb) := by
  intro k
  induction k with
  | zero =>
    intro m hm
    have : m = nb := by omega
    subst this
    simp [tdLoop]
  | succ k ih =>
    intro m hm
    rw [List.range'_succ, tdLoop_step hA _ (hdim m (by omega)) (hin m (by omega))]
    exact ih (m + 1) (by omega)


/-! ### properties of the closed form -/

theorem niceInds_getD {na x : Nat} (hx : x < na) (d : Ix) :
    ((List.range na).map niceInd).getD x d = niceInd x := by
  rw [List.getD_eq_getElem?_getD, List.getElem?_eq_getElem (by simpa using hx)]
  simp

theorem mem_niceInds {na x : Nat} : niceInd x ∈ (List.range na).map niceInd ↔ x < na := by
  constructor
  · intro h
    obtain ⟨y, hy, hxy⟩ := List.mem_map.1 h
    rw [← niceInd_injective hxy]; exact List.mem_range.1 hy
  · intro h; exact List.mem_map.2 ⟨x, List.mem_range.2 h, rfl⟩

theorem niceInds_nodup (na : Nat) : ((List.range na).map niceInd).Nodup :=
  List.Nodup.map niceInd_injective List.nodup_range

/-- hypotheses of `tensordot`: equally many distinct, in-range axes on both sides -/
structure AxesOK (axesA axesB : List Nat) (na nb : Nat) : Prop where
  len : axesA.length = axesB.length
  ndA : axesA.Nodup
  ndB : axesB.Nodup
  rA : ∀ x ∈ axesA, x < na
  rB : ∀ y ∈ axesB, y < nb

theorem axa_lt {nb : Nat} (h : AxesOK axesA axesB na nb) {j : Nat} (hj : j ∈ axesB) :
    axesA.getD (axesB.idxOf j) 0 < na := by
  have hlt : axesB.idxOf j < axesA.length := by
    rw [h.len]; exact List.idxOf_lt_length_of_mem hj
  rw [List.getD_eq_getElem?_getD, List.getElem?_eq_getElem hlt]
  exact h.rA _ (List.getElem_mem hlt)

theorem lblA_eq {nb : Nat} (h : AxesOK axesA axesB na nb) {j : Nat} (hj : j ∈ axesB) :
    lblA ((List.range na).map niceInd) axesA axesB j
      = niceInd (axesA.getD (axesB.idxOf j) 0) := by
  unfold lblA
  exact niceInds_getD (axa_lt h hj) 0

theorem lblA_inj {nb : Nat} (h : AxesOK axesA axesB na nb) {j1 j2 : Nat} (h1 : j1 ∈ axesB)
    (h2 : j2 ∈ axesB)
    (he : lblA ((List.range na).map niceInd) axesA axesB j1
      = lblA ((List.range na).map niceInd) axesA axesB j2) : j1 = j2 := by
  rw [lblA_eq h h1, lblA_eq h h2] at he
  have he' := niceInd_injective he
  have l1 : axesB.idxOf j1 < axesA.length := by
    rw [h.len]; exact List.idxOf_lt_length_of_mem h1
  have l2 : axesB.idxOf j2 < axesA.length := by
    rw [h.len]; exact List.idxOf_lt_length_of_mem h2
  rw [List.getD_eq_getElem?_getD, List.getD_eq_getElem?_getD, List.getElem?_eq_getElem l1,
    List.getElem?_eq_getElem l2] at he'
  simp only [Option.getD_some] at he'
  have hidx : axesB.idxOf j1 = axesB.idxOf j2 := (List.Nodup.getElem_inj_iff h.ndA).1 he'
  have e1 := List.getElem_idxOf (List.idxOf_lt_length_of_mem h1)
  have e2 := List.getElem_idxOf (List.idxOf_lt_length_of_mem h2)
  rw [← e1, ← e2]
  simp [hidx]

theorem freeRank_mono {m n : Nat} (h : m ≤ n) : freeRank axesB m ≤ freeRank axesB n := by
  unfold freeRank
  exact ((List.range_sublist.2 h).filter _).length_le

theorem freeRank_lt {j1 j2 : Nat} (h : j1 < j2) (hf : axesB.contains j1 = false) :
    freeRank axesB j1 < freeRank axesB j2 := by
  have := freeRank_succ_of_not_mem hf
  have := freeRank_mono (axesB := axesB) (show j1 + 1 ≤ j2 by omega)
  omega

theorem tdLabel_inj {nb : Nat} (h : AxesOK axesA axesB na nb) {j1 j2 : Nat}
    (he : tdLabel ((List.range na).map niceInd) axesA axesB na j1
      = tdLabel ((List.range na).map niceInd) axesA axesB na j2) : j1 = j2 := by
  unfold tdLabel at he
  by_cases c1 : axesB.contains j1 = true <;> by_cases c2 : axesB.contains j2 = true
  · simp only [c1, c2, ↓reduceIte] at he
    exact lblA_inj h (by simpa using c1) (by simpa using c2) he
  · simp only [c1, c2, ↓reduceIte, Bool.false_eq_true] at he
    rw [lblA_eq h (by simpa using c1)] at he
    have := niceInd_injective he
    have := axa_lt h (j := j1) (by simpa using c1)
    omega
  · simp only [c1, c2, ↓reduceIte, Bool.false_eq_true] at he
    rw [lblA_eq h (by simpa using c2)] at he
    have := niceInd_injective he
    have := axa_lt h (j := j2) (by simpa using c2)
    omega
  · simp only [c1, c2, ↓reduceIte, Bool.false_eq_true] at he
    have hr := niceInd_injective he
    have c1' : axesB.contains j1 = false := by simpa using c1
    have c2' : axesB.contains j2 = false := by simpa using c2
    rcases Nat.lt_trichotomy j1 j2 with hlt | heq | hgt
    · have := freeRank_lt hlt c1'; omega
    · exact heq
    · have := freeRank_lt hgt c2'; omega

theorem mem_keptA {m : Nat} {y : Ix} :
    y ∈ keptA indsA axesA axesB m ↔
      y ∈ indsA ∧ ∀ j, j < m → j ∈ axesB → y ≠ lblA indsA axesA axesB j := by
  simp only [keptA, List.mem_filter, List.all_eq_true, List.mem_range, List.contains_iff_mem,
    bne_iff_ne, ne_eq, and_imp]

/-- the closed form of the loop exists and has all the properties of a tensordot equation -/
theorem tdLoop_spec {nb : Nat} (h : AxesOK axesA axesB na nb)
    (hdim : ∀ m < nb, axesB.contains m = true →
      shA.getD (axesA.getD (axesB.idxOf m) 0) 0 = shB.getD m 0) :
    ∃ B O c, tdLoop shA shB ((List.range na).map niceInd) axesA axesB (List.range nb)
        ([], (List.range na).map niceInd, na) = some (B, O, c) ∧
      B = (List.range nb).map (tdLabel ((List.range na).map niceInd) axesA axesB na) ∧
      B.Nodup ∧ O.Nodup ∧ (∀ o ∈ O, o ∈ (List.range na).map niceInd ∨ o ∈ B) := by
  have hin : ∀ m < nb, axesB.contains m = true →
      lblA ((List.range na).map niceInd) axesA axesB m ∈
        keptA ((List.range na).map niceInd) axesA axesB m := by
    intro m _ hm
    have hmB : m ∈ axesB := by simpa using hm
    rw [mem_keptA]
    refine ⟨?_, ?_⟩
    · rw [lblA_eq h hmB]; exact mem_niceInds.2 (axa_lt h hmB)
    · intro j hj hjB he
      have := lblA_inj h hmB hjB he
      omega
  have h0 : tdState ((List.range na).map niceInd) axesA axesB na 0
      = ([], (List.range na).map niceInd, na) := by
    simp [tdState, keptA, freeRank]
  have hloop := tdLoop_closed (na := na) (niceInds_nodup na) nb hdim hin nb 0 (by omega)
  rw [h0, ← List.range_eq_range'] at hloop
  refine ⟨_, _, _, hloop, rfl, ?_, ?_, ?_⟩
  · exact List.Nodup.map_on (fun a _ b _ hab => tdLabel_inj h hab) List.nodup_range
  · refine List.nodup_append.2 ⟨(niceInds_nodup na).filter _, ?_, ?_⟩
    · exact List.Nodup.map_on (fun a _ b _ hab => tdLabel_inj h hab) (List.nodup_range.filter _)
    · intro a ha b hb hab
      subst hab
      obtain ⟨j, hj, hjl⟩ := List.mem_map.1 hb
      have hjf : axesB.contains j = false := by simpa using (List.mem_filter.1 hj).2
      have hmem := (mem_keptA.1 ha).1
      rw [← hjl] at hmem
      simp only [tdLabel, hjf, Bool.false_eq_true, ↓reduceIte] at hmem
      have := mem_niceInds.1 hmem
      omega
  · intro o ho
    rcases List.mem_append.1 ho with ho | ho
    · exact Or.inl (mem_keptA.1 ho).1
    · obtain ⟨j, hj, hjl⟩ := List.mem_map.1 ho
      exact Or.inr (List.mem_map.2 ⟨j, (List.mem_filter.1 hj).1, hjl⟩)

end Cotengra.Bmm
