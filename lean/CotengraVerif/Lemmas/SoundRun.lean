import CotengraVerif.Lemmas.Sound

/-!
  Soundness of the admissibility checker along a whole program: the checker's state
  (`Axes`) and the interpreter's state (`Temps`) stay aligned, entry by entry, through the
  preprocessing and the pairwise steps; every aligned entry satisfies `EntryInv`.
-/
namespace Cotengra
open Cotengra.Net

theorem of_not_not_true {b : Bool} (h : ¬ (!b) = true) : b = true := by
  cases b <;> simp_all

/-! ### `pop?` -/

theorem pop?_perm {α : Type} (key : List Nat) (st : List (List Nat × α)) (e : List Nat × α)
    (st' : List (List Nat × α)) (h : pop? key st = some (e, st')) : st.Perm (e :: st') := by
  induction st generalizing e st' with
  | nil => simp [pop?] at h
  | cons x xs ih =>
    obtain ⟨k, v⟩ := x
    unfold pop? at h
    split at h
    · cases h; exact List.Perm.refl _
    · split at h
      · rename_i e' rest' hp
        cases h
        exact ((ih _ _ hp).cons _).trans (List.Perm.swap _ _ _)
      · cases h

theorem pop?_sameSet {α : Type} (key : List Nat) (st : List (List Nat × α)) (e : List Nat × α)
    (st' : List (List Nat × α)) (h : pop? key st = some (e, st')) : sameSet e.1 key = true := by
  induction st generalizing e st' with
  | nil => simp [pop?] at h
  | cons x xs ih =>
    obtain ⟨k, v⟩ := x
    unfold pop? at h
    split at h
    · cases h; assumption
    · split at h
      · rename_i e' rest' hp
        cases h
        exact ih _ _ hp
      · cases h

/-- popping the same key from two aligned states yields aligned results -/
theorem pop?_rel {α β : Type} (Rel : List Nat → α → β → Prop) (key : List Nat)
    (cs : List (List Nat × α)) (rs : List (List Nat × β))
    (h : List.Forall₂ (fun c r => c.1 = r.1 ∧ Rel c.1 c.2 r.2) cs rs)
    (k : List Nat) (x : α) (cs' : List (List Nat × α)) (hp : pop? key cs = some ((k, x), cs')) :
    ∃ y rs', pop? key rs = some ((k, y), rs') ∧ Rel k x y ∧
      List.Forall₂ (fun c r => c.1 = r.1 ∧ Rel c.1 c.2 r.2) cs' rs' := by
  induction h generalizing k x cs' with
  | nil => simp [pop?] at hp
  | @cons c r cs rs hcr _ ih =>
    obtain ⟨ck, cv⟩ := c
    obtain ⟨rk, rv⟩ := r
    obtain ⟨hk, hrel⟩ := hcr
    simp only at hk hrel
    subst hk
    unfold pop? at hp ⊢
    split at hp
    · rename_i hs
      cases hp
      simp only [hs, if_true]
      exact ⟨rv, rs, rfl, hrel, by assumption⟩
    · rename_i hs
      simp only [hs]
      split at hp
      · rename_i e' rest' hp'
        cases hp
        obtain ⟨y, rs', h1, h2, h3⟩ := ih _ _ _ hp'
        refine ⟨y, (ck, rv) :: rs', ?_, h2, List.Forall₂.cons ⟨rfl, hrel⟩ h3⟩
        simp [h1]
      · cases hp

/-- all leaves held by a checker state -/
def keysOf {α : Type} (cs : List (List Nat × α)) : List Nat := (cs.map (·.1)).flatten

theorem keysOf_perm {α : Type} {a b : List (List Nat × α)} (h : a.Perm b) :
    (keysOf a).Perm (keysOf b) := by
  unfold keysOf
  exact (h.map _).flatten

theorem keysOf_cons {α : Type} (e : List Nat × α) (cs : List (List Nat × α)) :
    keysOf (e :: cs) = e.1 ++ keysOf cs := by
  simp [keysOf]

theorem sameSet_iff (a b : List Nat) : sameSet a b = true ↔ ∀ x, x ∈ a ↔ x ∈ b := by
  simp only [sameSet, Bool.and_eq_true, List.all_eq_true, List.contains_iff_mem]
  constructor
  · rintro ⟨h1, h2⟩ x
    exact ⟨h1 x, h2 x⟩
  · intro h
    exact ⟨fun x hx => (h x).1 hx, fun x hx => (h x).2 hx⟩

/-- a duplicate-free list with the members and the length of another duplicate-free list is a
    permutation of it -/
theorem perm_of_sameSet {a b : List Nat} (ha : a.Nodup) (hs : sameSet a b = true)
    (hl : a.length = b.length) : a.Perm b := by
  have hsub : a ⊆ b := fun x hx => ((sameSet_iff a b).1 hs x).1 hx
  exact (List.subperm_of_subset ha hsub).perm_of_length_le (by omega)

theorem mem_of_isPermOfRange {r : Nat} {pm : List Nat} (h : isPermOfRange r pm = true) (j : Nat)
    (hj : j < r) : j ∈ pm := by
  simp only [isPermOfRange, Bool.and_eq_true, beq_iff_eq, List.all_eq_true, decide_eq_true_eq] at h
  obtain ⟨⟨hl, hn⟩, hb⟩ := h
  have hsub : pm ⊆ List.range r := fun x hx => List.mem_range.2 (hb x hx)
  have hp : pm.Perm (List.range r) :=
    (List.subperm_of_subset ((nodupB_iff pm).1 hn) hsub).perm_of_length_le (by simp [hl])
  exact hp.mem_iff.2 (List.mem_range.2 hj)

section
variable {R : Type} [CommSemiring R]

/-- checker state and interpreter state are aligned and every entry satisfies the invariant -/
def StRel (n : Net) (rm : List Ix) (A : Nat → Arr R) (cs : Axes) (rs : Temps R) : Prop :=
  List.Forall₂ (fun c r => c.1 = r.1 ∧ EntryInv n rm A c.1 c.2 r.2) cs rs

/-- the pairwise operation of an accepted recipe preserves the invariant -/
theorem recipe_step (n : Net) (rm : List Ix) (A : Nat → Arr R) {L Rr P : List Nat}
    {axL axR axP : List Nat} {a b : Arr R} (rc : Recipe)
    (invL : EntryInv n rm A L axL a) (invR : EntryInv n rm A Rr axR b)
    (hP : P.Perm (L ++ Rr)) (hd : (L ++ Rr).Nodup)
    (h : recipeAxes n rm P rc axL axR = .ok axP) :
    ∃ p, applyRecipe rc a b = some p ∧ EntryInv n rm A P axP p := by
  cases rc with
  | einsum lA lB out =>
    simp only [recipeAxes] at h
    split at h
    · cases h
    · rename_i ax0 hb
      split at h
      · rename_i hcc
        cases h
        obtain ⟨B, rfl, hlA, hlB⟩ := binaryAxes_ok hb
        exact binary_step n rm A invL invR hP hd B hlA hlB ((closedCheck_iff n rm P _ _).1 hcc)
      · cases h
  | tdot axA axB perm =>
    simp only [recipeAxes] at h
    split at h
    · cases h
    · rename_i hok0
      have hok := of_not_not_true hok0
      split at h
      · cases h
      · rename_i ax0 hb
        split at h
        · cases h
        · rename_i hcc0
          have hcc := of_not_not_true hcc0
          obtain ⟨B, rfl, hlA, hlB⟩ := binaryAxes_ok hb
          obtain ⟨p0, hp0, inv0⟩ :=
            binary_step n rm A invL invR hP hd B hlA hlB ((closedCheck_iff n rm P _ _).1 hcc)
          have hla : a.shape.length = axL.length := by rw [invL.shape, List.length_map]
          have hlb : b.shape.length = axR.length := by rw [invR.shape, List.length_map]
          have htd : tensordot axA axB a b = some p0 := by
            simp only [tensordot, hla, hlb, hok, if_true]
            exact hp0
          simp only [applyRecipe, htd]
          split at h
          · cases h; exact ⟨p0, rfl, inv0⟩
          · cases h; exact ⟨p0, rfl, inv0⟩
          · rename_i pm hne
            split at h
            · cases h
            · rename_i hpm0
              have hpm := of_not_not_true hpm0
              split at h
              · cases h
              · rename_i axP' hu
                cases h
                obtain ⟨B', rfl⟩ := unaryAxes_ok hu
                have hl0 : p0.shape.length =
                    (List.map B.phi (tdotLabels axL.length axR.length axA axB).2.2).length := by
                  rw [inv0.shape, List.length_map]
                have hc' : ∀ ix ∈ List.map B.phi (tdotLabels axL.length axR.length axA axB).2.2,
                    ix ∉ List.map B'.phi pm → n.cntL rm P ix = n.app ix := by
                  intro ix hix hno
                  exfalso
                  obtain ⟨l, hl, e⟩ := B'.exists_label hix
                  have hlt := List.mem_range.1 hl
                  exact hno (List.mem_map.2 ⟨l, mem_of_isPermOfRange hpm l hlt, e⟩)
                obtain ⟨p, hp, inv⟩ := unary_step n rm A inv0 B' hc'
                refine ⟨p, ?_, inv⟩
                simp only [transpose, hl0, hpm, if_true]
                exact hp

/-- preprocessing steps -/
theorem checkPre_sound (n : Net) (rm : List Ix) (A : Nat → Arr R) (pre : List PreStep)
    (cs : Axes) (rs : Temps R) (hrel : StRel n rm A cs rs) (hk : (keysOf cs).Nodup) (cs' : Axes)
    (h : checkPre n rm cs pre = .ok cs') :
    ∃ rs', runPre rs pre = .ok rs' ∧ StRel n rm A cs' rs' ∧ (keysOf cs').Nodup := by
  induction pre generalizing cs rs with
  | nil =>
    simp only [checkPre] at h
    cases h
    exact ⟨rs, rfl, hrel, hk⟩
  | cons p ps ih =>
    simp only [checkPre] at h
    split at h
    · cases h
    · rename_i k ax rest hpop
      split at h
      · cases h
      · rename_i ax' hu
        split at h
        · rename_i hcc
          obtain ⟨a, rs1, hpop', inv, hrest⟩ := pop?_rel _ _ cs rs hrel k ax rest hpop
          obtain ⟨B, rfl⟩ := unaryAxes_ok hu
          obtain ⟨a', ha', inv'⟩ :=
            unary_step n rm A inv B ((closedCheck_iff n rm k _ _).1 hcc)
          have hk' : (keysOf ((k, List.map B.phi p.out) :: rest)).Nodup := by
            have := (keysOf_perm (pop?_perm _ _ _ _ hpop)).nodup_iff.1 hk
            simpa [keysOf_cons] using this
          obtain ⟨rs', hr, hrel', hk''⟩ :=
            ih _ ((k, a') :: rs1) (List.Forall₂.cons ⟨rfl, inv'⟩ hrest) hk' h
          refine ⟨rs', ?_, hrel', hk''⟩
          simp only [runPre, hpop', ha']
          exact hr
        · cases h

/-- the interpreter's `p_array` is the array of the entry stored last -/
def HeadLast (rs : Temps R) (last : Option (Arr R)) : Prop :=
  ∃ k a rest, rs = (k, a) :: rest ∧ last = some a

/-- pairwise steps -/
theorem checkSteps_sound (n : Net) (rm : List Ix) (A : Nat → Arr R) (steps : List Step)
    (cs : Axes) (rs : Temps R) (last : Option (Arr R)) (hrel : StRel n rm A cs rs)
    (hk : (keysOf cs).Nodup) (cs' : Axes) (h : checkSteps n rm cs steps = .ok cs') :
    ∃ rs' last', runSteps rs last steps = .ok (rs', last') ∧ StRel n rm A cs' rs' ∧
      (keysOf cs').Nodup ∧ ((HeadLast rs last ∨ steps ≠ []) → HeadLast rs' last') := by
  induction steps generalizing cs rs last with
  | nil =>
    simp only [checkSteps] at h
    cases h
    refine ⟨rs, last, rfl, hrel, hk, ?_⟩
    rintro (h | h)
    · exact h
    · exact absurd rfl h
  | cons s ss ih =>
    simp only [checkSteps] at h
    split at h
    · cases h
    · rename_i kL axL cs1 hpopL
      split at h
      · cases h
      · rename_i kR axR cs2 hpopR
        split at h
        · cases h
        · rename_i hpar0
          have hpar : (nodupB s.parent && sameSet s.parent (kL ++ kR) &&
              s.parent.length == kL.length + kR.length) = true := by
            cases hc : (nodupB s.parent && sameSet s.parent (kL ++ kR) &&
              s.parent.length == kL.length + kR.length)
            · simp [hc] at hpar0
            · rfl
          simp only [Bool.and_eq_true, beq_iff_eq] at hpar
          obtain ⟨⟨hnP, hsP⟩, hlP⟩ := hpar
          split at h
          · cases h
          · rename_i axP hrc
            obtain ⟨a, rs1, hpopL', invL, hrel1⟩ := pop?_rel _ _ cs rs hrel kL axL cs1 hpopL
            obtain ⟨b, rs2, hpopR', invR, hrel2⟩ := pop?_rel _ _ cs1 rs1 hrel1 kR axR cs2 hpopR
            have hk1 : (kL ++ keysOf cs1).Nodup := by
              have := (keysOf_perm (pop?_perm _ _ _ _ hpopL)).nodup_iff.1 hk
              simpa [keysOf_cons] using this
            have hk2 : (kL ++ (kR ++ keysOf cs2)).Nodup := by
              have h2 := keysOf_perm (pop?_perm _ _ _ _ hpopR)
              rw [keysOf_cons] at h2
              exact ((List.Perm.append_left kL h2).nodup_iff).1 hk1
            have hdLR : (kL ++ kR).Nodup := by
              rw [← List.append_assoc] at hk2
              exact (List.nodup_append.1 hk2).1
            have hP : s.parent.Perm (kL ++ kR) :=
              perm_of_sameSet ((nodupB_iff _).1 hnP) hsP (by simpa using hlP)
            obtain ⟨pa, hpa, invP⟩ := recipe_step n rm A s.recipe invL invR hP hdLR hrc
            have hk' : (keysOf ((s.parent, axP) :: cs2)).Nodup := by
              rw [keysOf_cons]
              rw [← List.append_assoc] at hk2
              exact ((List.Perm.append_right (keysOf cs2) hP).nodup_iff).2 hk2
            obtain ⟨rs', last', hr, hrel', hk'', hl⟩ :=
              ih _ ((s.parent, pa) :: rs2) (some pa)
                (List.Forall₂.cons ⟨rfl, invP⟩ hrel2) hk' h
            refine ⟨rs', last', ?_, hrel', hk'', fun _ => hl (Or.inl ⟨_, _, _, rfl, rfl⟩)⟩
            simp only [runSteps, hpopL', hpopR', hpa]
            exact hr

/-- the initial states are aligned -/
theorem init_rel (n : Net) (rm : List Ix) (arrays : List (Arr R)) (A : Nat → Arr R)
    (hlen : arrays.length = n.inputs.length) (hA : ∀ i (h : i < arrays.length), A i = arrays[i])
    (hw : ∀ i (h : i < arrays.length), (arrays[i]).shape = (n.termRm rm i).map n.size) :
    StRel n rm A (n.initAxes rm) (initTemps arrays) := by
  unfold StRel initAxes initTemps
  rw [← hlen]
  rw [List.forall₂_iff_get]
  refine ⟨by simp, ?_⟩
  intro i h1 h2
  simp only [List.get_eq_getElem, List.getElem_map, List.getElem_range, List.getElem_zipIdx,
    Nat.zero_add, true_and]
  have hi : i < arrays.length := by simpa using h1
  have hin : i < n.inputs.length := hlen ▸ hi
  refine ⟨by simp, ?_, ?_, ?_, ?_, ?_⟩
  · intro j hj
    simp only [List.mem_singleton] at hj
    exact hj ▸ hin
  · exact hw i hi
  · intro ix hix
    exact (Net.mem_occL n rm [i] ix).2 ⟨i, by simp, hix⟩
  · intro ix hocc hno
    obtain ⟨j, hj, hx⟩ := (Net.mem_occL n rm [i] ix).1 hocc
    simp only [List.mem_singleton] at hj
    subst hj
    exact absurd hx hno
  · intro σ
    have hm : n.missing rm [i] (n.termRm rm i) = [] := by
      rw [List.eq_nil_iff_forall_not_mem]
      intro ix hix
      obtain ⟨hocc, hno⟩ := (Net.mem_missing n rm [i] _ ix).1 hix
      obtain ⟨j, hj, hx⟩ := (Net.mem_occL n rm [i] ix).1 hocc
      simp only [List.mem_singleton] at hj
      subst hj
      exact hno hx
    rw [hm]
    simp only [sumOver, Net.prodS, prodOver, List.foldr_cons, List.foldr_nil, mul_one]
    rw [hA i hi]

theorem keysOf_init (n : Net) (rm : List Ix) : keysOf (n.initAxes rm) = List.range n.inputs.length := by
  unfold keysOf initAxes
  rw [List.map_map]
  induction n.inputs.length with
  | zero => simp
  | succ k ih =>
    rw [List.range_succ, List.map_append, List.flatten_append, ih]
    simp

end
end Cotengra
